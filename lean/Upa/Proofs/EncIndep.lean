import Upa.Proofs.Utf
import Upa.Impl.Api
import Upa.Impl.CanParse
import Upa.Impl.FilePath
/-
  Helpers for C10b — the decoder theorems of `Upa/Proofs/Utf.lean` lifted to the API level
  (`Upa/Impl/Api.lean`): trimming and tab/newline removal commute with every encoder, so the parser sees
  the same scalar value string whatever the encoding; ill-formed input is parsed as the text obtained by
  the Standard's replacement, taken after tab/newline removal.
-/
namespace Upa.Proofs.C10b
open Upa Upa.Impl

/-! ## 1. a per-character encoder that is transparent for a predicate on ASCII units -/

/-- a character with `p` is encoded as itself, any other as a non-empty sequence of units without `p` -/
def Transparent (p : Nat → Bool) (f : Nat → List Nat) : Prop :=
  ∀ c, (p c = true → f c = [c]) ∧ (p c = false → f c ≠ [] ∧ ∀ x ∈ f c, p x = false)

theorem Transparent.reverse {p : Nat → Bool} {f : Nat → List Nat} (h : Transparent p f) :
    Transparent p (List.reverse ∘ f) := by
  intro c
  refine ⟨fun hp => ?_, fun hp => ⟨?_, ?_⟩⟩
  · simp [Function.comp, (h c).1 hp]
  · simpa [Function.comp] using ((h c).2 hp).1
  · intro x hx
    exact ((h c).2 hp).2 x (by simpa [Function.comp] using hx)

theorem dropWhile_flatMap {p : Nat → Bool} {f : Nat → List Nat} (h : Transparent p f) (s : List Nat) :
    (s.flatMap f).dropWhile p = (s.dropWhile p).flatMap f := by
  induction s with
  | nil => rfl
  | cons c r ih =>
    cases hp : p c with
    | true =>
      rw [List.flatMap_cons, (h c).1 hp, List.dropWhile_cons_of_pos hp]
      simp [hp, ih]
    | false =>
      obtain ⟨hne, hall⟩ := (h c).2 hp
      rw [List.dropWhile_cons_of_neg (by simp [hp]), List.flatMap_cons]
      match hfc : f c, hne with
      | x :: xs, _ =>
        have hx : p x = false := hall x (by rw [hfc]; simp)
        rw [List.cons_append, List.dropWhile_cons_of_neg (by simp [hx])]

theorem reverse_comp_reverse (f : Nat → List Nat) : List.reverse ∘ (List.reverse ∘ f) = f := by
  funext c; simp [Function.comp]

/-- trimming on both ends commutes with a transparent encoder -/
theorem trim_flatMap {p : Nat → Bool} {f : Nat → List Nat} (h : Transparent p f) (s : List Nat) :
    (((s.flatMap f).dropWhile p).reverse.dropWhile p).reverse =
      (((s.dropWhile p).reverse.dropWhile p).reverse).flatMap f := by
  rw [dropWhile_flatMap h, List.reverse_flatMap, dropWhile_flatMap h.reverse, List.reverse_flatMap,
    reverse_comp_reverse]

theorem filter_flatMap_tr {p : Nat → Bool} {f : Nat → List Nat} (h : Transparent p f) (s : List Nat) :
    (s.flatMap f).filter (fun c => !p c) = (s.filter (fun c => !p c)).flatMap f := by
  induction s with
  | nil => rfl
  | cons c r ih =>
    rw [List.flatMap_cons, List.filter_append, ih]
    cases hp : p c with
    | true => simp [(h c).1 hp, hp]
    | false =>
      have : (f c).filter (fun c => !p c) = f c :=
        List.filter_eq_self.2 (fun a ha => by simp [((h c).2 hp).2 a ha])
      simp [this, hp]

/-! ## 2. the three encoders are transparent for every predicate that holds on ASCII units only -/

/-- `Spec.encode e` as a per-character map -/
def encChar : Enc → Nat → List Nat
  | .u8 => Spec.utf8EncodeChar
  | .u16 => Spec.utf16EncodeChar
  | .u32 => fun c => [c]

theorem encode_flatMap (e : Enc) (s : List Nat) : Spec.encode e s = s.flatMap (encChar e) := by
  cases e
  · rfl
  · rfl
  · simp [Spec.encode, encChar]

theorem encChar_ascii (e : Enc) (c : Nat) (h : c < 0x80) : encChar e c = [c] := by
  cases e
  · simp [encChar, Spec.utf8EncodeChar]; omega
  · simp [encChar, Spec.utf16EncodeChar]; omega
  · rfl

theorem encChar_nonascii (e : Enc) (c : Nat) (h : ¬ c < 0x80) :
    encChar e c ≠ [] ∧ ∀ x ∈ encChar e c, 0x80 ≤ x := by
  cases e
  · simp only [encChar, Spec.utf8EncodeChar]
    split
    · omega
    · split
      · simp; omega
      · split <;> (simp; omega)
  · simp only [encChar, Spec.utf16EncodeChar]
    split <;> (simp; omega)
  · simp [encChar]; omega

/-- predicates that hold on ASCII units only -/
def AsciiPred (p : Nat → Bool) : Prop := ∀ c, p c = true → c < 0x80

theorem encChar_transparent (e : Enc) {p : Nat → Bool} (hp : AsciiPred p) : Transparent p (encChar e) := by
  intro c
  refine ⟨fun h => encChar_ascii e c (hp c h), fun h => ?_⟩
  by_cases hc : c < 0x80
  · rw [encChar_ascii e c hc]
    exact ⟨by simp, fun x hx => by simp at hx; rw [hx]; exact h⟩
  · obtain ⟨hne, hall⟩ := encChar_nonascii e c hc
    refine ⟨hne, fun x hx => ?_⟩
    cases hpx : p x with
    | false => rfl
    | true => have := hp x hpx; have := hall x hx; omega

theorem isTrimChar_ascii : AsciiPred isTrimChar := by
  intro c h; simp [isTrimChar] at h; omega

theorem isRemovable_ascii : AsciiPred isRemovable := by
  intro c h; simp [isRemovable] at h; omega

theorem doTrim_encode (e : Enc) (s : List Nat) : doTrim (Spec.encode e s) = Spec.encode e (doTrim s) := by
  rw [encode_flatMap, encode_flatMap]
  exact trim_flatMap (encChar_transparent e isTrimChar_ascii) s

theorem removeWs_encode (e : Enc) (s : List Nat) : removeWs (Spec.encode e s) = Spec.encode e (removeWs s) := by
  rw [encode_flatMap, encode_flatMap]
  exact filter_flatMap_tr (encChar_transparent e isRemovable_ascii) s

/-! ### the raw-unit tests of the setters -/

theorem encode_nil (e : Enc) : Spec.encode e [] = [] := by cases e <;> rfl

theorem encode_cons (e : Enc) (c : Nat) (r : List Nat) :
    Spec.encode e (c :: r) = encChar e c ++ Spec.encode e r := by
  rw [encode_flatMap, encode_flatMap, List.flatMap_cons]

theorem encode_cons_ascii (e : Enc) (c : Nat) (r : List Nat) (h : c < 0x80) :
    Spec.encode e (c :: r) = c :: Spec.encode e r := by
  rw [encode_cons, encChar_ascii e c h]; rfl

theorem encode_cons_nonascii (e : Enc) (c : Nat) (r : List Nat) (h : ¬ c < 0x80) :
    ∃ x xs, Spec.encode e (c :: r) = x :: xs ∧ 0x80 ≤ x := by
  obtain ⟨hne, hall⟩ := encChar_nonascii e c h
  rw [encode_cons]
  match hfc : encChar e c, hne with
  | x :: xs, _ => exact ⟨x, xs ++ Spec.encode e r, rfl, hall x (by rw [hfc]; simp)⟩

theorem encode_eq_nil_iff (e : Enc) (s : List Nat) : Spec.encode e s = [] ↔ s = [] := by
  constructor
  · intro h
    cases s with
    | nil => rfl
    | cons c r =>
      by_cases hc : c < 0x80
      · rw [encode_cons_ascii e c r hc] at h; cases h
      · obtain ⟨x, xs, hx, _⟩ := encode_cons_nonascii e c r hc
        rw [hx] at h; cases h
  · intro h; rw [h, encode_nil]

/-- the head unit is the ASCII character `a` iff the head scalar value is -/
theorem encode_head (e : Enc) (a : Nat) (ha : a < 0x80) (c : Nat) (r : List Nat) :
    (c = a ∧ Spec.encode e (c :: r) = a :: Spec.encode e r) ∨
    (c ≠ a ∧ ∃ x xs, Spec.encode e (c :: r) = x :: xs ∧ x ≠ a) := by
  by_cases hca : c = a
  · left; subst hca; exact ⟨rfl, encode_cons_ascii e c r ha⟩
  · right
    refine ⟨hca, ?_⟩
    by_cases hc : c < 0x80
    · exact ⟨c, Spec.encode e r, encode_cons_ascii e c r hc, hca⟩
    · obtain ⟨x, xs, hx, hge⟩ := encode_cons_nonascii e c r hc
      exact ⟨x, xs, hx, by omega⟩

/-! ## 3. well-formed text: every API sees the same scalar value string -/

/-- scalar value strings -/
def Scalars (s : List Nat) : Prop := ∀ c ∈ s, Spec.isScalar c = true

theorem Scalars.removeWs {s : List Nat} (h : Scalars s) : Scalars (removeWs s) :=
  fun c hc => h c (List.mem_filter.1 hc).1

theorem mem_doTrim {s : List Nat} {c : Nat} (hc : c ∈ doTrim s) : c ∈ s := by
  unfold doTrim at hc
  rw [List.mem_reverse] at hc
  have h1 := (List.dropWhile_sublist isTrimChar).subset hc
  rw [List.mem_reverse] at h1
  exact (List.dropWhile_sublist isTrimChar).subset h1

theorem Scalars.doTrim {s : List Nat} (h : Scalars s) : Scalars (doTrim s) :=
  fun c hc => h c (mem_doTrim hc)

theorem decode_u32_self {s : List Nat} (h : Scalars s) : decode .u32 s = s :=
  decode_encode .u32 s h

/-- `prep` of encoded text is the text without tab/newline -/
theorem prep_encode (e : Enc) (s : List Nat) (h : Scalars s) : prep e (Spec.encode e s) = removeWs s := by
  unfold prep
  rw [removeWs_encode, decode_encode e _ h.removeWs]

theorem prep_encode_u32 (e : Enc) (s : List Nat) (h : Scalars s) :
    prep e (Spec.encode e s) = prep .u32 s := by
  rw [prep_encode e s h]
  exact (prep_encode .u32 s h).symm

theorem prep_trim_encode (e : Enc) (s : List Nat) (h : Scalars s) :
    prep e (doTrim (Spec.encode e s)) = removeWs (doTrim s) := by
  rw [doTrim_encode, prep_encode e _ h.doTrim]

theorem prep_trim_encode_u32 (e : Enc) (s : List Nat) (h : Scalars s) :
    prep e (doTrim (Spec.encode e s)) = prep .u32 (doTrim s) := by
  rw [prep_trim_encode e s h]
  exact (prep_encode .u32 _ h.doTrim).symm

theorem parse_encode (idna : Idna) (e : Enc) (s : List Nat) (base : Option Url) (h : Scalars s) :
    parse idna e (Spec.encode e s) base = parse idna .u32 s base := by
  unfold parse
  rw [prep_trim_encode_u32 e s h]

theorem canParse_encode (idna : Idna) (e : Enc) (s : List Nat) (base : Option Url) (h : Scalars s) :
    canParse idna e (Spec.encode e s) base = canParse idna .u32 s base := by
  unfold canParse
  rw [prep_trim_encode_u32 e s h]

theorem decode_encode_u32 (e : Enc) (s : List Nat) (h : Scalars s) :
    decode e (Spec.encode e s) = decode .u32 s := by
  rw [decode_encode e s h, decode_u32_self h]

theorem Scalars.tail {c : Nat} {r : List Nat} (h : Scalars (c :: r)) : Scalars r :=
  fun x hx => h x (List.mem_cons_of_mem _ hx)

/-- the search / hash setters: the raw-unit test for one leading `?` / `#` -/
theorem strip_lead_encode {α : Type} (e : Enc) (a : Nat) (ha : a < 0x80) (F : List Nat → α) (nil : α)
    (s : List Nat) : Scalars s →
    (match Spec.encode e s with
     | [] => nil
     | c :: r => F (prep e (if c = a then r else Spec.encode e s))) =
    (match s with
     | [] => nil
     | c :: r => F (prep .u32 (if c = a then r else s))) := by
  intro h
  cases s with
  | nil => rw [encode_nil]
  | cons c r =>
    rcases encode_head e a ha c r with ⟨hc, henc⟩ | ⟨hc, x, xs, henc, hx⟩
    · rw [henc]
      simp only [if_pos hc, if_true]
      rw [prep_encode_u32 e r h.tail]
    · have hp := prep_encode_u32 e (c :: r) h
      rw [henc] at hp ⊢
      simp only [if_neg hc, if_neg hx]
      rw [hp]

theorem setValid_encode (idna : Idna) (st : Setter) (e : Enc) (s : List Nat) (u : Url) (h : Scalars s) :
    setValid idna st e (Spec.encode e s) u = setValid idna st .u32 s u := by
  have hp := prep_encode_u32 e s h
  have hd := decode_encode_u32 e s h
  cases st
  case href => simp only [setValid, parse_encode idna e s none h]
  case protocol => simp only [setValid, hp]
  case username => simp only [setValid, hd]
  case password => simp only [setValid, hd]
  case host => simp only [setValid, hp]
  case hostname => simp only [setValid, hp]
  case port => simp only [setValid, hp, encode_eq_nil_iff]
  case pathname => simp only [setValid, hp]
  case search =>
    simp only [setValid]
    exact strip_lead_encode e 0x3F (by decide)
      (fun p => ((urlParse idna none (some .query) u p).url, (urlParse idna none (some .query) u p).out == Outcome.ok))
      _ s h
  case hash =>
    simp only [setValid]
    exact strip_lead_encode e 0x23 (by decide)
      (fun p => ((urlParse idna none (some .fragment) u p).url,
        (urlParse idna none (some .fragment) u p).out == Outcome.ok)) _ s h

theorem objParse_encode (idna : Idna) (o : UrlObj) (e : Enc) (s : List Nat) (base : Option (Option Url))
    (h : Scalars s) : UrlObj.parse idna o e (Spec.encode e s) base = UrlObj.parse idna o .u32 s base := by
  simp only [UrlObj.parse, parse_encode idna e s _ h]

theorem objSet_encode (idna : Idna) (o : UrlObj) (st : Setter) (e : Enc) (s : List Nat) (h : Scalars s) :
    UrlObj.set idna o st e (Spec.encode e s) = UrlObj.set idna o st .u32 s := by
  cases st <;>
    simp only [UrlObj.set, parse_encode idna e s none h, setValid_encode idna _ e s _ h, encode_eq_nil_iff]

theorem makeString_encode (e : Enc) (s : List Nat) (h : Scalars s) :
    makeString e (Spec.encode e s) = Spec.utf8Encode s := by
  cases e
  · rfl
  · simp only [makeString]; rw [decode_encode .u16 s h, encodeUtf8_eq s h]
  · simp only [makeString]; rw [decode_encode .u32 s h, encodeUtf8_eq s h]

/-! ## 4. ill-formed input: what one decoder step can produce -/

/-- code units are in the range of their character type (= `Upa.Props.UnitsOk`) -/
def UOk : Enc → List Nat → Prop
  | .u8, l => ∀ x ∈ l, x < 256
  | .u16, l => ∀ x ∈ l, x < 65536
  | .u32, _ => True

theorem UOk.subset {e : Enc} {l l' : List Nat} (h : UOk e l) (hs : ∀ x ∈ l', x ∈ l) : UOk e l' := by
  cases e
  · exact fun x hx => h x (hs x hx)
  · exact fun x hx => h x (hs x hx)
  · trivial

/-- the code point delivered by one `read_utf_char` -/
def cpOf (r : Bool × Nat × List Nat) : Nat := if r.1 then r.2.1 else 0xFFFD

theorem readU8A_cp (l : List Nat) (hne : l ≠ []) :
    Spec.isScalar (cpOf (readU8A l)) = true ∧
      (cpOf (readU8A l) < 0x80 → l = cpOf (readU8A l) :: (readU8A l).2.2) := by
  fun_cases readU8A l
  all_goals first
    | exact absurd rfl hne
    | (simp only [cpOf, isScalar_iff]; simp; done)
    | (simp only [cpOf, isScalar_iff]; simp; omega)

theorem readU16A_cp (l : List Nat) (hne : l ≠ []) (hl : ∀ x ∈ l, x < 65536) :
    Spec.isScalar (cpOf (readU16A l)) = true ∧
      (cpOf (readU16A l) < 0x80 → l = cpOf (readU16A l) :: (readU16A l).2.2) := by
  fun_cases readU16A l
  all_goals first
    | exact absurd rfl hne
    | (simp only [cpOf, isScalar_iff]; simp; done)
    | (simp only [cpOf, isScalar_iff]; simp; omega)
    | (have := hl _ List.mem_cons_self; simp only [cpOf, isScalar_iff]; simp; omega)

theorem readU32_cp (l : List Nat) (hne : l ≠ []) :
    Spec.isScalar (cpOf (readU32 l)) = true ∧
      (cpOf (readU32 l) < 0x80 → l = cpOf (readU32 l) :: (readU32 l).2.2) := by
  match l, hne with
  | c :: r, _ =>
    have hr : readU32 (c :: r) =
        (decide (c < 0xD800) || (decide (c > 0xDFFF) && decide (c ≤ 0x10FFFF)), c, r) := rfl
    rw [hr]
    generalize hb : (decide (c < 0xD800) || (decide (c > 0xDFFF) && decide (c ≤ 0x10FFFF))) = b
    cases b
    · exact ⟨by simp [cpOf, Spec.isScalar, Spec.isSurrogate], fun h => by simp [cpOf] at h⟩
    · simp at hb
      exact ⟨by simp only [cpOf, if_true, isScalar_iff]; omega, fun _ => rfl⟩

theorem readChar_cp (e : Enc) (l : List Nat) (hne : l ≠ []) (hl : UOk e l) :
    Spec.isScalar (cpOf (readChar e l)) = true ∧
      (cpOf (readChar e l) < 0x80 → l = cpOf (readChar e l) :: (readChar e l).2.2) := by
  cases e
  · have hr : readChar .u8 l = readU8A l := readU8_eq_readU8A l hl
    rw [hr]; exact readU8A_cp l hne
  · have hr : readChar .u16 l = readU16A l := readU16_eq_readU16A l hl
    rw [hr]; exact readU16A_cp l hne hl
  · exact readU32_cp l hne

theorem decode_step' (e : Enc) (l : List Nat) (hne : l ≠ []) :
    decode e l = cpOf (readChar e l) :: decode e (readChar e l).2.2 := decode_step e l hne

theorem UOk.rest {e : Enc} {l : List Nat} (h : UOk e l) (hne : l ≠ []) : UOk e (readChar e l).2.2 :=
  h.subset (readChar_rest_mem e l hne)

/-- decoder output is scalar values, in every encoding -/
theorem decode_scalars (e : Enc) (l : List Nat) : UOk e l → Scalars (decode e l) := by
  refine decode_induction e (fun l => UOk e l → Scalars (decode e l)) ?_ ?_ l
  · intro _ c hc; simp [decode_nil] at hc
  · intro l hne ih hl c hc
    rw [decode_step' e l hne, List.mem_cons] at hc
    rcases hc with hc | hc
    · rw [hc]; exact (readChar_cp e l hne hl).1
    · exact ih (hl.rest hne) c hc

/-- an ASCII scalar value in the output was a unit of the input -/
theorem decode_ascii_mem (e : Enc) (l : List Nat) : UOk e l → ∀ c ∈ decode e l, c < 0x80 → c ∈ l := by
  refine decode_induction e (fun l => UOk e l → ∀ c ∈ decode e l, c < 0x80 → c ∈ l) ?_ ?_ l
  · intro _ c hc; simp [decode_nil] at hc
  · intro l hne ih hl c hc hlt
    rw [decode_step' e l hne, List.mem_cons] at hc
    rcases hc with hc | hc
    · have := (readChar_cp e l hne hl).2 (hc ▸ hlt)
      rw [this, ← hc]; exact List.mem_cons_self
    · exact readChar_rest_mem e l hne c (ih (hl.rest hne) c hc hlt)

/-- an ASCII first scalar value is the first unit -/
theorem decode_head (e : Enc) (l : List Nat) (hl : UOk e l) (c : Nat)
    (hc : (decode e l).head? = some c) (hlt : c < 0x80) : l.head? = some c := by
  by_cases hne : l = []
  · subst hne; simp [decode_nil] at hc
  · rw [decode_step' e l hne, List.head?_cons] at hc
    have hc' : cpOf (readChar e l) = c := Option.some.inj hc
    have := (readChar_cp e l hne hl).2 (hc' ▸ hlt)
    rw [this, hc']; rfl

/-- an ASCII last scalar value is the last unit -/
theorem decode_last (e : Enc) (l : List Nat) : UOk e l → ∀ c,
    (decode e l).getLast? = some c → c < 0x80 → l.getLast? = some c := by
  refine decode_induction e (fun l => UOk e l → ∀ c,
    (decode e l).getLast? = some c → c < 0x80 → l.getLast? = some c) ?_ ?_ l
  · intro _ c hc; simp [decode_nil] at hc
  · intro l hne ih hl c hc hlt
    obtain ⟨pre, _, hpre⟩ := readChar_suffix e l hne
    rw [decode_step' e l hne] at hc
    by_cases hr : (readChar e l).2.2 = []
    · rw [hr, decode_nil] at hc
      have hc' : cpOf (readChar e l) = c := by simpa using hc
      have := (readChar_cp e l hne hl).2 (hc' ▸ hlt)
      rw [this, hr, hc']; rfl
    · have hd : decode e (readChar e l).2.2 ≠ [] := by
        rw [decode_step' e _ hr]; exact List.cons_ne_nil _ _
      rw [List.getLast?_cons_of_ne_nil hd] at hc
      have := ih (hl.rest hne) c hc hlt
      rw [← hpre, List.getLast?_append, this]; rfl

/-! ## 5. the decoded parser input needs no further preprocessing -/

/-- the first element, if any, is not a trim character -/
def HeadOk (l : List Nat) : Prop := ∀ c, l.head? = some c → isTrimChar c = false

/-- neither end is a trim character -/
def TrimFree (l : List Nat) : Prop := HeadOk l ∧ HeadOk l.reverse

theorem headOk_dropWhile (l : List Nat) : HeadOk (l.dropWhile isTrimChar) := by
  intro c hc
  have := List.head?_dropWhile_not isTrimChar l
  rw [hc] at this
  exact this

theorem dropWhile_self {l : List Nat} (h : HeadOk l) : l.dropWhile isTrimChar = l := by
  cases l with
  | nil => rfl
  | cons x r => exact List.dropWhile_cons_of_neg (by simp [h x rfl])

theorem doTrim_self {l : List Nat} (h : TrimFree l) : doTrim l = l := by
  unfold doTrim
  rw [dropWhile_self h.1, dropWhile_self h.2, List.reverse_reverse]

theorem trimFree_doTrim (l : List Nat) : TrimFree (doTrim l) := by
  unfold doTrim
  refine ⟨?_, ?_⟩
  · have h0 := headOk_dropWhile l
    generalize l.dropWhile isTrimChar = a at h0
    cases a with
    | nil => intro c hc; simp at hc
    | cons x r =>
      have hx : isTrimChar x = false := h0 x rfl
      have : ∃ zs, (x :: r).reverse.dropWhile isTrimChar = zs ++ [x] := by
        rw [List.reverse_cons, List.dropWhile_append]
        split
        · exact ⟨[], by rw [List.dropWhile_cons_of_neg (by simp [hx])]; rfl⟩
        · exact ⟨_, rfl⟩
      obtain ⟨zs, hz⟩ := this
      rw [hz]
      intro c hc
      simp at hc
      rw [← hc]; exact hx
  · rw [List.reverse_reverse]; exact headOk_dropWhile _

theorem headOk_removeWs {l : List Nat} (h : HeadOk l) : HeadOk (removeWs l) := by
  cases l with
  | nil => intro c hc; simp [removeWs] at hc
  | cons x r =>
    have hx : isTrimChar x = false := h x rfl
    have hr : isRemovable x = false := by
      cases hb : isRemovable x with
      | false => rfl
      | true =>
        have : isTrimChar x = true := by
          simp [isRemovable] at hb; simp [isTrimChar]; omega
        rw [this] at hx; cases hx
    intro c hc
    have : removeWs (x :: r) = x :: removeWs r := by simp [removeWs, hr]
    rw [this] at hc
    rw [← Option.some.inj hc]; exact hx

theorem trimFree_removeWs {l : List Nat} (h : TrimFree l) : TrimFree (removeWs l) := by
  refine ⟨headOk_removeWs h.1, ?_⟩
  have : (removeWs l).reverse = removeWs l.reverse := by simp [removeWs]
  rw [this]
  exact headOk_removeWs h.2

theorem trimFree_decode (e : Enc) {l : List Nat} (hl : UOk e l) (h : TrimFree l) : TrimFree (decode e l) := by
  refine ⟨?_, ?_⟩
  · intro c hc
    cases ht : isTrimChar c with
    | false => rfl
    | true =>
      have hlt : c < 0x80 := isTrimChar_ascii c ht
      have := h.1 c (decode_head e l hl c hc hlt)
      rw [ht] at this; cases this
  · intro c hc
    rw [List.head?_reverse] at hc
    cases ht : isTrimChar c with
    | false => rfl
    | true =>
      have hlt : c < 0x80 := isTrimChar_ascii c ht
      have h2 := decode_last e l hl c hc hlt
      have := h.2 c (by rw [List.head?_reverse]; exact h2)
      rw [ht] at this; cases this

theorem UOk.removeWs {e : Enc} {l : List Nat} (h : UOk e l) : UOk e (removeWs l) :=
  h.subset (fun _ hx => (List.mem_filter.1 hx).1)

theorem UOk.doTrim {e : Enc} {l : List Nat} (h : UOk e l) : UOk e (doTrim l) :=
  h.subset (fun _ hx => mem_doTrim hx)

/-- no tab/newline survives: the decoder never produces an ASCII value that was not a unit -/
theorem removeWs_decode_self (e : Enc) (l : List Nat) (hl : UOk e l) :
    removeWs (decode e (removeWs l)) = decode e (removeWs l) := by
  refine List.filter_eq_self.2 (fun c hc => ?_)
  cases hr : isRemovable c with
  | false => rfl
  | true =>
    have hm := decode_ascii_mem e _ hl.removeWs c hc (isRemovable_ascii c hr)
    have := (List.mem_filter.1 hm).2
    rw [hr] at this; cases this

/-- the parser input computed from ill-formed units is a fixed point of the whole preprocessing
    in the UTF-32 API -/
theorem prep_u32_decoded (e : Enc) (units : List Nat) (hl : UOk e units) :
    prep .u32 (doTrim (decode e (removeWs (doTrim units)))) = decode e (removeWs (doTrim units)) := by
  have htf : TrimFree (decode e (removeWs (doTrim units))) :=
    trimFree_decode e hl.doTrim.removeWs (trimFree_removeWs (trimFree_doTrim units))
  rw [doTrim_self htf]
  unfold prep
  rw [removeWs_decode_self e _ hl.doTrim]
  exact decode_u32_self (decode_scalars e _ hl.doTrim.removeWs)

theorem parse_illformed (idna : Idna) (e : Enc) (units : List Nat) (base : Option Url) (hl : UOk e units) :
    parse idna e units base = parse idna .u32 (decode e (removeWs (doTrim units))) base := by
  unfold parse
  rw [prep_u32_decoded e units hl]
  rfl

theorem canParse_illformed (idna : Idna) (e : Enc) (units : List Nat) (base : Option Url) (hl : UOk e units) :
    canParse idna e units base = canParse idna .u32 (decode e (removeWs (doTrim units))) base := by
  unfold canParse
  rw [prep_u32_decoded e units hl]
  rfl

/-! ### setters on ill-formed input -/

/-- what the parser-based setters see is a fixed point of the UTF-32 preprocessing -/
theorem prep_u32_prep (e : Enc) (units : List Nat) (hl : UOk e units) :
    prep .u32 (decode e (removeWs units)) = prep e units := by
  unfold prep
  rw [removeWs_decode_self e _ hl]
  exact decode_u32_self (decode_scalars e _ hl.removeWs)

/-- protocol, host, hostname, pathname: the value is the Standard's conversion taken after
    tab/newline removal -/
theorem setValid_illformed_run (idna : Idna) (st : Setter) (e : Enc) (units : List Nat) (u : Url)
    (hl : UOk e units) (hst : st = .protocol ∨ st = .host ∨ st = .hostname ∨ st = .pathname) :
    setValid idna st e units u = setValid idna st .u32 (decode e (removeWs units)) u := by
  have hp := prep_u32_prep e units hl
  rcases hst with h | h | h | h <;> subst h <;> simp only [setValid, hp]

/-- username, password: the value is the plain conversion (tab/newline are kept and encoded) -/
theorem setValid_illformed_cred (idna : Idna) (st : Setter) (e : Enc) (units : List Nat) (u : Url)
    (hl : UOk e units) (hst : st = .username ∨ st = .password) :
    setValid idna st e units u = setValid idna st .u32 (decode e units) u := by
  have hd : decode .u32 (decode e units) = decode e units := decode_u32_self (decode_scalars e _ hl)
  rcases hst with h | h <;> subst h <;> simp only [setValid, hd]

/-! ## 6. trimming commutes with decoding (tab/newline removal does not: `E2 0A 82 AC`) -/

theorem UOk.tail {e : Enc} {x : Nat} {r : List Nat} (h : UOk e (x :: r)) : UOk e r :=
  h.subset (fun _ hx => List.mem_cons_of_mem _ hx)

theorem decode_cons_ascii (e : Enc) (x : Nat) (r : List Nat) (hx : x < 0x80) :
    decode e (x :: r) = x :: decode e r := by
  have := decode_ascii_split e r x hx []
  simpa [decode_nil] using this

theorem decode_concat_ascii (e : Enc) (x : Nat) (r : List Nat) (hx : x < 0x80) :
    decode e (r ++ [x]) = decode e r ++ [x] := by
  have := decode_ascii_split e [] x hx r
  simpa [decode_nil] using this

theorem dropWhile_decode (e : Enc) {p : Nat → Bool} (hp : AsciiPred p) :
    ∀ m, UOk e m → (decode e m).dropWhile p = decode e (m.dropWhile p) := by
  intro m
  induction m with
  | nil => intro _; rfl
  | cons x r ih =>
    intro hl
    cases hpx : p x with
    | true =>
      rw [decode_cons_ascii e x r (hp x hpx), List.dropWhile_cons_of_pos hpx, List.dropWhile_cons_of_pos hpx,
        ih hl.tail]
    | false =>
      rw [List.dropWhile_cons_of_neg (by simp [hpx])]
      match hd : decode e (x :: r) with
      | [] => rfl
      | c :: t =>
        cases hpc : p c with
        | false => exact List.dropWhile_cons_of_neg (by simp [hpc])
        | true =>
          have := decode_head e (x :: r) hl c (by rw [hd]; rfl) (hp c hpc)
          have hxc : x = c := Option.some.inj this
          rw [hxc, hpc] at hpx; cases hpx

theorem dropWhile_reverse_decode (e : Enc) {p : Nat → Bool} (hp : AsciiPred p) :
    ∀ r : List Nat, UOk e r.reverse →
      (decode e r.reverse).reverse.dropWhile p = (decode e (r.dropWhile p).reverse).reverse := by
  intro r
  induction r with
  | nil => intro _; rfl
  | cons x r ih =>
    intro hl
    have hl' : UOk e r.reverse := hl.subset (fun y hy => by simp at hy ⊢; exact Or.inl hy)
    cases hpx : p x with
    | true =>
      rw [List.reverse_cons, decode_concat_ascii e x _ (hp x hpx), List.reverse_append, List.reverse_singleton,
        List.singleton_append, List.dropWhile_cons_of_pos hpx, List.dropWhile_cons_of_pos hpx, ih hl']
    | false =>
      rw [List.dropWhile_cons_of_neg (by simp [hpx])]
      match hd : (decode e (x :: r).reverse).reverse with
      | [] => rfl
      | c :: t =>
        cases hpc : p c with
        | false => exact List.dropWhile_cons_of_neg (by simp [hpc])
        | true =>
          have hlast : (decode e (x :: r).reverse).getLast? = some c := by
            rw [← List.head?_reverse, hd]; rfl
          have := decode_last e _ hl c hlast (hp c hpc)
          rw [List.getLast?_reverse] at this
          have hxc : x = c := Option.some.inj this
          rw [hxc, hpc] at hpx; cases hpx

theorem UOk.dropWhile {e : Enc} {l : List Nat} (p : Nat → Bool) (h : UOk e l) : UOk e (l.dropWhile p) :=
  h.subset (fun _ hx => (List.dropWhile_sublist p).subset hx)

theorem doTrim_decode (e : Enc) (m : List Nat) (hl : UOk e m) : doTrim (decode e m) = decode e (doTrim m) := by
  unfold doTrim
  rw [dropWhile_decode e isTrimChar_ascii m hl]
  have h := dropWhile_reverse_decode e isTrimChar_ascii (m.dropWhile isTrimChar).reverse
    (by rw [List.reverse_reverse]; exact hl.dropWhile _)
  rw [List.reverse_reverse] at h
  rw [h, List.reverse_reverse]

theorem dropWhile_filter {p q : Nat → Bool} (hpq : ∀ x, q x = false → p x = true) (l : List Nat) :
    (l.filter q).dropWhile p = (l.dropWhile p).filter q := by
  induction l with
  | nil => rfl
  | cons x r ih =>
    cases hpx : p x with
    | true =>
      rw [List.dropWhile_cons_of_pos hpx, ← ih]
      cases hqx : q x with
      | true => rw [List.filter_cons_of_pos hqx, List.dropWhile_cons_of_pos hpx]
      | false => rw [List.filter_cons_of_neg (by simp [hqx])]
    | false =>
      have hqx : q x = true := by
        cases hqx : q x with
        | true => rfl
        | false => rw [hpq x hqx] at hpx; cases hpx
      rw [List.dropWhile_cons_of_neg (by simp [hpx]), List.filter_cons_of_pos hqx,
        List.dropWhile_cons_of_neg (by simp [hpx])]

theorem doTrim_removeWs (l : List Nat) : doTrim (removeWs l) = removeWs (doTrim l) := by
  have hpq : ∀ x, (!isRemovable x) = false → isTrimChar x = true := by
    intro x hx
    simp [isRemovable] at hx; simp [isTrimChar]; omega
  unfold doTrim removeWs
  rw [dropWhile_filter hpq, ← List.filter_reverse, dropWhile_filter hpq, List.filter_reverse]

/-- the parser input is the trimmed Standard conversion of the untrimmed units -/
theorem prep_u32_parserInput (e : Enc) (units : List Nat) (hl : UOk e units) :
    prep .u32 (doTrim (decode e (removeWs units))) = prep e (doTrim units) := by
  rw [doTrim_decode e _ hl.removeWs, doTrim_removeWs]
  exact prep_u32_prep e _ hl.doTrim

theorem parse_parserInput (idna : Idna) (e : Enc) (units : List Nat) (base : Option Url) (hl : UOk e units) :
    parse idna e units base = parse idna .u32 (decode e (removeWs units)) base := by
  unfold parse
  rw [prep_u32_parserInput e units hl]

theorem canParse_parserInput (idna : Idna) (e : Enc) (units : List Nat) (base : Option Url)
    (hl : UOk e units) :
    canParse idna e units base = canParse idna .u32 (decode e (removeWs units)) base := by
  unfold canParse
  rw [prep_u32_parserInput e units hl]

/-! ## 7. all parser-based setters on ill-formed input -/

theorem decode_ne_nil (e : Enc) {l : List Nat} (h : l ≠ []) : decode e l ≠ [] := by
  rw [decode_step' e l h]; exact List.cons_ne_nil _ _

/-- search / hash on ill-formed input whose first unit is not a tab/newline -/
theorem strip_lead_illformed {α : Type} (e : Enc) (a : Nat) (ha : a < 0x80) (F : List Nat → α) (nil : α)
    (units : List Nat) : UOk e units → (∀ c, units.head? = some c → isRemovable c = false) →
    (match units with
     | [] => nil
     | c :: r => F (prep e (if c = a then r else units))) =
    (match decode e (removeWs units) with
     | [] => nil
     | c :: r => F (prep .u32 (if c = a then r else decode e (removeWs units)))) := by
  intro hl hh
  cases units with
  | nil => simp [removeWs, decode_nil]
  | cons c r =>
    have hc : isRemovable c = false := hh c rfl
    have hrw : removeWs (c :: r) = c :: removeWs r := by simp [removeWs, hc]
    have hp := prep_u32_prep e (c :: r) hl
    by_cases hca : c = a
    · subst hca
      rw [hrw, decode_cons_ascii e c _ ha]
      simp only [if_true]
      rw [prep_u32_prep e r hl.tail]
    · simp only [if_neg hca]
      match ht : decode e (removeWs (c :: r)) with
      | [] => exact absurd ht (decode_ne_nil e (by rw [hrw]; exact List.cons_ne_nil _ _))
      | x :: xs =>
        have hxa : x ≠ a := by
          intro hxa
          have := decode_head e _ hl.removeWs x (by rw [ht]; rfl) (hxa ▸ ha)
          rw [hrw] at this
          exact hca ((Option.some.inj this).trans hxa)
        simp only [if_neg hxa]
        rw [ht] at hp
        rw [hp]

/-- every parser-based setter on ill-formed input: the value is the Standard's conversion taken after
    tab/newline removal, provided the raw-unit tests of `port` / `search` / `hash` (empty value, one leading
    `?` / `#`) are not preceded by a tab/newline unit -/
theorem setValid_illformed (idna : Idna) (st : Setter) (e : Enc) (units : List Nat) (u : Url)
    (hl : UOk e units) (hst : st ≠ .username ∧ st ≠ .password)
    (hh : (st = .port ∨ st = .search ∨ st = .hash) → ∀ c, units.head? = some c → isRemovable c = false) :
    setValid idna st e units u = setValid idna st .u32 (decode e (removeWs units)) u := by
  have hp := prep_u32_prep e units hl
  cases st
  case href => simp only [setValid, parse_parserInput idna e units none hl]
  case protocol => simp only [setValid, hp]
  case username => exact absurd rfl hst.1
  case password => exact absurd rfl hst.2
  case host => simp only [setValid, hp]
  case hostname => simp only [setValid, hp]
  case port =>
    have hnil : decode e (removeWs units) = [] ↔ units = [] := by
      constructor
      · intro h
        cases units with
        | nil => rfl
        | cons c r =>
          have hc : isRemovable c = false := hh (Or.inl rfl) c rfl
          have hrw : removeWs (c :: r) = c :: removeWs r := by simp [removeWs, hc]
          exact absurd h (decode_ne_nil e (by rw [hrw]; exact List.cons_ne_nil _ _))
      · intro h; subst h; rfl
    simp only [setValid, hp, hnil]
  case pathname => simp only [setValid, hp]
  case search =>
    simp only [setValid]
    exact strip_lead_illformed e 0x3F (by decide)
      (fun p => ((urlParse idna none (some .query) u p).url, (urlParse idna none (some .query) u p).out == Outcome.ok))
      _ units hl (hh (Or.inr (Or.inl rfl)))
  case hash =>
    simp only [setValid]
    exact strip_lead_illformed e 0x23 (by decide)
      (fun p => ((urlParse idna none (some .fragment) u p).url,
        (urlParse idna none (some .fragment) u p).out == Outcome.ok)) _ units hl (hh (Or.inr (Or.inr rfl)))

end Upa.Proofs.C10b
