import Upa.Proofs.OwnLock2
import Upa.Proofs.OwnCheck
/-
  C06b, layer 6: histories; what `update()` can reach; detached copies; the internal `assert`.
-/
set_option linter.unusedSimpArgs false
set_option linter.unusedVariables false

namespace Upa.Proofs.Own
open Upa Upa.Impl Upa.Impl.Own Upa.Proofs.C06

/-! ## histories -/

/-- the side conditions of the lock-step half along a history: every operation is well-formed and, if
    it is executed, does not move the list out of an OWNED params object -/
def HistOK (idna : Idna) : Heap → List HOp → Prop
  | _, [] => True
  | h, op :: ops =>
    op.WF ∧ (pre h op = true → lockSafe h op = true) ∧
    HistOK idna (if pre h op then stepH idna h op else h) ops

instance (idna : Idna) : ∀ (h : Heap) (ops : List HOp), Decidable (HistOK idna h ops)
  | _, [] => isTrue trivial
  | h, op :: ops =>
    have := instDecidableHistOK idna (if pre h op then stepH idna h op else h) ops
    inferInstanceAs (Decidable (_ ∧ _ ∧ _))

theorem runH_cons (idna : Idna) (h : Heap) (op : HOp) (ops : List HOp) :
    runH idna h (op :: ops) = runH idna (if pre h op then stepH idna h op else h) ops := rfl
theorem runH_nil (idna : Idna) (h : Heap) : runH idna h [] = h := rfl
theorem runH_append (idna : Idna) (h : Heap) (a b : List HOp) :
    runH idna h (a ++ b) = runH idna (runH idna h a) b := by
  unfold runH; rw [List.foldl_append]

theorem runH_lockInv (idna : Idna) (ops : List HOp) : ∀ h, OwnInv h → LockInv h → HistOK idna h ops →
    LockInv (runH idna h ops) := by
  induction ops with
  | nil => intro h _ hl _; exact hl
  | cons op ops ih =>
    intro h hi hl hk
    rw [runH_cons]
    obtain ⟨hw, hs, hk'⟩ := hk
    by_cases hp : pre h op = true
    · simp only [hp, if_true] at hk' ⊢
      exact ih _ (stepH_ownInv idna h op hp hi)
        (stepH_lockInv idna h op ((ownInv_iff h).1 hi).1 hl hp hw (hs hp)) hk'
    · simp only [hp, if_false] at hk' ⊢
      exact ih _ hi hl hk'

/-! ## `LockInv` in terms of cells -/

theorem LockInv.cells {h : Heap} (hl : LockInv h) :
    ∀ u uc r p pc, h.getU u = some uc → uc.url = some r → uc.spPtr = some p → h.getP p = some pc →
      pc.list = formParse false (queryBytes (some r)) := by
  intro u uc r p pc hu hr hp hpc
  have habs : abs h u = { url := some r, sp := some { list := pc.list, isSorted := pc.isSorted } } := by
    unfold abs; simp [hu, hr, hp, hpc]
  exact (hl.lock u).lock r { list := pc.list, isSorted := pc.isSorted } (by rw [habs]) (by rw [habs])

/-- the executable lock-step check holds in every heap that satisfies the two invariants -/
theorem checkLock_of_lockInv {h : Heap} (hi : OwnInv h) (hl : LockInv h) : h.checkLock = true := by
  unfold Heap.checkLock
  rw [List.all_eq_true]
  rintro ⟨u, uc⟩ hm
  have hg := (getU_iff_mem h hi.keysU u uc).2 hm
  dsimp only
  split
  · rename_i r p hr hp
    obtain ⟨pc, hpc, _⟩ := hi.fwd u uc p hg hp
    rw [hpc]
    simp [hl.cells u uc r p pc hg hr hp hpc]
  · rfl

/-! ## what an edit of a params object can reach -/

theorem paramsMutate_getP_ne (h : Heap) (p : Nat) (f : Params → Params) (a : Bool) (q : Nat) (hq : q ≠ p) :
    (paramsMutate h p f a).getP q = h.getP q := by
  unfold paramsMutate update Heap.setRec Heap.setContent
  dsimp only
  split
  · rfl
  · split
    · split <;> simp [hq]
    · simp [hq]

theorem paramsMutate_getU_spPtr (h : Heap) (p : Nat) (f : Params → Params) (a : Bool) (u : Nat) :
    ((paramsMutate h p f a).getU u).map (·.spPtr) = (h.getU u).map (·.spPtr) :=
  (sameG_paramsMutate h p f a).1 u

/-- `update()` after an edit of `p` writes into the record of the url `url_ptr_` names, or nowhere -/
theorem paramsMutate_recOf (h : Heap) (p : Nat) (f : Params → Params) (a : Bool) (u : Nat)
    (hu : h.urlPtrOf p ≠ some u) : (paramsMutate h p f a).recOf u = h.recOf u := by
  rw [urlPtrOf_eq] at hu
  unfold paramsMutate
  dsimp only
  split
  · rfl
  · split
    · rw [recOf_update]; simp [hu]
    · simp

theorem paramsMutate_target (h : Heap) (p : Nat) (f : Params → Params) (a : Bool) (hi : OwnInv h) (u : Nat)
    (hne : (paramsMutate h p f a).recOf u ≠ h.recOf u) : h.urlPtrOf p = some u ∧ h.spOf u = some p := by
  have h1 : h.urlPtrOf p = some u := by
    by_cases hc : h.urlPtrOf p = some u
    · exact hc
    · exact absurd (paramsMutate_recOf h p f a u hc) hne
  refine ⟨h1, ?_⟩
  have hg := ((ownInv_iff h).1 hi).1
  rw [urlPtrOf_eq] at h1
  rw [spOf_eq]
  rcases hu : up h p with _ | _ | u'
  · simp [hu] at h1
  · simp [hu] at h1
  · simp [hu] at h1; subst h1
    rw [hg.back p u' hu]; rfl

/-! ## copies are detached -/

theorem paramsCopyConstruct_detached (h : Heap) (p : Nat) (hi : OwnInv h) (hp : h.liveP p = true) :
    let h' := (paramsCopyConstruct h p).1
    let q := (paramsCopyConstruct h p).2
    q = h.next ∧ h.getP q = none ∧ q ≠ p ∧
    (∃ pc, h'.getP q = some pc ∧ pc.list = h.listOf p ∧ pc.isSorted = h.sortedOf p ∧ pc.urlPtr = none) ∧
    (∀ f a, (paramsMutate h' p f a).getP q = h'.getP q) ∧
    (∀ f a u, (paramsMutate h' q f a).recOf u = h'.recOf u) ∧
    (∀ f a, (paramsMutate h' q f a).getP p = h'.getP p) := by
  have hlt := hi.freshP p hp
  have hne : h.next ≠ p := by omega
  have hdead : h.getP h.next = none := by
    cases hg : h.getP h.next with
    | none => rfl
    | some c => have := hi.freshP h.next (by unfold Heap.liveP; rw [hg]; rfl); omega
  refine ⟨rfl, hdead, hne, ⟨{ list := h.listOf p, isSorted := h.sortedOf p, urlPtr := none },
    by simp [paramsCopyConstruct], rfl, rfl, rfl⟩, ?_, ?_, ?_⟩
  · intro f a; exact paramsMutate_getP_ne _ _ _ _ _ hne
  · intro f a u
    apply paramsMutate_recOf
    simp [paramsCopyConstruct, Heap.urlPtrOf]
  · intro f a; exact paramsMutate_getP_ne _ _ _ _ _ (Ne.symm hne)

theorem paramsMoveConstruct_detached (h : Heap) (p : Nat) (hi : OwnInv h) (hp : h.liveP p = true) :
    let h' := (paramsMoveConstruct h p).1
    let q := (paramsMoveConstruct h p).2
    q = h.next ∧ h.getP q = none ∧ q ≠ p ∧
    (∃ pc, h'.getP q = some pc ∧ pc.list = h.listOf p ∧ pc.isSorted = h.sortedOf p ∧ pc.urlPtr = none) ∧
    (∀ f a, (paramsMutate h' p f a).getP q = h'.getP q) ∧
    (∀ f a u, (paramsMutate h' q f a).recOf u = h'.recOf u) ∧
    (∀ f a, (paramsMutate h' q f a).getP p = h'.getP p) := by
  have hlt := hi.freshP p hp
  have hne : h.next ≠ p := by omega
  have hdead : h.getP h.next = none := by
    cases hg : h.getP h.next with
    | none => rfl
    | some c => have := hi.freshP h.next (by unfold Heap.liveP; rw [hg]; rfl); omega
  refine ⟨rfl, hdead, hne, ⟨{ list := h.listOf p, isSorted := h.sortedOf p, urlPtr := none },
    by simp [paramsMoveConstruct, Heap.setContent, hne], rfl, rfl, rfl⟩, ?_, ?_, ?_⟩
  · intro f a; exact paramsMutate_getP_ne _ _ _ _ _ hne
  · intro f a u
    apply paramsMutate_recOf
    simp [paramsMoveConstruct, Heap.urlPtrOf, Heap.setContent, hne]
  · intro f a; exact paramsMutate_getP_ne _ _ _ _ _ (Ne.symm hne)

/-- the result of `search_params() &&` is a FREE object at a fresh address -/
theorem urlSearchParamsRvalue_detached (h : Heap) (u : Nat) (hi : OwnInv h) :
    let h' := (urlSearchParamsRvalue h u).1
    let q := (urlSearchParamsRvalue h u).2
    q = h.next ∧ h.getP q = none ∧ h.spOf u ≠ some q ∧ h'.urlPtrOf q = none ∧ h'.liveP q = true ∧
    (∀ p f a, p ≠ q → (paramsMutate h' p f a).getP q = h'.getP q) ∧
    (∀ f a v, (paramsMutate h' q f a).recOf v = h'.recOf v) ∧
    (∀ p f a, p ≠ q → (paramsMutate h' q f a).getP p = h'.getP p) := by
  have hdead : h.getP h.next = none := by
    cases hg : h.getP h.next with
    | none => rfl
    | some c => have := hi.freshP h.next (by unfold Heap.liveP; rw [hg]; rfl); omega
  have hq : (urlSearchParamsRvalue h u).2 = h.next := by
    unfold urlSearchParamsRvalue; split <;> rfl
  have hsp : h.spOf u ≠ some h.next := by
    intro he
    have hg := ((ownInv_iff h).1 hi).1
    rw [spOf_eq] at he
    rcases hs : sp h u with _ | _ | p
    · simp [hs] at he
    · simp [hs] at he
    · simp [hs] at he; subst he
      have := hg.fwd u _ hs
      rw [hg.freshP _ (Nat.le_refl _)] at this; cases this
  have hfree : (urlSearchParamsRvalue h u).1.urlPtrOf h.next = none ∧ (urlSearchParamsRvalue h u).1.liveP h.next = true := by
    unfold urlSearchParamsRvalue
    split
    · rename_i p hp
      have hne : h.next ≠ p := by intro he; rw [← he] at hp; exact hsp hp
      simp [paramsMoveConstruct, Heap.urlPtrOf, Heap.liveP, Heap.setContent, hne]
    · simp [newParams, Heap.urlPtrOf, Heap.liveP]
  dsimp only
  rw [hq]
  refine ⟨rfl, hdead, hsp, hfree.1, hfree.2, ?_, ?_, ?_⟩
  · intro p f a hne; exact paramsMutate_getP_ne _ _ _ _ _ (Ne.symm hne)
  · intro f a v; apply paramsMutate_recOf; rw [hfree.1]; simp
  · intro p f a hne; exact paramsMutate_getP_ne _ _ _ _ _ hne

/-- a copy-constructed url has no params object; the one it creates on first use is new, points back
    to the copy, and neither object's edits reach the other url or the other list -/
theorem urlCopyConstruct_detached (h : Heap) (s : Nat) (hi : OwnInv h) (hs : h.liveU s = true) :
    let h' := (urlCopyConstruct h s).1
    let n := (urlCopyConstruct h s).2
    let h'' := urlSearchParams h' n
    let q := h'.next
    n = h.next ∧ n ≠ s ∧ h'.recOf n = h.recOf s ∧ h'.spOf n = none ∧
    h''.spOf n = some q ∧ h''.urlPtrOf q = some n ∧ h.getP q = none ∧ h.spOf s ≠ some q ∧
    h''.spOf s = h.spOf s ∧
    (∀ f a, (paramsMutate h'' q f a).recOf s = h''.recOf s) ∧
    (∀ f a ps, h.spOf s = some ps → (paramsMutate h'' q f a).getP ps = h''.getP ps) ∧
    (∀ f a ps, h.spOf s = some ps → (paramsMutate h'' ps f a).recOf n = h''.recOf n ∧
      (paramsMutate h'' ps f a).getP q = h''.getP q) := by
  have hg := ((ownInv_iff h).1 hi).1
  have hlt := hi.freshU s hs
  have hne : h.next ≠ s := by omega
  have hdead : h.getP (h.next + 1) = none := by
    cases hgp : h.getP (h.next + 1) with
    | none => rfl
    | some c => have := hi.freshP (h.next + 1) (by unfold Heap.liveP; rw [hgp]; rfl); omega
  have hsq : ∀ ps, h.spOf s = some ps → ps < h.next := by
    intro ps hps
    rw [spOf_eq] at hps
    rcases hss : sp h s with _ | _ | p
    · simp [hss] at hps
    · simp [hss] at hps
    · simp [hss] at hps; subst hps
      have hup := hg.fwd s _ hss
      by_cases hlt : p < h.next
      · exact hlt
      · rw [hg.freshP p (by omega)] at hup; cases hup
  have hsp' : h.spOf s ≠ some (h.next + 1) := by
    intro he; have := hsq _ he; omega
  have hspn : (urlCopyConstruct h s).1.spOf h.next = none := by simp [urlCopyConstruct, Heap.spOf]
  have hliven : (urlCopyConstruct h s).1.liveU h.next = true := by simp [urlCopyConstruct, Heap.liveU]
  have hup'' : ∀ p, up (urlSearchParams (urlCopyConstruct h s).1 h.next) p =
      if p = h.next + 1 then some (some h.next) else up h p := by
    intro p
    unfold urlSearchParams
    simp only [hliven, hspn, Bool.not_true, Bool.false_eq_true, if_false]
    simp [urlCopyConstruct]
    try rfl
  have hsp'' : ∀ u, sp (urlSearchParams (urlCopyConstruct h s).1 h.next) u =
      if u = h.next then some (some (h.next + 1)) else sp h u := by
    intro u
    unfold urlSearchParams
    simp only [hliven, hspn, Bool.not_true, Bool.false_eq_true, if_false]
    simp [urlCopyConstruct]
    split <;> simp_all
  dsimp only
  rw [show (urlCopyConstruct h s).2 = h.next from rfl, show (urlCopyConstruct h s).1.next = h.next + 1 from rfl]
  refine ⟨rfl, hne, by simp [urlCopyConstruct], hspn, ?_, ?_, hdead, hsp', ?_, ?_, ?_, ?_⟩
  · rw [spOf_eq, hsp'']; simp
  · rw [urlPtrOf_eq, hup'']; simp
  · rw [spOf_eq, spOf_eq, hsp'']; simp [Ne.symm hne]
  · intro f a
    apply paramsMutate_recOf
    rw [urlPtrOf_eq, hup'']; simp [hne]
  · intro f a ps hps
    exact paramsMutate_getP_ne _ _ _ _ _ (by have := hsq ps hps; omega)
  · intro f a ps hps
    have hlt' := hsq ps hps
    refine ⟨?_, paramsMutate_getP_ne _ _ _ _ _ (by omega)⟩
    apply paramsMutate_recOf
    rw [urlPtrOf_eq, hup'']
    have hne' : ps ≠ h.next + 1 := by omega
    simp only [hne', if_false]
    rw [spOf_eq] at hps
    rcases hss : sp h s with _ | _ | p
    · simp [hss] at hps
    · simp [hss] at hps
    · simp [hss] at hps; subst hps
      rw [hg.fwd s _ hss]; simp [Ne.symm hne]

/-! ## the `assert` inside `url_search_params_ptr::operator=` never fires -/

theorem internal_assert (h : Heap) (d s : Nat) (hi : OwnInv h) : asserts h (.urlCopyAssign d s) = true := by
  have hg := ((ownInv_iff h).1 hi).1
  simp only [asserts]
  split
  · rename_i pd hpd
    rw [spOf_eq] at hpd
    rcases hsd : sp h d with _ | _ | p
    · simp [hsd] at hpd
    · simp [hsd] at hpd
    · simp [hsd] at hpd; subst hpd
      rw [urlPtrOf_eq, hg.fwd d _ hsd]; simp
  · rfl

end Upa.Proofs.Own
