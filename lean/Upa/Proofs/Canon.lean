import Upa.Impl.Canon
import Upa.Proofs.Percent
import Upa.Proofs.Form
/-
  Helper lemmas for C08 (every URL the parser / the setters produce is in canonical, delimiter-safe
  form; predicate `Impl.Canon`, Upa/Impl/Canon.lean).
  Part 1: output alphabets of the encode loops (no hypothesis on the input: every UTF-8 byte the
          model's `encodeUtf8Char` emits is < 256 for ANY `Nat`, so `%XX` is always `%` + two upper hex).
  Part 2: host parser output (`hostOk`).
  Part 3: `Canon` split into authority / path / query / fragment parts; one lemma per parser block.
  Part 4: setters and `UrlObj.update`.
-/
namespace Upa.Proofs.C08
open Upa Upa.Impl
open Upa.Proofs.C14 (isUpperHex isUpperHex_iff hexDigitUpper_tbl)

/-! ## list scanning helpers -/

theorem mem_takeWhile {p : Nat → Bool} {c : Nat} : ∀ {l : List Nat}, c ∈ l.takeWhile p → p c = true ∧ c ∈ l
  | [], h => by simp at h
  | a :: l, h => by
    rw [List.takeWhile_cons] at h
    split at h
    · rcases List.mem_cons.1 h with rfl | h'
      · exact ⟨by assumption, List.mem_cons_self⟩
      · exact ⟨(mem_takeWhile h').1, List.mem_cons_of_mem _ (mem_takeWhile h').2⟩
    · simp at h

theorem mem_dropWhile {p : Nat → Bool} {c : Nat} : ∀ {l : List Nat}, c ∈ l.dropWhile p → c ∈ l
  | [], h => by simp at h
  | a :: l, h => by
    rw [List.dropWhile_cons] at h
    split at h
    · exact List.mem_cons_of_mem _ (mem_dropWhile h)
    · exact h

theorem dropWhile_nil_all {p : Nat → Bool} : ∀ {l : List Nat}, l.dropWhile p = [] → ∀ c ∈ l, p c = true
  | [], _ => by simp
  | a :: l, h => by
    rw [List.dropWhile_cons] at h
    split at h
    · intro c hc
      rcases List.mem_cons.1 hc with rfl | hc
      · assumption
      · exact dropWhile_nil_all h c hc
    · simp at h

/-! ## Part 1: encoder alphabets -/

theorem encodeUtf8Char_lt256 (c : Nat) : ∀ x ∈ encodeUtf8Char c, x < 256 := by
  have a6 : ∀ y : Nat, (y &&& 0x3F) ||| 0x80 < 256 := fun y =>
    Nat.or_lt_two_pow (n := 8) (Nat.lt_of_le_of_lt Nat.and_le_right (by omega)) (by omega)
  intro x hx
  unfold encodeUtf8Char at hx
  split at hx
  · simp at hx; omega
  · split at hx
    · simp only [List.mem_cons, List.not_mem_nil, or_false] at hx
      rcases hx with rfl | rfl
      · refine Nat.or_lt_two_pow (n := 8) ?_ (by omega)
        rw [Nat.shiftRight_eq_div_pow]; omega
      · exact a6 _
    · split at hx
      · simp only [List.mem_cons, List.not_mem_nil, or_false] at hx
        rcases hx with rfl | rfl | rfl
        · refine Nat.or_lt_two_pow (n := 8) ?_ (by omega)
          rw [Nat.shiftRight_eq_div_pow]; omega
        · exact a6 _
        · exact a6 _
      · simp only [List.mem_cons, List.not_mem_nil, or_false] at hx
        rcases hx with rfl | rfl | rfl | rfl
        · omega
        · exact a6 _
        · exact a6 _
        · exact a6 _

/-- the characters a `%XX` triplet consists of -/
def isPctChar (c : Nat) : Bool := c == 0x25 || isUpperHex c

theorem pctByte_chars (b : Nat) (hb : b < 256) : ∀ x ∈ pctByte b, isPctChar x = true := by
  intro x hx
  simp only [pctByte, List.mem_cons, List.not_mem_nil, or_false] at hx
  rcases hx with rfl | rfl | rfl
  · decide
  · simp [isPctChar, (hexDigitUpper_tbl (b / 16) (by omega)).1]
  · simp [isPctChar, (hexDigitUpper_tbl (b % 16) (by omega)).1]

theorem pctEncodeChar_chars (c : Nat) : ∀ x ∈ pctEncodeChar c, isPctChar x = true := by
  intro x hx
  simp only [pctEncodeChar, List.mem_flatMap] at hx
  obtain ⟨b, hb, hx⟩ := hx
  exact pctByte_chars b (encodeUtf8Char_lt256 c b hb) x hx

/-- output alphabet of the encode loop: `%`, upper hex digits, and ASCII members of the no-encode set
    that occur in the input -/
theorem percentEncode_chars (noEnc : Nat → Bool) :
    ∀ s : List Nat, ∀ x ∈ percentEncode noEnc s,
      isPctChar x = true ∨ (x ∈ s ∧ x < 0x80 ∧ noEnc x = true) := by
  intro s
  induction s with
  | nil => intro x hx; simp [percentEncode] at hx
  | cons c cs ih =>
    intro x hx
    rw [C14.percentEncode_cons, List.mem_append] at hx
    rcases hx with hx | hx
    · by_cases h : c ≥ 0x80
      · rw [if_pos h] at hx; exact Or.inl (pctEncodeChar_chars c x hx)
      · rw [if_neg h] at hx
        cases hn : noEnc c
        · rw [hn] at hx; simp only [Bool.false_eq_true, if_false] at hx
          exact Or.inl (pctByte_chars c (by omega) x hx)
        · rw [hn] at hx; simp only [if_true, List.mem_singleton] at hx
          subst hx
          exact Or.inr ⟨List.mem_cons_self, by omega, hn⟩
    · rcases ih x hx with h | ⟨h1, h2, h3⟩
      · exact Or.inl h
      · exact Or.inr ⟨List.mem_cons_of_mem _ h1, h2, h3⟩

theorem percentEncodeC0_chars :
    ∀ s : List Nat, ∀ x ∈ percentEncodeC0 s,
      isPctChar x = true ∨ (x ∈ s ∧ 0x1F < x ∧ x < 0x7F) := by
  intro s
  induction s with
  | nil => intro x hx; simp [percentEncodeC0] at hx
  | cons c cs ih =>
    intro x hx
    rw [C14.percentEncodeC0_cons, List.mem_append] at hx
    rcases hx with hx | hx
    · by_cases h : c ≥ 0x7F
      · rw [if_pos h] at hx; exact Or.inl (pctEncodeChar_chars c x hx)
      · rw [if_neg h] at hx
        by_cases h2 : c ≤ 0x1F
        · rw [if_pos h2] at hx; exact Or.inl (pctByte_chars c (by omega) x hx)
        · rw [if_neg h2] at hx; simp only [List.mem_singleton] at hx
          subst hx
          exact Or.inr ⟨List.mem_cons_self, by omega, by omega⟩
    · rcases ih x hx with h | ⟨h1, h2, h3⟩
      · exact Or.inl h
      · exact Or.inr ⟨List.mem_cons_of_mem _ h1, h2, h3⟩

/-- generic form: a Bool predicate that accepts `%`, the upper hex digits and the raw characters holds
    for the whole output -/
theorem percentEncode_all (noEnc : Nat → Bool) (ok : Nat → Bool) (s : List Nat)
    (hpct : ∀ c, c < 128 → isPctChar c = true → ok c = true)
    (hraw : ∀ c ∈ s, c < 128 → noEnc c = true → ok c = true) :
    (percentEncode noEnc s).all ok = true := by
  rw [List.all_eq_true]
  intro x hx
  rcases percentEncode_chars noEnc s x hx with h | ⟨h1, h2, h3⟩
  · refine hpct x ?_ h
    simp only [isPctChar, Bool.or_eq_true, beq_iff_eq, isUpperHex_iff] at h; omega
  · exact hraw x h1 h2 h3

theorem percentEncodeC0_all (ok : Nat → Bool) (s : List Nat)
    (hpct : ∀ c, c < 128 → isPctChar c = true → ok c = true)
    (hraw : ∀ c ∈ s, 0x1F < c → c < 0x7F → ok c = true) :
    (percentEncodeC0 s).all ok = true := by
  rw [List.all_eq_true]
  intro x hx
  rcases percentEncodeC0_chars s x hx with h | ⟨h1, h2, h3⟩
  · refine hpct x ?_ h
    simp only [isPctChar, Bool.or_eq_true, beq_iff_eq, isUpperHex_iff] at h; omega
  · exact hraw x h1 h2 h3

/-! the five instances the parser uses -/

def userinfoChar (c : Nat) : Bool :=
  isPrintable c && c != 0x2F && c != 0x3A && c != 0x40 && c != 0x3F && c != 0x23
def segChar (c : Nat) : Bool := isPrintable c && c != 0x3F && c != 0x23 && c != 0x2F
def queryChar (sp : Bool) (c : Nat) : Bool := isPrintable c && c != 0x23 && (c != 0x27 || !sp)
def opaqueChar (c : Nat) : Bool := (isPrintable c || c == 0x20) && c != 0x3F && c != 0x23
def opaqueHostChar (c : Nat) : Bool := isPrintable c && !Spec.forbiddenHost c

theorem pct_userinfo : ∀ c, c < 128 → isPctChar c = true → userinfoChar c = true := by decide +kernel
theorem pct_printable : ∀ c, c < 128 → isPctChar c = true → isPrintable c = true := by decide +kernel
theorem pct_query (sp : Bool) : ∀ c, c < 128 → isPctChar c = true → queryChar sp c = true := by
  cases sp <;> decide +kernel
theorem pct_seg : ∀ c, c < 128 → isPctChar c = true → segChar c = true := by decide +kernel
theorem pct_opaque : ∀ c, c < 128 → isPctChar c = true → opaqueChar c = true := by decide +kernel
theorem pct_opaqueHost : ∀ c, c < 128 → isPctChar c = true → opaqueHostChar c = true := by
  decide +kernel

theorem raw_userinfo : ∀ c, c < 128 → userinfoNoEnc c = true → userinfoChar c = true := by
  decide +kernel
theorem raw_fragment : ∀ c, c < 128 → fragmentNoEnc c = true → isPrintable c = true := by
  decide +kernel
theorem raw_query : ∀ c, c < 128 → queryNoEnc c = true → queryChar false c = true := by decide +kernel
theorem raw_specialQuery : ∀ c, c < 128 → specialQueryNoEnc c = true → queryChar true c = true := by
  decide +kernel
theorem raw_path : ∀ c, c < 128 → pathNoEnc c = true → c ≠ 0x2F → segChar c = true := by
  decide +kernel
theorem raw_opaque : ∀ c, c < 128 → 0x1F < c → c < 0x7F → c ≠ 0x3F → c ≠ 0x23 → opaqueChar c = true := by
  decide +kernel
theorem raw_opaqueHost : ∀ c, c < 128 → 0x1F < c → c < 0x7F → Spec.forbiddenHost c = false →
    opaqueHostChar c = true := by decide +kernel

theorem userinfo_all (s : List Nat) : userinfoOk (percentEncode userinfoNoEnc s) = true :=
  percentEncode_all userinfoNoEnc userinfoChar s pct_userinfo (fun c _ => raw_userinfo c)

theorem fragment_all (s : List Nat) : (percentEncode fragmentNoEnc s).all isPrintable = true :=
  percentEncode_all fragmentNoEnc _ s pct_printable (fun c _ => raw_fragment c)

theorem query_all (s : List Nat) : (percentEncode queryNoEnc s).all (queryChar false) = true :=
  percentEncode_all queryNoEnc _ s (pct_query false) (fun c _ => raw_query c)

theorem specialQuery_all (s : List Nat) :
    (percentEncode specialQueryNoEnc s).all (queryChar true) = true :=
  percentEncode_all specialQueryNoEnc _ s (pct_query true) (fun c _ => raw_specialQuery c)

/-- path segment: `/` is in the path no-encode set, so the input segment must not contain it -/
theorem path_all (s : List Nat) (hs : ∀ c ∈ s, c ≠ 0x2F) :
    (percentEncode pathNoEnc s).all segChar = true :=
  percentEncode_all pathNoEnc _ s pct_seg (fun c hc h1 h2 => raw_path c h1 h2 (hs c hc))

/-- opaque path: 0x20 stays raw; `?` `#` must be cut before -/
theorem opaque_all (s : List Nat) (hs : ∀ c ∈ s, c ≠ 0x3F ∧ c ≠ 0x23) :
    (percentEncodeC0 s).all opaqueChar = true :=
  percentEncodeC0_all _ s pct_opaque
    (fun c hc h1 h2 => raw_opaque c (by omega) h1 h2 (hs c hc).1 (hs c hc).2)

/-- opaque host: the input has no forbidden host code point (space included) -/
theorem opaqueHost_all (s : List Nat) (hs : ∀ c ∈ s, Spec.forbiddenHost c = false) :
    (percentEncodeC0 s).all opaqueHostChar = true :=
  percentEncodeC0_all _ s pct_opaqueHost
    (fun c hc h1 h2 => raw_opaqueHost c (by omega) h1 h2 (hs c hc))

/-! ## Part 2: host parser output -/

theorem fillDigits_mem (base : Nat) (digit : Nat → Nat) :
    ∀ count num acc, ∀ x ∈ fillDigits base digit count num acc, x ∈ acc ∨ ∃ n, x = digit (n % base) := by
  intro count
  induction count with
  | zero => intro num acc x hx; exact Or.inl hx
  | succ k ih =>
    intro num acc x hx
    rw [fillDigits] at hx
    rcases ih _ _ x hx with h | h
    · rcases List.mem_cons.1 h with rfl | h
      · exact Or.inr ⟨num, rfl⟩
      · exact Or.inl h
    · exact Or.inr h

theorem unsignedToStr_mem (base : Nat) (digit : Nat → Nat) (num : Nat) :
    ∀ x ∈ unsignedToStr base digit num, ∃ n, x = digit (n % base) := by
  intro x hx
  rcases fillDigits_mem base digit _ _ _ x hx with h | h
  · simp at h
  · exact h

def v4Char (c : Nat) : Bool := isDigit c || c == 0x2E
def v6Char (c : Nat) : Bool := isDigit c || (decide (0x61 ≤ c) && decide (c ≤ 0x66)) || c == 0x3A

theorem dec_v4 (x : Nat) (h : ∃ n, x = 0x30 + n % 10) : v4Char x = true := by
  obtain ⟨n, rfl⟩ := h
  have : ∀ k, k < 10 → v4Char (0x30 + k) = true := by decide
  exact this _ (Nat.mod_lt _ (by omega))

theorem hex_v6 (x : Nat) (h : ∃ n, x = hexDigitLower (n % 16)) : v6Char x = true := by
  obtain ⟨n, rfl⟩ := h
  have : ∀ k, k < 16 → v6Char (hexDigitLower k) = true := by decide
  exact this _ (Nat.mod_lt _ (by omega))

theorem ipv4Serialize_chars (n : Nat) : ∀ x ∈ ipv4Serialize n, v4Char x = true := by
  intro x hx
  simp only [ipv4Serialize, List.mem_append, List.mem_singleton] at hx
  rcases hx with ((((((h | rfl) | h) | rfl) | h) | rfl) | h)
  all_goals first | decide | exact dec_v4 x (unsignedToStr_mem _ _ _ x h)

theorem ipv4Serialize_ne_nil (n : Nat) : ipv4Serialize n ≠ [] := by
  simp [ipv4Serialize]

theorem ipv6SerLoop_chars (compress : Option Nat) (len : Nat) :
    ∀ fuel l i, ∀ x ∈ ipv6SerLoop compress len fuel l i, v6Char x = true := by
  intro fuel
  induction fuel with
  | zero => intro l i x hx; simp [ipv6SerLoop] at hx
  | succ k ih =>
    intro l i x hx
    cases l with
    | nil => simp [ipv6SerLoop] at hx
    | cons a r =>
      rw [ipv6SerLoop] at hx
      have hout : ∀ y ∈ (if i = 0 then [0x3A, 0x3A] else [0x3A] : List Nat), v6Char y = true := by
        intro y hy; split at hy <;> simp at hy <;> rcases hy with rfl <;> decide
      have htail : ∀ (r' : List Nat) (j : Nat),
          x ∈ (if r' = [] then [] else 0x3A :: ipv6SerLoop compress len k r' j) → v6Char x = true := by
        intro r' j hx
        split at hx
        · simp at hx
        · rcases List.mem_cons.1 hx with rfl | hx
          · decide
          · exact ih _ _ x hx
      by_cases hc : compress = some i
      · rw [if_pos hc] at hx
        dsimp only at hx
        cases hd : List.drop len (a :: r) with
        | nil => rw [hd] at hx; exact hout x hx
        | cons b r' =>
          rw [hd] at hx
          simp only [List.mem_append] at hx
          rcases hx with (hx | hx) | hx
          · exact hout x hx
          · exact hex_v6 x (unsignedToStr_mem _ _ _ x hx)
          · exact htail _ _ hx
      · rw [if_neg hc] at hx
        simp only [List.mem_append] at hx
        rcases hx with hx | hx
        · exact hex_v6 x (unsignedToStr_mem _ _ _ x hx)
        · exact htail _ _ hx

theorem ipv6Serialize_chars (a : List Nat) : ∀ x ∈ ipv6Serialize a, v6Char x = true := by
  intro x hx
  unfold ipv6Serialize at hx
  exact ipv6SerLoop_chars _ _ _ _ _ x hx

/-- ToASCII output as canonical form needs it: non-empty, ASCII, no upper-case letter.
    (The forbidden-domain check on the output is done by the code itself.) -/
structure IdnaCanon (idna : Idna) : Prop where
  out_ascii : ∀ s r, idna s = some r → r ≠ [] ∧ ∀ c ∈ r, c < 0x80 ∧ isUpperAlpha c = false

theorem hostOk_ipv4 {s : List Nat} {h : Host} (hh : hostParseIpv4 s = some h) :
    hostOk h = true ∧ h.text ≠ [] := by
  unfold hostParseIpv4 at hh
  cases hp : ipv4Parse s with
  | none => rw [hp] at hh; simp at hh
  | some n =>
    rw [hp] at hh; simp only [Option.map_some, Option.some.injEq] at hh
    subst hh
    refine ⟨?_, ipv4Serialize_ne_nil n⟩
    simp only [hostOk, Bool.and_eq_true, bne_iff_ne, ne_eq, List.all_eq_true]
    exact ⟨ipv4Serialize_ne_nil n, ipv4Serialize_chars n⟩

theorem hostOk_ipv6 {s : List Nat} {h : Host} (hh : hostParseIpv6 s = some h) :
    hostOk h = true ∧ h.text ≠ [] := by
  unfold hostParseIpv6 at hh
  cases hp : ipv6Parse s with
  | none => rw [hp] at hh; simp at hh
  | some a =>
    rw [hp] at hh; simp only [Option.map_some, Option.some.injEq] at hh
    subst hh
    refine ⟨?_, by simp⟩
    have hc := ipv6Serialize_chars a
    simp only [hostOk, Bool.and_eq_true, List.all_eq_true]
    refine ⟨⟨by simp, by simp [List.getLast?_cons, List.getLast?_append]⟩, ?_⟩
    intro x hx
    have : x ∈ ipv6Serialize a := by simpa using hx
    exact hc x this

theorem pctEncodeChar_ne_nil (c : Nat) : pctEncodeChar c ≠ [] := by
  unfold pctEncodeChar encodeUtf8Char
  split
  · simp [pctByte]
  · split
    · simp [pctByte]
    · split <;> simp [pctByte]

theorem hostOk_opaque {s : List Nat} {h : Host} (hh : parseOpaqueHost s = some h) :
    hostOk h = true ∧ (s ≠ [] → h.text ≠ []) := by
  unfold parseOpaqueHost at hh
  split at hh
  · simp at hh
  · rename_i hany
    simp only [Option.some.injEq] at hh
    subst hh
    have hs : ∀ c ∈ s, Spec.forbiddenHost c = false := by
      intro c hc
      cases hf : Spec.forbiddenHost c with
      | false => rfl
      | true => exact absurd (List.any_eq_true.2 ⟨c, hc, hf⟩) hany
    have hall := opaqueHost_all s hs
    constructor
    · by_cases ht : percentEncodeC0 s = []
      · simp [hostOk, ht]
      · simp only [hostOk, if_neg ht, Bool.and_eq_true, bne_iff_ne, ne_eq]
        exact ⟨ht, hall⟩
    · intro hne
      cases s with
      | nil => exact absurd rfl hne
      | cons c cs =>
        simp only [C14.percentEncodeC0_cons]
        intro h0
        have := (List.append_eq_nil_iff.1 h0).1
        split at this
        · exact pctEncodeChar_ne_nil c this
        · split at this <;> simp [pctByte] at this

def domainChar (c : Nat) : Bool := !Spec.forbiddenDomain c && !isUpperAlpha c && decide (c < 0x80)

theorem toLower_domain : ∀ c, c < 128 → Spec.asciiDomainChar c = true → domainChar (toLower c) = true := by
  decide +kernel

theorem asciiDomainChar_lt (c : Nat) (h : Spec.asciiDomainChar c = true) : c < 128 := by
  simp [Spec.asciiDomainChar] at h; omega

/-- the fast path of the domain branch (pure ASCII domain characters, no `xn--` label) -/
def fastPath (s : List Nat) : Option (Option Host) :=
  match s.dropWhile Spec.asciiDomainChar with
  | [] =>
    if !hasXnLabel s then
      some (if endsInNumber s then hostParseIpv4 s
            else some { kind := .domain, text := s.map toLower })
    else none
  | p :: rest =>
    if p < 0x80 ∧ p ≠ 0x25 then
      if ¬ (p ≥ 0x3C ∧ p ≤ 0x3E ∧ (match rest with | n :: _ => decide (n ≥ 0x80) || n == 0x25 | [] => false) = true)
      then some none else none
    else none

def idnaPath (idna : Idna) (s : List Nat) : Option Host :=
  match idna (encodeUtf16 (decode .u8 (percentDecode s))) with
  | none => none
  | some ascii =>
    if ascii.any Spec.forbiddenDomain then none
    else if endsInNumber ascii then hostParseIpv4 ascii
    else some { kind := .domain, text := ascii }

theorem parseHost_domain (idna : Idna) (c0 : Nat) (r : List Nat) (h : c0 ≠ 0x5B) :
    parseHost idna (c0 :: r) false =
      match fastPath (c0 :: r) with
      | some x => x
      | none => idnaPath idna (c0 :: r) := by
  unfold parseHost
  simp only [if_neg h]
  rfl

theorem hostOk_fast {s : List Nat} {x : Option Host} {h : Host} (hf : fastPath s = some x)
    (hx : x = some h) : hostOk h = true ∧ h.text ≠ [] ∨ s = [] := by
  unfold fastPath at hf
  split at hf
  · rename_i htail
    split at hf
    · simp only [Option.some.injEq] at hf
      subst hf
      split at hx
      · exact Or.inl (hostOk_ipv4 hx)
      · simp only [Option.some.injEq] at hx; subst hx
        have hall := dropWhile_nil_all htail
        by_cases hs : s = []
        · exact Or.inr hs
        · refine Or.inl ⟨?_, by simpa using hs⟩
          simp only [hostOk, Bool.and_eq_true, bne_iff_ne, ne_eq, List.all_eq_true]
          refine ⟨by simpa using hs, fun c hc => ?_⟩
          obtain ⟨d, hd, rfl⟩ := List.mem_map.1 hc
          have := toLower_domain d (asciiDomainChar_lt d (hall d hd)) (hall d hd)
          simpa only [domainChar, Bool.and_eq_true] using this
    · simp at hf
  · split at hf
    · have hx' : x = none := by
        split at hf <;> split at hf <;>
          first | exact (Option.some.inj hf).symm | exact absurd hf (by simp)
      rw [hx'] at hx; simp at hx
    · exact absurd hf (by simp)

theorem hostOk_idna {idna : Idna} (hi : IdnaCanon idna) {s : List Nat} {h : Host}
    (hr : idnaPath idna s = some h) : hostOk h = true ∧ h.text ≠ [] := by
  unfold idnaPath at hr
  split at hr
  · simp at hr
  · rename_i ascii hid
    obtain ⟨hne, hasc⟩ := hi.out_ascii _ _ hid
    split at hr
    · simp at hr
    · rename_i hany
      split at hr
      · exact hostOk_ipv4 hr
      · simp only [Option.some.injEq] at hr; subst hr
        refine ⟨?_, hne⟩
        simp only [hostOk, Bool.and_eq_true, bne_iff_ne, ne_eq, List.all_eq_true]
        refine ⟨hne, fun c hc => ?_⟩
        have hf : Spec.forbiddenDomain c = false := by
          cases hf : Spec.forbiddenDomain c with
          | false => rfl
          | true => exact absurd (List.any_eq_true.2 ⟨c, hc, hf⟩) hany
        simp [hf, (hasc c hc).2, (hasc c hc).1]

theorem C08_host (idna : Idna) (hi : IdnaCanon idna) (s : List Nat) (o : Bool) (h : Host)
    (hh : parseHost idna s o = some h) : hostOk h = true ∧ (s ≠ [] → h.text ≠ []) := by
  cases s with
  | nil =>
    simp only [parseHost] at hh
    split at hh
    · simp only [Option.some.injEq] at hh; subst hh; exact ⟨by decide, fun h => absurd rfl h⟩
    · simp at hh
  | cons c0 r =>
    by_cases hb : c0 = 0x5B
    · unfold parseHost at hh
      simp only [if_pos hb] at hh
      split at hh
      · have := hostOk_ipv6 hh; exact ⟨this.1, fun _ => this.2⟩
      · simp at hh
    · cases o with
      | true =>
        unfold parseHost at hh
        simp only [if_neg hb, if_true] at hh
        exact hostOk_opaque hh
      | false =>
        rw [parseHost_domain idna c0 r hb] at hh
        suffices hs : hostOk h = true ∧ h.text ≠ [] from ⟨hs.1, fun _ => hs.2⟩
        split at hh
        · rename_i x hf
          rcases hostOk_fast hf hh with h1 | h1
          · exact h1
          · simp at h1
        · exact hostOk_idna hi hh

/-! ## Part 3: `Canon` in four parts -/

/-- scheme, credentials, host, port -/
structure AuthOk (u : Url) : Prop where
  scheme : schemeOk u.scheme = true
  port : ∀ p, u.port = some p → p ≤ 65535 ∧ defaultPort u.scheme ≠ some p
  spHost : u.isSpecial = true → u.isFile = false → ∃ h, u.host = some h ∧ h.text ≠ []
  noCred : (u.hostText = [] ∨ u.isFile = true) → u.username = [] ∧ u.password = [] ∧ u.port = none
  fileHost : u.isFile = true → ∃ h, u.host = some h
  user : userinfoOk u.username = true
  pass : userinfoOk u.password = true
  host : ∀ h, u.host = some h → hostOk h = true

structure PathOk (u : Url) : Prop where
  sp : u.isSpecial = true → u.hasOpaquePath = false ∧ u.path ≠ []
  opq : u.hasOpaquePath = true → u.opaquePath.all opaqueChar = true ∧ u.path = []
  lst : u.hasOpaquePath = false → u.opaquePath = [] ∧ ∀ seg ∈ u.path, seg.all segChar = true

def QueryOk (u : Url) : Prop := ∀ q, u.query = some q → q.all (queryChar u.isSpecial) = true
def FragOk (u : Url) : Prop := ∀ f, u.fragment = some f → f.all isPrintable = true

theorem canon_iff (u : Url) : Canon u = true ↔ AuthOk u ∧ PathOk u ∧ QueryOk u ∧ FragOk u := by
  simp only [Canon, Bool.and_eq_true]
  constructor
  · rintro ⟨⟨⟨⟨⟨⟨⟨⟨⟨⟨⟨h1, h2⟩, h3⟩, h4⟩, h5⟩, h6⟩, h7⟩, h8⟩, h9⟩, h10⟩, h11⟩, h12⟩
    refine ⟨⟨h1, ?_, ?_, ?_, ?_, h7, h8, ?_⟩, ⟨?_, ?_, ?_⟩, ?_, ?_⟩
    · intro p hp; rw [hp] at h2; simpa using h2
    · intro hs hf
      cases hh : u.host with
      | none => simp [hs, hf, hh] at h3
      | some h => simp [hs, hf, hh] at h3; exact ⟨h, rfl, h3⟩
    · intro hc
      have : (u.hostText == [] || u.isFile) = true := by rcases hc with h | h <;> simp [h]
      rw [if_pos this] at h5
      simpa [Url.hasCredentials, and_assoc] using h5
    · intro hf
      rw [if_pos hf] at h6
      cases hh : u.host with
      | none => simp [hh] at h6
      | some h => exact ⟨h, rfl⟩
    · intro h hh; rw [hh] at h9; exact h9
    · intro hs; rw [if_pos hs] at h4; simpa using h4
    · intro ho; rw [if_pos ho] at h12; simpa [opaqueChar] using h12
    · intro ho
      rw [if_neg (by simp [ho])] at h12
      simpa [segChar] using h12
    · intro q hq; rw [hq] at h10; exact h10
    · intro f hf; rw [hf] at h11; exact h11
  · rintro ⟨⟨a1, a2, a3, a4, a5, a6, a7, a8⟩, ⟨p1, p2, p3⟩, hq, hf⟩
    refine ⟨⟨⟨⟨⟨⟨⟨⟨⟨⟨⟨a1, ?_⟩, ?_⟩, ?_⟩, ?_⟩, ?_⟩, a6⟩, a7⟩, ?_⟩, ?_⟩, ?_⟩, ?_⟩
    · cases hp : u.port with
      | none => rfl
      | some p => simpa using a2 p hp
    · split
      · rename_i hc
        simp only [Bool.not_eq_true'] at hc
        obtain ⟨h, hh, hne⟩ := a3 hc.1 hc.2
        simp [hh, hne]
      · rfl
    · split
      · rename_i hs; simpa using p1 hs
      · rfl
    · split
      · rename_i hc
        simp only [Bool.or_eq_true, beq_iff_eq] at hc
        obtain ⟨h1, h2, h3⟩ := a4 hc
        simp [Url.hasCredentials, h1, h2, h3]
      · rfl
    · split
      · rename_i hc
        obtain ⟨h, hh⟩ := a5 hc
        simp [hh]
      · rfl
    · cases hh : u.host with
      | none => rfl
      | some h => exact a8 h hh
    · cases hh : u.query with
      | none => rfl
      | some q => exact hq q hh
    · cases hh : u.fragment with
      | none => rfl
      | some f => exact hf f hh
    · split
      · rename_i ho
        simpa [opaqueChar] using p2 ho
      · rename_i ho
        simpa [segChar] using p3 (by simpa using ho)

theorem AuthOk.congr {u v : Url} (h : AuthOk u) (hs : v.scheme = u.scheme)
    (hu : v.username = u.username) (hp : v.password = u.password) (hh : v.host = u.host)
    (hpt : v.port = u.port) : AuthOk v := by
  cases u; cases v
  simp only at hs hu hp hh hpt
  subst hs hu hp hh hpt
  exact ⟨h.1, h.2, h.3, h.4, h.5, h.6, h.7, h.8⟩

theorem PathOk.congr {u v : Url} (h : PathOk u) (hs : v.scheme = u.scheme)
    (h1 : v.hasOpaquePath = u.hasOpaquePath) (h2 : v.opaquePath = u.opaquePath)
    (h3 : v.path = u.path) : PathOk v := by
  cases u; cases v
  simp only at hs h1 h2 h3
  subst hs h1 h2 h3
  exact ⟨h.1, h.2, h.3⟩

theorem QueryOk.congr {u v : Url} (h : QueryOk u) (hs : v.scheme = u.scheme)
    (h1 : v.query = u.query) : QueryOk v := by
  cases u; cases v
  simp only at hs h1
  subst hs h1
  exact h

theorem FragOk.congr {u v : Url} (h : FragOk u) (h1 : v.fragment = u.fragment) : FragOk v := by
  cases u; cases v
  simp only at h1
  subst h1
  exact h

/-! ### fragment, query, opaque path -/

theorem canon_fragmentState (u : Url) (p : List Nat) (ha : AuthOk u) (hp : PathOk u) (hq : QueryOk u) :
    Canon (fragmentState u p).url = true := by
  rw [canon_iff]
  refine ⟨ha.congr rfl rfl rfl rfl rfl, hp.congr rfl rfl rfl rfl, hq.congr rfl rfl, ?_⟩
  intro f hf
  simp only [fragmentState, Option.some.injEq] at hf
  subst hf; exact fragment_all p

theorem queryOk_set (u : Url) (q : List Nat) :
    QueryOk { u with query := some (percentEncode (if u.isSpecial then specialQueryNoEnc else queryNoEnc) q) } := by
  intro x hx
  simp only [Option.some.injEq] at hx; subst hx
  show (percentEncode _ q).all (queryChar u.isSpecial) = true
  cases hs : u.isSpecial
  · simp only [Bool.false_eq_true, if_false]; exact query_all q
  · simp only [if_true]; exact specialQuery_all q

theorem canon_queryState (ov : Option Override) (u : Url) (p : List Nat) (ha : AuthOk u) (hp : PathOk u)
    (hf : FragOk u) : Canon (queryState ov u p).url = true := by
  unfold queryState
  dsimp only
  split
  · rw [canon_iff]
    exact ⟨ha.congr rfl rfl rfl rfl rfl, hp.congr rfl rfl rfl rfl, queryOk_set u _, hf.congr rfl⟩
  · exact canon_fragmentState _ _ (ha.congr rfl rfl rfl rfl rfl) (hp.congr rfl rfl rfl rfl)
      (queryOk_set u _)

theorem canon_afterPath (ov : Option Override) (u : Url) (rest : List Nat) (h : Canon u = true) :
    Canon (afterPath ov u rest).url = true := by
  have h' := (canon_iff u).1 h
  unfold afterPath
  split
  · exact h
  · split
    · exact canon_queryState ov u _ h'.1 h'.2.1 h'.2.2.2
    · exact canon_fragmentState u _ h'.1 h'.2.1 h'.2.2.1

theorem canon_opaquePathState (ov : Option Override) (u : Url) (p : List Nat) (ha : AuthOk u)
    (hs : u.isSpecial = false) (ho : u.hasOpaquePath = true) (hpath : u.path = [])
    (hop : u.opaquePath.all opaqueChar = true) (hq : QueryOk u) (hf : FragOk u) :
    Canon (opaquePathState ov u p).url = true := by
  unfold opaquePathState
  apply canon_afterPath
  rw [canon_iff]
  refine ⟨ha.congr rfl rfl rfl rfl rfl, ⟨?_, ?_, ?_⟩, hq.congr rfl rfl, hf.congr rfl⟩
  · intro h; exact absurd (show u.isSpecial = true from h) (by simp [hs])
  · intro _
    refine ⟨?_, hpath⟩
    show (u.opaquePath ++ percentEncodeC0 _).all opaqueChar = true
    rw [List.all_append, hop, Bool.true_and]
    apply opaque_all
    intro c hc
    have := (mem_takeWhile hc).1
    simp only [isQorH, Bool.not_eq_true', Bool.or_eq_false_iff, beq_eq_false_iff_ne] at this
    exact this
  · intro h; exact absurd (show u.hasOpaquePath = false from h) (by simp [ho])

/-! ### path -/

/-- the list path under construction -/
structure PathPre (u : Url) : Prop where
  notOpaque : u.hasOpaquePath = false
  opq : u.opaquePath = []
  segs : ∀ seg ∈ u.path, seg.all segChar = true

theorem PathPre.congr {u v : Url} (h : PathPre u)
    (h1 : v.hasOpaquePath = u.hasOpaquePath) (h2 : v.opaquePath = u.opaquePath)
    (h3 : v.path = u.path) : PathPre v := by
  cases u; cases v
  simp only at h1 h2 h3
  subst h1 h2 h3
  exact ⟨h.1, h.2, h.3⟩

theorem splitOnP_spec (p : Nat → Bool) :
    ∀ s, splitOnP p s ≠ [] ∧ ∀ piece ∈ splitOnP p s, ∀ c ∈ piece, p c = false := by
  intro s
  induction s with
  | nil => simp [splitOnP]
  | cons c cs ih =>
    rw [splitOnP]
    split
    · refine ⟨by simp, ?_⟩
      intro piece hp
      rcases List.mem_cons.1 hp with rfl | hp
      · simp
      · exact ih.2 piece hp
    · rename_i hc
      split
      · rename_i heq; exact absurd heq ih.1
      · rename_i h t heq
        rw [heq] at ih
        refine ⟨by simp, ?_⟩
        intro piece hp
        rcases List.mem_cons.1 hp with rfl | hp
        · intro x hx
          rcases List.mem_cons.1 hx with rfl | hx
          · simpa using hc
          · exact ih.2 h List.mem_cons_self x hx
        · exact ih.2 piece (List.mem_cons_of_mem _ hp)

theorem ite_prop {α : Sort _} {P : α → Prop} {c : Prop} [Decidable c] {a b : α} (ha : P a) (hb : P b) :
    P (if c then a else b) := by
  split <;> assumption

theorem shortenPath_spec (u : Url) :
    ∃ p', shortenPath u = { u with path := p' } ∧ ∀ s ∈ p', s ∈ u.path := by
  unfold shortenPath
  split
  · exact ⟨u.path, rfl, fun _ h => h⟩
  · exact ite_prop (P := fun (r : Url) => ∃ p' : List (List Nat), r = { u with path := p' } ∧ ∀ s ∈ p', s ∈ u.path)
      ⟨u.path, rfl, fun _ h => h⟩ ⟨[], rfl, by simp⟩
  · exact ⟨u.path.dropLast, rfl, fun s hs => List.dropLast_subset _ hs⟩

theorem alpha_seg (a : Nat) (h : isAlpha a = true) : segChar a = true := by
  simp only [isAlpha, Bool.or_eq_true, Bool.and_eq_true, decide_eq_true_eq] at h
  simp only [segChar, isPrintable, Bool.and_eq_true, decide_eq_true_eq, bne_iff_ne, ne_eq]
  omega

theorem pathSegment_spec (u : Url) (seg : List Nat) (isLast : Bool) (hseg : ∀ c ∈ seg, c ≠ 0x2F)
    (hp : ∀ s ∈ u.path, s.all segChar = true) :
    ∃ p', pathSegment u seg isLast = { u with path := p' } ∧ (∀ s ∈ p', s.all segChar = true) ∧
      (isLast = true → p' ≠ []) := by
  have happ : ∀ (q : List (List Nat)) (x : List Nat), (∀ s ∈ q, s.all segChar = true) →
      x.all segChar = true → ∀ s ∈ q ++ [x], s.all segChar = true := by
    intro q x hq hx s hs
    rcases List.mem_append.1 hs with h | h
    · exact hq s h
    · rw [List.mem_singleton.1 h]; exact hx
  have henc : ∃ p', ({ u with path := u.path ++ [percentEncode pathNoEnc seg] } : Url) = { u with path := p' } ∧
      (∀ s ∈ p', s.all segChar = true) ∧ (isLast = true → p' ≠ []) :=
    ⟨_, rfl, happ _ _ hp (path_all seg hseg), fun _ => by simp⟩
  unfold pathSegment
  split
  · obtain ⟨p', he, hsub⟩ := shortenPath_spec u
    rw [he]
    split
    · exact ⟨p' ++ [[]], rfl, happ _ _ (fun s hs => hp s (hsub s hs)) (by simp), fun _ => by simp⟩
    · rename_i hl; exact ⟨p', rfl, fun s hs => hp s (hsub s hs), fun h => absurd h hl⟩
  · split
    · split
      · exact ⟨u.path ++ [[]], rfl, happ _ _ hp (by simp), fun _ => by simp⟩
      · rename_i hl; exact ⟨u.path, rfl, hp, fun h => absurd h hl⟩
    · split
      · split
        · rename_i hc
          simp only [Bool.and_eq_true, isWindowsDrive] at hc
          refine ⟨_, rfl, happ _ _ hp ?_, fun _ => by simp⟩
          simp only [List.all_cons, List.all_nil, Bool.and_true, Bool.and_eq_true]
          exact ⟨alpha_seg _ hc.2.1, by decide⟩
        · exact henc
      · exact henc

theorem pathSegments_spec : ∀ (segs : List (List Nat)) (u : Url), segs ≠ [] →
    (∀ seg ∈ segs, ∀ c ∈ seg, c ≠ 0x2F) → (∀ s ∈ u.path, s.all segChar = true) →
    ∃ p', pathSegments u segs = { u with path := p' } ∧ (∀ s ∈ p', s.all segChar = true) ∧ p' ≠ [] := by
  intro segs
  induction segs with
  | nil => intro u h; exact absurd rfl h
  | cons seg rest ih =>
    intro u _ hsegs hp
    cases rest with
    | nil =>
      obtain ⟨p', he, hok, hne⟩ := pathSegment_spec u seg true (hsegs seg List.mem_cons_self) hp
      exact ⟨p', by rw [pathSegments, he], hok, hne rfl⟩
    | cons s2 rest =>
      obtain ⟨p1, he, hok, _⟩ := pathSegment_spec u seg false (hsegs seg List.mem_cons_self) hp
      rw [pathSegments, he]
      obtain ⟨p2, he2, hok2, hne2⟩ := ih { u with path := p1 } (by simp)
        (fun sg hsg => hsegs sg (List.mem_cons_of_mem _ hsg)) hok
      exact ⟨p2, by rw [he2], hok2, hne2⟩
      all_goals simp

theorem parsePath_spec (u : Url) (s : List Nat) (hp : ∀ s ∈ u.path, s.all segChar = true) :
    ∃ p', parsePath u s = { u with path := p' } ∧ (∀ s ∈ p', s.all segChar = true) ∧ p' ≠ [] := by
  unfold parsePath
  dsimp only
  split
  · refine pathSegments_spec _ u (splitOnP_spec _ s).1 ?_ hp
    intro seg hseg c hc h
    have := (splitOnP_spec isSlash s).2 seg hseg c hc
    simp [isSlash, h] at this
  · refine pathSegments_spec _ u (splitOnP_spec _ s).1 ?_ hp
    intro seg hseg c hc h
    have := (splitOnP_spec (· == 0x2F) s).2 seg hseg c hc
    simp [h] at this

theorem canon_of_pathPre {u : Url} (ha : AuthOk u) (hp : PathPre u) (hne : u.isSpecial = true → u.path ≠ [])
    (hq : QueryOk u) (hf : FragOk u) : Canon u = true := by
  rw [canon_iff]
  exact ⟨ha, ⟨fun h => ⟨hp.notOpaque, hne h⟩, fun h => by simp [hp.notOpaque] at h,
    fun _ => ⟨hp.opq, hp.segs⟩⟩, hq, hf⟩

theorem canon_pathState (ov : Option Override) (u : Url) (p : List Nat) (ha : AuthOk u)
    (hp : PathPre u) (hq : QueryOk u) (hf : FragOk u) : Canon (pathState ov u p).url = true := by
  unfold pathState
  apply canon_afterPath
  obtain ⟨p', he, hok, hne⟩ := parsePath_spec u (if ov.isSome then p else p.takeWhile (fun c => !isQorH c)) hp.segs
  rw [he]
  exact canon_of_pathPre (ha.congr rfl rfl rfl rfl rfl) ⟨hp.notOpaque, hp.opq, hok⟩ (fun _ => hne)
    (hq.congr rfl rfl) (hf.congr rfl)

theorem canon_pathStartState (ov : Option Override) (u : Url) (p : List Nat) (ha : AuthOk u)
    (hp : PathPre u) (hq : QueryOk u) (hf : FragOk u) :
    Canon (pathStartState ov u p).url = true := by
  unfold pathStartState
  split
  · split
    · split <;> exact canon_pathState _ _ _ ha hp hq hf
    · exact canon_pathState _ _ _ ha hp hq hf
  · rename_i hs
    have hpo : PathOk u := ⟨fun h => absurd h hs, fun h => by simp [hp.notOpaque] at h,
      fun _ => ⟨hp.opq, hp.segs⟩⟩
    split
    · split
      · split
        · exact canon_queryState _ _ _ ha hpo hf
        · split
          · exact canon_fragmentState _ _ ha hpo hq
          · split <;> exact canon_pathState _ _ _ ha hp hq hf
      · split <;> exact canon_pathState _ _ _ ha hp hq hf
    · split
      · refine canon_of_pathPre (ha.congr rfl rfl rfl rfl rfl) ⟨hp.notOpaque, hp.opq, ?_⟩
          (fun h => absurd (show u.isSpecial = true from h) hs) (hq.congr rfl rfl) (hf.congr rfl)
        intro s hs'
        rcases List.mem_append.1 hs' with h | h
        · exact hp.segs s h
        · rw [List.mem_singleton.1 h]; rfl
      · exact canon_of_pathPre ha hp (fun h => absurd h hs) hq hf

/-! ### port, host, authority -/

/-- what the blocks before the path need of the path fields: with a state override (setter run) the
    URL already has a canonical path, without one the list path is under construction -/
def PathMode (ov : Option Override) (u : Url) : Prop :=
  (ov.isSome = true ∧ PathOk u) ∨ (ov = none ∧ PathPre u)

theorem PathMode.congr {ov : Option Override} {u v : Url} (h : PathMode ov u) (hs : v.scheme = u.scheme)
    (h1 : v.hasOpaquePath = u.hasOpaquePath) (h2 : v.opaquePath = u.opaquePath)
    (h3 : v.path = u.path) : PathMode ov v := by
  rcases h with ⟨ho, hp⟩ | ⟨ho, hp⟩
  · exact Or.inl ⟨ho, hp.congr hs h1 h2 h3⟩
  · exact Or.inr ⟨ho, hp.congr h1 h2 h3⟩

/-- end of a host / port block: return (override) or go on with the path -/
theorem canon_finish (ov : Option Override) (u : Url) (rest : List Nat) (ha : AuthOk u)
    (hm : PathMode ov u) (hq : QueryOk u) (hf : FragOk u) :
    Canon (if ov.isSome then (⟨.ok, u⟩ : Res) else pathStartState ov u rest).url = true := by
  rcases hm with ⟨ho, hp⟩ | ⟨ho, hp⟩
  · rw [if_pos ho]; exact (canon_iff u).2 ⟨ha, hp, hq, hf⟩
  · subst ho
    simp only [Option.isSome_none, Bool.false_eq_true, if_false]
    exact canon_pathStartState none u rest ha hp hq hf

theorem AuthOk.setPort_none {u : Url} (ha : AuthOk u) : AuthOk { u with port := none } :=
  ⟨ha.scheme, fun p hp => by simp at hp, ha.spHost,
    fun h => ⟨(ha.noCred h).1, (ha.noCred h).2.1, rfl⟩, ha.fileHost, ha.user, ha.pass, ha.host⟩

theorem AuthOk.setPort_some {u : Url} (ha : AuthOk u) (hh : u.hostText ≠ []) (hnf : u.isFile = false)
    (n : Nat) (hn : n ≤ 65535) (hd : defaultPort u.scheme ≠ some n) : AuthOk { u with port := some n } :=
  ⟨ha.scheme, fun p hp => by simp only [Option.some.injEq] at hp; subst hp; exact ⟨hn, hd⟩, ha.spHost,
    fun h => by
      rcases h with h | h
      · exact absurd h hh
      · exact absurd (show u.isFile = true from h) (by simp [hnf]),
    ha.fileHost, ha.user, ha.pass, ha.host⟩

/-- the port value computed by the port block -/
def portResult (u : Url) (digits : List Nat) : Option Url :=
  if digits ≠ [] then
    let d := stripLeadingZeros digits
    if d.length > 5 then none
    else
      let port := decimalValue d
      if port > 0xFFFF then none
      else if defaultPort u.scheme = some port then some { u with port := none }
      else some { u with port := some port }
  else some u

def portIsEnd (u : Url) (rest : List Nat) : Bool :=
  match rest with
  | [] => true
  | c :: _ => isAuthorityEnd c || (c == 0x5C && u.isSpecial)

theorem portState_eq (ov : Option Override) (u : Url) (p : List Nat) :
    portState ov u p =
      if portIsEnd u (p.dropWhile isDigit) || ov.isSome then
        match portResult u (p.takeWhile isDigit) with
        | none => ⟨.failure, u⟩
        | some u' => if ov.isSome then ⟨.ok, u'⟩ else pathStartState ov u' (p.dropWhile isDigit)
      else ⟨.failure, u⟩ := rfl

theorem portResult_spec {u u' : Url} {digits : List Nat} (h : portResult u digits = some u')
    (ha : AuthOk u) (hh : u.hostText ≠ []) (hnf : u.isFile = false) :
    AuthOk u' ∧ ∃ po, u' = { u with port := po } := by
  unfold portResult at h
  split at h
  · dsimp only at h
    split at h
    · simp at h
    · split at h
      · simp at h
      · rename_i hle
        split at h
        · simp only [Option.some.injEq] at h; subst h; exact ⟨ha.setPort_none, _, rfl⟩
        · rename_i hd
          simp only [Option.some.injEq] at h; subst h
          exact ⟨ha.setPort_some hh hnf _ (by omega) hd, _, rfl⟩
  · simp only [Option.some.injEq] at h; subst h; exact ⟨ha, u.port, rfl⟩

theorem canon_portState (ov : Option Override) (u : Url) (p : List Nat) (ha : AuthOk u)
    (hh : u.hostText ≠ []) (hnf : u.isFile = false) (hm : PathMode ov u) (hq : QueryOk u) (hf : FragOk u)
    (hu : ov.isSome = true → Canon u = true)
    (hgo : ov.isSome = true ∨ (portState ov u p).out = .ok) :
    Canon (portState ov u p).url = true := by
  have hfail : (ov.isSome = true ∨ (⟨.failure, u⟩ : Res).out = .ok) → Canon u = true := by
    intro h; rcases h with h | h
    · exact hu h
    · simp at h
  rw [portState_eq] at hgo ⊢
  by_cases hc : (portIsEnd u (p.dropWhile isDigit) || ov.isSome) = true
  · rw [if_pos hc] at hgo ⊢
    cases hr : portResult u (p.takeWhile isDigit) with
    | none => rw [hr] at hgo; exact hfail hgo
    | some u' =>
      obtain ⟨ha', po, he⟩ := portResult_spec hr ha hh hnf
      subst he
      exact canon_finish ov _ _ ha' (hm.congr rfl rfl rfl rfl) (hq.congr rfl rfl) (hf.congr rfl)
  · rw [if_neg hc] at hgo ⊢
    exact hfail hgo

theorem hostScan_nil : ∀ (l : List Nat) (b : Bool) (pp : Option (List Nat)),
    hostScan l b = ([], pp) → l = [] ∨ pp.isSome = true := by
  intro l b pp h
  cases l with
  | nil => exact Or.inl rfl
  | cons c r =>
    right
    unfold hostScan at h
    split at h
    · split at h
      · simp only [Prod.mk.injEq, true_and] at h; subst h; rfl
      · simp at h
    · split at h
      · simp at h
      · split at h <;> simp at h

/-- facts about scheme and credentials every host block run has -/
structure HostBase (u : Url) : Prop where
  scheme : schemeOk u.scheme = true
  port : ∀ p, u.port = some p → p ≤ 65535 ∧ defaultPort u.scheme ≠ some p
  notFile : u.isFile = false
  user : userinfoOk u.username = true
  pass : userinfoOk u.password = true

theorem HostBase.setHost {u : Url} (hb : HostBase u) (h : Host) (hok : hostOk h = true)
    (hsp : u.isSpecial = true → h.text ≠ [])
    (hc : h.text = [] → u.username = [] ∧ u.password = [] ∧ u.port = none) :
    AuthOk { u with host := some h } :=
  ⟨hb.scheme, hb.port, fun hs _ => ⟨h, rfl, hsp hs⟩,
    fun hh => by
      rcases hh with hh | hh
      · exact hc hh
      · exact absurd (show u.isFile = true from hh) (by simp [hb.notFile]),
    fun hf => absurd (show u.isFile = true from hf) (by simp [hb.notFile]),
    hb.user, hb.pass, fun h' hh' => by simp only [Option.some.injEq] at hh'; subst hh'; exact hok⟩

theorem takeWhile_cons_ne_nil {q : Nat → Bool} {c : Nat} {r : List Nat} (h : q c = true) :
    (c :: r).takeWhile q ≠ [] := by
  rw [List.takeWhile_cons, if_pos h]; simp

theorem canon_hostState (idna : Idna) (hi : IdnaCanon idna) (ov : Option Override) (u : Url)
    (p : List Nat)
    (hfileCase : ov.isSome = true → u.isFile = true → Canon (fileHostState idna ov u p).url = true)
    (hb : u.isFile = false → HostBase u)
    (hm : PathMode ov u) (hq : QueryOk u) (hf : FragOk u)
    (hu : ov.isSome = true → Canon u = true)
    (hnone : ov = none → u.isFile = false ∧ u.port = none ∧
      (u.hasCredentials = true → ∃ c r, p = c :: r ∧
        (if u.isSpecial then isSpecialAuthorityEnd else isAuthorityEnd) c = false))
    (hgo : ov.isSome = true ∨ (hostState idna ov u p).out = .ok) :
    Canon (hostState idna ov u p).url = true := by
  unfold hostState at hgo ⊢
  by_cases hfc : (ov.isSome && u.isFile) = true
  · rw [if_pos hfc]
    simp only [Bool.and_eq_true] at hfc
    exact hfileCase hfc.1 hfc.2
  · rw [if_neg hfc] at hgo ⊢
    have hnf : u.isFile = false := by
      cases ov with
      | none => exact (hnone rfl).1
      | some o => simpa using hfc
    have hb := hb hnf
    have hfail : ∀ o : Outcome, o ≠ .ok →
        (ov.isSome = true ∨ (⟨o, u⟩ : Res).out = .ok) → Canon u = true := by
      intro o ho h; rcases h with h | h
      · exact hu h
      · exact absurd h ho
    dsimp only at hgo ⊢
    generalize hsc : hostScan _ false = sc at hgo ⊢
    obtain ⟨hostPart, portPart⟩ := sc
    dsimp only at hgo ⊢
    split
    · rename_i hc; rw [if_pos hc] at hgo; exact hfail _ (by decide) hgo
    · rename_i hc1; rw [if_neg hc1] at hgo
      split
      · rename_i hc; rw [if_pos hc] at hgo; exact hfail _ (by decide) hgo
      · rename_i hc2; rw [if_neg hc2] at hgo
        split
        · rename_i hc; rw [if_pos hc] at hgo; exact hfail _ (by decide) hgo
        · rename_i hc3; rw [if_neg hc3] at hgo
          cases hph : parseHost idna hostPart (!u.isSpecial) with
          | none => rw [hph] at hgo; exact hfail _ (by decide) hgo
          | some h =>
            rw [hph] at hgo
            dsimp only at hgo ⊢
            obtain ⟨hok, hne⟩ := C08_host idna hi _ _ _ hph
            have hsp : u.isSpecial = true → h.text ≠ [] := by
              intro hs
              apply hne
              intro he
              exact hc1 (by simp [he, hs])
            have hcr : h.text = [] → u.username = [] ∧ u.password = [] ∧ u.port = none := by
              intro ht
              have he : hostPart = [] := by
                by_cases he : hostPart = []
                · exact he
                · exact absurd ht (hne he)
              have hnp : portPart.isSome = false := by
                cases hps : portPart.isSome with
                | false => rfl
                | true => exact absurd (by simp [he, hps]) hc1
              cases ov with
              | some o =>
                have : ¬ (u.hasCredentials = true ∨ u.port.isSome = true) := by
                  intro hh; apply hc2; simp [he]; simpa using hh
                simp only [Url.hasCredentials, not_or] at this
                obtain ⟨h1, h2⟩ := this
                have h1' : u.username = [] ∧ u.password = [] := by simpa using h1
                refine ⟨h1'.1, h1'.2, ?_⟩
                · cases hp : u.port with
                  | none => rfl
                  | some x => simp [hp] at h2
              | none =>
                obtain ⟨_, hpn, hcred⟩ := hnone rfl
                cases hcd : u.hasCredentials with
                | true =>
                  obtain ⟨c, r, hpe, hce⟩ := hcred hcd
                  subst hpe he
                  rcases hostScan_nil _ _ _ hsc with h0 | h0
                  · exact absurd h0 (takeWhile_cons_ne_nil (by simp [hce]))
                  · rw [hnp] at h0; simp at h0
                | false =>
                  simp only [Url.hasCredentials, Bool.or_eq_false_iff, decide_eq_false_iff_not,
                    ne_eq, Decidable.not_not] at hcd
                  exact ⟨hcd.1, hcd.2, hpn⟩
            have ha' := hb.setHost h hok hsp hcr
            cases portPart with
            | some pp =>
              dsimp only at hgo ⊢
              refine canon_portState ov _ _ ha' ?_ hnf (hm.congr rfl rfl rfl rfl) (hq.congr rfl rfl)
                (hf.congr rfl) ?_ hgo
              · show h.text ≠ []
                apply hne
                intro he
                exact hc1 (by simp [he])
              · intro ho
                have hcu := (canon_iff u).1 (hu ho)
                exact (canon_iff _).2 ⟨ha', hcu.2.1.congr rfl rfl rfl rfl, hcu.2.2.1.congr rfl rfl,
                  hcu.2.2.2.congr rfl⟩
            | none =>
              dsimp only
              exact canon_finish ov _ _ ha' (hm.congr rfl rfl rfl rfl) (hq.congr rfl rfl) (hf.congr rfl)

/-- result of a block: canonical, or (no override) not ok -/
def Good (ov : Option Override) (r : Res) : Prop := Canon r.url = true ∨ (ov = none ∧ r.out ≠ .ok)

theorem good_of {ov : Option Override} {r : Res}
    (h : ov.isSome = true ∨ r.out = .ok → Canon r.url = true) : Good ov r := by
  by_cases hc : ov.isSome = true ∨ r.out = .ok
  · exact Or.inl (h hc)
  · right
    simp only [not_or] at hc
    refine ⟨?_, hc.2⟩
    cases ov with
    | none => rfl
    | some o => simp at hc

theorem good_fail {ov : Option Override} {u : Url} (hu : ov.isSome = true → Canon u = true)
    (o : Outcome) (ho : o ≠ .ok) : Good ov ⟨o, u⟩ := by
  cases ov with
  | none => exact Or.inr ⟨rfl, ho⟩
  | some x => exact Or.inl (hu rfl)

/-! ### file host -/

def isDrive2 (buf : List Nat) : Bool := match buf with | [a, b] => isWindowsDrive a b | _ => false

theorem fileHostState_eq (idna : Idna) (ov : Option Override) (u : Url) (p : List Nat) :
    fileHostState idna ov u p =
      if p.takeWhile (fun c => !isSpecialAuthorityEnd c) = [] then
        (if ov.isSome then ⟨.ok, { u with host := some emptyHost }⟩
         else pathStartState ov { u with host := some emptyHost }
           (p.dropWhile (fun c => !isSpecialAuthorityEnd c)))
      else if ov.isNone && isDrive2 (p.takeWhile (fun c => !isSpecialAuthorityEnd c)) then pathState ov u p
      else
        match parseHost idna (p.takeWhile (fun c => !isSpecialAuthorityEnd c)) (!u.isSpecial) with
        | none => ⟨.failure, u⟩
        | some h =>
          if ov.isSome then
            ⟨.ok, { u with host := some (if h.text == sLocalhost then emptyHost else h) }⟩
          else pathStartState ov { u with host := some (if h.text == sLocalhost then emptyHost else h) }
            (p.dropWhile (fun c => !isSpecialAuthorityEnd c)) := rfl

theorem AuthOk.setHost_file {u : Url} (ha : AuthOk u) (hfile : u.isFile = true) (h : Host)
    (hok : hostOk h = true) : AuthOk { u with host := some h } :=
  ⟨ha.scheme, ha.port, fun _ hnf => absurd (show u.isFile = false from hnf) (by simp [hfile]),
    fun _ => ha.noCred (Or.inr hfile), fun _ => ⟨h, rfl⟩, ha.user, ha.pass,
    fun h' hh' => by simp only [Option.some.injEq] at hh'; subst hh'; exact hok⟩

theorem PathMode.none_pre {ov : Option Override} {u : Url} (hm : PathMode ov u) (ho : ov.isNone = true) :
    ov = none ∧ PathPre u := by
  rcases hm with ⟨h, _⟩ | h
  · cases ov <;> simp at h ho
  · exact h

theorem good_fileHostState (idna : Idna) (hi : IdnaCanon idna) (ov : Option Override) (u : Url)
    (p : List Nat) (ha : AuthOk u) (hfile : u.isFile = true) (hm : PathMode ov u) (hq : QueryOk u)
    (hf : FragOk u) : Good ov (fileHostState idna ov u p) := by
  have hcu : ov.isSome = true → Canon u = true := by
    intro ho
    rcases hm with ⟨_, hp⟩ | ⟨h, _⟩
    · exact (canon_iff u).2 ⟨ha, hp, hq, hf⟩
    · subst h; simp at ho
  have hfin : ∀ (h : Host) (rest : List Nat), hostOk h = true →
      Good ov (if ov.isSome then (⟨.ok, { u with host := some h }⟩ : Res)
        else pathStartState ov { u with host := some h } rest) := fun h rest hok =>
    Or.inl (canon_finish ov _ rest (ha.setHost_file hfile h hok) (hm.congr rfl rfl rfl rfl)
      (hq.congr rfl rfl) (hf.congr rfl))
  rw [fileHostState_eq]
  split
  · exact hfin emptyHost _ (by decide)
  · split
    · rename_i hc
      simp only [Bool.and_eq_true] at hc
      obtain ⟨ho, hp⟩ := hm.none_pre hc.1
      subst ho
      exact Or.inl (canon_pathState none u p ha hp hq hf)
    · cases hph : parseHost idna (p.takeWhile (fun c => !isSpecialAuthorityEnd c)) (!u.isSpecial) with
      | none => exact good_fail hcu _ (by decide)
      | some h =>
        dsimp only
        apply hfin
        split
        · decide
        · exact (C08_host idna hi _ _ _ hph).1

/-! ### authority -/

theorem splitLastAt_mem {s a b : List Nat} (h : splitLastAt s = some (a, b)) : ∀ c ∈ b, c ∈ s := by
  unfold splitLastAt at h
  dsimp only at h
  split at h
  · simp at h
  · simp only [Option.some.injEq, Prod.mk.injEq] at h
    intro c hc
    rw [← h.2, List.mem_reverse] at hc
    exact List.mem_reverse.1 (mem_takeWhile hc).2

theorem good_authorityState (idna : Idna) (hi : IdnaCanon idna) (u : Url) (p : List Nat)
    (hs : schemeOk u.scheme = true) (hnf : u.isFile = false) (hun : u.username = [])
    (hpw : u.password = []) (hport : u.port = none) (hp : PathPre u) (hq : QueryOk u) (hf : FragOk u) :
    Good none (authorityState idna none u p) := by
  have hhost : ∀ (u' : Url) (q : List Nat), u'.scheme = u.scheme → userinfoOk u'.username = true →
      userinfoOk u'.password = true → u'.port = none → PathPre u' → QueryOk u' → FragOk u' →
      (u'.hasCredentials = true → ∃ c r, q = c :: r ∧
        (if u'.isSpecial then isSpecialAuthorityEnd else isAuthorityEnd) c = false) →
      Good none (hostState idna none u' q) := by
    intro u' q h1 h2 h3 h4 h5 h6 h7 h8
    have hnf' : u'.isFile = false := by
      have : u'.isFile = u.isFile := by simp only [Url.isFile, h1]
      rw [this]; exact hnf
    apply good_of
    apply canon_hostState idna hi none u' q (fun h => by simp at h)
      (fun _ => ⟨by rw [h1]; exact hs, fun p hp => by rw [h4] at hp; simp at hp, hnf', h2, h3⟩)
      (Or.inr ⟨rfl, h5⟩) h6 h7 (fun h => by simp at h) (fun _ => ⟨hnf', h4, h8⟩)
  unfold authorityState
  dsimp only
  split
  · refine hhost u p rfl (by rw [hun]; rfl) (by rw [hpw]; rfl) hport hp hq hf ?_
    intro hc
    simp [Url.hasCredentials, hun, hpw] at hc
  · rename_i cred hostport hsl
    split
    · exact Or.inr ⟨rfl, by simp⟩
    · rename_i hne
      have hmem := splitLastAt_mem hsl
      cases hostport with
      | nil => exact absurd rfl hne
      | cons c t =>
        have hcend : (if u.isSpecial then isSpecialAuthorityEnd else isAuthorityEnd) c = false := by
          have := (mem_takeWhile (hmem c List.mem_cons_self)).1
          simpa using this
        refine ite_prop (P := fun (u' : Url) => Good none (hostState idna none u' (c :: t ++ _))) ?_ ?_
        · exact hhost _ _ rfl (userinfo_all _)
            (ite_prop (P := fun (x : List Nat) => userinfoOk x = true) (userinfo_all _) (by rw [hpw]; rfl))
            hport (hp.congr rfl rfl rfl) (hq.congr rfl rfl) (hf.congr rfl)
            (fun _ => ⟨c, _, rfl, hcend⟩)
        · exact hhost u _ rfl (by rw [hun]; rfl) (by rw [hpw]; rfl) hport hp hq hf
            (fun _ => ⟨c, _, rfl, hcend⟩)

/-! ### records ready for the path blocks -/

structure Ready (u : Url) : Prop where
  auth : AuthOk u
  path : PathPre u
  query : QueryOk u
  frag : FragOk u

theorem fresh_pathPre (s : List Nat) : PathPre { scheme := s } := ⟨rfl, rfl, by simp⟩
theorem fresh_queryOk (s : List Nat) : QueryOk { scheme := s } := fun q hq => by simp at hq
theorem fresh_fragOk (s : List Nat) : FragOk { scheme := s } := fun q hq => by simp at hq

theorem file_special {s : List Nat} (h : isFileScheme s = true) : isSpecialScheme s = true := by
  simp only [isFileScheme, beq_iff_eq] at h
  subst h; decide

theorem nonspecial_nonfile {s : List Nat} (hns : isSpecialScheme s = false) : isFileScheme s = false := by
  cases h : isFileScheme s with
  | false => rfl
  | true => rw [file_special h] at hns; simp at hns

theorem fresh_ready (s : List Nat) (hs : schemeOk s = true) (hns : isSpecialScheme s = false) :
    Ready { scheme := s } := by
  have hnf : isFileScheme s = false := nonspecial_nonfile hns
  exact ⟨⟨hs, fun p hp => by simp at hp,
    fun h => absurd (show isSpecialScheme s = true from h) (by simp [hns]),
    fun _ => ⟨rfl, rfl, rfl⟩, fun h => absurd (show isFileScheme s = true from h) (by simp [hnf]),
    rfl, rfl, fun h hh => by simp at hh⟩, fresh_pathPre s, fresh_queryOk s, fresh_fragOk s⟩

theorem good_ignoreSlashes (idna : Idna) (hi : IdnaCanon idna) (s : List Nat) (p : List Nat)
    (hs : schemeOk s = true) (hnf : isFileScheme s = false) :
    Good none (ignoreSlashesState idna none { scheme := s } p) :=
  good_authorityState idna hi _ _ hs hnf rfl rfl rfl (fresh_pathPre s) (fresh_queryOk s) (fresh_fragOk s)

theorem good_specialAuthoritySlashes (idna : Idna) (hi : IdnaCanon idna) (s : List Nat) (p : List Nat)
    (hs : schemeOk s = true) (hnf : isFileScheme s = false) :
    Good none (specialAuthoritySlashesState idna none { scheme := s } p) := by
  unfold specialAuthoritySlashesState
  split <;> exact good_ignoreSlashes idna hi s _ hs hnf

theorem good_pathOrAuthority (idna : Idna) (hi : IdnaCanon idna) (s : List Nat) (p : List Nat)
    (hs : schemeOk s = true) (hns : isSpecialScheme s = false) :
    Good none (pathOrAuthorityState idna none { scheme := s } p) := by
  have hr := fresh_ready s hs hns
  unfold pathOrAuthorityState
  split
  · exact good_authorityState idna hi _ _ hs (nonspecial_nonfile hns) rfl rfl rfl hr.path hr.query hr.frag
  · exact Or.inl (canon_pathState none _ p hr.auth hr.path hr.query hr.frag)

/-! ### file states -/

theorem pathPre_nil (u : Url) (h1 : u.hasOpaquePath = false) (h2 : u.opaquePath = [])
    (h3 : u.path = []) : PathPre u := ⟨h1, h2, by rw [h3]; simp⟩
theorem queryOk_none (u : Url) (h : u.query = none) : QueryOk u := fun q hq => by rw [h] at hq; simp at hq
theorem fragOk_none (u : Url) (h : u.fragment = none) : FragOk u := fun q hq => by rw [h] at hq; simp at hq

theorem Ready.good_pathState {u : Url} (h : Ready u) (p : List Nat) : Good none (pathState none u p) :=
  Or.inl (canon_pathState none u p h.auth h.path h.query h.frag)

/-- what a canonical `file:` base URL provides -/
structure FileBase (b : Url) : Prop where
  scheme : b.scheme = sFile
  host : ∃ h, b.host = some h ∧ hostOk h = true
  notOpaque : b.hasOpaquePath = false
  opq : b.opaquePath = []
  segs : ∀ seg ∈ b.path, seg.all segChar = true
  query : QueryOk b
  auth : AuthOk b
  pathOk : PathOk b

theorem isFile_scheme {b : Url} (hf : b.isFile = true) : b.scheme = sFile := by
  simpa [Url.isFile, isFileScheme] using hf

theorem fileBase_of (b : Url) (hc : Canon b = true) (hf : b.isFile = true) : FileBase b := by
  obtain ⟨ha, hp, hq, _⟩ := (canon_iff b).1 hc
  have hsp : b.isSpecial = true := file_special hf
  obtain ⟨h, hh⟩ := ha.fileHost hf
  have hno := (hp.sp hsp).1
  exact ⟨isFile_scheme hf, ⟨h, hh, ha.host h hh⟩, hno, (hp.lst hno).1, (hp.lst hno).2, hq, ha, hp⟩

theorem ready_file (u : Url) (hs : u.scheme = sFile) (hu : u.username = []) (hp : u.password = [])
    (hport : u.port = none) (h : Host) (hh : u.host = some h) (hok : hostOk h = true)
    (hpath : PathPre u) (hq : QueryOk u) (hfr : FragOk u) : Ready u := by
  have hfile : u.isFile = true := by simp [Url.isFile, isFileScheme, hs]
  refine ⟨⟨by rw [hs]; decide, fun p hp => by rw [hport] at hp; simp at hp,
    fun _ hnf => by rw [hfile] at hnf; simp at hnf, fun _ => ⟨hu, hp, hport⟩, fun _ => ⟨h, hh⟩,
    by rw [hu]; rfl, by rw [hp]; rfl, fun h' hh' => ?_⟩, hpath, hq, hfr⟩
  rw [hh] at hh'; simp only [Option.some.injEq] at hh'; subst hh'; exact hok

/-- the record the file state starts from -/
def fileBase : Url := { scheme := sFile, host := some emptyHost }

theorem ready_fileBase : Ready fileBase :=
  ready_file _ rfl rfl rfl rfl emptyHost rfl (by decide) (pathPre_nil _ rfl rfl rfl) (queryOk_none _ rfl)
    (fragOk_none _ rfl)

theorem good_fileSlashState (idna : Idna) (hi : IdnaCanon idna) (base : Option Url)
    (hbase : ∀ b, base = some b → Canon b = true) (p : List Nat) :
    Good none (fileSlashState idna base none fileBase p) := by
  have hdef : ∀ q, Good none (fileSlashState.fileSlashDefault base none fileBase q) := by
    intro q
    unfold fileSlashState.fileSlashDefault
    apply Ready.good_pathState
    cases base with
    | none => exact ready_fileBase
    | some b =>
      dsimp only
      split
      · rename_i hbf
        obtain ⟨hbs, ⟨h, hh, hok⟩, _, _, hsegs, _, _, _⟩ := fileBase_of b (hbase b rfl) hbf
        have hu : Ready { fileBase with host := b.host } :=
          ready_file _ rfl rfl rfl rfl h hh hok (pathPre_nil _ rfl rfl rfl) (queryOk_none _ rfl)
            (fragOk_none _ rfl)
        split
        · split
          · rename_i a c _ hbp
            split
            · refine ready_file _ rfl rfl rfl rfl h hh hok ⟨rfl, rfl, ?_⟩ (queryOk_none _ rfl)
                (fragOk_none _ rfl)
              intro seg hseg
              have : seg = [a, c] := by simpa [fileBase] using hseg
              subst this
              exact hsegs _ (by rw [hbp]; exact List.mem_cons_self)
            · exact hu
          · exact hu
        · exact hu
      · exact ready_fileBase
  unfold fileSlashState
  split
  · split
    · exact good_fileHostState idna hi none fileBase _ ready_fileBase.auth (by decide)
        (Or.inr ⟨rfl, ready_fileBase.path⟩) ready_fileBase.query ready_fileBase.frag
    · exact hdef _
  · exact hdef _

theorem good_fileState (idna : Idna) (hi : IdnaCanon idna) (base : Option Url)
    (hbase : ∀ b, base = some b → Canon b = true) (s : List Nat) (p : List Nat) :
    Good none (fileState idna base none { scheme := s } p) := by
  have hu1 : (if !Url.isFile { scheme := s } then ({ ({ scheme := s } : Url) with scheme := sFile } : Url)
      else { scheme := s }) = { scheme := sFile } := by
    split
    · rfl
    · rename_i h
      have : s = sFile := by simpa [Url.isFile, isFileScheme] using h
      subst this; rfl
  have hrb := ready_fileBase
  have hdef : ∀ q, Good none (fileState.fileDefault base none fileBase q) := by
    intro q
    unfold fileState.fileDefault
    cases base with
    | none => exact hrb.good_pathState _
    | some b =>
      dsimp only
      split
      · rename_i hbf
        obtain ⟨hbs, ⟨h, hh, hok⟩, hno, hopq, hsegs, hqb, hab, hpb⟩ := fileBase_of b (hbase b rfl) hbf
        have hpp : PathPre { fileBase with host := b.host, path := b.path } := ⟨rfl, rfl, hsegs⟩
        have hr : Ready { fileBase with host := b.host, path := b.path } :=
          ready_file _ rfl rfl rfl rfl h hh hok hpp (queryOk_none _ rfl) (fragOk_none _ rfl)
        have hpo : PathOk { fileBase with host := b.host, path := b.path } :=
          hpb.congr hbs.symm hno.symm hopq.symm rfl
        split
        · refine Or.inl ((canon_iff _).2 ⟨hr.auth.congr rfl rfl rfl rfl rfl, hpo.congr rfl rfl rfl rfl,
            hqb.congr hbs.symm rfl, fragOk_none _ rfl⟩)
        · split
          · exact Or.inl (canon_queryState none _ _ hr.auth hpo hr.frag)
          · split
            · exact Or.inl (canon_fragmentState _ _ (hr.auth.congr rfl rfl rfl rfl rfl)
                (hpo.congr rfl rfl rfl rfl) (hqb.congr hbs.symm rfl))
            · split
              · obtain ⟨p', he, hsub⟩ := shortenPath_spec { fileBase with host := b.host, path := b.path }
                rw [he]
                exact Or.inl (canon_pathState none _ _ (hr.auth.congr rfl rfl rfl rfl rfl)
                  ⟨rfl, rfl, fun sg hsg => hsegs sg (hsub sg hsg)⟩ (queryOk_none _ rfl) (fragOk_none _ rfl))
              · have hr2 : Ready { fileBase with host := b.host } :=
                  ready_file _ rfl rfl rfl rfl h hh hok (pathPre_nil _ rfl rfl rfl) (queryOk_none _ rfl)
                    (fragOk_none _ rfl)
                exact hr2.good_pathState _
      · exact hrb.good_pathState _
  unfold fileState
  rw [hu1]
  show Good none (match p with
    | c :: r => if isSlash c then fileSlashState idna base none fileBase r
                else fileState.fileDefault base none fileBase p
    | [] => fileState.fileDefault base none fileBase p)
  split
  · split
    · exact good_fileSlashState idna hi base hbase _
    · exact hdef _
  · exact hdef _

/-! ### relative states -/

theorem good_relativeSlashState (idna : Idna) (hi : IdnaCanon idna) (b : Url) (hb : Canon b = true)
    (hbf : b.isFile = false) (p : List Nat) :
    Good none (relativeSlashState idna b none { scheme := b.scheme } p) := by
  obtain ⟨ha, _, _, _⟩ := (canon_iff b).1 hb
  have hpath : ∀ q, Good none (pathState none (copyAuthority { scheme := b.scheme } b) q) := fun q =>
    Ready.good_pathState (u := copyAuthority { scheme := b.scheme } b)
      ⟨ha.congr rfl rfl rfl rfl rfl, pathPre_nil _ rfl rfl rfl, queryOk_none _ rfl, fragOk_none _ rfl⟩ q
  have hauth : ∀ q, Good none (authorityState idna none { scheme := b.scheme } q) := fun q =>
    good_authorityState idna hi _ _ ha.scheme hbf rfl rfl rfl (pathPre_nil _ rfl rfl rfl)
      (queryOk_none _ rfl) (fragOk_none _ rfl)
  unfold relativeSlashState
  split
  · split
    · split
      · exact good_ignoreSlashes idna hi _ _ ha.scheme hbf
      · exact hauth _
    · split
      · exact good_ignoreSlashes idna hi _ _ ha.scheme hbf
      · exact hpath _
  · exact hpath _

theorem good_relativeState (idna : Idna) (hi : IdnaCanon idna) (b : Url) (hb : Canon b = true)
    (hbf : b.isFile = false) (hbo : b.hasOpaquePath = false) (s : List Nat) (p : List Nat) :
    Good none (relativeState idna b none { scheme := s } p) := by
  obtain ⟨ha, hp, hq, _⟩ := (canon_iff b).1 hb
  have haC : AuthOk (copyPath (copyAuthority { scheme := b.scheme } b) b) := ha.congr rfl rfl rfl rfl rfl
  have hpC : PathOk (copyPath (copyAuthority { scheme := b.scheme } b) b) := hp.congr rfl rfl rfl rfl
  unfold relativeState
  show Good none (match p with
    | [] => ⟨.ok, { copyPath (copyAuthority { scheme := b.scheme } b) b with query := b.query }⟩
    | c :: r =>
      if c = 0x2F then relativeSlashState idna b none { scheme := b.scheme } r
      else if c = 0x3F then queryState none (copyPath (copyAuthority { scheme := b.scheme } b) b) r
      else if c = 0x23 then
        fragmentState { copyPath (copyAuthority { scheme := b.scheme } b) b with query := b.query } r
      else if c = 0x5C && Url.isSpecial { scheme := b.scheme } then
        relativeSlashState idna b none { scheme := b.scheme } r
      else pathState none (removeLastSegment (copyPath (copyAuthority { scheme := b.scheme } b) b)) p)
  split
  · exact Or.inl ((canon_iff _).2 ⟨haC.congr rfl rfl rfl rfl rfl, hpC.congr rfl rfl rfl rfl,
      hq.congr rfl rfl, fragOk_none _ rfl⟩)
  · split
    · exact good_relativeSlashState idna hi b hb hbf _
    · split
      · exact Or.inl (canon_queryState none _ _ haC hpC (fragOk_none _ rfl))
      · split
        · exact Or.inl (canon_fragmentState _ _ (haC.congr rfl rfl rfl rfl rfl) (hpC.congr rfl rfl rfl rfl)
            (hq.congr rfl rfl))
        · split
          · exact good_relativeSlashState idna hi b hb hbf _
          · refine Ready.good_pathState
              (u := removeLastSegment (copyPath (copyAuthority { scheme := b.scheme } b) b))
              ⟨haC.congr rfl rfl rfl rfl rfl, ⟨hbo, (hp.lst hbo).1, ?_⟩,
              queryOk_none _ rfl, fragOk_none _ rfl⟩ _
            intro seg hseg
            exact (hp.lst hbo).2 seg (List.dropLast_subset _ hseg)

theorem good_specialRelativeOrAuthority (idna : Idna) (hi : IdnaCanon idna) (b : Url)
    (hb : Canon b = true) (hbf : b.isFile = false) (hbs : b.isSpecial = true) (p : List Nat) :
    Good none (specialRelativeOrAuthorityState idna b none { scheme := b.scheme } p) := by
  obtain ⟨ha, hp, _, _⟩ := (canon_iff b).1 hb
  unfold specialRelativeOrAuthorityState
  split
  · exact good_ignoreSlashes idna hi _ _ ha.scheme hbf
  · exact good_relativeState idna hi b hb hbf (hp.sp hbs).1 _ _

theorem good_noSchemeState (idna : Idna) (hi : IdnaCanon idna) (base : Option Url)
    (hbase : ∀ b, base = some b → Canon b = true) (p : List Nat) :
    Good none (noSchemeState idna base none {} p) := by
  unfold noSchemeState
  cases base with
  | none => exact Or.inr ⟨rfl, by simp⟩
  | some b =>
    have hb := hbase b rfl
    obtain ⟨ha, hp, hq, _⟩ := (canon_iff b).1 hb
    dsimp only
    split
    · rename_i hbo
      split
      · have hns : isSpecialScheme b.scheme = false := by
          cases h : isSpecialScheme b.scheme with
          | false => rfl
          | true => have := (hp.sp h).1; rw [hbo] at this; simp at this
        have hr := fresh_ready b.scheme ha.scheme hns
        exact Or.inl (canon_fragmentState _ _ (hr.auth.congr rfl rfl rfl rfl rfl)
          (hp.congr rfl rfl rfl rfl) (hq.congr rfl rfl))
      · exact Or.inr ⟨rfl, by simp⟩
    · rename_i hbo
      split
      · exact good_fileState idna hi (some b) hbase [] p
      · rename_i hbf
        exact good_relativeState idna hi b hb (by simpa using hbf) (by simpa using hbo) [] p

/-! ### scheme -/

theorem alpha_lower : ∀ c, c < 128 → isAlpha c = true → isLowerAlpha (c ||| 0x20) = true := by
  decide +kernel

theorem schemeChar_lower : ∀ c, c < 128 → isSchemeChar c = true →
    (isLowerAlpha (c ||| 0x20) || isDigit (c ||| 0x20) || (c ||| 0x20) == 0x2B || (c ||| 0x20) == 0x2D
      || (c ||| 0x20) == 0x2E) = true := by
  decide +kernel

theorem isAlpha_lt (c : Nat) (h : isAlpha c = true) : c < 128 := by
  simp [isAlpha] at h; omega

theorem isSchemeChar_lt (c : Nat) (h : isSchemeChar c = true) : c < 128 := by
  simp [isSchemeChar, isAlpha, isDigit] at h; omega

theorem scheme_lower_ok (c0 : Nat) (body : List Nat) (h0 : isAlpha c0 = true)
    (hb : ∀ c ∈ body, isSchemeChar c = true) : schemeOk ((c0 :: body).map (· ||| 0x20)) = true := by
  simp only [List.map_cons, schemeOk, Bool.and_eq_true, List.all_eq_true]
  refine ⟨alpha_lower c0 (isAlpha_lt c0 h0) h0, ?_⟩
  intro x hx
  obtain ⟨c, hc, rfl⟩ := List.mem_map.1 hx
  exact schemeChar_lower c (isSchemeChar_lt c (hb c hc)) (hb c hc)

theorem good_schemeState (idna : Idna) (hi : IdnaCanon idna) (base : Option Url)
    (hbase : ∀ b, base = some b → Canon b = true) (c0 : Nat) (r0 : List Nat) (h0 : isAlpha c0 = true) :
    Good none (schemeState idna base none {} (c0 :: r0)) := by
  have hs : schemeOk ((c0 :: r0.takeWhile isSchemeChar).map (· ||| 0x20)) = true :=
    scheme_lower_ok c0 _ h0 (fun c hc => (mem_takeWhile hc).1)
  unfold schemeState
  dsimp only
  generalize (c0 :: r0.takeWhile isSchemeChar).map (· ||| 0x20) = scheme at hs ⊢
  have hno : Good none (if (none : Option Override).isNone = true then noSchemeState idna base none {} (c0 :: r0)
      else ⟨.failure, {}⟩) := by
    simp only [Option.isNone_none, if_true]
    exact good_noSchemeState idna hi base hbase _
  cases hrest : List.dropWhile isSchemeChar r0 with
  | nil =>
    simp only [Option.isSome_none, Bool.false_eq_true, if_false]
    exact hno
  | cons c tl =>
    dsimp only
    by_cases hc : (c == 0x3A) = true
    · rw [if_pos hc]
      simp only [Option.isSome_none, Bool.false_eq_true, if_false]
      split
      · exact good_fileState idna hi base hbase scheme _
      · rename_i hnf
        have hnf' : isFileScheme scheme = false := by simpa [Url.isFile] using hnf
        split
        · rename_i hsp
          cases base with
          | none => exact good_specialAuthoritySlashes idna hi scheme _ hs hnf'
          | some b =>
            dsimp only
            split
            · rename_i hbs
              have hbs' : b.scheme = scheme := hbs
              subst hbs'
              exact good_specialRelativeOrAuthority idna hi b (hbase b rfl) hnf' hsp _
            · exact good_specialAuthoritySlashes idna hi scheme _ hs hnf'
        · rename_i hsp
          have hns : isSpecialScheme scheme = false := by simpa [Url.isSpecial] using hsp
          have hr := fresh_ready scheme hs hns
          split
          · exact good_pathOrAuthority idna hi scheme _ hs hns
          · exact Or.inl (canon_opaquePathState none _ _ (hr.auth.congr rfl rfl rfl rfl rfl) hns rfl rfl rfl
              (queryOk_none _ rfl) (fragOk_none _ rfl))
    · rw [if_neg hc]
      exact hno

theorem good_urlParse (idna : Idna) (hi : IdnaCanon idna) (base : Option Url)
    (hbase : ∀ b, base = some b → Canon b = true) (p : List Nat) :
    Good none (urlParse idna base none {} p) := by
  unfold urlParse
  dsimp only
  split
  · split
    · rename_i h0; exact good_schemeState idna hi base hbase _ _ h0
    · simp only [Option.isNone_none, if_true]; exact good_noSchemeState idna hi base hbase _
  · simp only [Option.isNone_none, if_true]; exact good_noSchemeState idna hi base hbase _

theorem parse_canon (idna : Idna) (hi : IdnaCanon idna) (e : Enc) (units : List Nat) (base : Option Url)
    (hbase : ∀ b, base = some b → Canon b = true) (u : Url)
    (h : parse idna e units base = some u) : Canon u = true := by
  unfold parse at h
  have hg := good_urlParse idna hi base hbase (prep e (doTrim units))
  generalize urlParse idna base none {} (prep e (doTrim units)) = r at h hg
  obtain ⟨o, u'⟩ := r
  cases o with
  | ok =>
    simp only [Option.some.injEq] at h
    subst h
    rcases hg with hg | ⟨_, hg⟩
    · exact hg
    · simp at hg
  | failure => simp at h
  | ignored => simp at h

/-! ## Part 4: setters -/

theorem canon_stripTrailingSpaces (u : Url) (h : Canon u = true) : Canon (stripTrailingSpaces u) = true := by
  unfold stripTrailingSpaces
  split
  · obtain ⟨ha, hp, hq, hf⟩ := (canon_iff u).1 h
    refine (canon_iff _).2 ⟨ha.congr rfl rfl rfl rfl rfl, ⟨hp.sp, ?_, ?_⟩, hq.congr rfl rfl, hf.congr rfl⟩
    · intro ho
      refine ⟨?_, (hp.opq ho).2⟩
      have hall := (hp.opq ho).1
      rw [List.all_eq_true] at hall ⊢
      intro c hc
      exact hall c (List.mem_reverse.1 (mem_dropWhile (List.mem_reverse.1 hc)))
    · intro ho
      have := (hp.lst ho).1
      refine ⟨?_, (hp.lst ho).2⟩
      show (List.dropWhile (· == 0x20) u.opaquePath.reverse).reverse = []
      rw [this]; rfl
  · exact h

theorem canHave_iff {u : Url} :
    canHaveUsernamePasswordPort u = true ↔ u.hostText ≠ [] ∧ u.isFile = false := by
  simp [canHaveUsernamePasswordPort]

theorem canon_setUserinfo (u : Url) (h : Canon u = true) (hc : canHaveUsernamePasswordPort u = true)
    (un pw : List Nat) (hun : userinfoOk un = true) (hpw : userinfoOk pw = true) :
    Canon { u with username := un, password := pw } = true := by
  obtain ⟨ha, hp, hq, hf⟩ := (canon_iff u).1 h
  obtain ⟨hc1, hc2⟩ := canHave_iff.1 hc
  refine (canon_iff _).2 ⟨⟨ha.scheme, ha.port, ha.spHost, ?_, ha.fileHost, hun, hpw, ha.host⟩,
    hp.congr rfl rfl rfl rfl, hq.congr rfl rfl, hf.congr rfl⟩
  intro hh
  rcases hh with hh | hh
  · exact absurd hh hc1
  · exact absurd (show u.isFile = true from hh) (by simp [hc2])

theorem canon_setScheme (u : Url) (h : Canon u = true) (scheme : List Nat) (hs : schemeOk scheme = true)
    (h1 : (u.isSpecial != isSpecialScheme scheme) = false)
    (h2 : (isFileScheme scheme && (u.hasCredentials || u.port.isSome)) = false)
    (h3 : ¬ (u.isFile = true ∧ u.hostText = [])) :
    Canon (if (u.port.isSome && decide (defaultPort scheme = u.port)) = true
      then ({ u with scheme := scheme, port := none } : Url) else { u with scheme := scheme }) = true := by
  obtain ⟨ha, hp, hq, hf⟩ := (canon_iff u).1 h
  have hsp : isSpecialScheme scheme = u.isSpecial := by
    cases hx : u.isSpecial <;> cases hy : isSpecialScheme scheme <;> simp [hx, hy] at h1 ⊢
  have hfile : isFileScheme scheme = true → u.username = [] ∧ u.password = [] ∧ u.port = none := by
    intro hfs
    simp only [hfs, Bool.true_and, Bool.or_eq_false_iff, Url.hasCredentials, decide_eq_false_iff_not,
      ne_eq, Decidable.not_not] at h2
    refine ⟨h2.1.1, h2.1.2, ?_⟩
    cases hpt : u.port with
    | none => rfl
    | some x => rw [hpt] at h2; simp at h2
  have hhost : isSpecialScheme scheme = true → ∃ h, u.host = some h ∧ h.text ≠ [] := by
    intro hss
    rw [hsp] at hss
    cases huf : u.isFile with
    | false => exact ha.spHost hss huf
    | true =>
      obtain ⟨h, hh⟩ := ha.fileHost huf
      refine ⟨h, hh, fun ht => h3 ⟨huf, ?_⟩⟩
      simp [Url.hostText, hh, ht]
  -- the record with any admissible port
  have key : ∀ po : Option Nat, (∀ n, po = some n → n ≤ 65535 ∧ defaultPort scheme ≠ some n) →
      (u.port = none → po = none) →
      Canon ({ u with scheme := scheme, port := po } : Url) = true := by
    intro po hpo hpn
    refine (canon_iff _).2 ⟨⟨hs, hpo, fun hss _ => hhost hss, ?_, fun hfs => ?_, ha.user, ha.pass, ha.host⟩,
      ⟨fun hss => hp.sp (by rw [← hsp]; exact hss), hp.opq, hp.lst⟩, ?_, hf.congr rfl⟩
    · intro hh
      rcases hh with hh | hh
      · obtain ⟨a, b, c⟩ := ha.noCred (Or.inl hh)
        exact ⟨a, b, hpn c⟩
      · obtain ⟨a, b, c⟩ := hfile hh
        exact ⟨a, b, hpn c⟩
    · obtain ⟨h, hh, _⟩ := hhost (file_special hfs)
      exact ⟨h, hh⟩
    · intro q hq'
      have := hq q hq'
      show q.all (queryChar (isSpecialScheme scheme)) = true
      rw [hsp]; exact this
  split
  · exact key none (fun n hn => by simp at hn) (fun _ => rfl)
  · rename_i hc
    refine key u.port ?_ (fun h => h)
    intro n hn
    refine ⟨(ha.port n hn).1, fun hd => hc ?_⟩
    simp [hn, hd]

theorem canon_schemeYes (u : Url) (h : Canon u = true) (scheme : List Nat) (hs : schemeOk scheme = true) :
    Canon (if (u.isSpecial != isSpecialScheme scheme) = true then (⟨.ignored, u⟩ : Res)
      else if (isFileScheme scheme && (u.hasCredentials || u.port.isSome)) = true then ⟨.ignored, u⟩
      else if (u.isFile && decide (u.hostText = [])) = true then ⟨.ignored, u⟩
      else
        ⟨.ok, if (u.port.isSome && decide (defaultPort scheme = u.port)) = true
          then ({ u with scheme := scheme, port := none } : Url) else { u with scheme := scheme }⟩).url = true := by
  split
  · exact h
  · rename_i h1
    split
    · exact h
    · rename_i h2
      split
      · exact h
      · rename_i h3
        exact canon_setScheme u h scheme hs (by simpa using h1) (by simpa using h2) (by simpa using h3)

theorem canon_schemeState_ov (idna : Idna) (u : Url) (h : Canon u = true) (c0 : Nat) (r0 : List Nat)
    (h0 : isAlpha c0 = true) :
    Canon (schemeState idna none (some .schemeStart) u (c0 :: r0)).url = true := by
  have hs : schemeOk ((c0 :: r0.takeWhile isSchemeChar).map (· ||| 0x20)) = true :=
    scheme_lower_ok c0 _ h0 (fun c hc => (mem_takeWhile hc).1)
  unfold schemeState
  dsimp only
  generalize (c0 :: r0.takeWhile isSchemeChar).map (· ||| 0x20) = scheme at hs ⊢
  cases hrest : List.dropWhile isSchemeChar r0 with
  | nil =>
    simp only [Option.isSome_some, if_true]
    exact canon_schemeYes u h scheme hs
  | cons c tl =>
    dsimp only
    by_cases hc : (c == 0x3A) = true
    · rw [if_pos hc]
      simp only [Option.isSome_some, if_true]
      exact canon_schemeYes u h scheme hs
    · rw [if_neg hc]
      simp only [Option.isNone_some, Bool.false_eq_true, if_false]
      exact h

theorem canon_run_schemeStart (idna : Idna) (u : Url) (h : Canon u = true) (p : List Nat) :
    Canon (urlParse idna none (some .schemeStart) u p).url = true := by
  unfold urlParse
  cases p with
  | nil => simp only [Option.isNone_some, Bool.false_eq_true, if_false]; exact h
  | cons c r =>
    dsimp only
    split
    · rename_i h0; exact canon_schemeState_ov idna u h _ _ h0
    · simp only [Option.isNone_some, Bool.false_eq_true, if_false]; exact h

theorem canon_hostState_ov (idna : Idna) (hi : IdnaCanon idna) (o : Override) (u : Url)
    (h : Canon u = true) (p : List Nat) : Canon (hostState idna (some o) u p).url = true := by
  obtain ⟨ha, hp, hq, hf⟩ := (canon_iff u).1 h
  refine canon_hostState idna hi (some o) u p ?_ ?_ (Or.inl ⟨rfl, hp⟩) hq hf (fun _ => h)
    (fun hn => by simp at hn) (Or.inl rfl)
  · intro _ hfile
    rcases good_fileHostState idna hi (some o) u p ha hfile (Or.inl ⟨rfl, hp⟩) hq hf with hg | ⟨hg, _⟩
    · exact hg
    · simp at hg
  · intro hnf
    exact ⟨ha.scheme, ha.port, hnf, ha.user, ha.pass⟩

theorem canon_run_host (idna : Idna) (hi : IdnaCanon idna) (u : Url) (h : Canon u = true) (p : List Nat) :
    Canon (urlParse idna none (some .host) u p).url = true := by
  unfold urlParse; exact canon_hostState_ov idna hi _ u h p

theorem canon_run_hostname (idna : Idna) (hi : IdnaCanon idna) (u : Url) (h : Canon u = true) (p : List Nat) :
    Canon (urlParse idna none (some .hostname) u p).url = true := by
  unfold urlParse; exact canon_hostState_ov idna hi _ u h p

theorem canon_run_port (idna : Idna) (u : Url) (h : Canon u = true)
    (hc : canHaveUsernamePasswordPort u = true) (p : List Nat) :
    Canon (urlParse idna none (some .port) u p).url = true := by
  obtain ⟨ha, hp, hq, hf⟩ := (canon_iff u).1 h
  obtain ⟨hc1, hc2⟩ := canHave_iff.1 hc
  unfold urlParse
  exact canon_portState (some .port) u p ha hc1 hc2 (Or.inl ⟨rfl, hp⟩) hq hf (fun _ => h) (Or.inl rfl)

theorem canon_run_pathStart (idna : Idna) (u : Url) (h : Canon u = true) (ho : u.hasOpaquePath = false)
    (p : List Nat) : Canon (urlParse idna none (some .pathStart) { u with path := [] } p).url = true := by
  obtain ⟨ha, hp, hq, hf⟩ := (canon_iff u).1 h
  unfold urlParse
  exact canon_pathStartState (some .pathStart) _ p (ha.congr rfl rfl rfl rfl rfl)
    ⟨ho, (hp.lst ho).1, by simp⟩ (hq.congr rfl rfl) (hf.congr rfl)

theorem canon_run_query (idna : Idna) (u : Url) (h : Canon u = true) (p : List Nat) :
    Canon (urlParse idna none (some .query) u p).url = true := by
  obtain ⟨ha, hp, hq, hf⟩ := (canon_iff u).1 h
  unfold urlParse
  exact canon_queryState (some .query) u p ha hp hf

theorem canon_run_fragment (idna : Idna) (u : Url) (h : Canon u = true) (p : List Nat) :
    Canon (urlParse idna none (some .fragment) u p).url = true := by
  obtain ⟨ha, hp, hq, hf⟩ := (canon_iff u).1 h
  unfold urlParse
  exact canon_fragmentState u p ha hp hq

/-- every setter keeps a canonical URL canonical (also when it reports failure) -/
theorem set_canon (idna : Idna) (hi : IdnaCanon idna) (s : Setter) (e : Enc) (units : List Nat) (u : Url)
    (h : Canon u = true) : Canon (setValid idna s e units u).1 = true := by
  obtain ⟨ha, hp, hq, hf⟩ := (canon_iff u).1 h
  unfold setValid
  cases s with
  | href =>
    dsimp only
    cases hpr : parse idna e units none with
    | none => exact h
    | some u' => exact parse_canon idna hi e units none (fun b hb => by simp at hb) u' hpr
  | protocol => exact canon_run_schemeStart idna u h _
  | username =>
    dsimp only
    split
    · rename_i hc
      exact canon_setUserinfo u h hc _ _ (userinfo_all _) ha.pass
    · exact h
  | password =>
    dsimp only
    split
    · rename_i hc
      exact canon_setUserinfo u h hc _ _ ha.user (userinfo_all _)
    · exact h
  | host =>
    dsimp only
    split
    · exact canon_run_host idna hi u h _
    · exact h
  | hostname =>
    dsimp only
    split
    · exact canon_run_hostname idna hi u h _
    · exact h
  | port =>
    dsimp only
    split
    · rename_i hc
      split
      · exact (canon_iff _).2 ⟨ha.setPort_none, hp.congr rfl rfl rfl rfl, hq.congr rfl rfl, hf.congr rfl⟩
      · exact canon_run_port idna u h hc _
    · exact h
  | pathname =>
    dsimp only
    split
    · rename_i ho
      exact canon_run_pathStart idna u h (by simpa using ho) _
    · exact h
  | search =>
    dsimp only
    split
    · exact canon_stripTrailingSpaces _ ((canon_iff _).2 ⟨ha.congr rfl rfl rfl rfl rfl,
        hp.congr rfl rfl rfl rfl, queryOk_none _ rfl, hf.congr rfl⟩)
    · exact canon_run_query idna u h _
  | hash =>
    dsimp only
    split
    · exact canon_stripTrailingSpaces _ ((canon_iff _).2 ⟨ha.congr rfl rfl rfl rfl rfl,
        hp.congr rfl rfl rfl rfl, hq.congr rfl rfl, fragOk_none _ rfl⟩)
    · exact canon_run_fragment idna u h _

/-! ### `url_search_params::update` -/

theorem form_query (sp : Bool) : ∀ c, c < 128 → C15.isFormChar c = true → queryChar sp c = true := by
  cases sp <;> decide +kernel

theorem isFormChar_lt (c : Nat) (h : C15.isFormChar c = true) : c < 128 := by
  simp [C15.isFormChar, isAlpha, isDigit] at h; omega

theorem update_canon (o : UrlObj) (hu : ∀ u, o.url = some u → Canon u = true)
    (hsp : ∀ p, o.sp = some p → ∀ pr ∈ p.list, (∀ b ∈ pr.1, b < 256) ∧ (∀ b ∈ pr.2, b < 256)) :
    ∀ u', o.update.url = some u' → Canon u' = true := by
  intro u' hu'
  unfold UrlObj.update at hu'
  split at hu'
  · rename_i u p hou hop
    have h := hu u hou
    obtain ⟨ha, hp, hq, hf⟩ := (canon_iff u).1 h
    split at hu'
    · simp only [Option.some.injEq] at hu'
      subst hu'
      exact canon_stripTrailingSpaces _ ((canon_iff _).2 ⟨ha.congr rfl rfl rfl rfl rfl,
        hp.congr rfl rfl rfl rfl, queryOk_none _ rfl, hf.congr rfl⟩)
    · simp only [Option.some.injEq] at hu'
      subst hu'
      refine (canon_iff _).2 ⟨ha.congr rfl rfl rfl rfl rfl, hp.congr rfl rfl rfl rfl, ?_, hf.congr rfl⟩
      intro q hq'
      simp only [Option.some.injEq] at hq'
      subst hq'
      rw [List.all_eq_true]
      intro c hc
      have := C15.serialize_alphabet p.list (hsp p hop) c hc
      exact form_query _ c (isFormChar_lt c this) this
  · exact hu u' hu'

/-! ## a sample IDNA function satisfying `IdnaCanon` (for the non-vacuity examples) -/

/-- ASCII-only stand-in for ToASCII: lower-cases ASCII input, fails on empty or non-ASCII input -/
def sampleIdna : Idna := fun s =>
  if s = [] then none else if s.all (fun c => decide (c < 0x80)) then some (s.map toLower) else none

theorem toLower_tbl : ∀ d, d < 128 → toLower d < 0x80 ∧ isUpperAlpha (toLower d) = false := by
  decide +kernel

theorem sampleIdna_canon : IdnaCanon sampleIdna := by
  constructor
  intro s r h
  unfold sampleIdna at h
  split at h
  · simp at h
  · rename_i hne
    split at h
    · rename_i hall
      simp only [Option.some.injEq] at h
      subst h
      refine ⟨by simpa using hne, ?_⟩
      intro c hc
      obtain ⟨d, hd, rfl⟩ := List.mem_map.1 hc
      have := List.all_eq_true.1 hall d hd
      exact toLower_tbl d (by simpa using this)
    · simp at h

end Upa.Proofs.C08
