import Upa.Proofs.FilePath
/-
  Helper lemmas for C17b — the Windows-format round trip
  path_from_file_url(url_from_file_path(p)) and its fixed point (model: Upa/Impl/FilePath.lean).
  Part 1: segments of the raw-encoded text through parse_path; drive-absolute paths.
-/
namespace Upa.Proofs.C17
open Upa.Proofs.C14

/-! ### the raw path set -/

abbrev encR (t : List Nat) : List Nat := Impl.percentEncode Impl.rawPathNoEnc t

theorem raw_sub_path : ∀ c, c < 128 → Impl.rawPathNoEnc c = true → Impl.pathNoEnc c = true := by
  decide +kernel

/-- the path state's own encoding leaves the raw-encoded segment unchanged -/
theorem reencode_raw (t : List Nat) (ht : ∀ c ∈ t, Spec.isScalar c = true) :
    Impl.percentEncode Impl.pathNoEnc (encR t) = encR t := by
  refine percentEncode_fix Impl.pathNoEnc (by decide) (hex_side _ (by decide +kernel)) ?_
  refine PctWord.mono ?_ (percentEncode_word Impl.rawPathNoEnc t ht)
  intro c hc
  simp only [Bool.and_eq_true, decide_eq_true_eq] at hc
  simp [hc.1, raw_sub_path c (by omega) hc.2]

/-- one iteration of the parse_path loop on a raw-encoded segment when the path is not empty -/
theorem pathSegment_encR (u : Url) (t : List Nat) (isLast : Bool)
    (ht : ∀ c ∈ t, Spec.isScalar c = true) (hdd : t ≠ dd) (hp : u.path ≠ []) :
    Impl.pathSegment u (encR t) isLast =
      { u with path := u.path ++
          (if t = [0x2E] then (if isLast then [[]] else []) else [encR t]) } := by
  have h2 : Impl.doubleDot (encR t) = false := by
    cases h : Impl.doubleDot (encR t) with
    | false => rfl
    | true => exact absurd ((enc_doubleDot _ (by decide) (by decide) t ht).1 h) hdd
  have hpe : u.path.isEmpty = false := by
    cases hq : u.path with
    | nil => exact absurd hq hp
    | cons a b => rfl
  unfold Impl.pathSegment
  rw [h2]
  simp only [Bool.false_eq_true, if_false]
  by_cases h1 : t = [0x2E]
  · have : Impl.singleDot (encR t) = true := (enc_singleDot _ (by decide) (by decide) t ht).2 h1
    rw [this, if_pos h1]
    cases isLast <;> simp
  · have : Impl.singleDot (encR t) = false := by
      cases h : Impl.singleDot (encR t) with
      | false => rfl
      | true => exact absurd ((enc_singleDot _ (by decide) (by decide) t ht).1 h) h1
    rw [this, if_neg h1]
    simp only [Bool.false_eq_true, if_false]
    have hre := reencode_raw t ht
    split
    · rw [hpe]
      simp only [Bool.and_false, Bool.false_and, Bool.false_eq_true, if_false]
      rw [hre]
    · rw [hre]

/-- what the path state keeps of a list of segments: "." is dropped, a final "." leaves an empty segment -/
def winSegs : List (List Nat) → List (List Nat)
  | [] => []
  | [t] => if t = [0x2E] then [[]] else [t]
  | t :: rest => (if t = [0x2E] then [] else [t]) ++ winSegs rest

theorem winSegs_cons2 (t t2 : List Nat) (r2 : List (List Nat)) :
    winSegs (t :: t2 :: r2) = (if t = [0x2E] then [] else [t]) ++ winSegs (t2 :: r2) := by
  rw [winSegs]; simp

theorem winSegs_ne_nil (segs : List (List Nat)) (h : segs ≠ []) : winSegs segs ≠ [] := by
  induction segs with
  | nil => exact absurd rfl h
  | cons t rest ih =>
    cases rest with
    | nil => simp only [winSegs]; split <;> simp
    | cons t2 r2 =>
      rw [winSegs_cons2]
      have := ih (by simp)
      simp [this]

theorem winSegs_mem (segs : List (List Nat)) : ∀ t ∈ winSegs segs, t = [] ∨ (t ∈ segs ∧ t ≠ [0x2E]) := by
  induction segs with
  | nil => intro t ht; simp [winSegs] at ht
  | cons a rest ih =>
    intro t ht
    cases rest with
    | nil =>
      simp only [winSegs] at ht
      split at ht
      · left; simpa using ht
      · rename_i hne
        have : t = a := by simpa using ht
        subst this
        right; exact ⟨List.mem_cons_self, hne⟩
    | cons t2 r2 =>
      rw [winSegs_cons2] at ht
      rcases List.mem_append.1 ht with ht | ht
      · split at ht
        · simp at ht
        · rename_i hne
          have : t = a := by simpa using ht
          subst this
          right; exact ⟨List.mem_cons_self, hne⟩
      · rcases ih t ht with h | ⟨h1, h2⟩
        · left; exact h
        · right; exact ⟨List.mem_cons_of_mem _ h1, h2⟩

theorem winSegs_nodot (segs : List (List Nat)) (h : [0x2E] ∉ segs) : winSegs segs = segs := by
  induction segs with
  | nil => rfl
  | cons t rest ih =>
    have ht : t ≠ [0x2E] := fun e => h (e ▸ List.mem_cons_self)
    cases rest with
    | nil => simp [winSegs, ht]
    | cons t2 r2 =>
      rw [winSegs_cons2, ih (fun hm => h (List.mem_cons_of_mem _ hm))]
      simp [ht]

theorem winSegs_idem (segs : List (List Nat)) : winSegs (winSegs segs) = winSegs segs := by
  apply winSegs_nodot
  intro hm
  rcases winSegs_mem segs _ hm with h | ⟨-, h⟩
  · simp at h
  · exact h rfl

theorem pathSegments_encR (segs : List (List Nat)) : ∀ (u : Url), u.path ≠ [] →
    (∀ t ∈ segs, (∀ c ∈ t, Spec.isScalar c = true) ∧ t ≠ dd) →
    Impl.pathSegments u (segs.map encR) = { u with path := u.path ++ (winSegs segs).map encR } := by
  induction segs with
  | nil => intro u _ _; simp [Impl.pathSegments, winSegs]
  | cons t rest ih =>
    intro u hp h
    obtain ⟨ht, hdd⟩ := h t List.mem_cons_self
    cases rest with
    | nil =>
      simp only [List.map_cons, List.map_nil, Impl.pathSegments, winSegs]
      rw [pathSegment_encR u t true ht hdd hp]
      by_cases h1 : t = [0x2E] <;> simp [h1, Impl.percentEncode]
    | cons t2 r2 =>
      rw [List.map_cons, List.map_cons, pathSegments_cons2, ← List.map_cons,
        ih _ (by rw [pathSegment_encR u t false ht hdd hp]; simp [hp])
          (fun x hx => h x (List.mem_cons_of_mem _ hx)),
        pathSegment_encR u t false ht hdd hp, winSegs_cons2]
      by_cases h1 : t = [0x2E] <;> simp [h1]

/-! ### splitting the encoded text on both slashes -/

theorem piece_no_sep (f sl : Nat → Bool) (h25 : sl 0x25 = false)
    (hhex : ∀ x, isUpperHex x = true → sl x = false) (c : Nat) (hc : Spec.isScalar c = true)
    (hne : sl c = false) : ∀ x ∈ piece f c, sl x = false := by
  intro x hx
  rw [piece_eq_enc] at hx
  rcases percentEncode_mem f [c] (by simpa using hc) x hx with ⟨hm, -, -⟩ | h | h
  · simp only [List.mem_singleton] at hm; subst hm; exact hne
  · subst h; exact h25
  · exact hhex x h

theorem splitOnP_encG (f sl : Nat → Bool) (hkeep : ∀ c, sl c = true → c < 0x80 ∧ f c = true)
    (h25 : sl 0x25 = false) (hhex : ∀ x, isUpperHex x = true → sl x = false) (s : List Nat)
    (hs : ∀ c ∈ s, Spec.isScalar c = true) :
    splitOnP sl (Impl.percentEncode f s) = (splitOnP sl s).map (Impl.percentEncode f) := by
  induction s with
  | nil => rfl
  | cons c cs ih =>
    have ih' := ih (fun x hx => hs x (List.mem_cons_of_mem _ hx))
    cases hc : sl c with
    | true =>
      obtain ⟨h1, h2⟩ := hkeep c hc
      rw [percentEncode_ascii_noenc f _ _ h1 h2, splitOnP_cons_sep _ _ _ hc,
        splitOnP_cons_sep _ _ _ hc, ih']
      rfl
    | false =>
      rw [percentEncode_cons', splitOnP_append_nosep _ _ _
        (piece_no_sep f sl h25 hhex c (hs c List.mem_cons_self) hc), ih',
        splitOnP_cons_other _ c cs hc]
      cases hsp : splitOnP sl cs with
      | nil => exact absurd hsp (splitOnP_ne_nil _ cs)
      | cons h t =>
        simp only [List.map_cons, List.headD_cons, List.tail_cons, List.cons.injEq, and_true]
        rw [percentEncode_cons']

theorem isSlash_eq_win (c : Nat) : Impl.isSlash c = Impl.isWindowsSlash c := by
  simp only [Impl.isSlash, Impl.isWindowsSlash, Bool.or_comm]

/-- the parse_path split of the raw-encoded text = the encoded pieces of the Windows split -/
theorem split_encR (s : List Nat) (hs : ∀ c ∈ s, Spec.isScalar c = true) :
    splitOnP Impl.isSlash (encR s) = (splitOnP Impl.isWindowsSlash s).map encR := by
  rw [splitOnP_encG Impl.rawPathNoEnc Impl.isSlash ?_ (by decide) ?_ s hs,
    splitOnP_congr Impl.isSlash Impl.isWindowsSlash s (fun c _ => isSlash_eq_win c)]
  · intro c hc
    simp only [Impl.isSlash, Bool.or_eq_true, beq_iff_eq] at hc
    rcases hc with rfl | rfl <;> exact ⟨by omega, by decide⟩
  · intro x hx
    rw [isUpperHex_iff] at hx
    simp only [Impl.isSlash, Bool.or_eq_false_iff, beq_eq_false_iff_ne]
    omega

theorem flatMap_encR (sep : Nat) (hsep : sep < 0x80) (hk : Impl.rawPathNoEnc sep = true)
    (segs : List (List Nat)) :
    (segs.map encR).flatMap (fun seg => sep :: seg) = encR (segs.flatMap (fun seg => sep :: seg)) := by
  induction segs with
  | nil => rfl
  | cons t rest ih =>
    simp only [List.map_cons, List.flatMap_cons, ih]
    show _ = encR ((sep :: t) ++ _)
    unfold encR
    rw [percentEncode_append, percentEncode_ascii_noenc _ _ _ hsep hk]

/-! ### UTF-8 and the '/' → '\' substitution -/

def swSlash (c : Nat) : Nat := if c = 0x2F then 0x5C else c

theorem map_id_of_mem (f : Nat → Nat) (l : List Nat) (h : ∀ x ∈ l, f x = x) : l.map f = l := by
  induction l with
  | nil => rfl
  | cons a l ih =>
    rw [List.map_cons, h a List.mem_cons_self, ih (fun x hx => h x (List.mem_cons_of_mem _ hx))]

theorem map_sw_utf8 (s : List Nat) (hs : ∀ c ∈ s, Spec.isScalar c = true) :
    (Spec.utf8Encode s).map swSlash = Spec.utf8Encode (s.map swSlash) := by
  induction s with
  | nil => rfl
  | cons c cs ih =>
    have ih' := ih (fun x hx => hs x (List.mem_cons_of_mem _ hx))
    rw [List.map_cons, utf8Encode_cons, utf8Encode_cons, List.map_append, ih']
    congr 1
    by_cases hc : c < 0x80
    · have : swSlash c < 0x80 := by unfold swSlash; split <;> omega
      rw [utf8EncodeChar_ascii c hc, utf8EncodeChar_ascii _ this]; rfl
    · obtain ⟨b, t, e, -, -, hall⟩ := utf8EncodeChar_hi c (by omega) (scalar_le c (hs c List.mem_cons_self))
      have hsw : swSlash c = c := by unfold swSlash; rw [if_neg (by omega)]
      rw [hsw, e]
      apply map_id_of_mem
      intro x hx
      have := hall x hx
      unfold swSlash; rw [if_neg (by omega)]

theorem map_sw_join (segs : List (List Nat)) (h : ∀ t ∈ segs, 0x2F ∉ t) :
    (segs.flatMap (fun seg => 0x2F :: seg)).map swSlash = segs.flatMap (fun seg => 0x5C :: seg) := by
  induction segs with
  | nil => rfl
  | cons t rest ih =>
    rw [List.flatMap_cons, List.flatMap_cons, List.map_append, ih (fun x hx => h x (List.mem_cons_of_mem _ hx))]
    congr 1
    rw [List.map_cons]
    congr 1
    apply map_id_of_mem
    intro x hx
    unfold swSlash
    rw [if_neg]
    intro e; subst e; exact h t List.mem_cons_self hx

theorem utf8Encode_ascii_cons (c : Nat) (hc : c < 0x80) (r : List Nat) :
    Spec.utf8Encode (c :: r) = c :: Spec.utf8Encode r := by
  rw [utf8Encode_cons, utf8EncodeChar_ascii c hc]; rfl

/-! ### joining and splitting -/

theorem splitOnP_nosep (p : Nat → Bool) (t : List Nat) (h : ∀ c ∈ t, p c = false) : splitOnP p t = [t] := by
  have := splitOnP_append_nosep p t [] h
  simpa [splitOnP] using this

/-- splitting a `\`-joined list of separator-free segments gives the segments back -/
theorem split_join (p : Nat → Bool) (hp : p 0x5C = true) (L : List (List Nat))
    (h : ∀ t ∈ L, ∀ c ∈ t, p c = false) :
    splitOnP p (L.flatMap (fun seg => 0x5C :: seg)) = [] :: L := by
  induction L with
  | nil => rfl
  | cons t rest ih =>
    have ih' := ih (fun x hx => h x (List.mem_cons_of_mem _ hx))
    rw [List.flatMap_cons, List.cons_append, splitOnP_cons_sep _ _ _ hp,
      splitOnP_append_nosep _ _ _ (h t List.mem_cons_self), ih']
    simp

theorem split_no_sep (p : Nat → Bool) (s : List Nat) : ∀ t ∈ splitOnP p s, ∀ c ∈ t, p c = false := by
  induction s with
  | nil => intro t ht c hc; simp [splitOnP] at ht; subst ht; simp at hc
  | cons a l ih =>
    intro t ht c hc
    cases hp : p a with
    | true =>
      rw [splitOnP_cons_sep p a l hp] at ht
      rcases List.mem_cons.1 ht with rfl | ht
      · simp at hc
      · exact ih t ht c hc
    | false =>
      rw [splitOnP_cons_other p a l hp] at ht
      rcases List.mem_cons.1 ht with rfl | ht
      · rcases List.mem_cons.1 hc with rfl | hc
        · exact hp
        · cases hs : splitOnP p l with
          | nil => exact absurd hs (splitOnP_ne_nil p l)
          | cons x r =>
            rw [hs] at hc
            exact ih x (by rw [hs]; exact List.mem_cons_self) c hc
      · exact ih t (List.mem_of_mem_tail ht) c hc

/-! ### drive-absolute paths: the URL -/

theorem alpha_facts (a : Nat) (h : isAlpha a = true) :
    a < 0x80 ∧ Impl.rawPathNoEnc a = true ∧ Impl.isWindowsSlash a = false ∧ a ≠ 0 ∧ a ≠ 0x2E ∧ a ≠ 0x2F := by
  have hlt : a < 128 := by
    simp only [isAlpha, Bool.or_eq_true, Bool.and_eq_true, decide_eq_true_eq] at h; omega
  have tbl : ∀ c, c < 128 → isAlpha c = true →
      Impl.rawPathNoEnc c = true ∧ Impl.isWindowsSlash c = false ∧ c ≠ 0 ∧ c ≠ 0x2E ∧ c ≠ 0x2F := by
    decide +kernel
  exact ⟨hlt, tbl a hlt h⟩

theorem driveSep_facts (b : Nat) (h : b = 0x3A ∨ b = 0x7C) :
    b < 0x80 ∧ Impl.rawPathNoEnc b = true ∧ Impl.isWindowsSlash b = false := by
  rcases h with rfl | rfl <;> exact ⟨by omega, by decide, by decide⟩

theorem isWindowsDrive_iff (a b : Nat) :
    Impl.isWindowsDrive a b = true ↔ isAlpha a = true ∧ (b = 0x3A ∨ b = 0x7C) := by
  simp [Impl.isWindowsDrive]

/-- the Windows split of a drive-absolute path -/
theorem split_drive (a b c : Nat) (chk : List Nat) (ha : Impl.isWindowsSlash a = false)
    (hb : Impl.isWindowsSlash b = false) (hc : Impl.isWindowsSlash c = true) :
    splitOnP Impl.isWindowsSlash (a :: b :: c :: chk) = [a, b] :: splitOnP Impl.isWindowsSlash chk := by
  rw [splitOnP_cons_other _ _ _ ha, splitOnP_cons_other _ _ _ hb, splitOnP_cons_sep _ _ _ hc]
  rfl

theorem pathSegment_driveLetter (u : Url) (a b : Nat) (hf : u.isFile = true) (hp : u.path = [])
    (hd : Impl.isWindowsDrive a b = true) :
    Impl.pathSegment u [a, b] false = { u with path := [[a, 0x3A]] } := by
  have ha := ((isWindowsDrive_iff a b).1 hd).1
  have ha2 := (alpha_facts a ha).2.2.2.2.1
  have h2 : Impl.doubleDot [a, b] = false := by simp [Impl.doubleDot, ha2]
  have h1 : Impl.singleDot [a, b] = false := by simp [Impl.singleDot]
  unfold Impl.pathSegment
  rw [h2, h1]
  simp [hf, hp, hd]

/-- the URL made from the drive-absolute pointer `a b c chk` -/
theorem parsePath_drive (a b c : Nat) (chk : List Nat)
    (hs : ∀ x ∈ chk, Spec.isScalar x = true)
    (hd : Impl.isWindowsDrive a b = true) (hc : Impl.isWindowsSlash c = true)
    (hdd : dd ∉ splitOnP Impl.isWindowsSlash chk) :
    Impl.parsePath fileUrl0 (encR (a :: b :: c :: chk)) =
      { fileUrl0 with path := [a, 0x3A] :: (winSegs (splitOnP Impl.isWindowsSlash chk)).map encR } := by
  obtain ⟨ha, hb⟩ := (isWindowsDrive_iff a b).1 hd
  obtain ⟨ha1, ha2, ha3, -, -, -⟩ := alpha_facts a ha
  obtain ⟨hb1, hb2, hb3⟩ := driveSep_facts b hb
  have hc' : c = 0x5C ∨ c = 0x2F := by simpa [Impl.isWindowsSlash] using hc
  have hcs : Spec.isScalar c = true := by rcases hc' with rfl | rfl <;> decide
  have has : Spec.isScalar a = true := by
    have : ∀ x, x < 128 → Spec.isScalar x = true := by decide +kernel
    exact this a ha1
  have hbs : Spec.isScalar b = true := by rcases hb with rfl | rfl <;> decide
  have hall : ∀ x ∈ a :: b :: c :: chk, Spec.isScalar x = true := by
    intro x hx
    simp only [List.mem_cons] at hx
    rcases hx with rfl | rfl | rfl | hx
    · exact has
    · exact hbs
    · exact hcs
    · exact hs x hx
  have e7 : fileUrl0.isSpecial = true := by decide
  unfold Impl.parsePath
  rw [e7]
  simp only [if_true]
  rw [split_encR _ hall, split_drive a b c chk ha3 hb3 hc, List.map_cons]
  have henc : encR [a, b] = [a, b] := by
    unfold encR
    rw [percentEncode_ascii_noenc _ _ _ ha1 ha2, percentEncode_ascii_noenc _ _ _ hb1 hb2]
    rfl
  rw [henc]
  cases hS : splitOnP Impl.isWindowsSlash chk with
  | nil => exact absurd hS (splitOnP_ne_nil _ chk)
  | cons s0 S' =>
    rw [List.map_cons, pathSegments_cons2, ← List.map_cons,
      pathSegment_driveLetter fileUrl0 a b (by decide) rfl hd,
      pathSegments_encR _ _ (by simp) (fun t ht =>
        ⟨fun x hx => hs x (mem_splitOnP _ _ t (hS ▸ ht) x hx), fun e => hdd (hS ▸ e ▸ ht)⟩)]
    rfl

/-! ### path_from_file_url on a URL with the decoded pathname known -/

theorem pathFromFileUrl_drive (u : Url) (hf : u.isFile = true) (hh : u.hostText = []) (a : Nat)
    (r : List Nat) (ha : isAlpha a = true) (hb : winBody u = 0x5C :: a :: 0x3A :: 0x5C :: r)
    (h0 : 0 ∉ r) :
    Impl.pathFromFileUrl u .windows = some (a :: 0x3A :: 0x5C :: r) := by
  have hb' : (List.map (fun c => if c = 47 then 92 else c) (Impl.percentDecode (Impl.pathText u))) =
      0x5C :: a :: 0x3A :: 0x5C :: r := hb
  have hd : Impl.pathnameHasWindowsDrive (0x5C :: a :: 0x3A :: 0x5C :: r) = true := by
    simp [Impl.pathnameHasWindowsDrive, Impl.isWindowsSlash, Impl.isNormalizedWindowsDrive, ha]
  have ha0 := (alpha_facts a ha).2.2.2.1
  have hany : ((a :: 0x3A :: 0x5C :: r).any (· == 0)) = false := by
    cases hx : (a :: 0x3A :: 0x5C :: r).any (· == 0) with
    | false => rfl
    | true =>
      have := (any_zero_iff _).1 hx
      simp only [List.mem_cons] at this
      rcases this with h | h | h | h
      · exact absurd h.symm ha0
      · omega
      · omega
      · exact absurd h h0
  unfold Impl.pathFromFileUrl
  simp only [hf, hh, hb', Bool.not_true, Bool.false_eq_true, if_false, ne_eq, not_true, decide_false,
    Bool.false_and, List.nil_append, hd, if_true, List.drop_succ_cons, List.drop_zero]
  have hl : ¬ ((a :: 0x3A :: 0x5C :: r).length = 2) := by simp
  simp only [hl, if_false, hany, Bool.false_eq_true]

/-! ### drive-absolute paths: the round trip -/

/-- segments joined with a leading backslash each -/
def joinBs (L : List (List Nat)) : List Nat := L.flatMap (fun seg => 0x5C :: seg)

theorem joinBs_cons (t : List Nat) (L : List (List Nat)) : joinBs (t :: L) = 0x5C :: (t ++ joinBs L) := rfl

theorem mem_join (sep : Nat) (L : List (List Nat)) (x : Nat)
    (h : x ∈ L.flatMap (fun seg => sep :: seg)) : x = sep ∨ ∃ t ∈ L, x ∈ t := by
  rw [List.mem_flatMap] at h
  obtain ⟨t, ht, hx⟩ := h
  rcases List.mem_cons.1 hx with h | h
  · left; exact h
  · right; exact ⟨t, ht, h⟩

theorem scalar_ascii : ∀ x, x < 128 → Spec.isScalar x = true := by decide +kernel

/-- path_from_file_url on the URL `file:///a:/w1/w2/…` with raw-encoded segments -/
theorem drive_back (a : Nat) (W : List (List Nat)) (ha : isAlpha a = true) (hne : W ≠ [])
    (hW : ∀ t ∈ W, ∀ c ∈ t, Spec.isScalar c = true ∧ c ≠ 0x2F ∧ c ≠ 0) :
    Impl.pathFromFileUrl { fileUrl0 with path := [a, 0x3A] :: W.map encR } .windows =
      some (Spec.utf8Encode (a :: 0x3A :: joinBs W)) := by
  obtain ⟨ha1, ha2, -, ha0, -, ha3⟩ := alpha_facts a ha
  have hJs : ∀ x ∈ W.flatMap (fun seg => 0x2F :: seg), Spec.isScalar x = true := by
    intro x hx
    rcases mem_join _ _ _ hx with rfl | ⟨t, ht, hxt⟩
    · decide
    · exact (hW t ht x hxt).1
  have hall : ∀ x ∈ 0x2F :: a :: 0x3A :: W.flatMap (fun seg => 0x2F :: seg), Spec.isScalar x = true := by
    intro x hx
    simp only [List.mem_cons] at hx
    rcases hx with rfl | rfl | rfl | hx
    · decide
    · exact scalar_ascii _ ha1
    · decide
    · exact hJs x hx
  have htext : Impl.pathText { fileUrl0 with path := [a, 0x3A] :: W.map encR } =
      encR (0x2F :: a :: 0x3A :: W.flatMap (fun seg => 0x2F :: seg)) := by
    show ([a, 0x3A] :: W.map encR).flatMap (fun seg => 0x2F :: seg) = _
    have hfm := flatMap_encR 0x2F (by omega) (by decide) W
    unfold encR at hfm ⊢
    rw [percentEncode_ascii_noenc _ _ _ (by omega) (by decide), percentEncode_ascii_noenc _ _ _ ha1 ha2,
      percentEncode_ascii_noenc _ _ _ (by omega) (by decide), ← hfm]
    rfl
  have hbody : winBody { fileUrl0 with path := [a, 0x3A] :: W.map encR } =
      Spec.utf8Encode (0x5C :: a :: 0x3A :: joinBs W) := by
    unfold winBody
    rw [htext, percentDecode_percentEncode _ _ hall (by decide)]
    show (Spec.utf8Encode _).map swSlash = _
    rw [map_sw_utf8 _ hall, List.map_cons, List.map_cons, List.map_cons,
      map_sw_join W (fun t ht hm => (hW t ht _ hm).2.1 rfl)]
    have e1 : swSlash 0x2F = 0x5C := rfl
    have e2 : swSlash a = a := by unfold swSlash; rw [if_neg ha3]
    have e3 : swSlash 0x3A = 0x3A := rfl
    rw [e1, e2, e3]; rfl
  cases W with
  | nil => exact absurd rfl hne
  | cons w0 W' =>
    rw [joinBs_cons] at hbody ⊢
    rw [utf8Encode_ascii_cons _ (by omega), utf8Encode_ascii_cons _ ha1, utf8Encode_ascii_cons _ (by omega),
      utf8Encode_ascii_cons _ (by omega)] at hbody
    rw [utf8Encode_ascii_cons _ ha1, utf8Encode_ascii_cons _ (by omega), utf8Encode_ascii_cons _ (by omega)]
    refine pathFromFileUrl_drive _ rfl rfl a _ ha hbody ?_
    apply utf8Encode_no_nul
    · intro x hx
      rcases List.mem_append.1 hx with hx | hx
      · exact (hW w0 List.mem_cons_self x hx).1
      · rcases mem_join _ _ _ hx with rfl | ⟨t, ht, hxt⟩
        · decide
        · exact (hW t (List.mem_cons_of_mem _ ht) x hxt).1
    · intro hx
      rcases List.mem_append.1 hx with hx | hx
      · exact (hW w0 List.mem_cons_self 0 hx).2.2 rfl
      · rcases mem_join _ _ _ hx with h | ⟨t, ht, hxt⟩
        · omega
        · exact (hW t (List.mem_cons_of_mem _ ht) 0 hxt).2.2 rfl

/-- the kept segments of a NUL-free scalar string: scalar, slash-free, NUL-free -/
theorem winSegs_split_facts (chk : List Nat) (hs : ∀ x ∈ chk, Spec.isScalar x = true) (h0 : 0 ∉ chk) :
    ∀ t ∈ winSegs (splitOnP Impl.isWindowsSlash chk), ∀ c ∈ t,
      Spec.isScalar c = true ∧ c ≠ 0x2F ∧ c ≠ 0 := by
  intro t ht c hc
  rcases winSegs_mem _ t ht with h | ⟨h, -⟩
  · subst h; simp at hc
  · have hm := mem_splitOnP _ _ t h c hc
    have hn := split_no_sep _ _ t h c hc
    refine ⟨hs c hm, ?_, ?_⟩
    · intro e; subst e; simp [Impl.isWindowsSlash] at hn
    · intro e; subst e; exact h0 hm

/-- the explicit normal form of a drive-absolute pointer -/
def driveNorm (a : Nat) (chk : List Nat) : List Nat :=
  a :: 0x3A :: joinBs (winSegs (splitOnP Impl.isWindowsSlash chk))

theorem roundtrip_drive_core (a b c : Nat) (chk : List Nat)
    (hs : ∀ x ∈ chk, Spec.isScalar x = true)
    (hd : Impl.isWindowsDrive a b = true) (hc : Impl.isWindowsSlash c = true)
    (hdd : dd ∉ splitOnP Impl.isWindowsSlash chk) (h0 : 0 ∉ chk) :
    Impl.pathFromFileUrl (Impl.parsePath fileUrl0 (encR (a :: b :: c :: chk))) .windows =
      some (Spec.utf8Encode (driveNorm a chk)) := by
  rw [parsePath_drive a b c chk hs hd hc hdd]
  exact drive_back a _ ((isWindowsDrive_iff a b).1 hd).1 (winSegs_ne_nil _ (splitOnP_ne_nil _ chk))
    (winSegs_split_facts chk hs h0)

/-! ### the normal form is accepted and is its own normal form -/

theorem winClassify_noslash (a : Nat) (r : List Nat) (ha : Impl.isWindowsSlash a = false) :
    winClassify (a :: r) = (a :: r, false) := by
  unfold winClassify
  cases r with
  | nil => rfl
  | cons b r' => simp [ha]

theorem winClassify_colon (a : Nat) (r : List Nat) :
    winClassify (a :: 0x3A :: r) = (a :: 0x3A :: r, false) := by
  unfold winClassify
  have : Impl.isWindowsSlash 0x3A = false := by decide
  simp [this]

/-- `driveNorm a chk = a : \ chk'` where `chk'` splits into the kept segments -/
theorem driveNorm_shape (a : Nat) (chk : List Nat) :
    ∃ chk', driveNorm a chk = a :: 0x3A :: 0x5C :: chk' ∧
      splitOnP Impl.isWindowsSlash chk' = winSegs (splitOnP Impl.isWindowsSlash chk) := by
  have hne := winSegs_ne_nil _ (splitOnP_ne_nil Impl.isWindowsSlash chk)
  have hsp := split_join Impl.isWindowsSlash (by decide) (winSegs (splitOnP Impl.isWindowsSlash chk))
    (fun t ht c hc => by
      rcases winSegs_mem _ t ht with h | ⟨h, -⟩
      · subst h; simp at hc
      · exact split_no_sep _ _ t h c hc)
  unfold driveNorm
  generalize winSegs (splitOnP Impl.isWindowsSlash chk) = W at hne hsp ⊢
  cases W with
  | nil => exact absurd rfl hne
  | cons w0 W' =>
    refine ⟨w0 ++ joinBs W', rfl, ?_⟩
    have : List.flatMap (fun seg => 0x5C :: seg) (w0 :: W') = 0x5C :: (w0 ++ joinBs W') := rfl
    rw [this, splitOnP_cons_sep _ _ _ (by decide)] at hsp
    simpa using hsp

theorem driveNorm_idem (a : Nat) (chk : List Nat) :
    ∃ chk', driveNorm a chk = a :: 0x3A :: 0x5C :: chk' ∧ driveNorm a chk' = driveNorm a chk := by
  obtain ⟨chk', h1, h2⟩ := driveNorm_shape a chk
  refine ⟨chk', h1, ?_⟩
  unfold driveNorm
  rw [h2, winSegs_idem]

theorem mem_driveNorm (a : Nat) (chk : List Nat) (x : Nat) (hx : x ∈ driveNorm a chk) :
    x = a ∨ x = 0x3A ∨ x = 0x5C ∨ x ∈ chk := by
  unfold driveNorm at hx
  simp only [List.mem_cons] at hx
  rcases hx with h | h | h
  · exact Or.inl h
  · exact Or.inr (Or.inl h)
  · rcases mem_join _ _ _ h with h | ⟨t, ht, hxt⟩
    · exact Or.inr (Or.inr (Or.inl h))
    · rcases winSegs_mem _ t ht with e | ⟨hm, -⟩
      · subst e; simp at hxt
      · exact Or.inr (Or.inr (Or.inr (mem_splitOnP _ _ t hm x hxt)))

/-- url_from_file_path accepts a drive-absolute pointer (no prefix) -/
theorem accept_drive (idna : Idna) (a b c : Nat) (chk : List Nat)
    (hs : ∀ x ∈ chk, Spec.isScalar x = true)
    (hd : Impl.isWindowsDrive a b = true) (hc : Impl.isWindowsSlash c = true)
    (hdd : dd ∉ splitOnP Impl.isWindowsSlash chk) (h0 : 0 ∉ chk) :
    Impl.urlFromFilePath idna (a :: b :: c :: chk) .windows =
      some (Impl.parsePath fileUrl0 (encR (a :: b :: c :: chk))) := by
  obtain ⟨ha, hb⟩ := (isWindowsDrive_iff a b).1 hd
  obtain ⟨ha1, -, ha3, -, -, -⟩ := alpha_facts a ha
  obtain ⟨hb1, -, -⟩ := driveSep_facts b hb
  have hc' : c = 0x5C ∨ c = 0x2F := by simpa [Impl.isWindowsSlash] using hc
  have hall : ∀ x ∈ a :: b :: c :: chk, Spec.isScalar x = true := by
    intro x hx
    simp only [List.mem_cons] at hx
    rcases hx with rfl | rfl | rfl | hx
    · exact scalar_ascii _ ha1
    · exact scalar_ascii _ hb1
    · rcases hc' with rfl | rfl <;> decide
    · exact hs x hx
  have hdr : Impl.isWindowsDriveAbsolutePath (a :: b :: c :: chk) = some chk := by
    simp [Impl.isWindowsDriveAbsolutePath, hd, hc]
  rw [urlFromFilePath_windows, if_neg (by simp), winClassify_noslash a _ ha3]
  simp only [Bool.false_eq_true, if_false, hdr]
  rw [if_neg (by simp [hdd, h0]), List.append_assoc, List.singleton_append, rejectDotHost_file3,
    parse_file_url idna _ (fun x hx => by
      have := raw_safe _ hall x hx; unfold SafeRaw at this; omega)]

/-- the round trip as one function -/
def rtWin (idna : Idna) (p : List Nat) : Option (List Nat) :=
  (Impl.urlFromFilePath idna p .windows).bind (fun u => Impl.pathFromFileUrl u .windows)

theorem utf8Encode_ascii (s : List Nat) (h : ∀ c ∈ s, c < 0x80) : Spec.utf8Encode s = s := by
  induction s with
  | nil => rfl
  | cons c cs ih =>
    rw [utf8Encode_ascii_cons c (h c List.mem_cons_self), ih (fun x hx => h x (List.mem_cons_of_mem _ hx))]

/-- one step reaches the fixed point: the normal form is accepted and returned unchanged -/
theorem fixed_drive_core (idna : Idna) (a b : Nat) (chk : List Nat)
    (hs : ∀ x ∈ chk, Spec.isScalar x = true)
    (hd : Impl.isWindowsDrive a b = true)
    (hdd : dd ∉ splitOnP Impl.isWindowsSlash chk) (h0 : 0 ∉ chk) :
    rtWin idna (driveNorm a chk) = some (Spec.utf8Encode (driveNorm a chk)) ∧
      (∀ x ∈ driveNorm a chk, Spec.isScalar x = true) := by
  obtain ⟨ha, -⟩ := (isWindowsDrive_iff a b).1 hd
  obtain ⟨ha1, -, -, ha0, -, -⟩ := alpha_facts a ha
  have hmem := mem_driveNorm a chk
  have hsc : ∀ x ∈ driveNorm a chk, Spec.isScalar x = true := by
    intro x hx
    rcases hmem x hx with rfl | rfl | rfl | h
    · exact scalar_ascii _ ha1
    · decide
    · decide
    · exact hs x h
  refine ⟨?_, hsc⟩
  obtain ⟨chk', h1, h2⟩ := driveNorm_idem a chk
  obtain ⟨chk'', h1', hsplit⟩ := driveNorm_shape a chk
  have hcc : chk'' = chk' := by
    rw [h1'] at h1; simpa using h1
  subst hcc
  have hsub : ∀ x ∈ chk'', x ∈ driveNorm a chk := by
    intro x hx; rw [h1]; simp [hx]
  have hs' : ∀ x ∈ chk'', Spec.isScalar x = true := fun x hx => hsc x (hsub x hx)
  have h0' : 0 ∉ chk'' := by
    intro hx
    rcases hmem 0 (hsub 0 hx) with h | h | h | h
    · exact ha0 h.symm
    · omega
    · omega
    · exact h0 h
  have hdd' : dd ∉ splitOnP Impl.isWindowsSlash chk'' := by
    rw [hsplit]
    intro hm
    rcases winSegs_mem _ _ hm with h | ⟨h, -⟩
    · simp [dd] at h
    · exact hdd h
  have hd' : Impl.isWindowsDrive a 0x3A = true := (isWindowsDrive_iff a 0x3A).2 ⟨ha, Or.inl rfl⟩
  unfold rtWin
  rw [h1, accept_drive idna a 0x3A 0x5C chk'' hs' hd' (by decide) hdd' h0']
  simp only [Option.bind_some]
  rw [roundtrip_drive_core a 0x3A 0x5C chk'' hs' hd' (by decide) hdd' h0', h2, h1]

/-- the pointer of an accepted path is scalar and NUL-free when the path is -/
theorem pointer_sub (s : List Nat) : ∀ x ∈ (winClassify s).1, x ∈ s := by
  obtain ⟨pre, hpre, -⟩ := winClassify_suffix s
  intro x hx
  rw [hpre]; exact List.mem_append_right _ hx

end Upa.Proofs.C17
