import Upa.Impl.Own
/-
  C06b, layer 0/1: the association lists of `Upa/Impl/Own.lean` behave like finite maps, and what each
  heap primitive does to `getU` / `getP` / `next` / the key lists.
-/
namespace Upa.Proofs.Own
open Upa Upa.Impl Upa.Impl.Own

/-! ## association lists -/

def keys {α : Type} (m : List (Nat × α)) : List Nat := m.map (·.1)

theorem mget_mdel {α : Type} (m : List (Nat × α)) (k k' : Nat) :
    mget (mdel m k) k' = if k' = k then none else mget m k' := by
  induction m with
  | nil => simp [mdel, mget]
  | cons kv r ih =>
    rcases kv with ⟨k0, v⟩
    unfold mdel at ih ⊢
    by_cases h0 : k0 = k
    · subst h0
      simp only [List.filter_cons, bne_self_eq_false, Bool.false_eq_true, if_false, ih, mget]
      by_cases h1 : k' = k0 <;> simp [h1]
    · have : (k0 != k) = true := by simp [h0]
      simp only [List.filter_cons, this, if_true, mget, ih]
      by_cases h1 : k' = k0
      · subst h1; simp [h0]
      · simp [h1]

theorem mget_mset {α : Type} (m : List (Nat × α)) (k k' : Nat) (v : α) :
    mget (mset m k v) k' = if k' = k then some v else mget m k' := by
  unfold mset
  simp only [mget, mget_mdel]
  by_cases h : k' = k <;> simp [h]

theorem mem_keys_mdel {α : Type} (m : List (Nat × α)) (k k' : Nat) :
    k' ∈ keys (mdel m k) ↔ (k' ∈ keys m ∧ k' ≠ k) := by
  unfold keys mdel
  simp only [List.mem_map, List.mem_filter, bne_iff_ne, ne_eq]
  constructor
  · rintro ⟨a, ⟨ha, hne⟩, rfl⟩; exact ⟨⟨a, ha, rfl⟩, hne⟩
  · rintro ⟨⟨a, ha, rfl⟩, hne⟩; exact ⟨a, ⟨ha, hne⟩, rfl⟩

theorem nodup_mdel {α : Type} (m : List (Nat × α)) (k : Nat) (h : (keys m).Nodup) : (keys (mdel m k)).Nodup := by
  unfold keys mdel at *
  exact (List.filter_sublist.map _).nodup h

theorem nodup_mset {α : Type} (m : List (Nat × α)) (k : Nat) (v : α) (h : (keys m).Nodup) :
    (keys (mset m k v)).Nodup := by
  have h1 := nodup_mdel m k h
  have h2 : k ∉ keys (mdel m k) := by rw [mem_keys_mdel]; simp
  unfold mset
  unfold keys at *
  simp only [List.map_cons, List.nodup_cons]
  exact ⟨h2, h1⟩

theorem mget_isSome_iff {α : Type} (m : List (Nat × α)) (k : Nat) : (mget m k).isSome ↔ k ∈ keys m := by
  induction m with
  | nil => simp [mget, keys]
  | cons kv r ih =>
    rcases kv with ⟨k0, v⟩
    unfold keys at *
    simp only [mget, List.map_cons, List.mem_cons]
    by_cases h : k = k0
    · simp [h]
    · simp [h, ih]

/-- under key uniqueness, `mget` is membership -/
theorem mget_eq_some_iff {α : Type} (m : List (Nat × α)) (hn : (keys m).Nodup) (k : Nat) (v : α) :
    mget m k = some v ↔ (k, v) ∈ m := by
  induction m with
  | nil => simp [mget]
  | cons kv r ih =>
    rcases kv with ⟨k0, v0⟩
    unfold keys at *
    simp only [List.map_cons, List.nodup_cons] at hn
    simp only [mget, List.mem_cons, Prod.mk.injEq]
    by_cases h : k = k0
    · subst h
      simp only [if_true, Option.some.injEq, true_and]
      constructor
      · intro h; exact Or.inl h.symm
      · rintro (h | h)
        · exact h.symm
        · exact absurd (List.mem_map.2 ⟨(k, v), h, rfl⟩) hn.1
    · simp only [h, if_false, false_and, false_or]
      exact ih hn.2

/-! ## heap primitives -/

section prims
variable (h : Heap)

@[simp] theorem getU_modU (u u' : Nat) (f : UCell → UCell) :
    (h.modU u f).getU u' = if u' = u then (h.getU u).map f else h.getU u' := by
  unfold Heap.modU
  cases hc : h.getU u with
  | none => by_cases hu : u' = u <;> simp [hu, hc]
  | some c => simp [Heap.getU, mget_mset]
@[simp] theorem getP_modU (u p : Nat) (f : UCell → UCell) : (h.modU u f).getP p = h.getP p := by
  unfold Heap.modU; split <;> rfl
@[simp] theorem next_modU (u : Nat) (f : UCell → UCell) : (h.modU u f).next = h.next := by
  unfold Heap.modU; split <;> rfl

@[simp] theorem getP_modP (p p' : Nat) (f : PCell → PCell) :
    (h.modP p f).getP p' = if p' = p then (h.getP p).map f else h.getP p' := by
  unfold Heap.modP
  cases hc : h.getP p with
  | none => by_cases hu : p' = p <;> simp [hu, hc]
  | some c => simp [Heap.getP, mget_mset]
@[simp] theorem getU_modP (p u : Nat) (f : PCell → PCell) : (h.modP p f).getU u = h.getU u := by
  unfold Heap.modP; split <;> rfl
@[simp] theorem next_modP (p : Nat) (f : PCell → PCell) : (h.modP p f).next = h.next := by
  unfold Heap.modP; split <;> rfl

@[simp] theorem getU_allocU (c : UCell) (u : Nat) :
    (h.allocU c).getU u = if u = h.next then some c else h.getU u := by
  simp [Heap.allocU, Heap.getU, mget_mset]
@[simp] theorem getP_allocU (c : UCell) (p : Nat) : (h.allocU c).getP p = h.getP p := rfl
@[simp] theorem next_allocU (c : UCell) : (h.allocU c).next = h.next + 1 := rfl

@[simp] theorem getP_allocP (c : PCell) (p : Nat) :
    (h.allocP c).getP p = if p = h.next then some c else h.getP p := by
  simp [Heap.allocP, Heap.getP, mget_mset]
@[simp] theorem getU_allocP (c : PCell) (u : Nat) : (h.allocP c).getU u = h.getU u := rfl
@[simp] theorem next_allocP (c : PCell) : (h.allocP c).next = h.next + 1 := rfl

@[simp] theorem getU_delU (u u' : Nat) : (h.delU u).getU u' = if u' = u then none else h.getU u' := by
  simp [Heap.delU, Heap.getU, mget_mdel]
@[simp] theorem getP_delU (u p : Nat) : (h.delU u).getP p = h.getP p := rfl
@[simp] theorem next_delU (u : Nat) : (h.delU u).next = h.next := rfl

@[simp] theorem getP_delP (p p' : Nat) : (h.delP p).getP p' = if p' = p then none else h.getP p' := by
  simp [Heap.delP, Heap.getP, mget_mdel]
@[simp] theorem getU_delP (p u : Nat) : (h.delP p).getU u = h.getU u := rfl
@[simp] theorem next_delP (p : Nat) : (h.delP p).next = h.next := rfl

/-! key uniqueness -/

def NodupK (h : Heap) : Prop := (keys h.urls).Nodup ∧ (keys h.params).Nodup

theorem nodupK_modU (u : Nat) (f : UCell → UCell) (hn : NodupK h) : NodupK (h.modU u f) := by
  unfold Heap.modU; split
  · exact ⟨nodup_mset _ _ _ hn.1, hn.2⟩
  · exact hn
theorem nodupK_modP (p : Nat) (f : PCell → PCell) (hn : NodupK h) : NodupK (h.modP p f) := by
  unfold Heap.modP; split
  · exact ⟨hn.1, nodup_mset _ _ _ hn.2⟩
  · exact hn
theorem nodupK_allocU (c : UCell) (hn : NodupK h) : NodupK (h.allocU c) := ⟨nodup_mset _ _ _ hn.1, hn.2⟩
theorem nodupK_allocP (c : PCell) (hn : NodupK h) : NodupK (h.allocP c) := ⟨hn.1, nodup_mset _ _ _ hn.2⟩
theorem nodupK_delU (u : Nat) (hn : NodupK h) : NodupK (h.delU u) := ⟨nodup_mdel _ _ hn.1, hn.2⟩
theorem nodupK_delP (p : Nat) (hn : NodupK h) : NodupK (h.delP p) := ⟨hn.1, nodup_mdel _ _ hn.2⟩

end prims

end Upa.Proofs.Own
