import Upa.Proofs.OwnMap
/-
  C06b, layer 2: four VIEWS of a heap — the two pointer fields (`sp`, `up`), the records (`recOf`) and
  the list contents (`cont`) — and what every primitive and every small building block of
  `Upa/Impl/Own.lean` does to them.  All later proofs go through these views only.
-/
namespace Upa.Proofs.Own
open Upa Upa.Impl Upa.Impl.Own

/-- `search_params_ptr_` of the url at `u`: `none` dead, `some none` no params object, `some (some p)` -/
def sp (h : Heap) (u : Nat) : Option (Option Nat) := (h.getU u).map (·.spPtr)
/-- `url_ptr_` of the params object at `p`: `none` dead, `some none` FREE, `some (some u)` OWNED by `u` -/
def up (h : Heap) (p : Nat) : Option (Option Nat) := (h.getP p).map (·.urlPtr)
/-- list and flag of the params object at `p` -/
def cont (h : Heap) (p : Nat) : Option Params := (h.getP p).map (fun c => { list := c.list, isSorted := c.isSorted })

/-! reads in terms of views -/

theorem spOf_eq (h : Heap) (u : Nat) : h.spOf u = (sp h u).join := by
  unfold Heap.spOf sp; cases h.getU u <;> rfl
theorem liveU_eq (h : Heap) (u : Nat) : h.liveU u = (sp h u).isSome := by
  unfold Heap.liveU sp; cases h.getU u <;> rfl
theorem urlPtrOf_eq (h : Heap) (p : Nat) : h.urlPtrOf p = (up h p).join := by
  unfold Heap.urlPtrOf up; cases h.getP p <;> rfl
theorem liveP_eq (h : Heap) (p : Nat) : h.liveP p = (up h p).isSome := by
  unfold Heap.liveP up; cases h.getP p <;> rfl
theorem listOf_eq (h : Heap) (p : Nat) : h.listOf p = ((cont h p).map (·.list)).getD [] := by
  unfold Heap.listOf cont; cases h.getP p <;> rfl
theorem sortedOf_eq (h : Heap) (p : Nat) : h.sortedOf p = ((cont h p).map (·.isSorted)).getD false := by
  unfold Heap.sortedOf cont; cases h.getP p <;> rfl
theorem cont_isSome (h : Heap) (p : Nat) : (cont h p).isSome = (up h p).isSome := by
  unfold cont up; cases h.getP p <;> rfl
theorem cont_eq_none (h : Heap) (p : Nat) : cont h p = none ↔ up h p = none := by
  unfold cont up; cases h.getP p <;> simp
theorem recOf_dead (h : Heap) (u : Nat) (hd : sp h u = none) : h.recOf u = none := by
  unfold Heap.recOf; unfold sp at hd; cases hg : h.getU u <;> simp_all

/-! ## primitives -/

section prims
variable (h : Heap)

theorem sp_modU (u : Nat) (f : UCell → UCell) (u' : Nat) :
    sp (h.modU u f) u' = if u' = u then (h.getU u).map (fun c => (f c).spPtr) else sp h u' := by
  unfold sp; simp only [getU_modU]; split
  · simp only [Option.map_map]; rfl
  · rfl
theorem recOf_modU (u : Nat) (f : UCell → UCell) (u' : Nat) :
    (h.modU u f).recOf u' = if u' = u then (h.getU u).bind (fun c => (f c).url) else h.recOf u' := by
  unfold Heap.recOf; simp only [getU_modU]; split
  · cases h.getU u <;> rfl
  · rfl
theorem up_modU (u : Nat) (f : UCell → UCell) (p : Nat) : up (h.modU u f) p = up h p := by
  unfold up; simp
theorem cont_modU (u : Nat) (f : UCell → UCell) (p : Nat) : cont (h.modU u f) p = cont h p := by
  unfold cont; simp
theorem up_modP (p : Nat) (f : PCell → PCell) (p' : Nat) :
    up (h.modP p f) p' = if p' = p then (h.getP p).map (fun c => (f c).urlPtr) else up h p' := by
  unfold up; simp only [getP_modP]; split
  · simp only [Option.map_map]; rfl
  · rfl
theorem cont_modP (p : Nat) (f : PCell → PCell) (p' : Nat) :
    cont (h.modP p f) p' =
      if p' = p then (h.getP p).map (fun c => { list := (f c).list, isSorted := (f c).isSorted }) else cont h p' := by
  unfold cont; simp only [getP_modP]; split
  · simp only [Option.map_map]; rfl
  · rfl
theorem sp_modP (p : Nat) (f : PCell → PCell) (u : Nat) : sp (h.modP p f) u = sp h u := by
  unfold sp; simp
theorem recOf_modP (p : Nat) (f : PCell → PCell) (u : Nat) : (h.modP p f).recOf u = h.recOf u := by
  unfold Heap.recOf; simp

-- setRec
@[simp] theorem sp_setRec (u : Nat) (r : Option Url) (u' : Nat) : sp (h.setRec u r) u' = sp h u' := by
  rw [Heap.setRec, sp_modU]; split
  · subst_vars; rfl
  · rfl
@[simp] theorem up_setRec (u : Nat) (r : Option Url) (p : Nat) : up (h.setRec u r) p = up h p := up_modU ..
@[simp] theorem cont_setRec (u : Nat) (r : Option Url) (p : Nat) : cont (h.setRec u r) p = cont h p := cont_modU ..
@[simp] theorem next_setRec (u : Nat) (r : Option Url) : (h.setRec u r).next = h.next := by simp [Heap.setRec]
@[simp] theorem recOf_setRec (u : Nat) (r : Option Url) (u' : Nat) :
    (h.setRec u r).recOf u' = if u' = u then (if (sp h u).isSome then r else none) else h.recOf u' := by
  rw [Heap.setRec, recOf_modU]; split
  · unfold sp; cases h.getU u <;> rfl
  · rfl

-- setSpPtr
@[simp] theorem sp_setSpPtr (u : Nat) (o : Option Nat) (u' : Nat) :
    sp (h.setSpPtr u o) u' = if u' = u then (sp h u).map (fun _ => o) else sp h u' := by
  rw [Heap.setSpPtr, sp_modU]; split
  · unfold sp; cases h.getU u <;> rfl
  · rfl
@[simp] theorem up_setSpPtr (u : Nat) (o : Option Nat) (p : Nat) : up (h.setSpPtr u o) p = up h p := up_modU ..
@[simp] theorem cont_setSpPtr (u : Nat) (o : Option Nat) (p : Nat) : cont (h.setSpPtr u o) p = cont h p := cont_modU ..
@[simp] theorem next_setSpPtr (u : Nat) (o : Option Nat) : (h.setSpPtr u o).next = h.next := by simp [Heap.setSpPtr]
@[simp] theorem recOf_setSpPtr (u : Nat) (o : Option Nat) (u' : Nat) : (h.setSpPtr u o).recOf u' = h.recOf u' := by
  rw [Heap.setSpPtr, recOf_modU]; split
  · subst_vars; rfl
  · rfl

-- setContent
@[simp] theorem sp_setContent (p : Nat) (l : List BPair) (s : Bool) (u : Nat) : sp (h.setContent p l s) u = sp h u :=
  sp_modP ..
@[simp] theorem up_setContent (p : Nat) (l : List BPair) (s : Bool) (p' : Nat) : up (h.setContent p l s) p' = up h p' := by
  rw [Heap.setContent, up_modP]; split
  · subst_vars; rfl
  · rfl
@[simp] theorem cont_setContent (p : Nat) (l : List BPair) (s : Bool) (p' : Nat) :
    cont (h.setContent p l s) p' = if p' = p then (cont h p).map (fun _ => { list := l, isSorted := s }) else cont h p' := by
  rw [Heap.setContent, cont_modP]; split
  · unfold cont; cases h.getP p <;> rfl
  · rfl
@[simp] theorem next_setContent (p : Nat) (l : List BPair) (s : Bool) : (h.setContent p l s).next = h.next := by
  simp [Heap.setContent]
@[simp] theorem recOf_setContent (p : Nat) (l : List BPair) (s : Bool) (u : Nat) : (h.setContent p l s).recOf u = h.recOf u :=
  recOf_modP ..

-- setUrlPtr
@[simp] theorem sp_setUrlPtr (p : Nat) (o : Option Nat) (u : Nat) : sp (h.setUrlPtr p o) u = sp h u := sp_modP ..
@[simp] theorem up_setUrlPtr (p : Nat) (o : Option Nat) (p' : Nat) :
    up (h.setUrlPtr p o) p' = if p' = p then (up h p).map (fun _ => o) else up h p' := by
  rw [Heap.setUrlPtr, up_modP]; split
  · unfold up; cases h.getP p <;> rfl
  · rfl
@[simp] theorem cont_setUrlPtr (p : Nat) (o : Option Nat) (p' : Nat) : cont (h.setUrlPtr p o) p' = cont h p' := by
  rw [Heap.setUrlPtr, cont_modP]; split
  · subst_vars; rfl
  · rfl
@[simp] theorem next_setUrlPtr (p : Nat) (o : Option Nat) : (h.setUrlPtr p o).next = h.next := by simp [Heap.setUrlPtr]
@[simp] theorem recOf_setUrlPtr (p : Nat) (o : Option Nat) (u : Nat) : (h.setUrlPtr p o).recOf u = h.recOf u :=
  recOf_modP ..

-- allocU
@[simp] theorem sp_allocU (c : UCell) (u : Nat) : sp (h.allocU c) u = if u = h.next then some c.spPtr else sp h u := by
  unfold sp; simp only [getU_allocU]; split <;> rfl
@[simp] theorem up_allocU (c : UCell) (p : Nat) : up (h.allocU c) p = up h p := rfl
@[simp] theorem cont_allocU (c : UCell) (p : Nat) : cont (h.allocU c) p = cont h p := rfl
@[simp] theorem recOf_allocU (c : UCell) (u : Nat) : (h.allocU c).recOf u = if u = h.next then c.url else h.recOf u := by
  unfold Heap.recOf; simp only [getU_allocU]; split <;> rfl

-- allocP
@[simp] theorem sp_allocP (c : PCell) (u : Nat) : sp (h.allocP c) u = sp h u := rfl
@[simp] theorem up_allocP (c : PCell) (p : Nat) : up (h.allocP c) p = if p = h.next then some c.urlPtr else up h p := by
  unfold up; simp only [getP_allocP]; split <;> rfl
@[simp] theorem cont_allocP (c : PCell) (p : Nat) :
    cont (h.allocP c) p = if p = h.next then some { list := c.list, isSorted := c.isSorted } else cont h p := by
  unfold cont; simp only [getP_allocP]; split <;> rfl
@[simp] theorem recOf_allocP (c : PCell) (u : Nat) : (h.allocP c).recOf u = h.recOf u := rfl

-- delU
@[simp] theorem sp_delU (u u' : Nat) : sp (h.delU u) u' = if u' = u then none else sp h u' := by
  unfold sp; simp only [getU_delU]; split <;> rfl
@[simp] theorem up_delU (u p : Nat) : up (h.delU u) p = up h p := rfl
@[simp] theorem cont_delU (u p : Nat) : cont (h.delU u) p = cont h p := rfl
@[simp] theorem recOf_delU (u u' : Nat) : (h.delU u).recOf u' = if u' = u then none else h.recOf u' := by
  unfold Heap.recOf; simp only [getU_delU]; split <;> rfl

-- delP
@[simp] theorem sp_delP (p u : Nat) : sp (h.delP p) u = sp h u := rfl
@[simp] theorem up_delP (p p' : Nat) : up (h.delP p) p' = if p' = p then none else up h p' := by
  unfold up; simp only [getP_delP]; split <;> rfl
@[simp] theorem cont_delP (p p' : Nat) : cont (h.delP p) p' = if p' = p then none else cont h p' := by
  unfold cont; simp only [getP_delP]; split <;> rfl
@[simp] theorem recOf_delP (p u : Nat) : (h.delP p).recOf u = h.recOf u := rfl

end prims

/-! ## key uniqueness is preserved by everything that is built from the primitives -/

theorem nodupK_setRec (h : Heap) (u : Nat) (r : Option Url) (hn : NodupK h) : NodupK (h.setRec u r) :=
  nodupK_modU h _ _ hn
theorem nodupK_setSpPtr (h : Heap) (u : Nat) (o : Option Nat) (hn : NodupK h) : NodupK (h.setSpPtr u o) :=
  nodupK_modU h _ _ hn
theorem nodupK_setContent (h : Heap) (p : Nat) (l : List BPair) (s : Bool) (hn : NodupK h) :
    NodupK (h.setContent p l s) := nodupK_modP h _ _ hn
theorem nodupK_setUrlPtr (h : Heap) (p : Nat) (o : Option Nat) (hn : NodupK h) : NodupK (h.setUrlPtr p o) :=
  nodupK_modP h _ _ hn

/-- closes `NodupK (op h …)` for an `op` that has been unfolded into primitives, `if`s and `match`es -/
macro "nodupK_tac" : tactic =>
  `(tactic| repeat (first
      | assumption
      | apply nodupK_setRec | apply nodupK_setSpPtr | apply nodupK_setContent | apply nodupK_setUrlPtr
      | apply nodupK_allocU | apply nodupK_allocP | apply nodupK_delU | apply nodupK_delP
      | split))

end Upa.Proofs.Own
