import Upa.Proofs.OwnInv
/-
  C06b: `Heap.check` decides `OwnInv`.
-/
namespace Upa.Proofs.Own
open Upa Upa.Impl Upa.Impl.Own

theorem getU_iff_mem (h : Heap) (hn : (h.urls.map (·.1)).Nodup) (u : Nat) (uc : UCell) :
    h.getU u = some uc ↔ (u, uc) ∈ h.urls := mget_eq_some_iff h.urls hn u uc
theorem getP_iff_mem (h : Heap) (hn : (h.params.map (·.1)).Nodup) (p : Nat) (pc : PCell) :
    h.getP p = some pc ↔ (p, pc) ∈ h.params := mget_eq_some_iff h.params hn p pc

theorem check_iff (h : Heap) : h.check = true ↔ OwnInv h := by
  unfold Heap.check
  simp only [Bool.and_eq_true, List.all_eq_true, decide_eq_true_eq]
  constructor
  · rintro ⟨⟨⟨hu, hp⟩, nu⟩, np⟩
    have hfwd : ∀ u uc p, h.getU u = some uc → uc.spPtr = some p → ∃ pc, h.getP p = some pc ∧ pc.urlPtr = some u := by
      intro u uc p hg hs
      have := (hu (u, uc) ((getU_iff_mem h nu u uc).1 hg)).2
      simp only [hs] at this
      cases hc : h.getP p with
      | none => simp [hc] at this
      | some pc => simp only [hc, beq_iff_eq] at this; exact ⟨pc, rfl, this⟩
    refine ⟨hfwd, ?_, ?_, ?_, ?_, nu, np⟩
    · intro p pc u hg hs
      have := (hp (p, pc) ((getP_iff_mem h np p pc).1 hg)).2
      simp only [hs] at this
      cases hc : h.getU u with
      | none => simp [hc] at this
      | some uc => simp only [hc, beq_iff_eq] at this; exact ⟨uc, rfl, this⟩
    · intro u₁ u₂ c₁ c₂ p h1 h2 h3 h4
      obtain ⟨pc, hpc, hu1⟩ := hfwd u₁ c₁ p h1 h3
      obtain ⟨pc', hpc', hu2⟩ := hfwd u₂ c₂ p h2 h4
      rw [hpc] at hpc'; cases hpc'
      rw [hu1] at hu2; exact Option.some.inj hu2
    · intro u hl
      unfold Heap.liveU at hl
      obtain ⟨uc, hg⟩ := Option.isSome_iff_exists.1 hl
      exact (hu (u, uc) ((getU_iff_mem h nu u uc).1 hg)).1
    · intro p hl
      unfold Heap.liveP at hl
      obtain ⟨pc, hg⟩ := Option.isSome_iff_exists.1 hl
      exact (hp (p, pc) ((getP_iff_mem h np p pc).1 hg)).1
  · intro hi
    refine ⟨⟨⟨?_, ?_⟩, hi.keysU⟩, hi.keysP⟩
    · rintro ⟨u, uc⟩ hm
      have hg := (getU_iff_mem h hi.keysU u uc).2 hm
      refine ⟨hi.freshU u (by unfold Heap.liveU; rw [hg]; rfl), ?_⟩
      dsimp only
      cases hs : uc.spPtr with
      | none => rfl
      | some p =>
        obtain ⟨pc, h1, h2⟩ := hi.fwd u uc p hg hs
        simp [h1, h2]
    · rintro ⟨p, pc⟩ hm
      have hg := (getP_iff_mem h hi.keysP p pc).2 hm
      refine ⟨hi.freshP p (by unfold Heap.liveP; rw [hg]; rfl), ?_⟩
      dsimp only
      cases hs : pc.urlPtr with
      | none => rfl
      | some u =>
        obtain ⟨uc, h1, h2⟩ := hi.back p pc u hg hs
        simp [h1, h2]

instance (h : Heap) : Decidable (OwnInv h) := decidable_of_iff _ (check_iff h)

end Upa.Proofs.Own
