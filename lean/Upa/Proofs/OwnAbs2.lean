import Upa.Proofs.OwnAbs
/-
  C06b, layer 4 (continued): `safe_assign`, destruction, `swap`, `clear`, `parse`, the setters.
-/
set_option linter.unusedSimpArgs false
set_option linter.unusedVariables false

namespace Upa.Proofs.Own
open Upa Upa.Impl Upa.Impl.Own

/-- what `url::safe_assign` leaves in the SOURCE: an invalid url; its params object (if it has one) is
    emptied when the destination had a params object to receive the list, and is left AS IT IS (stale
    list) when the destination had none (url.h:1113-1115) -/
def safeAssignSrc (dst src : UrlObj) : UrlObj :=
  { url := none
    sp := if dst.sp.isSome then src.sp.map (fun p => { list := [], isSorted := p.isSorted }) else src.sp }

/-- `safe_assign` is `safeAssign` on the destination -/
theorem urlSafeAssign_abs (h : Heap) (d s : Nat) (hi : OwnG h) (hd : h.liveU d = true) (hs : h.liveU s = true)
    (hds : d ≠ s) (u' : Nat) :
    abs (urlSafeAssign h d s) u' =
      if u' = d then (safeAssign (abs h d) (abs h s)).1
      else if u' = s then safeAssignSrc (abs h d) (abs h s) else abs h u' := by
  have hi' := hi
  obtain ⟨f, b, fu, fp⟩ := hi
  unfold urlSafeAssign safeAssign safeAssignSrc moveRecord moveParams
  simp only [hd, hs, hds, Ne.symm hds, Bool.and_self, Bool.not_true, Bool.false_eq_true, or_self, if_false]
  rw [liveU_eq] at hd hs
  rw [spOf_eq, spOf_eq]
  rcases hsd : sp h d with _ | _ | pd
  · simp [hsd] at hd
  · -- destination without params object: records only
    simp only [Option.join_some]
    rcases hss : sp h s with _ | _ | ps
    · simp [hss] at hs
    all_goals
      split
      · subst_vars
        rw [abs_none (by simp [hsd, hss, hds, Ne.symm hds]), abs_none hsd]
        first
          | (rw [abs_none hss]; simp [hds, Ne.symm hds, hss, hsd]; done)
          | (rw [abs_some hss]; simp [hds, Ne.symm hds, hss, hsd]; done)
      · split
        · subst_vars
          first
            | (rw [abs_none (by simp [hsd, hss, hds, Ne.symm hds]), abs_none hsd, abs_none hss]
               simp [hds, Ne.symm hds, hss, hsd]; done)
            | (rw [abs_some (p := ps) (by simp [hsd, hss, hds, Ne.symm hds]), abs_none hsd, abs_some hss]
               simp [hds, Ne.symm hds, hss, hsd]; done)
        · apply abs_congr <;> simp [*]
  · have hpd := f d pd hsd
    obtain ⟨c, hc⟩ := cont_live hpd
    have hltd : pd < h.next := by
      by_cases hlt : pd < h.next
      · exact hlt
      · rw [fp pd (by omega)] at hpd; cases hpd
    simp only [Option.join_some]
    rcases hss : sp h s with _ | _ | ps
    · simp [hss] at hs
    · -- source without params object: the temporary
      simp only [Option.join_some]
      have hne : pd ≠ h.next := by omega
      split
      · subst_vars
        rw [abs_some (p := pd) (by simp [hsd, hss, hds, Ne.symm hds]), abs_some hsd, abs_none hss]
        simp [hds, Ne.symm hds, hss, hsd, hc, hne, Ne.symm hne, listOf_eq, sortedOf_eq]
      · split
        · subst_vars
          rw [abs_none (by simp [hsd, hss, hds, Ne.symm hds]), abs_some hsd, abs_none hss]
          simp [hds, Ne.symm hds, hss, hsd, hc]
        · apply abs_congr <;> simp [*] <;> grind
    · have hps := f s ps hss
      obtain ⟨c2, hc2⟩ := cont_live hps
      have hpp : pd ≠ ps := by
        intro he; subst he; rw [hpd] at hps; simp at hps; exact hds hps
      simp only [Option.join_some]
      split
      · subst_vars
        rw [abs_some (p := pd) (by simp [hsd, hss, hds, Ne.symm hds]), abs_some hsd, abs_some hss]
        simp [hds, Ne.symm hds, hss, hsd, hc, hc2, hpp, Ne.symm hpp, listOf_eq, sortedOf_eq]
      · split
        · subst_vars
          rw [abs_some (p := ps) (by simp [hsd, hss, hds, Ne.symm hds]), abs_some hsd, abs_some hss]
          simp [hds, Ne.symm hds, hss, hsd, hc, hc2, hpp, Ne.symm hpp, listOf_eq, sortedOf_eq]
        · apply abs_congr <;> simp [*] <;> grind

/-- `~url()` -/
theorem destroyUrl_abs (h : Heap) (u : Nat) (hi : OwnG h) (u' : Nat) :
    abs (destroyUrl h u) u' = if u' = u then {} else abs h u' := by
  obtain ⟨f, b, fu, fp⟩ := hi
  unfold destroyUrl
  rw [spOf_eq]
  rcases hsu : sp h u with _ | _ | p
  all_goals
    simp only [Option.join_some, Option.join_none]
    split
    · subst_vars; rw [abs_dead (by simp)]
    · apply abs_congr <;> simp [*] <;> grind

/-! liveness through the moves (for the compositions) -/

theorem live_urlMoveConstruct (h : Heap) (s x : Nat) :
    (sp (urlMoveConstruct h s).1 x).isSome = (decide (x = h.next) || (sp h x).isSome) := by
  unfold urlMoveConstruct
  rw [spOf_eq]
  rcases hss : sp h s with _ | _ | ps <;> simp <;> grind

theorem live_urlMoveAssign (h : Heap) (d s x : Nat) :
    (sp (urlMoveAssign h d s) x).isSome = (sp h x).isSome := by
  unfold urlMoveAssign
  split
  · rfl
  · rw [spOf_eq, spOf_eq]
    rcases hsd : sp h d with _ | _ | pd <;> rcases hss : sp h s with _ | _ | ps <;> simp <;> grind

theorem live_urlSafeAssign (h : Heap) (d s x : Nat) :
    (sp (urlSafeAssign h d s) x).isSome = (sp h x).isSome := by
  unfold urlSafeAssign
  split
  · rfl
  · split
    · split <;> simp
    · simp

/-- `swap` exchanges what the two urls stand for — each keeps its own identity, the params objects
    change hands and their back pointers follow -/
theorem urlSwap_abs (h : Heap) (a b : Nat) (hi : OwnG h) (ha : h.liveU a = true) (hb : h.liveU b = true)
    (u' : Nat) :
    abs (urlSwap h a b) u' = if u' = a then abs h b else if u' = b then abs h a else abs h u' := by
  unfold urlSwap
  simp only [ha, hb, Bool.and_self, Bool.not_true, Bool.false_eq_true, if_false]
  have ha' := ha; have hb' := hb
  rw [liveU_eq] at ha' hb'
  obtain ⟨oa, hoa⟩ := Option.isSome_iff_exists.1 ha'
  obtain ⟨ob, hob⟩ := Option.isSome_iff_exists.1 hb'
  have hat := fresh_lt hi hoa
  have hbt := fresh_lt hi hob
  have hdead : abs h h.next = {} := abs_dead (hi.freshU _ (Nat.le_refl _))
  rw [show (urlMoveConstruct h a).2 = h.next from rfl]
  have hi1 := urlMoveConstruct_ownG h a hi
  have e1 := urlMoveConstruct_abs h a hi ha
  have l1 := live_urlMoveConstruct h a
  generalize (urlMoveConstruct h a).1 = h1 at *
  have hi2 := urlMoveAssign_ownG h1 a b hi1
  have l2 := live_urlMoveAssign h1 a b
  have la1 : h1.liveU a = true := by rw [liveU_eq, l1]; simp [ha']
  have lb1 : h1.liveU b = true := by rw [liveU_eq, l1]; simp [hb']
  have lt1 : h1.liveU h.next = true := by rw [liveU_eq, l1]; simp
  by_cases hab : a = b
  · subst hab
    have e3 := urlMoveAssign_abs h1 a h.next hi1 la1 lt1 (by omega)
    rw [show urlMoveAssign h1 a a = h1 from by unfold urlMoveAssign; simp]
    have hi3 := urlMoveAssign_ownG h1 a h.next hi1
    rw [destroyUrl_abs _ _ hi3, e3]
    simp only [moveAssign, e1]
    grind
  · have e2 := urlMoveAssign_abs h1 a b hi1 la1 lb1 hab
    generalize urlMoveAssign h1 a b = h2 at *
    have lb2 : h2.liveU b = true := by rw [liveU_eq, l2, ← liveU_eq]; exact lb1
    have lt2 : h2.liveU h.next = true := by rw [liveU_eq, l2, ← liveU_eq]; exact lt1
    have e3 := urlMoveAssign_abs h2 b h.next hi2 lb2 lt2 (by omega)
    have hi3 := urlMoveAssign_ownG h2 b h.next hi2
    rw [destroyUrl_abs _ _ hi3, e3]
    simp only [moveAssign, e2, e1]
    grind

/-! ## clear, parse, setters -/

theorem urlClear_abs (h : Heap) (u : Nat) (hi : OwnG h) (u' : Nat) :
    abs (urlClear h u) u' = if u' = u then (abs h u).clear else abs h u' := by
  obtain ⟨f, b, fu, fp⟩ := hi
  unfold urlClear clearSearchParams UrlObj.clear UrlObj.clearParams
  rw [spOf_eq]
  simp only [sp_setRec]
  rcases hsu : sp h u with _ | _ | p
  · simp only [Option.join_none]
    split
    · subst_vars; rw [abs_dead (by simpa using hsu), abs_dead hsu]
    · apply abs_congr <;> simp [*]
  · simp only [Option.join_some]
    split
    · subst_vars; rw [abs_none (by simpa using hsu), abs_none hsu]; simp [hsu]
    · apply abs_congr <;> simp [*]
  · obtain ⟨c, hc⟩ := cont_live (f _ _ hsu)
    simp only [Option.join_some]
    split
    · subst_vars; rw [abs_some (p := p) (by simpa using hsu), abs_some hsu]; simp [hsu, hc]
    · apply abs_congr <;> simp [*] <;> grind

/-- `UrlObj.parse` in terms of the parser's outcome -/
def parseRes (o : UrlObj) (res : Option Url) : UrlObj :=
  let o := if o.url.isSome then o.clearParams else o
  match res with
  | some r => ({ o with url := some r } : UrlObj).reparseParams
  | none => { o with url := none }

theorem parse_eq_parseRes (idna : Idna) (o : UrlObj) (e : Enc) (units : List Nat) (base : Option (Option Url)) :
    (o.parse idna e units base).1 = parseRes o (parseResult idna e units base) := by
  unfold UrlObj.parse parseRes parseResult
  rcases base with _ | _ | b <;> dsimp only <;> split <;> simp_all

theorem urlDoParse_abs (h : Heap) (u : Nat) (res : Option Url) (hi : OwnG h) (hu : h.liveU u = true) (u' : Nat) :
    abs (urlDoParse h u res) u' = if u' = u then parseRes (abs h u) res else abs h u' := by
  obtain ⟨f, b, fu, fp⟩ := hi
  rw [liveU_eq] at hu
  unfold urlDoParse urlClear clearSearchParams parseSearchParams parseRes UrlObj.clearParams UrlObj.reparseParams
  simp only [spOf_eq, sp_setRec, abs_url]
  rcases hsu : sp h u with _ | _ | p
  · simp [hsu] at hu
  · simp only [Option.join_some]
    by_cases huu : u' = u
    · subst huu
      simp only [if_true]
      rw [abs_none hsu]
      rcases res with _ | r <;> cases hr : h.recOf u' <;>
        simp [hr] <;> rw [abs_none (by simp [hsu])] <;> simp [hsu]
    · simp only [huu, if_false]
      rcases res with _ | r <;> cases hr : h.recOf u <;> simp [hr, hsu] <;> apply abs_congr <;> simp [*]
  · obtain ⟨c, hc⟩ := cont_live (f _ _ hsu)
    simp only [Option.join_some]
    by_cases huu : u' = u
    · subst huu
      simp only [if_true]
      rw [abs_some hsu]
      rcases res with _ | r <;> cases hr : h.recOf u' <;>
        simp [hr, hsu] <;> rw [abs_some (p := p) (by simp [hsu])] <;> simp [hsu, hc]
    · simp only [huu, if_false]
      rcases res with _ | r <;> cases hr : h.recOf u <;> simp [hr, hsu] <;> apply abs_congr <;> simp [*] <;> grind

end Upa.Proofs.Own
