import Upa.Impl.Utf
import Upa.Spec.Encoding
/-
  Helper lemmas for C10 (UTF decoders / encoders).
  Route: `readU8` (bit tables, ICU-macro shape) = `readU8A` (ranges + arithmetic) for bytes < 256;
  everything else is proved about `readU8A` with `omega`.
-/
namespace Upa.Impl
open Upa.Spec

/-! ## bit facts -/

theorem and3F (x : Nat) : x &&& 0x3F = x % 64 := by
  have : (0x3F : Nat) = 2 ^ 6 - 1 := by decide
  rw [this, Nat.and_two_pow_sub_one_eq_mod]
theorem and1F (x : Nat) : x &&& 0x1F = x % 32 := by
  have : (0x1F : Nat) = 2 ^ 5 - 1 := by decide
  rw [this, Nat.and_two_pow_sub_one_eq_mod]
theorem andF (x : Nat) : x &&& 0xF = x % 16 := by
  have : (0xF : Nat) = 2 ^ 4 - 1 := by decide
  rw [this, Nat.and_two_pow_sub_one_eq_mod]
theorem and7 (x : Nat) : x &&& 0x7 = x % 8 := by
  have : (0x7 : Nat) = 2 ^ 3 - 1 := by decide
  rw [this, Nat.and_two_pow_sub_one_eq_mod]
theorem and3FF (x : Nat) : x &&& 0x3FF = x % 1024 := by
  have : (0x3FF : Nat) = 2 ^ 10 - 1 := by decide
  rw [this, Nat.and_two_pow_sub_one_eq_mod]

theorem shl6 (x : Nat) : x <<< 6 = x * 64 := by simp [Nat.shiftLeft_eq]
theorem shl10 (x : Nat) : x <<< 10 = x * 1024 := by simp [Nat.shiftLeft_eq]
theorem shr6 (x : Nat) : x >>> 6 = x / 64 := by simp [Nat.shiftRight_eq_div_pow]
theorem shr10 (x : Nat) : x >>> 10 = x / 1024 := by simp [Nat.shiftRight_eq_div_pow]
theorem shr12 (x : Nat) : x >>> 12 = x / 4096 := by simp [Nat.shiftRight_eq_div_pow]
theorem shr18 (x : Nat) : x >>> 18 = x / 262144 := by simp [Nat.shiftRight_eq_div_pow]

theorem shl6_or (a t : Nat) (h : t < 64) : (a <<< 6) ||| t = a * 64 + t := by
  rw [← Nat.shiftLeft_add_eq_or_of_lt (i := 6) (by simpa using h), shl6]

theorem or80 : ∀ x, x < 64 → x ||| 0x80 = x + 0x80 := by decide
theorem orC0 : ∀ x, x < 32 → x ||| 0xC0 = x + 0xC0 := by decide
theorem orE0 : ∀ x, x < 16 → x ||| 0xE0 = x + 0xE0 := by decide
theorem orF0 : ∀ x, x < 8 → x ||| 0xF0 = x + 0xF0 := by decide
theorem orDC00 (x : Nat) (h : x < 1024) : x ||| 0xDC00 = x + 0xDC00 := by
  have := Nat.shiftLeft_add_eq_or_of_lt (i := 10) (b := x) (by simpa using h) 55
  have h55 : (55 : Nat) <<< 10 = 0xDC00 := by decide
  rw [h55] at this
  rw [Nat.or_comm, ← this]; omega

/-- `c & 0xFFFFF800` keeps bits 11..31 -/
theorem andHi11 (c : Nat) : c &&& 0xFFFFF800 = (c / 2048 % 2097152) * 2048 := by
  have hd : (c &&& 0xFFFFF800) / 2 ^ 11 = c / 2 ^ 11 &&& 0xFFFFF800 / 2 ^ 11 := Nat.and_div_two_pow
  have hm : (c &&& 0xFFFFF800) % 2 ^ 11 = (c % 2 ^ 11) &&& (0xFFFFF800 % 2 ^ 11) := Nat.and_mod_two_pow
  have h1 : (0xFFFFF800 : Nat) / 2 ^ 11 = 2 ^ 21 - 1 := by decide
  have h2 : (0xFFFFF800 : Nat) % 2 ^ 11 = 0 := by decide
  rw [h1, Nat.and_two_pow_sub_one_eq_mod] at hd
  rw [h2, Nat.and_zero] at hm
  simp at hd hm
  omega

/-- `c & 0xFFFFFC00` keeps bits 10..31 -/
theorem andHi10 (c : Nat) : c &&& 0xFFFFFC00 = (c / 1024 % 4194304) * 1024 := by
  have hd : (c &&& 0xFFFFFC00) / 2 ^ 10 = c / 2 ^ 10 &&& 0xFFFFFC00 / 2 ^ 10 := Nat.and_div_two_pow
  have hm : (c &&& 0xFFFFFC00) % 2 ^ 10 = (c % 2 ^ 10) &&& (0xFFFFFC00 % 2 ^ 10) := Nat.and_mod_two_pow
  have h1 : (0xFFFFFC00 : Nat) / 2 ^ 10 = 2 ^ 22 - 1 := by decide
  have h2 : (0xFFFFFC00 : Nat) % 2 ^ 10 = 0 := by decide
  rw [h1, Nat.and_two_pow_sub_one_eq_mod] at hd
  rw [h2, Nat.and_zero] at hm
  simp at hd hm
  omega

/-- `c & 0x400` is bit 10 -/
theorem and400 (c : Nat) : c &&& 0x400 = (c / 1024 % 2) * 1024 := by
  have hd : (c &&& 0x400) / 2 ^ 10 = c / 2 ^ 10 &&& 0x400 / 2 ^ 10 := Nat.and_div_two_pow
  have hm : (c &&& 0x400) % 2 ^ 10 = (c % 2 ^ 10) &&& (0x400 % 2 ^ 10) := Nat.and_mod_two_pow
  have h1 : (0x400 : Nat) / 2 ^ 10 = 1 := by decide
  have h2 : (0x400 : Nat) % 2 ^ 10 = 0 := by decide
  rw [h1, Nat.and_one_is_mod] at hd
  rw [h2, Nat.and_zero] at hm
  simp at hd hm
  omega

/-! ## the two ICU bit tables are the WHATWG lower/upper boundaries -/

theorem lead3_tbl : ∀ k, k < 16 → ∀ b1, b1 < 256 →
    (((lead3T1Bits.getD ((0xE0 + k) &&& 0xF) 0) &&& (1 <<< (b1 >>> 5)) ≠ 0) ↔
      (0x80 ≤ b1 ∧ b1 ≤ 0xBF ∧ (0xE0 + k = 0xE0 → 0xA0 ≤ b1) ∧ (0xE0 + k = 0xED → b1 ≤ 0x9F))) := by
  decide +kernel

theorem lead4_tbl : ∀ k, k < 16 → ∀ b1, b1 < 256 →
    ((k ≤ 4 ∧ (lead4T1Bits.getD (b1 >>> 4) 0) &&& (1 <<< k) ≠ 0) ↔
      (k ≤ 4 ∧ 0x80 ≤ b1 ∧ b1 ≤ 0xBF ∧ (0xF0 + k = 0xF0 → 0x90 ≤ b1) ∧ (0xF0 + k = 0xF4 → b1 ≤ 0x8F))) := by
  decide +kernel

theorem sub80_tbl : ∀ b, b < 256 →
    ((subByte80 b ≤ 0x3F ↔ (0x80 ≤ b ∧ b ≤ 0xBF)) ∧ (subByte80 b ≤ 0x3F → subByte80 b = b % 64)) := by
  decide +kernel

theorem lead3_ok (b0 b1 : Nat) (h0 : 0xE0 ≤ b0) (h0' : b0 < 0xF0) (h1 : b1 < 256) :
    (((lead3T1Bits.getD (b0 &&& 0xF) 0) &&& (1 <<< (b1 >>> 5)) ≠ 0) ↔
      (0x80 ≤ b1 ∧ b1 ≤ 0xBF ∧ (b0 = 0xE0 → 0xA0 ≤ b1) ∧ (b0 = 0xED → b1 ≤ 0x9F))) := by
  have := lead3_tbl (b0 - 0xE0) (by omega) b1 h1
  rwa [show 0xE0 + (b0 - 0xE0) = b0 by omega] at this

theorem lead4_ok (b0 b1 : Nat) (h0 : 0xF0 ≤ b0) (h0' : b0 < 256) (h1 : b1 < 256) :
    ((b0 - 0xF0 ≤ 4 ∧ (lead4T1Bits.getD (b1 >>> 4) 0) &&& (1 <<< (b0 - 0xF0)) ≠ 0) ↔
      (b0 ≤ 0xF4 ∧ 0x80 ≤ b1 ∧ b1 ≤ 0xBF ∧ (b0 = 0xF0 → 0x90 ≤ b1) ∧ (b0 = 0xF4 → b1 ≤ 0x8F))) := by
  have := lead4_tbl (b0 - 0xF0) (by omega) b1 h1
  rw [show 0xF0 + (b0 - 0xF0) = b0 by omega] at this
  rw [this]
  constructor <;> (intro ⟨a, b⟩; exact ⟨by omega, b⟩)

theorem sub80_ok (b : Nat) (h : b < 256) : (subByte80 b ≤ 0x3F ↔ (0x80 ≤ b ∧ b ≤ 0xBF)) :=
  (sub80_tbl b h).1
theorem sub80_val (b : Nat) (h : b < 256) (h' : 0x80 ≤ b ∧ b ≤ 0xBF) : subByte80 b = b % 64 :=
  (sub80_tbl b h).2 ((sub80_ok b h).2 h')


theorem ite_iff {α : Sort _} {p q : Prop} [Decidable p] [Decidable q] (h : p ↔ q) (a b : α) :
    (if p then a else b) = (if q then a else b) := by
  by_cases hq : q
  · rw [if_pos hq, if_pos (h.2 hq)]
  · rw [if_neg hq, if_neg (fun hp => hq (h.1 hp))]

/-- `readU8` with the bit tables replaced by the WHATWG boundaries and bit ops by arithmetic. -/
def readU8A : List Nat → Bool × Nat × List Nat
  | [] => (false, 0xFFFD, [])
  | b0 :: r =>
    if b0 < 0x80 then (true, b0, r)
    else match r with
      | [] => (false, 0xFFFD, [])
      | b1 :: r1 =>
        if b0 ≥ 0xE0 then
          if b0 < 0xF0 then
            if 0x80 ≤ b1 ∧ b1 ≤ 0xBF ∧ (b0 = 0xE0 → 0xA0 ≤ b1) ∧ (b0 = 0xED → b1 ≤ 0x9F) then
              match r1 with
              | [] => (false, 0xFFFD, [])
              | b2 :: r2 =>
                if 0x80 ≤ b2 ∧ b2 ≤ 0xBF then (true, ((b0 % 16) * 64 + b1 % 64) * 64 + b2 % 64, r2)
                else (false, 0xFFFD, b2 :: r2)
            else (false, 0xFFFD, b1 :: r1)
          else
            if b0 ≤ 0xF4 ∧ 0x80 ≤ b1 ∧ b1 ≤ 0xBF ∧ (b0 = 0xF0 → 0x90 ≤ b1) ∧ (b0 = 0xF4 → b1 ≤ 0x8F) then
              match r1 with
              | [] => (false, 0xFFFD, [])
              | b2 :: r2 =>
                if 0x80 ≤ b2 ∧ b2 ≤ 0xBF then
                  match r2 with
                  | [] => (false, 0xFFFD, [])
                  | b3 :: r3 =>
                    if 0x80 ≤ b3 ∧ b3 ≤ 0xBF then
                      (true, (((b0 - 0xF0) * 64 + b1 % 64) * 64 + b2 % 64) * 64 + b3 % 64, r3)
                    else (false, 0xFFFD, b3 :: r3)
                else (false, 0xFFFD, b2 :: r2)
            else (false, 0xFFFD, b1 :: r1)
        else
          if b0 ≥ 0xC2 then
            if 0x80 ≤ b1 ∧ b1 ≤ 0xBF then (true, (b0 % 32) * 64 + b1 % 64, r1) else (false, 0xFFFD, b1 :: r1)
          else (false, 0xFFFD, b1 :: r1)

theorem readU8_eq_readU8A (l : List Nat) (hl : ∀ x ∈ l, x < 256) : readU8 l = readU8A l := by
  match l with
  | [] => rfl
  | b0 :: r =>
    have h0 : b0 < 256 := hl b0 (by simp)
    unfold readU8 readU8A
    by_cases c0 : b0 < 0x80
    · simp only [c0, if_true]
    · simp only [c0, if_false]
      match r with
      | [] => rfl
      | b1 :: r1 =>
        have h1 : b1 < 256 := hl b1 (by simp)
        simp only []
        by_cases cE : b0 ≥ 0xE0
        · simp only [cE, if_true]
          by_cases cF : b0 < 0xF0
          · simp only [cF, if_true]
            rw [ite_iff (lead3_ok b0 b1 cE cF h1)]
            split
            · match r1 with
              | [] => rfl
              | b2 :: r2 =>
                have h2 : b2 < 256 := hl b2 (by simp)
                simp only []
                rw [ite_iff (sub80_ok b2 h2)]
                split
                · next hb2 =>
                  rw [sub80_val b2 h2 hb2, and3F, andF, shl6_or _ _ (by omega), shl6_or _ _ (by omega)]
                · rfl
            · rfl
          · simp only [cF, if_false]
            rw [ite_iff (lead4_ok b0 b1 (by omega) h0 h1)]
            split
            · match r1 with
              | [] => rfl
              | b2 :: r2 =>
                have h2 : b2 < 256 := hl b2 (by simp)
                simp only []
                rw [ite_iff (sub80_ok b2 h2)]
                split
                · next hb2 =>
                  match r2 with
                  | [] => rfl
                  | b3 :: r3 =>
                    have h3 : b3 < 256 := hl b3 (by simp)
                    simp only []
                    rw [ite_iff (sub80_ok b3 h3)]
                    split
                    · next hb3 =>
                      rw [sub80_val b2 h2 hb2, sub80_val b3 h3 hb3, and3F, shl6_or _ _ (by omega),
                        shl6_or _ _ (by omega), shl6_or _ _ (by omega)]
                    · rfl
                · rfl
            · rfl
        · simp only [cE, if_false]
          by_cases cC : b0 ≥ 0xC2
          · simp only [cC, if_true]
            rw [ite_iff (sub80_ok b1 h1)]
            split
            · next hb1 => rw [sub80_val b1 h1 hb1, and1F, shl6_or _ _ (by omega)]
            · rfl
          · simp only [cC, if_false]

/-! ## structure of the decode loop -/

theorem readUtfChar_eq (e : Enc) (l : List Nat) :
    readUtfChar e l = (if (readChar e l).1 then (readChar e l).2.1 else 0xFFFD, (readChar e l).2.2) := rfl

theorem readU8_suffix (l : List Nat) (h : l ≠ []) : ∃ pre, pre ≠ [] ∧ pre ++ (readU8 l).2.2 = l := by
  fun_cases readU8 l
  all_goals first
    | exact absurd rfl h
    | exact ⟨[_], List.cons_ne_nil _ _, rfl⟩
    | exact ⟨[_, _], List.cons_ne_nil _ _, rfl⟩
    | exact ⟨[_, _, _], List.cons_ne_nil _ _, rfl⟩
    | exact ⟨[_, _, _, _], List.cons_ne_nil _ _, rfl⟩

theorem readU16_suffix (l : List Nat) (h : l ≠ []) : ∃ pre, pre ≠ [] ∧ pre ++ (readU16 l).2.2 = l := by
  fun_cases readU16 l
  all_goals first
    | exact absurd rfl h
    | exact ⟨[_], List.cons_ne_nil _ _, rfl⟩
    | exact ⟨[_, _], List.cons_ne_nil _ _, rfl⟩

theorem readU32_suffix (l : List Nat) (h : l ≠ []) : ∃ pre, pre ≠ [] ∧ pre ++ (readU32 l).2.2 = l := by
  fun_cases readU32 l
  · exact absurd rfl h
  · exact ⟨[_], List.cons_ne_nil _ _, rfl⟩

theorem readChar_suffix (e : Enc) (l : List Nat) (h : l ≠ []) :
    ∃ pre, pre ≠ [] ∧ pre ++ (readChar e l).2.2 = l := by
  cases e
  · exact readU8_suffix l h
  · exact readU16_suffix l h
  · exact readU32_suffix l h

theorem readChar_rest_length (e : Enc) (l : List Nat) (h : l ≠ []) :
    (readChar e l).2.2.length < l.length := by
  obtain ⟨pre, hp, he⟩ := readChar_suffix e l h
  have : (pre ++ (readChar e l).2.2).length = l.length := by rw [he]
  rw [List.length_append] at this
  have : 0 < pre.length := List.length_pos_iff.mpr hp
  omega

theorem readChar_rest_mem (e : Enc) (l : List Nat) (h : l ≠ []) :
    ∀ x ∈ (readChar e l).2.2, x ∈ l := by
  obtain ⟨pre, _, he⟩ := readChar_suffix e l h
  intro x hx
  rw [← he]; exact List.mem_append_right _ hx

theorem decodeAux_fuel (e : Enc) : ∀ (fuel : Nat) (l : List Nat), l.length ≤ fuel →
    ∀ fuel', l.length ≤ fuel' → decodeAux e fuel l = decodeAux e fuel' l := by
  intro fuel
  induction fuel with
  | zero =>
    intro l hl fuel' _
    have : l = [] := List.length_eq_zero_iff.mp (by omega)
    subst this
    cases fuel' <;> rfl
  | succ n ih =>
    intro l hl fuel' hl'
    match l, fuel' with
    | [], 0 => rfl
    | [], _+1 => rfl
    | x :: xs, 0 => simp at hl'
    | x :: xs, m+1 =>
      have hlen := readChar_rest_length e (x :: xs) (by simp)
      simp only [decodeAux, readUtfChar_eq]
      congr 1
      simp only [List.length_cons] at hlen hl hl'
      exact ih _ (by omega) _ (by omega)

theorem decode_nil (e : Enc) : decode e [] = [] := rfl

theorem decode_step (e : Enc) (l : List Nat) (h : l ≠ []) :
    decode e l = (if (readChar e l).1 then (readChar e l).2.1 else 0xFFFD) :: decode e (readChar e l).2.2 := by
  match l with
  | [] => contradiction
  | x :: xs =>
    have hlen := readChar_rest_length e (x :: xs) (by simp)
    simp only [List.length_cons] at hlen
    unfold decode
    simp only [List.length_cons, decodeAux, readUtfChar_eq]
    congr 1
    exact decodeAux_fuel e _ _ (by omega) _ (Nat.le_refl _)

/-- induction principle for the decode loop -/
theorem decode_induction (e : Enc) (P : List Nat → Prop) (hnil : P [])
    (hstep : ∀ l, l ≠ [] → P (readChar e l).2.2 → P l) : ∀ l, P l := by
  intro l
  generalize hn : l.length = n
  induction n using Nat.strongRecOn generalizing l with
  | _ n ih =>
    by_cases h : l = []
    · subst h; exact hnil
    · exact hstep l h (ih _ (by have := readChar_rest_length e l h; omega) _ rfl)

/-! ## the WHATWG UTF-8 decoder, one scalar value / one error at a time -/

theorem step0_ascii (b : Nat) (h : b < 0x80) : utf8Step0 b = ({}, [b]) := by
  unfold utf8Step0; rw [if_pos (by omega)]
theorem step0_2 (b : Nat) (h : 0xC2 ≤ b) (h' : b < 0xE0) :
    utf8Step0 b = ({ needed := 1, cp := b % 32 }, []) := by
  unfold utf8Step0; rw [if_neg (by omega), if_pos (by omega), and1F]
theorem step0_3 (b : Nat) (h : 0xE0 ≤ b) (h' : b < 0xF0) :
    utf8Step0 b = ({ needed := 2, cp := b % 16, lower := if b = 0xE0 then 0xA0 else 0x80, upper := if b = 0xED then 0x9F else 0xBF }, []) := by
  unfold utf8Step0; rw [if_neg (by omega), if_neg (by omega), if_pos (by omega), andF]
theorem step0_4 (b : Nat) (h : 0xF0 ≤ b) (h' : b ≤ 0xF4) :
    utf8Step0 b = ({ needed := 3, cp := b - 0xF0, lower := if b = 0xF0 then 0x90 else 0x80, upper := if b = 0xF4 then 0x8F else 0xBF }, []) := by
  unfold utf8Step0
  rw [if_neg (by omega), if_neg (by omega), if_neg (by omega), if_pos (by omega), and7,
    show b % 8 = b - 0xF0 by omega]
theorem step0_bad (b : Nat) (h : (0x80 ≤ b ∧ b < 0xC2) ∨ 0xF5 ≤ b) : utf8Step0 b = ({}, [0xFFFD]) := by
  unfold utf8Step0
  rw [if_neg (by omega), if_neg (by omega), if_neg (by omega), if_neg (by omega)]

theorem aux_start (b : Nat) (bs : List Nat) :
    utf8DecodeAux {} (b :: bs) = (utf8Step0 b).2 ++ utf8DecodeAux (utf8Step0 b).1 bs := by
  simp [utf8DecodeAux, utf8Step]

theorem aux_end (st : Utf8State) (h : st.needed ≠ 0) : utf8DecodeAux st [] = [0xFFFD] := by
  simp [utf8DecodeAux, h]

theorem aux_bad (st : Utf8State) (b : Nat) (bs : List Nat) (h : st.needed ≠ 0)
    (hb : b < st.lower ∨ b > st.upper) :
    utf8DecodeAux st (b :: bs) = 0xFFFD :: utf8DecodeAux {} (b :: bs) := by
  rw [aux_start]
  simp [utf8DecodeAux, utf8Step, h, hb]

theorem aux_last (st : Utf8State) (b : Nat) (bs : List Nat) (h : st.needed ≠ 0)
    (hb : ¬(b < st.lower ∨ b > st.upper)) (hs : st.seen + 1 = st.needed) :
    utf8DecodeAux st (b :: bs) = (st.cp * 64 + b % 64) :: utf8DecodeAux {} bs := by
  simp [utf8DecodeAux, utf8Step, h, hb, hs, and3F, shl6_or _ _ (Nat.mod_lt b (by decide : 64 > 0))]

theorem aux_more (st : Utf8State) (b : Nat) (bs : List Nat) (h : st.needed ≠ 0)
    (hb : ¬(b < st.lower ∨ b > st.upper)) (hs : st.seen + 1 ≠ st.needed) :
    utf8DecodeAux st (b :: bs) =
      utf8DecodeAux { cp := st.cp * 64 + b % 64, needed := st.needed, seen := st.seen + 1 } bs := by
  simp [utf8DecodeAux, utf8Step, h, hb, hs, and3F, shl6_or _ _ (Nat.mod_lt b (by decide : 64 > 0))]

theorem range3_iff (b0 b1 : Nat) :
    (b1 < (if b0 = 0xE0 then 0xA0 else 0x80) ∨ b1 > (if b0 = 0xED then 0x9F else 0xBF)) ↔
      ¬(0x80 ≤ b1 ∧ b1 ≤ 0xBF ∧ (b0 = 0xE0 → 0xA0 ≤ b1) ∧ (b0 = 0xED → b1 ≤ 0x9F)) := by
  split <;> split <;> omega
theorem range4_iff (b0 b1 : Nat) :
    (b1 < (if b0 = 0xF0 then 0x90 else 0x80) ∨ b1 > (if b0 = 0xF4 then 0x8F else 0xBF)) ↔
      ¬(0x80 ≤ b1 ∧ b1 ≤ 0xBF ∧ (b0 = 0xF0 → 0x90 ≤ b1) ∧ (b0 = 0xF4 → b1 ≤ 0x8F)) := by
  split <;> split <;> omega

theorem utf8DecodeAux_step (l : List Nat) (h : l ≠ []) :
    utf8DecodeAux {} l =
      (if (readU8A l).1 then (readU8A l).2.1 else 0xFFFD) :: utf8DecodeAux {} (readU8A l).2.2 := by
  match l with
  | [] => contradiction
  | b0 :: r =>
    unfold readU8A
    by_cases c0 : b0 < 0x80
    · simp only [c0, if_true]
      rw [aux_start, step0_ascii b0 c0]; rfl
    · simp only [c0, if_false]
      match r with
      | [] =>
        rw [aux_start]
        by_cases cC : 0xC2 ≤ b0
        · by_cases cE : 0xE0 ≤ b0
          · by_cases cF : 0xF0 ≤ b0
            · by_cases c5 : 0xF5 ≤ b0
              · rw [step0_bad b0 (by omega)]; rfl
              · rw [step0_4 b0 (by omega) (by omega)]; rfl
            · rw [step0_3 b0 (by omega) (by omega)]; rfl
          · rw [step0_2 b0 (by omega) (by omega)]; rfl
        · rw [step0_bad b0 (by omega)]; rfl
      | b1 :: r1 =>
        simp only []
        by_cases cE : b0 ≥ 0xE0
        · simp only [cE, if_true]
          by_cases cF : b0 < 0xF0
          · simp only [cF, if_true]
            rw [aux_start, step0_3 b0 cE cF]
            simp only [List.nil_append]
            by_cases hb1 : 0x80 ≤ b1 ∧ b1 ≤ 0xBF ∧ (b0 = 0xE0 → 0xA0 ≤ b1) ∧ (b0 = 0xED → b1 ≤ 0x9F)
            · rw [if_pos hb1]
              rw [aux_more _ _ _ (by simp) (by rw [range3_iff]; simpa using hb1) (by simp)]
              match r1 with
              | [] => rw [aux_end _ (by simp)]; rfl
              | b2 :: r2 =>
                simp only []
                by_cases hb2 : 0x80 ≤ b2 ∧ b2 ≤ 0xBF
                · rw [if_pos hb2]
                  rw [aux_last _ _ _ (by simp) (by simp; omega) (by simp)]; rfl
                · rw [if_neg hb2]
                  rw [aux_bad _ _ _ (by simp) (by simp; omega)]; rfl
            · rw [if_neg hb1]
              rw [aux_bad _ _ _ (by simp) (by rw [range3_iff]; simpa using hb1)]; rfl
          · simp only [cF, if_false]
            by_cases hb1 : b0 ≤ 0xF4 ∧ 0x80 ≤ b1 ∧ b1 ≤ 0xBF ∧ (b0 = 0xF0 → 0x90 ≤ b1) ∧ (b0 = 0xF4 → b1 ≤ 0x8F)
            · rw [if_pos hb1]
              rw [aux_start, step0_4 b0 (by omega) hb1.1]
              simp only [List.nil_append]
              rw [aux_more _ _ _ (by simp) (by rw [range4_iff]; simpa using hb1.2) (by simp)]
              match r1 with
              | [] => rw [aux_end _ (by simp)]; rfl
              | b2 :: r2 =>
                simp only []
                by_cases hb2 : 0x80 ≤ b2 ∧ b2 ≤ 0xBF
                · rw [if_pos hb2]
                  rw [aux_more _ _ _ (by simp) (by simp; omega) (by simp)]
                  match r2 with
                  | [] => rw [aux_end _ (by simp)]; rfl
                  | b3 :: r3 =>
                    simp only []
                    by_cases hb3 : 0x80 ≤ b3 ∧ b3 ≤ 0xBF
                    · rw [if_pos hb3]
                      rw [aux_last _ _ _ (by simp) (by simp; omega) (by simp)]; rfl
                    · rw [if_neg hb3]
                      rw [aux_bad _ _ _ (by simp) (by simp; omega)]; rfl
                · rw [if_neg hb2]
                  rw [aux_bad _ _ _ (by simp) (by simp; omega)]; rfl
            · rw [if_neg hb1]
              rw [aux_start]
              by_cases c5 : 0xF5 ≤ b0
              · rw [step0_bad b0 (by omega)]; rfl
              · rw [step0_4 b0 (by omega) (by omega)]
                simp only [List.nil_append]
                rw [aux_bad _ _ _ (by simp) (by rw [range4_iff]; simp; omega)]; rfl
        · simp only [cE, if_false]
          by_cases cC : b0 ≥ 0xC2
          · simp only [cC, if_true]
            rw [aux_start, step0_2 b0 cC (by omega)]
            simp only [List.nil_append]
            by_cases hb1 : 0x80 ≤ b1 ∧ b1 ≤ 0xBF
            · rw [if_pos hb1]
              rw [aux_last _ _ _ (by simp) (by simp; omega) (by simp)]; rfl
            · rw [if_neg hb1]
              rw [aux_bad _ _ _ (by simp) (by simp; omega)]; rfl
          · simp only [cC, if_false]
            rw [aux_start, step0_bad b0 (by omega)]; rfl

theorem decode_u8_eq_spec (l : List Nat) : (∀ b ∈ l, b < 256) → decode .u8 l = utf8Decode l := by
  refine decode_induction .u8 (fun l => (∀ b ∈ l, b < 256) → decode .u8 l = utf8Decode l) ?_ ?_ l
  · intro _; rfl
  · intro l hne ih hl
    have hr : readChar .u8 l = readU8A l := readU8_eq_readU8A l hl
    rw [decode_step .u8 l hne, ih (fun b hb => hl b (readChar_rest_mem .u8 l hne b hb))]
    unfold utf8Decode
    rw [utf8DecodeAux_step l hne, hr]

/-! ## UTF-16 -/

theorem surr_iff (c : Nat) (h : c < 65536) : c &&& 0xFFFFF800 = 0xD800 ↔ (0xD800 ≤ c ∧ c ≤ 0xDFFF) := by
  rw [andHi11]; omega
theorem lead_iff (c : Nat) (h : 0xD800 ≤ c ∧ c ≤ 0xDFFF) : c &&& 0x400 = 0 ↔ c ≤ 0xDBFF := by
  rw [and400]; omega
theorem trail_iff (c : Nat) (h : c < 65536) : c &&& 0xFFFFFC00 = 0xDC00 ↔ (0xDC00 ≤ c ∧ c ≤ 0xDFFF) := by
  rw [andHi10]; omega

/-- `readU16` with bit tests replaced by ranges -/
def readU16A : List Nat → Bool × Nat × List Nat
  | [] => (false, 0xFFFD, [])
  | c :: r =>
    if 0xD800 ≤ c ∧ c ≤ 0xDFFF then
      if c ≤ 0xDBFF then
        match r with
        | [] => (false, 0xFFFD, [])
        | t :: r1 =>
          if 0xDC00 ≤ t ∧ t ≤ 0xDFFF then
            (true, 0x10000 + (c - 0xD800) * 0x400 + (t - 0xDC00), r1)
          else (false, 0xFFFD, t :: r1)
      else (false, 0xFFFD, r)
    else (true, c, r)

theorem readU16_eq_readU16A (l : List Nat) (hl : ∀ x ∈ l, x < 65536) : readU16 l = readU16A l := by
  match l with
  | [] => rfl
  | c :: r =>
    have hc : c < 65536 := hl c (by simp)
    simp only [readU16, readU16A]
    rw [ite_iff (surr_iff c hc)]
    by_cases h1 : 0xD800 ≤ c ∧ c ≤ 0xDFFF
    · rw [if_pos h1, if_pos h1, ite_iff (lead_iff c h1)]
      by_cases h2 : c ≤ 0xDBFF
      · rw [if_pos h2, if_pos h2]
        match r with
        | [] => rfl
        | t :: r1 =>
          have ht : t < 65536 := hl t (by simp)
          simp only []
          rw [ite_iff (trail_iff t ht)]
          by_cases h3 : 0xDC00 ≤ t ∧ t ≤ 0xDFFF
          · rw [if_pos h3, if_pos h3, shl10]
            have : c * 1024 + t - (0xD800 <<< 10 + 0xDC00 - 0x10000) =
                0x10000 + (c - 0xD800) * 0x400 + (t - 0xDC00) := by
              have : (0xD800 : Nat) <<< 10 = 0xD800 * 1024 := by decide
              rw [this]; omega
            rw [this]
          · rw [if_neg h3, if_neg h3]
      · rw [if_neg h2, if_neg h2]
    · rw [if_neg h1, if_neg h1]

theorem utf16Decode_nil : utf16Decode [] = [] := by simp [utf16Decode]
theorem utf16Decode_one (c : Nat) :
    utf16Decode [c] = [if 0xD800 ≤ c ∧ c ≤ 0xDFFF then 0xFFFD else c] := by
  simp [utf16Decode, isSurrogate]
theorem utf16Decode_two (c t : Nat) (r1 : List Nat) :
    utf16Decode (c :: t :: r1) =
      if (0xD800 ≤ c ∧ c ≤ 0xDBFF) ∧ (0xDC00 ≤ t ∧ t ≤ 0xDFFF) then
        (0x10000 + (c - 0xD800) * 0x400 + (t - 0xDC00)) :: utf16Decode r1
      else (if 0xD800 ≤ c ∧ c ≤ 0xDFFF then 0xFFFD else c) :: utf16Decode (t :: r1) := by
  rw [utf16Decode]
  simp [isSurrogate, isLeadSurrogate, isTrailSurrogate]

theorem utf16Decode_step (l : List Nat) (h : l ≠ []) :
    utf16Decode l =
      (if (readU16A l).1 then (readU16A l).2.1 else 0xFFFD) :: utf16Decode (readU16A l).2.2 := by
  match l with
  | [] => contradiction
  | [c] =>
    simp only [readU16A, utf16Decode_one]
    by_cases h1 : 0xD800 ≤ c ∧ c ≤ 0xDFFF
    · rw [if_pos h1, if_pos h1]
      by_cases h2 : c ≤ 0xDBFF
      · rw [if_pos h2]; simp [utf16Decode_nil]
      · rw [if_neg h2]; simp [utf16Decode_nil]
    · rw [if_neg h1, if_neg h1]; simp [utf16Decode_nil]
  | c :: t :: r1 =>
    simp only [readU16A]
    rw [utf16Decode_two]
    by_cases h1 : 0xD800 ≤ c ∧ c ≤ 0xDFFF
    · rw [if_pos h1, if_pos h1]
      by_cases h2 : c ≤ 0xDBFF
      · rw [if_pos h2]
        by_cases h3 : 0xDC00 ≤ t ∧ t ≤ 0xDFFF
        · rw [if_pos h3, if_pos ⟨⟨h1.1, h2⟩, h3⟩]; rfl
        · rw [if_neg h3, if_neg (fun hh => h3 hh.2)]; rfl
      · rw [if_neg h2, if_neg (fun hh => h2 hh.1.2)]; rfl
    · rw [if_neg h1, if_neg h1, if_neg (fun hh => h1 ⟨hh.1.1, by omega⟩)]; rfl

theorem decode_u16_eq_spec (l : List Nat) : (∀ u ∈ l, u < 65536) → decode .u16 l = utf16Decode l := by
  refine decode_induction .u16 (fun l => (∀ b ∈ l, b < 65536) → decode .u16 l = utf16Decode l) ?_ ?_ l
  · intro _; rw [utf16Decode_nil]; rfl
  · intro l hne ih hl
    have hr : readChar .u16 l = readU16A l := readU16_eq_readU16A l hl
    rw [decode_step .u16 l hne, ih (fun b hb => hl b (readChar_rest_mem .u16 l hne b hb))]
    rw [utf16Decode_step l hne, hr]

/-! ## UTF-32 -/

theorem decode_u32_eq_spec (l : List Nat) : decode .u32 l = utf32Decode l := by
  induction l with
  | nil => rfl
  | cons c r ih =>
    rw [decode_step .u32 (c :: r) (by simp)]
    show (if (readU32 (c :: r)).1 then (readU32 (c :: r)).2.1 else 0xFFFD) :: decode .u32 (readU32 (c :: r)).2.2 = _
    simp only [readU32, utf32Decode, List.map_cons, isSurrogate]
    rw [ih]
    simp only [utf32Decode, isSurrogate]
    congr 1
    by_cases h1 : c < 0xD800
    · simp [h1]; omega
    · by_cases h2 : c > 0xDFFF
      · by_cases h3 : c ≤ 0x10FFFF
        · simp [h1, h2, h3]; omega
        · simp [h1, h2, h3]
      · simp [h1, h2]

/-! ## encoders -/

theorem isScalar_iff (c : Nat) : isScalar c = true ↔ (c ≤ 0x10FFFF ∧ ¬(0xD800 ≤ c ∧ c ≤ 0xDFFF)) := by
  simp [isScalar, isSurrogate]; omega

theorem encodeUtf8Char_eq (c : Nat) (h : c ≤ 0x10FFFF) : encodeUtf8Char c = utf8EncodeChar c := by
  unfold encodeUtf8Char utf8EncodeChar
  simp only [and3F, shr6, shr12, shr18]
  split
  · rfl
  · split
    · rw [orC0 _ (by omega), or80 _ (by omega)]; simp only [Nat.add_comm]
    · split
      · rw [orE0 _ (by omega), or80 _ (by omega), or80 _ (by omega)]; simp only [Nat.add_comm]
      · rw [orF0 _ (by omega), or80 _ (by omega), or80 _ (by omega), or80 _ (by omega)]
        rw [Nat.mod_eq_of_lt (by omega)]; simp only [Nat.add_comm]

theorem encodeUtf16Char_eq (c : Nat) (h : c ≤ 0x10FFFF) : encodeUtf16Char c = utf16EncodeChar c := by
  unfold encodeUtf16Char utf16EncodeChar
  simp only [and3FF, shr10]
  split
  · rfl
  · rw [orDC00 _ (by omega)]
    have h1 : (c / 1024 + 0xD7C0) % 65536 = 0xD800 + (c - 0x10000) / 0x400 := by omega
    have h2 : c % 1024 + 0xDC00 = 0xDC00 + (c - 0x10000) % 0x400 := by omega
    rw [h1, h2]

theorem encodeUtf8_eq (s : List Nat) (h : ∀ c ∈ s, isScalar c = true) : encodeUtf8 s = utf8Encode s := by
  unfold encodeUtf8 utf8Encode
  induction s with
  | nil => simp
  | cons c s ih =>
    have hc := ((isScalar_iff c).1 (h c List.mem_cons_self)).1
    simp only [List.flatMap_cons]
    rw [ih (fun x hx => h x (List.mem_cons_of_mem _ hx)), encodeUtf8Char_eq c hc]

theorem encodeUtf16_eq (s : List Nat) (h : ∀ c ∈ s, isScalar c = true) : encodeUtf16 s = utf16Encode s := by
  unfold encodeUtf16 utf16Encode
  induction s with
  | nil => simp
  | cons c s ih =>
    have hc := ((isScalar_iff c).1 (h c List.mem_cons_self)).1
    simp only [List.flatMap_cons]
    rw [ih (fun x hx => h x (List.mem_cons_of_mem _ hx)), encodeUtf16Char_eq c hc]

theorem encode_eq (e : Enc) (s : List Nat) (h : ∀ c ∈ s, isScalar c = true) :
    Impl.encode e s = Spec.encode e s := by
  cases e
  · exact encodeUtf8_eq s h
  · exact encodeUtf16_eq s h
  · rfl

/-! ## reading back one encoded scalar value -/

theorem readU8A_encode (c : Nat) (rest : List Nat) (h : isScalar c = true) :
    readU8A (utf8EncodeChar c ++ rest) = (true, c, rest) := by
  rw [isScalar_iff] at h
  unfold utf8EncodeChar
  split
  · simp only [List.cons_append, List.nil_append, readU8A]
    rw [if_pos (by omega)]
  · split
    · simp only [List.cons_append, List.nil_append, readU8A]
      rw [if_neg (by omega), if_neg (by omega), if_pos (by omega), if_pos (by omega)]
      congr 2; omega
    · split
      · simp only [List.cons_append, List.nil_append, readU8A]
        rw [if_neg (by omega), if_pos (by omega), if_pos (by omega), if_pos (by omega), if_pos (by omega)]
        congr 2; omega
      · simp only [List.cons_append, List.nil_append, readU8A]
        rw [if_neg (by omega), if_pos (by omega), if_neg (by omega), if_pos (by omega), if_pos (by omega),
          if_pos (by omega)]
        congr 2; omega

theorem utf8EncodeChar_lt (c : Nat) (h : c ≤ 0x10FFFF) : ∀ x ∈ utf8EncodeChar c, x < 256 := by
  unfold utf8EncodeChar
  intro x hx
  repeat' split at hx
  all_goals simp only [List.mem_cons, List.not_mem_nil, or_false] at hx
  all_goals omega

/-! ## `read_code_point` only looks at the code units it consumes -/

/-- the lead3 table test of `readU8` -/
def t3ok (b0 b1 : Nat) : Prop := (lead3T1Bits.getD (b0 &&& 0xF) 0) &&& (1 <<< (b1 >>> 5)) ≠ 0
/-- the lead4 table test of `readU8` -/
def t4ok (b0 b1 : Nat) : Prop :=
  b0 - 0xF0 ≤ 4 ∧ (lead4T1Bits.getD (b1 >>> 4) 0) &&& (1 <<< (b0 - 0xF0)) ≠ 0
/-- the trail byte test of `readU8` -/
def trailOk (b : Nat) : Prop := subByte80 b ≤ 0x3F
instance (b0 b1 : Nat) : Decidable (t3ok b0 b1) :=
  inferInstanceAs (Decidable ((lead3T1Bits.getD (b0 &&& 0xF) 0) &&& (1 <<< (b1 >>> 5)) ≠ 0))
instance (b0 b1 : Nat) : Decidable (t4ok b0 b1) :=
  inferInstanceAs (Decidable (b0 - 0xF0 ≤ 4 ∧ (lead4T1Bits.getD (b1 >>> 4) 0) &&& (1 <<< (b0 - 0xF0)) ≠ 0))
instance (b : Nat) : Decidable (trailOk b) := inferInstanceAs (Decidable (subByte80 b ≤ 0x3F))

theorem readU8_ascii (b0 : Nat) (r : List Nat) (h : b0 < 0x80) : readU8 (b0 :: r) = (true, b0, r) := by
  simp only [readU8, h, if_true]
theorem readU8_one (b0 : Nat) (h : ¬ b0 < 0x80) : readU8 [b0] = (false, 0xFFFD, []) := by
  simp only [readU8, h, if_false]
theorem readU8_2 (b0 b1 : Nat) (r1 : List Nat) (h : ¬ b0 < 0x80) (hE : ¬ b0 ≥ 0xE0) :
    readU8 (b0 :: b1 :: r1) =
      if b0 ≥ 0xC2 then
        if trailOk b1 then (true, ((b0 &&& 0x1F) <<< 6) ||| subByte80 b1, r1) else (false, 0xFFFD, b1 :: r1)
      else (false, 0xFFFD, b1 :: r1) := by
  simp only [readU8, h, hE, if_false, trailOk]
  rfl
theorem readU8_3 (b0 b1 : Nat) (r1 : List Nat) (hE : b0 ≥ 0xE0) (hF : b0 < 0xF0) :
    readU8 (b0 :: b1 :: r1) =
      if t3ok b0 b1 then
        match r1 with
        | [] => (false, 0xFFFD, [])
        | b2 :: r2 =>
          if trailOk b2 then (true, ((((b0 &&& 0xF) <<< 6) ||| (b1 &&& 0x3F)) <<< 6) ||| subByte80 b2, r2)
          else (false, 0xFFFD, b2 :: r2)
      else (false, 0xFFFD, b1 :: r1) := by
  have h : ¬ b0 < 0x80 := by omega
  simp only [readU8, h, hE, hF, if_false, if_true, trailOk, t3ok]
  rfl
theorem readU8_4 (b0 b1 : Nat) (r1 : List Nat) (hF : ¬ b0 < 0xF0) :
    readU8 (b0 :: b1 :: r1) =
      if t4ok b0 b1 then
        match r1 with
        | [] => (false, 0xFFFD, [])
        | b2 :: r2 =>
          if trailOk b2 then
            match r2 with
            | [] => (false, 0xFFFD, [])
            | b3 :: r3 =>
              if trailOk b3 then
                (true, ((((((b0 - 0xF0) <<< 6) ||| (b1 &&& 0x3F)) <<< 6) ||| subByte80 b2) <<< 6) ||| subByte80 b3, r3)
              else (false, 0xFFFD, b3 :: r3)
          else (false, 0xFFFD, b2 :: r2)
      else (false, 0xFFFD, b1 :: r1) := by
  have h : ¬ b0 < 0x80 := by omega
  have hE : b0 ≥ 0xE0 := by omega
  simp only [readU8, h, hE, hF, if_false, if_true, trailOk, t4ok]
  rfl

/-- code units < 0x80 are never accepted as a trail byte -/
theorem lead3_ascii : ∀ k, k < 16 → ∀ c, c < 128 →
    (lead3T1Bits.getD k 0) &&& (1 <<< (c >>> 5)) = 0 := by decide +kernel
theorem lead4_ascii : ∀ c, c < 128 → lead4T1Bits.getD (c >>> 4) 0 = 0 := by decide +kernel

theorem not_t3ok_ascii (b0 c : Nat) (hc : c < 0x80) : ¬ t3ok b0 c := by
  unfold t3ok
  have := lead3_ascii (b0 &&& 0xF) (by rw [andF]; omega) c hc
  exact fun h => h this
theorem not_t4ok_ascii (b0 c : Nat) (hc : c < 0x80) : ¬ t4ok b0 c := by
  unfold t4ok
  rw [lead4_ascii c hc]
  simp
theorem not_trailOk_ascii (c : Nat) (hc : c < 0x80) : ¬ trailOk c := by
  unfold trailOk subByte80; omega

/-- Appending `x` after `a` does not change what `readU8` reads from `a`, provided the read did not
    run off the end of `a` (it succeeded) or `x` starts with an ASCII unit (which ends any sequence). -/
theorem readU8_append (a x : List Nat) (ha : a ≠ [])
    (hx : (readU8 a).1 = true ∨ ∃ c b, x = c :: b ∧ c < 0x80) :
    readU8 (a ++ x) = ((readU8 a).1, (readU8 a).2.1, (readU8 a).2.2 ++ x) := by
  match a with
  | [] => contradiction
  | b0 :: r =>
    by_cases c0 : b0 < 0x80
    · rw [List.cons_append, readU8_ascii _ _ c0, readU8_ascii _ _ c0]
    · match r with
      | [] =>
        rw [readU8_one b0 c0] at hx ⊢
        rcases hx with h | ⟨c, b, rfl, hc⟩
        · simp at h
        · show readU8 (b0 :: c :: b) = _
          by_cases hE : b0 ≥ 0xE0
          · by_cases hF : b0 < 0xF0
            · rw [readU8_3 _ _ _ hE hF, if_neg (not_t3ok_ascii b0 c hc)]; rfl
            · rw [readU8_4 _ _ _ hF, if_neg (not_t4ok_ascii b0 c hc)]; rfl
          · rw [readU8_2 _ _ _ c0 hE]
            by_cases hC : b0 ≥ 0xC2
            · rw [if_pos hC, if_neg (not_trailOk_ascii c hc)]; rfl
            · rw [if_neg hC]; rfl
      | b1 :: r1 =>
        show readU8 (b0 :: b1 :: (r1 ++ x)) = _
        by_cases hE : b0 ≥ 0xE0
        · by_cases hF : b0 < 0xF0
          · rw [readU8_3 _ _ _ hE hF] at hx ⊢
            rw [readU8_3 _ _ _ hE hF]
            by_cases h1 : t3ok b0 b1
            · rw [if_pos h1] at hx ⊢
              rw [if_pos h1]
              cases r1 with
              | nil =>
                rcases hx with h | ⟨c, b, rfl, hc⟩
                · simp at h
                · simp only [List.nil_append, if_neg (not_trailOk_ascii c hc)]
              | cons b2 r2 =>
                show (if trailOk b2 then _ else _) = _
                by_cases h2 : trailOk b2
                · rw [if_pos h2]; simp only [if_pos h2]; rfl
                · rw [if_neg h2]; simp only [if_neg h2]; rfl
            · rw [if_neg h1, if_neg h1]; rfl
          · rw [readU8_4 _ _ _ hF] at hx ⊢
            rw [readU8_4 _ _ _ hF]
            by_cases h1 : t4ok b0 b1
            · rw [if_pos h1] at hx ⊢
              rw [if_pos h1]
              cases r1 with
              | nil =>
                rcases hx with h | ⟨c, b, rfl, hc⟩
                · simp at h
                · simp only [List.nil_append, if_neg (not_trailOk_ascii c hc)]
              | cons b2 r2 =>
                show (if trailOk b2 then _ else _) = _
                by_cases h2 : trailOk b2
                · rw [if_pos h2]
                  simp only [if_pos h2] at hx ⊢
                  cases r2 with
                  | nil =>
                    rcases hx with h | ⟨c, b, rfl, hc⟩
                    · simp at h
                    · show (if trailOk c then _ else _) = _
                      rw [if_neg (not_trailOk_ascii c hc)]; rfl
                  | cons b3 r3 =>
                    show (if trailOk b3 then _ else _) = _
                    by_cases h3 : trailOk b3
                    · rw [if_pos h3]; simp only [if_pos h3]; rfl
                    · rw [if_neg h3]; simp only [if_neg h3]; rfl
                · rw [if_neg h2]; simp only [if_neg h2]; rfl
            · rw [if_neg h1, if_neg h1]; rfl
        · rw [readU8_2 _ _ _ c0 hE, readU8_2 _ _ _ c0 hE]
          by_cases hC : b0 ≥ 0xC2
          · rw [if_pos hC, if_pos hC]
            by_cases h1 : trailOk b1
            · rw [if_pos h1, if_pos h1]
            · rw [if_neg h1, if_neg h1]; rfl
          · rw [if_neg hC, if_neg hC]; rfl

theorem readU16_append (a x : List Nat) (ha : a ≠ [])
    (hx : (readU16 a).1 = true ∨ ∃ c b, x = c :: b ∧ c < 0x80) :
    readU16 (a ++ x) = ((readU16 a).1, (readU16 a).2.1, (readU16 a).2.2 ++ x) := by
  match a with
  | [] => contradiction
  | u :: r =>
    rw [List.cons_append]
    simp only [readU16] at hx ⊢
    by_cases h1 : u &&& 0xFFFFF800 = 0xD800
    · rw [if_pos h1] at hx ⊢
      rw [if_pos h1]
      by_cases h2 : u &&& 0x400 = 0
      · rw [if_pos h2] at hx ⊢
        rw [if_pos h2]
        cases r with
        | nil =>
          rcases hx with h | ⟨c, b, rfl, hc⟩
          · simp at h
          · have : ¬ (c &&& 0xFFFFFC00 = 0xDC00) := by
              have := Nat.and_le_left (n := c) (m := 0xFFFFFC00); omega
            simp only [List.nil_append, if_neg this]
        | cons t r1 =>
          simp only [List.cons_append]
          by_cases h3 : t &&& 0xFFFFFC00 = 0xDC00
          · simp only [if_pos h3]
          · simp only [if_neg h3, List.cons_append]
      · rw [if_neg h2, if_neg h2]
    · rw [if_neg h1, if_neg h1]

theorem readU32_append (a x : List Nat) (ha : a ≠ []) :
    readU32 (a ++ x) = ((readU32 a).1, (readU32 a).2.1, (readU32 a).2.2 ++ x) := by
  match a with
  | [] => contradiction
  | u :: r => simp [readU32]

theorem readChar_append (e : Enc) (a x : List Nat) (ha : a ≠ [])
    (hx : (readChar e a).1 = true ∨ ∃ c b, x = c :: b ∧ c < 0x80) :
    readChar e (a ++ x) = ((readChar e a).1, (readChar e a).2.1, (readChar e a).2.2 ++ x) := by
  cases e
  · exact readU8_append a x ha hx
  · exact readU16_append a x ha hx
  · exact readU32_append a x ha

/-- an ASCII code unit is read as itself in every encoding -/
theorem readChar_ascii (e : Enc) (c : Nat) (b : List Nat) (hc : c < 0x80) :
    readChar e (c :: b) = (true, c, b) := by
  cases e
  · exact readU8_ascii c b hc
  · show readU16 (c :: b) = _
    have : ¬ (c &&& 0xFFFFF800 = 0xD800) := by
      have := Nat.and_le_left (n := c) (m := 0xFFFFF800); omega
    simp only [readU16, if_neg this]
  · show readU32 (c :: b) = _
    simp only [readU32]
    have : c < 0xD800 := by omega
    simp [this]

/-- C10 (6): decoding distributes over an ASCII delimiter -/
theorem decode_ascii_split (e : Enc) (b : List Nat) (c : Nat) (hc : c < 0x80) (a : List Nat) :
    decode e (a ++ c :: b) = decode e a ++ c :: decode e b := by
  refine decode_induction e (fun a => decode e (a ++ c :: b) = decode e a ++ c :: decode e b) ?_ ?_ a
  · rw [List.nil_append, decode_step e (c :: b) (by simp), readChar_ascii e c b hc]
    rfl
  · intro a hne ih
    rw [decode_step e (a ++ c :: b) (by simp), decode_step e a hne,
      readChar_append e a (c :: b) hne (Or.inr ⟨c, b, rfl, hc⟩)]
    simp only [List.cons_append]
    rw [ih]

/-! ## round trip -/

theorem readU8_encode (c : Nat) (rest : List Nat) (h : isScalar c = true) :
    readU8 (utf8EncodeChar c ++ rest) = (true, c, rest) := by
  have hb := utf8EncodeChar_lt c ((isScalar_iff c).1 h).1
  have h1 : readU8 (utf8EncodeChar c) = (true, c, []) := by
    rw [readU8_eq_readU8A _ hb]
    have := readU8A_encode c [] h
    rwa [List.append_nil] at this
  have hne : utf8EncodeChar c ≠ [] := by
    unfold utf8EncodeChar; repeat' split
    all_goals simp
  rw [readU8_append _ _ hne (Or.inl (by rw [h1])), h1]
  rfl

theorem readU16_encode (c : Nat) (rest : List Nat) (h : isScalar c = true) :
    readU16 (utf16EncodeChar c ++ rest) = (true, c, rest) := by
  rw [isScalar_iff] at h
  have hb : ∀ x ∈ utf16EncodeChar c, x < 65536 := by
    unfold utf16EncodeChar
    intro x hx
    split at hx
    all_goals simp only [List.mem_cons, List.not_mem_nil, or_false] at hx
    all_goals omega
  have h1 : readU16 (utf16EncodeChar c) = (true, c, []) := by
    rw [readU16_eq_readU16A _ hb]
    unfold utf16EncodeChar
    split
    · simp only [readU16A]; rw [if_neg (by omega)]
    · simp only [readU16A]
      rw [if_pos (by omega), if_pos (by omega), if_pos (by omega)]
      have : 0x10000 + (0xD800 + (c - 0x10000) / 0x400 - 0xD800) * 0x400 +
          (0xDC00 + (c - 0x10000) % 0x400 - 0xDC00) = c := by omega
      rw [this]
  have hne : utf16EncodeChar c ≠ [] := by
    unfold utf16EncodeChar; split
    all_goals simp
  rw [readU16_append _ _ hne (Or.inl (by rw [h1])), h1]
  rfl

theorem readU32_encode (c : Nat) (rest : List Nat) (h : isScalar c = true) :
    readU32 (c :: rest) = (true, c, rest) := by
  rw [isScalar_iff] at h
  simp only [readU32]
  by_cases h1 : c < 0xD800
  · simp [h1]
  · have h2 : c > 0xDFFF := by omega
    simp [h1, h2, h.1]

theorem decode_encode (e : Enc) (s : List Nat) (h : ∀ c ∈ s, isScalar c = true) :
    decode e (Spec.encode e s) = s := by
  induction s with
  | nil => cases e <;> rfl
  | cons c s ih =>
    have hc := h c List.mem_cons_self
    have ih' := ih (fun x hx => h x (List.mem_cons_of_mem _ hx))
    cases e
    · show decode .u8 (utf8Encode (c :: s)) = _
      have hne : utf8Encode (c :: s) ≠ [] := by
        simp only [utf8Encode, List.flatMap_cons]
        have : utf8EncodeChar c ≠ [] := by
          unfold utf8EncodeChar; repeat' split
          all_goals simp
        simp [this]
      rw [decode_step _ _ hne]
      simp only [utf8Encode, List.flatMap_cons, readChar]
      rw [readU8_encode c _ hc]
      simp only [if_true]
      exact congrArg _ ih'
    · show decode .u16 (utf16Encode (c :: s)) = _
      have hne : utf16Encode (c :: s) ≠ [] := by
        simp only [utf16Encode, List.flatMap_cons]
        have : utf16EncodeChar c ≠ [] := by
          unfold utf16EncodeChar; split
          all_goals simp
        simp [this]
      rw [decode_step _ _ hne]
      simp only [utf16Encode, List.flatMap_cons, readChar]
      rw [readU16_encode c _ hc]
      simp only [if_true]
      exact congrArg _ ih'
    · show decode .u32 (c :: s) = _
      rw [decode_step _ _ (by simp)]
      have : readChar .u32 (c :: s) = (true, c, s) := readU32_encode c s hc
      rw [this]
      simp only [if_true]
      exact congrArg _ ih'

/-! ## decoder output is scalar values -/

theorem readU8A_scalar (l : List Nat) : (readU8A l).1 = true → isScalar (readU8A l).2.1 = true := by
  fun_cases readU8A l
  all_goals first
    | (intro h; simp at h; done)
    | (intro _; simp only [isScalar_iff]; omega)

theorem decode_u8_scalar (b : List Nat) : (∀ x ∈ b, x < 256) → ∀ c ∈ decode .u8 b, isScalar c = true := by
  refine decode_induction .u8
    (fun b => (∀ x ∈ b, x < 256) → ∀ c ∈ decode .u8 b, isScalar c = true) ?_ ?_ b
  · intro _ c hc; simp [decode_nil] at hc
  · intro l hne ih hl c hc
    have hr : readChar .u8 l = readU8A l := readU8_eq_readU8A l hl
    rw [decode_step .u8 l hne, List.mem_cons] at hc
    rcases hc with hc | hc
    · rw [hc, hr]
      by_cases hok : (readU8A l).1 = true
      · rw [if_pos hok]; exact readU8A_scalar l hok
      · rw [if_neg hok]; decide
    · exact ih (fun x hx => hl x (readChar_rest_mem .u8 l hne x hx)) c hc

/-! ## check_fix_utf8 -/

theorem utf8Encode_lt (s : List Nat) (h : ∀ c ∈ s, isScalar c = true) : ∀ x ∈ utf8Encode s, x < 256 := by
  intro x hx
  simp only [utf8Encode, List.mem_flatMap] at hx
  obtain ⟨c, hc, hx⟩ := hx
  exact utf8EncodeChar_lt c ((isScalar_iff c).1 (h c hc)).1 x hx

theorem checkFix_idem (b : List Nat) (hb : ∀ x ∈ b, x < 256) :
    checkFixUtf8 (checkFixUtf8 b) = checkFixUtf8 b := by
  unfold checkFixUtf8
  have hs := decode_u8_scalar b hb
  rw [encodeUtf8_eq _ hs]
  have := decode_encode .u8 _ hs
  simp only [Spec.encode] at this
  rw [this, encodeUtf8_eq _ hs]

theorem checkFix_wf (s : List Nat) (hs : ∀ c ∈ s, isScalar c = true) :
    checkFixUtf8 (utf8Encode s) = utf8Encode s := by
  unfold checkFixUtf8
  have := decode_encode .u8 _ hs
  simp only [Spec.encode] at this
  rw [this, encodeUtf8_eq _ hs]

end Upa.Impl
