import Upa.Props.C01c
import Upa.Props.C02b
import Upa.Props.C08
/-
  Helper lemmas for Props/Observables.lean (the properties restated over the Standard's serializer and
  getter steps of `Spec/Serializer.lean`).

  * `pathText_ascii`, `hostOk_printable`, `canon_*` : alphabets of the components of a canonical record
    (`Impl.Canon`, C08), for the restatement of C08 over the Standard's getters.
  * `normP_serialize_ascii` : every element of the href of a normal-form URL is in 0x20..0x7E — the
    side condition `UnitsOk .u8 href` of the bridge `C01_parse_conforms` (Impl.parse = Spec.apiParse).
-/
namespace Upa.Proofs.Obs
open Upa Upa.Proofs.C02

private theorem pr_range {c : Nat} (h : Pr c) : 0x20 ≤ c ∧ c < 0x7F := by
  unfold Pr at h; omega

/-- the href of a URL in normal form (C02) is printable ASCII or space -/
theorem normP_serialize_ascii {idna : Idna} {u : Url} (hN : NormP idna u) :
    ∀ c ∈ Impl.serialize u, 0x20 ≤ c ∧ c < 0x7F := by
  obtain ⟨s, un, pw, host, p, b, op, pa, q, f⟩ := u
  obtain ⟨hOp, hList, _, _, _, _⟩ := hN.shape
  have hs : schemeOk s = true := hN.scheme
  have hun : userinfoOk un = true := hN.user
  have hpw : userinfoOk pw = true := hN.pass
  have hq : qOk (Impl.isSpecialScheme s) q = true := hN.query
  have hf : fOk f = true := hN.frag
  have hsegs : ∀ seg ∈ pa, segOk (Impl.isSpecialScheme s) seg = true := hN.segs
  have hsch : ∀ c ∈ s, Pr c := pr_scheme hs
  cases host with
  | none =>
    cases b with
    | true =>
      have hoo : opaqueOk op (q.isNone && f.isNone) = true := hN.opq rfl
      simp only [opaqueOk, Bool.and_eq_true, List.all_eq_true] at hoo
      obtain ⟨⟨hop, _⟩, _⟩ := hoo
      rw [ser_opaque]
      intro c hc
      simp only [List.mem_append, List.mem_cons] at hc
      rcases hc with hc | rfl | hc | hc
      · exact pr_range (hsch c hc)
      · exact ⟨by decide, by decide⟩
      · have := opaqueCharOk_facts (hop c hc); omega
      · exact pr_range (pr_qf hq hf c hc)
    | false =>
      rw [ser_list]
      intro c hc
      simp only [List.mem_append, List.mem_cons] at hc
      rcases hc with hc | rfl | hc | hc | hc
      · exact pr_range (hsch c hc)
      · exact ⟨by decide, by decide⟩
      · split at hc
        · simp only [List.mem_cons] at hc
          rcases hc with rfl | rfl | hc
          · exact ⟨by decide, by decide⟩
          · exact ⟨by decide, by decide⟩
          · simp at hc
        · simp at hc
      · exact pr_range (pr_path hsegs c hc)
      · exact pr_range (pr_qf hq hf c hc)
  | some h =>
    cases b with
    | true => exact absurd (hOp rfl).1 (by simp)
    | false =>
      have hop : op = [] := hList rfl
      subst hop
      obtain ⟨hto, _⟩ := hN.host h rfl
      have hto' : hostTextOk (Impl.isSpecialScheme s) (Impl.isFileScheme s) h.text = true := hto
      simp only [hostTextOk, Bool.and_eq_true, List.all_eq_true] at hto'
      obtain ⟨⟨hch, _⟩, _⟩ := hto'
      rw [ser_host]
      intro c hc
      simp only [List.mem_cons, List.mem_append] at hc
      rcases hc with hc | rfl | rfl | rfl | ((hc | hc) | hc) | hc | hc
      · exact pr_range (hsch c hc)
      · exact ⟨by decide, by decide⟩
      · exact ⟨by decide, by decide⟩
      · exact ⟨by decide, by decide⟩
      · exact pr_range (pr_cred hun hpw c hc)
      · exact pr_range (pr_host hch c hc)
      · exact pr_range (pr_port p c hc)
      · exact pr_range (pr_path hsegs c hc)
      · exact pr_range (pr_qf hq hf c hc)

/-- the path text of a record whose path satisfies the path clauses of `Norm` / `NormX` -/
theorem pathText_ascii {u : Url} (hsegs : ∀ seg ∈ u.path, segOk u.isSpecial seg = true)
    (hopq : u.hasOpaquePath = true → opaqueOk u.opaquePath (u.query.isNone && u.fragment.isNone) = true) :
    ∀ c ∈ Impl.pathText u, 0x20 ≤ c ∧ c < 0x7F := by
  intro c hc
  unfold Impl.pathText at hc
  split at hc
  · rename_i ho
    have hoo := hopq ho
    simp only [opaqueOk, Bool.and_eq_true, List.all_eq_true] at hoo
    have := opaqueCharOk_facts (hoo.1.1 c hc); omega
  · exact pr_range (pr_path hsegs c hc)

/-! ### canonical records (C08) -/

open Upa.Impl (isPrintable Canon hostOk)
open Upa.Proofs.C08 (canon_iff AuthOk PathOk QueryOk FragOk segChar queryChar opaqueChar)

theorem printable_iff {c : Nat} : isPrintable c = true ↔ 0x21 ≤ c ∧ c ≤ 0x7E := by
  simp [isPrintable]

theorem schemeOk_printable {s : List Nat} (h : Impl.schemeOk s = true) : ∀ c ∈ s, isPrintable c = true := by
  cases s with
  | nil => simp
  | cons a r =>
    simp only [Impl.schemeOk, Bool.and_eq_true, List.all_eq_true, Impl.isLowerAlpha, isDigit, Bool.or_eq_true,
      decide_eq_true_eq, beq_iff_eq] at h
    intro c hc
    rw [printable_iff]
    rcases List.mem_cons.1 hc with rfl | hc
    · omega
    · have := h.2 c hc; omega

theorem userinfoOk_printable {s : List Nat} (h : Impl.userinfoOk s = true) : ∀ c ∈ s, isPrintable c = true := by
  intro c hc
  simp only [Impl.userinfoOk, List.all_eq_true, Bool.and_eq_true] at h
  exact (h c hc).1.1.1.1.1

theorem toDecimal_printable (p : Nat) : ∀ c ∈ toDecimal p, isPrintable c = true := by
  intro c hc
  have := pr_port (some p) c (by simp [portText, hc])
  rw [printable_iff]; unfold Pr at this; omega

private theorem domain_tbl : ∀ c, c < 128 → Spec.forbiddenDomain c = false → isPrintable c = true := by
  decide +kernel

theorem hostOk_printable {h : Host} (hh : hostOk h = true) : ∀ c ∈ h.text, isPrintable c = true := by
  obtain ⟨k, t⟩ := h
  intro c hc
  cases k with
  | empty => simp [hostOk] at hh; subst hh; simp at hc
  | domain =>
    simp only [hostOk, Bool.and_eq_true, List.all_eq_true, Bool.not_eq_true', decide_eq_true_eq] at hh
    have := hh.2 c hc
    exact domain_tbl c this.2 this.1.1
  | ipv4 =>
    simp only [hostOk, Bool.and_eq_true, List.all_eq_true, isDigit, Bool.or_eq_true, decide_eq_true_eq,
      beq_iff_eq] at hh
    have := hh.2 c hc
    rw [printable_iff]; omega
  | ipv6 =>
    simp only [hostOk, Bool.and_eq_true, List.all_eq_true, isDigit, Bool.or_eq_true, decide_eq_true_eq,
      beq_iff_eq] at hh
    obtain ⟨⟨h1, h2⟩, h3⟩ := hh
    cases t with
    | nil => simp at hc
    | cons a r =>
      simp only [List.head?_cons, Option.some.injEq] at h1
      rw [printable_iff]
      rcases List.mem_cons.1 hc with rfl | hc
      · omega
      · rcases List.eq_nil_or_concat r with rfl | ⟨L, b, rfl⟩
        · simp at hc
        · rw [List.concat_eq_append] at hc h2 h3
          rw [← List.cons_append, List.getLast?_concat] at h2
          simp at h2 h3
          rcases List.mem_append.1 hc with hc | hc
          · have := h3 c hc; omega
          · simp at hc; omega
  | _ =>
    simp only [hostOk, Bool.and_eq_true, List.all_eq_true] at hh
    exact (hh.2 c hc).1

/-- canonical ⇒ the path text is printable ASCII, or U+0020 inside an opaque path; no `?`, no `#` -/
theorem canon_pathText {u : Url} (hp : PathOk u) :
    ∀ c ∈ Impl.pathText u,
      (isPrintable c = true ∨ (c = 0x20 ∧ u.hasOpaquePath = true)) ∧ c ≠ 0x3F ∧ c ≠ 0x23 := by
  intro c hc
  unfold Impl.pathText at hc
  split at hc
  · rename_i ho
    have := List.all_eq_true.1 (hp.opq ho).1 c hc
    simp only [opaqueChar, Bool.and_eq_true, Bool.or_eq_true, beq_iff_eq, bne_iff_ne, ne_eq] at this
    exact ⟨this.1.1.imp id (fun h => ⟨h, ho⟩), this.1.2, this.2⟩
  · rename_i ho
    simp only [List.mem_flatMap, List.mem_cons] at hc
    obtain ⟨seg, hseg, hc | hc⟩ := hc
    · subst hc; exact ⟨.inl (by decide), by decide, by decide⟩
    · have := List.all_eq_true.1 ((hp.lst (by simpa using ho)).2 seg hseg) c hc
      simp only [segChar, Bool.and_eq_true, bne_iff_ne, ne_eq] at this
      exact ⟨.inl this.1.1.1, this.1.1.2, this.1.2⟩

theorem canon_query {u : Url} (hq : QueryOk u) (q : List Nat) (h : u.query = some q) :
    ∀ c ∈ q, isPrintable c = true ∧ c ≠ 0x23 ∧ (u.isSpecial = true → c ≠ 0x27) := by
  intro c hc
  have := List.all_eq_true.1 (hq q h) c hc
  simp only [queryChar, Bool.and_eq_true, Bool.or_eq_true, bne_iff_ne, ne_eq, Bool.not_eq_true'] at this
  refine ⟨this.1.1, this.1.2, fun hs => ?_⟩
  rcases this.2 with h2 | h2
  · exact h2
  · rw [hs] at h2; cases h2

/-- canonical ⇒ the serialization (with or without fragment) is printable ASCII, U+0020 possible only
    inside an opaque path -/
theorem canon_serialize {u : Url} (h : Canon u = true) (ex : Bool) :
    ∀ c ∈ Impl.serialize u ex,
      isPrintable c = true ∨ (c = 0x20 ∧ u.hasOpaquePath = true ∧ c ∈ Impl.pathText u) := by
  obtain ⟨ha, hp, hq, hf⟩ := (canon_iff u).1 h
  have hsch := schemeOk_printable ha.scheme
  have hun := userinfoOk_printable ha.user
  have hpw := userinfoOk_printable ha.pass
  intro c hc
  unfold Impl.serialize at hc
  simp only [List.mem_append, List.mem_cons, List.not_mem_nil, or_false] at hc
  rcases hc with (((((hc | hc) | hc) | hc) | hc) | hc) | hc
  · exact .inl (hsch c hc)
  · subst hc; exact .inl (by decide)
  · left
    split at hc
    · rename_i x hx
      have hho := hostOk_printable (ha.host x hx)
      simp only [List.mem_append, List.mem_cons, List.not_mem_nil, or_false] at hc
      rcases hc with (((hc | hc) | hc) | hc) | hc
      · subst hc; decide
      · subst hc; decide
      · split at hc
        · simp only [List.mem_append, List.mem_cons, List.not_mem_nil, or_false] at hc
          rcases hc with (hc | hc) | hc
          · exact hun c hc
          · split at hc
            · rcases List.mem_cons.1 hc with rfl | hc
              · decide
              · exact hpw c hc
            · simp at hc
          · subst hc; decide
        · simp at hc
      · exact hho c hc
      · split at hc
        · rcases List.mem_cons.1 hc with rfl | hc
          · decide
          · exact toDecimal_printable _ c hc
        · simp at hc
    · simp at hc
  · left
    split at hc
    · simp only [List.mem_cons, List.not_mem_nil, or_false] at hc
      rcases hc with rfl | rfl <;> decide
    · simp at hc
  · have := (canon_pathText hp c hc).1
    rcases this with h1 | ⟨h1, h2⟩
    · exact .inl h1
    · exact .inr ⟨h1, h2, hc⟩
  · left
    split at hc
    · rename_i q hq'
      rcases List.mem_cons.1 hc with rfl | hc
      · decide
      · exact (canon_query hq q hq' c hc).1
    · simp at hc
  · left
    split at hc
    · simp at hc
    · split at hc
      · rename_i f hf'
        rcases List.mem_cons.1 hc with rfl | hc
        · decide
        · exact List.all_eq_true.1 (hf f hf') c hc
      · simp at hc

/-- canonical ⇒ null host has no port, and the path text is a byte string: the side conditions of `C01_origin` -/
theorem canon_origin_hyps {u : Url} (h : Canon u = true) :
    (u.host = none → u.port = none) ∧ (∀ x ∈ Impl.pathText u, x < 256) := by
  obtain ⟨ha, hp, _, _⟩ := (canon_iff u).1 h
  refine ⟨fun hn => (ha.noCred (Or.inl (by simp [Url.hostText, hn]))).2.2, fun x hx => ?_⟩
  have := (canon_pathText hp x hx).1
  rcases this with h1 | ⟨h1, _⟩
  · rw [printable_iff] at h1; omega
  · omega

end Upa.Proofs.Obs
