import Upa.Impl.Percent
import Upa.Spec.Percent
import Upa.Proofs.Utf
/-
  Helper lemmas for C14 (percent_encode / percent_decode; include/upa/url_percent_encode.h:449-547).
  Part 1: the encode loop (per-character equality with the Standard's UTF-8 percent-encode, the output
          alphabet `PctWord`, idempotence).
  Part 2: the decode loop as a clean state machine (step lemmas), the Standard's string percent-decode
          one scalar value at a time, "a well-formed sequence ends every pending ill-formed one"
          (`decode_scalar_split`), and the main simulation `aux_eq`.
-/
namespace Upa.Proofs.C14

/-! ## hex digits -/

/-- upper-case hex digit `0-9A-F` -/
def isUpperHex (c : Nat) : Bool :=
  (decide (0x30 ≤ c) && decide (c ≤ 0x39)) || (decide (0x41 ≤ c) && decide (c ≤ 0x46))

theorem isUpperHex_iff (c : Nat) :
    isUpperHex c = true ↔ ((0x30 ≤ c ∧ c ≤ 0x39) ∨ (0x41 ≤ c ∧ c ≤ 0x46)) := by
  simp [isUpperHex]

theorem isHex_iff (c : Nat) :
    isHex c = true ↔ ((0x30 ≤ c ∧ c ≤ 0x39) ∨ (0x41 ≤ c ∧ c ≤ 0x46) ∨ (0x61 ≤ c ∧ c ≤ 0x66)) := by
  simp [isHex, isDigit, or_assoc]

theorem isHex_lt (c : Nat) (h : isHex c = true) : c < 0x80 := by
  rw [isHex_iff] at h; omega

theorem isHex_of_upper (c : Nat) (h : isUpperHex c = true) : isHex c = true := by
  rw [isUpperHex_iff] at h; rw [isHex_iff]; omega

theorem hexDigitUpper_tbl : ∀ n, n < 16 →
    isUpperHex (hexDigitUpper n) = true ∧ isHex (hexDigitUpper n) = true ∧
      hexVal (hexDigitUpper n) = n := by decide

theorem hexVal_lt (h : Nat) (hh : isHex h = true) : hexVal h < 16 := by
  rw [isHex_iff] at hh; unfold hexVal; split
  · omega
  · split <;> omega

/-- `%XX` decodes to the byte it was made from -/
theorem pctByte_val (b : Nat) (hb : b < 256) :
    hexVal (hexDigitUpper (b / 16)) * 16 + hexVal (hexDigitUpper (b % 16)) = b := by
  rw [(hexDigitUpper_tbl (b / 16) (by omega)).2.2, (hexDigitUpper_tbl (b % 16) (by omega)).2.2]
  omega

/-! ## UTF-8 bytes of one scalar value -/

theorem encodeUtf8Char_lt (c : Nat) (h : c ≤ 0x10FFFF) : ∀ x ∈ Impl.encodeUtf8Char c, x < 256 := by
  rw [Impl.encodeUtf8Char_eq c h]; exact Impl.utf8EncodeChar_lt c h

theorem scalar_le (c : Nat) (h : Spec.isScalar c = true) : c ≤ 0x10FFFF := ((Impl.isScalar_iff c).1 h).1

theorem utf8EncodeChar_ascii (c : Nat) (h : c < 0x80) : Spec.utf8EncodeChar c = [c] := by
  unfold Spec.utf8EncodeChar; rw [if_pos (by omega)]

theorem encodeUtf8Char_ascii (c : Nat) (h : c < 0x80) : Impl.encodeUtf8Char c = [c] := by
  unfold Impl.encodeUtf8Char; rw [if_pos (by omega)]

/-- the UTF-8 encoding of a non-ASCII value starts with a lead byte C2..F4 (never a continuation
    byte, never ASCII) and all its bytes are ≥ 0x80 -/
theorem utf8EncodeChar_hi (c : Nat) (h : 0x80 ≤ c) (h' : c ≤ 0x10FFFF) :
    ∃ b t, Spec.utf8EncodeChar c = b :: t ∧ 0xC2 ≤ b ∧ b ≤ 0xF4 ∧ ∀ x ∈ b :: t, 0x80 ≤ x ∧ x < 256 := by
  unfold Spec.utf8EncodeChar
  rw [if_neg (by omega)]
  split
  · refine ⟨_, _, rfl, by omega, by omega, ?_⟩
    intro x hx; simp only [List.mem_cons, List.not_mem_nil, or_false] at hx; omega
  · split
    · refine ⟨_, _, rfl, by omega, by omega, ?_⟩
      intro x hx; simp only [List.mem_cons, List.not_mem_nil, or_false] at hx; omega
    · refine ⟨_, _, rfl, by omega, by omega, ?_⟩
      intro x hx; simp only [List.mem_cons, List.not_mem_nil, or_false] at hx; omega

/-! ## the encode loop, one character at a time -/

theorem percentEncode_cons (noEnc : Nat → Bool) (c : Nat) (cs : List Nat) :
    Impl.percentEncode noEnc (c :: cs) =
      (if c ≥ 0x80 then Impl.pctEncodeChar c else if noEnc c then [c] else pctByte c) ++
        Impl.percentEncode noEnc cs := rfl

theorem percentEncodeC0_cons (c : Nat) (cs : List Nat) :
    Impl.percentEncodeC0 (c :: cs) =
      (if c ≥ 0x7F then Impl.pctEncodeChar c else if c ≤ 0x1F then pctByte c else [c]) ++
        Impl.percentEncodeC0 cs := rfl

theorem pctEncodeChar_ascii (c : Nat) (h : c < 0x80) : Impl.pctEncodeChar c = pctByte c := by
  unfold Impl.pctEncodeChar; rw [encodeUtf8Char_ascii c h]; simp

/-- one step of the library loop = UTF-8 percent-encode of one scalar value -/
theorem encode_char_eq (inSet : Nat → Bool) (c : Nat) (hc : c ≤ 0x10FFFF)
    (hset : ∀ c, c ≥ 0x80 → inSet c = true) :
    (if c ≥ 0x80 then Impl.pctEncodeChar c
     else if Spec.noEncode inSet c then [c] else pctByte c) = Spec.utf8PercentEncodeChar inSet c := by
  unfold Spec.utf8PercentEncodeChar
  by_cases h : c ≥ 0x80
  · rw [if_pos h, hset c h, if_pos rfl]
    unfold Impl.pctEncodeChar
    rw [Impl.encodeUtf8Char_eq c hc]
  · rw [if_neg h]
    have h256 : c < 256 := by omega
    cases hin : inSet c
    · simp [Spec.noEncode, hin, h256]
    · simp [Spec.noEncode, hin, utf8EncodeChar_ascii c (by omega)]

theorem percentEncode_eq_spec (inSet : Nat → Bool) (hset : ∀ c, c ≥ 0x80 → inSet c = true) :
    ∀ s : List Nat, (∀ c ∈ s, Spec.isScalar c = true) →
      Impl.percentEncode (Spec.noEncode inSet) s = Spec.utf8PercentEncode inSet s := by
  intro s
  induction s with
  | nil => intro _; rfl
  | cons c cs ih =>
    intro hs
    rw [percentEncode_cons, encode_char_eq inSet c (scalar_le c (hs c List.mem_cons_self)) hset,
      ih (fun x hx => hs x (List.mem_cons_of_mem _ hx))]
    simp [Spec.utf8PercentEncode]

theorem c0_char_eq (c : Nat) (hc : c ≤ 0x10FFFF) :
    (if c ≥ 0x7F then Impl.pctEncodeChar c else if c ≤ 0x1F then pctByte c else [c]) =
      Spec.utf8PercentEncodeChar Spec.c0ControlSet c := by
  unfold Spec.utf8PercentEncodeChar Spec.c0ControlSet
  by_cases h : c ≥ 0x7F
  · rw [if_pos h]
    have : (decide (c ≤ 0x1F) || decide (c > 0x7E)) = true := by simp; omega
    rw [this, if_pos rfl]
    unfold Impl.pctEncodeChar
    rw [Impl.encodeUtf8Char_eq c hc]
  · rw [if_neg h]
    by_cases h2 : c ≤ 0x1F
    · rw [if_pos h2]
      have : (decide (c ≤ 0x1F) || decide (c > 0x7E)) = true := by simp; omega
      rw [this, if_pos rfl, utf8EncodeChar_ascii c (by omega)]; simp
    · rw [if_neg h2]
      have : (decide (c ≤ 0x1F) || decide (c > 0x7E)) = false := by simp; omega
      rw [this]; simp

theorem percentEncodeC0_eq_spec :
    ∀ s : List Nat, (∀ c ∈ s, Spec.isScalar c = true) →
      Impl.percentEncodeC0 s = Spec.utf8PercentEncode Spec.c0ControlSet s := by
  intro s
  induction s with
  | nil => intro _; rfl
  | cons c cs ih =>
    intro hs
    rw [percentEncodeC0_cons, c0_char_eq c (scalar_le c (hs c List.mem_cons_self)),
      ih (fun x hx => hs x (List.mem_cons_of_mem _ hx))]
    simp [Spec.utf8PercentEncode]

/-! ## the output alphabet -/

/-- a concatenation of single elements `c` with `ok c` and triplets `%` `h1` `h2` with `h1`, `h2`
    upper-case hex digits -/
inductive PctWord (ok : Nat → Bool) : List Nat → Prop
  | nil : PctWord ok []
  | single (c : Nat) (w : List Nat) : ok c = true → PctWord ok w → PctWord ok (c :: w)
  | triplet (h1 h2 : Nat) (w : List Nat) : isUpperHex h1 = true → isUpperHex h2 = true →
      PctWord ok w → PctWord ok (0x25 :: h1 :: h2 :: w)

theorem PctWord.append {ok : Nat → Bool} {a b : List Nat} (ha : PctWord ok a) (hb : PctWord ok b) :
    PctWord ok (a ++ b) := by
  induction ha with
  | nil => exact hb
  | single c w hc _ ih => exact PctWord.single c _ hc ih
  | triplet h1 h2 w hh1 hh2 _ ih => exact PctWord.triplet h1 h2 _ hh1 hh2 ih

theorem PctWord.mono {ok ok' : Nat → Bool} (h : ∀ c, ok c = true → ok' c = true) {w : List Nat}
    (hw : PctWord ok w) : PctWord ok' w := by
  induction hw with
  | nil => exact PctWord.nil
  | single c w hc _ ih => exact PctWord.single c _ (h c hc) ih
  | triplet h1 h2 w hh1 hh2 _ ih => exact PctWord.triplet h1 h2 _ hh1 hh2 ih

theorem PctWord.all_lt {ok : Nat → Bool} (hok : ∀ c, ok c = true → c < 0x80) {w : List Nat}
    (hw : PctWord ok w) : ∀ x ∈ w, x < 0x80 := by
  induction hw with
  | nil => intro x hx; simp at hx
  | single c w hc _ ih =>
    intro x hx
    rcases List.mem_cons.1 hx with rfl | hx
    · exact hok _ hc
    · exact ih x hx
  | triplet h1 h2 w hh1 hh2 _ ih =>
    intro x hx
    rw [isUpperHex_iff] at hh1 hh2
    simp only [List.mem_cons] at hx
    rcases hx with rfl | rfl | rfl | hx
    · omega
    · omega
    · omega
    · exact ih x hx

theorem pctByte_word (ok : Nat → Bool) (b : Nat) (hb : b < 256) : PctWord ok (pctByte b) :=
  PctWord.triplet _ _ [] (hexDigitUpper_tbl (b / 16) (by omega)).1
    (hexDigitUpper_tbl (b % 16) (by omega)).1 PctWord.nil

theorem flatMap_pctByte_word (ok : Nat → Bool) (l : List Nat) (hl : ∀ x ∈ l, x < 256) :
    PctWord ok (l.flatMap pctByte) := by
  induction l with
  | nil => exact PctWord.nil
  | cons b l ih =>
    rw [List.flatMap_cons]
    exact (pctByte_word ok b (hl b List.mem_cons_self)).append
      (ih (fun x hx => hl x (List.mem_cons_of_mem _ hx)))

theorem pctEncodeChar_word (ok : Nat → Bool) (c : Nat) (hc : c ≤ 0x10FFFF) :
    PctWord ok (Impl.pctEncodeChar c) :=
  flatMap_pctByte_word ok _ (encodeUtf8Char_lt c hc)

theorem percentEncode_word (noEnc : Nat → Bool) :
    ∀ s : List Nat, (∀ c ∈ s, Spec.isScalar c = true) →
      PctWord (fun c => decide (c < 0x80) && noEnc c) (Impl.percentEncode noEnc s) := by
  intro s
  induction s with
  | nil => intro _; exact PctWord.nil
  | cons c cs ih =>
    intro hs
    have hc := scalar_le c (hs c List.mem_cons_self)
    have ih' := ih (fun x hx => hs x (List.mem_cons_of_mem _ hx))
    rw [percentEncode_cons]
    refine PctWord.append ?_ ih'
    by_cases h : c ≥ 0x80
    · rw [if_pos h]; exact pctEncodeChar_word _ c hc
    · rw [if_neg h]
      cases hn : noEnc c
      · simp only [Bool.false_eq_true, if_false]; exact pctByte_word _ c (by omega)
      · simp only [if_true]
        exact PctWord.single c [] (by simp [hn]; omega) PctWord.nil

theorem percentEncodeC0_word :
    ∀ s : List Nat, (∀ c ∈ s, Spec.isScalar c = true) →
      PctWord (fun c => decide (0x1F < c) && decide (c < 0x7F)) (Impl.percentEncodeC0 s) := by
  intro s
  induction s with
  | nil => intro _; exact PctWord.nil
  | cons c cs ih =>
    intro hs
    have hc := scalar_le c (hs c List.mem_cons_self)
    have ih' := ih (fun x hx => hs x (List.mem_cons_of_mem _ hx))
    rw [percentEncodeC0_cons]
    refine PctWord.append ?_ ih'
    by_cases h : c ≥ 0x7F
    · rw [if_pos h]; exact pctEncodeChar_word _ c hc
    · rw [if_neg h]
      by_cases h2 : c ≤ 0x1F
      · rw [if_pos h2]; exact pctByte_word _ c (by omega)
      · rw [if_neg h2]
        exact PctWord.single c [] (by simp; omega) PctWord.nil

/-! ## re-encoding a word over the no-encode alphabet is the identity -/

theorem percentEncode_ascii_noenc (noEnc : Nat → Bool) (c : Nat) (cs : List Nat) (h : c < 0x80)
    (hn : noEnc c = true) : Impl.percentEncode noEnc (c :: cs) = c :: Impl.percentEncode noEnc cs := by
  rw [percentEncode_cons, if_neg (by omega), hn]; rfl

theorem percentEncode_fix (noEnc : Nat → Bool) (hpct : noEnc 0x25 = true)
    (hhex : ∀ c, isHex c = true → noEnc c = true) {w : List Nat}
    (hw : PctWord (fun c => decide (c < 0x80) && noEnc c) w) : Impl.percentEncode noEnc w = w := by
  induction hw with
  | nil => rfl
  | single c w hc _ ih =>
    simp only [Bool.and_eq_true, decide_eq_true_eq] at hc
    rw [percentEncode_ascii_noenc noEnc c w hc.1 hc.2, ih]
  | triplet h1 h2 w hh1 hh2 _ ih =>
    have a1 := isHex_of_upper h1 hh1
    have a2 := isHex_of_upper h2 hh2
    rw [percentEncode_ascii_noenc noEnc 0x25 _ (by decide) hpct,
      percentEncode_ascii_noenc noEnc h1 _ (isHex_lt h1 a1) (hhex h1 a1),
      percentEncode_ascii_noenc noEnc h2 _ (isHex_lt h2 a2) (hhex h2 a2), ih]

theorem percentEncodeC0_keep (c : Nat) (cs : List Nat) (h1 : 0x1F < c) (h2 : c < 0x7F) :
    Impl.percentEncodeC0 (c :: cs) = c :: Impl.percentEncodeC0 cs := by
  rw [percentEncodeC0_cons, if_neg (by omega), if_neg (by omega)]; rfl

theorem percentEncodeC0_fix {w : List Nat}
    (hw : PctWord (fun c => decide (0x1F < c) && decide (c < 0x7F)) w) : Impl.percentEncodeC0 w = w := by
  induction hw with
  | nil => rfl
  | single c w hc _ ih =>
    simp only [Bool.and_eq_true, decide_eq_true_eq] at hc
    rw [percentEncodeC0_keep c w hc.1 hc.2, ih]
  | triplet h1 h2 w hh1 hh2 _ ih =>
    rw [isUpperHex_iff] at hh1 hh2
    rw [percentEncodeC0_keep 0x25 _ (by decide) (by decide),
      percentEncodeC0_keep h1 _ (by omega) (by omega),
      percentEncodeC0_keep h2 _ (by omega) (by omega), ih]

/-- the hex-digit side condition of `C14_encode_idem` from a finite check -/
theorem hex_side (noEnc : Nat → Bool) (h : ∀ c, c < 128 → isHex c = true → noEnc c = true) :
    ∀ c, isHex c = true → noEnc c = true :=
  fun c hc => h c (isHex_lt c hc) hc

/-! ## the decode loop as a state machine -/

/-- "the input continues with two hex digits" (decode_hex_to_byte succeeds) -/
def hex2 : List Nat → Bool
  | h1 :: h2 :: _ => isHex h1 && isHex h2
  | _ => false

theorem hex2_true (r : List Nat) (h : hex2 r = true) :
    ∃ h1 h2 r', r = h1 :: h2 :: r' ∧ isHex h1 = true ∧ isHex h2 = true := by
  match r with
  | [] => simp [hex2] at h
  | [x] => simp [hex2] at h
  | h1 :: h2 :: r' =>
    simp only [hex2, Bool.and_eq_true] at h
    exact ⟨h1, h2, r', rfl, h.1, h.2⟩

theorem aux_none_nil : Impl.percentDecodeAux none [] = [] := by simp [Impl.percentDecodeAux]
theorem aux_some_nil (buf : List Nat) : Impl.percentDecodeAux (some buf) [] = Impl.checkFixUtf8 buf := by
  simp [Impl.percentDecodeAux]

theorem aux_none_other (c : Nat) (r : List Nat) (hc : c ≠ 0x25) :
    Impl.percentDecodeAux none (c :: r) = Impl.encodeUtf8Char c ++ Impl.percentDecodeAux none r := by
  by_cases h : c < 0x80
  · rw [encodeUtf8Char_ascii c h]
    match r with
    | [] => simp [Impl.percentDecodeAux, h]
    | [x] => simp [Impl.percentDecodeAux, h]
    | h1 :: h2 :: r' => simp [Impl.percentDecodeAux, h, hc]
  · match r with
    | [] => simp [Impl.percentDecodeAux, h]
    | [x] => simp [Impl.percentDecodeAux, h]
    | h1 :: h2 :: r' => simp [Impl.percentDecodeAux, h]

theorem aux_none_hex (h1 h2 : Nat) (r' : List Nat) (a1 : isHex h1 = true) (a2 : isHex h2 = true) :
    Impl.percentDecodeAux none (0x25 :: h1 :: h2 :: r') =
      if hexVal h1 * 16 + hexVal h2 < 0x80 then
        (hexVal h1 * 16 + hexVal h2) :: Impl.percentDecodeAux none r'
      else Impl.percentDecodeAux (some [hexVal h1 * 16 + hexVal h2]) r' := by
  simp [Impl.percentDecodeAux, a1, a2]

theorem aux_none_pct (r : List Nat) (h : hex2 r = false) :
    Impl.percentDecodeAux none (0x25 :: r) = 0x25 :: Impl.percentDecodeAux none r := by
  match r with
  | [] => simp [Impl.percentDecodeAux]
  | [x] => simp [Impl.percentDecodeAux]
  | h1 :: h2 :: r' =>
    simp only [hex2] at h
    simp [Impl.percentDecodeAux, h]

theorem aux_some_other (buf : List Nat) (c : Nat) (r : List Nat) (hc : c ≠ 0x25) :
    Impl.percentDecodeAux (some buf) (c :: r) =
      Impl.checkFixUtf8 buf ++ (Impl.encodeUtf8Char c ++ Impl.percentDecodeAux none r) := by
  by_cases h : c < 0x80
  · rw [encodeUtf8Char_ascii c h]
    match r with
    | [] => simp [Impl.percentDecodeAux, h, hc]
    | [x] => simp [Impl.percentDecodeAux, h, hc]
    | h1 :: h2 :: r' => simp [Impl.percentDecodeAux, h, hc]
  · match r with
    | [] => simp [Impl.percentDecodeAux, h, hc]
    | [x] => simp [Impl.percentDecodeAux, h, hc]
    | h1 :: h2 :: r' => simp [Impl.percentDecodeAux, h, hc]

theorem aux_some_hex (buf : List Nat) (h1 h2 : Nat) (r' : List Nat) (a1 : isHex h1 = true)
    (a2 : isHex h2 = true) :
    Impl.percentDecodeAux (some buf) (0x25 :: h1 :: h2 :: r') =
      Impl.percentDecodeAux (some (buf ++ [hexVal h1 * 16 + hexVal h2])) r' := by
  simp [Impl.percentDecodeAux, a1, a2]

theorem aux_some_pct (buf : List Nat) (r : List Nat) (h : hex2 r = false) :
    Impl.percentDecodeAux (some buf) (0x25 :: r) = Impl.percentDecodeAux (some (buf ++ [0x25])) r := by
  match r with
  | [] => simp [Impl.percentDecodeAux]
  | [x] => simp [Impl.percentDecodeAux]
  | h1 :: h2 :: r' =>
    simp only [hex2] at h
    simp [Impl.percentDecodeAux, h]

/-! ## percent-decode a byte sequence (Standard), one byte / one escape at a time -/
theorem pdb_other (b : Nat) (r : List Nat) (hb : b ≠ 0x25) :
    Spec.percentDecodeBytes (b :: r) = b :: Spec.percentDecodeBytes r := by
  match r with
  | [] => simp [Spec.percentDecodeBytes]
  | [x] => simp [Spec.percentDecodeBytes]
  | h1 :: h2 :: r' => simp [Spec.percentDecodeBytes, hb]

theorem pdb_hex (h1 h2 : Nat) (r' : List Nat) (a1 : isHex h1 = true) (a2 : isHex h2 = true) :
    Spec.percentDecodeBytes (0x25 :: h1 :: h2 :: r') =
      (hexVal h1 * 16 + hexVal h2) :: Spec.percentDecodeBytes r' := by
  simp [Spec.percentDecodeBytes, a1, a2]

theorem pdb_pct (r : List Nat) (h : hex2 r = false) :
    Spec.percentDecodeBytes (0x25 :: r) = 0x25 :: Spec.percentDecodeBytes r := by
  match r with
  | [] => simp [Spec.percentDecodeBytes]
  | [x] => simp [Spec.percentDecodeBytes]
  | h1 :: h2 :: r' =>
    simp only [hex2, Bool.and_eq_false_iff] at h
    have : ¬ (isHex h1 = true ∧ isHex h2 = true) := by
      rcases h with h | h <;> simp [h]
    simp [Spec.percentDecodeBytes, this]


/-! ## a byte that is not a continuation byte ends every pending sequence -/
open Upa.Impl (readU8 readU8_ascii readU8_one readU8_2 readU8_3 readU8_4 t3ok t4ok trailOk lead3T1Bits lead4T1Bits subByte80)

/-- a byte that is not a UTF-8 continuation byte: ASCII or C0..FF -/
def nonTrail (c : Nat) : Prop := c < 0x80 ∨ (0xC0 ≤ c ∧ c < 256)

theorem lead3_nt : ∀ k, k < 16 → ∀ c, c < 256 → (c < 0x80 ∨ 0xC0 ≤ c) →
    (lead3T1Bits.getD k 0) &&& (1 <<< (c >>> 5)) = 0 := by decide +kernel
theorem lead4_nt : ∀ c, c < 256 → (c < 0x80 ∨ 0xC0 ≤ c) → lead4T1Bits.getD (c >>> 4) 0 = 0 := by
  decide +kernel

theorem not_t3ok_nt (b0 c : Nat) (hc : nonTrail c) : ¬ t3ok b0 c := by
  unfold t3ok
  have := lead3_nt (b0 &&& 0xF) (by rw [Impl.andF]; omega) c (by unfold nonTrail at hc; omega)
    (by unfold nonTrail at hc; omega)
  exact fun h => h this
theorem not_t4ok_nt (b0 c : Nat) (hc : nonTrail c) : ¬ t4ok b0 c := by
  unfold t4ok
  rw [lead4_nt c (by unfold nonTrail at hc; omega) (by unfold nonTrail at hc; omega)]
  simp
theorem not_trailOk_nt (c : Nat) (hc : nonTrail c) : ¬ trailOk c := by
  unfold trailOk subByte80; unfold nonTrail at hc; omega

/-- `Impl.readU8_append` with "ASCII unit" generalised to "any byte that is not a continuation byte" -/
theorem readU8_append_nt (a x : List Nat) (ha : a ≠ [])
    (hx : (readU8 a).1 = true ∨ ∃ c b, x = c :: b ∧ nonTrail c) :
    readU8 (a ++ x) = ((readU8 a).1, (readU8 a).2.1, (readU8 a).2.2 ++ x) := by
  match a with
  | [] => contradiction
  | b0 :: r =>
    by_cases c0 : b0 < 0x80
    · rw [List.cons_append, readU8_ascii _ _ c0, readU8_ascii _ _ c0]
    · match r with
      | [] =>
        rw [readU8_one b0 c0] at hx ⊢
        rcases hx with h | ⟨c, b, rfl, hc⟩
        · simp at h
        · show readU8 (b0 :: c :: b) = _
          by_cases hE : b0 ≥ 0xE0
          · by_cases hF : b0 < 0xF0
            · rw [readU8_3 _ _ _ hE hF, if_neg (not_t3ok_nt b0 c hc)]; rfl
            · rw [readU8_4 _ _ _ hF, if_neg (not_t4ok_nt b0 c hc)]; rfl
          · rw [readU8_2 _ _ _ c0 hE]
            by_cases hC : b0 ≥ 0xC2
            · rw [if_pos hC, if_neg (not_trailOk_nt c hc)]; rfl
            · rw [if_neg hC]; rfl
      | b1 :: r1 =>
        show readU8 (b0 :: b1 :: (r1 ++ x)) = _
        by_cases hE : b0 ≥ 0xE0
        · by_cases hF : b0 < 0xF0
          · rw [readU8_3 _ _ _ hE hF] at hx ⊢
            rw [readU8_3 _ _ _ hE hF]
            by_cases h1 : t3ok b0 b1
            · rw [if_pos h1] at hx ⊢
              rw [if_pos h1]
              cases r1 with
              | nil =>
                rcases hx with h | ⟨c, b, rfl, hc⟩
                · simp at h
                · simp only [List.nil_append, if_neg (not_trailOk_nt c hc)]
              | cons b2 r2 =>
                show (if trailOk b2 then _ else _) = _
                by_cases h2 : trailOk b2
                · rw [if_pos h2]; simp only [if_pos h2]; rfl
                · rw [if_neg h2]; simp only [if_neg h2]; rfl
            · rw [if_neg h1, if_neg h1]; rfl
          · rw [readU8_4 _ _ _ hF] at hx ⊢
            rw [readU8_4 _ _ _ hF]
            by_cases h1 : t4ok b0 b1
            · rw [if_pos h1] at hx ⊢
              rw [if_pos h1]
              cases r1 with
              | nil =>
                rcases hx with h | ⟨c, b, rfl, hc⟩
                · simp at h
                · simp only [List.nil_append, if_neg (not_trailOk_nt c hc)]
              | cons b2 r2 =>
                show (if trailOk b2 then _ else _) = _
                by_cases h2 : trailOk b2
                · rw [if_pos h2]
                  simp only [if_pos h2] at hx ⊢
                  cases r2 with
                  | nil =>
                    rcases hx with h | ⟨c, b, rfl, hc⟩
                    · simp at h
                    · show (if trailOk c then _ else _) = _
                      rw [if_neg (not_trailOk_nt c hc)]; rfl
                  | cons b3 r3 =>
                    show (if trailOk b3 then _ else _) = _
                    by_cases h3 : trailOk b3
                    · rw [if_pos h3]; simp only [if_pos h3]; rfl
                    · rw [if_neg h3]; simp only [if_neg h3]; rfl
                · rw [if_neg h2]; simp only [if_neg h2]; rfl
            · rw [if_neg h1, if_neg h1]; rfl
        · rw [readU8_2 _ _ _ c0 hE, readU8_2 _ _ _ c0 hE]
          by_cases hC : b0 ≥ 0xC2
          · rw [if_pos hC, if_pos hC]
            by_cases h1 : trailOk b1
            · rw [if_pos h1, if_pos h1]
            · rw [if_neg h1, if_neg h1]; rfl
          · rw [if_neg hC, if_neg hC]; rfl



/-- the first byte of the UTF-8 encoding of any scalar value is not a continuation byte -/
theorem utf8EncodeChar_head (c : Nat) (hc : c ≤ 0x10FFFF) :
    ∃ b t, Spec.utf8EncodeChar c = b :: t ∧ nonTrail b := by
  by_cases h : c < 0x80
  · exact ⟨c, [], utf8EncodeChar_ascii c h, Or.inl h⟩
  · obtain ⟨b, t, e, h1, h2, _⟩ := utf8EncodeChar_hi c (by omega) hc
    exact ⟨b, t, e, Or.inr ⟨by omega, by omega⟩⟩

theorem decode_step_u8 (l : List Nat) (h : l ≠ []) :
    Impl.decode .u8 l =
      (if (Impl.readU8 l).1 then (Impl.readU8 l).2.1 else 0xFFFD) :: Impl.decode .u8 (Impl.readU8 l).2.2 :=
  Impl.decode_step .u8 l h

theorem decode_u8_nil : Impl.decode .u8 [] = [] := rfl

/-- decoding distributes over a well-formed sequence, whatever precedes it (a pending incomplete
    sequence in `a` is closed as one U+FFFD by the lead byte of `c`) -/
theorem decode_scalar_split (c : Nat) (hc : Spec.isScalar c = true) (b : List Nat) (a : List Nat) :
    Impl.decode .u8 (a ++ (Spec.utf8EncodeChar c ++ b)) =
      Impl.decode .u8 a ++ c :: Impl.decode .u8 b := by
  obtain ⟨b0, t, e, hnt⟩ := utf8EncodeChar_head c (scalar_le c hc)
  refine Impl.decode_induction .u8 (fun a => Impl.decode .u8 (a ++ (Spec.utf8EncodeChar c ++ b)) =
      Impl.decode .u8 a ++ c :: Impl.decode .u8 b) ?_ ?_ a
  · have hne : Spec.utf8EncodeChar c ++ b ≠ [] := by rw [e]; simp
    rw [List.nil_append, decode_step_u8 _ hne, Impl.readU8_encode c b hc, decode_u8_nil]
    rfl
  · intro a hne ih
    have hne' : a ++ (Spec.utf8EncodeChar c ++ b) ≠ [] := by simp [hne]
    have ih' : Impl.decode .u8 ((Impl.readU8 a).2.2 ++ (Spec.utf8EncodeChar c ++ b)) =
      Impl.decode .u8 (Impl.readU8 a).2.2 ++ c :: Impl.decode .u8 b := ih
    rw [decode_step_u8 _ hne', decode_step_u8 a hne,
      readU8_append_nt a _ hne (Or.inr ⟨b0, t ++ b, by rw [e]; rfl, hnt⟩)]
    simp only [List.cons_append]
    rw [ih']

theorem decode_scalar_cons (c : Nat) (hc : Spec.isScalar c = true) (b : List Nat) :
    Impl.decode .u8 (Spec.utf8EncodeChar c ++ b) = c :: Impl.decode .u8 b := by
  have := decode_scalar_split c hc b []
  rwa [List.nil_append, decode_u8_nil, List.nil_append] at this

/-! ## the Standard's string percent-decode, one scalar value at a time -/

theorem pdb_append (l rest : List Nat) (hl : ∀ x ∈ l, x ≠ 0x25) :
    Spec.percentDecodeBytes (l ++ rest) = l ++ Spec.percentDecodeBytes rest := by
  induction l with
  | nil => rfl
  | cons x l ih =>
    rw [List.cons_append, pdb_other x _ (hl x List.mem_cons_self),
      ih (fun y hy => hl y (List.mem_cons_of_mem _ hy))]
    rfl

theorem utf8EncodeChar_no_pct (c : Nat) (hc : c ≤ 0x10FFFF) (h : c ≠ 0x25) :
    ∀ x ∈ Spec.utf8EncodeChar c, x ≠ 0x25 := by
  by_cases h80 : c < 0x80
  · rw [utf8EncodeChar_ascii c h80]; intro x hx; simp at hx; omega
  · obtain ⟨b, t, e, _, _, hall⟩ := utf8EncodeChar_hi c (by omega) hc
    rw [e]; intro x hx; have := hall x hx; omega

theorem utf8Encode_cons (c : Nat) (r : List Nat) :
    Spec.utf8Encode (c :: r) = Spec.utf8EncodeChar c ++ Spec.utf8Encode r := by
  simp [Spec.utf8Encode]

theorem hex2_cons_nonhex (b : Nat) (t : List Nat) (h : isHex b = false) : hex2 (b :: t) = false := by
  cases t with
  | nil => rfl
  | cons x t => simp [hex2, h]

theorem hex2_utf8Encode (r : List Nat) (hr : ∀ c ∈ r, Spec.isScalar c = true) :
    hex2 (Spec.utf8Encode r) = hex2 r := by
  have nonhex : ∀ c, 0x80 ≤ c → isHex c = false := by
    intro c hc
    cases h : isHex c
    · rfl
    · have := isHex_lt c h; omega
  have hi : ∀ c rest, ¬ c < 0x80 → Spec.isScalar c = true →
      ∃ b t, Spec.utf8EncodeChar c ++ rest = b :: t ∧ isHex b = false := by
    intro c rest h hs
    obtain ⟨b, t, e, h1, _, _⟩ := utf8EncodeChar_hi c (by omega) (scalar_le c hs)
    exact ⟨b, t ++ rest, by rw [e]; rfl, nonhex b (by omega)⟩
  match r with
  | [] => rfl
  | [h1] =>
    rw [utf8Encode_cons]
    by_cases a1 : h1 < 0x80
    · rw [utf8EncodeChar_ascii h1 a1]; rfl
    · obtain ⟨b, t, e, hb⟩ := hi h1 (Spec.utf8Encode []) a1 (hr h1 (by simp))
      rw [e, hex2_cons_nonhex b t hb]; rfl
  | h1 :: h2 :: r' =>
    rw [utf8Encode_cons, utf8Encode_cons]
    by_cases a1 : h1 < 0x80
    · rw [utf8EncodeChar_ascii h1 a1]
      by_cases a2 : h2 < 0x80
      · rw [utf8EncodeChar_ascii h2 a2]; rfl
      · obtain ⟨b, t, e, hb⟩ := hi h2 (Spec.utf8Encode r') a2 (hr h2 (by simp))
        rw [e]
        simp [hex2, hb, nonhex h2 (by omega)]
    · obtain ⟨b, t, e, hb⟩ := hi h1 (Spec.utf8EncodeChar h2 ++ Spec.utf8Encode r') a1 (hr h1 (by simp))
      rw [e, hex2_cons_nonhex b t hb]
      simp [hex2, nonhex h1 (by omega)]

theorem spd_nil : Spec.stringPercentDecode [] = [] := by
  simp [Spec.stringPercentDecode, Spec.utf8Encode, Spec.percentDecodeBytes]

theorem spd_other (c : Nat) (r : List Nat) (hc : c ≤ 0x10FFFF) (h : c ≠ 0x25) :
    Spec.stringPercentDecode (c :: r) = Spec.utf8EncodeChar c ++ Spec.stringPercentDecode r := by
  unfold Spec.stringPercentDecode
  rw [utf8Encode_cons, pdb_append _ _ (utf8EncodeChar_no_pct c hc h)]

theorem spd_hex (h1 h2 : Nat) (r' : List Nat) (a1 : isHex h1 = true) (a2 : isHex h2 = true) :
    Spec.stringPercentDecode (0x25 :: h1 :: h2 :: r') =
      (hexVal h1 * 16 + hexVal h2) :: Spec.stringPercentDecode r' := by
  unfold Spec.stringPercentDecode
  rw [utf8Encode_cons, utf8Encode_cons, utf8Encode_cons, utf8EncodeChar_ascii 0x25 (by decide),
    utf8EncodeChar_ascii h1 (isHex_lt h1 a1), utf8EncodeChar_ascii h2 (isHex_lt h2 a2)]
  exact pdb_hex h1 h2 _ a1 a2

theorem spd_pct (r : List Nat) (hr : ∀ c ∈ r, Spec.isScalar c = true) (h : hex2 r = false) :
    Spec.stringPercentDecode (0x25 :: r) = 0x25 :: Spec.stringPercentDecode r := by
  unfold Spec.stringPercentDecode
  rw [utf8Encode_cons, utf8EncodeChar_ascii 0x25 (by decide)]
  show Spec.percentDecodeBytes (0x25 :: Spec.utf8Encode r) = _
  exact pdb_pct _ (by rw [hex2_utf8Encode r hr, h])


theorem decode_ascii_cons (b : Nat) (hb : b < 0x80) (x : List Nat) :
    Impl.decode .u8 (b :: x) = b :: Impl.decode .u8 x := by
  rw [decode_step_u8 _ (by simp), Impl.readU8_ascii _ _ hb]
  rfl

/-! ## the main simulation -/

theorem encodeUtf8_append (a b : List Nat) :
    Impl.encodeUtf8 (a ++ b) = Impl.encodeUtf8 a ++ Impl.encodeUtf8 b := by
  simp [Impl.encodeUtf8]

theorem encodeUtf8_cons (c : Nat) (r : List Nat) :
    Impl.encodeUtf8 (c :: r) = Impl.encodeUtf8Char c ++ Impl.encodeUtf8 r := by
  simp [Impl.encodeUtf8]

/-- The simulation: in state "no run" the loop computes repair(decode(string-percent-decode rest));
    in state "run with buffer `buf`" it computes the same for `buf ++ …` — the per-run repair equals
    one global repair, for ANY buffer content. -/
theorem aux_eq (n : Nat) : ∀ s : List Nat, s.length ≤ n → (∀ c ∈ s, Spec.isScalar c = true) →
    Impl.percentDecodeAux none s =
        Impl.encodeUtf8 (Impl.decode .u8 (Spec.stringPercentDecode s)) ∧
    ∀ buf, Impl.percentDecodeAux (some buf) s =
        Impl.encodeUtf8 (Impl.decode .u8 (buf ++ Spec.stringPercentDecode s)) := by
  induction n with
  | zero =>
    intro s hl _
    have : s = [] := List.length_eq_zero_iff.mp (by omega)
    subst this
    rw [spd_nil, aux_none_nil]
    refine ⟨rfl, fun buf => ?_⟩
    rw [aux_some_nil, List.append_nil]; rfl
  | succ n ih =>
    intro s hl hs
    match s with
    | [] =>
      rw [spd_nil, aux_none_nil]
      refine ⟨rfl, fun buf => ?_⟩
      rw [aux_some_nil, List.append_nil]; rfl
    | c :: r =>
      have hc := hs c List.mem_cons_self
      have hr : ∀ x ∈ r, Spec.isScalar x = true := fun x hx => hs x (List.mem_cons_of_mem _ hx)
      simp only [List.length_cons] at hl
      by_cases h25 : c = 0x25
      · subst h25
        cases hh : hex2 r
        · -- a literal '%'
          obtain ⟨ihn, ihs⟩ := ih r (by omega) hr
          rw [spd_pct r hr hh]
          constructor
          · rw [aux_none_pct r hh, ihn]
            have := decode_scalar_cons 0x25 hc (Spec.stringPercentDecode r)
            rw [utf8EncodeChar_ascii 0x25 (by decide)] at this
            rw [show (0x25 :: Spec.stringPercentDecode r) = [0x25] ++ Spec.stringPercentDecode r from rfl,
              this, encodeUtf8_cons, encodeUtf8Char_ascii 0x25 (by decide)]
            rfl
          · intro buf
            rw [aux_some_pct buf r hh, ihs, List.append_assoc]
            rfl
        · obtain ⟨h1, h2, r', rfl, a1, a2⟩ := hex2_true r hh
          simp only [List.length_cons] at hl
          obtain ⟨ihn, ihs⟩ := ih r' (by omega)
            (fun x hx => hr x (List.mem_cons_of_mem _ (List.mem_cons_of_mem _ hx)))
          rw [spd_hex h1 h2 r' a1 a2]
          constructor
          · rw [aux_none_hex h1 h2 r' a1 a2]
            split
            · next hb =>
              rw [ihn, decode_ascii_cons _ hb, encodeUtf8_cons, encodeUtf8Char_ascii _ hb]
              rfl
            · rw [ihs]; rfl
          · intro buf
            rw [aux_some_hex buf h1 h2 r' a1 a2, ihs, List.append_assoc]
            rfl
      · obtain ⟨ihn, _⟩ := ih r (by omega) hr
        rw [spd_other c r (scalar_le c hc) h25]
        have hnone : Impl.percentDecodeAux none (c :: r) =
            Impl.encodeUtf8 (Impl.decode .u8 (Spec.utf8EncodeChar c ++ Spec.stringPercentDecode r)) := by
          rw [aux_none_other c r h25, ihn, decode_scalar_cons c hc, encodeUtf8_cons]
        refine ⟨hnone, fun buf => ?_⟩
        rw [aux_some_other buf c r h25, ← aux_none_other c r h25, hnone, decode_scalar_split c hc,
          decode_scalar_cons c hc, encodeUtf8_append]
        rfl


/-! ## output bytes, final form of the decode theorem -/

theorem pdb_lt (n : Nat) : ∀ l : List Nat, l.length ≤ n → (∀ x ∈ l, x < 256) →
    ∀ x ∈ Spec.percentDecodeBytes l, x < 256 := by
  induction n with
  | zero =>
    intro l hl _
    have : l = [] := List.length_eq_zero_iff.mp (by omega)
    subst this
    intro x hx; simp [Spec.percentDecodeBytes] at hx
  | succ n ih =>
    intro l hl hb
    match l with
    | [] => intro x hx; simp [Spec.percentDecodeBytes] at hx
    | b :: r =>
      simp only [List.length_cons] at hl
      have hr : ∀ x ∈ r, x < 256 := fun x hx => hb x (List.mem_cons_of_mem _ hx)
      by_cases h25 : b = 0x25
      · subst h25
        cases hh : hex2 r
        · rw [pdb_pct r hh]
          intro x hx
          rcases List.mem_cons.1 hx with rfl | hx
          · decide
          · exact ih r (by omega) hr x hx
        · obtain ⟨h1, h2, r', rfl, a1, a2⟩ := hex2_true r hh
          simp only [List.length_cons] at hl
          rw [pdb_hex h1 h2 r' a1 a2]
          intro x hx
          rcases List.mem_cons.1 hx with rfl | hx
          · have := hexVal_lt h1 a1; have := hexVal_lt h2 a2; omega
          · exact ih r' (by omega)
              (fun y hy => hr y (List.mem_cons_of_mem _ (List.mem_cons_of_mem _ hy))) x hx
      · rw [pdb_other b r h25]
        intro x hx
        rcases List.mem_cons.1 hx with rfl | hx
        · exact hb _ List.mem_cons_self
        · exact ih r (by omega) hr x hx

theorem spd_lt (s : List Nat) (hs : ∀ c ∈ s, Spec.isScalar c = true) :
    ∀ x ∈ Spec.stringPercentDecode s, x < 256 :=
  pdb_lt _ _ (Nat.le_refl _) (Impl.utf8Encode_lt s hs)

/-- percent_decode = string percent-decode, then UTF-8 decode with replacement, re-encoded -/
theorem percentDecode_eq_spec (s : List Nat) (hs : ∀ c ∈ s, Spec.isScalar c = true) :
    Impl.percentDecode s = Spec.utf8Encode (Spec.utf8Decode (Spec.stringPercentDecode s)) := by
  have hb := spd_lt s hs
  unfold Impl.percentDecode
  rw [(aux_eq s.length s (Nat.le_refl _) hs).1, Impl.encodeUtf8_eq _ (Impl.decode_u8_scalar _ hb),
    Impl.decode_u8_eq_spec _ hb]

/-! ## round trip -/

theorem spd_pctByte (b : Nat) (hb : b < 256) (rest : List Nat) :
    Spec.stringPercentDecode (pctByte b ++ rest) = b :: Spec.stringPercentDecode rest := by
  have := spd_hex (hexDigitUpper (b / 16)) (hexDigitUpper (b % 16)) rest
    (hexDigitUpper_tbl (b / 16) (by omega)).2.1 (hexDigitUpper_tbl (b % 16) (by omega)).2.1
  rw [pctByte_val b hb] at this
  exact this

theorem spd_flatMap_pctByte (l : List Nat) (hl : ∀ x ∈ l, x < 256) (rest : List Nat) :
    Spec.stringPercentDecode (l.flatMap pctByte ++ rest) = l ++ Spec.stringPercentDecode rest := by
  induction l with
  | nil => rfl
  | cons b l ih =>
    rw [List.flatMap_cons, List.append_assoc, spd_pctByte b (hl b List.mem_cons_self),
      ih (fun x hx => hl x (List.mem_cons_of_mem _ hx))]
    rfl

theorem spd_percentEncode (noEnc : Nat → Bool) (h25 : noEnc 0x25 = false) :
    ∀ s : List Nat, (∀ c ∈ s, Spec.isScalar c = true) →
      Spec.stringPercentDecode (Impl.percentEncode noEnc s) = Spec.utf8Encode s := by
  intro s
  induction s with
  | nil => intro _; exact spd_nil
  | cons c cs ih =>
    intro hs
    have hc := scalar_le c (hs c List.mem_cons_self)
    have ih' := ih (fun x hx => hs x (List.mem_cons_of_mem _ hx))
    rw [percentEncode_cons, utf8Encode_cons]
    by_cases h : c ≥ 0x80
    · rw [if_pos h]
      unfold Impl.pctEncodeChar
      rw [spd_flatMap_pctByte _ (encodeUtf8Char_lt c hc), ih', Impl.encodeUtf8Char_eq c hc]
    · rw [if_neg h, utf8EncodeChar_ascii c (by omega)]
      cases hn : noEnc c
      · simp only [Bool.false_eq_true, if_false]
        rw [spd_pctByte c (by omega), ih']; rfl
      · simp only [if_true]
        have hne : c ≠ 0x25 := by intro e; rw [e, h25] at hn; cases hn
        show Spec.stringPercentDecode (c :: Impl.percentEncode noEnc cs) = _
        rw [spd_other c _ hc hne, ih', utf8EncodeChar_ascii c (by omega)]

theorem ascii_scalar (c : Nat) (h : c < 0x80) : Spec.isScalar c = true := by
  rw [Impl.isScalar_iff]; omega

theorem percentEncode_scalar (noEnc : Nat → Bool) (s : List Nat)
    (hs : ∀ c ∈ s, Spec.isScalar c = true) :
    ∀ c ∈ Impl.percentEncode noEnc s, Spec.isScalar c = true := by
  intro c hc
  refine ascii_scalar c ((percentEncode_word noEnc s hs).all_lt ?_ c hc)
  intro x hx; simp only [Bool.and_eq_true, decide_eq_true_eq] at hx; exact hx.1

theorem percentDecode_percentEncode (noEnc : Nat → Bool) (s : List Nat)
    (hs : ∀ c ∈ s, Spec.isScalar c = true) (h25 : noEnc 0x25 = false) :
    Impl.percentDecode (Impl.percentEncode noEnc s) = Spec.utf8Encode s := by
  unfold Impl.percentDecode
  rw [(aux_eq _ _ (Nat.le_refl _) (percentEncode_scalar noEnc s hs)).1, spd_percentEncode noEnc h25 s hs]
  have := Impl.decode_encode .u8 s hs
  simp only [Spec.encode] at this
  rw [this, Impl.encodeUtf8_eq s hs]


/-! ## every Standard percent-encode set contains all code points above U+007E -/

theorem c0_hi (c : Nat) (h : c ≥ 0x80) : Spec.c0ControlSet c = true := by
  simp [Spec.c0ControlSet]; omega
theorem fragment_hi (c : Nat) (h : c ≥ 0x80) : Spec.fragmentSet c = true := by
  simp [Spec.fragmentSet, c0_hi c h]
theorem query_hi (c : Nat) (h : c ≥ 0x80) : Spec.querySet c = true := by
  simp [Spec.querySet, c0_hi c h]
theorem specialQuery_hi (c : Nat) (h : c ≥ 0x80) : Spec.specialQuerySet c = true := by
  simp [Spec.specialQuerySet, query_hi c h]
theorem path_hi (c : Nat) (h : c ≥ 0x80) : Spec.pathSet c = true := by
  simp [Spec.pathSet, query_hi c h]
theorem userinfo_hi (c : Nat) (h : c ≥ 0x80) : Spec.userinfoSet c = true := by
  simp [Spec.userinfoSet, path_hi c h]
theorem component_hi (c : Nat) (h : c ≥ 0x80) : Spec.componentSet c = true := by
  simp [Spec.componentSet, userinfo_hi c h]
theorem urlencoded_hi (c : Nat) (h : c ≥ 0x80) : Spec.urlencodedSet c = true := by
  simp [Spec.urlencodedSet, component_hi c h]

/-! ## sample inputs for the examples in Upa/Props/C14.lean -/

/-- `a`, space, U+00E9, U+20AC, U+1F600, `%`, DEL, `?` -/
def sample : List Nat := [0x61, 0x20, 0xE9, 0x20AC, 0x1F600, 0x25, 0x7F, 0x3F]

/-- `%41%C3%A9%E2%82` U+20AC `%E2%82%41%C3%zz%ff%4` :
    `%41` (ASCII escape), `%C3%A9` (well-formed run), `%E2%82` + raw U+20AC (truncated run closed by a raw
    non-ASCII scalar), `%E2%82%41` (truncated sequence, then an ASCII escape inside the same run),
    `%C3%zz` (run continued by a non-hex `%`), `%ff` (lower-case hex digits, lone byte FF), `%4` (incomplete) -/
def dsample : List Nat :=
  [0x25, 0x34, 0x31, 0x25, 0x43, 0x33, 0x25, 0x41, 0x39, 0x25, 0x45, 0x32, 0x25, 0x38, 0x32, 0x20AC,
   0x25, 0x45, 0x32, 0x25, 0x38, 0x32, 0x25, 0x34, 0x31, 0x25, 0x43, 0x33, 0x25, 0x7A, 0x7A,
   0x25, 0x66, 0x66, 0x25, 0x34]

theorem dsample_eq :
    dsample = asciiStr "%41%C3%A9%E2%82" ++ [0x20AC] ++ asciiStr "%E2%82%41%C3%zz%ff%4" := by
  decide +kernel

end Upa.Proofs.C14

/-
  Lean notes.
  * `Impl.percentDecodeAux` and `Spec.percentDecodeBytes` are compiled by well-founded recursion
    (pattern `c :: r@(h1 :: h2 :: r')` with recursion on both `r` and `r'`): they are irreducible, so
    `decide`/`decide +kernel`/`rfl` cannot evaluate them.  Evaluate closed instances with
    `simp [Impl.percentDecode, Impl.percentDecodeAux, isHex, isDigit, hexVal]` (then `decide +kernel`
    for the remaining closed `checkFixUtf8 …` terms), and reason with the step lemmas `aux_none_*`,
    `aux_some_*`, `pdb_*`, `spd_*` above (none of them mentions the three-way pattern).
  * `aux_eq` holds for an ARBITRARY run buffer (no byte-range or well-formedness hypothesis): everything
    is stated on `Impl.decode .u8`, which is total on `List Nat`; the byte-range hypothesis is only
    needed at the very end to pass to `Spec.utf8Decode` (`Impl.decode_u8_eq_spec`).
  * `readU8_append_nt` / `decode_scalar_split` generalise `Impl.readU8_append` / `Impl.decode_ascii_split`
    from "an ASCII unit ends a pending sequence" to "any byte outside 80..BF does" (hence any
    well-formed sequence does).
-/
