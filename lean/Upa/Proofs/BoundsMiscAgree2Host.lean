import Upa.Proofs.BoundsMiscAgree2
/-
  Helper lemmas for C04g: `parseOpaqueHostM` / `parseHostM … (isOpaque := true)` (url_host.h:158-187,
  292-333) compute `Impl.parseOpaqueHost` / `Impl.parseHost … true` on the decoded input.
-/
namespace Upa.Impl.B
open Upa.Proofs.C10b

/-- an ASCII-only predicate holds somewhere in the decoded text iff it holds somewhere in the units -/
theorem any_decode (e : Enc) (g : Nat → Bool) (hg : AsciiPred g) (l : List Nat) (hu : UOk e l) :
    (Impl.decode e l).any g = l.any g := by
  apply Bool.eq_iff_iff.mpr
  simp only [List.any_eq_true]
  constructor
  · rintro ⟨c, hc, hgc⟩
    exact ⟨c, decode_ascii_mem e l hu c hc (hg c hgc), hgc⟩
  · rintro ⟨c, hc, hgc⟩
    obtain ⟨s, t, rfl⟩ := List.append_of_mem hc
    refine ⟨c, ?_, hgc⟩
    rw [Impl.decode_ascii_split e t c (hg c hgc) s]
    simp

theorem forbiddenHost_ascii : AsciiPred Spec.forbiddenHost := by
  intro c h
  simp only [Spec.forbiddenHost, Bool.or_eq_true, beq_iff_eq] at h
  omega

/-- `std::any_of(first, last, pred)` as `find_if(…) != last` -/
theorem findIfM_any (a : Array Nat) (first last : Nat) (pred : Nat → R Bool) (f : Nat → Bool)
    (hp : ∀ c, pred c = .ok (f c)) (h : first ≤ last) (hl : last ≤ a.size) :
    (findIfM a first last pred (last - first) first).sat (fun q =>
      (q ≠ last ↔ (slice a first last).any f = true)) := by
  refine R.sat_mono (findIfM_spec a first last pred f hp hl (last - first) first (Nat.le_refl _) (by omega)) ?_
  intro q ⟨q1, q2, q3, q4⟩
  constructor
  · intro hne
    rw [List.any_eq_true]
    exact ⟨a[q]!, slice_mem_of_idx a first last q q1 (by omega) hl, q4 (by omega)⟩
  · intro hany hq
    rw [List.any_eq_true] at hany
    obtain ⟨x, hx, hfx⟩ := hany
    obtain ⟨i, hi1, hi2, rfl⟩ := mem_slice a first last x hl hx
    have := q3 i hi1 (by omega)
    rw [this] at hfx
    cases hfx

theorem charInSetM_ascii (set : Nat → Bool) (hs : AsciiPred set) (c : Nat) : charInSetM set c = .ok (set c) := by
  obtain ⟨v, hv, he⟩ := charInSetM_sat set c
  rw [hv, he]
  by_cases hc : c ≤ 0xFF
  · simp [hc]
  · have : set c = false := by
      cases hh : set c
      · rfl
      · have := hs c hh; omega
    simp [this]

/-- `host_parser::parse_opaque_host` -/
theorem parseOpaqueHostM_agrees (e : Enc) (a : Array Nat) (first last : Nat) (h : first ≤ last) (hl : last ≤ a.size)
    (hu : UOk e (slice a first last)) :
    parseOpaqueHostM e a first last = .ok (Impl.parseOpaqueHost (Impl.decode e (slice a first last))) := by
  apply R.sat_eq
  unfold parseOpaqueHostM Impl.parseOpaqueHost
  rw [any_decode e _ forbiddenHost_ascii _ hu]
  refine R.sat_bind (findIfM_any a first last _ Spec.forbiddenHost (charInSetM_ascii _ forbiddenHost_ascii) h hl) ?_
  intro p hp
  by_cases hpl : p ≠ last
  · rw [if_pos hpl, if_pos (hp.1 hpl)]
    exact R.sat_pure rfl
  · rw [if_neg hpl, if_neg (fun hh => hpl (hp.2 hh))]
    refine R.sat_bind (simplePathM_agrees e a first last h hl hu) ?_
    intro ⟨ok, s⟩ hs
    simp only at hs
    refine R.sat_pure ?_
    rw [hs]

/-- `host_parser::parse_host(first, last, is_opaque = true, …)` on input that does not start with `[` -/
theorem parseHostM_opaque_agrees (idna : Idna) (e : Enc) (a : Array Nat) (first last : Nat) (h : first ≤ last)
    (hl : last ≤ a.size) (hu : UOk e (slice a first last)) (hnb : first < last → a[first]! ≠ 0x5B) :
    parseHostM idna e a first last true =
      .ok (Impl.parseHost idna (Impl.decode e (slice a first last)) true) := by
  unfold parseHostM
  by_cases hfl : first = last
  · rw [if_pos hfl, slice_nil a first last (by omega), Impl.decode_nil]
    rfl
  have hlt : first < last := by omega
  have hne : slice a first last ≠ [] := by rw [slice_cons a first last hlt hl]; exact List.cons_ne_nil _ _
  rw [if_neg hfl]
  simp only [rd_ok (Nat.le_refl _) hlt hl, R.ok_bind, if_neg (hnb hlt), if_true]
  rw [parseOpaqueHostM_agrees e a first last h hl hu]
  congr 1
  have hcp := (readChar_cp e _ hne hu).2
  rw [decode_step' e _ hne]
  generalize cpOf (Impl.readChar e (slice a first last)) = c0 at hcp
  have hc0 : c0 ≠ 0x5B := by
    intro hh
    have := hcp (by omega)
    rw [slice_cons a first last hlt hl] at this
    have := (List.cons.inj this).1
    exact hnb hlt (by omega)
  simp only [Impl.parseHost, if_neg hc0, if_true]

end Upa.Impl.B
