import Upa.Proofs.BoundsAgree3Ip4
import Upa.Proofs.Ipv6Parse
/-
  Helper lemmas for C04h, part 2: `ipv6Parse` of `Upa/Impl/Bounds.lean` (url_ip.h:240-383, array + index,
  local array `address[8]`) computes `Impl.ipv6Parse` on `slice a first last`.
-/
namespace Upa.Impl.B
open Upa.Proofs.V6 (stPut stCompress stV4 mainLoop_step v4Loop_step implStart implV4 implFinal ipv6Parse_eq hexVal_lt)

/-! ### local array ↔ list -/

theorem Loc.toList_length (l : Loc) : l.toList.length = l.size := by simp [Loc.toList]

theorem Loc.toList_wr (l : Loc) (i v : Nat) :
    Loc.toList ⟨l.size, fun j => if j = i then v else l.get j⟩ = l.toList.set i v := by
  apply List.ext_getElem
  · simp [Loc.toList]
  · intro n h1 h2
    simp only [Loc.toList, List.getElem_map, List.getElem_range, List.getElem_set]
    by_cases hn : n = i
    · subst hn; simp
    · rw [if_neg hn, if_neg (fun hh => hn hh.symm)]

theorem Loc.toList_getD (l : Loc) (i : Nat) (h : i < l.size) : l.toList.getD i 0 = l.get i := by
  simp [Loc.toList, List.getD_eq_getElem?_getD, h]

/-! ### get_hex_number -/

theorem getHexL_zero (p : List Nat) (v n : Nat) : Impl.getHexNumber 0 p v n = (v, n, p) := by
  rw [Impl.getHexNumber]

theorem getHexL_nil (m v n : Nat) : Impl.getHexNumber m [] v n = (v, n, []) := by
  cases m <;> simp [Impl.getHexNumber]

theorem getHexL_cons (m c : Nat) (r : List Nat) (v n : Nat) :
    Impl.getHexNumber (m + 1) (c :: r) v n =
      if isHex c = true then Impl.getHexNumber m r (v * 0x10 + hexVal c) (n + 1) else (v, n, c :: r) := by
  rw [Impl.getHexNumber]

theorem getHexL_len : ∀ (l : List Nat) (max v n : Nat), l.length ≤ max →
    Impl.getHexNumber max l v n = Impl.getHexNumber l.length l v n := by
  intro l
  induction l with
  | nil => intro max v n _; rw [getHexL_nil, getHexL_nil]
  | cons c r ih =>
    intro max v n h
    cases max with
    | zero => simp at h
    | succ m =>
      simp only [List.length_cons] at h ⊢
      rw [getHexL_cons, getHexL_cons, ih m _ _ (by omega)]

theorem isHex_lt (c : Nat) (h : isHex c = true) : c < 128 := by
  simp [isHex, isDigit] at h
  omega

/-- `get_hex_number(first, lim)` on a window of at most four units of `[first, L)` -/
theorem getHexNumber_agrees (a : Array Nat) (first lim L : Nat) (h1 : first ≤ lim) (h2 : lim ≤ L) (hL : L ≤ a.size)
    (h4 : lim - first ≤ 4) :
    (getHexNumber a first lim).sat (fun r => first ≤ r.1 ∧ r.1 ≤ lim ∧
      Impl.getHexNumber (lim - first) (slice a first L) 0 0 = (r.2, r.1 - first, slice a r.1 L)) := by
  unfold getHexNumber
  refine iter_sat _ (fun s => first ≤ s.1 ∧ s.1 ≤ lim ∧ s.2 < 16 ^ (s.1 - first) ∧
      Impl.getHexNumber (lim - s.1) (slice a s.1 L) s.2 (s.1 - first) =
        Impl.getHexNumber (lim - first) (slice a first L) 0 0) (fun s => lim - s.1) _ ?_ _ _ ?_ ?_
  · intro ⟨p, value⟩ ⟨i1, i2, i3, i4⟩
    simp only at i1 i2 i3 i4 ⊢
    split
    · rename_i hp
      subst hp
      rw [Nat.sub_self, getHexL_zero] at i4
      exact R.sat_pure ⟨i1, i2, i4.symm⟩
    · rename_i hp
      have hpl : p < lim := by omega
      simp only [rd_ok i1 hpl (by omega : lim ≤ a.size), R.ok_bind]
      have e : lim - p = (lim - (p + 1)) + 1 := by omega
      rw [e, slice_cons a p L (by omega) hL, getHexL_cons] at i4
      split
      · rename_i hx
        rw [if_pos hx] at i4
        have hc := isHex_lt _ hx
        have hv := hexVal_lt _ hx
        have hm : a[p]! % 256 = a[p]! := Nat.mod_eq_of_lt (by omega)
        simp only [hm, idx_ok (by omega : a[p]! / 0x20 < 8), R.ok_bind]
        psimp
        have e' : p + 1 - first = (p - first) + 1 := by omega
        have hk : p - first = 0 ∨ p - first = 1 ∨ p - first = 2 ∨ p - first = 3 := by omega
        have hnew : value * 0x10 + hexVal a[p]! < 16 ^ (p + 1 - first) ∧ value * 0x10 + hexVal a[p]! < 65536 := by
          rw [e']
          rcases hk with k | k | k | k <;> rw [k] at i3 ⊢ <;> simp only [Nat.reducePow, Nat.reduceAdd] at i3 ⊢ <;> omega
        refine R.sat_pure ?_
        simp only []
        refine ⟨⟨by omega, by omega, ?_, ?_⟩, by omega⟩
        · rw [Nat.mod_eq_of_lt hnew.2]; exact hnew.1
        · rw [Nat.mod_eq_of_lt hnew.2, e', ← i4]
      · rename_i hx
        rw [if_neg hx] at i4
        refine R.sat_pure ⟨i1, i2, ?_⟩
        simp only []
        rw [← i4, slice_cons a p L (by omega) hL]
  · refine ⟨Nat.le_refl _, h1, ?_, ?_⟩
    · simp
    · simp
  · rarith

/-! ### the main loop -/

theorem v6AfterHex_eq (a : Array Nat) (first last p0 p : Nat) (hl : last ≤ a.size) (h1 : first ≤ p) (h2 : p ≤ last) :
    v6AfterHex a first last p0 p = .ok (
      if p ≠ last then
        (if a[p]! = 0x2E then (if p = p0 then .fail else .v4)
         else if a[p]! = 0x3A then (if p + 1 = last then .fail else .go (p + 1))
         else .fail)
      else .go p) := by
  unfold v6AfterHex
  by_cases hp : p ≠ last
  · simp only [if_pos hp, rd_ok h1 (by omega : p < last) hl, R.ok_bind]
    by_cases c1 : a[p]! = 0x2E
    · simp only [if_pos c1]
      split <;> rfl
    · simp only [if_neg c1]
      by_cases c2 : a[p]! = 0x3A
      · simp only [if_pos c2]
        psimp
        split <;> rfl
      · simp only [if_neg c2]; rfl
  · simp only [if_neg hp]; rfl

/-- the state of the list model that corresponds to the loop state of the instrumented model -/
def toSt (pieceIndex compress : Nat) (address : Loc) : Impl.V6St :=
  { address := address.toList, pieceIndex := pieceIndex, compress := compress }

/-- the result of the list model's main loop that corresponds to a result of the instrumented one -/
def mainRes (a : Array Nat) (last : Nat) : Option (V6Main × Bool) → Option (Impl.V6St × Option (List Nat))
  | none => none
  | some ((pointer, pieceIndex, compress, address), isIpv4) =>
    some (toSt pieceIndex compress address, if isIpv4 then some (slice a pointer last) else none)

theorem v6MainLoop_agrees (a : Array Nat) (first last : Nat) (hl : last ≤ a.size) (st : V6Main)
    (hst : V6Inv first last st) (F : Nat) (hF : last - st.1 < F) :
    (v6MainLoop a first last 8 (last - first + 1) st).sat (fun r =>
      mainRes a last r = Impl.v6MainLoop F (slice a st.1 last) (toSt st.2.1 st.2.2.1 st.2.2.2)) := by
  unfold v6MainLoop
  refine iter_sat _ (fun s => V6Inv first last s ∧ ∃ f, last - s.1 < f ∧
      Impl.v6MainLoop f (slice a s.1 last) (toSt s.2.1 s.2.2.1 s.2.2.2) =
        Impl.v6MainLoop F (slice a st.1 last) (toSt st.2.1 st.2.2.1 st.2.2.2))
    (fun s => last - s.1) _ ?_ _ _ ⟨hst, F, hF, rfl⟩ ?_
  · intro ⟨pointer, pieceIndex, compress, address⟩ ⟨⟨h1, h2, h3, h4⟩, f, hf, hT⟩
    simp only at h1 h2 h3 h4 hf hT ⊢
    obtain ⟨f0, rfl⟩ : ∃ f0, f = f0 + 1 := ⟨f - 1, by omega⟩
    split
    · rename_i hlt
      refine R.sat_pure ?_
      simp only []
      rw [slice_nil a pointer last (by omega)] at hT
      rw [← hT]
      cases f0 <;> rfl
    rename_i hlt
    have hlt' : pointer < last := by omega
    have hsl := slice_cons a pointer last hlt' hl
    have hstep := fun value n p' hg => mainLoop_step f0 a[pointer]! (slice a (pointer + 1) last)
      (toSt pieceIndex compress address) value n p' hg
    rw [hsl] at hT
    split
    · rename_i h8
      refine R.sat_pure ?_
      simp only []
      rw [← hT]
      rcases hgx : Impl.getHexNumber 4 (a[pointer]! :: slice a (pointer + 1) last) 0 0 with ⟨v, n, p'⟩
      rw [hstep v n p' hgx, if_pos (by exact h8)]
      rfl
    rename_i h8
    simp only [rd_ok h1 hlt' hl, R.ok_bind]
    split
    · rename_i hc
      rcases hgx : Impl.getHexNumber 4 (a[pointer]! :: slice a (pointer + 1) last) 0 0 with ⟨v, n, p'⟩
      rw [hstep v n p' hgx, if_neg (by exact h8), if_pos hc] at hT
      split
      · rename_i hcm
        rw [if_pos (by exact hcm)] at hT
        exact R.sat_pure (by simp only []; exact hT)
      · rename_i hcm
        rw [if_neg (by exact hcm)] at hT
        psimp
        refine R.sat_pure ?_
        simp only []
        refine ⟨⟨⟨?_, ?_, ?_, h4⟩, f0, ?_, hT⟩, ?_⟩ <;> rarith
    · rename_i hc
      refine R.sat_bind (P := fun lim => lim = (if last - pointer ≤ 4 then last else pointer + 4)) ?_ ?_
      · split
        · exact R.sat_pure rfl
        · psimp; exact R.sat_pure rfl
      intro lim hlim
      have hlim' : pointer ≤ lim ∧ lim ≤ last ∧ lim - pointer ≤ 4 := by rw [hlim]; split <;> omega
      simp only [sub_ok h1 hlim'.1 hlim'.2.1, R.ok_bind]
      refine R.sat_bind (getHexNumber_agrees a pointer lim last hlim'.1 hlim'.2.1 hl hlim'.2.2) ?_
      intro ⟨p', value⟩ ⟨g1, g2, g3⟩
      simp only at g1 g2 g3 ⊢
      have hg4 : Impl.getHexNumber 4 (a[pointer]! :: slice a (pointer + 1) last) 0 0 =
          (value, p' - pointer, slice a p' last) := by
        rw [← hsl, ← g3]
        by_cases h44 : last - pointer ≤ 4
        · have : lim = last := by rw [hlim, if_pos h44]
          rw [this, getHexL_len _ 4 _ _ (by rw [slice_length a _ _ hl]; omega), slice_length a _ _ hl]
        · have : lim - pointer = 4 := by rw [hlim, if_neg h44]; omega
          rw [this]
      rw [hstep _ _ _ hg4, if_neg (by exact h8), if_neg hc] at hT
      rw [v6AfterHex_eq a first last pointer p' hl (by omega) (by omega)]
      simp only [R.ok_bind]
      by_cases hpl : p' ≠ last
      · have hpl' : p' < last := by omega
        rw [slice_cons a p' last hpl' hl] at hT
        simp only [if_pos hpl]
        simp only [] at hT
        by_cases c1 : a[p']! = 0x2E
        · simp only [if_pos c1] at hT ⊢
          by_cases hpp : p' = pointer
          · rw [if_pos hpp]
            rw [if_pos (by omega)] at hT
            exact R.sat_pure (by simp only []; exact hT)
          · rw [if_neg hpp]
            rw [if_neg (by omega)] at hT
            refine R.sat_pure ?_
            simp only [mainRes, if_true]
            rw [← hT, hsl]
        · simp only [if_neg c1] at hT ⊢
          by_cases c2 : a[p']! = 0x3A
          · simp only [if_pos c2] at hT ⊢
            by_cases hend : p' + 1 = last
            · rw [if_pos hend]
              rw [if_pos ((slice_eq_nil_iff a _ _ hl).2 (by omega))] at hT
              exact R.sat_pure (by simp only []; exact hT)
            · rw [if_neg hend]
              rw [if_neg (fun hh => hend (by have := (slice_eq_nil_iff a _ _ hl).1 hh; omega))] at hT
              simp only [Loc.wr_ok (by omega : pieceIndex < address.size), R.ok_bind]
              refine R.sat_pure ?_
              simp only []
              refine ⟨⟨⟨by rarith, by rarith, by rarith, h4⟩, f0,
                by rarith, ?_⟩, by rarith⟩
              rw [← hT]
              simp only [toSt, stPut, Loc.toList_wr]
          · simp only [if_neg c2] at hT ⊢
            exact R.sat_pure (by simp only []; exact hT)
      · have hpe : p' = last := by omega
        simp only [if_neg hpl]
        rw [hpe, slice_nil a last last (Nat.le_refl _)] at hT
        simp only [] at hT
        simp only [Loc.wr_ok (by omega : pieceIndex < address.size), R.ok_bind]
        refine R.sat_pure ?_
        simp only []
        refine ⟨⟨⟨by rarith, by rarith, by rarith, h4⟩, f0,
          by rarith, ?_⟩, by rarith⟩
        rw [← hT, hpe, slice_nil a last last (Nat.le_refl _)]
        simp only [toSt, stPut, Loc.toList_wr]
  · have := hst.1; have := hst.2.1; omega

/-! ### the IPv4 tail -/

theorem v6DigL_nil (piece : Nat) : Impl.v6Digits [] piece = some (piece, []) := by rw [Impl.v6Digits]

theorem v6DigL_cons (d : Nat) (r : List Nat) (piece : Nat) :
    Impl.v6Digits (d :: r) piece =
      if isDigit d = true then
        (if piece = 0 then none
         else if piece * 10 + (d - 0x30) > 255 then none else Impl.v6Digits r (piece * 10 + (d - 0x30)))
      else some (piece, d :: r) := by
  rw [Impl.v6Digits]

def digRes (a : Array Nat) (last : Nat) : Option (Nat × Nat) → Option (Nat × List Nat)
  | none => none
  | some (p, piece) => some (piece, slice a p last)

theorem v6Digits_agrees (a : Array Nat) (first last : Nat) (hl : last ≤ a.size) (p0 piece0 fuel : Nat)
    (h1 : first ≤ p0) (h2 : p0 ≤ last) (hf : last - p0 < fuel) :
    (v6Digits a first last fuel (p0, piece0)).sat
      (fun r => digRes a last r = Impl.v6Digits (slice a p0 last) piece0) := by
  unfold v6Digits
  refine iter_sat _ (fun s => p0 ≤ s.1 ∧ s.1 ≤ last ∧
      Impl.v6Digits (slice a s.1 last) s.2 = Impl.v6Digits (slice a p0 last) piece0) (fun s => last - s.1) _ ?_ _ _ ?_ ?_
  · intro ⟨p, piece⟩ ⟨i1, i2, i3⟩
    simp only at i1 i2 i3 ⊢
    split
    · rename_i hp
      subst hp
      rw [slice_nil a p p (Nat.le_refl _), v6DigL_nil] at i3
      refine R.sat_pure ?_
      simp only [digRes]
      rw [slice_nil a p p (Nat.le_refl _)]
      exact i3
    · rename_i hp
      have hpl : p < last := by omega
      simp only [rd_ok (by omega : first ≤ p) hpl hl, R.ok_bind]
      rw [slice_cons a p last hpl hl, v6DigL_cons] at i3
      split
      · rename_i hd
        rw [if_pos hd] at i3
        split
        · rename_i h0
          rw [if_pos h0] at i3
          exact R.sat_pure (by simp only []; exact i3)
        · rename_i h0
          rw [if_neg h0] at i3
          split
          · rename_i hbig
            rw [if_pos hbig] at i3
            exact R.sat_pure (by simp only []; exact i3)
          · rename_i hbig
            rw [if_neg hbig] at i3
            psimp
            refine R.sat_pure ?_
            simp only []
            exact ⟨⟨by omega, by omega, i3⟩, by omega⟩
      · rename_i hd
        rw [if_neg hd] at i3
        refine R.sat_pure ?_
        simp only [digRes]
        rw [← i3, slice_cons a p last hpl hl]
  · exact ⟨Nat.le_refl _, h2, rfl⟩
  · rarith

/-- the body of one iteration of the list model's IPv4-tail loop, after the optional dot -/
def v4Body (f ns : Nat) (st : Impl.V6St) (l : List Nat) : Option Impl.V6St :=
  match l with
  | [] => none
  | d :: r' =>
    if (!isDigit d) = true then none
    else match Impl.v6Digits r' (d - 0x30) with
      | none => none
      | some (piece, rest) => Impl.v6V4Loop f rest (ns + 1) (stV4 st piece (ns + 1))

theorem v4L_step (f c : Nat) (r : List Nat) (ns : Nat) (st : Impl.V6St) :
    Impl.v6V4Loop (f + 1) (c :: r) ns st =
      match (if ns > 0 then (if c = 0x2E ∧ ns < 4 then some r else none) else some (c :: r)) with
      | none => none
      | some l => v4Body f ns st l := by
  rw [v4Loop_step]
  generalize (if ns > 0 then (if c = 0x2E ∧ ns < 4 then some r else none) else some (c :: r)) = q
  rcases q with _ | _ | ⟨d, r'⟩ <;> rfl

theorem v4L_nil (f ns : Nat) (st : Impl.V6St) :
    Impl.v6V4Loop (f + 1) [] ns st = if ns ≠ 4 then none else some st := by
  rw [Impl.v6V4Loop]
  exact Nat.succ_ne_zero f

def v4Res (cmp : Nat) : Option V6V4 → Option Impl.V6St
  | none => none
  | some (_, ns, pi, addr) => if ns ≠ 4 then none else some (toSt pi cmp addr)

theorem v6V4Loop_agrees (a : Array Nat) (first last : Nat) (hl : last ≤ a.size) (cmp pointer p0 : Nat) (address : Loc)
    (h1 : first ≤ pointer) (h2 : pointer ≤ last) (h3 : p0 ≤ 6) (h4 : address.size = 8) (F : Nat)
    (hF : last - pointer < F) :
    (v6V4Loop a first last (last - first + 1) (pointer, 0, p0, address)).sat
      (fun r => v4Res cmp r = Impl.v6V4Loop F (slice a pointer last) 0 (toSt p0 cmp address)) := by
  unfold v6V4Loop
  refine iter_sat _ (fun s => first ≤ s.1 ∧ s.1 ≤ last ∧ s.2.1 ≤ 4 ∧ s.2.2.1 = p0 + s.2.1 / 2 ∧ s.2.2.2.size = 8 ∧
      ∃ f, last - s.1 < f ∧ Impl.v6V4Loop f (slice a s.1 last) s.2.1 (toSt s.2.2.1 cmp s.2.2.2) =
        Impl.v6V4Loop F (slice a pointer last) 0 (toSt p0 cmp address))
    (fun s => last - s.1) _ ?_ _ _ ?_ ?_
  · intro ⟨ptr, ns, pi, addr⟩ ⟨i1, i2, i3, i4, i5, f, hf, hT⟩
    simp only at i1 i2 i3 i4 i5 hf hT ⊢
    obtain ⟨f0, rfl⟩ : ∃ f0, f = f0 + 1 := ⟨f - 1, by omega⟩
    split
    · rename_i hlt
      refine R.sat_pure ?_
      simp only []
      rw [slice_nil a ptr last (by omega), v4L_nil] at hT
      rw [← hT]
      rfl
    rename_i hlt
    have hlt' : ptr < last := by omega
    rw [slice_cons a ptr last hlt' hl, v4L_step] at hT
    refine R.sat_bind (P := fun r => match r with
      | none => none = Impl.v6V4Loop F (slice a pointer last) 0 (toSt p0 cmp address)
      | some p => ptr ≤ p ∧ p ≤ last ∧ ns ≤ 3 ∧
          v4Body f0 ns (toSt pi cmp addr) (slice a p last) =
            Impl.v6V4Loop F (slice a pointer last) 0 (toSt p0 cmp address)) ?_ ?_
    · split
      · rename_i hns
        rw [if_pos hns] at hT
        simp only [rd_ok i1 hlt' hl, R.ok_bind]
        split
        · rename_i hc
          rw [if_pos hc] at hT
          psimp
          exact R.sat_pure ⟨by omega, by omega, by omega, hT⟩
        · rename_i hc
          rw [if_neg hc] at hT
          exact R.sat_pure hT
      · rename_i hns
        rw [if_neg hns, ← slice_cons a ptr last hlt' hl] at hT
        exact R.sat_pure ⟨Nat.le_refl _, i2, by omega, hT⟩
    intro p? hp?
    cases p? with
    | none => exact R.sat_pure (by simp only [] at hp? ⊢; exact hp?)
    | some p =>
      obtain ⟨q1, q2, q3, hB⟩ := hp?
      simp only
      split
      · rename_i hpe
        rw [hpe, slice_nil a last last (Nat.le_refl _)] at hB
        exact R.sat_pure (by simp only []; exact hB)
      rename_i hpe
      have hpl : p < last := by omega
      simp only [rd_ok (by omega : first ≤ p) hpl hl, R.ok_bind]
      rw [slice_cons a p last hpl hl] at hB
      simp only [v4Body] at hB
      split
      · rename_i hd
        rw [if_pos hd] at hB
        exact R.sat_pure (by simp only []; exact hB)
      rename_i hd
      rw [if_neg hd] at hB
      psimp
      refine R.sat_bind (R.sat_and (v6Digits_sat a first last hl (p + 1) (a[p]! - 0x30) _ (by omega) (by omega) (by omega))
        (v6Digits_agrees a first last hl (p + 1) (a[p]! - 0x30) _ (by omega) (by omega) (by omega))) ?_
      intro r ⟨hr, hag⟩
      rw [← hag] at hB
      cases r with
      | none => exact R.sat_pure (by simp only [] at hB ⊢; exact hB)
      | some pp =>
        obtain ⟨p', piece⟩ := pp
        have hb := hr p' piece rfl
        simp only [digRes] at hB
        have hpi : pi < 8 := by omega
        simp only [Loc.rd_ok (by omega : pi < addr.size), Loc.wr_ok (by omega : pi < addr.size), R.ok_bind]
        refine R.sat_pure ?_
        simp only []
        refine ⟨⟨by omega, by omega, by omega, ?_, i5, f0, by omega, ?_⟩, by omega⟩
        · split <;> omega
        · rw [← hB]
          simp only [toSt, stV4, Loc.toList_wr, Loc.toList_getD addr pi (by omega)]
  · exact ⟨h1, h2, by simp, by simp, h4, F, hF, rfl⟩
  · rarith

/-! ### the final shift -/

theorem v6ShiftL_succ (diff compress k : Nat) (l : List Nat) :
    Impl.v6Shift diff compress (k + 1) l =
      Impl.v6Shift diff compress k ((l.set (compress + k + diff) (l.getD (compress + k) 0)).set (compress + k) 0) := by
  rw [Impl.v6Shift]

theorem v6Shift_agrees (diff compress pieceIndex : Nat) (address : Loc) (hc : 1 ≤ compress) (hp : pieceIndex ≤ 8)
    (hd : diff = 8 - pieceIndex) (h4 : address.size = 8) :
    (v6Shift diff compress 9 (pieceIndex - 1, address)).sat
      (fun r => r.toList = Impl.v6Shift diff compress (pieceIndex - compress) address.toList) := by
  unfold v6Shift
  refine iter_sat _ (fun s => s.1 ≤ pieceIndex - 1 ∧ s.2.size = 8 ∧
      Impl.v6Shift diff compress (s.1 + 1 - compress) s.2.toList =
        Impl.v6Shift diff compress (pieceIndex - compress) address.toList) (fun s => s.1) _ ?_ _ _ ?_ ?_
  · intro ⟨ind, addr⟩ ⟨i1, i2, i3⟩
    simp only at i1 i2 i3 ⊢
    split
    · rename_i hge
      simp only [Loc.rd_ok (by omega : ind < addr.size), Loc.wr_ok (by omega : ind + diff < addr.size), R.ok_bind]
      rw [Loc.wr_ok (by simp only []; omega)]
      simp only [R.ok_bind]
      refine R.sat_pure ?_
      simp only []
      refine ⟨⟨by omega, i2, ?_⟩, by omega⟩
      have e : ind + 1 - compress = (ind - compress) + 1 := by omega
      have e2 : compress + (ind - compress) = ind := by omega
      have e3 : ind - 1 + 1 - compress = ind - compress := by omega
      rw [e, v6ShiftL_succ, e2] at i3
      rw [e3, ← i3]
      have hw := Loc.toList_wr ⟨addr.size, fun j => if j = ind + diff then addr.get ind else addr.get j⟩ ind 0
      simp only [] at hw
      rw [hw, Loc.toList_wr, Loc.toList_getD addr ind (by omega)]
    · rename_i hge
      refine R.sat_pure ?_
      have e : ind + 1 - compress = 0 := by omega
      rw [e] at i3
      rw [← i3]
      rfl
  · refine ⟨Nat.le_refl _, h4, ?_⟩
    have e : pieceIndex - 1 + 1 - compress = pieceIndex - compress := by omega
    simp only [e]
  · rarith

/-! ### ipv6_parse -/

theorem ipv6Parse_agrees (a : Array Nat) (first last : Nat) (h : first ≤ last) (hl : last ≤ a.size) :
    ipv6Parse a first last = .ok (Impl.ipv6Parse (slice a first last)) := by
  apply R.sat_eq
  rw [ipv6Parse_eq, slice_length a first last hl]
  unfold ipv6Parse
  simp only []
  split
  · rename_i h2
    split
    · exact R.sat_pure rfl
    · simp only [rd_ok (Nat.le_refl first) (by omega : first < last) hl, R.ok_bind]
      exact R.sat_pure rfl
  rename_i h2
  have hlt : first < last := by omega
  have hlt1 : first + 1 < last := by omega
  simp only [rd_ok (Nat.le_refl first) hlt hl, R.ok_bind]
  refine R.sat_bind (P := fun r => match r with
    | none => implStart (slice a first last) = none
    | some s => V6Inv first last s ∧
        implStart (slice a first last) = some (slice a s.1 last, toSt s.2.1 s.2.2.1 s.2.2.2)) ?_ ?_
  · rw [slice_cons a first last hlt hl, slice_cons a (first + 1) last hlt1 hl]
    split
    · rename_i hc0
      simp only [rd_ok (by omega : first ≤ first + 1) hlt1 hl, R.ok_bind]
      split
      · rename_i hc1
        refine R.sat_pure ?_
        simp only [hc0, implStart, if_pos hc1]
      · rename_i hc1
        psimp
        refine R.sat_pure ?_
        simp only [hc0, implStart, if_neg hc1]
        exact ⟨⟨by rarith, by rarith, by rarith, rfl⟩, rfl⟩
    · rename_i hc0
      refine R.sat_pure ?_
      simp only []
      refine ⟨⟨by rarith, by rarith, by rarith, rfl⟩, ?_⟩
      unfold implStart
      split
      · rename_i heq
        simp only [List.cons.injEq] at heq
        exact absurd heq.1 hc0
      · rw [slice_cons a first last hlt hl, slice_cons a (first + 1) last hlt1 hl]
        rfl
  intro start hstart
  cases start with
  | none =>
    simp only [] at hstart
    rw [hstart]
    exact R.sat_pure rfl
  | some st =>
    obtain ⟨hinv, hst⟩ := hstart
    rw [hst]
    simp only [Option.bind]
    refine R.sat_bind (R.sat_and (v6MainLoop_sat a first last hl st hinv)
      (v6MainLoop_agrees a first last hl st hinv (last - first + 1) (by have := hinv.1; omega))) ?_
    intro r ⟨hr, hag⟩
    rw [← hag]
    cases r with
    | none => exact R.sat_pure rfl
    | some sb =>
      obtain ⟨⟨pointer, pieceIndex, compress, address⟩, isIpv4⟩ := sb
      obtain ⟨m1, m2, m3, m4⟩ := hr _ _ rfl
      simp only at m1 m2 m3 m4 ⊢
      refine R.sat_bind (P := fun r => (∀ pi ad, r = some (pi, ad) → pi ≤ 8 ∧ ad.size = 8) ∧
        r.map (fun pa => toSt pa.1 compress pa.2) =
          implV4 (last - first + 1) (mainRes a last (some ((pointer, pieceIndex, compress, address), isIpv4)))) ?_ ?_
      · split
        · rename_i hv4
          subst hv4
          split
          · rename_i h6
            refine R.sat_pure ⟨(by intro _ _ hh; cases hh), ?_⟩
            simp only [mainRes, implV4, if_true, toSt, if_pos h6]
            rfl
          · rename_i h6
            refine R.sat_bind (R.sat_and (v6V4Loop_sat a first last hl pointer pieceIndex address m1 m2 (by omega) m4)
              (v6V4Loop_agrees a first last hl compress pointer pieceIndex address m1 m2 (by omega) m4
                (last - first + 1) (by omega))) ?_
            intro r4 ⟨hr4, hag4⟩
            have himp : implV4 (last - first + 1) (mainRes a last (some ((pointer, pieceIndex, compress, address), true))) =
                v4Res compress r4 := by
              rw [hag4]
              simp only [mainRes, implV4, if_true, toSt, if_neg h6]
            rw [himp]
            cases r4 with
            | none => exact R.sat_pure ⟨(by intro _ _ hh; cases hh), rfl⟩
            | some s4 =>
              obtain ⟨p4, ns4, pi4, ad4⟩ := s4
              have := hr4 _ rfl
              simp only at this ⊢
              split
              · rename_i hns
                refine R.sat_pure ⟨(by intro _ _ hh; cases hh), ?_⟩
                simp only [v4Res, if_pos hns]
                rfl
              · rename_i hns
                refine R.sat_pure ⟨?_, ?_⟩
                · intro pi ad hh
                  simp only [Option.some.injEq, Prod.mk.injEq] at hh
                  rw [← hh.1, ← hh.2]
                  exact this
                · simp only [v4Res, if_neg hns]
                  rfl
        · rename_i hv4
          have : isIpv4 = false := by simpa using hv4
          subst this
          refine R.sat_pure ⟨?_, ?_⟩
          · intro pi ad hh
            simp only [Option.some.injEq, Prod.mk.injEq] at hh
            rw [← hh.1, ← hh.2]
            exact ⟨m3, m4⟩
          · simp [mainRes, implV4]
      intro tail ⟨htail, htag⟩
      rw [← htag]
      cases tail with
      | none => exact R.sat_pure rfl
      | some pa =>
        obtain ⟨pi, ad⟩ := pa
        have ht := htail pi ad rfl
        simp only [Option.map_some, implFinal, toSt]
        split
        · rename_i hcm
          split
          · rename_i hdf
            refine R.sat_bind (v6Shift_agrees _ compress pi ad (by omega) ht.1 rfl ht.2) ?_
            intro r hr
            refine R.sat_pure ?_
            rw [hr]
          · exact R.sat_pure rfl
        · split
          · exact R.sat_pure rfl
          · exact R.sat_pure rfl

end Upa.Impl.B
