import Upa.Proofs.BoundsUrlVerdictFile
import Upa.Proofs.BoundsUrlVerdictPort
import Upa.Proofs.BoundsUrlVerdictHost
import Upa.Proofs.BoundsUrlVerdictAuth
/-
  Helper lemmas for C04f, part 7: the states between scheme_state and authority_state
  (special_authority_slashes, relative_slash, relative, path_or_authority, special_relative_or_authority,
  no_scheme) of the instrumented model answer what the list model answers on the decoded rest.
-/
namespace Upa.Impl.B
open UP Upa.Proofs.C10b

section
variable (c : Ctx) (W : c.Wf)
include W

/-! ### composition of the states proved so far -/

theorem sim_host' (m : M) (u : Url) (hI : Inv c m u) (hs : m.state = .host ∨ m.state = .hostname)
    (hov : c.ov.isSome = true → u = c.u0) :
    kHost c m = .ok (vd (hostState c.idna c.ov u (c.D m.pointer))) :=
  sim_host c W (sim_port c W) (sim_fileHost c W) m u hI hs hov

theorem sim_authority' (hov : c.ov = none) (m : M) (u : Url) (hI : Inv c m u) (hs : m.state = .authority) :
    kAuthority c m = .ok (vd (authorityState c.idna c.ov u (c.D m.pointer))) :=
  sim_authority c W (fun m' u' hI' hs' => sim_host' c W m' u' hI' (Or.inl hs') (by simp [hov])) m u hI hs

theorem sim_sais' (hov : c.ov = none) (m : M) (u : Url) (hI : Inv c m u)
    (hs : m.state = .specialAuthorityIgnoreSlashes) :
    kSAIS c m = .ok (vd (ignoreSlashesState c.idna c.ov u (c.D m.pointer))) :=
  sim_sais c W (sim_authority' c W hov) m u hI hs

/-! ### peeks -/

/-- a decoded rest that starts with the ASCII value `k` ↔ the unit at `p` is `k` -/
theorem D_head_eq (p k : Nat) (hk : k < 0x80) (hp : p < c.last) (ha : c.a[p]! = k) :
    c.D p = k :: c.D (p + 1) := by
  rw [c.D_ascii W p hp (by omega), ha]

theorem D_head_ne (p k : Nat) (hk : k < 0x80) (h : ¬ (p < c.last ∧ c.a[p]! = k)) : ∀ r, c.D p ≠ k :: r := by
  intro r hr
  by_cases hp : p < c.last
  · obtain ⟨ch, t, hD, hkk, _⟩ := c.D_peek' W p hp
    rw [hD] at hr
    have : ch = k := (List.cons.inj hr).1
    exact h ⟨hp, (hkk k hk).1 this⟩
  · have hp' : p ≥ c.last := by omega
    have : c.D p = [] := Dl_nil c.e c.a p c.last hp'
    rw [this] at hr
    cases hr

theorem D_two_eq (p : Nat) (hp : p + 2 ≤ c.last) (h0 : c.a[p]! = 0x2F) (h1 : c.a[p + 1]! = 0x2F) :
    c.D p = 0x2F :: 0x2F :: c.D (p + 2) := by
  rw [D_head_eq c W p 0x2F (by omega) (by omega) h0, D_head_eq c W (p + 1) 0x2F (by omega) (by omega) h1]

theorem D_two_ne (p : Nat) (h : ¬ (p + 2 ≤ c.last ∧ c.a[p]! = 0x2F ∧ c.a[p + 1]! = 0x2F)) :
    ∀ r, c.D p ≠ 0x2F :: 0x2F :: r := by
  intro r hr
  by_cases h0 : p < c.last ∧ c.a[p]! = 0x2F
  · rw [D_head_eq c W p 0x2F (by omega) h0.1 h0.2] at hr
    have hr' : c.D (p + 1) = 0x2F :: r := (List.cons.inj hr).2
    by_cases h1 : p + 1 < c.last ∧ c.a[p + 1]! = 0x2F
    · exact h ⟨by omega, h0.2, h1.2⟩
    · exact D_head_ne c W (p + 1) 0x2F (by omega) h1 r hr'
  · exact D_head_ne c W p 0x2F (by omega) h0 _ hr

theorem twoSlashesB_spec (p : Nat) (h1 : c.first ≤ p) :
    (twoSlashesB c.a c.first c.last p 1).sat
      (fun t => t = decide (p + 2 ≤ c.last ∧ c.a[p]! = 0x2F ∧ c.a[p + 1]! = 0x2F)) := by
  have hl := W.hl
  unfold twoSlashesB
  split
  · upsimp
    split
    · rename_i h0
      upsimp
      refine R.sat_pure ?_
      by_cases h1 : c.a[p + 1]! = 0x2F
      · simp [h0, h1]; omega
      · simp [h1]
    · rename_i h0
      exact R.sat_pure (by simp [h0])
  · exact R.sat_pure (by simp; omega)

theorem peekIsB_spec (p k : Nat) (h1 : c.first ≤ p) :
    (peekIsB c.a c.first c.last p k 0).sat (fun t => t = decide (p < c.last ∧ c.a[p]! = k)) := by
  have hl := W.hl
  unfold peekIsB
  simp only [Nat.add_zero]
  split
  · rename_i hp
    upsimp
    refine R.sat_pure ?_
    by_cases hk : c.a[p]! = k <;> simp [hk, hp]
  · rename_i hp
    exact R.sat_pure (by simp [hp])

/-! ### special_authority_slashes_state -/

theorem sim_sas (hov : c.ov = none) (m : M) (u : Url) (hI : Inv c m u) (hs : m.state = .specialAuthoritySlashes) :
    kSAS c m = .ok (vd (specialAuthoritySlashesState c.idna c.ov u (c.D m.pointer))) := by
  obtain ⟨st, p, sp, fl⟩ := m
  obtain ⟨⟨h1, h2⟩, h3, h4⟩ := hI
  simp only [] at hs h1 h2 h3 h4
  subst hs
  refine stepB_ok rfl ?_
  unfold bSpecialAuthoritySlashes
  refine R.sat_bind (twoSlashesB_spec c W p h1) ?_
  intro t ht
  by_cases h2s : p + 2 ≤ c.last ∧ c.a[p]! = 0x2F ∧ c.a[p + 1]! = 0x2F
  · simp only [h2s, and_self, decide_true] at ht
    subst ht
    simp only [if_true]
    upsimp
    refine R.sat_pure ?_
    simp only []
    rw [D_two_eq c W p h2s.1 h2s.2.1 h2s.2.2]
    simp only [specialAuthoritySlashesState]
    exact sim_sais' c W hov _ u ⟨⟨by simp only []; omega, by simp only []; omega⟩, h3, h4⟩ rfl
  · have : t = false := by rw [ht]; simp only [decide_eq_false_iff_not]; exact h2s
    subst this
    simp only [Bool.false_eq_true, if_false]
    refine R.sat_pure ?_
    simp only []
    have hne := D_two_ne c W p h2s
    have : specialAuthoritySlashesState c.idna c.ov u (c.D p) = ignoreSlashesState c.idna c.ov u (c.D p) := by
      unfold specialAuthoritySlashesState
      split
      · rename_i r heq; exact absurd heq (hne r)
      · rfl
    rw [this]
    exact sim_sais' c W hov _ u ⟨⟨h1, h2⟩, h3, h4⟩ rfl

/-! ### relative_slash_state -/

theorem sim_relativeSlash (hov : c.ov = none) (b : Url) (hb : c.baseU = some b) (m : M) (u : Url) (hI : Inv c m u)
    (hs : m.state = .relativeSlash) :
    kRelativeSlash c m = .ok (vd (relativeSlashState c.idna b c.ov u (c.D m.pointer))) := by
  obtain ⟨st, p, sp, fl⟩ := m
  obtain ⟨⟨h1, h2⟩, h3, h4⟩ := hI
  simp only [] at hs h1 h2 h3 h4
  subst hs
  have hl := W.hl
  refine stepB_ok rfl ?_
  unfold bRelativeSlash
  refine R.sat_bind (peekOr0B_spec c W p h1 h2) ?_
  intro ch hch
  simp only []
  have hbase : c.base = some (BaseInfo.ofUrl b) := by simp [Ctx.base, hb]
  by_cases hc1 : ch = 0x2F
  · have hp : p < c.last ∧ ch = c.a[p]! := by
      rcases hch with h | h
      · exact h
      · omega
    rw [if_pos hc1]
    upsimp
    refine R.sat_pure ?_
    simp only []
    rw [D_head_eq c W p 0x2F (by omega) hp.1 (by omega)]
    simp only [relativeSlashState, if_true]
    cases hsp : sp with
    | true =>
      rw [← h3, hsp]
      simp only [if_true]
      rw [kSAS_skip c _ (by simp)]
      exact sim_sais' c W hov _ u ⟨⟨by simp only []; omega, by simp only []; omega⟩, by rw [← h3, hsp], h4⟩ rfl
    | false =>
      rw [← h3, hsp]
      simp only [Bool.false_eq_true, if_false]
      rw [kSAS_skip c _ (by simp), kSAIS_skip c _ (by simp)]
      exact sim_authority' c W hov _ u ⟨⟨by simp only []; omega, by simp only []; omega⟩, by rw [← h3, hsp], h4⟩ rfl
  · rw [if_neg hc1]
    by_cases hc2 : ch = 0x5C ∧ sp = true
    · have hp : p < c.last ∧ ch = c.a[p]! := by
        rcases hch with h | h
        · exact h
        · omega
      rw [if_pos hc2]
      upsimp
      refine R.sat_pure ?_
      simp only []
      rw [D_head_eq c W p 0x5C (by omega) hp.1 (by omega)]
      have hus : u.isSpecial = true := by rw [← h3]; exact hc2.2
      simp only [relativeSlashState, hus, Bool.and_true]
      simp only [show ((0x5C : Nat) = 0x2F) = False from by simp, if_false, if_true]
      rw [kSAS_skip c _ (by simp)]
      exact sim_sais' c W hov _ u ⟨⟨by simp only []; omega, by simp only []; omega⟩, h3, h4⟩ rfl
    · rw [if_neg hc2, hbase]
      simp only []
      have hlist : vd (relativeSlashState c.idna b c.ov u (c.D p)) = true := by
        rcases hch with ⟨hp, hc⟩ | ⟨hp, hc⟩
        · obtain ⟨ch', t, hD, hk, _⟩ := c.D_peek' W p hp
          have e1 := hk 0x2F (by omega)
          have e2 := hk 0x5C (by omega)
          rw [hD]
          simp only [relativeSlashState]
          rw [if_neg (by rw [e1, ← hc]; exact hc1)]
          have : (decide (ch' = 0x5C) && u.isSpecial) = false := by
            cases hsp : u.isSpecial with
            | false => simp
            | true =>
              simp only [Bool.and_true, decide_eq_false_iff_not, e2]
              intro hh
              exact hc2 ⟨by omega, by rw [h3, hsp]⟩
          rw [this]
          simp only [Bool.false_eq_true, if_false]
          exact vd_pathState _ _ _
        · rw [hp, c.D_end]
          simp only [relativeSlashState]
          exact vd_pathState _ _ _
      rw [hlist]
      exact R.sat_pure (tail_kSAS c W _ ⟨h1, h2⟩ rfl)

/-! ### relative_state -/

theorem sim_relative (hov : c.ov = none) (b : Url) (hb : c.baseU = some b) (m : M) (u : Url) (hI : Inv c m u)
    (hs : m.state = .relative) :
    kRelative c m = .ok (vd (relativeState c.idna b c.ov u (c.D m.pointer))) := by
  obtain ⟨st, p, sp, fl⟩ := m
  obtain ⟨⟨h1, h2⟩, h3, h4⟩ := hI
  simp only [] at hs h1 h2 h3 h4
  subst hs
  have hl := W.hl
  refine stepB_ok rfl ?_
  have hbase : c.base = some (BaseInfo.ofUrl b) := by simp [Ctx.base, hb]
  unfold bRelative
  rw [hbase]
  simp only []
  have hInv : ∀ q, c.first ≤ q → q ≤ c.last → ∀ st',
      Inv c ⟨st', q, (BaseInfo.ofUrl b).special, (BaseInfo.ofUrl b).file⟩ { u with scheme := b.scheme } :=
    fun q hq1 hq2 st' => ⟨⟨hq1, hq2⟩, rfl, rfl⟩
  have fin : ∀ (m' : M), Bnd c m' → isTail m'.state = true →
      (pure (Sum.inl m' : M ⊕ Bool) : R (M ⊕ Bool)).sat
        (fun r => match r with | .inl m' => kRelativeSlash c m' = .ok true | .inr w => w = true) :=
    fun m' hb' hs' => R.sat_pure (tail_kRelativeSlash c W m' hb' hs')
  by_cases hpl : p = c.last
  · rw [if_pos hpl, hpl, c.D_end]
    exact R.sat_pure rfl
  · rw [if_neg hpl]
    have hp : p < c.last := by omega
    upsimp
    obtain ⟨ch', t, hD, hk, hA⟩ := c.D_peek' W p hp
    have e1 := hk 0x2F (by omega)
    have e2 := hk 0x3F (by omega)
    have e3 := hk 0x23 (by omega)
    have e4 := hk 0x5C (by omega)
    rw [hD]
    simp only [relativeState]
    by_cases hc1 : c.a[p]! = 0x2F
    · obtain ⟨hA1, hA2⟩ := hA (by omega)
      rw [if_pos hc1, if_pos (e1.2 hc1), hA2]
      refine R.sat_pure ?_
      exact sim_relativeSlash c W hov b hb _ _ (hInv (p + 1) (by omega) (by omega) _) rfl
    · rw [if_neg hc1, if_neg (fun hh => hc1 (e1.1 hh))]
      by_cases hc2 : c.a[p]! = 0x3F
      · rw [if_pos hc2, if_pos (e2.2 hc2), vd_queryState]
        exact fin _ ⟨by simp only []; omega, by simp only []; omega⟩ rfl
      · rw [if_neg hc2, if_neg (fun hh => hc2 (e2.1 hh))]
        by_cases hc3 : c.a[p]! = 0x23
        · rw [if_pos hc3, if_pos (e3.2 hc3), vd_fragmentState]
          exact fin _ ⟨by simp only []; omega, by simp only []; omega⟩ rfl
        · rw [if_neg hc3, if_neg (fun hh => hc3 (e3.1 hh))]
          have hspec : ({ u with scheme := b.scheme } : Url).isSpecial = (BaseInfo.ofUrl b).special := rfl
          by_cases hc4 : c.a[p]! = 0x5C ∧ (BaseInfo.ofUrl b).special = true
          · obtain ⟨hA1, hA2⟩ := hA (by omega)
            rw [if_pos hc4]
            have : (decide (ch' = 0x5C) && ({ u with scheme := b.scheme } : Url).isSpecial) = true := by
              rw [hspec, hc4.2, hA1, hc4.1]; rfl
            rw [this]
            simp only [if_true]
            rw [hA2]
            refine R.sat_pure ?_
            exact sim_relativeSlash c W hov b hb _ _ (hInv (p + 1) (by omega) (by omega) _) rfl
          · rw [if_neg hc4]
            have : (decide (ch' = 0x5C) && ({ u with scheme := b.scheme } : Url).isSpecial) = false := by
              rw [hspec]
              cases hsp : (BaseInfo.ofUrl b).special with
              | false => simp
              | true =>
                simp only [Bool.and_true, decide_eq_false_iff_not, e4]
                intro hh
                exact hc4 ⟨hh, hsp⟩
            rw [this]
            simp only [Bool.false_eq_true, if_false, vd_pathState]
            upsimp
            exact fin _ ⟨by simp only []; omega, by simp only []; omega⟩ rfl

/-! ### path_or_authority_state, special_relative_or_authority_state -/

theorem sim_pathOrAuthority (hov : c.ov = none) (m : M) (u : Url) (hI : Inv c m u) (hs : m.state = .pathOrAuthority) :
    kPathOrAuthority c m = .ok (vd (pathOrAuthorityState c.idna c.ov u (c.D m.pointer))) := by
  obtain ⟨st, p, sp, fl⟩ := m
  obtain ⟨⟨h1, h2⟩, h3, h4⟩ := hI
  simp only [] at hs h1 h2 h3 h4
  subst hs
  refine stepB_ok rfl ?_
  unfold bPathOrAuthority
  refine R.sat_bind (peekIsB_spec c W p 0x2F h1) ?_
  intro t ht
  by_cases hsl : p < c.last ∧ c.a[p]! = 0x2F
  · have : t = true := by rw [ht]; simp only [decide_eq_true_eq]; exact hsl
    subst this
    simp only [if_true]
    upsimp
    refine R.sat_pure ?_
    simp only []
    rw [D_head_eq c W p 0x2F (by omega) hsl.1 hsl.2]
    simp only [pathOrAuthorityState]
    rw [kRelative_skip c _ (by simp), kRelativeSlash_skip c _ (by simp), kSAS_skip c _ (by simp),
      kSAIS_skip c _ (by simp)]
    exact sim_authority' c W hov _ u ⟨⟨by simp only []; omega, by simp only []; omega⟩, h3, h4⟩ rfl
  · have : t = false := by rw [ht]; simp only [decide_eq_false_iff_not]; exact hsl
    subst this
    simp only [Bool.false_eq_true, if_false]
    have hne := D_head_ne c W p 0x2F (by omega) hsl
    have : pathOrAuthorityState c.idna c.ov u (c.D p) = pathState c.ov u (c.D p) := by
      unfold pathOrAuthorityState
      split
      · rename_i r heq; exact absurd heq (hne r)
      · rfl
    rw [this, vd_pathState]
    exact R.sat_pure (tail_kRelative c W _ ⟨h1, h2⟩ rfl)

theorem sim_sroa (hov : c.ov = none) (b : Url) (hb : c.baseU = some b) (m : M) (u : Url) (hI : Inv c m u)
    (hs : m.state = .specialRelativeOrAuthority) :
    kSRoA c m = .ok (vd (specialRelativeOrAuthorityState c.idna b c.ov u (c.D m.pointer))) := by
  obtain ⟨st, p, sp, fl⟩ := m
  obtain ⟨⟨h1, h2⟩, h3, h4⟩ := hI
  simp only [] at hs h1 h2 h3 h4
  subst hs
  refine stepB_ok rfl ?_
  unfold bSpecialRelativeOrAuthority
  refine R.sat_bind (twoSlashesB_spec c W p h1) ?_
  intro t ht
  by_cases h2s : p + 2 ≤ c.last ∧ c.a[p]! = 0x2F ∧ c.a[p + 1]! = 0x2F
  · simp only [h2s, and_self, decide_true] at ht
    subst ht
    simp only [if_true]
    upsimp
    refine R.sat_pure ?_
    simp only []
    rw [D_two_eq c W p h2s.1 h2s.2.1 h2s.2.2]
    simp only [specialRelativeOrAuthorityState]
    rw [kPathOrAuthority_skip c _ (by simp), kRelative_skip c _ (by simp), kRelativeSlash_skip c _ (by simp),
      kSAS_skip c _ (by simp)]
    exact sim_sais' c W hov _ u ⟨⟨by simp only []; omega, by simp only []; omega⟩, h3, h4⟩ rfl
  · have : t = false := by rw [ht]; simp only [decide_eq_false_iff_not]; exact h2s
    subst this
    simp only [Bool.false_eq_true, if_false]
    refine R.sat_pure ?_
    simp only []
    have hne := D_two_ne c W p h2s
    have : specialRelativeOrAuthorityState c.idna b c.ov u (c.D p) = relativeState c.idna b c.ov u (c.D p) := by
      unfold specialRelativeOrAuthorityState
      split
      · rename_i r heq; exact absurd heq (hne r)
      · rfl
    rw [this, kPathOrAuthority_skip c _ (by simp)]
    exact sim_relative c W hov b hb _ u ⟨⟨h1, h2⟩, h3, h4⟩ rfl

/-! ### no_scheme_state -/

theorem sim_noScheme (hov : c.ov = none) (m : M) (u : Url) (hI : Inv c m u) (hs : m.state = .noScheme) :
    kNoScheme c m = .ok (vd (noSchemeState c.idna c.baseU c.ov u (c.D m.pointer))) := by
  obtain ⟨st, p, sp, fl⟩ := m
  obtain ⟨⟨h1, h2⟩, h3, h4⟩ := hI
  simp only [] at hs h1 h2 h3 h4
  subst hs
  refine stepB_ok rfl ?_
  unfold bNoScheme
  cases hb : c.baseU with
  | none =>
    have hbase : c.base = none := by simp [Ctx.base, hb]
    rw [hbase]
    exact R.sat_pure rfl
  | some b =>
    have hbase : c.base = some (BaseInfo.ofUrl b) := by simp [Ctx.base, hb]
    rw [hbase]
    simp only [noSchemeState]
    have hop : (BaseInfo.ofUrl b).opaquePath = b.hasOpaquePath := rfl
    have hfile : (BaseInfo.ofUrl b).file = b.isFile := rfl
    cases hopq : b.hasOpaquePath with
    | true =>
      simp only [hop, hopq, if_true]
      refine R.sat_bind (peekIsB_spec c W p 0x23 h1) ?_
      intro t ht
      by_cases hh : p < c.last ∧ c.a[p]! = 0x23
      · have : t = true := by rw [ht]; simp only [decide_eq_true_eq]; exact hh
        subst this
        simp only [if_true]
        have hl := W.hl
        upsimp
        refine R.sat_pure ?_
        simp only []
        rw [D_head_eq c W p 0x23 (by omega) hh.1 hh.2]
        simp only [vd_fragmentState]
        exact tail_kSRoA c W _ ⟨by simp only []; omega, by simp only []; omega⟩ rfl
      · have : t = false := by rw [ht]; simp only [decide_eq_false_iff_not]; exact hh
        subst this
        simp only [Bool.false_eq_true, if_false]
        refine R.sat_pure ?_
        simp only []
        have hne := D_head_ne c W p 0x23 (by omega) hh
        split
        · rename_i r heq; exact absurd heq (hne r)
        · rfl
    | false =>
      simp only [hop, hopq, Bool.false_eq_true, if_false, hfile]
      refine R.sat_pure ?_
      simp only []
      cases hbf : b.isFile with
      | true =>
        simp only [if_true]
        rw [kSRoA_skip c _ (by simp), kPathOrAuthority_skip c _ (by simp), kRelative_skip c _ (by simp),
          kRelativeSlash_skip c _ (by simp), kSAS_skip c _ (by simp), kSAIS_skip c _ (by simp),
          kAuthority_skip c _ (by simp), kHost_skip c _ (by simp) (by simp), kPort_skip c _ (by simp)]
        have := sim_file c W ⟨.file, p, sp, fl⟩ u ⟨⟨h1, h2⟩, h3, h4⟩ rfl
        rw [hb] at this
        exact this
      | false =>
        simp only [Bool.false_eq_true, if_false]
        rw [kSRoA_skip c _ (by simp), kPathOrAuthority_skip c _ (by simp)]
        exact sim_relative c W hov b hb ⟨.relative, p, sp, fl⟩ u ⟨⟨h1, h2⟩, h3, h4⟩ rfl

end

end Upa.Impl.B
