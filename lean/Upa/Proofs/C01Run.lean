import Upa.Spec.UrlParser
import Upa.Proofs.Percent
/-
  C01 — run infrastructure shared by the per-state simulation proofs
  (`Impl.urlParse` blocks  vs  the Standard's state machine `Spec.step` / `Spec.run`).

  ## The simulation statement (use this one in all C01 files)

  `SimAt idna base ov S a c Pre B` says: start the machine in state `S` at pointer `i` with an EMPTY
  buffer, in any configuration `k` satisfying `Pre k` (preconditions on flags / on the URL record, e.g.
  `k.url.fragment = some []` for the fragment state, `k.insideBrackets = false` for the host state),
  with at least `a * (inp.size - i) + c` fuel; then `Spec.run` returns exactly what the code block `B`
  returns on the rest of the input `inp.toList.drop i`:

      Spec.run idna inp base (ov.map ovState) fuel k = resOf ov (B k.url (inp.toList.drop i))

  where `resOf ov r = (outUrl ov r, r.url)`; without override `outUrl none r = okUrl r`
  (`some r.url` iff `r.out = .ok`); with an override `.ignored` also maps to `some` (the Standard's
  early `return`s).  Both components of `run`'s result are related (the second one is the URL as it
  was left behind, which the setters need).

  * fuel: `a` = number of machine runs per remaining code point, `c` = constant.  `SimAt.mono` raises
    `a`/`c`.  Tail states: fragment/query/opaquePath/path have `a = 1, c = 1`, pathStart `a = 1, c = 2`.
    `Spec.basicParse` has `4 * inp.length + 16`: see `SimAt.basicParse` (needs `a ≤ 4`, `c ≤ 16`).
  * `SimAt.basic` gives the plain form
      `(Spec.run idna inp base none fuel { url := u, state := S, p := i }).1 = okUrl (B u (inp.toList.drop i))`
    for `fuel ≥ 4 * (inp.size - i) + 16`.
  * how the pieces compose: prove `step … k = .continue k'` (lemmas `step_*` below give `step` for the
    tail states in terms of `inp[i]?`, in C01Tail.lean), then use `run_continue` / `run_stop` / `run_done` / `run_failure`
    or directly `SimAt.after_step` (one step into state `S'`, then the simulation of `S'`).
    The Standard sets `query := some []` / `fragment := some []` ON the transition; the code blocks
    receive the URL before the field is set and overwrite it: use `queryState_setQuery`,
    `fragmentState_setFragment` (the blocks do not depend on the old field).
  * `getElem?_of_drop_cons` / `getElem?_of_drop_nil`: relate `inp[i]?` to `inp.toList.drop i`.
-/
namespace Upa.Proofs.C01
open Upa.Spec (State Cfg StepResult step run)

/-! ## outcome mapping -/

def okUrl (r : Res) : Option Url := if r.out = .ok then some r.url else none

/-- state override of the code ↦ state of the Standard -/
def ovState : Override → State
  | .schemeStart => .schemeStart
  | .host => .host
  | .hostname => .hostname
  | .port => .port
  | .pathStart => .pathStart
  | .query => .query
  | .fragment => .fragment

/-- first component of `Spec.run`'s result for a code result: `ok` ↦ the URL, `failure` ↦ none,
    `ignored` (only produced under a state override: the Standard's early `return`) ↦ the URL when
    there is an override -/
def outUrl (ov : Option Override) (r : Res) : Option Url :=
  match r.out with
  | .ok => some r.url
  | .failure => none
  | .ignored => if ov.isSome then some r.url else none

def resOf (ov : Option Override) (r : Res) : Option Url × Url := (outUrl ov r, r.url)

theorem outUrl_none (r : Res) : outUrl none r = okUrl r := by
  unfold outUrl okUrl; cases r.out <;> simp

@[simp] theorem resOf_ok (ov : Option Override) (u : Url) : resOf ov ⟨.ok, u⟩ = (some u, u) := rfl
@[simp] theorem resOf_failure (ov : Option Override) (u : Url) : resOf ov ⟨.failure, u⟩ = (none, u) := rfl
theorem resOf_ignored (o : Override) (u : Url) : resOf (some o) ⟨.ignored, u⟩ = (some u, u) := rfl
theorem resOf_fst_none (r : Res) : (resOf none r).1 = okUrl r := outUrl_none r

/-! ## one iteration of `Spec.run` -/

section run
variable {idna : Idna} {inp : Array Nat} {base : Option Url} {ov : Option State}

theorem run_continue {k k' : Cfg} (fuel : Nat) (h : step idna inp base ov k = .continue k')
    (hp : k'.p < (inp.size : Int)) :
    run idna inp base ov (fuel + 1) k = run idna inp base ov fuel { k' with p := k'.p + 1 } := by
  rw [run, h]; simp only; rw [if_neg (by omega)]

/-- `run_continue` with the new pointer given explicitly as a natural number -/
theorem run_continue' {k k' : Cfg} {j : Nat} (fuel : Nat) (h : step idna inp base ov k = .continue k')
    (hp : k'.p + 1 = (j : Int)) (hj : j ≤ inp.size) :
    run idna inp base ov (fuel + 1) k = run idna inp base ov fuel { k' with p := (j : Int) } := by
  rw [run_continue fuel h (by omega), hp]

theorem run_stop {k k' : Cfg} (fuel : Nat) (h : step idna inp base ov k = .continue k')
    (hp : k'.p ≥ (inp.size : Int)) :
    run idna inp base ov (fuel + 1) k = (some k'.url, k'.url) := by
  rw [run, h]; simp only; rw [if_pos hp]

theorem run_done {k : Cfg} {u : Url} (fuel : Nat) (h : step idna inp base ov k = .done u) :
    run idna inp base ov (fuel + 1) k = (some u, u) := by
  rw [run, h]

theorem run_failure {k : Cfg} {u : Url} (fuel : Nat) (h : step idna inp base ov k = .failure u) :
    run idna inp base ov (fuel + 1) k = (none, u) := by
  rw [run, h]

/-- `fuel ≥ n + 1` ⇒ `fuel = f + 1` -/
theorem fuel_succ {fuel n : Nat} (h : fuel ≥ n + 1) : ∃ f, fuel = f + 1 ∧ f ≥ n :=
  ⟨fuel - 1, by omega, by omega⟩

end run

/-! ## input array vs. remaining list -/

/-- for `simp only [Int.toNat_natCast, ptr_neg, if_false]` after `unfold step` -/
theorem ptr_neg (i : Nat) : ((i : Int) < 0) = False := by simp

theorem getElem?_of_drop_cons {inp : Array Nat} {i c : Nat} {r : List Nat}
    (h : inp.toList.drop i = c :: r) :
    inp[i]? = some c ∧ i < inp.size ∧ inp.toList.drop (i + 1) = r := by
  have hlt : i < inp.toList.length := by
    apply Classical.byContradiction; intro hn
    rw [List.drop_eq_nil_of_le (by omega)] at h; cases h
  have h2 := List.drop_eq_getElem_cons hlt
  rw [h2] at h
  injection h with h3 h4
  refine ⟨?_, by simpa using hlt, h4⟩
  rw [← h3]; simp [Array.getElem?_eq_getElem (by simpa using hlt)]

theorem getElem?_of_drop_nil {inp : Array Nat} {i : Nat} (h : inp.toList.drop i = []) :
    inp[i]? = none ∧ inp.size ≤ i := by
  have : inp.toList.length ≤ i := List.drop_eq_nil_iff.1 h
  have h2 : inp.size ≤ i := by simpa using this
  exact ⟨Array.getElem?_eq_none h2, h2⟩

theorem drop_length {inp : Array Nat} {i : Nat} {r : List Nat} (h : inp.toList.drop i = r) :
    r.length = inp.size - i := by
  subst h; simp

theorem drop_scalar {inp : Array Nat} {i : Nat} {r : List Nat}
    (hsc : ∀ c ∈ inp.toList, Spec.isScalar c = true) (h : inp.toList.drop i = r) :
    ∀ c ∈ r, Spec.isScalar c = true := by
  intro c hc; subst h; exact hsc c (List.mem_of_mem_drop hc)

/-! ## the simulation statement -/

def SimAt (idna : Idna) (base : Option Url) (ov : Option Override) (S : State) (a c : Nat)
    (Pre : Cfg → Prop) (B : Url → List Nat → Res) : Prop :=
  ∀ (inp : Array Nat) (k : Cfg) (i fuel : Nat),
    k.state = S → k.buffer = [] → k.p = (i : Int) → Pre k → i ≤ inp.size →
    (∀ x ∈ inp.toList, Spec.isScalar x = true) → fuel ≥ a * (inp.size - i) + c →
    run idna inp base (ov.map ovState) fuel k = resOf ov (B k.url (inp.toList.drop i))

theorem SimAt.mono {idna : Idna} {base : Option Url} {ov : Option Override} {S : State} {a c a' c' : Nat}
    {Pre Pre' : Cfg → Prop} {B : Url → List Nat → Res}
    (h : SimAt idna base ov S a c Pre B) (ha : a ≤ a') (hc : c ≤ c') (hpre : ∀ k, Pre' k → Pre k) :
    SimAt idna base ov S a' c' Pre' B := by
  intro inp k i fuel hs hb hp hP hi hsc hf
  refine h inp k i fuel hs hb hp (hpre k hP) hi hsc ?_
  have := Nat.mul_le_mul_right (inp.size - i) ha
  omega

/-- one machine run from `k` into state `S'` (empty buffer, pointer `j` after the loop's increment),
    then the simulation of `S'` -/
theorem SimAt.after_step {idna : Idna} {base : Option Url} {ov : Option Override} {S' : State} {a c : Nat}
    {Pre : Cfg → Prop} {B : Url → List Nat → Res} (hsim : SimAt idna base ov S' a c Pre B)
    {inp : Array Nat} {k k' : Cfg} {j fuel : Nat}
    (hstep : step idna inp base (ov.map ovState) k = .continue k')
    (hs : k'.state = S') (hb : k'.buffer = []) (hp : k'.p + 1 = (j : Int))
    (hpre : Pre { k' with p := k'.p + 1 }) (hj : j ≤ inp.size)
    (hsc : ∀ x ∈ inp.toList, Spec.isScalar x = true) (hf : fuel ≥ a * (inp.size - j) + c + 1) :
    run idna inp base (ov.map ovState) fuel k = resOf ov (B k'.url (inp.toList.drop j)) := by
  obtain ⟨f, rfl, hf'⟩ := fuel_succ hf
  rw [run_continue f hstep (by omega)]
  exact hsim inp { k' with p := k'.p + 1 } j f hs hb hp hpre hj hsc hf'

/-- the plain form of the statement: default flags, no override, first component, the fuel shape of
    `Spec.basicParse` -/
theorem SimAt.basic {idna : Idna} {base : Option Url} {S : State} {a c : Nat}
    {Pre : Cfg → Prop} {B : Url → List Nat → Res} (h : SimAt idna base none S a c Pre B)
    (ha : a ≤ 4) (hc : c ≤ 16) (inp : Array Nat) (i : Nat) (u : Url) (fuel : Nat)
    (hpre : Pre { url := u, state := S, p := (i : Int) })
    (hi : i ≤ inp.size) (hsc : ∀ x ∈ inp.toList, Spec.isScalar x = true)
    (hf : fuel ≥ 4 * (inp.size - i) + 16) :
    (run idna inp base none fuel { url := u, state := S, p := (i : Int) }).1
      = okUrl (B u (inp.toList.drop i)) := by
  have := (h.mono ha hc (fun _ hk => hk)) inp { url := u, state := S, p := (i : Int) } i fuel
    rfl rfl rfl hpre hi hsc hf
  simp only [Option.map_none] at this
  rw [this]; exact resOf_fst_none _

/-- from a simulation of the start state to `Spec.basicParse` (no override) -/
theorem SimAt.basicParse {idna : Idna} {base : Option Url} {a c : Nat}
    {Pre : Cfg → Prop} {B : Url → List Nat → Res} (h : SimAt idna base none .schemeStart a c Pre B)
    (ha : a ≤ 4) (hc : c ≤ 16) (inp : List Nat) (u : Url)
    (hpre : Pre { url := u, state := .schemeStart })
    (hsc : ∀ x ∈ inp, Spec.isScalar x = true) :
    Spec.basicParse idna inp base u none = resOf none (B u inp) := by
  unfold Spec.basicParse
  have := (h.mono ha hc (fun _ hk => hk)) inp.toArray { url := u, state := .schemeStart } 0
    (4 * inp.length + 16) rfl rfl rfl hpre (Nat.zero_le _) (by simpa using hsc) (by simp)
  simpa using this

/-! ## the code blocks do not depend on the field the Standard resets on the transition -/

theorem fragmentState_setFragment (u : Url) (f : Option (List Nat)) (p : List Nat) :
    Impl.fragmentState { u with fragment := f } p = Impl.fragmentState u p := rfl

theorem queryState_setQuery (ov : Option Override) (u : Url) (q : Option (List Nat)) (p : List Nat) :
    Impl.queryState ov { u with query := q } p = Impl.queryState ov u p := by
  unfold Impl.queryState
  simp only [Url.isSpecial]
  split <;> rfl

end Upa.Proofs.C01
