import Upa.Proofs.ObjRep
/-
  Evaluation kit for the concrete histories of Props/C05g.lean.

  `formParseAux`, `List.merge` and `List.mergeSort` are compiled by well-founded recursion, which the
  kernel does not unfold, so `decide +kernel` cannot evaluate `runR` / `runU` on a history that creates
  or sorts a params object.  This file has fuel-driven copies (`formParseK` is the one of C15;
  `mergeK`, `mergeSortK`, `sortK` are new), copies `runRK` / `runUK` of the two interpreters that use
  them, and the theorems `runRK_eq : runRK = runR`, `runUK_eq : runUK = runU` (likewise `stepRK_eq`,
  `retRK_eq`, …).  An evaluated example is then `by rw [← runRK_eq]; decide +kernel`.
-/
namespace Upa.Proofs.ObjRep
open Upa Upa.Impl Upa.Proofs.C15

/-! ### merge sort with fuel -/

def mergeK {α : Type} (le : α → α → Bool) : Nat → List α → List α → List α
  | 0, xs, ys => xs ++ ys
  | _+1, [], ys => ys
  | _+1, x :: xs, [] => x :: xs
  | n+1, x :: xs, y :: ys =>
    if le x y then x :: mergeK le n xs (y :: ys) else y :: mergeK le n (x :: xs) ys

theorem mergeK_eq {α : Type} (le : α → α → Bool) : ∀ (n : Nat) (xs ys : List α),
    xs.length + ys.length ≤ n → mergeK le n xs ys = List.merge xs ys le := by
  intro n
  induction n with
  | zero =>
    intro xs ys h
    have h1 : xs = [] := List.length_eq_zero_iff.1 (by omega)
    have h2 : ys = [] := List.length_eq_zero_iff.1 (by omega)
    subst h1 h2
    simp [mergeK]
  | succ n ih =>
    intro xs ys h
    match xs, ys with
    | [], ys => simp [mergeK]
    | x :: xs, [] => simp [mergeK]
    | x :: xs, y :: ys =>
      simp only [List.length_cons] at h
      rw [mergeK, List.cons_merge_cons]
      split
      · rw [ih xs (y :: ys) (by simp only [List.length_cons]; omega)]
      · rw [ih (x :: xs) ys (by simp only [List.length_cons]; omega)]

def mergeSortK {α : Type} (le : α → α → Bool) : Nat → List α → List α
  | 0, l => l
  | _+1, [] => []
  | _+1, [a] => [a]
  | n+1, a :: b :: xs =>
    let l := a :: b :: xs
    let h := (l.length + 1) / 2
    mergeK le l.length (mergeSortK le n (l.take h)) (mergeSortK le n (l.drop h))

theorem mergeSortK_eq {α : Type} (le : α → α → Bool) : ∀ (n : Nat) (l : List α),
    l.length ≤ n → mergeSortK le n l = l.mergeSort le := by
  intro n
  induction n with
  | zero =>
    intro l h
    have h1 : l = [] := List.length_eq_zero_iff.1 (by omega)
    subst h1
    simp [mergeSortK]
  | succ n ih =>
    intro l h
    match l with
    | [] => simp [mergeSortK]
    | [a] => simp [mergeSortK]
    | a :: b :: xs =>
      simp only [List.length_cons] at h
      rw [mergeSortK, List.mergeSort.eq_3]
      simp only [List.MergeSort.Internal.splitInTwo_fst, List.MergeSort.Internal.splitInTwo_snd]
      rw [ih _ (by simp only [List.length_take, List.length_cons]; omega),
        ih _ (by simp only [List.length_drop, List.length_cons]; omega)]
      apply mergeK_eq
      simp only [List.length_mergeSort, List.length_take, List.length_drop, List.length_cons]
      omega

/-- `Params.sort`, evaluable by `decide +kernel` -/
def sortK (p : Params) : Params :=
  if !p.isSorted then { list := mergeSortK (fun a b => !nameLess b a) p.list.length p.list, isSorted := true }
  else p

theorem sortK_eq (p : Params) : sortK p = p.sort := by
  unfold sortK Params.sort
  rw [mergeSortK_eq _ _ _ (Nat.le_refl _)]

/-! ### the representation-level interpreter -/

def reparseParamsRK (o : RObj) : RObj :=
  match o.sp with
  | some _ => { o with sp := some { list := formParseK false (rQueryView o.rep), isSorted := false } }
  | none => o

theorem reparseParamsRK_eq (o : RObj) : reparseParamsRK o = o.reparseParams := by
  simp only [reparseParamsRK, RObj.reparseParams, formParse_eqK] <;> rfl

def parseRK (idna : Idna) (o : RObj) (e : Enc) (units : List Nat) (base : Option (Option Rep)) :
    RObj × Bool :=
  let o := if o.rep.isSome then o.clearParams else o
  match base with
  | some none => ({ o with rep := none }, false)
  | _ =>
    match parseRep idna e units (base.bind id) with
    | some r => (reparseParamsRK ({ o with rep := some r } : RObj), true)
    | none => ({ o with rep := none }, false)

theorem parseRK_eq (idna : Idna) (o : RObj) (e : Enc) (units : List Nat) (base : Option (Option Rep)) :
    parseRK idna o e units base = o.parse idna e units base := by
  simp only [parseRK, RObj.parse, reparseParamsRK_eq] <;> rfl

def copyAssignRK (dst src : RObj) : RObj :=
  match dst.sp, src.sp with
  | some _, some sp => { rep := src.rep, sp := some { list := sp.list, isSorted := sp.isSorted } }
  | some _, none => reparseParamsRK ({ rep := src.rep, sp := dst.sp } : RObj)
  | none, _ => { rep := src.rep, sp := none }

theorem copyAssignRK_eq (dst src : RObj) : copyAssignRK dst src = rCopyAssign dst src := by
  simp only [copyAssignRK, rCopyAssign, reparseParamsRK_eq] <;> rfl

def safeAssignRK (dst src : RObj) : RObj × RObj :=
  let dst' : RObj :=
    match dst.sp, src.sp with
    | some _, some sp => { rep := src.rep, sp := some { list := sp.list, isSorted := sp.isSorted } }
    | some _, none => { rep := src.rep, sp := some { list := formParseK false (rQueryView src.rep), isSorted := false } }
    | none, _ => { rep := src.rep, sp := none }
  (dst', { rep := none, sp := src.sp.map (fun _ => { list := [], isSorted := false }) })

theorem safeAssignRK_eq (dst src : RObj) : safeAssignRK dst src = rSafeAssign dst src := by
  simp only [safeAssignRK, rSafeAssign, formParse_eqK] <;> rfl

def setRK (idna : Idna) (o : RObj) (s : Setter) (e : Enc) (units : List Nat) : RObj × Bool :=
  match s, o.rep with
  | .href, _ =>
    match parseRK idna {} e units none with
    | (fresh, true) => ((safeAssignRK o fresh).1, true)
    | (_, false) => (o, false)
  | _, none => (o, false)
  | .search, some r =>
    let (r', ok) := setRep idna .search e units r
    let o' : RObj := { o with rep := some r' }
    (if units = [] then o'.clearParams else reparseParamsRK o', ok)
  | s, some r =>
    let (r', ok) := setRep idna s e units r
    ({ o with rep := some r' }, ok)

theorem setRK_eq (idna : Idna) (o : RObj) (s : Setter) (e : Enc) (units : List Nat) :
    setRK idna o s e units = o.set idna s e units := by
  unfold setRK RObj.set
  simp only [parseRK_eq, safeAssignRK_eq, reparseParamsRK_eq] <;> rfl

def searchParamsRK (o : RObj) : RObj :=
  match o.sp with
  | some _ => o
  | none => { o with sp := some { list := formParseK false (rQueryView o.rep), isSorted := false } }

theorem searchParamsRK_eq (o : RObj) : searchParamsRK o = o.searchParams := by
  simp only [searchParamsRK, RObj.searchParams, formParse_eqK] <;> rfl

def spApplyRK (o : RObj) (f : Params → Params) (always : Bool := true) : RObj :=
  let o := searchParamsRK o
  match o.sp with
  | some p =>
    let p' := f p
    let o' : RObj := { o with sp := some p' }
    if always || p'.list.length ≠ p.list.length then o'.update else o'
  | none => o

theorem spApplyRK_eq (o : RObj) (f : Params → Params) (always : Bool) :
    spApplyRK o f always = o.spApply f always := by
  simp only [spApplyRK, RObj.spApply, searchParamsRK_eq] <;> rfl

def spFnK : SpOp → Params → Params
  | .append n v => (·.append n v)
  | .set n v => (·.set n v)
  | .del n => (·.del n)
  | .del2 n v => (·.del2 n v)
  | .remove n => (·.del n)
  | .remove2 n v => (·.del2 n v)
  | .sort => sortK
  | .clear => (·.clear)
  | .parse q => fun _ => { list := formParseK true q, isSorted := false }

theorem spFnK_eq (f : SpOp) : spFnK f = f.fn := by
  cases f <;> try rfl
  · funext p; exact sortK_eq p
  · funext p; simp only [spFnK, SpOp.fn, Params.parse, formParse_eqK] <;> rfl

def stepRK (idna : Idna) (op : Op) (st : RObj × RObj) : (RObj × RObj) × Bool :=
  match op with
  | .parse k e units base =>
    let o := getSlot st k
    let res : RObj × Bool :=
      match base with
      | .none => parseRK idna o e units none
      | .other => parseRK idna o e units (some (getSlot st (!k)).rep)
      | .same => parseRK idna o e units (some o.rep)
      | .str eb ub =>
        match parseRK idna {} eb ub none with
        | (b, true) => parseRK idna o e units (some b.rep)
        | (_, false) => parseRK idna o e units (some none)
    (setSlot st k res.1, res.2)
  | .set k s e units =>
    let res := setRK idna (getSlot st k) s e units
    (setSlot st k res.1, res.2)
  | .searchParams k => (setSlot st k (searchParamsRK (getSlot st k)), true)
  | .sp k f => (setSlot st k (spApplyRK (getSlot st k) (spFnK f) f.always), true)
  | .spAssign k list sorted =>
    (setSlot st k (spApplyRK (getSlot st k) (fun _ => { list := list, isSorted := sorted })), true)
  | .spSafeAssign k list sorted =>
    (setSlot st k (spApplyRK (getSlot st k) (fun _ => { list := list, isSorted := sorted })), true)
  | .searchParamsRvalue k => (setSlot st k (getSlot st k).searchParamsRvalue, true)
  | .clear k => (setSlot st k (getSlot st k).clear, true)
  | .copyAssign d s =>
    if d = s then (st, true) else (setSlot st d (copyAssignRK (getSlot st d) (getSlot st s)), true)
  | .copyConstruct d s =>
    if d = s then (st, true) else (setSlot st d (rCopyConstruct (getSlot st s)), true)
  | .moveAssign d s =>
    if d = s then (st, true) else
      let r := rMoveAssign (getSlot st s)
      (setSlot (setSlot st d r.1) s r.2, true)
  | .safeAssign d s =>
    if d = s then (st, true) else
      let r := safeAssignRK (getSlot st d) (getSlot st s)
      (setSlot (setSlot st d r.1) s r.2, true)
  | .swap => ((st.2, st.1), true)

theorem stepRK_eq (idna : Idna) (op : Op) (st : RObj × RObj) : stepRK idna op st = stepR idna op st := by
  cases op with
  | parse k e units base =>
    cases base <;> simp only [stepRK, stepR, parseRK_eq] <;> rfl
  | set k s e units => simp only [stepRK, stepR, setRK_eq] <;> rfl
  | searchParams k => simp only [stepRK, stepR, searchParamsRK_eq] <;> rfl
  | sp k f => simp only [stepRK, stepR, spApplyRK_eq, spFnK_eq] <;> rfl
  | spAssign k list sorted => simp only [stepRK, stepR, spApplyRK_eq] <;> rfl
  | spSafeAssign k list sorted => simp only [stepRK, stepR, spApplyRK_eq] <;> rfl
  | searchParamsRvalue k => rfl
  | clear k => rfl
  | copyAssign d s => simp only [stepRK, stepR, copyAssignRK_eq] <;> rfl
  | copyConstruct d s => rfl
  | moveAssign d s => rfl
  | safeAssign d s => simp only [stepRK, stepR, safeAssignRK_eq] <;> rfl
  | swap => rfl

def runRK (idna : Idna) (ops : List Op) (st : RObj × RObj) : RObj × RObj :=
  ops.foldl (fun st op => (stepRK idna op st).1) st

theorem runRK_eq (idna : Idna) (ops : List Op) (st : RObj × RObj) : runRK idna ops st = runR idna ops st := by
  simp only [runRK, runR, stepRK_eq] <;> rfl

def retRK (idna : Idna) : List Op → RObj × RObj → List Bool
  | [], _ => []
  | op :: ops, st => (stepRK idna op st).2 :: retRK idna ops (stepRK idna op st).1

theorem retRK_eq (idna : Idna) (ops : List Op) (st : RObj × RObj) : retRK idna ops st = retR idna ops st := by
  induction ops generalizing st with
  | nil => rfl
  | cons op ops ih => simp only [retRK, retR, stepRK_eq, ih] <;> rfl

/-! ### the record-level interpreter -/

def reparseParamsUK (o : UrlObj) : UrlObj :=
  match o.sp with
  | some _ => { o with sp := some { list := formParseK false (queryBytes o.url), isSorted := false } }
  | none => o

theorem reparseParamsUK_eq (o : UrlObj) : reparseParamsUK o = o.reparseParams := by
  simp only [reparseParamsUK, UrlObj.reparseParams, formParse_eqK] <;> rfl

def parseUK (idna : Idna) (o : UrlObj) (e : Enc) (units : List Nat) (base : Option (Option Url)) :
    UrlObj × Bool :=
  let o := if o.url.isSome then o.clearParams else o
  match base with
  | some none => ({ o with url := none }, false)
  | _ =>
    match Impl.parse idna e units (base.bind id) with
    | some u => (reparseParamsUK ({ o with url := some u } : UrlObj), true)
    | none => ({ o with url := none }, false)

theorem parseUK_eq (idna : Idna) (o : UrlObj) (e : Enc) (units : List Nat) (base : Option (Option Url)) :
    parseUK idna o e units base = o.parse idna e units base := by
  simp only [parseUK, UrlObj.parse, reparseParamsUK_eq] <;> rfl

def copyAssignUK (dst src : UrlObj) : UrlObj :=
  match dst.sp, src.sp with
  | some _, some sp => { url := src.url, sp := some { list := sp.list, isSorted := sp.isSorted } }
  | some _, none => reparseParamsUK ({ url := src.url, sp := dst.sp } : UrlObj)
  | none, _ => { url := src.url, sp := none }

theorem copyAssignUK_eq (dst src : UrlObj) : copyAssignUK dst src = copyAssign dst src := by
  simp only [copyAssignUK, copyAssign, reparseParamsUK_eq] <;> rfl

def safeAssignUK (dst src : UrlObj) : UrlObj × UrlObj :=
  let dst' : UrlObj :=
    match dst.sp, src.sp with
    | some _, some sp => { url := src.url, sp := some { list := sp.list, isSorted := sp.isSorted } }
    | some _, none => { url := src.url, sp := some { list := formParseK false (queryBytes src.url), isSorted := false } }
    | none, _ => { url := src.url, sp := none }
  (dst', { url := none, sp := src.sp.map (fun _ => { list := [], isSorted := false }) })

theorem safeAssignUK_eq (dst src : UrlObj) : safeAssignUK dst src = safeAssign dst src := by
  simp only [safeAssignUK, safeAssign, formParse_eqK] <;> rfl

def setUK (idna : Idna) (o : UrlObj) (s : Setter) (e : Enc) (units : List Nat) : UrlObj × Bool :=
  match s, o.url with
  | .href, _ =>
    match Impl.parse idna e units none with
    | some u => (reparseParamsUK ({ o with url := some u } : UrlObj), true)
    | none => (o, false)
  | _, none => (o, false)
  | .search, some u =>
    let (u', ok) := setValid idna .search e units u
    let o' : UrlObj := { o with url := some u' }
    (if units = [] then o'.clearParams else reparseParamsUK o', ok)
  | s, some u =>
    let (u', ok) := setValid idna s e units u
    ({ o with url := some u' }, ok)

theorem setUK_eq (idna : Idna) (o : UrlObj) (s : Setter) (e : Enc) (units : List Nat) :
    setUK idna o s e units = o.set idna s e units := by
  unfold setUK UrlObj.set
  simp only [reparseParamsUK_eq] <;> rfl

def searchParamsUK (o : UrlObj) : UrlObj :=
  match o.sp with
  | some _ => o
  | none => { o with sp := some { list := formParseK false (queryBytes o.url), isSorted := false } }

theorem searchParamsUK_eq (o : UrlObj) : searchParamsUK o = o.searchParams := by
  simp only [searchParamsUK, UrlObj.searchParams, formParse_eqK] <;> rfl

def spApplyUK (o : UrlObj) (f : Params → Params) (always : Bool := true) : UrlObj :=
  let o := searchParamsUK o
  match o.sp with
  | some p =>
    let p' := f p
    let o' : UrlObj := { o with sp := some p' }
    if always || p'.list.length ≠ p.list.length then o'.update else o'
  | none => o

theorem spApplyUK_eq (o : UrlObj) (f : Params → Params) (always : Bool) :
    spApplyUK o f always = o.spApply f always := by
  simp only [spApplyUK, UrlObj.spApply, searchParamsUK_eq] <;> rfl

def stepUK (idna : Idna) (op : Op) (st : UrlObj × UrlObj) : (UrlObj × UrlObj) × Bool :=
  match op with
  | .parse k e units base =>
    let o := getSlot st k
    let res : UrlObj × Bool :=
      match base with
      | .none => parseUK idna o e units none
      | .other => parseUK idna o e units (some (getSlot st (!k)).url)
      | .same => parseUK idna o e units (some o.url)
      | .str eb ub =>
        match parseUK idna {} eb ub none with
        | (b, true) => parseUK idna o e units (some b.url)
        | (_, false) => parseUK idna o e units (some none)
    (setSlot st k res.1, res.2)
  | .set k s e units =>
    let res := setUK idna (getSlot st k) s e units
    (setSlot st k res.1, res.2)
  | .searchParams k => (setSlot st k (searchParamsUK (getSlot st k)), true)
  | .sp k f => (setSlot st k (spApplyUK (getSlot st k) (spFnK f) f.always), true)
  | .spAssign k list sorted =>
    (setSlot st k (spApplyUK (getSlot st k) (fun _ => { list := list, isSorted := sorted })), true)
  | .spSafeAssign k list sorted =>
    (setSlot st k (spApplyUK (getSlot st k) (fun _ => { list := list, isSorted := sorted })), true)
  | .searchParamsRvalue k => (setSlot st k (uSearchParamsRvalue (getSlot st k)), true)
  | .clear k => (setSlot st k (getSlot st k).clear, true)
  | .copyAssign d s =>
    if d = s then (st, true) else (setSlot st d (copyAssignUK (getSlot st d) (getSlot st s)), true)
  | .copyConstruct d s =>
    if d = s then (st, true) else (setSlot st d (copyConstruct (getSlot st s)), true)
  | .moveAssign d s =>
    if d = s then (st, true) else
      let r := moveAssign (getSlot st s)
      (setSlot (setSlot st d r.1) s r.2, true)
  | .safeAssign d s =>
    if d = s then (st, true) else
      let r := safeAssignUK (getSlot st d) (getSlot st s)
      (setSlot (setSlot st d r.1) s r.2, true)
  | .swap => ((st.2, st.1), true)

theorem stepUK_eq (idna : Idna) (op : Op) (st : UrlObj × UrlObj) : stepUK idna op st = stepU idna op st := by
  cases op with
  | parse k e units base =>
    cases base <;> simp only [stepUK, stepU, parseUK_eq] <;> rfl
  | set k s e units => simp only [stepUK, stepU, setUK_eq] <;> rfl
  | searchParams k => simp only [stepUK, stepU, searchParamsUK_eq] <;> rfl
  | sp k f => simp only [stepUK, stepU, spApplyUK_eq, spFnK_eq] <;> rfl
  | spAssign k list sorted => simp only [stepUK, stepU, spApplyUK_eq] <;> rfl
  | spSafeAssign k list sorted => simp only [stepUK, stepU, spApplyUK_eq] <;> rfl
  | searchParamsRvalue k => rfl
  | clear k => rfl
  | copyAssign d s => simp only [stepUK, stepU, copyAssignUK_eq] <;> rfl
  | copyConstruct d s => rfl
  | moveAssign d s => rfl
  | safeAssign d s => simp only [stepUK, stepU, safeAssignUK_eq] <;> rfl
  | swap => rfl

def runUK (idna : Idna) (ops : List Op) (st : UrlObj × UrlObj) : UrlObj × UrlObj :=
  ops.foldl (fun st op => (stepUK idna op st).1) st

theorem runUK_eq (idna : Idna) (ops : List Op) (st : UrlObj × UrlObj) : runUK idna ops st = runU idna ops st := by
  simp only [runUK, runU, stepUK_eq] <;> rfl

def retUK (idna : Idna) : List Op → UrlObj × UrlObj → List Bool
  | [], _ => []
  | op :: ops, st => (stepUK idna op st).2 :: retUK idna ops (stepUK idna op st).1

theorem retUK_eq (idna : Idna) (ops : List Op) (st : UrlObj × UrlObj) : retUK idna ops st = retU idna ops st := by
  induction ops generalizing st with
  | nil => rfl
  | cons op ops ih => simp only [retUK, retU, stepUK_eq, ih] <;> rfl

end Upa.Proofs.ObjRep
