import Upa.Proofs.BoundsUrlBlocks2
/-
  Helper lemmas for C04d, part 4: the chain of blocks (`urlParseB`) and url_parse with its whitespace
  removal (`urlParseWsB`).
-/
namespace Upa.Impl.B
open UP

theorem stepB_sat (first last : Nat) (base : Option BaseInfo) (c : St → Bool) (blk : M → R (M ⊕ Bool))
    (k : M → R Bool)
    (hb : ∀ m, UInv first last base m → c m.state = true → (blk m).sat (UPost first last base))
    (hk : ∀ m, UInv first last base m → (k m).sat (fun _ => True)) :
    ∀ m, UInv first last base m → (stepB c blk k m).sat (fun _ => True) := by
  intro m hI
  unfold stepB
  split
  · rename_i hc
    refine R.sat_bind (hb m hI hc) ?_
    intro r hr
    cases r with
    | inl m' => exact hk m' hr
    | inr v => exact R.sat_pure trivial
  · exact hk m hI

theorem UInv_init (first last : Nat) (base : Option BaseInfo) (ov : Option Override) (sp fl : Bool)
    (h : first ≤ last) : UInv first last base ⟨St.ofOverride ov, first, sp, fl⟩ := by
  refine ⟨Nat.le_refl _, h, ?_, ?_⟩
  · intro hs
    exfalso
    cases ov with
    | none => cases hs
    | some o => cases o <;> cases hs
  · intro hs
    exfalso
    cases ov with
    | none => cases hs
    | some o => cases o <;> cases hs

/-- url_parse (from `auto pointer = first;` on) runs to `.ok`: no out-of-range read, no pointer outside
    `[first, last]`, no loop out of fuel, no `*base` with `base == nullptr` -/
theorem urlParseB_sat (e : Enc) (a : Array Nat) (first last : Nat) (ov : Option Override) (base : Option BaseInfo)
    (ui : UrlInfo) (orc : Oracles) (fuel : Nat) (h : first ≤ last) (hl : last ≤ a.size) (hf : last - first < fuel) :
    (urlParseB e a first last ov base ui orc fuel).sat (fun _ => True) := by
  unfold urlParseB
  refine stepB_sat first last base _ _ _ (fun m hI _ => bSchemeStart_blk a first last ov base hl m hI) ?_ _
    (UInv_init first last base ov _ _ h)
  refine stepB_sat first last base _ _ _
    (fun m hI hs => bScheme_blk a first last ov base ui fuel hl hf m hI (eq_of_beq hs)) ?_
  refine stepB_sat first last base _ _ _ (fun m hI _ => bNoScheme_blk a first last base hl m hI) ?_
  refine stepB_sat first last base _ _ _
    (fun m hI hs => bSpecialRelativeOrAuthority_blk a first last base hl m hI (eq_of_beq hs)) ?_
  refine stepB_sat first last base _ _ _ (fun m hI _ => bPathOrAuthority_blk a first last base hl m hI) ?_
  refine stepB_sat first last base _ _ _ (fun m hI hs => bRelative_blk a first last base hl m hI (eq_of_beq hs)) ?_
  refine stepB_sat first last base _ _ _
    (fun m hI hs => bRelativeSlash_blk a first last base hl m hI (eq_of_beq hs)) ?_
  refine stepB_sat first last base _ _ _ (fun m hI _ => bSpecialAuthoritySlashes_blk a first last base hl m hI) ?_
  refine stepB_sat first last base _ _ _
    (fun m hI _ => bSpecialAuthorityIgnoreSlashes_blk a first last base fuel hl hf m hI) ?_
  refine stepB_sat first last base _ _ _ (fun m hI _ => bAuthority_blk e a first last base ui hl m hI) ?_
  refine stepB_sat first last base _ _ _ (fun m hI _ => bHost_blk a first last ov base ui orc fuel hl hf m hI) ?_
  refine stepB_sat first last base _ _ _ (fun m hI _ => bPort_blk a first last ov base ui orc fuel hl hf m hI) ?_
  refine stepB_sat first last base _ _ _ (fun m hI _ => bFile_blk a first last base hl m hI) ?_
  refine stepB_sat first last base _ _ _ (fun m hI _ => bFileSlash_blk a first last base ui hl m hI) ?_
  refine stepB_sat first last base _ _ _ (fun m hI _ => bFileHost_blk a first last ov base ui orc hl m hI) ?_
  refine stepB_sat first last base _ _ _ (fun m hI _ => bNeedSave_blk first last base ui m hI) ?_
  refine stepB_sat first last base _ _ _ (fun m hI _ => bPathStart_blk a first last ov base hl m hI) ?_
  refine stepB_sat first last base _ _ _ (fun m hI _ => bPath_blk e a first last ov base orc hl m hI) ?_
  refine stepB_sat first last base _ _ _ (fun m hI _ => bOpaquePath_blk e a first last base hl m hI) ?_
  refine stepB_sat first last base _ _ _ (fun m hI _ => bQuery_blk e a first last ov base fuel hl hf m hI) ?_
  refine stepB_sat first last base _ _ _
    (fun m hI hs => bFragment_blk e a first last base fuel hl hf m hI (eq_of_beq hs)) ?_
  intro _ _
  exact R.sat_pure trivial

theorem urlParseWsB_sat (e : Enc) (a : Array Nat) (first last : Nat) (ov : Option Override) (base : Option BaseInfo)
    (ui : UrlInfo) (orc : Array Nat → Oracles) (h : first ≤ last) (hl : last ≤ a.size) :
    (urlParseWsB e a first last ov base ui orc).sat (fun _ => True) := by
  unfold urlParseWsB
  refine R.sat_bind (doRemoveWhitespaceB_sat a first last _ h hl (by omega)) ?_
  intro r _
  cases r with
  | none => exact urlParseB_sat e a first last ov base ui (orc a) _ h hl (by omega)
  | some buff =>
    exact urlParseB_sat e buff.toArray 0 buff.length ov base ui (orc buff.toArray) _ (Nat.zero_le _)
      (by simp) (by omega)

end Upa.Impl.B
