import Upa.Impl.SetRepApi
import Upa.Props.C05b
import Upa.Proofs.Reparse
import Upa.Proofs.C01Auth
import Upa.Proofs.Canon
/-
  Helpers for C05d, part 1: on a representation of a record (`RepFor r u`) every getter the setters
  consult (`Impl/SetRepApi.lean`) returns what the record-level model (`Impl/Api.lean`,
  `Impl/Url.lean`) reads off the record.
-/
namespace Upa.Proofs.SetRepApi
open Upa Upa.Impl Upa.Proofs.C05 Upa.Proofs.SetRep Upa.Props

/-! ### scheme table -/

theorem schemeIndex_isSome (s : List Nat) : (schemeIndex s).isSome = isSpecialScheme s := by
  unfold schemeIndex isSpecialScheme
  by_cases h1 : s == sWs <;> by_cases h2 : s == sWss <;> by_cases h3 : s == sFtp <;>
    by_cases h4 : s == sHttp <;> by_cases h5 : s == sFile <;> by_cases h6 : s == sHttps <;>
    simp [h1, h2, h3, h4, h5, h6]

theorem schemeIndex_file (s : List Nat) : (schemeIndex s == some 4) = isFileScheme s := by
  unfold schemeIndex isFileScheme
  by_cases h5 : s == sFile
  · have : s = sFile := by simpa using h5
    subst this
    decide
  · by_cases h1 : s == sWs <;> by_cases h2 : s == sWss <;> by_cases h3 : s == sFtp <;>
      by_cases h4 : s == sHttp <;> by_cases h6 : s == sHttps <;>
      simp [h1, h2, h3, h4, h5, h6]

theorem schemeInfDefaultPort_eq (s : List Nat) : schemeInfDefaultPort (schemeIndex s) = defaultPort s := by
  unfold schemeIndex defaultPort
  by_cases h1 : s == sWs
  · simp [h1, schemeInfDefaultPort]
  by_cases h2 : s == sWss
  · simp [h1, h2, schemeInfDefaultPort]
  by_cases h3 : s == sFtp
  · simp [h1, h2, h3, schemeInfDefaultPort]
  by_cases h4 : s == sHttp
  · simp [h1, h2, h3, h4, schemeInfDefaultPort]
  by_cases h5 : s == sFile
  · have : s = sFile := by simpa using h5
    subst this
    decide
  by_cases h6 : s == sHttps
  · simp [h1, h2, h3, h4, h5, h6, schemeInfDefaultPort]
  · simp [h1, h2, h3, h4, h5, h6, schemeInfDefaultPort]

/-! ### flags and scheme index of a representation -/

theorem fill_eq {r : Rep} {u : Url} (wf : RecWF u) (h : RepFor r u) : r.fill = layout u := by
  have := h.1
  unfold Rep.equiv at this
  rwa [fill_layout u wf.1] at this

section getters
variable {r : Rep} {u : Url} (wf : RecWF u) (h : RepFor r u)
include wf h

theorem hostNotNull_eq : r.hostNotNull = u.host.isSome :=
  (congrArg Rep.hostNotNull (fill_eq wf h) : r.fill.hostNotNull = _)
theorem portNotNull_eq : r.portNotNull = u.port.isSome :=
  (congrArg Rep.portNotNull (fill_eq wf h) : r.fill.portNotNull = _)
theorem queryNotNull_eq : r.queryNotNull = u.query.isSome :=
  (congrArg Rep.queryNotNull (fill_eq wf h) : r.fill.queryNotNull = _)
theorem fragmentNotNull_eq : r.fragmentNotNull = u.fragment.isSome :=
  (congrArg Rep.fragmentNotNull (fill_eq wf h) : r.fill.fragmentNotNull = _)
theorem opaquePath_eq : r.opaquePath = u.hasOpaquePath :=
  (congrArg Rep.opaquePath (fill_eq wf h) : r.fill.opaquePath = _)
theorem schemeIdx_eq : r.schemeIdx = schemeIndex u.scheme :=
  (congrArg Rep.schemeIdx (fill_eq wf h) : r.fill.schemeIdx = _)

theorem isSpecialScheme_eq : r.isSpecialScheme = u.isSpecial := by
  unfold Rep.isSpecialScheme Url.isSpecial
  rw [schemeIdx_eq wf h, schemeIndex_isSome]

theorem isFileScheme_eq : r.isFileScheme = u.isFile := by
  unfold Rep.isFileScheme Url.isFile
  rw [schemeIdx_eq wf h, schemeIndex_file]

theorem defaultPort_eq : schemeInfDefaultPort r.schemeIdx = defaultPort u.scheme := by
  rw [schemeIdx_eq wf h, schemeInfDefaultPort_eq]

theorem schemeIdx_isNone : r.schemeIdx.isNone = !u.isSpecial := by
  rw [← isSpecialScheme_eq wf h]
  unfold Rep.isSpecialScheme
  cases r.schemeIdx <;> rfl

/-! ### emptiness of parts -/

theorem isEmpty_eq (t : Nat) (ht1 : 1 ≤ t) (ht : t ≤ 10) : r.isEmpty t = (layout u).isEmpty t := by
  rw [← fill_isEmpty r h.2 t ht1 ht, fill_eq wf h]

theorem partView_eq (t : Nat) (ht1 : 1 ≤ t) (ht : t ≤ 10) : r.partView t = (layout u).partView t := by
  rw [← fill_partView r h.2 t ht1 ht, fill_eq wf h]

theorem isEmpty_host : r.isEmpty HOST = decide (u.hostText = []) := by
  rw [isEmpty_eq wf h HOST (by decide) (by decide)]
  unfold Rep.isEmpty
  rw [if_neg (by decide)]
  show decide ((layout u).pe HOST_START + kPartStart.getD HOST 0 ≥ (layout u).pe HOST) = _
  rw [pe_hostStart, pe_host]
  simp only [oHost, kPartStart, HOST, List.getD_cons_succ, List.getD_cons_zero]
  cases u.hostText with
  | nil => simp
  | cons a t => simp

theorem isEmpty_username : r.isEmpty USERNAME = decide (u.username = []) := by
  rw [isEmpty_eq wf h USERNAME (by decide) (by decide)]
  unfold Rep.isEmpty
  rw [if_neg (by decide)]
  show decide ((layout u).pe SCHEME_SEP + kPartStart.getD USERNAME 0 ≥ (layout u).pe USERNAME) = _
  rw [pe_sep, pe_user]
  simp only [oUser, kPartStart, USERNAME, List.getD_cons_succ, List.getD_cons_zero]
  rw [userSeg_eq u (fun hn => (wf.2 hn).1)]
  cases u.username with
  | nil => simp
  | cons a t => simp

theorem isEmpty_password : r.isEmpty PASSWORD = decide (u.password = []) := by
  rw [isEmpty_eq wf h PASSWORD (by decide) (by decide)]
  unfold Rep.isEmpty
  rw [if_neg (by decide)]
  show decide ((layout u).pe USERNAME + kPartStart.getD PASSWORD 0 ≥ (layout u).pe PASSWORD) = _
  rw [pe_user, pe_pass]
  simp only [oPass, kPartStart, PASSWORD, List.getD_cons_succ, List.getD_cons_zero]
  have e := passSeg_eq u (fun hn => (wf.2 hn).2.1)
  cases hp : u.password with
  | nil =>
    have : passSeg u = [] := by
      unfold passSeg; simp [hp]
    simp [this]
  | cons a t =>
    rw [hp] at e
    have : (passSeg u).length = t.length + 2 := by
      have := congrArg List.length e
      simp at this
      omega
    simp [this]

theorem hasCredentials_eq : r.hasCredentials = u.hasCredentials := by
  unfold Rep.hasCredentials Url.hasCredentials
  rw [isEmpty_username wf h, isEmpty_password wf h]
  by_cases h1 : u.username = [] <;> by_cases h2 : u.password = [] <;> simp [h1, h2]

theorem canHave_eq : r.canHaveUsernamePasswordPort = canHaveUsernamePasswordPort u := by
  unfold Rep.canHaveUsernamePasswordPort canHaveUsernamePasswordPort
  rw [isEmpty_host wf h, isFileScheme_eq wf h]

/-! ### host text and port value -/

theorem partView_host : r.partView HOST = u.hostText :=
  (C05b_getters u r wf h).2.2.2.2.2.1

theorem portInt_eq : r.portInt = u.port := by
  have hp : r.partView PORT = getPort u := (C05b_getters u r wf h).2.2.2.2.2.2.1
  unfold Rep.portInt
  simp only
  rw [hp]
  unfold getPort
  cases hq : u.port with
  | none => rfl
  | some p =>
    have h1 := toDecimal_ne_nil p
    have h2 := (C02.toDecimal_spec p).2.1
    simp [h1, h2]

end getters

/-! ### decimal digits: `toDecimal ∘ decimalValue` on the digits the port state writes -/

theorem toDigitsAux_step (f n : Nat) (acc : List Nat) :
    toDigitsAux 10 (fun d => 0x30 + d) (f + 1) n acc =
      if n / 10 = 0 then (0x30 + n % 10) :: acc
      else toDigitsAux 10 (fun d => 0x30 + d) f (n / 10) ((0x30 + n % 10) :: acc) := rfl

theorem toDigitsAux_eq : ∀ (n fuel : Nat) (acc : List Nat), n < fuel →
    toDigitsAux 10 (fun d => 0x30 + d) fuel n acc = toDecimal n ++ acc := by
  intro n
  induction n using Nat.strongRecOn with
  | _ n ih =>
    intro fuel acc h
    cases fuel with
    | zero => omega
    | succ f =>
      rw [toDigitsAux_step]
      unfold toDecimal
      rw [toDigitsAux_step]
      by_cases h0 : n / 10 = 0
      · rw [if_pos h0, if_pos h0]; rfl
      · rw [if_neg h0, if_neg h0, ih (n / 10) (by omega) f _ (by omega),
          ih (n / 10) (by omega) n _ (by omega)]
        simp

theorem toDecimal_step (n : Nat) :
    toDecimal n = if n / 10 = 0 then [0x30 + n % 10] else toDecimal (n / 10) ++ [0x30 + n % 10] := by
  conv => lhs; unfold toDecimal
  rw [toDigitsAux_step]
  by_cases h0 : n / 10 = 0
  · rw [if_pos h0, if_pos h0]
  · rw [if_neg h0, if_neg h0, toDigitsAux_eq (n / 10) n _ (by omega)]

theorem decimalValue_snoc (d : List Nat) (x : Nat) :
    decimalValue (d ++ [x]) = decimalValue d * 10 + (x - 0x30) := by
  unfold decimalValue
  rw [List.foldl_append]
  rfl

theorem decimalValue_pos (c : Nat) (t : List Nat) (hc : isDigit c = true) (h0 : c ≠ 0x30) :
    0 < decimalValue (c :: t) := by
  rw [C01.Auth.decimalValue_cons]
  have h1 : 1 ≤ c - 0x30 := by
    simp only [isDigit, Bool.and_eq_true, decide_eq_true_eq] at hc
    omega
  have h2 : 0 < 10 ^ t.length := Nat.pow_pos (by omega)
  have := Nat.mul_le_mul h1 h2
  omega

/-- a canonical digit string (no leading zero unless it is the single digit) is the decimal form of
    its value -/
theorem toDecimal_decimalValue : ∀ (n : Nat) (d : List Nat), d.length = n → d ≠ [] →
    (∀ c ∈ d, isDigit c = true) → (d.length = 1 ∨ d.head? ≠ some 0x30) →
    toDecimal (decimalValue d) = d := by
  intro n
  induction n with
  | zero => intro d hl hne; exact absurd (List.eq_nil_of_length_eq_zero hl) hne
  | succ k ih =>
    intro d hl hne hdig hcan
    rcases List.eq_nil_or_concat d with h | ⟨init, x, h⟩
    · exact absurd h hne
    · rw [List.concat_eq_append] at h
      subst h
      have hx : isDigit x = true := hdig x (by simp)
      simp only [isDigit, Bool.and_eq_true, decide_eq_true_eq] at hx
      rw [decimalValue_snoc, toDecimal_step]
      cases init with
      | nil =>
        have : decimalValue [] = 0 := rfl
        rw [this, if_pos (by omega)]
        simp only [List.nil_append, List.cons.injEq, and_true]
        omega
      | cons c t =>
        have hlen : (c :: t).length = k := by simpa using hl
        have hhead : c ≠ 0x30 := by
          rcases hcan with hc | hc
          · simp at hc
          · simpa using hc
        have hpos := decimalValue_pos c t (hdig c (by simp)) hhead
        have hinit := ih (c :: t) hlen (by simp) (fun y hy => hdig y (by simp at hy ⊢; rcases hy with h | h <;> simp [h]))
          (Or.inr (by simpa using hhead))
        have e1 : (decimalValue (c :: t) * 10 + (x - 0x30)) / 10 = decimalValue (c :: t) := by omega
        have e2 : (decimalValue (c :: t) * 10 + (x - 0x30)) % 10 = x - 0x30 := by omega
        rw [if_neg (by rw [e1]; omega), e1, e2, hinit]
        congr 2
        omega

theorem strip_canon (ds : List Nat) (hne : ds ≠ []) :
    stripLeadingZeros ds ≠ [] ∧ (∀ c ∈ stripLeadingZeros ds, c ∈ ds) ∧
    ((stripLeadingZeros ds).length = 1 ∨ (stripLeadingZeros ds).head? ≠ some 0x30) := by
  fun_induction stripLeadingZeros ds with
  | case1 c => simp
  | case2 r h ih =>
    have hr : r ≠ [] := by
      intro hc; exact h hc
    obtain ⟨a, b, c⟩ := ih hr
    exact ⟨a, fun x hx => List.mem_cons_of_mem _ (b x hx), c⟩
  | case3 l h1 h2 =>
    refine ⟨hne, fun _ h => h, ?_⟩
    cases l with
    | nil => exact absurd rfl hne
    | cons c t =>
      right
      intro hc
      simp only [List.head?_cons, Option.some.injEq] at hc
      subst hc
      exact h2 t rfl

/-- the digits the port state writes (url.h:1978, 1993) are the decimal form of the port value -/
theorem port_digits (digits : List Nat) (hne : digits ≠ []) (hd : ∀ c ∈ digits, isDigit c = true) :
    toDecimal (decimalValue (stripLeadingZeros digits)) = stripLeadingZeros digits := by
  obtain ⟨a, b, c⟩ := strip_canon digits hne
  exact toDecimal_decimalValue _ _ rfl a (fun x hx => hd x (b x hx)) c

end Upa.Proofs.SetRepApi
