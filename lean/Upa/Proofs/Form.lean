import Upa.Impl.Form
import Upa.Spec.Form
import Upa.Proofs.Utf
/-
  Helper lemmas for C15: the one-pass application/x-www-form-urlencoded parser of
  url_search_params::do_parse against the Standard's split / replace / percent-decode / UTF-8 decode
  pipeline, and `urlencode` / `serialize` against the Standard's serializer.
-/
namespace Upa.Proofs.C15
open Upa Upa.Impl Upa.Spec

/-! ## uniform "cons" equations (the models match on `c :: h1 :: h2 :: r'` vs `c :: r`) -/

/-- two hex digits follow -/
def hex2 : List Nat → Bool
  | h1 :: h2 :: _ => isHex h1 && isHex h2
  | _ => false

/-- value of the two digits that follow -/
def pctVal : List Nat → Nat
  | h1 :: h2 :: _ => hexVal h1 * 16 + hexVal h2
  | _ => 0

theorem formParseAux_nil (st : FormSt) (acc : List BPair) : formParseAux [] st acc = st.flush acc := by
  simp [formParseAux]

theorem formParseAux_cons (c : Nat) (r : List Nat) (st : FormSt) (acc : List BPair) :
    formParseAux (c :: r) st acc =
      if c = 0x3D then
        if !st.inValue then formParseAux r { st with inValue := true, nonEmpty := true } acc
        else formParseAux r (st.push c) acc
      else if c = 0x26 then formParseAux r {} (st.flush acc)
      else if c = 0x2B then formParseAux r (st.push 0x20) acc
      else if c = 0x25 ∧ hex2 r = true then formParseAux (r.drop 2) (st.push (pctVal r)) acc
      else formParseAux r (st.push c) acc := by
  match r with
  | [] => simp [formParseAux, hex2]
  | [h1] => simp [formParseAux, hex2]
  | h1 :: h2 :: r' =>
    simp only [formParseAux, hex2, pctVal, List.drop_succ_cons, List.drop_zero]
    by_cases h25 : c = 0x25
    · subst h25
      by_cases hh : (isHex h1 && isHex h2) = true <;> simp [hh]
    · simp [h25]

theorem pd_nil : percentDecodeBytes [] = [] := by simp [percentDecodeBytes]

theorem pd_cons (b : Nat) (r : List Nat) :
    percentDecodeBytes (b :: r) =
      if b = 0x25 ∧ hex2 r = true then pctVal r :: percentDecodeBytes (r.drop 2)
      else b :: percentDecodeBytes r := by
  match r with
  | [] => simp [percentDecodeBytes, hex2]
  | [h1] => simp [percentDecodeBytes, hex2]
  | h1 :: h2 :: r' =>
    simp only [percentDecodeBytes, hex2, pctVal, List.drop_succ_cons, List.drop_zero, Bool.and_eq_true]


/-! ## '+' → space then percent-decode, as one pass -/

/-- what the Standard applies to a name / a value before UTF-8 decoding -/
def dec (l : List Nat) : List Nat := percentDecodeBytes (plusToSpace l)

theorem isHex_p2s (c : Nat) : isHex (if c = 0x2B then 0x20 else c) = isHex c := by
  by_cases h : c = 0x2B
  · subst h; decide
  · simp [h]

theorem hexVal_p2s (c : Nat) (h : isHex c = true) : hexVal (if c = 0x2B then 0x20 else c) = hexVal c := by
  by_cases h' : c = 0x2B
  · subst h'; revert h; decide
  · simp [h']

theorem hex2_p2s (s : List Nat) : hex2 (plusToSpace s) = hex2 s := by
  match s with
  | [] => rfl
  | [_] => rfl
  | h1 :: h2 :: r => simp [plusToSpace, hex2, isHex_p2s]

theorem pctVal_p2s (s : List Nat) (h : hex2 s = true) : pctVal (plusToSpace s) = pctVal s := by
  match s with
  | [] => rfl
  | [_] => rfl
  | h1 :: h2 :: r =>
    simp only [hex2, Bool.and_eq_true] at h
    simp [plusToSpace, pctVal, hexVal_p2s _ h.1, hexVal_p2s _ h.2]

theorem dec_nil : dec [] = [] := by simp [dec, plusToSpace, pd_nil]

theorem dec_cons (c : Nat) (s : List Nat) :
    dec (c :: s) =
      if c = 0x2B then 0x20 :: dec s
      else if c = 0x25 ∧ hex2 s = true then pctVal s :: dec (s.drop 2)
      else c :: dec s := by
  have hd : (plusToSpace s).drop 2 = plusToSpace (s.drop 2) := by simp [plusToSpace, List.map_drop]
  by_cases h2B : c = 0x2B
  · subst h2B
    simp [dec, plusToSpace, pd_cons]
  · simp only [dec, plusToSpace, List.map_cons, if_neg h2B, pd_cons]
    have h := hex2_p2s s
    simp only [plusToSpace] at h hd
    rw [h, hd]
    by_cases hc : c = 0x25 ∧ hex2 s = true
    · have hv := pctVal_p2s s hc.2
      simp only [plusToSpace] at hv
      rw [if_pos hc, if_pos hc, hv]
    · rw [if_neg hc, if_neg hc]

theorem hex2_true {s : List Nat} (h : hex2 s = true) :
    ∃ h1 h2 s', s = h1 :: h2 :: s' ∧ isHex h1 = true ∧ isHex h2 = true := by
  match s with
  | [] => simp [hex2] at h
  | [_] => simp [hex2] at h
  | h1 :: h2 :: r =>
    simp only [hex2, Bool.and_eq_true] at h
    exact ⟨h1, h2, r, rfl, h.1, h.2⟩

/-- what follows a scanned segment does not start with a hex digit -/
def NoHexHead (rest : List Nat) : Prop := rest = [] ∨ ∃ d r, rest = d :: r ∧ isHex d = false

theorem hex2_append (s rest : List Nat) (hr : NoHexHead rest) : hex2 (s ++ rest) = hex2 s := by
  match s with
  | [] =>
    rcases hr with rfl | ⟨d, r, rfl, hd⟩
    · rfl
    · cases r <;> simp [hex2, hd]
  | [x] =>
    rcases hr with rfl | ⟨d, r, rfl, hd⟩
    · rfl
    · simp [hex2, hd]
  | h1 :: h2 :: r => simp [hex2]

theorem push_inValue (st : FormSt) (b : Nat) : (st.push b).inValue = st.inValue := by
  unfold FormSt.push; split <;> simp_all

/-- scanning a segment that contains no active delimiter pushes its `dec` -/
theorem scan (n : Nat) : ∀ (seg : List Nat) (st : FormSt) (acc : List BPair) (rest : List Nat),
    seg.length ≤ n →
    (∀ c ∈ seg, c ≠ 0x26 ∧ (st.inValue = false → c ≠ 0x3D)) → NoHexHead rest →
    formParseAux (seg ++ rest) st acc = formParseAux rest ((dec seg).foldl FormSt.push st) acc := by
  induction n with
  | zero =>
    intro seg st acc rest hl _ _
    have : seg = [] := List.length_eq_zero_iff.1 (Nat.le_zero.1 hl)
    subst this; simp [dec_nil]
  | succ n ih =>
    intro seg st acc rest hl hseg hr
    match seg with
    | [] => simp [dec_nil]
    | c :: s =>
      have hc := hseg c (by simp)
      have hs : ∀ b, ∀ x ∈ s, x ≠ 0x26 ∧ ((st.push b).inValue = false → x ≠ 0x3D) := by
        intro b x hx; rw [push_inValue]; exact hseg x (by simp [hx])
      have hl' : s.length ≤ n := by simp at hl; omega
      rw [List.cons_append, formParseAux_cons, dec_cons, if_neg hc.1, hex2_append s rest hr]
      by_cases h3D : c = 0x3D
      · have hv : st.inValue = true := by
          cases hiv : st.inValue with
          | true => rfl
          | false => exact absurd h3D (hc.2 hiv)
        have h1 : ¬ c = 0x2B := by omega
        have h2 : ¬ (c = 0x25 ∧ hex2 s = true) := by omega
        rw [if_pos h3D, if_neg h1, if_neg h2]
        simp only [hv, Bool.not_true, List.foldl_cons]
        exact ih s (st.push c) acc rest hl' (hs c) hr
      · rw [if_neg h3D]
        by_cases h2B : c = 0x2B
        · rw [if_pos h2B, if_pos h2B, List.foldl_cons]
          exact ih s (st.push 0x20) acc rest hl' (hs _) hr
        · rw [if_neg h2B, if_neg h2B]
          by_cases hp : c = 0x25 ∧ hex2 s = true
          · rw [if_pos hp, if_pos hp, List.foldl_cons]
            obtain ⟨h1, h2, s', rfl, _, _⟩ := hex2_true hp.2
            simp only [List.cons_append, List.drop_succ_cons, List.drop_zero, pctVal]
            refine ih s' (st.push _) acc rest (by simp at hl'; omega) ?_ hr
            intro x hx; exact hs _ x (by simp [hx])
          · rw [if_neg hp, if_neg hp, List.foldl_cons]
            exact ih s (st.push c) acc rest hl' (hs c) hr


/-! ## one piece (no '&' inside) -/

theorem foldl_push_name (l : List Nat) : ∀ (st : FormSt), st.inValue = false →
    l.foldl FormSt.push st =
      { name := st.name ++ l, value := st.value, inValue := false, nonEmpty := st.nonEmpty || !l.isEmpty } := by
  induction l with
  | nil => intro st h; cases st; simp_all
  | cons b l ih =>
    intro st h
    rw [List.foldl_cons, ih _ (by rw [push_inValue]; exact h)]
    simp [FormSt.push, h]

theorem foldl_push_value (l : List Nat) : ∀ (st : FormSt), st.inValue = true →
    l.foldl FormSt.push st =
      { name := st.name, value := st.value ++ l, inValue := true, nonEmpty := st.nonEmpty || !l.isEmpty } := by
  induction l with
  | nil => intro st h; cases st; simp_all
  | cons b l ih =>
    intro st h
    rw [List.foldl_cons, ih _ (by rw [push_inValue]; exact h)]
    simp [FormSt.push, h]

theorem splitFirst_spec (sep : Nat) (l : List Nat) :
    ((∀ c ∈ l, c ≠ sep) ∧ splitFirst sep l = (l, [])) ∨
    (∃ a b, l = a ++ sep :: b ∧ (∀ c ∈ a, c ≠ sep) ∧ splitFirst sep l = (a, b)) := by
  induction l with
  | nil => left; simp [splitFirst]
  | cons c cs ih =>
    by_cases h : c = sep
    · right; exact ⟨[], cs, by simp [h], by simp, by simp [splitFirst, h]⟩
    · rcases ih with ⟨h1, h2⟩ | ⟨a, b, h1, h2, h3⟩
      · left; refine ⟨?_, by simp [splitFirst, h, h2]⟩
        intro x hx; rcases List.mem_cons.1 hx with rfl | hx
        · exact h
        · exact h1 x hx
      · right; refine ⟨c :: a, b, by simp [h1], ?_, by simp [splitFirst, h, h3]⟩
        intro x hx; rcases List.mem_cons.1 hx with rfl | hx
        · exact h
        · exact h2 x hx

theorem dec_eq_nil {l : List Nat} : dec l = [] ↔ l = [] := by
  constructor
  · intro h
    match l with
    | [] => rfl
    | c :: s => rw [dec_cons] at h; split at h <;> (try split at h) <;> simp at h
  · rintro rfl; exact dec_nil

/-- what one non-'&' piece contributes to the output list -/
def pieceResult (p : List Nat) : List BPair :=
  if p = [] then []
  else [(checkFixUtf8 (dec (splitFirst 0x3D p).1), checkFixUtf8 (dec (splitFirst 0x3D p).2))]

/-- '&' or end of input follows -/
def AmpOrEnd (rest : List Nat) : Prop := rest = [] ∨ ∃ r, rest = 0x26 :: r

theorem AmpOrEnd.noHex {rest : List Nat} (h : AmpOrEnd rest) : NoHexHead rest := by
  rcases h with rfl | ⟨r, rfl⟩
  · left; rfl
  · right; exact ⟨0x26, r, rfl, by decide⟩

theorem piece_state (p : List Nat) (hp : ∀ c ∈ p, c ≠ 0x26) :
    ∃ st : FormSt, (∀ acc, st.flush acc = acc ++ pieceResult p) ∧
      ∀ rest acc, AmpOrEnd rest → formParseAux (p ++ rest) {} acc = formParseAux rest st acc := by
  rcases splitFirst_spec 0x3D p with ⟨hno, hsf⟩ | ⟨a, b, rfl, ha, hsf⟩
  · -- no '=' in the piece: everything goes to the name
    refine ⟨(dec p).foldl FormSt.push {}, ?_, ?_⟩
    · intro acc
      rw [foldl_push_name _ _ rfl]
      by_cases hpe : p = []
      · subst hpe; simp [FormSt.flush, pieceResult, dec_nil]
      · have : dec p ≠ [] := fun h => hpe (dec_eq_nil.1 h)
        simp [FormSt.flush, pieceResult, hpe, hsf, this, dec_nil]
    · intro rest acc hr
      exact scan p.length p {} acc rest (Nat.le_refl _) (fun c hc => ⟨hp c hc, fun _ => hno c hc⟩) hr.noHex
  · -- name '=' value
    have hb : ∀ c ∈ b, c ≠ 0x26 := fun c hc => hp c (by simp [hc])
    have ha' : ∀ c ∈ a, c ≠ 0x26 := fun c hc => hp c (by simp [hc])
    refine ⟨(dec b).foldl FormSt.push
      { name := dec a, value := [], inValue := true, nonEmpty := true }, ?_, ?_⟩
    · intro acc
      rw [foldl_push_value _ _ rfl]
      simp [FormSt.flush, pieceResult, hsf]
    · intro rest acc hr
      rw [List.append_assoc, List.cons_append, scan a.length a {} acc _ (Nat.le_refl _)
        (fun c hc => ⟨ha' c hc, fun _ => ha c hc⟩) (Or.inr ⟨0x3D, _, rfl, by decide⟩)]
      rw [foldl_push_name _ _ rfl, formParseAux_cons]
      simp only [if_true, Bool.not_false, List.nil_append]
      exact scan b.length b _ acc rest (Nat.le_refl _) (fun c hc => ⟨hb c hc, fun h => by simp at h⟩) hr.noHex

theorem piece_last (p : List Nat) (hp : ∀ c ∈ p, c ≠ 0x26) (acc : List BPair) :
    formParseAux p {} acc = acc ++ pieceResult p := by
  obtain ⟨st, h1, h2⟩ := piece_state p hp
  have := h2 [] acc (Or.inl rfl)
  rw [List.append_nil, formParseAux_nil, h1] at this
  exact this

theorem piece_amp (p r : List Nat) (hp : ∀ c ∈ p, c ≠ 0x26) (acc : List BPair) :
    formParseAux (p ++ 0x26 :: r) {} acc = formParseAux r {} (acc ++ pieceResult p) := by
  obtain ⟨st, h1, h2⟩ := piece_state p hp
  rw [h2 _ acc (Or.inr ⟨r, rfl⟩), formParseAux_cons]
  simp [h1]

/-- the parser on '&'-joined pieces -/
theorem parse_intercalate (ps : List (List Nat)) (hps : ∀ p ∈ ps, ∀ c ∈ p, c ≠ 0x26) :
    ∀ acc, formParseAux (intercalateAmp ps) {} acc = acc ++ ps.flatMap pieceResult := by
  induction ps with
  | nil => intro acc; simp [intercalateAmp, formParseAux_nil, FormSt.flush]
  | cons p ps ih =>
    intro acc
    match ps with
    | [] => simp [intercalateAmp, piece_last p (hps p (by simp))]
    | q :: qs =>
      have : intercalateAmp (p :: q :: qs) = p ++ 0x26 :: intercalateAmp (q :: qs) := by
        simp [intercalateAmp]
      rw [this, piece_amp p _ (hps p (by simp)), ih (fun x hx => hps x (by simp [hx]))]
      simp


/-! ## strict split on '&' -/

theorem splitOnP_ne_nil (f : Nat → Bool) (l : List Nat) : splitOnP f l ≠ [] := by
  cases l with
  | nil => simp [splitOnP]
  | cons c cs =>
    unfold splitOnP
    split
    · simp
    · split <;> simp

theorem splitOnP_cons_pos (f : Nat → Bool) (c : Nat) (cs : List Nat) (h : f c = true) :
    splitOnP f (c :: cs) = [] :: splitOnP f cs := by
  simp [splitOnP, h]

theorem splitOnP_cons_neg (f : Nat → Bool) (c : Nat) (cs : List Nat) (h : f c = false) :
    ∃ hd tl, splitOnP f cs = hd :: tl ∧ splitOnP f (c :: cs) = (c :: hd) :: tl := by
  match hs : splitOnP f cs with
  | [] => exact absurd hs (splitOnP_ne_nil f cs)
  | hd :: tl => exact ⟨hd, tl, rfl, by simp [splitOnP, h, hs]⟩

theorem intercalateAmp_cons_cons (c : Nat) (h : List Nat) (t : List (List Nat)) :
    intercalateAmp ((c :: h) :: t) = c :: intercalateAmp (h :: t) := by
  cases t <;> simp [intercalateAmp]

theorem intercalate_split (l : List Nat) : intercalateAmp (splitOnP (· == 0x26) l) = l := by
  induction l with
  | nil => simp [splitOnP, intercalateAmp]
  | cons c cs ih =>
    by_cases h : (c == 0x26) = true
    · rw [splitOnP_cons_pos _ c cs h]
      match hs : splitOnP (· == 0x26) cs with
      | [] => exact absurd hs (splitOnP_ne_nil _ cs)
      | hd :: tl =>
        rw [hs] at ih
        simp only [intercalateAmp, List.nil_append, ih]
        simp at h; rw [h]
    · obtain ⟨hd, tl, h1, h2⟩ := splitOnP_cons_neg (· == 0x26) c cs (by simpa using h)
      rw [h2, intercalateAmp_cons_cons, ← h1, ih]

theorem split_noamp (l : List Nat) : ∀ p ∈ splitOnP (· == 0x26) l, ∀ c ∈ p, c ≠ 0x26 := by
  induction l with
  | nil => simp [splitOnP]
  | cons c cs ih =>
    by_cases h : (c == 0x26) = true
    · rw [splitOnP_cons_pos _ c cs h]
      intro p hp; rcases List.mem_cons.1 hp with rfl | hp
      · simp
      · exact ih p hp
    · obtain ⟨hd, tl, h1, h2⟩ := splitOnP_cons_neg (· == 0x26) c cs (by simpa using h)
      rw [h2]; rw [h1] at ih
      intro p hp; rcases List.mem_cons.1 hp with rfl | hp
      · intro x hx; rcases List.mem_cons.1 hx with rfl | hx
        · simpa using h
        · exact ih hd (by simp) x hx
      · exact ih p (by simp [hp])

theorem split_mem (f : Nat → Bool) (l : List Nat) : ∀ p ∈ splitOnP f l, ∀ c ∈ p, c ∈ l := by
  induction l with
  | nil => simp [splitOnP]
  | cons c cs ih =>
    by_cases h : f c = true
    · rw [splitOnP_cons_pos _ c cs h]
      intro p hp; rcases List.mem_cons.1 hp with rfl | hp
      · simp
      · intro x hx; exact List.mem_cons_of_mem _ (ih p hp x hx)
    · obtain ⟨hd, tl, h1, h2⟩ := splitOnP_cons_neg f c cs (by simpa using h)
      rw [h2]; rw [h1] at ih
      intro p hp; rcases List.mem_cons.1 hp with rfl | hp
      · intro x hx; rcases List.mem_cons.1 hx with rfl | hx
        · simp
        · exact List.mem_cons_of_mem _ (ih hd (by simp) x hx)
      · intro x hx; exact List.mem_cons_of_mem _ (ih p (by simp [hp]) x hx)

/-! ## bytes stay bytes; `check_fix_utf8` is UTF-8 decode + encode -/

theorem isHex_lt (h : Nat) (hh : isHex h = true) : h < 128 := by
  simp [isHex, isDigit] at hh; omega

theorem hexVal_lt : ∀ h, h < 128 → isHex h = true → hexVal h < 16 := by decide

theorem pctVal_lt (s : List Nat) (h : hex2 s = true) : pctVal s < 256 := by
  obtain ⟨h1, h2, s', rfl, a, b⟩ := hex2_true h
  have := hexVal_lt h1 (isHex_lt h1 a) a
  have := hexVal_lt h2 (isHex_lt h2 b) b
  simp only [pctVal]; omega

theorem dec_lt (n : Nat) : ∀ l : List Nat, l.length ≤ n → (∀ x ∈ l, x < 256) → ∀ x ∈ dec l, x < 256 := by
  induction n with
  | zero =>
    intro l hl _ x hx
    have : l = [] := List.length_eq_zero_iff.1 (Nat.le_zero.1 hl)
    subst this; simp [dec_nil] at hx
  | succ n ih =>
    intro l hl hb x hx
    match l with
    | [] => simp [dec_nil] at hx
    | c :: s =>
      have hs : ∀ y ∈ s, y < 256 := fun y hy => hb y (by simp [hy])
      have hl' : s.length ≤ n := by simp at hl; omega
      rw [dec_cons] at hx
      split at hx
      · rcases List.mem_cons.1 hx with rfl | hx
        · omega
        · exact ih s hl' hs x hx
      · split at hx
        · rename_i hp
          rcases List.mem_cons.1 hx with rfl | hx
          · exact pctVal_lt s hp.2
          · refine ih (s.drop 2) (by simp; omega) (fun y hy => hs y (List.mem_of_mem_drop hy)) x hx
        · rcases List.mem_cons.1 hx with rfl | hx
          · exact hb _ (by simp)
          · exact ih s hl' hs x hx

theorem checkFix_spec (b : List Nat) (hb : ∀ x ∈ b, x < 256) :
    checkFixUtf8 b = utf8Encode (utf8Decode b) := by
  unfold checkFixUtf8
  rw [encodeUtf8_eq _ (decode_u8_scalar b hb), decode_u8_eq_spec b hb]

/-- the Standard's per-piece step of the urlencoded parser -/
def specPiece (piece : List Nat) : Option Spec.Pair :=
  if piece = [] then none
  else
    let (name, value) := splitFirst 0x3D piece
    some (utf8Decode (percentDecodeBytes (plusToSpace name)),
          utf8Decode (percentDecodeBytes (plusToSpace value)))

theorem urlencodedParse_eq (bytes : List Nat) :
    urlencodedParse bytes = (splitOnP (· == 0x26) bytes).filterMap specPiece := rfl

/-- Standard strings → stored UTF-8 -/
def encPair (p : Spec.Pair) : BPair := (utf8Encode p.1, utf8Encode p.2)

theorem pieceResult_spec (p : List Nat) (hp : ∀ b ∈ p, b < 256) :
    pieceResult p = ((specPiece p).map encPair).toList := by
  unfold pieceResult specPiece
  by_cases hpe : p = []
  · simp [hpe]
  · rw [if_neg hpe, if_neg hpe]
    have hlt1 : ∀ x ∈ (splitFirst 0x3D p).1, x < 256 := by
      rcases splitFirst_spec 0x3D p with ⟨_, h⟩ | ⟨a, b, h1, _, h⟩
      · rw [h]; exact hp
      · rw [h]; intro x hx; exact hp x (by rw [h1]; simp [hx])
    have hlt2 : ∀ x ∈ (splitFirst 0x3D p).2, x < 256 := by
      rcases splitFirst_spec 0x3D p with ⟨_, h⟩ | ⟨a, b, h1, _, h⟩
      · rw [h]; simp
      · rw [h]; intro x hx; exact hp x (by rw [h1]; simp [hx])
    rw [checkFix_spec _ (dec_lt _ _ (Nat.le_refl _) hlt1), checkFix_spec _ (dec_lt _ _ (Nat.le_refl _) hlt2)]
    rfl

theorem flatMap_pieceResult (ps : List (List Nat)) (hps : ∀ p ∈ ps, ∀ b ∈ p, b < 256) :
    ps.flatMap pieceResult = (ps.filterMap specPiece).map encPair := by
  induction ps with
  | nil => rfl
  | cons p ps ih =>
    rw [List.flatMap_cons, ih (fun q hq => hps q (by simp [hq])), pieceResult_spec p (hps p (by simp)),
      List.filterMap_cons]
    cases specPiece p <;> simp

theorem formParse_false (bytes : List Nat) : formParse false bytes = formParseAux bytes {} [] := by
  unfold formParse; rfl

theorem parse_eq (bytes : List Nat) (hb : ∀ b ∈ bytes, b < 256) :
    formParse false bytes = (urlencodedParse bytes).map encPair := by
  rw [formParse_false, urlencodedParse_eq]
  conv => lhs; rw [← intercalate_split bytes]
  rw [parse_intercalate _ (split_noamp bytes), List.nil_append]
  exact flatMap_pieceResult _ (fun p hp b hb' => hb b (split_mem _ bytes p hp b hb'))


/-! ## urlencode / serialize -/

/-- what `urlencode` appends for one byte -/
def enc1 (b : Nat) : List Nat :=
  if urlencodedByte b = 0x25 then pctByte b else [urlencodedByte b]

theorem urlencode_nil : urlencode [] = [] := rfl
theorem urlencode_cons (b : Nat) (n : List Nat) : urlencode (b :: n) = enc1 b ++ urlencode n := by
  simp [urlencode, enc1]

/-- the table-driven byte rule is the Standard's urlencoded byte serializer -/
theorem enc1_spec_lt : ∀ b, b < 256 →
    enc1 b = (if b = 0x20 then [0x2B] else if urlencodedSet b then pctByte b else [b]) := by
  decide +kernel

theorem enc1_spec (b : Nat) :
    enc1 b = (if b = 0x20 then [0x2B] else if urlencodedSet b then pctByte b else [b]) := by
  by_cases h : b < 256
  · exact enc1_spec_lt b h
  · have h1 : urlencodedByte b = 0x25 := by
      have h20 : (b == 0x20) = false := by simp; omega
      have hA : isAlpha b = false := by simp [isAlpha]; omega
      have hD : isDigit b = false := by simp [isDigit]; omega
      have h2A : (b == 0x2A) = false := by simp; omega
      have h2D : (b == 0x2D) = false := by simp; omega
      have h2E : (b == 0x2E) = false := by simp; omega
      have h5F : (b == 0x5F) = false := by simp; omega
      simp [urlencodedByte, h20, hA, hD, h2A, h2D, h2E, h5F]
    have h2 : urlencodedSet b = true := by
      have : c0ControlSet b = true := by simp [c0ControlSet]; omega
      simp [urlencodedSet, componentSet, userinfoSet, pathSet, querySet, this]
    have h3 : ¬ b = 0x20 := by omega
    simp [enc1, h1, h2, h3]

theorem urlencode_spec (bytes : List Nat) : urlencode bytes = urlencodedSerializeBytes bytes := by
  induction bytes with
  | nil => rfl
  | cons b n ih =>
    rw [urlencode_cons, ih, enc1_spec]
    simp [urlencodedSerializeBytes]

/-- the alphabet of a serialized query: ASCII alphanumerics, `*-._`, `+`, `%`, `=`, `&` -/
def isFormChar (c : Nat) : Bool :=
  isAlpha c || isDigit c || c == 0x2A || c == 0x2D || c == 0x2E || c == 0x5F ||
    c == 0x2B || c == 0x25 || c == 0x3D || c == 0x26

theorem enc1_alphabet : ∀ b, b < 256 → ∀ c ∈ enc1 b, isFormChar c = true ∧ c ≠ 0x26 ∧ c ≠ 0x3D := by
  decide +kernel

theorem urlencode_alphabet (n : List Nat) (hn : ∀ b ∈ n, b < 256) :
    ∀ c ∈ urlencode n, isFormChar c = true ∧ c ≠ 0x26 ∧ c ≠ 0x3D := by
  induction n with
  | nil => simp [urlencode_nil]
  | cons b n ih =>
    intro c hc
    rw [urlencode_cons, List.mem_append] at hc
    rcases hc with hc | hc
    · exact enc1_alphabet b (hn b (by simp)) c hc
    · exact ih (fun x hx => hn x (by simp [hx])) c hc

/-- one encoded pair -/
def encPiece (p : BPair) : List Nat := urlencode p.1 ++ 0x3D :: urlencode p.2

theorem formSerialize_eq (l : List BPair) : formSerialize l = intercalateAmp (l.map encPiece) := by
  induction l with
  | nil => rfl
  | cons p l ih =>
    obtain ⟨n, v⟩ := p
    match l with
    | [] => simp [formSerialize, intercalateAmp, encPiece]
    | q :: qs =>
      have : formSerialize ((n, v) :: q :: qs) =
          urlencode n ++ 0x3D :: urlencode v ++ 0x26 :: formSerialize (q :: qs) := by
        simp [formSerialize]
      rw [this, ih]
      simp [intercalateAmp, encPiece]

theorem mem_intercalateAmp (ps : List (List Nat)) (c : Nat) (h : c ∈ intercalateAmp ps) :
    c = 0x26 ∨ ∃ p ∈ ps, c ∈ p := by
  induction ps with
  | nil => simp [intercalateAmp] at h
  | cons p ps ih =>
    match ps with
    | [] => right; exact ⟨p, by simp, by simpa [intercalateAmp] using h⟩
    | q :: qs =>
      have e : intercalateAmp (p :: q :: qs) = p ++ 0x26 :: intercalateAmp (q :: qs) := by
        simp [intercalateAmp]
      rw [e, List.mem_append, List.mem_cons] at h
      rcases h with h | h | h
      · right; exact ⟨p, by simp, h⟩
      · left; exact h
      · rcases ih h with h | ⟨x, hx, hc⟩
        · left; exact h
        · right; exact ⟨x, List.mem_cons_of_mem _ hx, hc⟩

theorem serialize_alphabet (l : List BPair)
    (hl : ∀ p ∈ l, (∀ b ∈ p.1, b < 256) ∧ (∀ b ∈ p.2, b < 256)) :
    ∀ c ∈ formSerialize l, isFormChar c = true := by
  intro c hc
  rw [formSerialize_eq] at hc
  rcases mem_intercalateAmp _ c hc with rfl | ⟨x, hx, hcx⟩
  · decide
  · obtain ⟨p, hp, rfl⟩ := List.mem_map.1 hx
    simp only [encPiece, List.mem_append, List.mem_cons] at hcx
    rcases hcx with h | rfl | h
    · exact (urlencode_alphabet _ (hl p hp).1 c h).1
    · decide
    · exact (urlencode_alphabet _ (hl p hp).2 c h).1

theorem serialize_spec (l : List Spec.Pair) :
    formSerialize (l.map encPair) = urlencodedSerialize l := by
  rw [formSerialize_eq, urlencodedSerialize, List.map_map]
  congr 1
  apply List.map_congr_left
  intro p _
  simp [encPiece, encPair, urlencode_spec]

/-! ## parsing what `serialize` wrote -/

theorem pct_ok : ∀ b, b < 256 →
    isHex (hexDigitUpper (b / 16)) = true ∧ isHex (hexDigitUpper (b % 16)) = true ∧
    hexVal (hexDigitUpper (b / 16)) * 16 + hexVal (hexDigitUpper (b % 16)) = b := by
  decide +kernel

theorem enc1_class : ∀ b, b < 256 →
    (b = 0x20 ∧ enc1 b = [0x2B]) ∨
    (enc1 b = [b] ∧ b ≠ 0x2B ∧ b ≠ 0x25) ∨
    enc1 b = pctByte b := by
  decide +kernel

theorem dec_enc1 (b : Nat) (hb : b < 256) (rest : List Nat) : dec (enc1 b ++ rest) = b :: dec rest := by
  rcases enc1_class b hb with ⟨rfl, h⟩ | ⟨h, h1, h2⟩ | h
  · rw [h]; simp [dec_cons]
  · rw [h, List.singleton_append, dec_cons, if_neg h1, if_neg (fun hh => h2 hh.1)]
  · obtain ⟨x1, x2, x3⟩ := pct_ok b hb
    rw [h, pctByte]
    simp only [List.cons_append, List.nil_append]
    rw [dec_cons, if_neg (by decide), if_pos ⟨rfl, by simp [hex2, x1, x2]⟩]
    simp [pctVal, x3]

theorem dec_urlencode (n : List Nat) (hn : ∀ b ∈ n, b < 256) : dec (urlencode n) = n := by
  induction n with
  | nil => simp [urlencode_nil, dec_nil]
  | cons b n ih =>
    rw [urlencode_cons, dec_enc1 b (hn b (by simp)), ih (fun x hx => hn x (by simp [hx]))]

theorem splitFirst_append (sep : Nat) (a b : List Nat) (ha : ∀ c ∈ a, c ≠ sep) :
    splitFirst sep (a ++ sep :: b) = (a, b) := by
  induction a with
  | nil => simp [splitFirst]
  | cons c a ih =>
    have hc : c ≠ sep := ha c (by simp)
    simp [splitFirst, hc, ih (fun x hx => ha x (by simp [hx]))]

theorem pieceResult_encPiece (p : BPair) (h1 : ∀ b ∈ p.1, b < 256) (h2 : ∀ b ∈ p.2, b < 256) :
    pieceResult (encPiece p) = [(checkFixUtf8 p.1, checkFixUtf8 p.2)] := by
  have hne : encPiece p ≠ [] := by simp [encPiece]
  rw [pieceResult, if_neg hne, encPiece,
    splitFirst_append 0x3D _ _ (fun c hc => (urlencode_alphabet p.1 h1 c hc).2.2),
    dec_urlencode _ h1, dec_urlencode _ h2]

/-- for arbitrary stored byte strings, parse ∘ serialize repairs the UTF-8 and changes nothing else -/
theorem roundtrip_bytes (l : List BPair)
    (hl : ∀ p ∈ l, (∀ b ∈ p.1, b < 256) ∧ (∀ b ∈ p.2, b < 256)) :
    formParse false (formSerialize l) = l.map fun p => (checkFixUtf8 p.1, checkFixUtf8 p.2) := by
  rw [formParse_false, formSerialize_eq, parse_intercalate, List.nil_append]
  · induction l with
    | nil => rfl
    | cons p l ih =>
      rw [List.map_cons, List.flatMap_cons, pieceResult_encPiece p (hl p (by simp)).1 (hl p (by simp)).2,
        ih (fun q hq => hl q (by simp [hq]))]
      rfl
  · intro x hx c hc
    obtain ⟨p, hp, rfl⟩ := List.mem_map.1 hx
    simp only [encPiece, List.mem_append, List.mem_cons] at hc
    rcases hc with h | rfl | h
    · exact (urlencode_alphabet _ (hl p hp).1 c h).2.1
    · decide
    · exact (urlencode_alphabet _ (hl p hp).2 c h).2.1

theorem roundtrip (l : List Spec.Pair)
    (hl : ∀ p ∈ l, (∀ c ∈ p.1, isScalar c = true) ∧ (∀ c ∈ p.2, isScalar c = true)) :
    formParse false (formSerialize (l.map encPair)) = l.map encPair := by
  rw [roundtrip_bytes]
  · rw [List.map_map]
    apply List.map_congr_left
    intro p hp
    simp [encPair, checkFix_wf _ (hl p hp).1, checkFix_wf _ (hl p hp).2]
  · intro q hq
    obtain ⟨p, hp, rfl⟩ := List.mem_map.1 hq
    exact ⟨utf8Encode_lt _ (hl p hp).1, utf8Encode_lt _ (hl p hp).2⟩

/-! ## the leading '?' -/

theorem formParse_true (bytes : List Nat) :
    formParse true bytes = formParse false (match bytes with | 0x3F :: r => r | l => l) := by
  unfold formParse
  split <;> simp_all


/-! ## kernel-evaluable copies

  `formParseAux` and `percentDecodeBytes` are compiled by well-founded recursion, which the kernel does
  not unfold; the evaluated instances in `Upa/Props/C15.lean` go through these fuel-driven copies. -/

def formParseFuel : Nat → List Nat → FormSt → List BPair → List BPair
  | 0, _, st, acc => st.flush acc
  | _+1, [], st, acc => st.flush acc
  | n+1, c :: r, st, acc =>
    if c = 0x3D then
      if !st.inValue then formParseFuel n r { st with inValue := true, nonEmpty := true } acc
      else formParseFuel n r (st.push c) acc
    else if c = 0x26 then formParseFuel n r {} (st.flush acc)
    else if c = 0x2B then formParseFuel n r (st.push 0x20) acc
    else if c = 0x25 ∧ hex2 r = true then formParseFuel n (r.drop 2) (st.push (pctVal r)) acc
    else formParseFuel n r (st.push c) acc

theorem formParseFuel_eq (n : Nat) : ∀ (l : List Nat) (st : FormSt) (acc : List BPair), l.length ≤ n →
    formParseFuel n l st acc = formParseAux l st acc := by
  induction n with
  | zero =>
    intro l st acc hl
    have : l = [] := List.length_eq_zero_iff.1 (Nat.le_zero.1 hl)
    subst this; simp [formParseFuel, formParseAux_nil]
  | succ n ih =>
    intro l st acc hl
    match l with
    | [] => simp [formParseFuel, formParseAux_nil]
    | c :: r =>
      have hr : r.length ≤ n := by simp at hl; omega
      have hd : (r.drop 2).length ≤ n := by simp; omega
      rw [formParseAux_cons, formParseFuel]
      simp only [ih r _ _ hr, ih (r.drop 2) _ _ hd]

/-- `formParse`, evaluable by `decide +kernel` -/
def formParseK (remQmark : Bool) (bytes : List Nat) : List BPair :=
  let b := match remQmark, bytes with
    | true, 0x3F :: r => r
    | _, l => l
  formParseFuel b.length b {} []

theorem formParse_eqK (remQmark : Bool) (bytes : List Nat) :
    formParse remQmark bytes = formParseK remQmark bytes := by
  unfold formParse formParseK
  simp only [formParseFuel_eq _ _ _ _ (Nat.le_refl _)]
  rfl

def pdFuel : Nat → List Nat → List Nat
  | 0, l => l
  | _+1, [] => []
  | n+1, b :: r =>
    if b = 0x25 ∧ hex2 r = true then pctVal r :: pdFuel n (r.drop 2) else b :: pdFuel n r

theorem pdFuel_eq (n : Nat) : ∀ l : List Nat, l.length ≤ n → pdFuel n l = percentDecodeBytes l := by
  induction n with
  | zero =>
    intro l hl
    have : l = [] := List.length_eq_zero_iff.1 (Nat.le_zero.1 hl)
    subst this; simp [pdFuel, pd_nil]
  | succ n ih =>
    intro l hl
    match l with
    | [] => simp [pdFuel, pd_nil]
    | c :: r =>
      have hr : r.length ≤ n := by simp at hl; omega
      have hd : (r.drop 2).length ≤ n := by simp; omega
      rw [pd_cons, pdFuel, ih r hr, ih (r.drop 2) hd]

def pdK (l : List Nat) : List Nat := pdFuel l.length l

theorem pd_eq_pdK : percentDecodeBytes = pdK := funext fun l => (pdFuel_eq _ l (Nat.le_refl _)).symm

/-- `urlencodedParse`, evaluable by `decide +kernel` -/
def urlencodedParseK (bytes : List Nat) : List Spec.Pair :=
  (splitOnP (· == 0x26) bytes).filterMap fun piece =>
    if piece = [] then none
    else
      let (name, value) := splitFirst 0x3D piece
      some (utf8Decode (pdK (plusToSpace name)), utf8Decode (pdK (plusToSpace value)))

theorem urlencodedParse_eqK (bytes : List Nat) : urlencodedParse bytes = urlencodedParseK bytes := by
  unfold urlencodedParse urlencodedParseK
  rw [pd_eq_pdK]

end Upa.Proofs.C15

/-
  Lean notes (4.33):
  * `formParseAux` and `percentDecodeBytes` (patterns `c :: r@(h1 :: h2 :: r')`, recursion on `r` and `r'`)
    are compiled by well-founded recursion: `decide +kernel` / `decide` get stuck on them.  Rewrite with
    `formParse_eqK` / `urlencodedParse_eqK` (fuel-driven copies) first, then `decide +kernel`.
    `asciiStr "…"` does not reduce in the kernel either (String is a ByteArray): spell the bytes out.
  * The three-way pattern match is replaced once and for all by `formParseAux_cons` / `pd_cons` /
    `dec_cons` (one equation for `c :: r` with `hex2 r`, `pctVal r`, `r.drop 2`); after that everything is
    induction on a length bound with `rw [if_pos/if_neg]`.
  * Reusable: `parse_intercalate` (parser on '&'-joined '&'-free pieces, any accumulator), `scan`
    (a delimiter-free segment pushes `dec seg`), `intercalate_split`, `split_noamp`, `split_mem`
    (facts about `splitOnP`), `dec_urlencode`, `checkFix_spec`.
-/
