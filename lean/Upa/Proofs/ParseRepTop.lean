import Upa.Proofs.ParseRepFile
import Upa.Proofs.ParseRepFinal
/-
  Helpers for C05e, part 8: the head of the parser with a base URL, and the assembled simulation
  for `parseRep … (some rb)`.
-/
set_option linter.unusedSimpArgs false
set_option linter.unusedVariables false

namespace Upa.Proofs.ParseRep
open Upa Upa.Impl Upa.Proofs.C05 Upa.Proofs.SetRep Upa.Proofs.SetRepApi Upa.Props

/-! ### file_slash_state, file_state with a base -/

theorem fileCopy5 (b : Url) : ({ scheme := sFile, host := b.host } : Url) = fileCopy b 5 := by
  simp [fileCopy, PATH, QUERY]

theorem fileCopy8 (b : Url) : ({ scheme := sFile, host := b.host, path := b.path } : Url) = fileCopy b 8 := by
  simp [fileCopy, PATH, QUERY]

theorem fileCopy9 (b : Url) :
    ({ scheme := sFile, host := b.host, path := b.path, query := b.query } : Url) = fileCopy b 9 := by
  simp [fileCopy, PATH, QUERY]

theorem sim_fileSlash_base (idna : Idna) {b : Url} (ok : BaseOk b) {B : List (List Nat)}
    (hB : Rp (segsOf b) B) {s : Ser}
    (h : FileInv s { scheme := sFile, host := some emptyHost } emptyHost) (p : List Nat) :
    Agree (fileSlashStateSer idna (some (mkRep (layout b) B)) s p)
      (fileSlashState idna (some b) none { scheme := sFile, host := some emptyHost } p) := by
  have hrb : RepFor (mkRep (layout b) B) b := represents_equiv b ok.1.1 ⟨B, hB, rfl⟩
  have hhi := hB.hi
  have hlo := hB.lo
  have hdef : Agree (fileSlashStateSer.fileSlashDefault (some (mkRep (layout b) B)) s p)
      (fileSlashState.fileSlashDefault (some b) none { scheme := sFile, host := some emptyHost } p) := by
    unfold fileSlashStateSer.fileSlashDefault fileSlashState.fileSlashDefault
    simp only [base_file ok hrb]
    by_cases hfile : b.isFile = true
    · simp only [hfile, if_true, fileCopy5]
      have ho : b.hasOpaquePath = false := ok.special_list (Proofs.C08.file_special hfile)
      obtain ⟨k1, k2, _⟩ := file_copy ok hB hfile h 5 (by simp)
      have hpi : PathInv (s.appendParts (mkRep (layout b) B) HOST HOST none) (fileCopy b 5) := by
        refine ⟨rfl, k1.1, ?_, rfl, rfl, Or.inl ⟨rfl, Or.inr ⟨k1, by rw [k2]; simp only [PATH]; omega⟩⟩⟩
        intro x hx; simp [fileCopy, PATH] at hx
      apply sim_pathState
      by_cases hwd : startsWithWindowsDrive p = true
      · simp only [hwd, Bool.not_true, Bool.false_eq_true, if_false]
        exact hpi
      · simp only [hwd, Bool.not_false, if_true]
        obtain ⟨f1, f2⟩ := base_firstString ok hrb ho
        rw [f1]
        by_cases hd : headDrive b.path = true
        · obtain ⟨a, c, rest, hp, htk⟩ := f2 hd
          rw [if_pos hd, htk]
          have hdr : isNormalizedWindowsDrive a c = true := by
            rw [hp] at hd; exact hd
          have hns : ∀ x ∈ [a, c], x ≠ 0x2F := (ok.2.2.1.2 ho).2 [a, c] (by rw [hp]; simp)
          have := pathInv_push hpi [a, c] hns
          simp only [hp, hdr, if_true]
          have e : ({ scheme := sFile, host := b.host, path := [] ++ [[a, c]] } : Url) =
              { fileCopy b 5 with path := (fileCopy b 5).path ++ [[a, c]] } := by
            simp [fileCopy, PATH, QUERY]
          rw [e]
          exact this
        · rw [if_neg hd]
          split
          · next a c rest hp =>
            have : isNormalizedWindowsDrive a c = false := by
              rw [hp] at hd; simpa [headDrive] using hd
            simp only [this, Bool.false_eq_true, if_false, fileCopy5]
            exact hpi
          · exact hpi
    · simp only [hfile, Bool.false_eq_true, if_false]
      exact sim_pathState h.hostPre.1.pathInv _
  unfold fileSlashStateSer fileSlashState
  cases p with
  | nil => exact hdef
  | cons c r =>
    simp only
    split
    · exact sim_fileHost idna h rfl _
    · exact hdef

theorem sim_file_base (idna : Idna) {b : Url} (ok : BaseOk b) {B : List (List Nat)}
    (hB : Rp (segsOf b) B) {s : Ser} {u : Url}
    (hS : SchInv (if (!s.rep.isFileScheme) = true then s.setSchemeStr sFile else s) { scheme := sFile })
    (hU : (if (!u.isFile) = true then ({ u with scheme := sFile } : Url) else u) = { scheme := sFile })
    (p : List Nat) :
    Agree (fileStateSer idna (some (mkRep (layout b) B)) s p) (fileState idna (some b) none u p) := by
  have hrb : RepFor (mkRep (layout b) B) b := represents_equiv b ok.1.1 ⟨B, hB, rfl⟩
  have hhi := hB.hi
  unfold fileStateSer fileState
  simp only [hU]
  generalize (if (!s.rep.isFileScheme) = true then s.setSchemeStr sFile else s) = s1 at hS ⊢
  have h1 := schInv_setEmptyHost hS rfl
  have hdef : Agree (fileStateSer.fileDefault (some (mkRep (layout b) B)) s1.setEmptyHost p)
      (fileState.fileDefault (some b) none { scheme := sFile, host := some emptyHost } p) := by
    unfold fileStateSer.fileDefault fileState.fileDefault
    simp only [base_file ok hrb]
    by_cases hfile : b.isFile = true
    · simp only [hfile, if_true]
      have ho : b.hasOpaquePath = false := ok.special_list (Proofs.C08.file_special hfile)
      obtain ⟨k1, k2, _⟩ := file_copy ok hB hfile h1 9 (by simp)
      obtain ⟨q1, q2, q3⟩ := file_copy ok hB hfile h1 8 (by simp)
      obtain ⟨g1, g2, _⟩ := file_copy ok hB hfile h1 5 (by simp)
      cases p with
      | nil =>
        simp only [fileCopy9]
        exact ⟨rfl, _, k1⟩
      | cons c r =>
        simp only
        split
        · rw [fileCopy8]
          exact sim_query q1 (by rw [q2]; simp only [QUERY]; omega) _
        · split
          · rw [fileCopy9]
            exact sim_fragment k1 (by rw [k2]; simp only [FRAGMENT]; omega) _
          · split
            · rw [fileCopy8]
              apply sim_pathState
              have e0 : shortenPath (fileCopy b 8) =
                  { fileCopy b 8 with path := opList .shorten b.isFile b.path } := by
                rw [shortenPath_eq]
                have : (fileCopy b 8).isFile = b.isFile := by rw [hfile]; rfl
                rw [this]
                simp [fileCopy, opList, PATH]
              rw [e0]
              by_cases h9 : 9 ≤ B.length
              · exact q3 rfl h9 .shorten
              · have e := appendParts_op_irrelevant s1.setEmptyHost (layout b) hB HOST PATH
                  .shorten (by simp only [PATH]; omega)
                rw [e]
                have hpn : b.path = [] := by
                  have := base_path_short hB (by omega)
                  rw [pathText_ptext ho] at this
                  exact ptext_eq_nil this
                have e2 : ({ fileCopy b 8 with path := opList .shorten b.isFile b.path } : Url) = fileCopy b 8 := by
                  simp [fileCopy, opList, hpn, shortenList, PATH]
                rw [e2]
                refine ⟨rfl, q1.1, ?_, rfl, rfl, Or.inl ⟨by simp [fileCopy, hpn], Or.inr ⟨q1, ?_⟩⟩⟩
                · intro x hx; simp [fileCopy, hpn] at hx
                · show (Ser.appendParts _ _ HOST 8 none).lastPt < PATH
                  rw [q2]; simp only [PATH]; omega
            · rw [fileCopy5]
              apply sim_pathState
              refine ⟨rfl, g1.1, ?_, rfl, rfl, Or.inl ⟨rfl, Or.inr ⟨g1, by rw [g2]; simp only [PATH]; omega⟩⟩⟩
              intro x hx; simp [fileCopy, PATH] at hx
    · simp only [hfile, Bool.false_eq_true, if_false]
      exact sim_pathState h1.hostPre.1.pathInv _
  cases p with
  | nil => exact hdef
  | cons c r =>
    simp only
    split
    · exact sim_fileSlash_base idna ok hB h1 _
    · exact hdef

/-! ### no_scheme_state: a fragment-only reference against a base with an opaque path -/

theorem sim_fragment_sch {s : Ser} {u : Url} (h : SchInv s u) (p : List Nat) :
    Agree (fragmentStateSer s p) (fragmentState u p) := by
  unfold fragmentStateSer fragmentState
  generalize percentEncode fragmentNoEnc p = t
  obtain ⟨h1, h2⟩ := schInv_write h FRAGMENT t (by simp [FRAGMENT]) (by simp [FRAGMENT])
  simp only [h1, Ser.setFlag, setNotNull_mkRep, Agree]
  refine ⟨trivial, FRAGMENT, h.wf, _, ?_, mkRep_congr rfl rfl rfl rfl rfl rfl rfl rfl rfl, by simp [FRAGMENT]⟩
  have e : segsOf { u with fragment := some t } =
      [u.scheme, 0x3A :: sepFor FRAGMENT] ++ List.replicate (FRAGMENT - 2) [] ++ [delim FRAGMENT ++ t] ++
        List.replicate (10 - FRAGMENT) [] := by
    have hnp := needsPathPrefix_of_pathText_nil h.path
    have e1 : prefixSeg { u with fragment := some t } = [] := by
      have hnp' : needsPathPrefix { u with fragment := some t } = false := hnp
      simp only [prefixSeg, hnp']; rfl
    have e2 : pathText { u with fragment := some t } = [] := h.path
    have e3 : sepSeg { u with fragment := some t } = [] := by simp [sepSeg, h.host]
    have e4 : userSeg { u with fragment := some t } = [] := by simp [userSeg, credOn, h.host]
    have e5 : passSeg { u with fragment := some t } = [] := by simp [passSeg, credOn, h.host]
    have e6 : atSeg { u with fragment := some t } = [] := by simp [atSeg, credOn, h.host]
    have e7 : portSeg { u with fragment := some t } = [] := by simp [portSeg, h.host]
    have e8 : querySeg { u with fragment := some t } = [] := by simp [querySeg, h.query]
    have e9 : Url.hostText { u with fragment := some t } = [] := by simp [Url.hostText, h.host]
    simp only [segsOf, e1, e2, e3, e4, e5, e6, e7, e8, e9]
    simp [fragSeg, sepFor, delim, HOST, PORT, QUERY, FRAGMENT, List.replicate]
  rw [e]; exact h2

/-- the record of a fragment-only reference: scheme, path and query of the base -/
def opaqueCopy (b : Url) : Url :=
  { scheme := b.scheme, hasOpaquePath := b.hasOpaquePath, opaquePath := b.opaquePath, path := b.path,
    query := b.query }

theorem sim_noScheme_opaque {b : Url} (ok : BaseOk b) {B : List (List Nat)} (hB : Rp (segsOf b) B)
    (ho : b.hasOpaquePath = true) (r : List Nat) :
    Agree (fragmentStateSer ((Ser.new.setSchemeOf (mkRep (layout b) B)).appendParts (mkRep (layout b) B)
      PATH QUERY none) r) (fragmentState (opaqueCopy b) r) := by
  have hrb : RepFor (mkRep (layout b) B) b := represents_equiv b ok.1.1 ⟨B, hB, rfl⟩
  have h := setSchemeOf_fresh ok hrb fresh_new
  have hhi := hB.hi
  have hlo := hB.lo
  have hh : b.host = none := ok.1.2.2 ho
  obtain ⟨hu, hp, hport⟩ := ok.1.1.2 hh
  have hpa : b.path = [] := ok.2.2.1.1 ho
  have hif := apFirst_path (mkRep (layout b) B)
  by_cases h9 : 9 ≤ B.length
  · have hd := dest_scheme (layout ({ scheme := b.scheme } : Url)) (mkRep (layout b) B) b.scheme ok.1.1.1
      PATH QUERY 8 (by simp)
    rw [← h.eq] at hd
    have key := copy_none (u' := opaqueCopy b) hB PATH QUERY (by simp [QUERY]) 8 hif rfl (by omega)
      (by simp [QUERY]) (by omega) (by simp only [QUERY]; omega) hd
      (by
        simp [opaqueCopy, segsOf, sepSeg, userSeg, passSeg, atSeg, portSeg, prefixSeg, querySeg, fragSeg, credOn,
          Url.hostText, pathText, needsPathPrefix, Url.hasCredentials, hh, ho, sepFor, HOST, PATH, QUERY,
          List.replicate])
      ⟨ok.1.1.1, fun _ => ⟨rfl, rfl, rfl⟩⟩
      (by
        intro A
        refine mkRep_congr ?_ ?_ ?_ ?_ ?_ ?_ ?_ rfl rfl
        all_goals simp [copyFlags, opaqueCopy, layout, mkRep, hh, ho, USERNAME, HOST, PORT, PATH, QUERY, FRAGMENT])
    exact sim_fragment key.2.2 (by rw [key.1]; simp only [QUERY, FRAGMENT]; omega) _
  · have e := appendParts_nothing (Ser.new.setSchemeOf (mkRep (layout b) B)) (layout b) hB PATH QUERY none
      (by rw [hif]; omega) (by simp [QUERY])
    rw [e]
    apply sim_fragment_sch
    have hpt : pathText b = [] := base_path_short hB (by omega)
    have hq : b.query = none := by
      have := hB.drop_absent (n := 9) (by omega)
      simp [segsOf] at this
      cases hq : b.query with
      | none => rfl
      | some q => simp [querySeg, hq] at this
    have hop : b.opaquePath = [] := by simpa [pathText, ho] using hpt
    refine ⟨ok.1.1.1, h.last, ?_, rfl, rfl, rfl, rfl, ?_, hq, rfl⟩
    · simp only [h.rep, copyFlags_schemeRep]
      simp [schemeRep, copyFlags, opaqueCopy, layout, mkRep, hh, hq, ho, USERNAME, HOST, PORT, PATH, QUERY,
        FRAGMENT, needsPathPrefix, pathText]
    · simp [opaqueCopy, pathText, ho, hop]

/-! ### no_scheme_state, special_relative_or_authority_state, scheme_state with a base -/

theorem sim_noScheme_base (idna : Idna) {b : Url} (ok : BaseOk b) {B : List (List Nat)}
    (hB : Rp (segsOf b) B) (p : List Nat) :
    Agree (noSchemeStateSer idna (some (mkRep (layout b) B)) Ser.new p)
      (noSchemeState idna (some b) none {} p) := by
  have hrb : RepFor (mkRep (layout b) B) b := represents_equiv b ok.1.1 ⟨B, hB, rfl⟩
  unfold noSchemeStateSer noSchemeState
  simp only [base_opaque ok hrb, base_file ok hrb]
  by_cases ho : b.hasOpaquePath = true
  · simp only [ho, if_true]
    split
    · next r =>
      have := sim_noScheme_opaque ok hB ho r
      exact this
    · split
      · exfalso; simp_all
      · simp [Agree]
  · have ho' : b.hasOpaquePath = false := by simpa using ho
    simp only [ho', Bool.false_eq_true, if_false]
    split
    · refine sim_file_base idna ok hB ?_ ?_ p
      · have : (!Ser.new.rep.isFileScheme) = true := rfl
        rw [if_pos this]
        exact setSchemeStr_fresh fresh_new sFile (by simp [sFile, asciiStr])
      · rfl
    · exact sim_relative idna ok hB ho' fresh_new {} rfl p

theorem SchInv.partView_scheme {s : Ser} {u : Url} (h : SchInv s u) : s.rep.partView SCHEME = u.scheme := by
  rw [h.rep]
  simp [Rep.partView, SCHEME, Rep.pe, schemeRep, slice]

theorem sim_specialRelativeOrAuthority (idna : Idna) {b : Url} (ok : BaseOk b) {B : List (List Nat)}
    (hB : Rp (segsOf b) B) {s : Ser} (h : SchInv s { scheme := b.scheme })
    (hsp : Url.isSpecial { scheme := b.scheme } = true) (p : List Nat) :
    Agree (specialRelativeOrAuthorityStateSer idna (mkRep (layout b) B) s p)
      (specialRelativeOrAuthorityState idna b none { scheme := b.scheme } p) := by
  have ho : b.hasOpaquePath = false := ok.special_list hsp
  unfold specialRelativeOrAuthorityStateSer specialRelativeOrAuthorityState
  split
  · exact sim_ignoreSlashes idna h rfl _
  · split
    · exfalso; simp_all
    · exact sim_relative idna ok hB ho h.fresh _ rfl p

theorem sim_scheme_base (idna : Idna) {b : Url} (ok : BaseOk b) {B : List (List Nat)}
    (hB : Rp (segsOf b) B) (p : List Nat) :
    Agree (schemeStateSer idna (some (mkRep (layout b) B)) Ser.new p)
      (schemeState idna (some b) none {} p) := by
  have hrb : RepFor (mkRep (layout b) B) b := represents_equiv b ok.1.1 ⟨B, hB, rfl⟩
  unfold schemeStateSer schemeState
  cases p with
  | nil => simp [Agree]
  | cons c0 r0 =>
    dsimp only
    show Agree (if restIsColon (r0.dropWhile isSchemeChar) = true then _ else _)
      (if restIsColon (r0.dropWhile isSchemeChar) = true then _ else _)
    by_cases hc : restIsColon (r0.dropWhile isSchemeChar) = true
    · rw [if_pos hc, if_pos hc]
      simp only [Option.isSome_none, Bool.false_eq_true, if_false]
      generalize hsch : (c0 :: r0.takeWhile isSchemeChar).map (· ||| 0x20) = sch
      have hne : sch ≠ [] := by rw [← hsch]; simp
      have h := writeScheme_new sch hne
      have hsp := h.special
      have hfi := h.file
      rw [hfi, hsp, h.partView_scheme, base_scheme ok hrb]
      generalize List.drop 1 (List.dropWhile isSchemeChar r0) = q
      by_cases hf : Url.isFile { scheme := sch } = true
      · rw [if_pos hf, if_pos hf]
        have hsf : sch = sFile := isFile_scheme hf
        subst hsf
        refine sim_file_base idna ok hB ?_ ?_ q
        · have : ¬ ((!(Ser.new.writeScheme sFile).rep.isFileScheme) = true) := by rw [hfi, hf]; simp
          rw [if_neg this]; exact h
        · have : ¬ ((!Url.isFile { scheme := sFile }) = true) := by rw [hf]; simp
          rw [if_neg this]
      · rw [if_neg hf, if_neg hf]
        by_cases hs : Url.isSpecial { scheme := sch } = true
        · rw [if_pos hs, if_pos hs]
          simp only
          by_cases heq : b.scheme = sch
          · subst heq
            have : (b.scheme == b.scheme) = true := by simp
            rw [if_pos this, if_pos rfl]
            exact sim_specialRelativeOrAuthority idna ok hB h hs _
          · have : ¬ ((sch == b.scheme) = true) := by
              intro hc; exact heq (eq_of_beq hc).symm
            rw [if_neg this, if_neg heq]
            exact sim_specialAuthoritySlashes idna h rfl _
        · rw [if_neg hs, if_neg hs]
          split
          · exact sim_pathOrAuthority idna h rfl _
          · split
            · exfalso; simp_all
            · apply sim_opaquePath _ rfl rfl
              exact ⟨hne, h.last, by rw [Ser.setHasOpaquePath, h.rep]; rfl, rfl, rfl, rfl, rfl, rfl, rfl, rfl⟩
    · rw [if_neg hc, if_neg hc]
      simp only [Option.isNone_none, if_true]
      exact sim_noScheme_base idna ok hB _

theorem sim_urlParse_base (idna : Idna) {b : Url} (ok : BaseOk b) {B : List (List Nat)}
    (hB : Rp (segsOf b) B) (p : List Nat) :
    Agree (urlParseSer idna (some (mkRep (layout b) B)) Ser.new p) (urlParse idna (some b) none {} p) := by
  unfold urlParseSer urlParse
  cases p with
  | nil =>
    simp only [Option.isNone_none, if_true]
    exact sim_noScheme_base idna ok hB _
  | cons c r =>
    simp only [Option.isNone_none, if_true]
    split
    · exact sim_scheme_base idna ok hB _
    · exact sim_noScheme_base idna ok hB _

end Upa.Proofs.ParseRep
