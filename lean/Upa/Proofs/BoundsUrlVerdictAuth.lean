import Upa.Proofs.BoundsUrlVerdictChain
namespace Upa.Impl.B
open UP Upa.Proofs.C10b

/-! ### find_last -/

theorem findLastB_spec (a : Array Nat) (first last value : Nat) (h : first ≤ last) (hl : last ≤ a.size) :
    (findLastB a first last value).sat (fun r =>
      (r = last ∧ ∀ i, first ≤ i → i < last → a[i]! ≠ value) ∨
      (first ≤ r ∧ r < last ∧ a[r]! = value ∧ ∀ i, r < i → i < last → a[i]! ≠ value)) := by
  unfold findLastB
  refine iter_sat _ (fun it => first ≤ it ∧ it ≤ last ∧ ∀ i, it ≤ i → i < last → a[i]! ≠ value)
    (fun it => it - first) _ ?_ _ _ ?_ ?_
  · intro it hI
    obtain ⟨i1, i2, i3⟩ := hI
    split
    · upsimp
      split
      · rename_i hc
        exact R.sat_pure (Or.inr ⟨by omega, by omega, hc, fun i h1 h2 => i3 i (by omega) h2⟩)
      · rename_i hc
        refine R.sat_pure ⟨⟨by omega, by omega, fun i h1 h2 => ?_⟩, by omega⟩
        by_cases hi : i = it - 1
        · subst hi; exact hc
        · exact i3 i (by omega) h2
    · exact R.sat_pure (Or.inl ⟨rfl, fun i h1 h2 => i3 i (by omega) h2⟩)
  · exact ⟨h, Nat.le_refl _, fun i h1 h2 => by omega⟩
  · omega

/-! ### splitLastAt -/

theorem splitLastAt_none (s : List Nat) (h : ∀ x ∈ s, (x != 0x40) = true) : splitLastAt s = none := by
  unfold splitLastAt
  have : s.reverse.dropWhile (· != 0x40) = [] := by
    have hall : ∀ x ∈ s.reverse, (x != 0x40) = true := fun x hx => h x (List.mem_reverse.mp hx)
    have := List.dropWhile_append_of_pos (l₂ := []) hall
    simpa using this
  simp only [this]

theorem splitLastAt_some (x y : List Nat) (h : ∀ c ∈ y, (c != 0x40) = true) :
    splitLastAt (x ++ 0x40 :: y) = some (x, y) := by
  unfold splitLastAt
  have hr : (x ++ 0x40 :: y).reverse = y.reverse ++ 0x40 :: x.reverse := by simp
  have hy : ∀ c ∈ y.reverse, (c != 0x40) = true := fun c hc => h c (List.mem_reverse.mp hc)
  simp only [hr, List.takeWhile_append_of_pos hy, List.dropWhile_append_of_pos hy]
  simp


/-! ### end_of_authority -/

theorem authEnd_ascii (sp : Bool) :
    ∀ x, (!(if sp = true then isSpecialAuthorityEnd else isAuthorityEnd) x) = false → x < 0x80 := by
  intro x hx
  cases sp <;> simp [isSpecialAuthorityEnd, isAuthorityEnd] at hx <;> omega

theorem endOfAuthorityB_specA (c : Ctx) (W : c.Wf) (p : Nat) (sp : Bool) (h1 : c.first ≤ p) (h2 : p ≤ c.last) :
    (endOfAuthorityB c.a c.first c.last p sp).sat (fun eoa => p ≤ eoa ∧ eoa ≤ c.last ∧
      (eoa = c.last ∨ c.a[eoa]! < 0x80) ∧
      (c.D p).takeWhile (fun x => !(if sp = true then isSpecialAuthorityEnd else isAuthorityEnd) x)
        = Dl c.e c.a p eoa ∧
      (c.D p).dropWhile (fun x => !(if sp = true then isSpecialAuthorityEnd else isAuthorityEnd) x)
        = c.D eoa) := by
  have hl := W.hl
  unfold endOfAuthorityB
  upsimp
  refine R.sat_mono (findIf_specV c.a c.first c.last _ hl (c.last - p) p h1 (by omega)) ?_
  intro q ⟨q1, q2, q3, q4⟩
  have hq : q = c.last ∨ (!(if sp = true then isSpecialAuthorityEnd else isAuthorityEnd) c.a[q]!) = false := by
    by_cases hql : q = c.last
    · exact Or.inl hql
    · right; simp [q4 (by omega)]
  obtain ⟨t1, t2⟩ := Dl_scan_delim c.e c.a W.hu
    (fun x => !(if sp = true then isSpecialAuthorityEnd else isAuthorityEnd) x) (authEnd_ascii sp)
    p q c.last q1 (by omega) hl (by intro i a b; simp [q3 i a b]) hq
  refine ⟨q1, by omega, ?_, t1, t2⟩
  rcases hq with hq | hq
  · exact Or.inl hq
  · exact Or.inr (authEnd_ascii sp _ hq)

/-! ### the list model of authority_state -/

theorem authorityState_none (idna : Idna) (ov : Option Override) (u : Url) (p : List Nat)
    (h : splitLastAt (p.takeWhile (fun x => !(if u.isSpecial = true then isSpecialAuthorityEnd else isAuthorityEnd) x))
      = none) :
    authorityState idna ov u p = hostState idna ov u p := by
  unfold authorityState
  simp only [h]

theorem authorityState_some (idna : Idna) (ov : Option Override) (u : Url) (p cred hp : List Nat)
    (h : splitLastAt (p.takeWhile (fun x => !(if u.isSpecial = true then isSpecialAuthorityEnd else isAuthorityEnd) x))
      = some (cred, hp)) :
    (hp = [] → vd (authorityState idna ov u p) = false) ∧
    (hp ≠ [] → ∃ u', u'.scheme = u.scheme ∧ authorityState idna ov u p = hostState idna ov u'
      (hp ++ p.dropWhile (fun x => !(if u.isSpecial = true then isSpecialAuthorityEnd else isAuthorityEnd) x))) := by
  unfold authorityState
  simp only [h]
  constructor
  · intro he; simp only [he, if_true]; rfl
  · intro hne
    simp only [if_neg hne]
    split
    · exact ⟨_, by rfl, rfl⟩
    · exact ⟨_, by rfl, rfl⟩


/-! ### authority_state -/

theorem sim_authority (c : Ctx) (W : c.Wf)
    (hhost : ∀ (m' : M) (u' : Url), Inv c m' u' → m'.state = .host →
      kHost c m' = .ok (vd (hostState c.idna c.ov u' (c.D m'.pointer))))
    (m : M) (u : Url) (hI : Inv c m u) (hs : m.state = .authority) :
    kAuthority c m = .ok (vd (authorityState c.idna c.ov u (c.D m.pointer))) := by
  obtain ⟨st, p, sp, fl⟩ := m
  obtain ⟨⟨h1, h2⟩, hsp, hfl⟩ := hI
  simp only [] at hs h1 h2 hsp hfl
  subst hs
  have hl := W.hl
  refine stepB_ok rfl ?_
  unfold bAuthority
  refine R.sat_bind (endOfAuthorityB_specA c W p sp h1 h2) ?_
  intro eoa ⟨e1, e2, e3, e4, e5⟩
  simp only []
  upsimp
  refine R.sat_bind (findLastB_spec c.a p eoa 0x40 e1 (by omega)) ?_
  intro r hr
  rw [hsp] at e4 e5
  split
  · rename_i hne
    rcases hr with ⟨hr, _⟩ | ⟨r1, r2, r3, r4⟩
    · exact absurd hr hne
    have hsplit : Dl c.e c.a p eoa = Dl c.e c.a p r ++ 0x40 :: Dl c.e c.a (r + 1) eoa := by
      rw [Dl_split c.e c.a p r eoa r1 (by omega) (by omega) (Or.inr (by omega)),
        Dl_cons_ascii c.e c.a r eoa r2 (by omega) (by omega), r3]
    have hno : ∀ x ∈ Dl c.e c.a (r + 1) eoa, (x != 0x40) = true := by
      intro x hx
      have := Dl_all_false c.e c.a W.hu (· == 0x40) (by intro y hy; simp at hy; omega) (r + 1) eoa (by omega)
        (by intro i a b; simp [r4 i (by omega) b]) x hx
      simpa using this
    have hsl := splitLastAt_some (Dl c.e c.a p r) _ hno
    rw [← hsplit, ← e4] at hsl
    obtain ⟨f1, f2⟩ := authorityState_some c.idna c.ov u (c.D p) _ _ hsl
    have hnil := Dl_eq_nil_iff c.e c.a (r + 1) eoa (by omega) (by omega)
    split
    · refine R.sat_pure ?_
      simp only []
      rw [f1 (hnil.mpr (by omega))]
    · rename_i hd
      obtain ⟨u', hu', f2⟩ := f2 (fun hn => hd (by have := hnil.mp hn; omega))
      have hfin : kHost c ⟨.host, r + 1, sp, fl⟩ = .ok (vd (authorityState c.idna c.ov u (c.D p))) := by
        rw [f2, e5]
        have : Dl c.e c.a (r + 1) eoa ++ c.D eoa = c.D (r + 1) :=
          (Dl_split c.e c.a (r + 1) eoa c.last (by omega) e2 hl e3).symm
        rw [this]
        refine hhost _ u' ⟨⟨by simp only []; omega, by simp only []; omega⟩, ?_, ?_⟩ rfl
        · simp only [Url.isSpecial, hu']; exact hsp
        · simp only [Url.isFile, hu']; exact hfl
      have fin : (do
            let p ← mkptr c.first c.last (r + 1)
            pure (Sum.inl { state := St.host, pointer := p, special := sp, file := fl }) : R (M ⊕ Bool)).sat
          (fun r => match r with
            | Sum.inl m' => kHost c m' = R.ok (vd (authorityState c.idna c.ov u (c.D p)))
            | Sum.inr w => w = vd (authorityState c.idna c.ov u (c.D p))) := by
        upsimp
        exact R.sat_pure hfin
      split
      · upsimp
        refine R.sat_bind (P := fun q => p ≤ q ∧ q ≤ r) ?_ ?_
        · refine R.sat_bind (findCh_sat c.a c.first c.last 0x3A hl _ p h1 (by omega)) ?_
          intro q hq
          cases q with
          | none => exact R.sat_pure (by omega)
          | some q => have := hq q rfl; exact R.sat_pure (by omega)
        · intro itColon hcol
          split
          · upsimp
            refine R.sat_bind (appendUtf8PctB_sat c.e c.a p itColon hcol.1 (by omega)) ?_
            intro _ _
            split
            · rename_i hpw
              have hpw' : r - itColon > 1 := by simpa using hpw
              upsimp
              refine R.sat_bind (appendUtf8PctB_sat c.e c.a (itColon + 1) r (by omega) (by omega)) ?_
              intro _ _
              exact R.sat_pure hfin
            · exact R.sat_pure hfin
          · exact R.sat_pure hfin
      · exact fin
  · rename_i hne
    have hre : r = eoa := Classical.byContradiction hne
    subst hre
    rcases hr with ⟨_, r4⟩ | ⟨_, r2, _⟩
    · refine R.sat_pure ?_
      simp only []
      have hno : ∀ x ∈ Dl c.e c.a p r, (x != 0x40) = true := by
        intro x hx
        have := Dl_all_false c.e c.a W.hu (· == 0x40) (by intro y hy; simp at hy; omega) p r (by omega)
          (by intro i a b; simp [r4 i a b]) x hx
        simpa using this
      have hsl := splitLastAt_none _ hno
      rw [← e4] at hsl
      rw [authorityState_none c.idna c.ov u (c.D p) hsl]
      exact hhost _ u ⟨⟨h1, h2⟩, hsp, hfl⟩ rfl
    · omega

/-! ### special_authority_ignore_slashes_state -/

theorem isSlash_ascii : AsciiPred isSlash := by
  intro x h; simp [isSlash] at h; omega

theorem sim_sais (c : Ctx) (W : c.Wf)
    (hauth : ∀ (m' : M) (u' : Url), Inv c m' u' → m'.state = .authority →
      kAuthority c m' = .ok (vd (authorityState c.idna c.ov u' (c.D m'.pointer))))
    (m : M) (u : Url) (hI : Inv c m u) (hs : m.state = .specialAuthorityIgnoreSlashes) :
    kSAIS c m = .ok (vd (ignoreSlashesState c.idna c.ov u (c.D m.pointer))) := by
  obtain ⟨st, p, sp, fl⟩ := m
  obtain ⟨⟨h1, h2⟩, hsp, hfl⟩ := hI
  simp only [] at hs h1 h2 hsp hfl
  subst hs
  have hl := W.hl
  refine stepB_ok rfl ?_
  unfold bSpecialAuthorityIgnoreSlashes
  refine R.sat_bind (iter_sat _
    (fun it => p ≤ it ∧ it ≤ c.last ∧ ∀ i, p ≤ i → i < it → isSlash c.a[i]! = true)
    (fun it => c.last - it)
    (fun it => p ≤ it ∧ it ≤ c.last ∧ (∀ i, p ≤ i → i < it → isSlash c.a[i]! = true) ∧
      (it = c.last ∨ isSlash c.a[it]! = false)) ?_ _ _ ?_ ?_) ?_
  · intro it ⟨i1, i2, i3⟩
    split
    · upsimp
      split
      · rename_i hc
        upsimp
        refine R.sat_pure ⟨⟨by omega, by omega, ?_⟩, by omega⟩
        intro i a b
        by_cases hi : i = it
        · subst hi; exact hc
        · exact i3 i a (by omega)
      · rename_i hc
        exact R.sat_pure ⟨i1, i2, i3, Or.inr (by simpa using hc)⟩
    · exact R.sat_pure ⟨i1, i2, i3, Or.inl (by omega)⟩
  · exact ⟨Nat.le_refl _, h2, by intro i a b; simp only [] at b; omega⟩
  · have := W.hf
    simp only []
    omega
  · intro it ⟨i1, i2, i3, i4⟩
    refine R.sat_pure ?_
    simp only []
    have hd : (c.D p).dropWhile isSlash = c.D it :=
      (Dl_scan_pos c.e c.a W.hu isSlash isSlash_ascii c.last hl (it - p) p it (by omega) i2 i3 i4).2
    unfold ignoreSlashesState
    rw [hd]
    exact hauth _ u ⟨⟨by simp only []; omega, i2⟩, hsp, hfl⟩ rfl

end Upa.Impl.B
