import Upa.Proofs.BoundsUrlVerdictChain
namespace Upa.Impl.B
open UP Upa.Proofs.C10b

/-! ### scheme_state: the instrumented block and the list model agree on the verdict -/

theorem alpha_ascii (x : Nat) (h : isAlpha x = true) : x < 0x80 := by
  simp [isAlpha] at h; omega

theorem schemeChar_ascii : AsciiPred isSchemeChar := by
  intro x h
  simp [isSchemeChar, isAlpha, isDigit] at h; omega

/-- `pointer < last && *pointer == ch`, functionally -/
theorem peekIsB_specS (a : Array Nat) (first last p ch : Nat) (h1 : first ≤ p) (hl : last ≤ a.size) :
    (peekIsB a first last p ch).sat (fun r => r = (decide (p < last) && a[p]! == ch)) := by
  unfold peekIsB
  simp only [Nat.add_zero]
  split
  · rename_i h
    upsimp
    exact R.sat_pure (by simp [h])
  · rename_i h
    exact R.sat_pure (by simp [h])

/-- the copy loop of scheme_state: `str_scheme` = the units `[p, eos)` lower-cased -/
theorem schemeCopy_sat (a : Array Nat) (first last fuel p eos : Nat) (hl : last ≤ a.size)
    (h1 : first ≤ p) (h2 : p ≤ eos) (h3 : eos ≤ last) (hf : last - first < fuel) :
    (iter (fun (s : Nat × List Nat) =>
        if s.1 = eos then pure (.inr s.2) else do
        let c ← rd a first last s.1
        let it' ← mkptr first last (s.1 + 1)
        pure (.inl (it', s.2 ++ [c ||| 0x20]))) fuel (p, [])).sat
      (fun r => r = (slice a p eos).map (· ||| 0x20)) := by
  refine iter_sat _ (fun s => p ≤ s.1 ∧ s.1 ≤ eos ∧ s.2 = (slice a p s.1).map (· ||| 0x20)) (fun s => eos - s.1)
    _ ?_ _ _ ?_ ?_
  · intro ⟨it, acc⟩ hI
    simp only [] at hI ⊢
    obtain ⟨i1, i2, i3⟩ := hI
    split
    · rename_i h
      exact R.sat_pure (by rw [← h]; exact i3)
    · upsimp
      refine R.sat_pure ⟨⟨by simp only []; omega, by simp only []; omega, ?_⟩, by simp only []; omega⟩
      simp only []
      rw [slice_snocU a p it i1 (by omega), List.map_append, i3]
      rfl
  · exact ⟨Nat.le_refl _, h2, by simp only []; rw [slice_nil a p p (Nat.le_refl _)]; rfl⟩
  · simp only []; omega

/-- the decoded rest at a position `< last` whose unit is not `ch` (an ASCII value) does not start with `ch` -/
theorem Ctx.D_head_ne (c : Ctx) (W : c.Wf) (p ch : Nat) (h : p < c.last) (hch : ch < 0x80) (hne : c.a[p]! ≠ ch) :
    ∃ x t, c.D p = x :: t ∧ x ≠ ch := by
  obtain ⟨x, t, hd, hc⟩ := c.D_peek W p h
  refine ⟨x, t, hd, ?_⟩
  rcases hc with ⟨_, h2, _⟩ | ⟨_, h2⟩
  · rw [h2]; exact hne
  · omega

/-- the decoded rest at a position that holds the ASCII value `ch` -/
theorem Ctx.D_head_eq (c : Ctx) (W : c.Wf) (p ch : Nat) (h : p < c.last) (hch : ch < 0x80) (he : c.a[p]! = ch) :
    c.D p = ch :: c.D (p + 1) := by
  rw [c.D_ascii W p h (by omega), he]

/-! ### the list model, leaf by leaf -/

/-- `is_scheme` of the list model -/
def isSch (ov : Option Override) (rest : List Nat) : Bool :=
  match rest with
  | c :: _ => c == 0x3A
  | [] => ov.isSome

theorem isFile_set (u : Url) (s : List Nat) : ({ u with scheme := s } : Url).isFile = isFileScheme s := rfl
theorem isSpecial_set (u : Url) (s : List Nat) : ({ u with scheme := s } : Url).isSpecial = isSpecialScheme s := rfl

section listside
variable (idna : Idna) (base : Option Url) (ov : Option Override) (u : Url) (c0 : Nat) (r0 body rest scheme : List Nat)
  (hb : r0.takeWhile isSchemeChar = body) (hr : r0.dropWhile isSchemeChar = rest)
  (hs : (c0 :: body).map (· ||| 0x20) = scheme)

include hr in
theorem schemeState_no (h : isSch ov rest = false) :
    schemeState idna base ov u (c0 :: r0) =
      if ov.isNone then noSchemeState idna base ov u (c0 :: r0) else ⟨.failure, u⟩ := by
  subst hr
  unfold schemeState
  simp only []
  rw [if_neg]
  intro hh
  have : isSch ov (r0.dropWhile isSchemeChar) = true := hh
  rw [h] at this; cases this

include hb hr hs in
theorem schemeState_ov (h : isSch ov rest = true) (ho : ov.isSome = true) :
    vd (schemeState idna base ov u (c0 :: r0)) =
      if u.isSpecial != isSpecialScheme scheme then false
      else if isFileScheme scheme && (u.hasCredentials || !u.port.isNone) then false
      else if u.isFile && (u.hostText == []) then false
      else true := by
  subst hb hr hs
  unfold schemeState
  simp only []
  erw [if_pos h]
  rw [if_pos ho]
  have e1 : (!u.port.isNone) = u.port.isSome := by cases u.port <;> rfl
  have e2 : (u.hostText == []) = decide (u.hostText = []) := by
    cases u.hostText <;> rfl
  rw [e1, e2]
  generalize (u.isSpecial != isSpecialScheme _) = A
  generalize (isFileScheme _ && (u.hasCredentials || u.port.isSome)) = B
  generalize (u.isFile && decide (u.hostText = [])) = C
  cases A <;> cases B <;> cases C <;> rfl

include hb hr hs in
theorem schemeState_file (h : isSch ov rest = true) (ho : ov.isSome = false) (hf : isFileScheme scheme = true) :
    schemeState idna base ov u (c0 :: r0) = fileState idna base ov { u with scheme := scheme } (rest.drop 1) := by
  subst hb hr hs
  unfold schemeState
  simp only []
  erw [if_pos h]
  rw [if_neg (by simp [ho])]
  simp only [isFile_set, hf, if_true]

include hb hr hs in
theorem schemeState_sroa (h : isSch ov rest = true) (ho : ov.isSome = false) (hf : isFileScheme scheme = false)
    (hsp : isSpecialScheme scheme = true) (b : Url) (hbase : base = some b) (hsame : b.scheme = scheme) :
    schemeState idna base ov u (c0 :: r0) =
      specialRelativeOrAuthorityState idna b ov { u with scheme := scheme } (rest.drop 1) := by
  subst hb hr hs hbase
  unfold schemeState
  simp only []
  erw [if_pos h]
  rw [if_neg (by simp [ho])]
  simp only [isFile_set, isSpecial_set, hf, hsp, Bool.false_eq_true, if_false, if_true]
  rw [if_pos hsame]

include hb hr hs in
theorem schemeState_sas (h : isSch ov rest = true) (ho : ov.isSome = false) (hf : isFileScheme scheme = false)
    (hsp : isSpecialScheme scheme = true) (hbase : ∀ b, base = some b → b.scheme ≠ scheme) :
    schemeState idna base ov u (c0 :: r0) =
      specialAuthoritySlashesState idna ov { u with scheme := scheme } (rest.drop 1) := by
  subst hb hr hs
  unfold schemeState
  simp only []
  erw [if_pos h]
  rw [if_neg (by simp [ho])]
  simp only [isFile_set, isSpecial_set, hf, hsp, Bool.false_eq_true, if_false, if_true]
  cases base with
  | none => rfl
  | some b =>
    simp only []
    rw [if_neg (hbase b rfl)]

include hb hr hs in
theorem schemeState_poa (h : isSch ov rest = true) (ho : ov.isSome = false) (hf : isFileScheme scheme = false)
    (hsp : isSpecialScheme scheme = false) (r : List Nat) (hd : rest.drop 1 = 0x2F :: r) :
    schemeState idna base ov u (c0 :: r0) = pathOrAuthorityState idna ov { u with scheme := scheme } r := by
  subst hb hr hs
  unfold schemeState
  simp only []
  erw [if_pos h]
  rw [if_neg (by simp [ho])]
  simp only [isFile_set, isSpecial_set, hf, hsp, Bool.false_eq_true, if_false]
  rw [hd]
  rfl

include hb hr hs in
theorem schemeState_opq (h : isSch ov rest = true) (ho : ov.isSome = false) (hf : isFileScheme scheme = false)
    (hsp : isSpecialScheme scheme = false) (hd : ∀ r, rest.drop 1 ≠ 0x2F :: r) :
    vd (schemeState idna base ov u (c0 :: r0)) = true := by
  subst hb hr hs
  unfold schemeState
  simp only []
  erw [if_pos h]
  rw [if_neg (by simp [ho])]
  simp only [isFile_set, isSpecial_set, hf, hsp, Bool.false_eq_true, if_false]
  exact vd_opaquePathState _ _ _

end listside

/-- the three `ignored` tests of a scheme setter run -/
theorem ov_leaf (k : M → R Bool) (A B C : Bool) :
    (if A = true then (pure (.inr false) : R (M ⊕ Bool)) else if B = true then pure (.inr false)
      else if C = true then pure (.inr false) else pure (.inr true)).sat
      (fun r => match r with
        | .inl m' => k m' = .ok (if A = true then false else if B = true then false else if C = true then false else true)
        | .inr w => w = (if A = true then false else if B = true then false else if C = true then false else true)) := by
  cases A <;> cases B <;> cases C <;> exact R.sat_pure rfl

theorem sim_scheme (c : Ctx) (W : c.Wf)
    (hfile : c.ov = none → ∀ (m' : M) (u' : Url), Inv c m' u' → m'.state = .file →
      kFile c m' = .ok (vd (fileState c.idna c.baseU c.ov u' (c.D m'.pointer))))
    (hsroa : c.ov = none → ∀ b, c.baseU = some b → ∀ (m' : M) (u' : Url), Inv c m' u' → u'.scheme = b.scheme →
      m'.state = .specialRelativeOrAuthority →
      kSRoA c m' = .ok (vd (specialRelativeOrAuthorityState c.idna b c.ov u' (c.D m'.pointer))))
    (hsas : c.ov = none → ∀ (m' : M) (u' : Url), Inv c m' u' → m'.state = .specialAuthoritySlashes →
      kSAS c m' = .ok (vd (specialAuthoritySlashesState c.idna c.ov u' (c.D m'.pointer))))
    (hpoa : c.ov = none → ∀ (m' : M) (u' : Url), Inv c m' u' → m'.state = .pathOrAuthority →
      kPathOrAuthority c m' = .ok (vd (pathOrAuthorityState c.idna c.ov u' (c.D m'.pointer))))
    (hnos : c.ov = none → ∀ (m' : M) (u' : Url), Inv c m' u' → m'.state = .noScheme →
      kNoScheme c m' = .ok (vd (noSchemeState c.idna c.baseU c.ov u' (c.D m'.pointer))))
    (m : M) (hI : Inv c m c.u0) (hs : m.state = .scheme) (hp : m.pointer < c.last)
    (ha : isAlpha c.a[m.pointer]! = true) :
    kScheme c m = .ok (vd (schemeState c.idna c.baseU c.ov c.u0 (c.D m.pointer))) := by
  obtain ⟨st, p, sp, fl⟩ := m
  simp only [] at hs hp ha
  subst hs
  obtain ⟨⟨h1, h2⟩, hsp, hfl⟩ := hI
  simp only [] at h1 h2 hsp hfl
  have hl := W.hl
  have hf := W.hf
  have hD : c.D p = c.a[p]! :: c.D (p + 1) := c.D_ascii W p hp (alpha_ascii _ ha)
  refine stepB_ok rfl ?_
  unfold bScheme
  simp only []
  upsimp
  refine R.sat_bind (findIf_specV c.a c.first c.last _ hl _ (p + 1) (by omega) (by omega)) ?_
  intro eos ⟨e1, e2, e3, e4⟩
  have e2' : eos ≤ c.last := by omega
  obtain ⟨hbody, hrest⟩ := Dl_scan_pos c.e c.a W.hu isSchemeChar schemeChar_ascii c.last hl (eos - (p + 1)) (p + 1) eos
    (by omega) e2' (by intro i hi1 hi2; simpa using e3 i hi1 hi2)
    (by
      by_cases h : eos = c.last
      · exact Or.inl h
      · exact Or.inr (by simpa using e4 (by omega)))
  change (c.D (p + 1)).takeWhile isSchemeChar = _ at hbody
  change (c.D (p + 1)).dropWhile isSchemeChar = c.D eos at hrest
  rw [hD]
  refine R.sat_bind (P := fun b => b = isSch c.ov (c.D eos) ∧
    (b = true → c.ov.isSome = false → eos < c.last ∧ c.D eos = 0x3A :: c.D (eos + 1))) ?_ ?_
  · split
    · have hlt : eos < c.last := by omega
      upsimp
      refine R.sat_pure ?_
      by_cases hc : c.a[eos]! = 0x3A
      · have hd := c.D_head_eq W eos 0x3A hlt (by omega) hc
        rw [hd]
        exact ⟨by simp [isSch, hc], fun _ _ => ⟨hlt, rfl⟩⟩
      · obtain ⟨x, t, hd, hx⟩ := c.D_head_ne W eos 0x3A hlt (by omega) hc
        rw [hd]
        have hf1 : (c.a[eos]! == 0x3A) = false := by simpa using hc
        rw [hf1]
        exact ⟨by simp [isSch, hx], fun hh => by cases hh⟩
    · have he : eos = c.last := by omega
      refine R.sat_pure ⟨?_, ?_⟩
      · rw [he, c.D_end]; rfl
      · intro h1 h2; rw [h2] at h1; cases h1
  · intro isScheme ⟨hi1, hi2⟩
    cases isScheme with
    | false =>
      simp only [Bool.false_eq_true, if_false]
      rw [schemeState_no c.idna c.baseU c.ov c.u0 _ _ _ hrest hi1.symm]
      by_cases hov : c.ov.isNone = true
      · rw [if_pos hov, if_pos hov]
        refine R.sat_pure ?_
        rw [← hD]
        exact hnos (by simpa using hov) ⟨.noScheme, p, sp, fl⟩ c.u0 ⟨⟨h1, h2⟩, hsp, hfl⟩ rfl
      · rw [if_neg hov, if_neg hov]
        exact R.sat_pure rfl
    | true =>
      simp only [if_true]
      refine R.sat_bind (schemeCopy_sat c.a c.first c.last c.fuel p eos hl h1 (by omega) e2' hf) ?_
      intro scheme hsch
      have hs : (c.a[p]! :: slice c.a (p + 1) eos).map (· ||| 0x20) = scheme := by
        rw [hsch, slice_cons c.a p eos (by omega) (by omega)]
      by_cases hov : c.ov.isSome = true
      · rw [if_pos hov, schemeState_ov c.idna c.baseU c.ov c.u0 _ _ _ _ _ hbody hrest hs hi1.symm hov]
        simp only [Ctx.ui, UrlInfo.ofUrl]
        exact ov_leaf _ _ _ _
      · have hov' : c.ov.isSome = false := by simpa using hov
        have hnone : c.ov = none := by
          cases h : c.ov with
          | none => rfl
          | some x => rw [h] at hov'; cases hov'
        obtain ⟨hlt, hDe⟩ := hi2 rfl hov'
        have hdrop : (c.D eos).drop 1 = c.D (eos + 1) := by rw [hDe]; rfl
        have hi := hi1.symm
        rw [if_neg hov]
        upsimp
        by_cases hfs : isFileScheme scheme = true
        · rw [if_pos hfs]
          refine R.sat_pure ?_
          simp only []
          rw [schemeState_file c.idna c.baseU c.ov c.u0 _ _ _ _ _ hbody hrest hs hi hov' hfs, hdrop]
          kskip
          exact hfile hnone ⟨.file, eos + 1, isSpecialScheme scheme, isFileScheme scheme⟩ _
            ⟨⟨by simp only []; omega, by simp only []; omega⟩, rfl, rfl⟩ rfl
        · rw [if_neg hfs]
          have hfs' : isFileScheme scheme = false := by simpa using hfs
          by_cases hss : isSpecialScheme scheme = true
          · rw [if_pos hss]
            simp only [Ctx.base]
            cases hbU : c.baseU with
            | none =>
              simp only [Option.map]
              refine R.sat_pure ?_
              simp only []
              rw [schemeState_sas c.idna none c.ov c.u0 _ _ _ _ _ hbody hrest hs hi hov' hfs' hss
                (by intro b hb; cases hb), hdrop]
              kskip
              exact hsas hnone ⟨.specialAuthoritySlashes, eos + 1, isSpecialScheme scheme, isFileScheme scheme⟩ _
                ⟨⟨by simp only []; omega, by simp only []; omega⟩, rfl, rfl⟩ rfl
            | some b =>
              simp only [Option.map, BaseInfo.ofUrl]
              by_cases hsame : b.scheme = scheme
              · rw [if_pos (by simp [hsame])]
                refine R.sat_pure ?_
                simp only []
                rw [schemeState_sroa c.idna (some b) c.ov c.u0 _ _ _ _ _ hbody hrest hs hi hov' hfs' hss b rfl hsame,
                  hdrop]
                kskip
                exact hsroa hnone b hbU
                  ⟨.specialRelativeOrAuthority, eos + 1, isSpecialScheme scheme, isFileScheme scheme⟩ _
                  ⟨⟨by simp only []; omega, by simp only []; omega⟩, rfl, rfl⟩ hsame.symm rfl
              · rw [if_neg (by simpa using fun h : scheme = b.scheme => hsame h.symm)]
                refine R.sat_pure ?_
                simp only []
                rw [schemeState_sas c.idna (some b) c.ov c.u0 _ _ _ _ _ hbody hrest hs hi hov' hfs' hss
                  (by intro b' hb'; cases hb'; exact hsame), hdrop]
                kskip
                exact hsas hnone ⟨.specialAuthoritySlashes, eos + 1, isSpecialScheme scheme, isFileScheme scheme⟩ _
                  ⟨⟨by simp only []; omega, by simp only []; omega⟩, rfl, rfl⟩ rfl
          · rw [if_neg hss]
            have hss' : isSpecialScheme scheme = false := by simpa using hss
            refine R.sat_bind (peekIsB_specS c.a c.first c.last (eos + 1) 0x2F (by omega) hl) ?_
            intro sl hsl
            by_cases hsl2 : eos + 1 < c.last ∧ c.a[eos + 1]! = 0x2F
            · obtain ⟨hl2, hc2⟩ := hsl2
              have hslt : sl = true := by rw [hsl]; simp [hl2, hc2]
              rw [if_pos hslt]
              upsimp
              refine R.sat_pure ?_
              simp only []
              have hd2 := c.D_head_eq W (eos + 1) 0x2F hl2 (by omega) hc2
              rw [schemeState_poa c.idna c.baseU c.ov c.u0 _ _ _ _ _ hbody hrest hs hi hov' hfs' hss'
                (c.D (eos + 1 + 1)) (by rw [hdrop]; exact hd2)]
              kskip
              exact hpoa hnone ⟨.pathOrAuthority, eos + 1 + 1, isSpecialScheme scheme, isFileScheme scheme⟩ _
                ⟨⟨by simp only []; omega, by simp only []; omega⟩, rfl, rfl⟩ rfl
            · have hslf : sl = false := by
                rw [hsl]
                by_cases hl2 : eos + 1 < c.last
                · have hc2 : ¬ c.a[eos + 1]! = 0x2F := fun h => hsl2 ⟨hl2, h⟩
                  simp [hc2]
                · simp [hl2]
              rw [if_neg (by simp [hslf])]
              refine R.sat_pure ?_
              simp only []
              have hd2 : ∀ r, (c.D eos).drop 1 ≠ 0x2F :: r := by
                intro r
                rw [hdrop]
                by_cases hl2 : eos + 1 < c.last
                · have hc2 : ¬ c.a[eos + 1]! = 0x2F := fun h => hsl2 ⟨hl2, h⟩
                  obtain ⟨x, t, hd, hx⟩ := c.D_head_ne W (eos + 1) 0x2F hl2 (by omega) hc2
                  rw [hd]
                  intro hh
                  cases hh
                  exact hx rfl
                · have he : eos + 1 = c.last := by omega
                  rw [he, c.D_end]
                  intro hh; cases hh
              rw [schemeState_opq c.idna c.baseU c.ov c.u0 _ _ _ _ _ hbody hrest hs hi hov' hfs' hss' hd2]
              kskip
              exact opq_ok c W _ ⟨by simp only []; omega, by simp only []; omega⟩ (Or.inl rfl)

end Upa.Impl.B
