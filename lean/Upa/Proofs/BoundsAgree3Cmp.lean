import Upa.Proofs.BoundsAgree3Dec
/-
  Helper lemmas for C04h, part 8: `compareByCodeUnits` of `Upa/Impl/Bounds.lean` (src/url_utf.cpp:70-104,
  with its `assert`) = `Impl.compareByCodeUnits` on the two byte slices.
-/
set_option linter.unusedSimpArgs false

namespace Upa.Impl.B
open Upa.Proofs.C10b

theorem cmpL_nil_nil (f : Nat) : Impl.compareByCodeUnitsAux (f + 1) [] [] = 0 := by
  simp [Impl.compareByCodeUnitsAux]
theorem cmpL_cons_nil (f x : Nat) (r : List Nat) : Impl.compareByCodeUnitsAux (f + 1) (x :: r) [] = 1 := by
  simp [Impl.compareByCodeUnitsAux]
theorem cmpL_nil_cons (f x : Nat) (r : List Nat) : Impl.compareByCodeUnitsAux (f + 1) [] (x :: r) = -1 := by
  simp [Impl.compareByCodeUnitsAux]

theorem cmpL_cons_cons (f x : Nat) (rx : List Nat) (y : Nat) (ry : List Nat) :
    Impl.compareByCodeUnitsAux (f + 1) (x :: rx) (y :: ry) =
      if x < 0x80 ∨ y < 0x80 then
        (if x = y then Impl.compareByCodeUnitsAux f rx ry else (x : Int) - (y : Int))
      else
        if (Impl.readUtfChar .u8 (x :: rx)).1 = (Impl.readUtfChar .u8 (y :: ry)).1 then
          Impl.compareByCodeUnitsAux f (Impl.readUtfChar .u8 (x :: rx)).2 (Impl.readUtfChar .u8 (y :: ry)).2
        else
          if (if (Impl.readUtfChar .u8 (x :: rx)).1 ≤ 0xFFFF then (Impl.readUtfChar .u8 (x :: rx)).1
              else ((Impl.readUtfChar .u8 (x :: rx)).1 >>> 10) + 0xD7C0) =
             (if (Impl.readUtfChar .u8 (y :: ry)).1 ≤ 0xFFFF then (Impl.readUtfChar .u8 (y :: ry)).1
              else ((Impl.readUtfChar .u8 (y :: ry)).1 >>> 10) + 0xD7C0) then
            (((Impl.readUtfChar .u8 (x :: rx)).1 &&& 0x3FF : Nat) : Int) -
              (((Impl.readUtfChar .u8 (y :: ry)).1 &&& 0x3FF : Nat) : Int)
          else
            ((if (Impl.readUtfChar .u8 (x :: rx)).1 ≤ 0xFFFF then (Impl.readUtfChar .u8 (x :: rx)).1
              else ((Impl.readUtfChar .u8 (x :: rx)).1 >>> 10) + 0xD7C0 : Nat) : Int) -
            ((if (Impl.readUtfChar .u8 (y :: ry)).1 ≤ 0xFFFF then (Impl.readUtfChar .u8 (y :: ry)).1
              else ((Impl.readUtfChar .u8 (y :: ry)).1 >>> 10) + 0xD7C0 : Nat) : Int) := by
  rw [Impl.compareByCodeUnitsAux]

theorem compareByCodeUnits_agrees (a1 : Array Nat) (first1 last1 : Nat) (a2 : Array Nat) (first2 last2 : Nat)
    (h1 : first1 ≤ last1) (hl1 : last1 ≤ a1.size) (h2 : first2 ≤ last2) (hl2 : last2 ≤ a2.size)
    (hb1 : ∀ i, first1 ≤ i → i < last1 → a1[i]! < 256) (hb2 : ∀ i, first2 ≤ i → i < last2 → a2[i]! < 256) :
    compareByCodeUnits a1 first1 last1 a2 first2 last2 =
      .ok (Impl.compareByCodeUnits (slice a1 first1 last1) (slice a2 first2 last2)) := by
  apply R.sat_eq
  unfold compareByCodeUnits Impl.compareByCodeUnits
  have hU1 : ∀ p, first1 ≤ p → UOk .u8 (slice a1 p last1) := by
    intro p hp x hx
    obtain ⟨i, hi1, hi2, rfl⟩ := mem_slice a1 p last1 x hl1 hx
    exact hb1 i (by omega) hi2
  have hU2 : ∀ p, first2 ≤ p → UOk .u8 (slice a2 p last2) := by
    intro p hp x hx
    obtain ⟨i, hi1, hi2, rfl⟩ := mem_slice a2 p last2 x hl2 hx
    exact hb2 i (by omega) hi2
  refine iter_sat _ (fun s => first1 ≤ s.1 ∧ s.1 ≤ last1 ∧ first2 ≤ s.2 ∧ s.2 ≤ last2 ∧ ∃ f, last1 - s.1 < f ∧
      Impl.compareByCodeUnitsAux f (slice a1 s.1 last1) (slice a2 s.2 last2) =
        Impl.compareByCodeUnitsAux ((slice a1 first1 last1).length + (slice a2 first2 last2).length + 1)
          (slice a1 first1 last1) (slice a2 first2 last2))
    (fun s => last1 - s.1) _ ?_ _ _
    ⟨Nat.le_refl _, h1, Nat.le_refl _, h2, _, by rw [slice_length a1 _ _ hl1]; rarith, rfl⟩ (by rarith)
  intro ⟨it1, it2⟩ ⟨i1, i2, i3, i4, f, hf, hT⟩
  simp only at i1 i2 i3 i4 hf hT ⊢
  obtain ⟨f0, rfl⟩ : ∃ f0, f = f0 + 1 := ⟨f - 1, by omega⟩
  split
  · rename_i hc
    rw [Nat.add_zero] at hc
    have hlt1 : it1 < last1 := by omega
    have hlt2 : it2 < last2 := by omega
    have m1 : a1[it1]! % 256 = a1[it1]! := Nat.mod_eq_of_lt (hb1 it1 i1 hlt1)
    have m2 : a2[it2]! % 256 = a2[it2]! := Nat.mod_eq_of_lt (hb2 it2 i3 hlt2)
    simp only [rd_ok i1 hlt1 hl1, rd_ok i3 hlt2 hl2, R.ok_bind, m1, m2]
    have hs1 := slice_cons a1 it1 last1 hlt1 hl1
    have hs2 := slice_cons a2 it2 last2 hlt2 hl2
    rw [hs1, hs2, cmpL_cons_cons] at hT
    split
    · rename_i hasc
      rw [if_pos hasc] at hT
      split
      · rename_i heq
        rw [if_pos heq] at hT
        psimp
        exact R.sat_pure ⟨⟨by rarith, by rarith, by rarith, by rarith, f0, by rarith, hT⟩, by rarith⟩
      · rename_i heq
        rw [if_neg heq] at hT
        exact R.sat_pure (by simp only []; exact hT)
    · rename_i hasc
      rw [if_neg hasc] at hT
      refine R.sat_bind (R.sat_and (readUtfChar_u8_scalar a1 first1 last1 it1 i1 hlt1 hl1 hb1)
        (readUtfChar_agrees .u8 a1 first1 last1 it1 i1 hlt1 hl1 (hU1 it1 i1))) ?_
      intro ⟨cp1, it1'⟩ ⟨⟨_, hsc1⟩, hcp1, hr1, q1, q2⟩
      refine R.sat_bind (R.sat_and (readUtfChar_u8_scalar a2 first2 last2 it2 i3 hlt2 hl2 hb2)
        (readUtfChar_agrees .u8 a2 first2 last2 it2 i3 hlt2 hl2 (hU2 it2 i3))) ?_
      intro ⟨cp2, it2'⟩ ⟨⟨_, hsc2⟩, hcp2, hr2, q3, q4⟩
      simp only at hsc1 hcp1 hr1 q1 q2 hsc2 hcp2 hr2 q3 q4 ⊢
      have e1 : Impl.readUtfChar .u8 (a1[it1]! :: slice a1 (it1 + 1) last1) = (cp1, slice a1 it1' last1) := by
        rw [← hs1, Impl.readUtfChar_eq, hcp1, hr1]; rfl
      have e2 : Impl.readUtfChar .u8 (a2[it2]! :: slice a2 (it2 + 1) last2) = (cp2, slice a2 it2' last2) := by
        rw [← hs2, Impl.readUtfChar_eq, hcp2, hr2]; rfl
      rw [e1, e2] at hT
      simp only [] at hT
      split
      · rename_i heq
        rw [if_pos heq] at hT
        exact R.sat_pure ⟨⟨by rarith, by rarith, by rarith, by rarith, f0, by rarith, hT⟩, by rarith⟩
      · rename_i hne
        rw [if_neg hne] at hT
        have hlead := lead_of_eq cp1 cp2 hsc1 hsc2 hne
        generalize (if cp1 ≤ 0xFFFF then cp1 else (cp1 >>> 10) + 0xD7C0) = cu1 at hlead hT ⊢
        generalize (if cp2 ≤ 0xFFFF then cp2 else (cp2 >>> 10) + 0xD7C0) = cu2 at hlead hT ⊢
        split
        · rename_i hcu
          rw [if_pos hcu] at hT
          refine R.sat_bind (sat_chk (hlead hcu)) ?_
          intro _ _
          exact R.sat_pure (by simp only []; exact hT)
        · rename_i hcu
          rw [if_neg hcu] at hT
          exact R.sat_pure (by simp only []; exact hT)
  · rename_i hc
    rw [Nat.add_zero] at hc
    refine R.sat_pure ?_
    simp only []
    rw [← hT]
    by_cases e1 : it1 = last1
    · rw [if_neg (by omega), e1, slice_nil a1 last1 last1 (Nat.le_refl _)]
      by_cases e2 : it2 = last2
      · rw [if_neg (by omega), e2, slice_nil a2 last2 last2 (Nat.le_refl _), cmpL_nil_nil]
      · rw [if_pos e2, slice_cons a2 it2 last2 (by omega) hl2, cmpL_nil_cons]
    · have e2 : it2 = last2 := by
        apply Classical.byContradiction
        intro hh; exact hc ⟨e1, hh⟩
      rw [if_pos e1, e2, slice_nil a2 last2 last2 (Nat.le_refl _), slice_cons a1 it1 last1 (by omega) hl1, cmpL_cons_nil]

end Upa.Impl.B
