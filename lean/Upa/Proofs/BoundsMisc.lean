import Upa.Impl.BoundsMisc
import Upa.Proofs.Bounds
import Upa.Proofs.BoundsAgree
/-
  Helper lemmas for C04e: `.sat` (in bounds, pointers inside `[first, last]`, termination) for the
  models of `Upa/Impl/BoundsMisc.lean`.
-/
namespace Upa.Impl.B

/-! ### 0  library loops, tables -/

theorem findIfM_sat (a : Array Nat) (first last : Nat) (pred : Nat → R Bool)
    (hp : ∀ c, (pred c).sat (fun _ => True)) (hl : last ≤ a.size) :
    ∀ n p, first ≤ p → p + n ≤ last →
      (findIfM a first last pred n p).sat (fun q => p ≤ q ∧ q ≤ p + n) := by
  intro n
  induction n with
  | zero => intro p _ _; exact R.sat_pure (by omega)
  | succ n ih =>
    intro p h1 h2
    simp only [findIfM, rd_ok h1 (by omega : p < last) hl, R.ok_bind]
    refine R.sat_bind (hp _) ?_
    intro b _
    split
    · exact R.sat_pure (by omega)
    · exact R.sat_mono (ih (p + 1) (by omega) (by omega)) (by intro v hv; omega)

theorem charInSetM_sat (set : Nat → Bool) (c : Nat) : (charInSetM set c).sat (fun b => b = (decide (c ≤ 0xFF) && set c)) := by
  unfold charInSetM
  split
  · rename_i h
    simp only [idx_ok (by omega : c < 256), R.ok_bind]
    exact R.sat_pure (by simp [h])
  · rename_i h
    exact R.sat_pure (by simp [h])

theorem shr3_lt (c : Nat) (h : c ≤ 0xFF) : c >>> 3 < 32 := by
  rw [Nat.shiftRight_eq_div_pow]; omega

theorem cpsetGetM_sat (set : Nat → Bool) (c : Nat) : (cpsetGetM set c).sat (fun b => b = (decide (c ≤ 0xFF) && set c)) := by
  unfold cpsetGetM
  split
  · rename_i h
    simp only [idx_ok (shr3_lt c h), R.ok_bind]
    exact R.sat_pure (by simp [h])
  · rename_i h
    exact R.sat_pure (by simp [h])

theorem R.sat_true {α : Type} {r : R α} {P : α → Prop} (h : r.sat P) : r.sat (fun _ => True) :=
  R.sat_mono h (fun _ _ => trivial)

/-! ### 3  unsigned_to_str, ipv4_serialize, longest_zero_sequence, ipv6_serialize -/

theorem unsignedToStrM_sat (num base outLen : Nat) (hn : num < 2 ^ 32) (hb2 : 2 ≤ base) (hb16 : base ≤ 16) :
    (unsignedToStrM num base outLen).sat (fun _ => True) := by
  unfold unsignedToStrM
  simp only []
  refine R.sat_bind (iter_sat _
    (fun s => 1 ≤ s.1 ∧ outLen + 1 ≤ s.2 ∧ s.1 = base ^ (s.2 - (outLen + 1)))
    (fun s => num / base + 1 - s.1)
    (fun c => outLen + 1 ≤ c ∧ num < base ^ (c - outLen)) ?_ _ _ ?_ ?_) ?_
  · intro ⟨divider, count⟩ ⟨h1, h2, h3⟩
    simp only at h1 h2 h3 ⊢
    split
    · rename_i hle
      have hmul : divider * base ≤ num := (Nat.le_div_iff_mul_le (by omega)).mp hle
      have hmod : divider * base % 2 ^ 32 = divider * base := Nat.mod_eq_of_lt (by omega)
      have hgt : divider * 2 ≤ divider * base := Nat.mul_le_mul_left _ hb2
      refine R.sat_pure ?_
      simp only [hmod]
      refine ⟨⟨by omega, by omega, ?_⟩, by omega⟩
      have e : count + 1 - (outLen + 1) = (count - (outLen + 1)) + 1 := by omega
      rw [e, Nat.pow_succ, ← h3]
    · rename_i hgt
      refine R.sat_pure ⟨h2, ?_⟩
      have hlt : num / base < divider := by omega
      have := (Nat.div_lt_iff_lt_mul (by omega : 0 < base)).mp hlt
      have e : count - outLen = (count - (outLen + 1)) + 1 := by omega
      rw [e, Nat.pow_succ, ← h3]
      exact this
  · simp only []
    exact ⟨Nat.le_refl _, Nat.le_refl _, by simp⟩
  · have := Nat.div_le_self num base
    simp only []; omega
  intro c1 ⟨hc1, hc2⟩
  refine R.sat_bind (iter_sat _
    (fun s => s.2.2.size = c1 ∧ s.1 ≤ c1 ∧ outLen < s.1 ∧ s.2.1 < base ^ (s.1 - outLen))
    (fun s => s.2.1) (fun _ => True) ?_ _ _ ?_ ?_) ?_
  · intro ⟨count, n, out⟩ ⟨i1, i2, i3, i4⟩
    simp only at i1 i2 i3 i4 ⊢
    have hd : decIdx count = .ok (count - 1) := by unfold decIdx; rw [if_neg (by omega)]
    have hm : n % base < 17 := by have := Nat.mod_lt n (by omega : base > 0); omega
    simp only [hd, idx_ok hm, Loc.wr_ok (by omega : count - 1 < out.size), R.ok_bind]
    have e : count - outLen = (count - 1 - outLen) + 1 := by omega
    rw [e, Nat.pow_succ] at i4
    have hdiv : n / base < base ^ (count - 1 - outLen) := (Nat.div_lt_iff_lt_mul (by omega : 0 < base)).mpr i4
    split
    · rename_i hne
      refine R.sat_pure ?_
      simp only []
      have hpos : 0 < n := by
        apply Nat.pos_of_ne_zero; intro h0; rw [h0] at hne; simp at hne
      have hlt : n / base < n := Nat.div_lt_self hpos (by omega)
      refine ⟨⟨i1, by omega, ?_, hdiv⟩, hlt⟩
      apply Classical.byContradiction
      intro hcon
      have e0 : count - 1 - outLen = 0 := by omega
      rw [e0, Nat.pow_zero] at hdiv
      exact hne (Nat.lt_one_iff.mp hdiv)
    · exact R.sat_pure trivial
  · simp only [Loc.new]
    exact ⟨trivial, Nat.le_refl _, by omega, hc2⟩
  · simp only []; omega
  intro _ _
  exact R.sat_pure trivial

theorem and_ff_lt (x : Nat) : x &&& 0xFF < 2 ^ 32 := by
  have : (0xFF : Nat) = 2 ^ 8 - 1 := by decide
  rw [this, Nat.and_two_pow_sub_one_eq_mod]; omega

theorem ipv4SerializeM_sat (ipv4 : Nat) : (ipv4SerializeM ipv4).sat (fun _ => True) := by
  unfold ipv4SerializeM
  refine R.sat_bind (iter_sat _ (fun s => s.1 % 8 = 0 ∧ s.1 ≤ 24) (fun s => s.1 / 8) (fun _ => True) ?_ _ _ ?_ ?_) ?_
  · intro ⟨shift, out⟩ hI
    simp only at hI ⊢
    split
    · refine R.sat_bind (unsignedToStrM_sat _ 10 _ (and_ff_lt _) (by omega) (by omega)) ?_
      intro d _
      exact R.sat_pure (by simp only []; omega)
    · exact R.sat_pure trivial
  · exact ⟨by decide, by decide⟩
  · decide
  intro out _
  refine R.sat_bind (unsignedToStrM_sat _ 10 _ (and_ff_lt _) (by omega) (by omega)) ?_
  intro d _
  exact R.sat_pure trivial

/-- what `longest_zero_sequence` guarantees about `(last_count, compress)` -/
def LzsPost (first last : Nat) (r : Nat × Option Nat) : Prop :=
  (∀ c, r.2 = some c → first ≤ c ∧ c + r.1 ≤ last ∧ 1 ≤ r.1) ∧ (r.2 = none → r.1 = 0)

theorem longestZeroSequenceM_sat (a : Array Nat) (first last : Nat) (h : first ≤ last) (hl : last ≤ a.size) :
    (longestZeroSequenceM a first last).sat (LzsPost first last) := by
  unfold longestZeroSequenceM
  refine iter_sat _ (fun s => first ≤ s.1 ∧ s.1 ≤ last ∧ LzsPost first last (s.2.1, s.2.2)) (fun s => last - s.1)
    _ ?_ _ _ ?_ ?_
  · intro ⟨it, lastCount, compress⟩ ⟨h1, h2, h3⟩
    simp only at h1 h2 h3 ⊢
    split
    · exact R.sat_pure h3
    simp only [rd_ok h1 (by omega : it < last) hl, R.ok_bind]
    split
    · psimp
      refine R.sat_bind (iter_sat _ (fun ite => it < ite ∧ ite ≤ last) (fun ite => last - ite)
        (fun ite => it < ite ∧ ite ≤ last) ?_ _ _ ?_ ?_) ?_
      · intro ite hI
        split
        · simp only [rd_ok (by omega : first ≤ ite) (by omega : ite < last) hl, R.ok_bind]
          split
          · rfin
          · rfin
        · rfin
      · omega
      · omega
      intro ite hite
      have hlc : LzsPost first last (if lastCount < ite - it then (ite - it, some it) else (lastCount, compress)) := by
        split
        · refine ⟨?_, by intro hh; cases hh⟩
          intro c hc
          simp only [Option.some.injEq] at hc
          subst hc
          simp only []
          omega
        · exact h3
      split
      · exact R.sat_pure hlc
      · psimp
        exact R.sat_pure ⟨⟨by simp only []; omega, by simp only []; omega, hlc⟩, by simp only []; omega⟩
    · psimp
      exact R.sat_pure ⟨⟨by simp only []; omega, by simp only []; omega, h3⟩, by simp only []; omega⟩
  · refine ⟨Nat.le_refl _, h, ?_⟩
    simp only [LzsPost]
    exact ⟨(by intro c hc; cases hc), (by intro _; trivial)⟩
  · simp only []; omega

theorem ipv6SerializeM_sat (a : Array Nat) (first last : Nat) (h : first < last) (hl : last ≤ a.size) :
    (ipv6SerializeM a first last).sat (fun _ => True) := by
  unfold ipv6SerializeM
  refine R.sat_bind (longestZeroSequenceM_sat a first last (by omega) hl) ?_
  intro ⟨len, compress0⟩ ⟨hp1, _⟩
  simp only at hp1 ⊢
  generalize hcp : (if len = 1 then none else compress0) = compress
  have hc : ∀ c, compress = some c → first ≤ c ∧ c + len ≤ last ∧ 1 ≤ len := by
    intro c hcc
    rw [← hcp] at hcc
    split at hcc
    · cases hcc
    · exact hp1 c hcc
  refine iter_sat _ (fun s => first ≤ s.1 ∧ s.1 < last) (fun s => last - s.1) _ ?_ _ _ ?_ ?_
  · intro ⟨it, out⟩ ⟨h1, h2⟩
    simp only at h1 h2 ⊢
    refine R.sat_bind (P := fun r => match r with
        | .inl s => it ≤ s.1 ∧ s.1 < last
        | .inr _ => True) ?_ ?_
    · split
      · rename_i hci
        have := hc it hci
        psimp
        split
        · exact R.sat_pure trivial
        · exact R.sat_pure (by simp only []; omega)
      · exact R.sat_pure (by simp only []; omega)
    intro r hr
    cases r with
    | inr o => exact R.sat_pure trivial
    | inl s =>
      obtain ⟨it2, out2⟩ := s
      simp only at hr ⊢
      simp only [rd_ok (by omega : first ≤ it2) hr.2 hl, R.ok_bind]
      refine R.sat_bind (unsignedToStrM_sat _ 16 _ (by omega) (by omega) (by omega)) ?_
      intro d _
      psimp
      split
      · exact R.sat_pure trivial
      · exact R.sat_pure (by simp only []; omega)
  · simp only []; omega
  · simp only []; omega

/-! ### 4  encode side -/

theorem shr4_lt (c : Nat) (h : c < 256) : c >>> 4 < 16 := by
  rw [Nat.shiftRight_eq_div_pow]; omega

theorem and_f_lt (x : Nat) : x &&& 0xF < 16 := by
  have : (0xF : Nat) = 2 ^ 4 - 1 := by decide
  rw [this, Nat.and_two_pow_sub_one_eq_mod]; omega

theorem appendPercentEncodedByteM_sat (uc : Nat) (h : uc < 256) :
    (appendPercentEncodedByteM uc).sat (fun _ => True) := by
  unfold appendPercentEncodedByteM
  simp only [idx_ok (shr4_lt uc h), idx_ok (and_f_lt uc), R.ok_bind]
  exact R.sat_pure trivial

theorem appendUtf8PctM_sat (cp : Nat) : (appendUtf8PctM cp).sat (fun _ => True) := by
  have hb : ∀ x : Nat, (appendPercentEncodedByteM (x % 256)).sat (fun _ => True) :=
    fun x => appendPercentEncodedByteM_sat _ (Nat.mod_lt _ (by decide))
  unfold appendUtf8PctM
  split
  · exact hb _
  · refine R.sat_bind (P := fun _ => True) ?_ ?_
    · split
      · exact hb _
      · refine R.sat_bind (P := fun _ => True) ?_ ?_
        · split
          · exact hb _
          · refine R.sat_bind (hb _) ?_
            intro _ _
            refine R.sat_bind (hb _) ?_
            intro _ _
            exact R.sat_pure trivial
        · intro _ _
          refine R.sat_bind (hb _) ?_
          intro _ _
          exact R.sat_pure trivial
    · intro _ _
      refine R.sat_bind (hb _) ?_
      intro _ _
      exact R.sat_pure trivial

theorem appendUtf8PercentEncodedCharM_sat (e : Enc) (a : Array Nat) (first last it : Nat) (h1 : first ≤ it)
    (h2 : it < last) (hl : last ≤ a.size) :
    (appendUtf8PercentEncodedCharM e a first last it).sat (fun r => it < r.2.1 ∧ r.2.1 ≤ last) := by
  unfold appendUtf8PercentEncodedCharM
  simp only [sub_ok h1 (Nat.le_of_lt h2) (Nat.le_refl _), R.ok_bind]
  refine R.sat_bind (readChar_sat e a it last h2 hl) ?_
  intro ⟨ok, cp, it'⟩ hv
  simp only [ReadPost] at hv ⊢
  refine R.sat_bind (appendUtf8PctM_sat _) ?_
  intro _ _
  exact R.sat_pure hv

theorem encLoopM_sat (e : Enc) (hi : Nat) (keep : Nat → R Bool) (hk : ∀ c, (keep c).sat (fun _ => True))
    (a : Array Nat) (first last : Nat) (h : first ≤ last) (hl : last ≤ a.size) :
    (encLoopM e hi keep a first last).sat (fun _ => True) := by
  unfold encLoopM
  refine iter_sat _ (fun s => first ≤ s.1 ∧ s.1 ≤ last) (fun s => last - s.1) _ ?_ _ _ ?_ ?_
  · intro ⟨p, success, out⟩ hI
    simp only at hI ⊢
    split
    · exact R.sat_pure trivial
    rename_i hlt
    simp only [rd_ok hI.1 (by omega : p < last) hl, R.ok_bind]
    split
    · refine R.sat_bind (appendUtf8PercentEncodedCharM_sat e a first last p hI.1 (by omega) hl) ?_
      intro ⟨ok, p', s⟩ hv
      exact R.sat_pure (by simp only [] at hv ⊢; omega)
    · refine R.sat_bind (hk _) ?_
      intro k _
      refine R.sat_bind (P := fun _ => True) ?_ ?_
      · split
        · exact R.sat_pure trivial
        · exact appendPercentEncodedByteM_sat _ (Nat.mod_lt _ (by decide))
      intro s _
      rfin
  · simp only []; omega
  · simp only []; omega

theorem appendUtf8PercentEncodedM_sat (e : Enc) (noEnc : Nat → Bool) (a : Array Nat) (first last : Nat)
    (h : first ≤ last) (hl : last ≤ a.size) : (appendUtf8PercentEncodedM e noEnc a first last).sat (fun _ => True) := by
  unfold appendUtf8PercentEncodedM
  refine R.sat_bind (encLoopM_sat e _ _ (fun c => R.sat_true (cpsetGetM_sat noEnc c)) a first last h hl) ?_
  intro ⟨_, out⟩ _
  exact R.sat_pure trivial

theorem pathSegmentEncM_sat (e : Enc) (a : Array Nat) (first last : Nat) (h : first ≤ last) (hl : last ≤ a.size) :
    (pathSegmentEncM e a first last).sat (fun _ => True) :=
  encLoopM_sat e _ _ (fun c => R.sat_true (cpsetGetM_sat _ c)) a first last h hl

theorem simplePathM_sat (e : Enc) (a : Array Nat) (first last : Nat) (h : first ≤ last) (hl : last ≤ a.size) :
    (simplePathM e a first last).sat (fun _ => True) :=
  encLoopM_sat e _ _ (fun _ => R.sat_pure trivial) a first last h hl

theorem urlencodeM_sat (a : Array Nat) (first last : Nat) (h : first ≤ last) (hl : last ≤ a.size) :
    (urlencodeM a first last).sat (fun _ => True) := by
  unfold urlencodeM
  refine iter_sat _ (fun s => first ≤ s.1 ∧ s.1 ≤ last) (fun s => last - s.1) _ ?_ _ _ ?_ ?_
  · intro ⟨it, out⟩ hI
    simp only at hI ⊢
    split
    · exact R.sat_pure trivial
    simp only [rd_ok hI.1 (by omega : it < last) hl, idx_ok (Nat.mod_lt _ (by decide) : a[it]! % 256 < 256), R.ok_bind]
    refine R.sat_bind (P := fun _ => True) ?_ ?_
    · split
      · simp only [idx_ok (shr4_lt _ (Nat.mod_lt _ (by decide))), idx_ok (and_f_lt _), R.ok_bind]
        exact R.sat_pure trivial
      · exact R.sat_pure trivial
    intro s _
    rfin
  · simp only []; omega
  · simp only []; omega

theorem convertUtf8ToUtf16M_sat (a : Array Nat) (first last : Nat) (h : first ≤ last) (hl : last ≤ a.size) :
    (convertUtf8ToUtf16M a first last).sat (fun _ => True) := by
  unfold convertUtf8ToUtf16M
  refine iter_sat _ (fun s => first ≤ s.1 ∧ s.1 ≤ last) (fun s => last - s.1) _ ?_ _ _ ?_ ?_
  · intro ⟨it, success, out⟩ hI
    simp only at hI ⊢
    split
    · exact R.sat_pure trivial
    simp only [sub_ok hI.1 (by omega : it ≤ last) (Nat.le_refl _), R.ok_bind]
    refine R.sat_bind (readU8_sat a it last (by omega) hl) ?_
    intro ⟨ok, cp, it'⟩ hv
    simp only [ReadPost] at hv
    exact R.sat_pure (by simp only []; omega)
  · simp only []; omega
  · simp only []; omega

/-! ### 1  url_host.h -/

theorem parseIpv4M_sat (a : Array Nat) (first last : Nat) (h : first ≤ last) (hl : last ≤ a.size) :
    (parseIpv4M a first last).sat (fun _ => True) := by
  unfold parseIpv4M
  refine R.sat_bind (ipv4Parse_sat a first last h hl) ?_
  intro r _
  cases r with
  | none => exact R.sat_pure trivial
  | some n =>
    refine R.sat_bind (ipv4SerializeM_sat n) ?_
    intro _ _
    exact R.sat_pure trivial

theorem parseIpv6M_sat (a : Array Nat) (first last : Nat) (h : first ≤ last) (hl : last ≤ a.size) :
    (parseIpv6M a first last).sat (fun _ => True) := by
  unfold parseIpv6M
  refine R.sat_bind (ipv6Parse_sat a first last h hl) ?_
  intro r _
  cases r with
  | none => exact R.sat_pure trivial
  | some addr =>
    refine R.sat_bind (ipv6SerializeM_sat _ 0 8 (by decide) (by simp)) ?_
    intro _ _
    exact R.sat_pure trivial

theorem parseOpaqueHostM_sat (e : Enc) (a : Array Nat) (first last : Nat) (h : first ≤ last) (hl : last ≤ a.size) :
    (parseOpaqueHostM e a first last).sat (fun _ => True) := by
  unfold parseOpaqueHostM
  refine R.sat_bind (findIfM_sat a first last _ (fun c => R.sat_true (charInSetM_sat _ c)) hl (last - first) first
    (Nat.le_refl _) (by omega)) ?_
  intro p _
  split
  · exact R.sat_pure trivial
  · refine R.sat_bind (simplePathM_sat e a first last h hl) ?_
    intro ⟨_, s⟩ _
    exact R.sat_pure trivial

theorem hostForbiddenCheckM_sat (a : Array Nat) (first last ptr : Nat) (h1 : first ≤ ptr) (h2 : ptr < last)
    (hl : last ≤ a.size) : (hostForbiddenCheckM a first last ptr).sat (fun _ => True) := by
  unfold hostForbiddenCheckM
  simp only [rd_ok h1 h2 hl, R.ok_bind]
  split
  · split
    · psimp
      split
      · simp only [rd_ok (by omega : first ≤ ptr + 1) (by omega : ptr + 1 < last) hl, R.ok_bind]
        exact R.sat_pure trivial
      · exact R.sat_pure trivial
    · exact R.sat_pure trivial
  · exact R.sat_pure trivial

theorem hostDecodeM_sat (e : Enc) (a : Array Nat) (first last ptr : Nat) (h1 : first ≤ ptr) (h2 : ptr ≤ last)
    (hl : last ≤ a.size) : (hostDecodeM e a first last ptr).sat (fun _ => True) := by
  unfold hostDecodeM
  refine R.sat_bind (iter_sat _ (fun s => first ≤ s.1 ∧ s.1 ≤ ptr) (fun s => ptr - s.1) (fun _ => True) ?_ _ _ ?_ ?_) ?_
  · intro ⟨it, buff⟩ hI
    simp only at hI ⊢
    split
    · exact R.sat_pure trivial
    · simp only [rd_ok hI.1 (by omega : it < last) hl, R.ok_bind]
      rfin
  · simp only []; omega
  · simp only []; omega
  intro buff0 _
  refine iter_sat _ (fun s => first ≤ s.1 ∧ s.1 ≤ last) (fun s => last - s.1) _ ?_ _ _ ?_ ?_
  · intro ⟨it, out⟩ hI
    simp only at hI ⊢
    split
    · rfin
    · simp only [rd_ok hI.1 (by omega : it < last) hl, R.ok_bind]
      psimp
      split
      · split
        · rfin
        · simp only [sub_ok (by omega : first ≤ it + 1) (by omega : it + 1 ≤ last) (Nat.le_refl _), R.ok_bind]
          refine R.sat_bind (decodeHexToByte_sat a (it + 1) last (by omega) hl) ?_
          intro r hr
          cases r with
          | none => rfin
          | some vp =>
            obtain ⟨v, q⟩ := vp
            have := hr v q rfl
            simp only
            split
            · rfin
            · refine R.sat_bind (pctRun_sat a first last hl q [v] (by omega) (by omega)) ?_
              intro ⟨q', b8⟩ hq
              simp only at hq ⊢
              refine R.sat_bind (convertUtf8ToUtf16M_sat b8.toArray 0 b8.length (Nat.zero_le _) (by simp)) ?_
              intro ⟨_, u16⟩ _
              rfin
      · psimp
        have : it + 1 - 1 = it := by omega
        rw [this]
        refine R.sat_bind (readUtfChar_sat e a first last it hI.1 (by omega) hl) ?_
        intro ⟨cp, it'⟩ hv
        exact R.sat_pure (by simp only [] at hv ⊢; omega)
  · simp only []; omega
  · simp only []; omega

theorem hostFastPathM_sat (a : Array Nat) (first last : Nat) (h : first ≤ last) (hl : last ≤ a.size) :
    (hostFastPathM a first last).sat (fun r => first ≤ r.1 ∧ r.1 ≤ last) := by
  unfold hostFastPathM
  refine R.sat_bind (findIfM_sat a first last _ ?_ hl (last - first) first (Nat.le_refl _) (by omega)) ?_
  · intro c
    refine R.sat_bind (charInSetM_sat _ c) ?_
    intro _ _
    exact R.sat_pure trivial
  intro ptr hptr
  split
  · refine R.sat_bind (hasXnLabel_sat a first last h hl) ?_
    intro xn _
    split
    · refine R.sat_bind (endsInNumber_sat a first last h hl) ?_
      intro num _
      split
      · refine R.sat_bind (parseIpv4M_sat a first last h hl) ?_
        intro _ _
        exact R.sat_pure (by simp only []; omega)
      · simp only [sub_ok (Nat.le_refl first) h (Nat.le_refl last), R.ok_bind]
        exact R.sat_pure (by simp only []; omega)
    · exact R.sat_pure (by simp only []; omega)
  · refine R.sat_bind (hostForbiddenCheckM_sat a first last ptr hptr.1 (by omega) hl) ?_
    intro bad _
    split
    · exact R.sat_pure (by simp only []; omega)
    · exact R.sat_pure (by simp only []; omega)

theorem parseHostM_sat (idna : Idna) (e : Enc) (a : Array Nat) (first last : Nat) (isOpaque : Bool)
    (h : first ≤ last) (hl : last ≤ a.size) : (parseHostM idna e a first last isOpaque).sat (fun _ => True) := by
  unfold parseHostM
  split
  · exact R.sat_pure trivial
  rename_i hne
  simp only [rd_ok (Nat.le_refl first) (by omega : first < last) hl, R.ok_bind]
  split
  · rename_i hc0
    simp only [rdPrev_ok (by omega : first < last) (Nat.le_refl last) hl, R.ok_bind]
    split
    · rename_i hcl
      have h2 : first + 2 ≤ last := by
        apply Classical.byContradiction
        intro hcon
        have e1 : last - 1 = first := by omega
        rw [e1, hc0] at hcl
        exact absurd hcl (by decide)
      psimp
      simp only [sub_ok (by omega : first ≤ first + 1) (by omega : first + 1 ≤ last - 1) (by omega : last - 1 ≤ last),
        R.ok_bind]
      exact parseIpv6M_sat a _ _ (by omega) (by omega)
    · exact R.sat_pure trivial
  split
  · exact parseOpaqueHostM_sat e a first last h hl
  refine R.sat_bind (hostFastPathM_sat a first last h hl) ?_
  intro ⟨ptr, fast⟩ hptr
  simp only at hptr ⊢
  cases fast with
  | some r => exact R.sat_pure trivial
  | none =>
    simp only
    refine R.sat_bind (hostDecodeM_sat e a first last ptr hptr.1 hptr.2 hl) ?_
    intro buffUc _
    cases idna buffUc with
    | none => exact R.sat_pure trivial
    | some ascii =>
      simp only
      refine R.sat_bind (findIfM_sat ascii.toArray 0 ascii.length _ (fun c => R.sat_true (charInSetM_sat _ c))
        (by simp) ascii.length 0 (Nat.le_refl _) (by omega)) ?_
      intro p _
      split
      · exact R.sat_pure trivial
      refine R.sat_bind (endsInNumber_sat ascii.toArray 0 ascii.length (Nat.zero_le _) (by simp)) ?_
      intro num _
      split
      · exact parseIpv4M_sat ascii.toArray 0 ascii.length (Nat.zero_le _) (by simp)
      · exact R.sat_pure trivial

/-! ### 2  url.h -/

theorem portFromStrM_sat (a : Array Nat) (first last : Nat) (h : first ≤ last) (hl : last ≤ a.size) :
    (portFromStrM a first last).sat (fun _ => True) := by
  unfold portFromStrM
  refine iter_sat _ (fun s => first ≤ s.1 ∧ s.1 ≤ last) (fun s => last - s.1) _ ?_ _ _ ?_ ?_
  · intro ⟨it, port⟩ hI
    simp only at hI ⊢
    split
    · exact R.sat_pure trivial
    · simp only [rd_ok hI.1 (by omega : it < last) hl, R.ok_bind]
      rfin
  · simp only []; omega
  · simp only []; omega

theorem trimM_sat (a : Array Nat) (first last : Nat) (h : first ≤ last) (hl : last ≤ a.size) :
    (trimM a first last).sat (fun r => first ≤ r.1 ∧ r.1 ≤ r.2 ∧ r.2 ≤ last) := by
  unfold trimM
  refine R.sat_bind (iter_sat _ (fun p => first ≤ p ∧ p ≤ last) (fun p => last - p)
    (fun p => first ≤ p ∧ p ≤ last) ?_ _ _ ?_ ?_) ?_
  · intro p hI
    split
    · simp only [rd_ok hI.1 (by omega : p < last) hl, R.ok_bind]
      split
      · rfin
      · rfin
    · rfin
  · omega
  · omega
  intro f hf
  refine R.sat_bind (iter_sat _ (fun q => f ≤ q ∧ q ≤ last) (fun q => q - f)
    (fun q => f ≤ q ∧ q ≤ last) ?_ _ _ ?_ ?_) ?_
  · intro q hI
    split
    · simp only [rdPrev_ok (by omega : first < q) hI.2 hl, R.ok_bind]
      split
      · rfin
      · rfin
    · rfin
  · omega
  · omega
  intro l hq
  exact R.sat_pure (by simp only []; omega)

theorem removeWhitespaceM_sat (a : Array Nat) (first last : Nat) (h : first ≤ last) (hl : last ≤ a.size) :
    (removeWhitespaceM a first last).sat (fun _ => True) := by
  unfold removeWhitespaceM
  refine iter_sat _ (fun it => first ≤ it ∧ it ≤ last) (fun it => last - it) _ ?_ _ _ ?_ ?_
  · intro it hI
    split
    · exact R.sat_pure trivial
    simp only [rd_ok hI.1 (by omega : it < last) hl, R.ok_bind]
    split
    · rfin
    · simp only [sub_ok (Nat.le_refl first) hI.1 hI.2, R.ok_bind]
      refine R.sat_bind (iter_sat _ (fun s => it ≤ s.1 ∧ s.1 ≤ last) (fun s => last - s.1) (fun _ => True)
        ?_ _ _ ?_ ?_) ?_
      · intro ⟨it2, buff⟩ hI2
        simp only at hI2 ⊢
        split
        · exact R.sat_pure trivial
        · simp only [rd_ok (by omega : first ≤ it2) (by omega : it2 < last) hl, R.ok_bind]
          rfin
      · simp only []; omega
      · simp only []; omega
      intro _ _
      exact R.sat_pure trivial
  · omega
  · omega

theorem parsePathM_sat (e : Enc) (a : Array Nat) (first last : Nat) (u : Url) (h : first ≤ last) (hl : last ≤ a.size) :
    (parsePathM e a first last u).sat (fun _ => True) := by
  unfold parsePathM
  refine iter_sat _ (fun s => first ≤ s.1 ∧ s.1 ≤ last) (fun s => last - s.1) _ ?_ _ _ ?_ ?_
  · intro ⟨pointer, u⟩ hI
    simp only at hI ⊢
    simp only [sub_ok hI.1 hI.2 (Nat.le_refl _), R.ok_bind]
    refine R.sat_bind (findIf_sat a first last _ hl (last - pointer) pointer hI.1 (by omega)) ?_
    intro eos heos
    have he : eos ≤ last := by omega
    simp only [sub_ok hI.1 heos.1 he, R.ok_bind]
    refine R.sat_bind (doubleDot_sat a pointer eos heos.1 (by omega)) ?_
    intro dd _
    refine R.sat_bind (P := fun _ => True) ?_ ?_
    · split
      · exact R.sat_pure trivial
      · refine R.sat_bind (singleDot_sat a pointer eos heos.1 (by omega)) ?_
        intro sd _
        split
        · exact R.sat_pure trivial
        · refine R.sat_bind (P := fun b => b = true → pointer + 2 ≤ eos) ?_ ?_
          · split
            · rename_i hc
              simp only [rd_ok hI.1 (by omega : pointer < last) hl,
                rd_ok (by omega : first ≤ pointer + 1) (by omega : pointer + 1 < last) hl, R.ok_bind]
              exact R.sat_pure (by intro _; omega)
            · exact R.sat_pure (by simp)
          intro drive hd
          split
          · rename_i ht
            have := hd ht
            simp only [rd_ok hI.1 (by omega : pointer < last) hl, R.ok_bind]
            exact R.sat_pure trivial
          · refine R.sat_bind (pathSegmentEncM_sat e a pointer eos heos.1 (by omega)) ?_
            intro ⟨_, seg⟩ _
            exact R.sat_pure trivial
    intro u' _
    split
    · exact R.sat_pure trivial
    · rename_i hnl
      have : eos ≠ last := by simpa using hnl
      rfin
  · simp only []; omega
  · simp only []; omega

theorem findLastM_sat (a : Array Nat) (first last value : Nat) (h : first ≤ last) (hl : last ≤ a.size) :
    (findLastM a first last value).sat (fun r => first ≤ r ∧ r ≤ last) := by
  unfold findLastM
  refine iter_sat _ (fun it => first ≤ it ∧ it ≤ last) (fun it => it - first) _ ?_ _ _ ?_ ?_
  · intro it hI
    split
    · psimp
      simp only [rd_ok (by omega : first ≤ it - 1) (by omega : it - 1 < last) hl, R.ok_bind]
      split
      · rfin
      · rfin
    · rfin
  · omega
  · omega

theorem getPathFirstStringM_sat (a : Array Nat) (first last len : Nat) (opaquePath : Bool) (h : first ≤ last)
    (hl : last ≤ a.size) :
    (getPathFirstStringM a first last len opaquePath).sat (fun r => first ≤ r.1 ∧ r.1 ≤ r.2 ∧ r.2 ≤ last) := by
  unfold getPathFirstStringM
  split
  · exact R.sat_pure (by simp only []; omega)
  · rename_i hc
    have : first < last := by omega
    psimp
    refine R.sat_bind (P := fun b => b = true → first + 1 + len ≤ last) ?_ ?_
    · split
      · exact R.sat_pure (by intro _; omega)
      · split
        · simp only [rd_ok (by omega : first + 1 ≤ first + 1 + len) (by omega : first + 1 + len < last) hl, R.ok_bind]
          exact R.sat_pure (by intro _; omega)
        · exact R.sat_pure (by simp)
    intro ok hok
    split
    · rename_i ht
      have := hok ht
      psimp
      exact R.sat_pure (by simp only []; omega)
    · exact R.sat_pure (by simp only []; omega)

end Upa.Impl.B
