import Upa.Impl.Api
import Upa.Proofs.Percent
/-
  Helper lemmas for C02 (serialise, then parse again: `Impl.parse idna .u8 (Impl.serialize u) base = some u`).

  Part 0: the character classes / component predicates out of which `Upa.Props.Norm` is built.
  Part 1: generic scanner facts (`takeWhile`/`dropWhile` over `x ++ t` when the scan stops at the head
          of `t`), fixpoints of the encoders (`percentEncode_fix_iff`, `percentEncodeC0_fix_iff`),
          preprocessing (`doTrim`, `removeWs`, `decode .u8` are the identity on the serialisation).
  Part 2: `toDecimal` re-parses to the same number (`port_roundtrip`).
  Part 3: the parser blocks, bottom-up over the serialiser grammar, each on an explicit record:
          `fragmentState_ok`, `queryState_ok`, `afterPath_qf`, `pathSegments_ok`, `pathState_ok`,
          `pathState_dot` (the `/.` guard), `pathStartState_ok`, `portState_ok`, `hostScan_ok`,
          `hostState_ok`, `authorityState_ok` (credentials), `fileHostState_ok`,
          `urlParse_scheme` (scheme scan and dispatch).
  Part 4: assembly: the serialisation by shape (`ser_host`, `ser_opaque`, `ser_list`), printable
          elements, `parse_eq` (preprocessing), the dispatch from the scheme block (`urlParse_slashes`,
          `urlParse_file`, `urlParse_opaque`, `urlParse_path`: the base is never consulted), one theorem
          per URL shape (`reparse_host`, `reparse_file`, `reparse_opaque`, `reparse_list`) and `reparse`.
-/
namespace Upa.Proofs.C02
open Upa Upa.Impl

/-! ## Part 0: component predicates of the normal form -/

def isLowerAlpha (c : Nat) : Bool := decide (0x61 ≤ c) && decide (c ≤ 0x7A)
/-- scheme code point after the first, lower case: `a-z 0-9 + - .` -/
def schemeTailChar (c : Nat) : Bool :=
  isLowerAlpha c || isDigit c || c == 0x2B || c == 0x2D || c == 0x2E
/-- non-empty, first `a-z`, rest `a-z 0-9 + - .` -/
def schemeOk : List Nat → Bool
  | [] => false
  | c :: r => isLowerAlpha c && r.all schemeTailChar

/-- `c` is kept as it is by `percentEncode noEnc` (ASCII and a member of the no-encode set);
    a string is a fixpoint of `percentEncode noEnc` iff all its elements are (`percentEncode_fix_iff`) -/
def keeps (noEnc : Nat → Bool) (c : Nat) : Bool := decide (c < 0x80) && noEnc c
def userinfoOk (s : List Nat) : Bool := s.all (keeps userinfoNoEnc)
def fragmentOk (s : List Nat) : Bool := s.all (keeps fragmentNoEnc)
def queryOk (special : Bool) (s : List Nat) : Bool :=
  s.all (keeps (if special then specialQueryNoEnc else queryNoEnc))
/-- path segment element: kept by the path encoder, not `/`, and not `\` in a special URL -/
def segCharOk (special : Bool) (c : Nat) : Bool :=
  keeps pathNoEnc c && c != 0x2F && !(special && c == 0x5C)
def segOk (special : Bool) (seg : List Nat) : Bool :=
  seg.all (segCharOk special) && !singleDot seg && !doubleDot seg
/-- file URL: the first segment is not an un-normalised drive letter `X|` -/
def driveOk : List (List Nat) → Bool
  | [a, b] :: _ => !(isAlpha a && b == 0x7C)
  | _ => true
/-- opaque path element: kept by the C0-control encoder (0x20..0x7E), not `?`, not `#` -/
def opaqueCharOk (c : Nat) : Bool := decide (0x1F < c) && decide (c < 0x7F) && !isQorH c
/-- opaque path: elements ok, does not start with `/`, and does not end with a space when both
    query and fragment are null (`noQF`) -/
def opaqueOk (op : List Nat) (noQF : Bool) : Bool :=
  op.all opaqueCharOk && op.head? != some 0x2F && !(noQF && op.getLast? == some 0x20)
/-- host text element: printable ASCII, none of `/ ? # @`, and not `\` in a special URL -/
def hostCharOk (special : Bool) (c : Nat) : Bool :=
  decide (0x20 < c) && decide (c < 0x7F) && c != 0x2F && c != 0x3F && c != 0x23 && c != 0x40 &&
    !(special && c == 0x5C)
def notBracket (c : Nat) : Bool := c != 0x5B && c != 0x5D
/-- `[` … `]` with no bracket inside, or no `:` `[` `]` at all: `hostScan` finds no port colon in it -/
def hostColonOk : List Nat → Bool
  | [] => true
  | c :: r =>
    if c = 0x5B then r.getLast? == some 0x5D && r.dropLast.all notBracket
    else (c :: r).all (fun c => c != 0x3A && notBracket c)
/-- file URL host: not `localhost`, not a two-element drive letter -/
def hostFileOk (t : List Nat) : Bool :=
  t != sLocalhost && !(match t with | [a, b] => isWindowsDrive a b | _ => false)
def hostTextOk (special file : Bool) (t : List Nat) : Bool :=
  t.all (hostCharOk special) && hostColonOk t && (!file || hostFileOk t)

/-- which components may be present together -/
def ShapeP (u : Url) : Prop :=
  -- opaque path ⇒ null host, empty path list, not special
  (u.hasOpaquePath = true → u.host = none ∧ u.path = [] ∧ u.isSpecial = false) ∧
  -- list path ⇒ empty opaque string
  (u.hasOpaquePath = false → u.opaquePath = []) ∧
  -- special ⇒ host non-null and path non-empty
  (u.isSpecial = true → u.host ≠ none ∧ u.path ≠ []) ∧
  -- special, not file ⇒ host non-empty
  (u.isSpecial = true → u.isFile = false → u.hostText ≠ []) ∧
  -- file, or null / empty host ⇒ no credentials, no port
  (u.isFile = true ∨ u.hostText = [] → u.username = [] ∧ u.password = [] ∧ u.port = none) ∧
  -- not special, null host, list path ⇒ path non-empty  ("a:" is an opaque path)
  (u.isSpecial = false → u.host = none → u.hasOpaquePath = false → u.path ≠ [])

def portOk (scheme : List Nat) : Option Nat → Bool
  | none => true
  | some p => decide (p < 65536) && defaultPort scheme != some p

/-- the host parser maps the host's text to the host itself (an empty host is `emptyHost`) -/
def HostStable (idna : Idna) (special : Bool) (h : Host) : Prop :=
  if h.text = [] then h = emptyHost else parseHost idna h.text (!special) = some h

instance (idna : Idna) (special : Bool) (h : Host) : Decidable (HostStable idna special h) := by
  unfold HostStable; infer_instance

/-! ## Part 1: scanners -/

/-- the scan with `p` stops at the beginning of `t` -/
def StopsAt (p : Nat → Bool) : List Nat → Prop
  | [] => True
  | c :: _ => p c = false

theorem takeWhile_scan (p : Nat → Bool) (x t : List Nat) (hx : ∀ c ∈ x, p c = true)
    (ht : StopsAt p t) : (x ++ t).takeWhile p = x := by
  induction x with
  | nil =>
    cases t with
    | nil => rfl
    | cons c r => simp [StopsAt] at ht; simp [ht]
  | cons a x ih =>
    have ha := hx a List.mem_cons_self
    simp only [List.cons_append, List.takeWhile_cons, ha, if_true]
    rw [ih (fun c hc => hx c (List.mem_cons_of_mem _ hc))]

theorem dropWhile_scan (p : Nat → Bool) (x t : List Nat) (hx : ∀ c ∈ x, p c = true)
    (ht : StopsAt p t) : (x ++ t).dropWhile p = t := by
  induction x with
  | nil =>
    cases t with
    | nil => rfl
    | cons c r => simp [StopsAt] at ht; simp [ht]
  | cons a x ih =>
    have ha := hx a List.mem_cons_self
    simp only [List.cons_append, List.dropWhile_cons, ha, if_true]
    rw [ih (fun c hc => hx c (List.mem_cons_of_mem _ hc))]

theorem StopsAt.append {p : Nat → Bool} {x y : List Nat} (hx : ∀ c ∈ x, p c = false)
    (hy : x = [] → StopsAt p y) : StopsAt p (x ++ y) := by
  cases x with
  | nil => exact hy rfl
  | cons a x => exact hx a List.mem_cons_self

/-! ### encoder fixpoints -/

theorem percentEncode_keeps (noEnc : Nat → Bool) (s : List Nat) (h : ∀ c ∈ s, keeps noEnc c = true) :
    percentEncode noEnc s = s := by
  induction s with
  | nil => rfl
  | cons c cs ih =>
    have hc := h c List.mem_cons_self
    simp only [keeps, Bool.and_eq_true, decide_eq_true_eq] at hc
    rw [C14.percentEncode_ascii_noenc noEnc c cs hc.1 hc.2, ih (fun x hx => h x (List.mem_cons_of_mem _ hx))]

theorem percentEncodeC0_keeps (s : List Nat) (h : ∀ c ∈ s, 0x1F < c ∧ c < 0x7F) :
    percentEncodeC0 s = s := by
  induction s with
  | nil => rfl
  | cons c cs ih =>
    have hc := h c List.mem_cons_self
    rw [C14.percentEncodeC0_keep c cs hc.1 hc.2, ih (fun x hx => h x (List.mem_cons_of_mem _ hx))]

theorem pctEncodeChar_head (c : Nat) : ∃ t, pctEncodeChar c = 0x25 :: t := by
  unfold pctEncodeChar encodeUtf8Char
  split
  · exact ⟨_, rfl⟩
  · split
    · exact ⟨_, rfl⟩
    · split <;> exact ⟨_, rfl⟩

/-- the fixpoints of `percentEncode noEnc` (for a set that keeps `%`) are exactly the strings over the
    ASCII members of the no-encode set -/
theorem percentEncode_fix_iff (noEnc : Nat → Bool) (h25 : noEnc 0x25 = true) (s : List Nat) :
    percentEncode noEnc s = s ↔ ∀ c ∈ s, keeps noEnc c = true := by
  refine ⟨?_, percentEncode_keeps noEnc s⟩
  induction s with
  | nil => intro _ c hc; simp at hc
  | cons c cs ih =>
    intro h
    rw [C14.percentEncode_cons] at h
    by_cases h80 : c ≥ 0x80
    · obtain ⟨t, ht⟩ := pctEncodeChar_head c
      rw [if_pos h80, ht] at h
      simp only [List.cons_append, List.cons.injEq] at h
      omega
    · rw [if_neg h80] at h
      cases hn : noEnc c with
      | true =>
        rw [hn] at h
        simp only [if_true, List.singleton_append, List.cons.injEq, true_and] at h
        intro x hx
        rcases List.mem_cons.1 hx with rfl | hx
        · simp [keeps, hn]; omega
        · exact ih h x hx
      | false =>
        rw [hn] at h
        simp only [Bool.false_eq_true, if_false, pctByte, List.cons_append, List.cons.injEq] at h
        rw [← h.1, h25] at hn
        exact absurd hn (by decide)

/-- the fixpoints of `percentEncodeC0` are exactly the strings over 0x20..0x7E -/
theorem percentEncodeC0_fix_iff (s : List Nat) :
    percentEncodeC0 s = s ↔ ∀ c ∈ s, 0x1F < c ∧ c < 0x7F := by
  refine ⟨?_, percentEncodeC0_keeps s⟩
  induction s with
  | nil => intro _ c hc; simp at hc
  | cons c cs ih =>
    intro h
    rw [C14.percentEncodeC0_cons] at h
    by_cases h7f : c ≥ 0x7F
    · obtain ⟨t, ht⟩ := pctEncodeChar_head c
      rw [if_pos h7f, ht] at h
      simp only [List.cons_append, List.cons.injEq] at h
      omega
    · rw [if_neg h7f] at h
      by_cases h1f : c ≤ 0x1F
      · rw [if_pos h1f] at h
        simp only [pctByte, List.cons_append, List.cons.injEq] at h
        omega
      · rw [if_neg h1f] at h
        simp only [List.singleton_append, List.cons.injEq, true_and] at h
        intro x hx
        rcases List.mem_cons.1 hx with rfl | hx
        · omega
        · exact ih h x hx

/-! ### preprocessing -/

theorem decode_ascii (s : List Nat) (h : ∀ c ∈ s, c < 0x80) : decode .u8 s = s := by
  induction s with
  | nil => rfl
  | cons c cs ih =>
    rw [C14.decode_ascii_cons c (h c List.mem_cons_self), ih (fun x hx => h x (List.mem_cons_of_mem _ hx))]

theorem removeWs_id (s : List Nat) (h : ∀ c ∈ s, 0x20 ≤ c) : removeWs s = s := by
  unfold removeWs
  rw [List.filter_eq_self]
  intro c hc
  have := h c hc
  simp [isRemovable]
  omega

/-- the last element exists and is not a trim character -/
def EndsOk (l : List Nat) : Prop := ∃ i z, l = i ++ [z] ∧ 0x20 < z

theorem EndsOk.append_left {y : List Nat} (x : List Nat) (h : EndsOk y) : EndsOk (x ++ y) := by
  obtain ⟨i, z, rfl, hz⟩ := h
  exact ⟨x ++ i, z, by simp, hz⟩

theorem EndsOk.of_all {x : List Nat} (hne : x ≠ []) (h : ∀ c ∈ x, 0x20 < c) : EndsOk x := by
  refine ⟨x.dropLast, x.getLast hne, (List.dropLast_concat_getLast hne).symm, h _ (List.getLast_mem hne)⟩

theorem doTrim_id (c : Nat) (r : List Nat) (hc : 0x20 < c) (he : EndsOk (c :: r)) :
    doTrim (c :: r) = c :: r := by
  obtain ⟨i, z, hl, hz⟩ := he
  unfold doTrim
  have h1 : (c :: r).dropWhile isTrimChar = c :: r := by
    have : isTrimChar c = false := by simp [isTrimChar]; omega
    simp [List.dropWhile, this]
  have h2 : isTrimChar z = false := by simp [isTrimChar]; omega
  rw [h1, hl]
  simp [List.reverse_append, h2]

/-! ## Part 2: `toDecimal` and the port scanner -/

theorem toDigitsAux_dec (fuel : Nat) : ∀ (n : Nat) (acc : List Nat), n < fuel →
    ∃ ds, toDigitsAux 10 (fun d => 0x30 + d) fuel n acc = ds ++ acc ∧
      (∀ c ∈ ds, isDigit c = true) ∧ decimalValue ds = n ∧
      (∃ c r, ds = c :: r ∧ (n ≠ 0 → c ≠ 0x30) ∧ (n = 0 → r = [])) ∧
      (∀ k, n < 10 ^ (k + 1) → ds.length ≤ k + 1) := by
  induction fuel with
  | zero => intro n acc h; omega
  | succ fuel ih =>
    intro n acc h
    unfold toDigitsAux
    by_cases h0 : n / 10 = 0
    · simp only [h0, if_true]
      refine ⟨[0x30 + n % 10], rfl, ?_, ?_, ⟨_, [], rfl, ?_, fun _ => rfl⟩, ?_⟩
      · intro c hc
        simp only [List.mem_singleton] at hc
        subst hc
        simp [isDigit]; omega
      · simp [decimalValue]; omega
      · intro hn; omega
      · intro k _; simp
    · simp only [h0, if_false]
      obtain ⟨ds, hds, hdig, hval, ⟨c, r, hcr, hc0, _⟩, hlen⟩ :=
        ih (n / 10) ((0x30 + n % 10) :: acc) (by omega)
      refine ⟨ds ++ [0x30 + n % 10], by rw [hds]; simp, ?_, ?_, ⟨c, r ++ [0x30 + n % 10], by rw [hcr]; rfl,
        fun _ => hc0 h0, fun hn => by omega⟩, ?_⟩
      · intro x hx
        rcases List.mem_append.1 hx with hx | hx
        · exact hdig x hx
        · simp only [List.mem_singleton] at hx
          subst hx
          simp [isDigit]; omega
      · unfold decimalValue at hval ⊢
        rw [List.foldl_append, hval]
        simp only [List.foldl_cons, List.foldl_nil]
        omega
      · intro k hk
        cases k with
        | zero => omega
        | succ j =>
          have := hlen j (by rw [Nat.pow_succ] at hk; omega)
          simp only [List.length_append, List.length_singleton]
          omega

theorem toDecimal_spec (n : Nat) :
    (∀ c ∈ toDecimal n, isDigit c = true) ∧ decimalValue (toDecimal n) = n ∧
    (∃ c r, toDecimal n = c :: r ∧ (n ≠ 0 → c ≠ 0x30) ∧ (n = 0 → r = [])) ∧
    (∀ k, n < 10 ^ (k + 1) → (toDecimal n).length ≤ k + 1) := by
  obtain ⟨ds, hds, h⟩ := toDigitsAux_dec (n + 1) n [] (by omega)
  unfold toDecimal
  rw [hds, List.append_nil]
  exact h

theorem stripLeadingZeros_id (c : Nat) (r : List Nat) (h : c ≠ 0x30 ∨ r = []) :
    stripLeadingZeros (c :: r) = c :: r := by
  unfold stripLeadingZeros
  split
  · next heq => exact heq.symm
  · next heq =>
    rcases h with h | h
    · simp at heq; omega
    · subst h; simp_all
  · rfl

/-- C02_port_roundtrip: the decimal form of a port re-parses to the port -/
theorem port_roundtrip (p : Nat) (hp : p < 65536) :
    (∀ c ∈ toDecimal p, isDigit c = true) ∧ toDecimal p ≠ [] ∧
    stripLeadingZeros (toDecimal p) = toDecimal p ∧ (toDecimal p).length ≤ 5 ∧
    decimalValue (stripLeadingZeros (toDecimal p)) = p := by
  obtain ⟨hdig, hval, ⟨c, r, hcr, hc0, hr0⟩, hlen⟩ := toDecimal_spec p
  have hs : stripLeadingZeros (toDecimal p) = toDecimal p := by
    rw [hcr]
    apply stripLeadingZeros_id
    by_cases h : p = 0
    · exact Or.inr (hr0 h)
    · exact Or.inl (hc0 h)
  refine ⟨hdig, by rw [hcr]; simp, hs, hlen 4 (by omega), by rw [hs, hval]⟩


/-! ## Part 3: the parser blocks, bottom-up -/

/-- `?query#fragment` as the serializer writes it -/
def qText : Option (List Nat) → List Nat
  | some q => 0x3F :: q
  | none => []
def fText : Option (List Nat) → List Nat
  | some f => 0x23 :: f
  | none => []
def qfText (q f : Option (List Nat)) : List Nat := qText q ++ fText f

@[simp] theorem isSpecial_mk (s un pw : List Nat) (h : Option Host) (p : Option Nat) (b : Bool)
    (op : List Nat) (pa : List (List Nat)) (q f : Option (List Nat)) :
    (Url.mk s un pw h p b op pa q f).isSpecial = isSpecialScheme s := rfl
@[simp] theorem isFile_mk (s un pw : List Nat) (h : Option Host) (p : Option Nat) (b : Bool)
    (op : List Nat) (pa : List (List Nat)) (q f : Option (List Nat)) :
    (Url.mk s un pw h p b op pa q f).isFile = isFileScheme s := rfl
def qOk (special : Bool) : Option (List Nat) → Bool
  | none => true
  | some q => queryOk special q
def fOk : Option (List Nat) → Bool
  | none => true
  | some f => fragmentOk f

theorem fragmentOk_enc (f : List Nat) (hf : fragmentOk f = true) : percentEncode fragmentNoEnc f = f :=
  percentEncode_keeps _ _ (by simpa [fragmentOk] using hf)

theorem queryOk_enc (sp : Bool) (q : List Nat) (hq : queryOk sp q = true) :
    percentEncode (if sp = true then specialQueryNoEnc else queryNoEnc) q = q :=
  percentEncode_keeps _ _ (by simpa [queryOk] using hq)

theorem queryOk_nohash (sp : Bool) (q : List Nat) (hq : queryOk sp q = true) :
    ∀ c ∈ q, (c != 0x23) = true := by
  intro c hc
  have := (List.all_eq_true.1 hq) c hc
  cases sp <;> simp [keeps, queryNoEnc, specialQueryNoEnc, Spec.noEncode, Spec.querySet, Spec.specialQuerySet] at this ⊢ <;> omega

/-- C02_fragment_roundtrip -/
theorem fragmentState_ok (v : Url) (f : List Nat) (hf : fragmentOk f = true) :
    fragmentState v f = ⟨.ok, { v with fragment := some f }⟩ := by
  unfold fragmentState
  rw [fragmentOk_enc f hf]

/-- C02_query_roundtrip: `?` already consumed -/
theorem queryState_ok (s un pw : List Nat) (h : Option Host) (p : Option Nat) (b : Bool) (op : List Nat)
    (pa : List (List Nat)) (q : List Nat) (f : Option (List Nat))
    (hq : queryOk (isSpecialScheme s) q = true) (hf : fOk f = true) :
    queryState none ⟨s, un, pw, h, p, b, op, pa, none, none⟩
        (q ++ fText f) =
      ⟨.ok, ⟨s, un, pw, h, p, b, op, pa, some q, f⟩⟩ := by
  have hstop : StopsAt (· != 0x23) (fText f) := by
    cases f <;> simp [StopsAt, fText]
  unfold queryState
  simp only [Option.isSome_none, Bool.false_eq_true, if_false]
  rw [takeWhile_scan _ _ _ (queryOk_nohash _ q hq) hstop, dropWhile_scan _ _ _ (queryOk_nohash _ q hq) hstop]
  rw [isSpecial_mk, queryOk_enc _ q hq]
  cases f with
  | none => rfl
  | some f => simp only [fText]; exact fragmentState_ok _ f hf

theorem afterPath_qf (s un pw : List Nat) (h : Option Host) (p : Option Nat) (b : Bool) (op : List Nat)
    (pa : List (List Nat)) (q f : Option (List Nat))
    (hq : qOk (isSpecialScheme s) q = true) (hf : fOk f = true) :
    afterPath none ⟨s, un, pw, h, p, b, op, pa, none, none⟩ (qfText q f) =
      ⟨.ok, ⟨s, un, pw, h, p, b, op, pa, q, f⟩⟩ := by
  cases q with
  | none =>
    cases f with
    | none => rfl
    | some f =>
      simp only [qfText, qText, fText, List.nil_append, afterPath]
      rw [if_neg (by decide)]
      exact fragmentState_ok _ f hf
  | some q =>
    simp only [qfText, qText, List.cons_append, afterPath, if_true]
    exact queryState_ok s un pw h p b op pa q f hq hf

theorem qf_stops (q f : Option (List Nat)) : StopsAt (fun c => !isQorH c) (qfText q f) := by
  cases q <;> cases f <;> simp [qfText, qText, fText, StopsAt, isQorH]

/-! ### path -/

/-- the segments separated by `/` -/
def joinSegs : List (List Nat) → List Nat
  | [] => []
  | seg :: rest => seg ++ rest.flatMap (fun s => 0x2F :: s)

theorem split_join (sep : Nat → Bool) (hsep : sep 0x2F = true) :
    ∀ (rest : List (List Nat)) (seg0 : List Nat), (∀ c ∈ seg0, sep c = false) →
      (∀ seg ∈ rest, ∀ c ∈ seg, sep c = false) →
      splitOnP sep (seg0 ++ rest.flatMap (fun s => 0x2F :: s)) = seg0 :: rest := by
  intro rest
  induction rest with
  | nil =>
    intro seg0 h0 _
    induction seg0 with
    | nil => simp [splitOnP]
    | cons c cs ih =>
      have := ih (fun x hx => h0 x (List.mem_cons_of_mem _ hx))
      simp only [List.flatMap_nil, List.append_nil] at this ⊢
      simp [splitOnP, h0 c List.mem_cons_self, this]
  | cons r0 rs ihr =>
    intro seg0 h0 hr
    induction seg0 with
    | nil =>
      have := ihr r0 (hr r0 List.mem_cons_self) (fun seg hs => hr seg (List.mem_cons_of_mem _ hs))
      simp only [List.flatMap_cons, List.nil_append, List.cons_append]
      simp [splitOnP, hsep, this]
    | cons c cs ih =>
      have := ih (fun x hx => h0 x (List.mem_cons_of_mem _ hx))
      simp only [List.cons_append]
      rw [splitOnP, this]
      simp [h0 c List.mem_cons_self]

theorem segOk_parts {sp : Bool} {seg : List Nat} (h : segOk sp seg = true) :
    (∀ c ∈ seg, segCharOk sp c = true) ∧ singleDot seg = false ∧ doubleDot seg = false := by
  simp only [segOk, Bool.and_eq_true, List.all_eq_true, Bool.not_eq_true'] at h
  exact ⟨h.1.1, h.1.2, h.2⟩

theorem segOk_enc {sp : Bool} {seg : List Nat} (h : segOk sp seg = true) :
    percentEncode pathNoEnc seg = seg := by
  apply percentEncode_keeps
  intro c hc
  have := (segOk_parts h).1 c hc
  simp only [segCharOk, Bool.and_eq_true] at this
  exact this.1.1

theorem pathSegment_ok (s un pw : List Nat) (h : Option Host) (p : Option Nat) (b : Bool) (op : List Nat)
    (q f : Option (List Nat)) (pa0 : List (List Nat)) (seg : List Nat) (isLast : Bool)
    (hseg : segOk (isSpecialScheme s) seg = true)
    (hdrive : isFileScheme s = true → pa0 = [] → driveOk [seg] = true) :
    pathSegment ⟨s, un, pw, h, p, b, op, pa0, q, f⟩ seg isLast =
      ⟨s, un, pw, h, p, b, op, pa0 ++ [seg], q, f⟩ := by
  obtain ⟨hch, hsd, hdd⟩ := segOk_parts hseg
  unfold pathSegment
  rw [hdd, hsd]
  simp only [Bool.false_eq_true, if_false]
  split
  · next a c =>
    split
    · next hc =>
      simp only [isFile_mk, Bool.and_eq_true, List.isEmpty_iff] at hc
      have hd := hdrive hc.1.1 hc.1.2
      have hw := hc.2
      simp only [driveOk, isWindowsDrive, Bool.and_eq_true, Bool.or_eq_true, Bool.not_eq_true',
        Bool.and_eq_false_iff, beq_iff_eq] at hd hw
      have : c = 0x3A := by
        rcases hw.2 with h1 | h1
        · exact h1
        · rcases hd with h2 | h2
          · simp [hw.1] at h2
          · simp [h1] at h2
      subst this
      rfl
    · rw [segOk_enc hseg]
  · rw [segOk_enc hseg]

theorem pathSegments_ok (s un pw : List Nat) (h : Option Host) (p : Option Nat) (b : Bool) (op : List Nat)
    (q f : Option (List Nat)) :
    ∀ (segs : List (List Nat)) (pa0 : List (List Nat)),
      (∀ seg ∈ segs, segOk (isSpecialScheme s) seg = true) →
      (isFileScheme s = true → pa0 = [] → driveOk segs = true) →
      pathSegments ⟨s, un, pw, h, p, b, op, pa0, q, f⟩ segs =
        ⟨s, un, pw, h, p, b, op, pa0 ++ segs, q, f⟩ := by
  intro segs
  induction segs with
  | nil => intro pa0 _ _; simp [pathSegments]
  | cons seg rest ih =>
    intro pa0 hs hd
    have hd1 : isFileScheme s = true → pa0 = [] → driveOk [seg] = true := by
      intro h1 h2
      have := hd h1 h2
      unfold driveOk at this ⊢
      split at this <;> simp_all
    cases rest with
    | nil =>
      simp only [pathSegments]
      exact pathSegment_ok s un pw h p b op q f pa0 seg true (hs seg List.mem_cons_self) hd1
    | cons seg' rest' =>
      simp only [pathSegments]
      rw [pathSegment_ok s un pw h p b op q f pa0 seg false (hs seg List.mem_cons_self) hd1,
        ih (pa0 ++ [seg]) (fun x hx => hs x (List.mem_cons_of_mem _ hx)) (fun _ h2 => by simp at h2)]
      simp

theorem mem_joinSegs (segs : List (List Nat)) (c : Nat) (hc : c ∈ joinSegs segs) :
    c = 0x2F ∨ ∃ seg ∈ segs, c ∈ seg := by
  cases segs with
  | nil => simp [joinSegs] at hc
  | cons seg0 rest =>
    simp only [joinSegs, List.mem_append, List.mem_flatMap, List.mem_cons] at hc
    rcases hc with hc | ⟨seg, hseg, hc | hc⟩
    · exact Or.inr ⟨seg0, List.mem_cons_self, hc⟩
    · exact Or.inl hc
    · exact Or.inr ⟨seg, List.mem_cons_of_mem _ hseg, hc⟩

theorem segCharOk_facts {sp : Bool} {c : Nat} (h : segCharOk sp c = true) :
    isQorH c = false ∧ (c == 0x2F) = false ∧ (sp = true → isSlash c = false) ∧ 0x20 < c ∧ c < 0x7F := by
  simp only [segCharOk, keeps, pathNoEnc, Spec.noEncode, Spec.pathSet, Spec.querySet, Spec.c0ControlSet,
    Bool.and_eq_true, Bool.not_eq_true', Bool.or_eq_false_iff, decide_eq_true_eq,
    decide_eq_false_iff_not, bne_iff_ne, ne_eq, beq_eq_false_iff_ne, Bool.and_eq_false_iff] at h
  refine ⟨by simp [isQorH]; omega, by simp; omega, ?_, by omega, by omega⟩
  intro hsp
  subst hsp
  simp [isSlash]
  have := h.2
  simp at this
  omega

theorem pathTextL_cons (seg0 : List Nat) (rest : List (List Nat)) :
    (seg0 :: rest).flatMap (fun s => 0x2F :: s) = 0x2F :: joinSegs (seg0 :: rest) := by
  simp [joinSegs]

/-- the path block on `seg0/seg1/…?query#fragment` (leading `/` already consumed) -/
theorem pathState_eq (s un pw : List Nat) (h : Option Host) (p : Option Nat) (b : Bool) (op : List Nat)
    (pa0 : List (List Nat)) (seg0 : List Nat) (rest : List (List Nat)) (q f : Option (List Nat))
    (hs : ∀ seg ∈ seg0 :: rest, ∀ c ∈ seg, segCharOk (isSpecialScheme s) c = true) :
    pathState none ⟨s, un, pw, h, p, b, op, pa0, none, none⟩ (joinSegs (seg0 :: rest) ++ qfText q f) =
      afterPath none (pathSegments ⟨s, un, pw, h, p, b, op, pa0, none, none⟩ (seg0 :: rest)) (qfText q f) := by
  have hall : ∀ c ∈ joinSegs (seg0 :: rest), (!isQorH c) = true := by
    intro c hc
    rcases mem_joinSegs _ c hc with rfl | ⟨seg, hseg, hc⟩
    · decide
    · simp [(segCharOk_facts (hs seg hseg c hc)).1]
  unfold pathState
  simp only [Option.isSome_none, Bool.false_eq_true, if_false]
  rw [takeWhile_scan _ _ _ hall (qf_stops q f), dropWhile_scan _ _ _ hall (qf_stops q f)]
  unfold parsePath
  rw [isSpecial_mk]
  congr 1
  cases hS : isSpecialScheme s with
  | true =>
    simp only [if_true, joinSegs]
    rw [split_join isSlash (by decide) rest seg0
      (fun c hc => (segCharOk_facts (hs seg0 List.mem_cons_self c hc)).2.2.1 hS)
      (fun seg hseg c hc => (segCharOk_facts (hs seg (List.mem_cons_of_mem _ hseg) c hc)).2.2.1 hS)]
  | false =>
    simp only [Bool.false_eq_true, if_false, joinSegs]
    rw [split_join (· == 0x2F) (by decide) rest seg0
      (fun c hc => (segCharOk_facts (hs seg0 List.mem_cons_self c hc)).2.1)
      (fun seg hseg c hc => (segCharOk_facts (hs seg (List.mem_cons_of_mem _ hseg) c hc)).2.1)]

/-- C02_path_roundtrip -/
theorem pathState_ok (s un pw : List Nat) (h : Option Host) (p : Option Nat)
    (seg0 : List Nat) (rest : List (List Nat)) (q f : Option (List Nat))
    (hs : ∀ seg ∈ seg0 :: rest, segOk (isSpecialScheme s) seg = true)
    (hd : isFileScheme s = true → driveOk (seg0 :: rest) = true)
    (hq : qOk (isSpecialScheme s) q = true) (hf : fOk f = true) :
    pathState none ⟨s, un, pw, h, p, false, [], [], none, none⟩ (joinSegs (seg0 :: rest) ++ qfText q f) =
      ⟨.ok, ⟨s, un, pw, h, p, false, [], seg0 :: rest, q, f⟩⟩ := by
  rw [pathState_eq s un pw h p false [] [] seg0 rest q f (fun seg hseg => (segOk_parts (hs seg hseg)).1),
    pathSegments_ok s un pw h p false [] none none (seg0 :: rest) [] hs (fun h1 _ => hd h1)]
  exact afterPath_qf s un pw h p false [] _ q f hq hf

/-- the `/.` guard: `.//seg1/…` is read as `["", seg1, …]` -/
theorem pathState_dot (s un pw : List Nat) (h : Option Host) (p : Option Nat)
    (rest : List (List Nat)) (q f : Option (List Nat))
    (hs : ∀ seg ∈ [] :: rest, segOk (isSpecialScheme s) seg = true)
    (hd : isFileScheme s = false)
    (hq : qOk (isSpecialScheme s) q = true) (hf : fOk f = true) :
    pathState none ⟨s, un, pw, h, p, false, [], [], none, none⟩
        (0x2E :: (([] : List Nat) :: rest).flatMap (fun s => 0x2F :: s) ++ qfText q f) =
      ⟨.ok, ⟨s, un, pw, h, p, false, [], [] :: rest, q, f⟩⟩ := by
  have e : 0x2E :: (([] : List Nat) :: rest).flatMap (fun s => 0x2F :: s) ++ qfText q f =
      joinSegs ([0x2E] :: [] :: rest) ++ qfText q f := by simp [joinSegs]
  rw [e, pathState_eq s un pw h p false [] [] [0x2E] ([] :: rest) q f]
  · have : pathSegments ⟨s, un, pw, h, p, false, [], [], none, none⟩ ([0x2E] :: [] :: rest) =
        pathSegments ⟨s, un, pw, h, p, false, [], [], none, none⟩ ([] :: rest) := by
      simp [pathSegments, pathSegment, singleDot, doubleDot]
    rw [this, pathSegments_ok s un pw h p false [] none none ([] :: rest) [] hs (fun h1 _ => by simp [hd] at h1)]
    exact afterPath_qf s un pw h p false [] _ q f hq hf
  · intro seg hseg c hc
    rcases List.mem_cons.1 hseg with rfl | hseg
    · simp only [List.mem_singleton] at hc
      subst hc
      cases isSpecialScheme s <;> decide
    · exact (segOk_parts (hs seg hseg)).1 c hc

/-- C02_path_roundtrip from the path start state: `/seg0/seg1/…?query#fragment` -/
theorem pathStartState_ok (s un pw : List Nat) (h : Option Host) (p : Option Nat)
    (path : List (List Nat)) (q f : Option (List Nat))
    (hne : isSpecialScheme s = true → path ≠ [])
    (hs : ∀ seg ∈ path, segOk (isSpecialScheme s) seg = true)
    (hd : isFileScheme s = true → driveOk path = true)
    (hq : qOk (isSpecialScheme s) q = true) (hf : fOk f = true) :
    pathStartState none ⟨s, un, pw, h, p, false, [], [], none, none⟩
        (path.flatMap (fun s => 0x2F :: s) ++ qfText q f) =
      ⟨.ok, ⟨s, un, pw, h, p, false, [], path, q, f⟩⟩ := by
  unfold pathStartState
  rw [isSpecial_mk]
  cases path with
  | cons seg0 rest =>
    rw [pathTextL_cons]
    have := pathState_ok s un pw h p seg0 rest q f hs hd hq hf
    cases hS : isSpecialScheme s <;> simp [isSlash, this]
  | nil =>
    cases hS : isSpecialScheme s with
    | true => exact absurd rfl (hne hS)
    | false =>
      simp only [List.flatMap_nil, List.nil_append, Bool.false_eq_true, if_false]
      cases q with
      | none =>
        cases f with
        | none => rfl
        | some f =>
          simp only [qfText, qText, fText, List.nil_append, Option.isNone_none, if_true]
          exact fragmentState_ok _ f hf
      | some q =>
        simp only [qfText, qText, List.cons_append, Option.isNone_none, if_true]
        rw [hS] at hq
        have := queryState_ok s un pw h p false [] [] q f (by rw [hS]; exact hq) hf
        exact this


/-! ### port -/

/-- the text after the authority: empty, or starts with `/`, `?` or `#` -/
def AuthEnd : List Nat → Prop
  | [] => True
  | c :: _ => isAuthorityEnd c = true

theorem authEnd_tail (path : List (List Nat)) (q f : Option (List Nat)) :
    AuthEnd (path.flatMap (fun s => 0x2F :: s) ++ qfText q f) := by
  cases path with
  | cons seg0 rest => simp [AuthEnd, isAuthorityEnd]
  | nil => cases q <;> cases f <;> simp [AuthEnd, isAuthorityEnd, qfText, qText, fText]

theorem AuthEnd.stops {t : List Nat} (h : AuthEnd t) (p : Nat → Bool)
    (hp : ∀ c, isAuthorityEnd c = true → p c = false) : StopsAt p t := by
  cases t with
  | nil => trivial
  | cons c r => exact hp c h

theorem authEnd_cases (c : Nat) (h : isAuthorityEnd c = true) : c = 0x2F ∨ c = 0x3F ∨ c = 0x23 := by
  simpa [isAuthorityEnd, or_assoc] using h

/-- C02_port_roundtrip at the port block -/
theorem portState_ok (s un pw : List Nat) (h : Option Host) (b : Bool) (op : List Nat)
    (pa : List (List Nat)) (port : Nat) (rest : List Nat)
    (hp : port < 65536) (hd : defaultPort s ≠ some port) (hr : AuthEnd rest) :
    portState none ⟨s, un, pw, h, none, b, op, pa, none, none⟩ (toDecimal port ++ rest) =
      pathStartState none ⟨s, un, pw, h, some port, b, op, pa, none, none⟩ rest := by
  obtain ⟨hdig, hne, hstrip, hlen, hval⟩ := port_roundtrip port hp
  have hstop : StopsAt isDigit rest := hr.stops _ (by
    intro c hc
    rcases authEnd_cases c hc with rfl | rfl | rfl <;> decide)
  unfold portState
  rw [takeWhile_scan _ _ _ hdig hstop, dropWhile_scan _ _ _ hdig hstop, isSpecial_mk]
  rw [hstrip] at hval
  simp only [ne_eq, hne, not_false_eq_true, hstrip, if_true, hval, gt_iff_lt,
    show ¬ (5 < (toDecimal port).length) by omega, if_false,
    show ¬ (0xFFFF < port) by omega, hd, Option.isSome_none, Bool.false_eq_true]
  cases rest with
  | nil => simp
  | cons c r => simp only [AuthEnd] at hr; simp [hr]

/-! ### host -/

def portText : Option Nat → List Nat
  | some p => 0x3A :: toDecimal p
  | none => []

theorem hostScan_nil (b : Bool) : hostScan [] b = ([], none) := by simp [hostScan]
theorem hostScan_colon (r : List Nat) : hostScan (0x3A :: r) false = ([], some r) := by simp [hostScan]
theorem hostScan_open (r : List Nat) (b : Bool) :
    hostScan (0x5B :: r) b = (0x5B :: (hostScan r true).1, (hostScan r true).2) := by simp [hostScan]
theorem hostScan_close (r : List Nat) (b : Bool) :
    hostScan (0x5D :: r) b = (0x5D :: (hostScan r false).1, (hostScan r false).2) := by simp [hostScan]
theorem hostScan_plain (c : Nat) (r : List Nat) (b : Bool) (h0 : c ≠ 0x3A) (h1 : c ≠ 0x5B) (h2 : c ≠ 0x5D) :
    hostScan (c :: r) b = (c :: (hostScan r b).1, (hostScan r b).2) := by simp [hostScan, h0, h1, h2]
theorem hostScan_inbr (c : Nat) (r : List Nat) (h1 : c ≠ 0x5B) (h2 : c ≠ 0x5D) :
    hostScan (c :: r) true = (c :: (hostScan r true).1, (hostScan r true).2) := by
  by_cases h0 : c = 0x3A
  · subst h0; simp [hostScan]
  · exact hostScan_plain c r true h0 h1 h2

theorem hostScan_append_plain (t tail : List Nat) (b : Bool)
    (ht : ∀ c ∈ t, c ≠ 0x3A ∧ c ≠ 0x5B ∧ c ≠ 0x5D) :
    hostScan (t ++ tail) b = (t ++ (hostScan tail b).1, (hostScan tail b).2) := by
  induction t with
  | nil => rfl
  | cons c t ih =>
    obtain ⟨h0, h1, h2⟩ := ht c List.mem_cons_self
    rw [List.cons_append, hostScan_plain c _ b h0 h1 h2, ih (fun x hx => ht x (List.mem_cons_of_mem _ hx))]
    rfl

theorem hostScan_append_inbr (m tail : List Nat) (hm : ∀ c ∈ m, c ≠ 0x5B ∧ c ≠ 0x5D) :
    hostScan (m ++ tail) true = (m ++ (hostScan tail true).1, (hostScan tail true).2) := by
  induction m with
  | nil => rfl
  | cons c m ih =>
    obtain ⟨h1, h2⟩ := hm c List.mem_cons_self
    rw [List.cons_append, hostScan_inbr c _ h1 h2, ih (fun x hx => hm x (List.mem_cons_of_mem _ hx))]
    rfl

theorem hostScan_portText (p : Option Nat) : hostScan (portText p) false = ([], p.map toDecimal) := by
  cases p with
  | none => exact hostScan_nil false
  | some p => exact hostScan_colon _

theorem notBracket_iff (c : Nat) : notBracket c = true ↔ c ≠ 0x5B ∧ c ≠ 0x5D := by
  simp [notBracket]

/-- no port colon is found inside a host text that is `hostColonOk` -/
theorem hostScan_ok (t : List Nat) (p : Option Nat) (ht : hostColonOk t = true) :
    hostScan (t ++ portText p) false = (t, p.map toDecimal) := by
  cases t with
  | nil => exact hostScan_portText p
  | cons c r =>
    unfold hostColonOk at ht
    by_cases hc : c = 0x5B
    · subst hc
      simp only [if_true, Bool.and_eq_true, beq_iff_eq, List.all_eq_true] at ht
      obtain ⟨hlast, hm⟩ := ht
      have hr : r = r.dropLast ++ [0x5D] := by
        have hne : r ≠ [] := by intro h; subst h; simp at hlast
        have := List.dropLast_concat_getLast hne
        rw [List.getLast?_eq_some_getLast hne] at hlast
        rw [← this]
        simp at hlast
        simp [hlast]
      rw [hr]
      rw [List.cons_append, hostScan_open, List.append_assoc,
        hostScan_append_inbr _ _ (fun c hc => (notBracket_iff c).1 (hm c hc)),
        List.singleton_append, hostScan_close, hostScan_portText]
    · simp only [hc, if_false, List.all_eq_true, Bool.and_eq_true, bne_iff_ne, ne_eq] at ht
      rw [hostScan_append_plain _ _ _ (fun x hx => ⟨(ht x hx).1, (notBracket_iff x).1 (ht x hx).2⟩),
        hostScan_portText]
      simp

theorem hostCharOk_facts {sp : Bool} {c : Nat} (h : hostCharOk sp c = true) :
    0x20 < c ∧ c < 0x7F ∧ c ≠ 0x2F ∧ c ≠ 0x3F ∧ c ≠ 0x23 ∧ c ≠ 0x40 ∧ (sp = true → c ≠ 0x5C) := by
  simp only [hostCharOk, Bool.and_eq_true, decide_eq_true_eq, bne_iff_ne, ne_eq, Bool.not_eq_true',
    Bool.and_eq_false_iff, beq_eq_false_iff_ne] at h
  refine ⟨h.1.1.1.1.1.1, h.1.1.1.1.1.2, h.1.1.1.1.2, h.1.1.1.2, h.1.1.2, h.1.2, ?_⟩
  intro hsp
  rcases h.2 with h2 | h2
  · simp [hsp] at h2
  · exact h2

theorem portText_chars (p : Option Nat) : ∀ c ∈ portText p, c = 0x3A ∨ isDigit c = true := by
  intro c hc
  cases p with
  | none => simp [portText] at hc
  | some p =>
    simp only [portText, List.mem_cons] at hc
    rcases hc with hc | hc
    · exact Or.inl hc
    · exact Or.inr ((toDecimal_spec p).1 c hc)

theorem isDigit_range {c : Nat} (h : isDigit c = true) : 0x30 ≤ c ∧ c ≤ 0x39 := by
  simpa [isDigit] using h

/-- `isEndC` of the authority / host blocks -/
def endC (sp : Bool) : Nat → Bool := if sp then isSpecialAuthorityEnd else isAuthorityEnd

theorem endC_host {sp : Bool} {c : Nat} (h : hostCharOk sp c = true) : (!endC sp c) = true := by
  obtain ⟨_, _, h1, h2, h3, _, h4⟩ := hostCharOk_facts h
  cases sp with
  | false => simp [endC, isAuthorityEnd, h1, h2, h3]
  | true => simp [endC, isSpecialAuthorityEnd, h1, h2, h3, h4 rfl]

theorem endC_port {sp : Bool} {p : Option Nat} {c : Nat} (h : c ∈ portText p) : (!endC sp c) = true := by
  have : c = 0x3A ∨ (0x30 ≤ c ∧ c ≤ 0x39) := (portText_chars p c h).imp id isDigit_range
  cases sp <;> simp [endC, isAuthorityEnd, isSpecialAuthorityEnd] <;> omega

theorem AuthEnd.stops_endC {t : List Nat} (h : AuthEnd t) (sp : Bool) : StopsAt (fun c => !endC sp c) t :=
  h.stops _ (by
    intro c hc
    rcases authEnd_cases c hc with rfl | rfl | rfl <;> cases sp <;> decide)

theorem parseHost_stable (idna : Idna) (sp : Bool) (h : Host) (hst : HostStable idna sp h)
    (hne : sp = true → h.text ≠ []) : parseHost idna h.text (!sp) = some h := by
  unfold HostStable at hst
  by_cases ht : h.text = []
  · rw [if_pos ht] at hst
    have : sp = false := by
      cases sp with
      | false => rfl
      | true => exact absurd ht (hne rfl)
    subst this
    rw [ht, hst]
    rfl
  · rw [if_neg ht] at hst
    exact hst

/-- the host block on `host[:port]` followed by the path / query / fragment text -/
theorem hostState_ok (idna : Idna) (s un pw : List Nat) (b : Bool) (op : List Nat) (pa : List (List Nat))
    (h : Host) (p : Option Nat) (rest : List Nat)
    (hch : ∀ c ∈ h.text, hostCharOk (isSpecialScheme s) c = true)
    (hcol : hostColonOk h.text = true)
    (hst : HostStable idna (isSpecialScheme s) h)
    (hne : isSpecialScheme s = true → h.text ≠ [])
    (hempty : h.text = [] → p = none)
    (hport : portOk s p = true)
    (hr : AuthEnd rest) :
    hostState idna none ⟨s, un, pw, none, none, b, op, pa, none, none⟩ (h.text ++ portText p ++ rest) =
      pathStartState none ⟨s, un, pw, some h, p, b, op, pa, none, none⟩ rest := by
  have hall : ∀ c ∈ h.text ++ portText p, (!endC (isSpecialScheme s) c) = true := by
    intro c hc
    rcases List.mem_append.1 hc with hc | hc
    · exact endC_host (hch c hc)
    · exact endC_port hc
  have hph := parseHost_stable idna _ h hst hne
  unfold hostState
  rw [isSpecial_mk]
  simp only [Option.isSome_none, Bool.false_and, Bool.false_eq_true, if_false]
  have e1 : List.takeWhile
      (fun c => !(if isSpecialScheme s = true then isSpecialAuthorityEnd else isAuthorityEnd) c)
      (h.text ++ portText p ++ rest) = h.text ++ portText p :=
    takeWhile_scan (fun c => !endC (isSpecialScheme s) c) _ _ hall (hr.stops_endC _)
  have e2 : List.dropWhile
      (fun c => !(if isSpecialScheme s = true then isSpecialAuthorityEnd else isAuthorityEnd) c)
      (h.text ++ portText p ++ rest) = rest :=
    dropWhile_scan (fun c => !endC (isSpecialScheme s) c) _ _ hall (hr.stops_endC _)
  rw [e1, e2, hostScan_ok _ _ hcol]
  simp only [hph]
  have hc1 : (decide (h.text = []) && ((Option.map toDecimal p).isSome || isSpecialScheme s)) = false := by
    by_cases ht : h.text = []
    · have hp := hempty ht
      subst hp
      cases hS : isSpecialScheme s with
      | false => simp
      | true => exact absurd ht (hne hS)
    · simp [ht]
  rw [hc1]
  simp only [Bool.and_false, Bool.false_and, Bool.false_eq_true, if_false, reduceCtorEq, decide_false]
  cases p with
  | none => rfl
  | some port =>
    simp only [Option.map_some]
    simp only [portOk, Bool.and_eq_true, decide_eq_true_eq, bne_iff_ne, ne_eq] at hport
    exact portState_ok s un pw (some h) b op pa port rest hport.1 hport.2 hr


/-! ### authority (credentials) -/

/-- `user[:password]@` as the serializer writes it -/
def credText (un pw : List Nat) : List Nat :=
  if (un ≠ [] || pw ≠ []) = true then un ++ (if pw ≠ [] then 0x3A :: pw else []) ++ [0x40] else []

theorem splitLastAt_some (cred hp : List Nat) (h : ∀ c ∈ hp, c ≠ 0x40) :
    splitLastAt (cred ++ 0x40 :: hp) = some (cred, hp) := by
  have hr : (cred ++ 0x40 :: hp).reverse = hp.reverse ++ 0x40 :: cred.reverse := by simp
  have hall : ∀ c ∈ hp.reverse, (c != 0x40) = true := by
    intro c hc; simpa using h c (List.mem_reverse.1 hc)
  have hstop : StopsAt (· != 0x40) (0x40 :: cred.reverse) := by simp [StopsAt]
  unfold splitLastAt
  simp only [hr]
  rw [takeWhile_scan _ _ _ hall hstop, dropWhile_scan _ _ _ hall hstop]
  simp

theorem splitLastAt_none (hp : List Nat) (h : ∀ c ∈ hp, c ≠ 0x40) : splitLastAt hp = none := by
  have hall : ∀ c ∈ hp.reverse, (c != 0x40) = true := by
    intro c hc; simpa using h c (List.mem_reverse.1 hc)
  have := dropWhile_scan (· != 0x40) hp.reverse [] hall trivial
  rw [List.append_nil] at this
  unfold splitLastAt
  simp only [this]

theorem userinfoOk_facts {s : List Nat} (h : userinfoOk s = true) {c : Nat} (hc : c ∈ s) :
    0x20 < c ∧ c < 0x7F ∧ c ≠ 0x2F ∧ c ≠ 0x3F ∧ c ≠ 0x23 ∧ c ≠ 0x40 ∧ c ≠ 0x3A ∧ c ≠ 0x5C := by
  have := (List.all_eq_true.1 h) c hc
  simp only [keeps, userinfoNoEnc, Spec.noEncode, Spec.userinfoSet, Spec.pathSet, Spec.querySet,
    Spec.c0ControlSet, Bool.and_eq_true, Bool.not_eq_true', Bool.or_eq_false_iff,
    decide_eq_true_eq, decide_eq_false_iff_not, beq_eq_false_iff_ne] at this
  omega

theorem userinfoOk_enc {s : List Nat} (h : userinfoOk s = true) : percentEncode userinfoNoEnc s = s :=
  percentEncode_keeps _ _ (by simpa [userinfoOk] using h)

theorem endC_user {sp : Bool} {s : List Nat} (h : userinfoOk s = true) {c : Nat} (hc : c ∈ s) :
    (!endC sp c) = true := by
  have := userinfoOk_facts h hc
  cases sp <;> simp [endC, isAuthorityEnd, isSpecialAuthorityEnd] <;> omega

/-- elements of `user[:password]` -/
theorem credBody_chars {un pw : List Nat} {c : Nat} (hc : c ∈ un ++ (if pw ≠ [] then 0x3A :: pw else [])) :
    c = 0x3A ∨ (c ∈ un ∨ c ∈ pw) := by
  rcases List.mem_append.1 hc with hc | hc
  · exact Or.inr (Or.inl hc)
  · by_cases hp : pw = []
    · simp [hp] at hc
    · simp only [ne_eq, hp, not_false_eq_true, if_true, List.mem_cons] at hc
      rcases hc with hc | hc
      · exact Or.inl hc
      · exact Or.inr (Or.inr hc)

/-- C02_credentials_roundtrip: the authority block on `[user[:password]@]host[:port]` -/
theorem authorityState_ok (idna : Idna) (s : List Nat) (b : Bool) (op : List Nat) (pa : List (List Nat))
    (un pw : List Nat) (h : Host) (p : Option Nat) (rest : List Nat)
    (hun : userinfoOk un = true) (hpw : userinfoOk pw = true)
    (hch : ∀ c ∈ h.text, hostCharOk (isSpecialScheme s) c = true)
    (hcol : hostColonOk h.text = true)
    (hst : HostStable idna (isSpecialScheme s) h)
    (hne : isSpecialScheme s = true → h.text ≠ [])
    (hempty : h.text = [] → un = [] ∧ pw = [] ∧ p = none)
    (hport : portOk s p = true)
    (hr : AuthEnd rest) :
    authorityState idna none ⟨s, [], [], none, none, b, op, pa, none, none⟩
        (credText un pw ++ h.text ++ portText p ++ rest) =
      pathStartState none ⟨s, un, pw, some h, p, b, op, pa, none, none⟩ rest := by
  have hhost := hostState_ok idna s un pw b op pa h p rest hch hcol hst hne (fun ht => (hempty ht).2.2) hport hr
  have hhp : ∀ c ∈ h.text ++ portText p, c ≠ 0x40 := by
    intro c hc
    rcases List.mem_append.1 hc with hc | hc
    · exact (hostCharOk_facts (hch c hc)).2.2.2.2.2.1
    · have : c = 0x3A ∨ (0x30 ≤ c ∧ c ≤ 0x39) := (portText_chars p c hc).imp id isDigit_range
      omega
  have hhpE : ∀ c ∈ h.text ++ portText p, (!endC (isSpecialScheme s) c) = true := by
    intro c hc
    rcases List.mem_append.1 hc with hc | hc
    · exact endC_host (hch c hc)
    · exact endC_port hc
  unfold authorityState
  rw [isSpecial_mk]
  by_cases hcr : un = [] ∧ pw = []
  · -- no credentials
    obtain ⟨rfl, rfl⟩ := hcr
    have e0 : credText [] [] = [] := by simp [credText]
    rw [e0, List.nil_append]
    have e1 : List.takeWhile
        (fun c => !(if isSpecialScheme s = true then isSpecialAuthorityEnd else isAuthorityEnd) c)
        (h.text ++ portText p ++ rest) = h.text ++ portText p :=
      takeWhile_scan (fun c => !endC (isSpecialScheme s) c) _ _ hhpE (hr.stops_endC _)
    simp only [e1, splitLastAt_none _ hhp]
    exact hhost
  · -- credentials present
    have hcr' : (un ≠ [] || pw ≠ []) = true := by
      by_cases h1 : un = []
      · by_cases h2 : pw = []
        · exact absurd ⟨h1, h2⟩ hcr
        · simp [h2]
      · simp [h1]
    have hne' : h.text ≠ [] := fun ht => hcr ⟨(hempty ht).1, (hempty ht).2.1⟩
    have e0 : credText un pw ++ h.text ++ portText p ++ rest =
        ((un ++ (if pw ≠ [] then 0x3A :: pw else [])) ++ 0x40 :: (h.text ++ portText p)) ++ rest := by
      simp only [credText, hcr', if_true]
      simp
    have hallE : ∀ c ∈ (un ++ (if pw ≠ [] then 0x3A :: pw else [])) ++ 0x40 :: (h.text ++ portText p),
        (!endC (isSpecialScheme s) c) = true := by
      intro c hc
      rcases List.mem_append.1 hc with hc | hc
      · rcases credBody_chars hc with rfl | hc | hc
        · cases isSpecialScheme s <;> decide
        · exact endC_user hun hc
        · exact endC_user hpw hc
      · rcases List.mem_cons.1 hc with rfl | hc
        · cases isSpecialScheme s <;> decide
        · exact hhpE c hc
    have e1 : List.takeWhile
        (fun c => !(if isSpecialScheme s = true then isSpecialAuthorityEnd else isAuthorityEnd) c)
        (((un ++ (if pw ≠ [] then 0x3A :: pw else [])) ++ 0x40 :: (h.text ++ portText p)) ++ rest) =
          (un ++ (if pw ≠ [] then 0x3A :: pw else [])) ++ 0x40 :: (h.text ++ portText p) :=
      takeWhile_scan (fun c => !endC (isSpecialScheme s) c) _ _ hallE (hr.stops_endC _)
    have e2 : List.dropWhile
        (fun c => !(if isSpecialScheme s = true then isSpecialAuthorityEnd else isAuthorityEnd) c)
        (((un ++ (if pw ≠ [] then 0x3A :: pw else [])) ++ 0x40 :: (h.text ++ portText p)) ++ rest) = rest :=
      dropWhile_scan (fun c => !endC (isSpecialScheme s) c) _ _ hallE (hr.stops_endC _)
    have hunc : ∀ c ∈ un, (c != 0x3A) = true := by
      intro c hc; simpa using (userinfoOk_facts hun hc).2.2.2.2.2.2.1
    have hpstop : StopsAt (· != 0x3A) (if pw ≠ [] then 0x3A :: pw else []) := by
      by_cases hp : pw = [] <;> simp [hp, StopsAt]
    have e3 : (un ++ (if pw ≠ [] then 0x3A :: pw else [])).takeWhile (· != 0x3A) = un :=
      takeWhile_scan _ _ _ hunc hpstop
    have e4 : ((un ++ (if pw ≠ [] then 0x3A :: pw else [])).dropWhile (· != 0x3A)).drop 1 = pw := by
      rw [dropWhile_scan _ _ _ hunc hpstop]
      by_cases hp : pw = [] <;> simp [hp]
    have hnehp : h.text ++ portText p ≠ [] := by simp [hne']
    rw [e0]
    simp only [e1, e2, splitLastAt_some _ _ hhp, hnehp, if_false, e3, e4]
    have hc2 : (pw ≠ [] || un ≠ []) = true := by
      rw [Bool.or_comm]; exact hcr'
    simp only [hc2, if_true, userinfoOk_enc hun, userinfoOk_enc hpw]
    have hpw' : (if pw ≠ [] then pw else []) = pw := by
      by_cases hp : pw = [] <;> simp [hp]
    simp only [hpw']
    exact hhost


/-! ### file host -/

theorem isFile_eq {s : List Nat} (h : isFileScheme s = true) : s = sFile := by
  simpa [isFileScheme] using h

theorem fileHostState_ok (idna : Idna) (h0 : Option Host) (h : Host) (rest : List Nat)
    (hch : ∀ c ∈ h.text, hostCharOk true c = true)
    (hfo : hostFileOk h.text = true)
    (hst : HostStable idna true h)
    (hr : AuthEnd rest) :
    fileHostState idna none ⟨sFile, [], [], h0, none, false, [], [], none, none⟩ (h.text ++ rest) =
      pathStartState none ⟨sFile, [], [], some h, none, false, [], [], none, none⟩ rest := by
  have hall : ∀ c ∈ h.text, (!isSpecialAuthorityEnd c) = true := fun c hc => endC_host (sp := true) (hch c hc)
  have hstop : StopsAt (fun c => !isSpecialAuthorityEnd c) rest := hr.stops_endC true
  unfold fileHostState
  rw [isSpecial_mk]
  simp only [takeWhile_scan _ _ _ hall hstop, dropWhile_scan _ _ _ hall hstop, Option.isSome_none,
    Bool.false_eq_true, if_false, Option.isNone_none, Bool.true_and]
  unfold HostStable at hst
  by_cases ht : h.text = []
  · rw [if_pos ht] at hst
    subst hst
    simp [emptyHost]
  · rw [if_neg ht] at hst
    simp only [hostFileOk, Bool.and_eq_true, bne_iff_ne, ne_eq, Bool.not_eq_true'] at hfo
    have hsp : isSpecialScheme sFile = true := by decide
    simp only [ht, if_false, hsp, Bool.not_true]
    have hloc : (h.text == sLocalhost) = false := by simpa using hfo.1
    have hst' : parseHost idna h.text false = some h := by simpa using hst
    split
    · next a b hab =>
      have h2 := hfo.2
      rw [hab] at h2
      simp only at h2
      rw [if_neg (by simp [h2])]
      simp only [hst', hloc, Bool.false_eq_true, if_false]
    · simp only [hst', hloc, Bool.false_eq_true, if_false]

/-! ### scheme -/

theorem schemeTail_tbl : ∀ c, c < 128 → schemeTailChar c = true →
    isSchemeChar c = true ∧ c ||| 0x20 = c ∧ 0x20 < c := by decide
theorem lowerAlpha_tbl : ∀ c, c < 128 → isLowerAlpha c = true →
    isAlpha c = true ∧ schemeTailChar c = true := by decide

theorem schemeTail_lt {c : Nat} (h : schemeTailChar c = true) : c < 128 := by
  simp only [schemeTailChar, isLowerAlpha, isDigit, Bool.or_eq_true, Bool.and_eq_true, decide_eq_true_eq,
    beq_iff_eq] at h
  omega

theorem schemeTail_facts {c : Nat} (h : schemeTailChar c = true) :
    isSchemeChar c = true ∧ c ||| 0x20 = c ∧ 0x20 < c ∧ c < 0x7F :=
  have h1 := schemeTail_tbl c (schemeTail_lt h) h
  ⟨h1.1, h1.2.1, h1.2.2, by
    have := schemeTail_lt h
    simp only [schemeTailChar, isLowerAlpha, isDigit, Bool.or_eq_true, Bool.and_eq_true, decide_eq_true_eq,
      beq_iff_eq] at h
    omega⟩

theorem lowerAlpha_facts {c : Nat} (h : isLowerAlpha c = true) :
    isAlpha c = true ∧ schemeTailChar c = true := by
  have : c < 128 := by
    simp only [isLowerAlpha, Bool.and_eq_true, decide_eq_true_eq] at h; omega
  exact lowerAlpha_tbl c this h

/-- the scheme as a non-empty list of lower-case scheme characters -/
theorem schemeOk_parts {s : List Nat} (h : schemeOk s = true) :
    ∃ c0 sr, s = c0 :: sr ∧ isLowerAlpha c0 = true ∧ ∀ c ∈ sr, schemeTailChar c = true := by
  cases s with
  | nil => simp [schemeOk] at h
  | cons c0 sr =>
    simp only [schemeOk, Bool.and_eq_true, List.all_eq_true] at h
    exact ⟨c0, sr, rfl, h.1, h.2⟩

/-- C02_scheme_scan: what the scheme block dispatches to on `scheme:tail` -/
theorem urlParse_scheme (idna : Idna) (base : Option Url) (s tail : List Nat) (hs : schemeOk s = true) :
    urlParse idna base none {} (s ++ 0x3A :: tail) =
      (if isFileScheme s then fileState idna base none { scheme := s } tail
       else if isSpecialScheme s then
         match base with
         | some b =>
           if b.scheme = s then specialRelativeOrAuthorityState idna b none { scheme := s } tail
           else specialAuthoritySlashesState idna none { scheme := s } tail
         | none => specialAuthoritySlashesState idna none { scheme := s } tail
       else
         match tail with
         | 0x2F :: r => pathOrAuthorityState idna none { scheme := s } r
         | _ => opaquePathState none { scheme := s, hasOpaquePath := true } tail) := by
  obtain ⟨c0, sr, rfl, h0, hsr⟩ := schemeOk_parts hs
  have hall : ∀ c ∈ sr, isSchemeChar c = true := fun c hc => (schemeTail_facts (hsr c hc)).1
  have hstop : StopsAt isSchemeChar (0x3A :: tail) := by simp [StopsAt]; decide
  have hmap : (c0 :: sr).map (· ||| 0x20) = c0 :: sr := by
    have : ∀ c ∈ c0 :: sr, c ||| 0x20 = c := by
      intro c hc
      rcases List.mem_cons.1 hc with rfl | hc
      · exact (schemeTail_facts (lowerAlpha_facts h0).2).2.1
      · exact (schemeTail_facts (hsr c hc)).2.1
    calc (c0 :: sr).map (· ||| 0x20) = (c0 :: sr).map id := List.map_congr_left this
      _ = c0 :: sr := List.map_id _
  simp only [urlParse, List.cons_append, (lowerAlpha_facts h0).1, if_true]
  unfold schemeState
  simp only [takeWhile_scan _ _ _ hall hstop, dropWhile_scan _ _ _ hall hstop, beq_self_eq_true,
    if_true, Option.isSome_none, Bool.false_eq_true, if_false, hmap, List.drop_one, List.tail_cons]
  rfl


/-! ## Part 4: assembly -/

/-! ### the serialisation, by shape -/

theorem ser_host (s un pw : List Nat) (h : Host) (p : Option Nat) (op : List Nat) (pa : List (List Nat))
    (q f : Option (List Nat)) :
    serialize ⟨s, un, pw, some h, p, false, op, pa, q, f⟩ =
      s ++ 0x3A :: 0x2F :: 0x2F :: (credText un pw ++ h.text ++ portText p ++
        (pa.flatMap (fun s => 0x2F :: s) ++ qfText q f)) := by
  cases p <;> cases q <;> cases f <;>
    simp [serialize, needsPathPrefix, pathText, credText, portText, qfText, qText, fText, Url.hasCredentials]

theorem ser_opaque (s un pw : List Nat) (p : Option Nat) (op : List Nat) (pa : List (List Nat))
    (q f : Option (List Nat)) :
    serialize ⟨s, un, pw, none, p, true, op, pa, q, f⟩ = s ++ 0x3A :: (op ++ qfText q f) := by
  cases q <;> cases f <;> simp [serialize, needsPathPrefix, pathText, qfText, qText, fText]

theorem ser_list (s un pw : List Nat) (p : Option Nat) (op : List Nat) (pa : List (List Nat))
    (q f : Option (List Nat)) :
    serialize ⟨s, un, pw, none, p, false, op, pa, q, f⟩ =
      s ++ 0x3A :: ((if (decide (pa.length > 1) && pa.head? == some []) = true then [0x2F, 0x2E] else []) ++
        (pa.flatMap (fun s => 0x2F :: s) ++ qfText q f)) := by
  cases q <;> cases f <;> simp [serialize, needsPathPrefix, pathText, qfText, qText, fText]

/-! ### printable elements -/

/-- printable ASCII, not a space -/
def Pr (c : Nat) : Prop := 0x20 < c ∧ c < 0x7F

theorem pr_scheme {s : List Nat} (hs : schemeOk s = true) : ∀ c ∈ s, Pr c := by
  obtain ⟨c0, sr, rfl, h0, hsr⟩ := schemeOk_parts hs
  intro c hc
  rcases List.mem_cons.1 hc with rfl | hc
  · exact (schemeTail_facts (lowerAlpha_facts h0).2).2.2
  · exact (schemeTail_facts (hsr c hc)).2.2

theorem pr_user {s : List Nat} (h : userinfoOk s = true) : ∀ c ∈ s, Pr c :=
  fun _ hc => ⟨(userinfoOk_facts h hc).1, (userinfoOk_facts h hc).2.1⟩

theorem pr_cred {un pw : List Nat} (hun : userinfoOk un = true) (hpw : userinfoOk pw = true) :
    ∀ c ∈ credText un pw, Pr c := by
  intro c hc
  unfold credText at hc
  split at hc
  · rcases List.mem_append.1 hc with hc | hc
    · rcases credBody_chars hc with rfl | hc | hc
      · exact ⟨by decide, by decide⟩
      · exact pr_user hun c hc
      · exact pr_user hpw c hc
    · simp only [List.mem_singleton] at hc
      subst hc
      exact ⟨by decide, by decide⟩
  · simp at hc

theorem pr_host {sp : Bool} {t : List Nat} (h : ∀ c ∈ t, hostCharOk sp c = true) : ∀ c ∈ t, Pr c :=
  fun c hc => ⟨(hostCharOk_facts (h c hc)).1, (hostCharOk_facts (h c hc)).2.1⟩

theorem pr_port (p : Option Nat) : ∀ c ∈ portText p, Pr c := by
  intro c hc
  have : c = 0x3A ∨ (0x30 ≤ c ∧ c ≤ 0x39) := (portText_chars p c hc).imp id isDigit_range
  unfold Pr
  omega

theorem pr_path {sp : Bool} {pa : List (List Nat)} (h : ∀ seg ∈ pa, segOk sp seg = true) :
    ∀ c ∈ pa.flatMap (fun s => 0x2F :: s), Pr c := by
  intro c hc
  simp only [List.mem_flatMap, List.mem_cons] at hc
  obtain ⟨seg, hseg, hc | hc⟩ := hc
  · subst hc; exact ⟨by decide, by decide⟩
  · have := segCharOk_facts ((segOk_parts (h seg hseg)).1 c hc)
    exact ⟨this.2.2.2.1, this.2.2.2.2⟩

theorem keeps_query_pr {sp : Bool} {c : Nat}
    (h : keeps (if sp = true then specialQueryNoEnc else queryNoEnc) c = true) : Pr c := by
  unfold Pr
  cases sp <;>
    simp only [keeps, queryNoEnc, specialQueryNoEnc, Spec.noEncode, Spec.specialQuerySet, Spec.querySet,
      Spec.c0ControlSet, Bool.and_eq_true, Bool.not_eq_true', Bool.or_eq_false_iff,
      decide_eq_true_eq, decide_eq_false_iff_not, beq_eq_false_iff_ne, if_true, Bool.false_eq_true,
      if_false] at h <;> omega

theorem keeps_fragment_pr {c : Nat} (h : keeps fragmentNoEnc c = true) : Pr c := by
  unfold Pr
  simp only [keeps, fragmentNoEnc, Spec.noEncode, Spec.fragmentSet,
    Spec.c0ControlSet, Bool.and_eq_true, Bool.not_eq_true', Bool.or_eq_false_iff,
    decide_eq_true_eq, decide_eq_false_iff_not, beq_eq_false_iff_ne] at h
  omega

theorem pr_qf {sp : Bool} {q f : Option (List Nat)} (hq : qOk sp q = true) (hf : fOk f = true) :
    ∀ c ∈ qfText q f, Pr c := by
  intro c hc
  simp only [qfText, List.mem_append] at hc
  rcases hc with hc | hc
  · cases q with
    | none => simp [qText] at hc
    | some q =>
      simp only [qText, List.mem_cons] at hc
      rcases hc with rfl | hc
      · exact ⟨by decide, by decide⟩
      · exact keeps_query_pr ((List.all_eq_true.1 hq) c hc)
  · cases f with
    | none => simp [fText] at hc
    | some f =>
      simp only [fText, List.mem_cons] at hc
      rcases hc with rfl | hc
      · exact ⟨by decide, by decide⟩
      · exact keeps_fragment_pr ((List.all_eq_true.1 hf) c hc)

/-! ### preprocessing is the identity on the serialisation -/

theorem parse_eq (idna : Idna) (base : Option Url) (s tail : List Nat) (u : Url)
    (hs : schemeOk s = true) (hch : ∀ c ∈ tail, 0x20 ≤ c ∧ c < 0x7F) (hend : EndsOk (0x3A :: tail))
    (hp : urlParse idna base none {} (s ++ 0x3A :: tail) = ⟨.ok, u⟩) :
    parse idna .u8 (s ++ 0x3A :: tail) base = some u := by
  have hall : ∀ c ∈ s ++ 0x3A :: tail, 0x20 ≤ c ∧ c < 0x80 := by
    intro c hc
    rcases List.mem_append.1 hc with hc | hc
    · have := pr_scheme hs c hc; unfold Pr at this; omega
    · rcases List.mem_cons.1 hc with rfl | hc
      · exact ⟨by decide, by decide⟩
      · have := hch c hc; omega
  have htrim : doTrim (s ++ 0x3A :: tail) = s ++ 0x3A :: tail := by
    obtain ⟨c0, sr, rfl, h0, _⟩ := schemeOk_parts hs
    have := (pr_scheme hs c0 List.mem_cons_self).1
    rw [List.cons_append]
    apply doTrim_id _ _ this
    rw [← List.cons_append]
    exact hend.append_left _
  unfold parse prep
  rw [htrim, removeWs_id _ (fun c hc => (hall c hc).1), decode_ascii _ (fun c hc => (hall c hc).2), hp]

theorem endsOk_of_pr (tail : List Nat) (h : ∀ c ∈ tail, Pr c) : EndsOk (0x3A :: tail) := by
  apply EndsOk.of_all (by simp)
  intro c hc
  rcases List.mem_cons.1 hc with rfl | hc
  · decide
  · exact (h c hc).1


/-! ### from the scheme block to the first block of each shape: the base is never consulted -/

/-- `scheme://…`, not file: the authority block (special: whatever the base; not special: through
    path-or-authority) -/
theorem urlParse_slashes (idna : Idna) (base : Option Url) (s X : List Nat) (hs : schemeOk s = true)
    (hfile : isFileScheme s = false) (hX : isSpecialScheme s = true → StopsAt isSlash X) :
    urlParse idna base none {} (s ++ 0x3A :: 0x2F :: 0x2F :: X) =
      authorityState idna none ⟨s, [], [], none, none, false, [], [], none, none⟩ X := by
  rw [urlParse_scheme idna base s _ hs, hfile]
  simp only [Bool.false_eq_true, if_false]
  cases hS : isSpecialScheme s with
  | false => simp only [Bool.false_eq_true, if_false, pathOrAuthorityState]
  | true =>
    have hdrop : X.dropWhile isSlash = X := dropWhile_scan isSlash [] X (by simp) (hX hS)
    simp only [if_true]
    cases base with
    | none => simp only [specialAuthoritySlashesState, ignoreSlashesState, hdrop]
    | some b =>
      by_cases hb : b.scheme = s
      · simp only [hb, if_true, specialRelativeOrAuthorityState, ignoreSlashesState, hdrop]
      · simp only [hb, if_false, specialAuthoritySlashesState, ignoreSlashesState, hdrop]

/-- `file://…`: the file host block, whatever the base -/
theorem urlParse_file (idna : Idna) (base : Option Url) (X : List Nat) :
    urlParse idna base none {} (sFile ++ 0x3A :: 0x2F :: 0x2F :: X) =
      fileHostState idna none ⟨sFile, [], [], some emptyHost, none, false, [], [], none, none⟩ X := by
  rw [urlParse_scheme idna base sFile _ (by decide)]
  have h1 : isFileScheme sFile = true := by decide
  simp only [h1, if_true, fileState, isFile_mk, Bool.not_true, Bool.false_eq_true, if_false, isSlash,
    beq_self_eq_true, Bool.true_or, fileSlashState]

/-- `scheme:opaque…`, not special -/
theorem urlParse_opaque (idna : Idna) (base : Option Url) (s X : List Nat) (hs : schemeOk s = true)
    (hS : isSpecialScheme s = false) (hX : StopsAt (· == 0x2F) X) :
    urlParse idna base none {} (s ++ 0x3A :: X) =
      opaquePathState none ⟨s, [], [], none, none, true, [], [], none, none⟩ X := by
  have hfile : isFileScheme s = false := by
    cases hf : isFileScheme s with
    | false => rfl
    | true => rw [isFile_eq hf] at hS; exact absurd hS (by decide)
  rw [urlParse_scheme idna base s _ hs, hfile, hS]
  simp only [Bool.false_eq_true, if_false]
  split
  · next r => simp [StopsAt] at hX
  · rfl

/-- `scheme:/path…`, not special, path not starting with a second `/` -/
theorem urlParse_path (idna : Idna) (base : Option Url) (s X : List Nat) (hs : schemeOk s = true)
    (hS : isSpecialScheme s = false) (hX : StopsAt (· == 0x2F) X) :
    urlParse idna base none {} (s ++ 0x3A :: 0x2F :: X) =
      pathState none ⟨s, [], [], none, none, false, [], [], none, none⟩ X := by
  have hfile : isFileScheme s = false := by
    cases hf : isFileScheme s with
    | false => rfl
    | true => rw [isFile_eq hf] at hS; exact absurd hS (by decide)
  rw [urlParse_scheme idna base s _ hs, hfile, hS]
  simp only [Bool.false_eq_true, if_false, pathOrAuthorityState]
  split
  · next r => simp [StopsAt] at hX
  · rfl


theorem opaqueCharOk_facts {c : Nat} (h : opaqueCharOk c = true) :
    0x1F < c ∧ c < 0x7F ∧ isQorH c = false := by
  simpa [opaqueCharOk, and_assoc] using h

/-- C02 for the opaque path block -/
theorem opaquePathState_ok (s op : List Nat) (q f : Option (List Nat))
    (hop : ∀ c ∈ op, opaqueCharOk c = true)
    (hq : qOk (isSpecialScheme s) q = true) (hf : fOk f = true) :
    opaquePathState none ⟨s, [], [], none, none, true, [], [], none, none⟩ (op ++ qfText q f) =
      ⟨.ok, ⟨s, [], [], none, none, true, op, [], q, f⟩⟩ := by
  have hall : ∀ c ∈ op, (!isQorH c) = true := fun c hc => by simp [(opaqueCharOk_facts (hop c hc)).2.2]
  unfold opaquePathState
  simp only [takeWhile_scan _ _ _ hall (qf_stops q f), dropWhile_scan _ _ _ hall (qf_stops q f),
    percentEncodeC0_keeps op (fun c hc => ⟨(opaqueCharOk_facts (hop c hc)).1, (opaqueCharOk_facts (hop c hc)).2.1⟩),
    List.nil_append]
  exact afterPath_qf s [] [] none none true op [] q f hq hf

/-- the normal form, as a structure (the conjunction is spelled out in `Upa.Props.Norm`) -/
structure NormP (idna : Idna) (u : Url) : Prop where
  scheme : schemeOk u.scheme = true
  shape : ShapeP u
  user : userinfoOk u.username = true
  pass : userinfoOk u.password = true
  host : ∀ h, u.host = some h →
    hostTextOk u.isSpecial u.isFile h.text = true ∧ HostStable idna u.isSpecial h
  port : portOk u.scheme u.port = true
  segs : ∀ seg ∈ u.path, segOk u.isSpecial seg = true
  drive : u.isFile = true → driveOk u.path = true
  opq : u.hasOpaquePath = true →
    opaqueOk u.opaquePath (u.query.isNone && u.fragment.isNone) = true
  query : qOk u.isSpecial u.query = true
  frag : fOk u.fragment = true

theorem qfText_eq_nil {q f : Option (List Nat)} (h : qfText q f = []) : q = none ∧ f = none := by
  cases q <;> cases f <;> simp [qfText, qText, fText] at h ⊢

theorem qf_stops_slash (q f : Option (List Nat)) : StopsAt (· == 0x2F) (qfText q f) := by
  cases q <;> cases f <;> simp [qfText, qText, fText, StopsAt]

/-- host present, not a file URL -/
theorem reparse_host (idna : Idna) (base : Option Url) (s un pw : List Nat) (h : Host) (p : Option Nat)
    (pa : List (List Nat)) (q f : Option (List Nat))
    (hN : NormP idna ⟨s, un, pw, some h, p, false, [], pa, q, f⟩) (hF : isFileScheme s = false) :
    parse idna .u8 (serialize ⟨s, un, pw, some h, p, false, [], pa, q, f⟩) base =
      some ⟨s, un, pw, some h, p, false, [], pa, q, f⟩ := by
  obtain ⟨_, _, hSp, hSpH, hNoCred, _⟩ := hN.shape
  have hs : schemeOk s = true := hN.scheme
  have hun : userinfoOk un = true := hN.user
  have hpw : userinfoOk pw = true := hN.pass
  have hport : portOk s p = true := hN.port
  have hsegs : ∀ seg ∈ pa, segOk (isSpecialScheme s) seg = true := hN.segs
  have hq : qOk (isSpecialScheme s) q = true := hN.query
  have hf : fOk f = true := hN.frag
  obtain ⟨hto, hst⟩ := hN.host h rfl
  have hto' : hostTextOk (isSpecialScheme s) (isFileScheme s) h.text = true := hto
  have hst' : HostStable idna (isSpecialScheme s) h := hst
  simp only [hostTextOk, Bool.and_eq_true, List.all_eq_true] at hto'
  obtain ⟨⟨hch, hcol⟩, _⟩ := hto'
  have hne : isSpecialScheme s = true → h.text ≠ [] := fun hS => hSpH hS hF
  have hempty : h.text = [] → un = [] ∧ pw = [] ∧ p = none := fun ht => hNoCred (Or.inr ht)
  have hpne : isSpecialScheme s = true → pa ≠ [] := fun hS => (hSp hS).2
  have hr := authEnd_tail pa q f
  rw [ser_host]
  apply parse_eq idna base s _ _ hs
  · intro c hc
    have : Pr c := by
      simp only [List.mem_cons, List.mem_append] at hc
      rcases hc with rfl | rfl | ((hc | hc) | hc) | hc | hc
      · exact ⟨by decide, by decide⟩
      · exact ⟨by decide, by decide⟩
      · exact pr_cred hun hpw c hc
      · exact pr_host hch c hc
      · exact pr_port p c hc
      · exact pr_path hsegs c hc
      · exact pr_qf hq hf c hc
    exact ⟨Nat.le_of_lt this.1, this.2⟩
  · apply endsOk_of_pr
    intro c hc
    simp only [List.mem_cons, List.mem_append] at hc
    rcases hc with rfl | rfl | ((hc | hc) | hc) | hc | hc
    · exact ⟨by decide, by decide⟩
    · exact ⟨by decide, by decide⟩
    · exact pr_cred hun hpw c hc
    · exact pr_host hch c hc
    · exact pr_port p c hc
    · exact pr_path hsegs c hc
    · exact pr_qf hq hf c hc
  · rw [urlParse_slashes idna base s _ hs hF, authorityState_ok idna s false [] [] un pw h p _ hun hpw hch hcol
      hst' hne hempty hport hr]
    · exact pathStartState_ok s un pw (some h) p pa q f hpne hsegs (fun h1 => by simp [hF] at h1) hq hf
    · -- the text after `//` does not start with a slash
      intro hS
      have hslash : ∀ c, Pr c → c ≠ 0x2F → c ≠ 0x5C → isSlash c = false := by
        intro c _ h1 h2; simp [isSlash, h1, h2]
      rw [List.append_assoc, List.append_assoc]
      apply StopsAt.append
      · intro c hc
        unfold credText at hc
        split at hc
        · rcases List.mem_append.1 hc with hc | hc
          · rcases credBody_chars hc with rfl | hc | hc
            · decide
            · have := userinfoOk_facts hun hc
              exact hslash c (pr_user hun c hc) this.2.2.1 this.2.2.2.2.2.2.2
            · have := userinfoOk_facts hpw hc
              exact hslash c (pr_user hpw c hc) this.2.2.1 this.2.2.2.2.2.2.2
          · simp only [List.mem_singleton] at hc
            subst hc; decide
        · simp at hc
      · intro _
        apply StopsAt.append
        · intro c hc
          have := hostCharOk_facts (hch c hc)
          exact hslash c (pr_host hch c hc) this.2.2.1 (this.2.2.2.2.2.2 hS)
        · intro ht; exact absurd ht (hne hS)

/-- file URL -/
theorem reparse_file (idna : Idna) (base : Option Url) (s un pw : List Nat) (h : Host) (p : Option Nat)
    (pa : List (List Nat)) (q f : Option (List Nat))
    (hN : NormP idna ⟨s, un, pw, some h, p, false, [], pa, q, f⟩) (hF : isFileScheme s = true) :
    parse idna .u8 (serialize ⟨s, un, pw, some h, p, false, [], pa, q, f⟩) base =
      some ⟨s, un, pw, some h, p, false, [], pa, q, f⟩ := by
  obtain ⟨_, _, hSp, _, hNoCred, _⟩ := hN.shape
  have hsF := isFile_eq hF
  subst hsF
  have hS : isSpecialScheme sFile = true := by decide
  obtain ⟨hun, hpw, hp⟩ := hNoCred (Or.inl hF)
  have hun' : un = [] := hun
  have hpw' : pw = [] := hpw
  have hp' : p = none := hp
  subst hun' hpw' hp'
  have hsegs : ∀ seg ∈ pa, segOk (isSpecialScheme sFile) seg = true := hN.segs
  have hq : qOk (isSpecialScheme sFile) q = true := hN.query
  have hf : fOk f = true := hN.frag
  have hdrive : driveOk pa = true := hN.drive hF
  obtain ⟨hto, hst⟩ := hN.host h rfl
  have hto' : hostTextOk (isSpecialScheme sFile) (isFileScheme sFile) h.text = true := hto
  have hst' : HostStable idna (isSpecialScheme sFile) h := hst
  rw [hS] at hto' hst'
  rw [hF] at hto'
  simp only [hostTextOk, Bool.and_eq_true, List.all_eq_true, Bool.not_true, Bool.false_or] at hto'
  obtain ⟨⟨hch, _⟩, hfo⟩ := hto'
  have hpne : isSpecialScheme sFile = true → pa ≠ [] := fun hS => (hSp hS).2
  have hr := authEnd_tail pa q f
  rw [ser_host]
  have e : credText [] [] ++ h.text ++ portText none ++ (pa.flatMap (fun s => 0x2F :: s) ++ qfText q f) =
      h.text ++ (pa.flatMap (fun s => 0x2F :: s) ++ qfText q f) := by
    simp [credText, portText]
  rw [e]
  have hpr : ∀ c ∈ 0x2F :: 0x2F :: (h.text ++ (pa.flatMap (fun s => 0x2F :: s) ++ qfText q f)), Pr c := by
    intro c hc
    simp only [List.mem_cons, List.mem_append] at hc
    rcases hc with rfl | rfl | hc | hc | hc
    · exact ⟨by decide, by decide⟩
    · exact ⟨by decide, by decide⟩
    · exact pr_host hch c hc
    · exact pr_path hsegs c hc
    · exact pr_qf hq hf c hc
  apply parse_eq idna base sFile _ _ (by decide)
  · intro c hc
    exact ⟨Nat.le_of_lt (hpr c hc).1, (hpr c hc).2⟩
  · exact endsOk_of_pr _ hpr
  · rw [urlParse_file, fileHostState_ok idna _ h _ hch hfo hst' hr]
    exact pathStartState_ok sFile [] [] (some h) none pa q f hpne hsegs (fun _ => hdrive) hq hf

/-- null host, opaque path -/
theorem reparse_opaque (idna : Idna) (base : Option Url) (s un pw : List Nat) (p : Option Nat)
    (op : List Nat) (pa : List (List Nat)) (q f : Option (List Nat))
    (hN : NormP idna ⟨s, un, pw, none, p, true, op, pa, q, f⟩) :
    parse idna .u8 (serialize ⟨s, un, pw, none, p, true, op, pa, q, f⟩) base =
      some ⟨s, un, pw, none, p, true, op, pa, q, f⟩ := by
  obtain ⟨hOp, _, _, _, hNoCred, _⟩ := hN.shape
  obtain ⟨_, hpa, hS⟩ := hOp rfl
  obtain ⟨hun, hpw, hp⟩ := hNoCred (Or.inr rfl)
  have hpa' : pa = [] := hpa
  have hS' : isSpecialScheme s = false := hS
  have hun' : un = [] := hun
  have hpw' : pw = [] := hpw
  have hp' : p = none := hp
  subst hpa' hun' hpw' hp'
  have hs : schemeOk s = true := hN.scheme
  have hq : qOk (isSpecialScheme s) q = true := hN.query
  have hf : fOk f = true := hN.frag
  have hoo : opaqueOk op (q.isNone && f.isNone) = true := hN.opq rfl
  simp only [opaqueOk, Bool.and_eq_true, List.all_eq_true, bne_iff_ne, ne_eq, Bool.not_eq_true',
    Bool.and_eq_false_iff, beq_eq_false_iff_ne] at hoo
  obtain ⟨⟨hop, hhead⟩, hlast⟩ := hoo
  rw [ser_opaque]
  apply parse_eq idna base s _ _ hs
  · intro c hc
    rcases List.mem_append.1 hc with hc | hc
    · have := opaqueCharOk_facts (hop c hc); omega
    · have := pr_qf hq hf c hc; unfold Pr at this; omega
  · by_cases hqf : qfText q f = []
    · obtain ⟨rfl, rfl⟩ := qfText_eq_nil hqf
      rw [hqf, List.append_nil]
      by_cases hop0 : op = []
      · subst hop0; exact ⟨[], 0x3A, rfl, by decide⟩
      · refine EndsOk.append_left [0x3A] ⟨op.dropLast, op.getLast hop0, (List.dropLast_concat_getLast hop0).symm, ?_⟩
        have h1 := (opaqueCharOk_facts (hop _ (List.getLast_mem hop0))).1
        have h2 : op.getLast hop0 ≠ 0x20 := by
          rcases hlast with h | h
          · simp at h
          · rw [List.getLast?_eq_some_getLast hop0] at h
            simpa using h
        omega
    · have : EndsOk (qfText q f) := EndsOk.of_all hqf (fun c hc => (pr_qf hq hf c hc).1)
      have := this.append_left (0x3A :: op)
      simpa using this
  · rw [urlParse_opaque idna base s _ hs hS']
    · exact opaquePathState_ok s op q f hop hq hf
    · cases op with
      | nil => exact qf_stops_slash q f
      | cons c r =>
        simp only [List.head?_cons, Option.some.injEq] at hhead
        simp [StopsAt, hhead]

/-- null host, list path (with or without the `/.` guard) -/
theorem reparse_list (idna : Idna) (base : Option Url) (s un pw : List Nat) (p : Option Nat)
    (op : List Nat) (pa : List (List Nat)) (q f : Option (List Nat))
    (hN : NormP idna ⟨s, un, pw, none, p, false, op, pa, q, f⟩) :
    parse idna .u8 (serialize ⟨s, un, pw, none, p, false, op, pa, q, f⟩) base =
      some ⟨s, un, pw, none, p, false, op, pa, q, f⟩ := by
  obtain ⟨_, hList, hSp, _, hNoCred, hNoHost⟩ := hN.shape
  obtain ⟨hun, hpw, hp⟩ := hNoCred (Or.inr rfl)
  have hS : isSpecialScheme s = false := by
    cases hS : isSpecialScheme s with
    | false => rfl
    | true => exact absurd rfl (hSp hS).1
  have hop' : op = [] := hList rfl
  have hun' : un = [] := hun
  have hpw' : pw = [] := hpw
  have hp' : p = none := hp
  subst hop' hun' hpw' hp'
  have hpne : pa ≠ [] := hNoHost hS rfl rfl
  have hF : isFileScheme s = false := by
    cases hf : isFileScheme s with
    | false => rfl
    | true => rw [isFile_eq hf] at hS; exact absurd hS (by decide)
  have hs : schemeOk s = true := hN.scheme
  have hsegs : ∀ seg ∈ pa, segOk (isSpecialScheme s) seg = true := hN.segs
  have hq : qOk (isSpecialScheme s) q = true := hN.query
  have hf : fOk f = true := hN.frag
  rw [ser_list]
  have hprT : ∀ c ∈ (if (decide (pa.length > 1) && pa.head? == some []) = true then [0x2F, 0x2E] else []) ++
      (pa.flatMap (fun s => 0x2F :: s) ++ qfText q f), Pr c := by
    intro c hc
    simp only [List.mem_append] at hc
    rcases hc with hc | hc | hc
    · split at hc
      · simp only [List.mem_cons, List.not_mem_nil, or_false] at hc
        rcases hc with rfl | rfl <;> exact ⟨by decide, by decide⟩
      · simp at hc
    · exact pr_path hsegs c hc
    · exact pr_qf hq hf c hc
  apply parse_eq idna base s _ _ hs
  · intro c hc
    exact ⟨Nat.le_of_lt (hprT c hc).1, (hprT c hc).2⟩
  · exact endsOk_of_pr _ hprT
  · cases pa with
    | nil => exact absurd rfl hpne
    | cons seg0 rest =>
      by_cases hpre : (decide ((seg0 :: rest).length > 1) && (seg0 :: rest).head? == some []) = true
      · -- `/.` guard
        simp only [hpre, if_true]
        simp only [List.head?_cons, Bool.and_eq_true, decide_eq_true_eq, beq_iff_eq, Option.some.injEq] at hpre
        obtain ⟨_, rfl⟩ := hpre
        have e : s ++ 0x3A :: ([0x2F, 0x2E] ++ ((([] : List Nat) :: rest).flatMap (fun s => 0x2F :: s) ++ qfText q f)) =
            s ++ 0x3A :: 0x2F :: (0x2E :: (([] : List Nat) :: rest).flatMap (fun s => 0x2F :: s) ++ qfText q f) := by
          simp
        rw [e, urlParse_path idna base s _ hs hS (by simp [StopsAt])]
        exact pathState_dot s [] [] none none rest q f hsegs hF hq hf
      · simp only [hpre, Bool.false_eq_true, if_false, List.nil_append]
        rw [pathTextL_cons, List.cons_append, urlParse_path idna base s _ hs hS]
        · exact pathState_ok s [] [] none none seg0 rest q f hsegs (fun h1 => by simp [hF] at h1) hq hf
        · cases seg0 with
          | cons c r =>
            have := segCharOk_facts ((segOk_parts (hsegs _ List.mem_cons_self)).1 c List.mem_cons_self)
            simpa [joinSegs, StopsAt] using this.2.1
          | nil =>
            cases rest with
            | nil => simpa [joinSegs] using qf_stops_slash q f
            | cons r0 rs => simp at hpre

/-- C02: a URL in normal form is reproduced by serialising and parsing again, whatever the base -/
theorem reparse (idna : Idna) (u : Url) (hN : NormP idna u) (base : Option Url) :
    parse idna .u8 (serialize u) base = some u := by
  obtain ⟨s, un, pw, host, p, b, op, pa, q, f⟩ := u
  obtain ⟨hOp, hList, _, _, _, _⟩ := hN.shape
  cases host with
  | none =>
    cases b with
    | true => exact reparse_opaque idna base s un pw p op pa q f hN
    | false => exact reparse_list idna base s un pw p op pa q f hN
  | some h =>
    cases b with
    | true => exact absurd (hOp rfl).1 (by simp)
    | false =>
      have hop : op = [] := hList rfl
      subst hop
      cases hF : isFileScheme s with
      | true => exact reparse_file idna base s un pw h p pa q f hN hF
      | false => exact reparse_host idna base s un pw h p pa q f hN hF

/-! ### what the two file-only clauses exclude -/

theorem hostFileOk_false_iff (t : List Nat) : hostFileOk t = false ↔
    (t = asciiStr "localhost" ∨ ∃ a b, t = [a, b] ∧ isAlpha a = true ∧ (b = 0x3A ∨ b = 0x7C)) := by
  have hl : sLocalhost = asciiStr "localhost" := rfl
  rw [← hl]
  unfold hostFileOk
  rcases t with _ | ⟨a, _ | ⟨b, _ | ⟨c, r⟩⟩⟩
  · simp
  · simp
  · have hne : [a, b] ≠ sLocalhost := by
      intro h
      have := congrArg List.length h
      simp [sLocalhost, asciiStr] at this
    have hbne : ([a, b] != sLocalhost) = true := by simpa using hne
    simp only [hbne, Bool.true_and, Bool.not_eq_eq_eq_not, Bool.not_false, isWindowsDrive,
      Bool.and_eq_true, Bool.or_eq_true, beq_iff_eq]
    constructor
    · rintro ⟨h1, h2⟩; exact Or.inr ⟨a, b, rfl, h1, h2⟩
    · rintro (h | ⟨a', b', h, h1, h2⟩)
      · exact absurd h hne
      · simp only [List.cons.injEq, and_true] at h
        obtain ⟨rfl, rfl⟩ := h
        exact ⟨h1, h2⟩
  · simp

theorem driveOk_false_iff (path : List (List Nat)) : driveOk path = false ↔
    ∃ a rest, path = [a, 0x7C] :: rest ∧ isAlpha a = true := by
  unfold driveOk
  split
  · next a b rest =>
    simp only [Bool.not_eq_eq_eq_not, Bool.not_false, Bool.and_eq_true, beq_iff_eq, List.cons.injEq]
    constructor
    · rintro ⟨h1, rfl⟩; exact ⟨a, rest, by simp, h1⟩
    · rintro ⟨a', rest', h, h1⟩
      simp only [and_true] at h
      obtain ⟨⟨rfl, rfl⟩, _⟩ := h
      exact ⟨h1, rfl⟩
  · next hne =>
    simp only [Bool.true_eq_false, false_iff]
    rintro ⟨a, rest, rfl, _⟩
    exact hne a 0x7C rest rfl

end Upa.Proofs.C02
