import Upa.Proofs.BoundsUrlVerdictChain
namespace Upa.Impl.B
open UP Upa.Proofs.C10b

/-! ### list lemmas about `hostScan` -/

theorem hostScan_append_nonascii (s r : List Nat) (inBr : Bool) (hs : ∀ x ∈ s, ¬ x < 0x80) :
    hostScan (s ++ r) inBr = (s ++ (hostScan r inBr).1, (hostScan r inBr).2) := by
  induction s with
  | nil => rfl
  | cons x s ih =>
    have hx := hs x (List.mem_cons_self ..)
    have ih' := ih (fun y hy => hs y (List.mem_cons_of_mem _ hy))
    have e1 : x ≠ 0x3A := by omega
    have e2 : x ≠ 0x5B := by omega
    have e3 : x ≠ 0x5D := by omega
    simp only [List.cons_append, hostScan, if_neg e1, if_neg e2, if_neg e3, ih']

theorem hostScan_nonascii (s : List Nat) (inBr : Bool) (hs : ∀ x ∈ s, ¬ x < 0x80) :
    hostScan s inBr = (s, none) := by
  have := hostScan_append_nonascii s [] inBr hs
  simpa [hostScan] using this

theorem hostScan_cons_colon (r : List Nat) : hostScan (0x3A :: r) false = ([], some r) := by
  simp [hostScan]

theorem hostScan_cons_go (x : Nat) (r : List Nat) (inBr : Bool) (h : ¬ (x = 0x3A ∧ inBr = false)) :
    hostScan (x :: r) inBr =
      (x :: (hostScan r (if x = 0x3A then inBr else if x = 0x5B then true else if x = 0x5D then false else inBr)).1,
       (hostScan r (if x = 0x3A then inBr else if x = 0x5B then true else if x = 0x5D then false else inBr)).2) := by
  by_cases e1 : x = 0x3A
  · have hb : inBr = true := by cases inBr <;> simp_all
    subst hb
    simp [hostScan, e1]
  · by_cases e2 : x = 0x5B
    · simp [hostScan, e2]
    · by_cases e3 : x = 0x5D
      · simp [hostScan, e3]
      · simp [hostScan, e1, e2, e3]

/-! ### the host loop -/

/-- the loop body of `bHost` -/
def hostStep (a : Array Nat) (first last eoa : Nat) (s : Nat × Bool) : R ((Nat × Bool) ⊕ (Nat × Bool)) :=
  if s.1 < eoa then do
    let ch ← rd a first last s.1
    if ch = 0x3A ∧ s.2 = false then pure (.inr (s.1, true))
    else do
      let inBr := if ch = 0x3A then s.2 else if ch = 0x5B then true else if ch = 0x5D then false else s.2
      let it' ← mkptr first last (s.1 + 1)
      pure (.inl (it', inBr))
  else pure (.inr (s.1, false))

theorem hostLoop (e : Enc) (a : Array Nat) (hu : UOk e a.toList) (first last eoa : Nat) (hl : last ≤ a.size)
    (he : eoa ≤ last) :
    ∀ fuel it0 it inBr, first ≤ it0 → it0 ≤ it → it ≤ eoa → (∀ i, it0 ≤ i → i < it → ¬ a[i]! < 0x80) →
      eoa - it < fuel →
      (iter (hostStep a first last eoa) fuel (it, inBr)).sat (fun r =>
        it ≤ r.1 ∧ r.1 ≤ eoa ∧ (r.2 = true → r.1 < eoa ∧ a[r.1]! = 0x3A) ∧ (r.2 = false → r.1 = eoa) ∧
        hostScan (Dl e a it0 eoa) inBr =
          (Dl e a it0 r.1, if r.2 then some (Dl e a (r.1 + 1) eoa) else none)) := by
  intro fuel
  induction fuel with
  | zero => intro it0 it inBr _ _ _ _ hf; omega
  | succ fuel ih =>
    intro it0 it inBr h0 h1 h2 hna hf
    have hpre : ∀ x ∈ Dl e a it0 it, ¬ x < 0x80 := by
      intro x hx hlt
      obtain ⟨i, i1, i2, i3⟩ := Dl_mem_ascii e a hu it0 it x (by omega) hx hlt
      exact hna i i1 i2 (by omega)
    by_cases hlt : it < eoa
    · by_cases hc : a[it]! < 0x80
      · -- an ASCII unit: one step of `hostScan`
        have hsplit : Dl e a it0 eoa = Dl e a it0 it ++ a[it]! :: Dl e a (it + 1) eoa := by
          rw [Dl_split e a it0 it eoa h1 h2 (by omega) (Or.inr hc), Dl_cons_ascii e a it eoa hlt (by omega) hc]
        by_cases hcol : a[it]! = 0x3A ∧ inBr = false
        · have hst : hostStep a first last eoa (it, inBr) = .ok (.inr (it, true)) := by
            unfold hostStep
            simp only [if_pos hlt]
            upsimp
            rw [if_pos hcol]; rfl
          simp only [iter, hst]
          refine R.sat_ok ⟨Nat.le_refl _, by omega, fun _ => ⟨hlt, hcol.1⟩, by simp, ?_⟩
          simp only []
          rw [hsplit, hostScan_append_nonascii _ _ _ hpre, hcol.1, hcol.2, hostScan_cons_colon]
          simp
        · have hst : hostStep a first last eoa (it, inBr) = .ok (.inl (it + 1,
              if a[it]! = 0x3A then inBr else if a[it]! = 0x5B then true else if a[it]! = 0x5D then false else inBr)) := by
            unfold hostStep
            simp only [if_pos hlt]
            upsimp
            rw [if_neg hcol]
            upsimp
            rfl
          simp only [iter, hst]
          refine R.sat_mono (ih (it + 1) (it + 1) _ (by omega) (Nat.le_refl _) (by omega)
            (by intro i i1 i2; omega) (by omega)) ?_
          intro r ⟨r1, r2, r3, r4, r5⟩
          refine ⟨by omega, r2, r3, r4, ?_⟩
          rw [hsplit, hostScan_append_nonascii _ _ _ hpre, hostScan_cons_go _ _ _ hcol, r5]
          simp only []
          rw [Dl_split e a it0 it r.1 h1 (by omega) (by omega) (Or.inr hc),
            Dl_cons_ascii e a it r.1 (by omega) (by omega) hc]
      · -- a non-ASCII unit: the loop goes on, the decoded value is not complete yet
        have e1 : a[it]! ≠ 0x3A := by omega
        have e2 : a[it]! ≠ 0x5B := by omega
        have e3 : a[it]! ≠ 0x5D := by omega
        have hst : hostStep a first last eoa (it, inBr) = .ok (.inl (it + 1, inBr)) := by
          unfold hostStep
          simp only [if_pos hlt]
          upsimp
          rw [if_neg (fun h => e1 h.1)]
          upsimp
          simp only [if_neg e1, if_neg e2, if_neg e3]
          rfl
        simp only [iter, hst]
        refine R.sat_mono (ih it0 (it + 1) inBr h0 (by omega) (by omega) ?_ (by omega)) ?_
        · intro i i1 i2
          by_cases hi : i = it
          · subst hi; exact hc
          · exact hna i i1 (by omega)
        · intro r ⟨r1, r2, r3, r4, r5⟩
          exact ⟨by omega, r2, r3, r4, r5⟩
    · have hie : it = eoa := by omega
      subst hie
      have hst : hostStep a first last it (it, inBr) = .ok (.inr (it, false)) := by
        unfold hostStep
        simp only [if_neg hlt]; rfl
      simp only [iter, hst]
      refine R.sat_ok ⟨Nat.le_refl _, Nat.le_refl _, by simp, fun _ => rfl, ?_⟩
      simp only []
      rw [hostScan_nonascii _ _ hpre]
      simp

/-! ### end of authority -/

theorem endOfAuthorityB_spec (c : Ctx) (W : c.Wf) (p : Nat) (sp : Bool) (h1 : c.first ≤ p) (h2 : p ≤ c.last) :
    (endOfAuthorityB c.a c.first c.last p sp).sat (fun eoa => p ≤ eoa ∧ eoa ≤ c.last ∧
      (eoa = c.last ∨ c.a[eoa]! < 0x80) ∧
      (c.D p).takeWhile (fun x => !(if sp = true then isSpecialAuthorityEnd else isAuthorityEnd) x) = Dl c.e c.a p eoa ∧
      (c.D p).dropWhile (fun x => !(if sp = true then isSpecialAuthorityEnd else isAuthorityEnd) x) = c.D eoa) := by
  unfold endOfAuthorityB
  upsimp
  refine R.sat_mono (findIf_specV c.a c.first c.last _ W.hl (c.last - p) p h1 (by omega)) ?_
  intro q ⟨q1, q2, q3, q4⟩
  have hasc : ∀ x, (!(if sp = true then isSpecialAuthorityEnd else isAuthorityEnd) x) = false → x < 0x80 := by
    intro x hx
    cases sp <;> simp [isSpecialAuthorityEnd, isAuthorityEnd] at hx <;> omega
  have hq : q = c.last ∨ (!(if sp = true then isSpecialAuthorityEnd else isAuthorityEnd) c.a[q]!) = false := by
    by_cases hql : q = c.last
    · exact Or.inl hql
    · right; rw [q4 (by omega)]; rfl
  have := Dl_scan_delim c.e c.a W.hu (fun x => !(if sp = true then isSpecialAuthorityEnd else isAuthorityEnd) x)
    hasc p q c.last q1 (by omega) W.hl (by intro i i1 i2; simp only [q3 i i1 i2]; rfl) hq
  refine ⟨q1, by omega, ?_, this.1, this.2⟩
  rcases hq with h | h
  · exact Or.inl h
  · exact Or.inr (hasc _ h)

/-! ### the list model, given the scans -/

theorem hostState_eq (idna : Idna) (ov : Option Override) (u : Url) (p auth afterAuth hp : List Nat)
    (pp : Option (List Nat)) (hf : (ov.isSome && u.isFile) = false)
    (ha : p.takeWhile (fun x => !(if u.isSpecial = true then isSpecialAuthorityEnd else isAuthorityEnd) x) = auth)
    (hb : p.dropWhile (fun x => !(if u.isSpecial = true then isSpecialAuthorityEnd else isAuthorityEnd) x) = afterAuth)
    (hsc : hostScan auth false = (hp, pp)) :
    hostState idna ov u p =
      if hp = [] && (pp.isSome || u.isSpecial) then ⟨.failure, u⟩
      else if hp = [] && ov.isSome && (u.hasCredentials || u.port.isSome) then ⟨.ignored, u⟩
      else if pp.isSome && ov = some .hostname then ⟨.ignored, u⟩
      else
        match parseHost idna hp (!u.isSpecial) with
        | none => ⟨.failure, u⟩
        | some h =>
          match (generalizing := false) pp with
          | some pp => portState ov { u with host := some h } (pp ++ afterAuth)
          | none => if ov.isSome then ⟨.ok, { u with host := some h }⟩
                    else pathStartState ov { u with host := some h } afterAuth := by
  unfold hostState
  simp only [hf, Bool.false_eq_true, if_false, ha, hb, hsc]
  cases pp <;> rfl

theorem Ctx.orc_hostOk (c : Ctx) (opq : Bool) (p q : Nat) :
    c.orc.hostOk opq p q = (parseHost c.idna (Dl c.e c.a p q) opq).isSome := rfl

theorem sim_host (c : Ctx) (W : c.Wf)
    (hport : ∀ (m' : M) (u' : Url), Inv c m' u' → m'.state = .port →
      kPort c m' = .ok (vd (portState c.ov u' (c.D m'.pointer))))
    (hfh : ∀ (m' : M) (u' : Url), Inv c m' u' → m'.state = .fileHost →
      kFileHost c m' = .ok (vd (fileHostState c.idna c.ov u' (c.D m'.pointer))))
    (m : M) (u : Url) (hI : Inv c m u) (hs : m.state = .host ∨ m.state = .hostname)
    (hov : c.ov.isSome = true → u = c.u0) :
    kHost c m = .ok (vd (hostState c.idna c.ov u (c.D m.pointer))) := by
  obtain ⟨st, p, sp, fl⟩ := m
  obtain ⟨hb, h3, h4⟩ := hI
  obtain ⟨h1, h2⟩ := hb
  simp only [] at h1 h2 h3 h4 hs ⊢
  have hl := W.hl
  refine stepB_ok (by rcases hs with rfl | rfl <;> rfl) ?_
  unfold bHost
  simp only []
  by_cases hfile : c.ov.isSome = true ∧ fl = true
  · rw [if_pos hfile]
    refine R.sat_pure ?_
    simp only []
    kskip
    have hh : hostState c.idna c.ov u (c.D p) = fileHostState c.idna c.ov u (c.D p) := by
      unfold hostState
      rw [if_pos (by rw [← h4]; simp [hfile.1, hfile.2])]
    rw [hh]
    exact hfh _ u ⟨⟨h1, h2⟩, h3, h4⟩ rfl
  · rw [if_neg hfile]
    have hf' : (c.ov.isSome && u.isFile) = false := by
      rw [← h4]
      cases h : c.ov.isSome <;> cases h' : fl <;> simp_all
    refine R.sat_bind (endOfAuthorityB_spec c W p sp h1 h2) ?_
    intro eoa ⟨a1, a2, a3, a4, a5⟩
    refine R.sat_bind (hostLoop c.e c.a W.hu c.first c.last eoa hl a2 c.fuel p p false h1 (Nat.le_refl _) a1
      (by intro i i1 i2; omega) (by have := W.hf; omega)) ?_
    intro ⟨q, isPort⟩ ⟨r1, r2, r3, r4, r5⟩
    simp only [] at r1 r2 r3 r4 r5 ⊢
    subst h3
    rw [hostState_eq c.idna c.ov u (c.D p) _ _ _ _ hf' a4 a5 r5]
    have hnil : Dl c.e c.a p q = [] ↔ p = q := Dl_eq_nil_iff c.e c.a p q r1 (by omega)
    have hps : (if isPort = true then some (Dl c.e c.a (q + 1) eoa) else none).isSome = isPort := by
      cases isPort <;> rfl
    have hc1 : (p = q ∧ (isPort = true ∨ u.isSpecial = true)) ↔
        (decide (Dl c.e c.a p q = []) &&
          ((if isPort = true then some (Dl c.e c.a (q + 1) eoa) else none).isSome || u.isSpecial)) = true := by
      simp only [hps, Bool.and_eq_true, Bool.or_eq_true, decide_eq_true_eq, hnil]
    have hc2 : (p = q ∧ c.ov.isSome = true ∧ (c.ui.hasCredentials = true ∨ c.ui.portNull = false)) ↔
        (decide (Dl c.e c.a p q = []) && c.ov.isSome && (u.hasCredentials || u.port.isSome)) = true := by
      simp only [Bool.and_eq_true, Bool.or_eq_true, decide_eq_true_eq, hnil]
      constructor
      · intro ⟨x1, x2, x3⟩
        have := hov x2
        subst this
        refine ⟨⟨x1, x2⟩, ?_⟩
        rcases x3 with x3 | x3
        · exact Or.inl x3
        · right
          have : c.u0.port.isNone = false := x3
          cases hp : c.u0.port <;> simp_all
      · intro ⟨⟨x1, x2⟩, x3⟩
        have := hov x2
        subst this
        refine ⟨x1, x2, ?_⟩
        rcases x3 with x3 | x3
        · exact Or.inl x3
        · right
          show c.u0.port.isNone = false
          cases hp : c.u0.port <;> simp_all
    have hc3 : (isPort = true ∧ c.ov = some Override.hostname) ↔
        ((if isPort = true then some (Dl c.e c.a (q + 1) eoa) else none).isSome &&
          decide (c.ov = some Override.hostname)) = true := by
      simp only [hps, Bool.and_eq_true, decide_eq_true_eq]
    by_cases c1 : p = q ∧ (isPort = true ∨ u.isSpecial = true)
    · rw [if_pos c1, if_pos (hc1.1 c1)]; exact R.sat_pure rfl
    · rw [if_neg c1, if_neg (fun h => c1 (hc1.2 h))]
      by_cases c2 : p = q ∧ c.ov.isSome = true ∧ (c.ui.hasCredentials = true ∨ c.ui.portNull = false)
      · rw [if_pos c2, if_pos (hc2.1 c2)]; exact R.sat_pure rfl
      · rw [if_neg c2, if_neg (fun h => c2 (hc2.2 h))]
        by_cases c3 : isPort = true ∧ c.ov = some Override.hostname
        · rw [if_pos c3, if_pos (hc3.1 c3)]; exact R.sat_pure rfl
        · rw [if_neg c3, if_neg (fun h => c3 (hc3.2 h))]
          upsimp
          rw [Ctx.orc_hostOk]
          cases hph : parseHost c.idna (Dl c.e c.a p q) (!u.isSpecial) with
          | none =>
            simp only [Option.isSome_none, Bool.not_false, if_true]
            exact R.sat_pure rfl
          | some h =>
            simp only [Option.isSome_some, Bool.not_true, Bool.false_eq_true, if_false]
            cases isPort with
            | true =>
              obtain ⟨r3a, r3b⟩ := r3 rfl
              simp only [if_true]
              upsimp
              refine R.sat_pure ?_
              simp only []
              have : Dl c.e c.a (q + 1) eoa ++ c.D eoa = c.D (q + 1) :=
                (Dl_split c.e c.a (q + 1) eoa c.last (by omega) a2 hl a3).symm
              rw [this]
              exact hport _ _ ⟨⟨by simp only []; omega, by simp only []; omega⟩, rfl, h4⟩ rfl
            | false =>
              have hq := r4 rfl
              simp only [Bool.false_eq_true, if_false]
              by_cases hovs : c.ov.isSome = true
              · rw [if_pos hovs, if_pos hovs]; exact R.sat_pure rfl
              · rw [if_neg hovs, if_neg hovs]
                refine R.sat_pure ?_
                simp only []
                kskip
                rw [vd_pathStartState]
                exact pathStart_ok c W _ ⟨by simp only []; omega, by simp only []; omega⟩ rfl

end Upa.Impl.B
