import Upa.Proofs.ParseRepSim
/-
  Helpers for C05e, part 3: the head of the parser (scheme, file states, authority slashes) without a
  base URL, and the assembled simulation for `parseRep … none`.
-/
set_option linter.unusedSimpArgs false
set_option linter.unusedVariables false

namespace Upa.Proofs.ParseRep
open Upa Upa.Impl Upa.Proofs.C05 Upa.Proofs.SetRep Upa.Proofs.SetRepApi Upa.Props

theorem SchInv.pathInv {s : Ser} {u : Url} (h : SchInv s u) (ho : u.hasOpaquePath = false) : PathInv s u := by
  have hp : u.path = [] := ptext_eq_nil (by rw [← pathText_ptext ho]; exact h.path)
  refine ⟨ho, h.wf, ?_, h.query, h.frag, Or.inl ⟨hp, Or.inl h⟩⟩
  rw [hp]; intro x hx; simp at hx

/-- `set_empty_host()` right after the scheme (file_state) -/
theorem schInv_setEmptyHost {s : Ser} {u : Url} (h : SchInv s u) (ho : u.hasOpaquePath = false) :
    FileInv s.setEmptyHost { u with host := some emptyHost } emptyHost := by
  have hp : u.path = [] := ptext_eq_nil (by rw [← pathText_ptext ho]; exact h.path)
  refine ⟨h.sch, rfl, h.user, h.pass, h.port, ho, hp, h.query, h.frag, ?_⟩
  have hw := writePart_scheme (layout u) u.scheme HOST [] (by simp [HOST]) (by simp [HOST])
  rw [← h.eq] at hw
  rw [setEmptyHost_of_writePart hw]
  simp only [sepFor, delim, HOST, PORT, QUERY, FRAGMENT, emptyHost]
  simp only [Nat.le_refl, if_true, List.replicate, List.cons_append, List.nil_append, Nat.reduceSub,
    Nat.reduceEqDiff, if_false, List.append_nil]
  exact congrArg (fun r => (⟨r, 5⟩ : Ser)) (mkRep_congr rfl rfl rfl rfl rfl rfl rfl rfl rfl)

theorem sim_fileSlash_nobase (idna : Idna) {s : Ser} {u : Url} {h0 : Host} (h : FileInv s u h0)
    (h0e : h0.text = []) (p : List Nat) :
    Agree (fileSlashStateSer idna none s p) (fileSlashState idna none none u p) := by
  unfold fileSlashStateSer fileSlashState fileSlashStateSer.fileSlashDefault fileSlashState.fileSlashDefault
  cases p with
  | nil => exact sim_pathState h.hostPre.1.pathInv _
  | cons c r =>
    simp only
    split
    · exact sim_fileHost idna h h0e _
    · exact sim_pathState h.hostPre.1.pathInv _

theorem sim_file_nobase (idna : Idna) {s : Ser} {u : Url} (h : SchInv s u) (ho : u.hasOpaquePath = false)
    (hfile : u.isFile = true) (p : List Nat) :
    Agree (fileStateSer idna none s p) (fileState idna none none u p) := by
  unfold fileStateSer fileState fileStateSer.fileDefault fileState.fileDefault
  simp only [h.file, hfile, Bool.not_true, Bool.false_eq_true, if_false]
  have h1 := schInv_setEmptyHost h ho
  cases p with
  | nil => exact sim_pathState h1.hostPre.1.pathInv _
  | cons c r =>
    simp only
    split
    · exact sim_fileSlash_nobase idna h1 rfl _
    · exact sim_pathState h1.hostPre.1.pathInv _

theorem sim_pathOrAuthority (idna : Idna) {s : Ser} {u : Url} (h : SchInv s u) (ho : u.hasOpaquePath = false)
    (p : List Nat) : Agree (pathOrAuthorityStateSer idna s p) (pathOrAuthorityState idna none u p) := by
  unfold pathOrAuthorityStateSer pathOrAuthorityState
  split
  · exact sim_authority idna h ho _
  · split
    · exfalso; simp_all
    · exact sim_pathState (h.pathInv ho) _

/-! ### scheme_state -/

/-- the state after `start_scheme` … `save_scheme` on a fresh url -/
theorem writeScheme_new (sch : List Nat) (hs : sch ≠ []) :
    SchInv (Ser.new.writeScheme sch) { scheme := sch } := by
  refine ⟨hs, rfl, ?_, rfl, rfl, rfl, rfl, rfl, rfl, rfl⟩
  have hv : ({ Rep.cleared with norm := sch, partEnd := Rep.cleared.partEnd.set SCHEME sch.length } : Rep).partView
      SCHEME = sch := by
    simp [Rep.partView, SCHEME, Rep.pe, Rep.cleared, slice]
  simp only [Ser.writeScheme, Ser.new, hv]
  simp [schemeRep, layout, Rep.cleared, SCHEME, needsPathPrefix, pathText]

/-- the "is it a scheme" test of the scheme state (url.h:1696-1699) without state override -/
def restIsColon (rest : List Nat) : Bool :=
  match rest with
  | c :: _ => c == 0x3A
  | [] => false

theorem sim_scheme_nobase (idna : Idna) (p : List Nat) :
    Agree (schemeStateSer idna none Ser.new p) (schemeState idna none none {} p) := by
  unfold schemeStateSer schemeState
  cases p with
  | nil => simp [Agree]
  | cons c0 r0 =>
    dsimp only
    show Agree (if restIsColon (r0.dropWhile isSchemeChar) = true then _ else _)
      (if restIsColon (r0.dropWhile isSchemeChar) = true then _ else _)
    by_cases hc : restIsColon (r0.dropWhile isSchemeChar) = true
    · rw [if_pos hc, if_pos hc]
      simp only [Option.isSome_none, Bool.false_eq_true, if_false]
      generalize hsch : (c0 :: r0.takeWhile isSchemeChar).map (· ||| 0x20) = sch
      have hne : sch ≠ [] := by rw [← hsch]; simp
      have h := writeScheme_new sch hne
      have hsp := h.special
      have hfi := h.file
      rw [hfi, hsp]
      generalize List.drop 1 (List.dropWhile isSchemeChar r0) = q
      by_cases hf : Url.isFile { scheme := sch } = true
      · rw [if_pos hf, if_pos hf]
        exact sim_file_nobase idna h rfl hf _
      · rw [if_neg hf, if_neg hf]
        by_cases hs : Url.isSpecial { scheme := sch } = true
        · rw [if_pos hs, if_pos hs]
          exact sim_specialAuthoritySlashes idna h rfl _
        · rw [if_neg hs, if_neg hs]
          split
          · exact sim_pathOrAuthority idna h rfl _
          · split
            · exfalso; simp_all
            · apply sim_opaquePath _ rfl rfl
              exact ⟨hne, h.last, by rw [Ser.setHasOpaquePath, h.rep]; rfl, rfl, rfl, rfl, rfl, rfl, rfl, rfl⟩
    · rw [if_neg hc, if_neg hc]
      simp [Agree, noSchemeStateSer, noSchemeState]

theorem sim_urlParse_nobase (idna : Idna) (p : List Nat) :
    Agree (urlParseSer idna none Ser.new p) (urlParse idna none none {} p) := by
  unfold urlParseSer urlParse
  cases p with
  | nil => simp [Agree, noSchemeStateSer, noSchemeState]
  | cons c r =>
    simp only
    split
    · exact sim_scheme_nobase idna _
    · simp [Agree, noSchemeStateSer, noSchemeState]

end Upa.Proofs.ParseRep
