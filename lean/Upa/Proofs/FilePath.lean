import Upa.Proofs.Percent
import Upa.Proofs.Host
import Upa.Impl.FilePath
/-
  Helper lemmas for C17 — url_from_file_path / path_from_file_url (include/upa/url.h:3020-3330;
  model: Upa/Impl/FilePath.lean).
-/
namespace Upa.Proofs.C17
open Upa.Proofs.C14

/-! ### splitOnP -/

theorem splitOnP_ne_nil (p : Nat → Bool) (s : List Nat) : splitOnP p s ≠ [] := by
  induction s with
  | nil => simp [splitOnP]
  | cons c cs ih =>
    unfold splitOnP
    split
    · simp
    · split <;> simp

theorem splitOnP_nil (p : Nat → Bool) : splitOnP p [] = [[]] := rfl

theorem splitOnP_cons_sep (p : Nat → Bool) (c : Nat) (cs : List Nat) (h : p c = true) :
    splitOnP p (c :: cs) = [] :: splitOnP p cs := by
  simp [splitOnP, h]

theorem splitOnP_cons_other (p : Nat → Bool) (c : Nat) (cs : List Nat) (h : p c = false) :
    splitOnP p (c :: cs) = (c :: (splitOnP p cs).headD []) :: (splitOnP p cs).tail := by
  have hne := splitOnP_ne_nil p cs
  rw [splitOnP]
  simp only [h, Bool.false_eq_true, if_false]
  cases hs : splitOnP p cs with
  | nil => exact absurd hs hne
  | cons a t => simp

/-- the first piece and the remaining pieces -/
theorem splitOnP_head (p : Nat → Bool) (s : List Nat) :
    (splitOnP p s).headD [] = s.takeWhile (fun c => !p c) := by
  induction s with
  | nil => rfl
  | cons c cs ih =>
    cases h : p c with
    | true => simp [splitOnP_cons_sep p c cs h, List.takeWhile, h]
    | false =>
      simp only [List.headD_eq_head?_getD] at ih
      simp [splitOnP_cons_other p c cs h, List.takeWhile, h, ih]

theorem splitOnP_tail (p : Nat → Bool) (s : List Nat) :
    (splitOnP p s).tail =
      (match s.dropWhile (fun c => !p c) with | [] => [] | _ :: r => splitOnP p r) := by
  induction s with
  | nil => rfl
  | cons c cs ih =>
    cases h : p c with
    | true => simp [splitOnP_cons_sep p c cs h, List.dropWhile, h]
    | false => simp [splitOnP_cons_other p c cs h, List.dropWhile, h, ih]

theorem splitOnP_eq (p : Nat → Bool) (s : List Nat) :
    splitOnP p s = s.takeWhile (fun c => !p c) ::
      (match s.dropWhile (fun c => !p c) with | [] => [] | _ :: r => splitOnP p r) := by
  rw [← splitOnP_head, ← splitOnP_tail]
  cases h : splitOnP p s with
  | nil => exact absurd h (splitOnP_ne_nil p s)
  | cons a t => simp

/-! ### 1. has_dot_dot_segment -/

/-- `prev` is a segment boundary: start of the string or a separator -/
def atBoundary (isSl : Nat → Bool) : Option Nat → Bool
  | none => true
  | some p => isSl p

def dd : List Nat := [0x2E, 0x2E]

theorem atBoundary_some (isSl : Nat → Bool) (p : Nat) : atBoundary isSl (some p) = isSl p := rfl

theorem hasDotDot_gen (isSl : Nat → Bool) (hdot : isSl 0x2E = false) (prev : Option Nat) (s : List Nat) :
    Impl.hasDotDotSegment isSl prev s = true ↔
      (if atBoundary isSl prev then dd ∈ splitOnP isSl s else dd ∈ (splitOnP isSl s).tail) := by
  fun_induction Impl.hasDotDotSegment isSl prev s with
  | case1 prev => simp [splitOnP, dd]
  | case2 prev x =>
    cases hx : isSl x <;> simp [splitOnP, hx, dd]
  | case3 prev d r2 hcond =>
    simp only [Bool.and_eq_true] at hcond
    obtain ⟨⟨hd, hb⟩, hn⟩ := hcond
    have hd : d = 0x2E := by simpa using hd
    subst hd
    have hB : atBoundary isSl prev = true := by
      cases prev with
      | none => rfl
      | some p => simpa [atBoundary] using hb
    simp only [hB, if_true, true_iff]
    rw [splitOnP_eq]
    apply List.mem_cons.2; left
    cases r2 with
    | nil => simp [List.takeWhile, hdot, dd]
    | cons x r => simp [List.takeWhile, hdot, dd, show isSl x = true from hn]
  | case4 prev d r2 hcond ih =>
    rw [ih]
    have hcond' : d = 0x2E → atBoundary isSl prev = true → (splitOnP isSl r2).headD [] ≠ [] := by
      intro hd hb hnil
      apply hcond
      rw [splitOnP_head] at hnil
      cases prev <;> cases r2 <;> simp_all [atBoundary, List.takeWhile] <;> (split at hnil <;> simp_all)
    cases hd : isSl d with
    | true =>
      rw [splitOnP_cons_other _ _ _ hdot, splitOnP_cons_sep _ _ _ hd]
      simp [atBoundary, hd, dd]
    | false =>
      rw [splitOnP_cons_other _ _ _ hdot, splitOnP_cons_other _ _ _ hd]
      simp only [atBoundary_some, hd, Bool.false_eq_true, if_false, List.headD_cons, List.tail_cons]
      cases hb : atBoundary isSl prev with
      | false => simp
      | true =>
        simp only [if_true, List.mem_cons]
        constructor
        · exact Or.inr
        · rintro (h | h)
          · exfalso
            simp only [dd, List.cons.injEq] at h
            exact hcond' h.2.1.symm hb h.2.2.symm
          · exact h
  | case5 prev c d r2 hc ih =>
    rw [ih]
    cases hsl : isSl c with
    | true =>
      rw [splitOnP_cons_sep _ _ _ hsl]
      simp [atBoundary, hsl, dd]
    | false =>
      rw [splitOnP_cons_other _ _ _ hsl]
      simp only [atBoundary_some, hsl, Bool.false_eq_true, if_false, List.tail_cons]
      cases hb : atBoundary isSl prev with
      | false => simp
      | true =>
        simp only [if_true, List.mem_cons]
        constructor
        · exact Or.inr
        · rintro (h | h)
          · simp only [dd, List.cons.injEq] at h
            exact absurd h.1.symm hc
          · exact h

/-! ### takeWhile / dropWhile -/

theorem mem_takeWhile (p : Nat → Bool) (s : List Nat) : ∀ c ∈ s.takeWhile p, p c = true := by
  induction s with
  | nil => simp
  | cons a s ih =>
    intro c hc
    by_cases ha : p a = true
    · rw [List.takeWhile_cons_of_pos ha] at hc
      cases hc with
      | head => exact ha
      | tail _ h => exact ih c h
    · rw [List.takeWhile_cons_of_neg ha] at hc
      simp at hc

theorem dropWhile_head (p : Nat → Bool) (s : List Nat) (x : Nat) (r : List Nat)
    (h : s.dropWhile p = x :: r) : p x = false := by
  induction s with
  | nil => simp at h
  | cons a s ih =>
    by_cases ha : p a = true
    · rw [List.dropWhile_cons_of_pos ha] at h; exact ih h
    · rw [List.dropWhile_cons_of_neg ha] at h
      simp only [List.cons.injEq] at h
      rw [← h.1]; simpa using ha

theorem takeWhile_all (p : Nat → Bool) (s : List Nat) (h : ∀ c ∈ s, p c = true) : s.takeWhile p = s := by
  induction s with
  | nil => rfl
  | cons a s ih =>
    rw [List.takeWhile_cons_of_pos (h a (by simp)), ih (fun c hc => h c (by simp [hc]))]

theorem dropWhile_all (p : Nat → Bool) (s : List Nat) (h : ∀ c ∈ s, p c = true) : s.dropWhile p = [] := by
  induction s with
  | nil => rfl
  | cons a s ih =>
    rw [List.dropWhile_cons_of_pos (h a (by simp)), ih (fun c hc => h c (by simp [hc]))]

theorem dropWhile_none (p : Nat → Bool) (s : List Nat) (h : ∀ c ∈ s, p c = false) : s.dropWhile p = s := by
  cases s with
  | nil => rfl
  | cons a s => rw [List.dropWhile_cons_of_neg (by simp [h a (by simp)])]

/-! ### 2. is_unc_path -/

def notWinSlash (c : Nat) : Bool := !Impl.isWindowsSlash c

theorem winSlash_ne_zero (c : Nat) (h : notWinSlash c = false) : c ≠ 0 := by
  intro hc; subst hc; simp [notWinSlash, Impl.isWindowsSlash] at h

theorem not_any_zero (l : List Nat) (h : ¬ (l.any (· == 0)) = true) : 0 ∉ l := by
  intro hm; apply h; simp [hm]

theorem unc_ge2 (fuel : Nat) (s : List Nat) (n : Nat) (share : Option (List Nat)) (r : List Nat) :
    2 ≤ n → Impl.isUncPathAux fuel s n share = some r → share = some r ∧ 0 ∉ s := by
  fun_induction Impl.isUncPathAux fuel s n share with
  | case1 => intro _ h; simp at h
  | case2 => intro _ h; exact ⟨h, by simp⟩
  | case3 => intro _ h; simp at h
  | case4 => intro _ h; simp at h
  | case5 => intro _ h; simp at h
  | case6 fuel s n share hs comp rest h1 h2 n' bad h3 share' hrest =>
    intro hn h
    have hn' : ¬ (n' = 2) := by simp only [n']; omega
    have e : share' = share := by simp only [share', hn', if_false]
    rw [e] at h
    refine ⟨h, ?_⟩
    have hs' : comp ++ rest = s := List.takeWhile_append_dropWhile
    rw [hrest, List.append_nil] at hs'
    rw [← hs']
    exact not_any_zero _ h2
  | case7 fuel s n share hs comp rest h1 h2 n' bad h3 share' x r' hrest ih =>
    intro hn h
    have hn' : ¬ (n' = 2) := by simp only [n']; omega
    have e : share' = share := by simp only [share', hn', if_false]
    have hn2 : 2 ≤ n' := by simp only [n']; omega
    obtain ⟨ih1, ih2⟩ := ih hn2 h
    rw [e] at ih1
    refine ⟨ih1, ?_⟩
    have hs' : comp ++ rest = s := List.takeWhile_append_dropWhile
    rw [← hs', hrest]
    have hx : notWinSlash x = false := dropWhile_head _ _ _ _ hrest
    have := winSlash_ne_zero x hx
    have := not_any_zero _ h2
    simp only [List.mem_append, List.mem_cons, not_or]
    exact ⟨this, by omega, ih2⟩


theorem unc_one_step (fuel : Nat) (s : List Nat) (n : Nat) (share : Option (List Nat)) (r : List Nat)
    (h : Impl.isUncPathAux fuel s n share = some r) (hs : s ≠ []) :
    ∃ fuel' comp rest, fuel = fuel' + 1 ∧ s = comp ++ rest ∧ comp ≠ [] ∧
      (∀ c ∈ comp, Impl.isWindowsSlash c = false ∧ c ≠ 0) ∧
      (n = 0 → comp ≠ [0x3F] ∧ comp ≠ [0x2E] ∧ ∀ a b, comp = [a, b] → Impl.isWindowsDrive a b = false) ∧
      (n = 1 → comp ≠ [0x2E] ∧ comp ≠ [0x2E, 0x2E]) ∧
      ((rest = [] ∧ (if n = 1 then some [] else share) = some r) ∨
       (∃ x r', rest = x :: r' ∧ Impl.isWindowsSlash x = true ∧
          Impl.isUncPathAux fuel' r' (n + 1) (if n = 1 then some rest else share) = some r)) := by
  revert h hs
  fun_induction Impl.isUncPathAux fuel s n share with
  | case1 => intro h; simp at h
  | case2 => intro _ hs; exact absurd rfl hs
  | case3 => intro h; simp at h
  | case4 => intro h; simp at h
  | case5 => intro h; simp at h
  | case6 fuel s n share hs0 comp rest h1 h2 n' bad h3 share' hrest =>
    intro h _
    have hs' : comp ++ rest = s := List.takeWhile_append_dropWhile
    have hc : ∀ c ∈ comp, notWinSlash c = true := mem_takeWhile _ _
    have hn' : n' = n + 1 := rfl
    have hb0 : n = 0 → comp ≠ [0x3F] ∧ comp ≠ [0x2E] ∧
        ∀ a b, comp = [a, b] → Impl.isWindowsDrive a b = false := by
      intro hn
      have hn1 : n' = 1 := by simp only [n', hn]
      refine ⟨?_, ?_, ?_⟩
      · intro e; apply h3; simp only [bad, hn1, if_true, e]; simp
      · intro e; apply h3; simp only [bad, hn1, if_true, e]; simp
      · intro a b e
        cases hd : Impl.isWindowsDrive a b with
        | false => rfl
        | true => exfalso; apply h3; simp only [bad, hn1, if_true, e]; exact hd
    have hb1 : n = 1 → comp ≠ [0x2E] ∧ comp ≠ [0x2E, 0x2E] := by
      intro hn
      have hn2 : n' = 2 := by simp only [n', hn]
      refine ⟨?_, ?_⟩
      · intro e; apply h3; simp only [bad, hn2, if_true, e]; simp
      · intro e; apply h3; simp only [bad, hn2, if_true, e]; simp
    have hsh : share' = if n' = 2 then some rest else share := rfl
    clear h3
    clear_value comp rest n' bad share'
    subst hn'
    refine ⟨fuel, comp, rest, rfl, hs'.symm, h1, ?_, ?_, ?_, Or.inl ⟨hrest, ?_⟩⟩
    · intro c hm
      have := hc c hm
      refine ⟨by simpa [notWinSlash] using this, ?_⟩
      intro h0; subst h0; exact not_any_zero _ h2 hm
    · exact hb0
    · exact hb1
    · rw [hsh] at h
      by_cases hn : n = 1
      · subst hn; simpa [hrest] using h
      · have : ¬ (n + 1 = 2) := by omega
        simpa [hn, this] using h
  | case7 fuel s n share hs0 comp rest h1 h2 n' bad h3 share' x r' hrest =>
    intro h _
    have hs' : comp ++ rest = s := List.takeWhile_append_dropWhile
    have hc : ∀ c ∈ comp, notWinSlash c = true := mem_takeWhile _ _
    have hx : notWinSlash x = false := dropWhile_head _ _ _ _ hrest
    have hn' : n' = n + 1 := rfl
    have hb0 : n = 0 → comp ≠ [0x3F] ∧ comp ≠ [0x2E] ∧
        ∀ a b, comp = [a, b] → Impl.isWindowsDrive a b = false := by
      intro hn
      have hn1 : n' = 1 := by simp only [n', hn]
      refine ⟨?_, ?_, ?_⟩
      · intro e; apply h3; simp only [bad, hn1, if_true, e]; simp
      · intro e; apply h3; simp only [bad, hn1, if_true, e]; simp
      · intro a b e
        cases hd : Impl.isWindowsDrive a b with
        | false => rfl
        | true => exfalso; apply h3; simp only [bad, hn1, if_true, e]; exact hd
    have hb1 : n = 1 → comp ≠ [0x2E] ∧ comp ≠ [0x2E, 0x2E] := by
      intro hn
      have hn2 : n' = 2 := by simp only [n', hn]
      refine ⟨?_, ?_⟩
      · intro e; apply h3; simp only [bad, hn2, if_true, e]; simp
      · intro e; apply h3; simp only [bad, hn2, if_true, e]; simp
    have hsh : share' = if n' = 2 then some rest else share := rfl
    clear h3
    clear_value comp rest n' bad share'
    subst hn'
    refine ⟨fuel, comp, rest, rfl, hs'.symm, h1, ?_, ?_, ?_, Or.inr ⟨x, r', hrest, ?_, ?_⟩⟩
    · intro c hm
      have := hc c hm
      refine ⟨by simpa [notWinSlash] using this, ?_⟩
      intro h0; subst h0; exact not_any_zero _ h2 hm
    · exact hb0
    · exact hb1
    · simpa [notWinSlash] using hx
    · rw [hsh] at h
      by_cases hn : n = 1
      · subst hn; simpa using h
      · have : ¬ (n + 1 = 2) := by omega
        simpa [hn, this] using h

/-- what `is_unc_path` accepts -/
theorem isUncPath_shape (s r : List Nat) (h : Impl.isUncPath s = some r) :
    ∃ host sl share, s = host ++ sl :: (share ++ r) ∧ Impl.isWindowsSlash sl = true ∧
      host ≠ [] ∧ share ≠ [] ∧
      (∀ c ∈ host ++ share, Impl.isWindowsSlash c = false ∧ c ≠ 0) ∧
      host ≠ [0x3F] ∧ host ≠ [0x2E] ∧ (∀ a b, host = [a, b] → Impl.isWindowsDrive a b = false) ∧
      share ≠ [0x2E] ∧ share ≠ [0x2E, 0x2E] ∧
      (r = [] ∨ ∃ x r', r = x :: r' ∧ Impl.isWindowsSlash x = true) ∧ 0 ∉ r := by
  unfold Impl.isUncPath at h
  by_cases hs : s = []
  · subst hs; simp [Impl.isUncPathAux] at h
  obtain ⟨f1, host, rest1, -, hs1, hne1, hc1, hb1, -, hstep1⟩ := unc_one_step _ _ _ _ _ h hs
  obtain ⟨hh2, hh3⟩ := hb1 rfl
  simp only [show ¬ (0 = 1) by omega, if_false] at hstep1
  rcases hstep1 with ⟨-, hcontra⟩ | ⟨sl, r1, hrest1, hsl, h1⟩
  · simp at hcontra
  by_cases hr1 : r1 = []
  · subst hr1
    cases f1 <;> simp [Impl.isUncPathAux] at h1
  obtain ⟨f2, share, rest2, -, hs2, hne2, hc2, -, hb2, hstep2⟩ := unc_one_step _ _ _ _ _ h1 hr1
  obtain ⟨hh4, hh5⟩ := hb2 rfl
  simp only [if_true] at hstep2
  have hcomb : ∀ c ∈ host ++ share, Impl.isWindowsSlash c = false ∧ c ≠ 0 := by
    intro c hc
    rcases List.mem_append.1 hc with hc | hc
    · exact hc1 c hc
    · exact hc2 c hc
  rcases hstep2 with ⟨hrest2, hr⟩ | ⟨x, r', hrest2, hx, h2⟩
  · have hr : r = [] := by simpa using hr.symm
    subst hr
    refine ⟨host, sl, share, ?_, hsl, hne1, hne2, hcomb, hh2, hh3.1, hh3.2, hh4, hh5, Or.inl rfl, by simp⟩
    rw [hs1, hrest1, hs2, hrest2]
  · obtain ⟨hr, h0⟩ := unc_ge2 _ _ _ _ _ (by omega) h2
    have hr : rest2 = r := by simpa using hr
    subst hr
    refine ⟨host, sl, share, ?_, hsl, hne1, hne2, hcomb, hh2, hh3.1, hh3.2, hh4, hh5,
      Or.inr ⟨x, r', hrest2, hx⟩, ?_⟩
    · rw [hs1, hrest1, hs2]
    · rw [hrest2]
      simp only [List.mem_cons, not_or]
      refine ⟨?_, h0⟩
      intro hx0; rw [← hx0] at hx; simp [Impl.isWindowsSlash] at hx

/-! ### 6. path_from_file_url -/

theorem pathFromFileUrl_posix (u : Url) (p : List Nat) (h : Impl.pathFromFileUrl u .posix = some p) :
    u.isFile = true ∧ u.hostText = [] ∧ p = Impl.percentDecode (Impl.pathText u) ∧ 0 ∉ p := by
  unfold Impl.pathFromFileUrl at h
  simp only [] at h
  by_cases hf : u.isFile = true
  · by_cases hh : u.hostText = []
    · simp only [hf, hh, ne_eq, not_true, if_false, Bool.not_true, Bool.false_eq_true] at h
      by_cases h0 : ((Impl.percentDecode (Impl.pathText u)).any fun x => x == 0) = true
      · simp [h0] at h
      · simp only [h0, if_false, Option.some.injEq, Bool.false_eq_true] at h
        refine ⟨hf, hh, h.symm, ?_⟩
        rw [← h]; exact not_any_zero _ h0
    · simp [hf, hh] at h
  · simp [hf] at h

theorem lead_ge2 (path : List Nat) (h : 2 ≤ ((path.take 4).takeWhile (· == 0x5C)).length) :
    ∃ q, path = 0x5C :: 0x5C :: q := by
  match path with
  | [] => simp at h
  | [a] =>
    simp only [List.take, List.takeWhile] at h
    split at h <;> simp at h
  | a :: b :: q =>
    by_cases ha : a = 0x5C
    · by_cases hb : b = 0x5C
      · subst ha hb; exact ⟨q, rfl⟩
      · simp [ha, hb] at h
    · simp [ha] at h

theorem lead_eq3 (path : List Nat) (h : ((path.take 4).takeWhile (· == 0x5C)).length = 3) :
    ∃ q, path = 0x5C :: 0x5C :: 0x5C :: q := by
  obtain ⟨q, rfl⟩ := lead_ge2 path (by omega)
  match q with
  | [] => simp [List.take, List.takeWhile] at h
  | c :: q =>
    by_cases hc : c = 0x5C
    · subst hc; exact ⟨q, rfl⟩
    · simp [hc] at h

theorem hasDrive_cases (path : List Nat) (h : Impl.pathnameHasWindowsDrive path = true) :
    ∃ s a rest, path = s :: a :: 0x3A :: rest ∧ isAlpha a = true ∧
      (rest = [] ∨ ∃ c r, rest = c :: r ∧ Impl.isWindowsSlash c = true) := by
  unfold Impl.pathnameHasWindowsDrive at h
  split at h
  · rename_i s a b
    simp only [Bool.and_eq_true, Impl.isNormalizedWindowsDrive, beq_iff_eq] at h
    obtain ⟨-, ha, hb⟩ := h
    subst hb
    exact ⟨s, a, [], rfl, ha, Or.inl rfl⟩
  · rename_i s a b c r
    simp only [Bool.and_eq_true, Impl.isNormalizedWindowsDrive, beq_iff_eq] at h
    obtain ⟨⟨hc, -⟩, ha, hb⟩ := h
    subst hb
    exact ⟨s, a, c :: r, rfl, ha, Or.inr ⟨c, r, rfl, hc⟩⟩
  · simp at h

def winBody (u : Url) : List Nat :=
  (Impl.percentDecode (Impl.pathText u)).map (fun c => if c = 0x2F then 0x5C else c)

theorem winBody_no_slash (u : Url) : 0x2F ∉ winBody u := by
  unfold winBody
  intro h
  obtain ⟨c, -, hc⟩ := List.mem_map.1 h
  split at hc <;> omega

/-- the final NUL check -/
theorem nul_check (r : Option (List Nat)) (p : List Nat)
    (h : (match r with
          | none => none
          | some path => if (path.any fun x => x == 0) = true then none else some path) = some p) :
    r = some p ∧ 0 ∉ p := by
  cases r with
  | none => simp at h
  | some path =>
    by_cases h0 : (path.any fun x => x == 0) = true
    · simp [h0] at h
    · simp only [h0, if_false, Option.some.injEq, Bool.false_eq_true] at h
      subst h
      exact ⟨rfl, not_any_zero _ h0⟩

theorem pathFromFileUrl_windows (u : Url) (p : List Nat) (h : Impl.pathFromFileUrl u .windows = some p) :
    u.isFile = true ∧ 0 ∉ p ∧ u.hostText ≠ [0x2E] ∧
      ((u.hostText ≠ [] ∧ p = 0x5C :: 0x5C :: (u.hostText ++ winBody u) ∧
          (Impl.isUncPath (u.hostText ++ winBody u)).isSome = true) ∨
       (u.hostText = [] ∧ ∃ s a rest, winBody u = s :: a :: 0x3A :: rest ∧ isAlpha a = true ∧
          ((rest = [] ∧ p = [a, 0x3A, 0x5C]) ∨ (∃ r, rest = 0x5C :: r ∧ p = a :: 0x3A :: 0x5C :: r))) ∨
       (u.hostText = [] ∧ ∃ q, (winBody u = 0x5C :: 0x5C :: q ∨ winBody u = 0x5C :: 0x5C :: 0x5C :: q) ∧
          p = 0x5C :: 0x5C :: q ∧ (Impl.isUncPath q).isSome = true)) := by
  unfold Impl.pathFromFileUrl at h
  simp only [] at h
  have hf : u.isFile = true := by
    cases hf : u.isFile with
    | true => rfl
    | false => simp [hf] at h
  simp only [hf, Bool.not_true, Bool.false_eq_true, if_false] at h
  obtain ⟨h, h0⟩ := nul_check _ _ h
  refine ⟨hf, h0, ?_⟩
  have hb : (List.map (fun c => if c = 47 then 92 else c) (Impl.percentDecode (Impl.pathText u))) = winBody u := rfl
  simp only [hb] at h
  have hbs := winBody_no_slash u
  generalize winBody u = body at h hbs ⊢
  generalize u.hostText = hn at h ⊢
  by_cases hh : hn = []
  · subst hh
    refine ⟨by simp, Or.inr ?_⟩
    simp only [ne_eq, not_true, decide_false, Bool.false_and, Bool.false_eq_true, if_false, List.nil_append] at h
    by_cases hd : Impl.pathnameHasWindowsDrive body = true
    · simp only [hd, if_true, Option.some.injEq] at h
      left
      obtain ⟨s, a, rest, hbody, ha, hrest⟩ := hasDrive_cases body hd
      refine ⟨rfl, s, a, rest, hbody, ha, ?_⟩
      subst hbody
      rcases hrest with hr | ⟨c, r, hr, hc⟩
      · subst hr
        left; refine ⟨rfl, ?_⟩
        simpa using h.symm
      · subst hr
        right
        have hc' : c = 0x5C := by
          simp only [Impl.isWindowsSlash, Bool.or_eq_true, beq_iff_eq] at hc
          rcases hc with hc | hc
          · exact hc
          · subst hc; simp at hbs
        subst hc'
        refine ⟨r, rfl, ?_⟩
        simpa using h.symm
    · right
      simp only [hd, Bool.false_eq_true, if_false] at h
      by_cases h3 : (List.takeWhile (fun x => x == 92) (List.take 4 body)).length = 3
      · simp only [h3, if_true] at h
        obtain ⟨q, hq⟩ := lead_eq3 body h3
        subst hq
        simp only [List.drop_succ_cons, List.drop_zero] at h
        by_cases hu : (Impl.isUncPath q).isNone = true
        · simp [hu] at h
        · simp only [hu, Bool.false_eq_true, if_false, Option.some.injEq] at h
          refine ⟨rfl, q, Or.inr rfl, h.symm, ?_⟩
          cases hq : Impl.isUncPath q <;> simp [hq] at hu ⊢
      · simp only [h3, if_false] at h
        by_cases h2 : (List.takeWhile (fun x => x == 92) (List.take 4 body)).length = 2
        · simp only [h2, not_true, if_false] at h
          obtain ⟨q, hq⟩ := lead_ge2 body (by omega)
          subst hq
          simp only [List.drop_succ_cons, List.drop_zero] at h
          by_cases hu : (Impl.isUncPath q).isNone = true
          · simp [hu] at h
          · simp only [hu, Bool.false_eq_true, if_false, Option.some.injEq] at h
            refine ⟨rfl, q, Or.inl rfl, h.symm, ?_⟩
            cases hq : Impl.isUncPath q <;> simp [hq] at hu ⊢
        · simp [h2] at h
  · by_cases hdot : hn = [0x2E]
    · subst hdot; simp at h
    refine ⟨hdot, Or.inl ⟨hh, ?_⟩⟩
    have e1 : (hn == [46]) = false := by simp [hdot]
    simp only [ne_eq, hh, not_false_eq_true, decide_true, Bool.true_and, e1, Bool.false_eq_true,
      if_false, if_true, List.cons_append, List.nil_append, List.drop_succ_cons, List.drop_zero] at h
    by_cases hu : (Impl.isUncPath (hn ++ body)).isNone = true
    · simp [hu] at h
    · simp only [hu, Bool.false_eq_true, if_false, Option.some.injEq] at h
      refine ⟨h.symm, ?_⟩
      cases hq : Impl.isUncPath (hn ++ body) <;> simp [hq] at hu ⊢

/-! ### 4. the text handed to the parser -/

theorem pctWord_all_of {ok : Nat → Bool} {P : Nat → Prop} (hok : ∀ c, ok c = true → P c)
    (h25 : P 0x25) (hhex : ∀ c, isUpperHex c = true → P c) {w : List Nat}
    (hw : PctWord ok w) : ∀ x ∈ w, P x := by
  induction hw with
  | nil => intro x hx; simp at hx
  | single c w hc _ ih =>
    intro x hx
    rcases List.mem_cons.1 hx with rfl | hx
    · exact hok _ hc
    · exact ih x hx
  | triplet h1 h2 w hh1 hh2 _ ih =>
    intro x hx
    simp only [List.mem_cons] at hx
    rcases hx with rfl | rfl | rfl | hx
    · exact h25
    · exact hhex _ hh1
    · exact hhex _ hh2
    · exact ih x hx

/-- what a byte of the text handed to the parser can never be -/
def SafePosix (c : Nat) : Prop :=
  c ≠ 0x3F ∧ c ≠ 0x23 ∧ c ≠ 0x5C ∧ c ≠ 0x3A ∧ c ≠ 0x7C ∧ c ≠ 0x09 ∧ c ≠ 0x0A ∧ c ≠ 0x0D ∧ 0x20 < c ∧ c < 0x7F

def SafeRaw (c : Nat) : Prop :=
  c ≠ 0x3F ∧ c ≠ 0x23 ∧ c ≠ 0x09 ∧ c ≠ 0x0A ∧ c ≠ 0x0D ∧ 0x20 < c ∧ c < 0x7F

instance (c : Nat) : Decidable (SafePosix c) := by unfold SafePosix; exact inferInstance
instance (c : Nat) : Decidable (SafeRaw c) := by unfold SafeRaw; exact inferInstance

theorem posix_ok_tbl : ∀ c, c < 128 → Impl.posixPathNoEnc c = true → SafePosix c ∧ c ≠ 0x25 := by
  decide +kernel

theorem raw_ok_tbl : ∀ c, c < 128 → Impl.rawPathNoEnc c = true → SafeRaw c ∧ c ≠ 0x25 := by
  decide +kernel

theorem posix_safe (s : List Nat) (hs : ∀ c ∈ s, Spec.isScalar c = true) :
    ∀ c ∈ Impl.percentEncode Impl.posixPathNoEnc s, SafePosix c := by
  refine pctWord_all_of (P := SafePosix) ?_ (by decide) ?_ (percentEncode_word _ s hs)
  · intro c hc
    simp only [Bool.and_eq_true, decide_eq_true_eq] at hc
    exact (posix_ok_tbl c (by omega) hc.2).1
  · intro c hc
    rw [isUpperHex_iff] at hc
    unfold SafePosix; omega

theorem raw_safe (s : List Nat) (hs : ∀ c ∈ s, Spec.isScalar c = true) :
    ∀ c ∈ Impl.percentEncode Impl.rawPathNoEnc s, SafeRaw c := by
  refine pctWord_all_of (P := SafeRaw) ?_ (by decide) ?_ (percentEncode_word _ s hs)
  · intro c hc
    simp only [Bool.and_eq_true, decide_eq_true_eq] at hc
    exact (raw_ok_tbl c (by omega) hc.2).1
  · intro c hc
    rw [isUpperHex_iff] at hc
    unfold SafeRaw; omega

/-- `%` occurs in the output only as the start of an encoder-made triplet -/
theorem posix_word (s : List Nat) (hs : ∀ c ∈ s, Spec.isScalar c = true) :
    PctWord (fun c => decide (c < 0x80) && Impl.posixPathNoEnc c && (c != 0x25))
      (Impl.percentEncode Impl.posixPathNoEnc s) := by
  refine PctWord.mono ?_ (percentEncode_word _ s hs)
  intro c hc
  simp only [Bool.and_eq_true, decide_eq_true_eq] at hc
  have := (posix_ok_tbl c (by omega) hc.2).2
  simp [hc.1, hc.2, this]

theorem raw_word (s : List Nat) (hs : ∀ c ∈ s, Spec.isScalar c = true) :
    PctWord (fun c => decide (c < 0x80) && Impl.rawPathNoEnc c && (c != 0x25))
      (Impl.percentEncode Impl.rawPathNoEnc s) := by
  refine PctWord.mono ?_ (percentEncode_word _ s hs)
  intro c hc
  simp only [Bool.and_eq_true, decide_eq_true_eq] at hc
  have := (raw_ok_tbl c (by omega) hc.2).2
  simp [hc.1, hc.2, this]

/-! ### 5. the parser on `file:///…` -/

theorem decode_ascii (l : List Nat) (h : ∀ c ∈ l, c < 0x80) : Impl.decode .u8 l = l := by
  induction l with
  | nil => rfl
  | cons a l ih =>
    rw [decode_ascii_cons a (h a (by simp)), ih (fun c hc => h c (by simp [hc]))]

theorem prep_id (l : List Nat) (h : ∀ c ∈ l, 0x20 < c ∧ c < 0x80) :
    Impl.prep .u8 (Impl.doTrim l) = l := by
  have ht : ∀ c ∈ l, Impl.isTrimChar c = false := by
    intro c hc; have := h c hc; simp [Impl.isTrimChar]; omega
  have h1 : Impl.doTrim l = l := by
    unfold Impl.doTrim
    rw [dropWhile_none _ _ ht, dropWhile_none _ _ (fun c hc => ht c (List.mem_reverse.1 hc)),
      List.reverse_reverse]
  have h2 : Impl.removeWs l = l := by
    unfold Impl.removeWs
    rw [List.filter_eq_self]
    intro c hc; have := h c hc
    simp [Impl.isRemovable]; omega
  unfold Impl.prep
  rw [h1, h2, decode_ascii l (fun c hc => (h c hc).2)]

theorem schemeState_file (idna : Idna) (rest : List Nat) :
    Impl.schemeState idna none none {} (102 :: 105 :: 108 :: 101 :: 58 :: rest) =
      Impl.fileState idna none none { scheme := Impl.sFile } rest := by
  have h1 : isSchemeChar 105 = true := by decide
  have h2 : isSchemeChar 108 = true := by decide
  have h3 : isSchemeChar 101 = true := by decide
  have h4 : isSchemeChar 58 = false := by decide
  have e1 : List.takeWhile isSchemeChar (58 :: rest) = [] := List.takeWhile_cons_of_neg (by simp [h4])
  have e2 : List.dropWhile isSchemeChar (58 :: rest) = 58 :: rest := List.dropWhile_cons_of_neg (by simp [h4])
  have e3 : List.map (fun x => x ||| 32) [102, 105, 108, 101] = Impl.sFile := by decide
  have e4 : ({ scheme := Impl.sFile } : Url).isFile = true := by decide
  simp only [Impl.schemeState, List.takeWhile_cons_of_pos, List.dropWhile_cons_of_pos, h1, h2, h3, e1, e2, e3]
  simp [e4]

def fileUrl0 : Url := { scheme := Impl.sFile, host := some Impl.emptyHost }

theorem fileState_slashes (idna : Idna) (r : List Nat) :
    Impl.fileState idna none none { scheme := Impl.sFile } (47 :: 47 :: 47 :: r) =
      Impl.pathState none fileUrl0 r := by
  have e4 : ({ scheme := Impl.sFile } : Url).isFile = true := by decide
  have e5 : Impl.isSlash 47 = true := by decide
  have e6 : Impl.isSpecialAuthorityEnd 47 = true := by decide
  have e7 : fileUrl0.isSpecial = true := by decide
  simp only [Impl.fileState, e4, e5, Bool.not_true, Bool.false_eq_true, if_false, if_true,
    Impl.fileSlashState, Impl.fileHostState]
  rw [List.takeWhile_cons_of_neg (by simp [e6]), List.dropWhile_cons_of_neg (by simp [e6])]
  simp only [if_true, Option.isSome_none, Bool.false_eq_true, if_false]
  show Impl.pathStartState none fileUrl0 (47 :: r) = _
  simp only [Impl.pathStartState, e7, if_true, e5]

theorem pathState_plain (u : Url) (r : List Nat) (hr : ∀ c ∈ r, c ≠ 0x3F ∧ c ≠ 0x23) :
    Impl.pathState none u r = ⟨.ok, Impl.parsePath u r⟩ := by
  have hq : ∀ c ∈ r, (fun c => !Impl.isQorH c) c = true := by
    intro c hc
    have := hr c hc
    simp [Impl.isQorH, this.1, this.2]
  simp only [Impl.pathState, Option.isSome_none, Bool.false_eq_true, if_false]
  rw [takeWhile_all _ _ hq, dropWhile_all _ _ hq]
  rfl

theorem sFilePrefix_eq : Impl.sFilePrefix = [0x66, 0x69, 0x6C, 0x65, 0x3A, 0x2F, 0x2F] := by decide

/-- the parser on `file:///` + a `?`/`#`-free, space/control-free ASCII rest: scheme state, file state,
    file slash state, file host state (empty buffer), path start state, path state, EOF -/
theorem parse_file_url (idna : Idna) (r : List Nat)
    (hr : ∀ c ∈ r, c ≠ 0x3F ∧ c ≠ 0x23 ∧ 0x20 < c ∧ c < 0x80) :
    Impl.parse idna .u8 (Impl.sFilePrefix ++ 0x2F :: r) none = some (Impl.parsePath fileUrl0 r) := by
  unfold Impl.parse
  rw [prep_id]
  · rw [sFilePrefix_eq]
    simp only [Impl.urlParse, List.cons_append, List.nil_append]
    rw [if_pos (by decide), schemeState_file, fileState_slashes,
      pathState_plain _ _ (fun c hc => ⟨(hr c hc).1, (hr c hc).2.1⟩)]
  · intro c hc
    rw [sFilePrefix_eq] at hc
    simp only [List.cons_append, List.nil_append, List.mem_cons] at hc
    rcases hc with rfl | rfl | rfl | rfl | rfl | rfl | rfl | rfl | hc
    all_goals first | omega | exact (hr c hc).2.2

/-! ### the final "." host check of url_from_file_path -/

theorem rejectDotHost_some {o : Option Url} {u : Url} (h : Impl.rejectDotHost o = some u) :
    o = some u ∧ u.hostText ≠ [0x2E] := by
  unfold Impl.rejectDotHost at h
  cases o with
  | none => cases h
  | some v =>
    simp only [Option.bind_some] at h
    by_cases hv : v.hostText = [0x2E]
    · rw [if_pos hv] at h; cases h
    · rw [if_neg hv] at h
      simp only [Option.some.injEq] at h
      subst h
      exact ⟨rfl, hv⟩

theorem rejectDotHost_of_ne {u : Url} (h : u.hostText ≠ [0x2E]) : Impl.rejectDotHost (some u) = some u := by
  unfold Impl.rejectDotHost
  simp only [Option.bind_some]
  rw [if_neg h]

theorem rejectDotHost_id (o : Option Url) (h : ∀ u, o = some u → u.hostText ≠ [0x2E]) :
    Impl.rejectDotHost o = o := by
  cases o with
  | none => rfl
  | some u => exact rejectDotHost_of_ne (h u rfl)

theorem doTrim_prefix (pre l : List Nat) (hne : pre ≠ []) (h : ∀ c ∈ pre, Impl.isTrimChar c = false) :
    ∃ l', Impl.doTrim (pre ++ l) = pre ++ l' := by
  unfold Impl.doTrim
  have h1 : (pre ++ l).dropWhile Impl.isTrimChar = pre ++ l := by
    cases pre with
    | nil => exact absurd rfl hne
    | cons a t => exact List.dropWhile_cons_of_neg (by simp [h a List.mem_cons_self])
  have h2 : pre.reverse.dropWhile Impl.isTrimChar = pre.reverse :=
    dropWhile_none _ _ (fun c hc => h c (List.mem_reverse.1 hc))
  rw [h1, List.reverse_append, List.dropWhile_append]
  split
  · exact ⟨[], by rw [h2, List.reverse_reverse, List.append_nil]⟩
  · exact ⟨(l.reverse.dropWhile Impl.isTrimChar).reverse, by rw [List.reverse_append, List.reverse_reverse]⟩

/-- whatever follows `file:///`, the parsed URL has an empty host -/
theorem parse_file3_hostText (idna : Idna) (l : List Nat) (u : Url)
    (h : Impl.parse idna .u8 (Impl.sFilePrefix ++ 0x2F :: l) none = some u) : u.hostText = [] := by
  unfold Impl.parse at h
  have hpre : Impl.sFilePrefix ++ 0x2F :: l = [0x66, 0x69, 0x6C, 0x65, 0x3A, 0x2F, 0x2F, 0x2F] ++ l := by
    rw [sFilePrefix_eq]; rfl
  obtain ⟨l', hl'⟩ := doTrim_prefix [0x66, 0x69, 0x6C, 0x65, 0x3A, 0x2F, 0x2F, 0x2F] l (by simp) (by decide)
  rw [hpre, hl'] at h
  have hprep : Impl.prep .u8 ([0x66, 0x69, 0x6C, 0x65, 0x3A, 0x2F, 0x2F, 0x2F] ++ l') =
      0x66 :: 0x69 :: 0x6C :: 0x65 :: 0x3A :: 0x2F :: 0x2F :: 0x2F :: Impl.decode .u8 (Impl.removeWs l') := by
    unfold Impl.prep Impl.removeWs
    rw [List.filter_append]
    have : List.filter (fun c => !Impl.isRemovable c) [0x66, 0x69, 0x6C, 0x65, 0x3A, 0x2F, 0x2F, 0x2F] =
        [0x66, 0x69, 0x6C, 0x65, 0x3A, 0x2F, 0x2F, 0x2F] := by decide
    rw [this]
    simp only [List.cons_append, List.nil_append]
    rw [decode_ascii_cons _ (by omega), decode_ascii_cons _ (by omega), decode_ascii_cons _ (by omega),
      decode_ascii_cons _ (by omega), decode_ascii_cons _ (by omega), decode_ascii_cons _ (by omega),
      decode_ascii_cons _ (by omega), decode_ascii_cons _ (by omega)]
  rw [hprep] at h
  simp only [Impl.urlParse] at h
  rw [if_pos (by decide), schemeState_file, fileState_slashes] at h
  have hhost := C07.pathState_host none fileUrl0 (Impl.decode .u8 (Impl.removeWs l'))
  generalize Impl.pathState none fileUrl0 (Impl.decode .u8 (Impl.removeWs l')) = res at h hhost
  obtain ⟨out, url⟩ := res
  cases out
  · have h : url = u := by simpa using h
    subst h
    simp only at hhost
    unfold Url.hostText
    rw [hhost]
    rfl
  · simp at h
  · simp at h

theorem rejectDotHost_file3 (idna : Idna) (l : List Nat) :
    Impl.rejectDotHost (Impl.parse idna .u8 (Impl.sFilePrefix ++ 0x2F :: l) none) =
      Impl.parse idna .u8 (Impl.sFilePrefix ++ 0x2F :: l) none :=
  rejectDotHost_id _ (fun u hu => by rw [parse_file3_hostText idna l u hu]; simp)

theorem ite_frame {u a b : Url} {c : Prop} [Decidable c] (ha : ∃ p, a = { u with path := p })
    (hb : ∃ p, b = { u with path := p }) : ∃ p, (if c then a else b) = { u with path := p } := by
  split <;> assumption

theorem shortenPath_frame (u : Url) : ∃ p, Impl.shortenPath u = { u with path := p } := by
  unfold Impl.shortenPath
  split
  · exact ⟨u.path, rfl⟩
  · exact ite_frame ⟨u.path, rfl⟩ ⟨_, rfl⟩
  · exact ⟨_, rfl⟩

theorem pathSegment_frame (u : Url) (seg : List Nat) (l : Bool) :
    ∃ p, Impl.pathSegment u seg l = { u with path := p } := by
  unfold Impl.pathSegment
  obtain ⟨q, hq⟩ := shortenPath_frame u
  refine ite_frame ?_ (ite_frame ?_ ?_)
  · simp only [hq]
    exact ite_frame ⟨_, rfl⟩ ⟨_, rfl⟩
  · exact ite_frame ⟨_, rfl⟩ ⟨u.path, rfl⟩
  · split
    · exact ite_frame ⟨_, rfl⟩ ⟨_, rfl⟩
    · exact ⟨_, rfl⟩

theorem pathSegments_frame (segs : List (List Nat)) : ∀ u : Url,
    ∃ p, Impl.pathSegments u segs = { u with path := p } := by
  induction segs with
  | nil => intro u; exact ⟨u.path, rfl⟩
  | cons seg rest ih =>
    intro u
    cases rest with
    | nil => exact pathSegment_frame u seg true
    | cons s2 r2 =>
      rw [Impl.pathSegments]
      · obtain ⟨p1, h1⟩ := pathSegment_frame u seg false
        obtain ⟨p2, h2⟩ := ih (Impl.pathSegment u seg false)
        rw [h2, h1]
        exact ⟨p2, rfl⟩
      · simp

theorem parsePath_frame (u : Url) (s : List Nat) : ∃ p, Impl.parsePath u s = { u with path := p } := by
  unfold Impl.parsePath
  exact pathSegments_frame _ u

/-! ### 3. url_from_file_path -/

theorem any_zero_iff (l : List Nat) : (l.any (· == 0)) = true ↔ 0 ∈ l := by
  simp

/-- url_from_file_path, POSIX format, as one conditional -/
theorem urlFromFilePath_posix (idna : Idna) (s : List Nat) :
    Impl.urlFromFilePath idna s .posix =
      if s.head? = some 0x2F ∧ dd ∉ splitOnP (· == 0x2F) s ∧ 0 ∉ s then
        Impl.parse idna .u8 (Impl.sFilePrefix ++ Impl.percentEncode Impl.posixPathNoEnc s) none
      else none := by
  have hdd := hasDotDot_gen (· == 0x2F) (by decide) none s
  simp only [atBoundary, if_true] at hdd
  cases s with
  | nil => simp [Impl.urlFromFilePath]
  | cons c0 r =>
    simp only [Impl.urlFromFilePath, List.head?_cons, Option.some.injEq]
    by_cases hc : c0 = 0x2F
    · simp only [hc, ne_eq, not_true, if_false, true_and]
      subst hc
      have hrej : Impl.rejectDotHost (Impl.parse idna .u8
          (Impl.sFilePrefix ++ Impl.percentEncode Impl.posixPathNoEnc (47 :: r)) none) =
          Impl.parse idna .u8 (Impl.sFilePrefix ++ Impl.percentEncode Impl.posixPathNoEnc (47 :: r)) none := by
        rw [percentEncode_ascii_noenc _ _ _ (by omega) (by decide)]
        exact rejectDotHost_file3 idna _
      rw [hrej]
      by_cases h1 : Impl.hasDotDotSegment (· == 0x2F) none (47 :: r) = true
      · have := hdd.1 h1
        simp [h1, this]
      · have h1' : dd ∉ splitOnP (· == 0x2F) (47 :: r) := fun h => h1 (hdd.2 h)
        simp only [h1, Bool.false_eq_true, if_false, h1', not_false_eq_true, true_and]
        by_cases h0 : ((47 :: r).any (· == 0)) = true
        · have := (any_zero_iff _).1 h0
          simp only [h0, if_true, this, not_true, if_false]
        · have : 0 ∉ (47 :: r) := fun h => h0 ((any_zero_iff _).2 h)
          simp only [h0, Bool.false_eq_true, if_false, this, not_false_eq_true, if_true]
    · simp [hc]

/-! ### Windows format -/

/-- the prefix analysis of url_from_file_path (Windows format): (pointer, is_unc) -/
def winClassify (s : List Nat) : List Nat × Bool :=
  match s with
  | a :: b :: r =>
    if Impl.isWindowsSlash a && Impl.isWindowsSlash b then
      match r with
      | x :: y :: r2 =>
        if (x == 0x3F || x == 0x2E) && Impl.isWindowsSlash y then
          match r2 with
          | u :: n :: c :: sl :: r3 =>
            if (u ||| 0x20) == 0x75 && (n ||| 0x20) == 0x6E && (c ||| 0x20) == 0x63 && Impl.isWindowsSlash sl
            then (r3, true) else (r2, false)
          | _ => (r2, false)
        else (r, true)
      | _ => (r, true)
    else (s, false)
  | _ => (s, false)

theorem winSlash_nz (c : Nat) (h : Impl.isWindowsSlash c = true) : c ≠ 0 := by
  intro e; subst e; simp [Impl.isWindowsSlash] at h

theorem or20_nz (c k : Nat) (h : (c ||| 0x20) = k) (hk : k ≠ 0x20) : c ≠ 0 := by
  intro e; subst e; simp at h; omega

/-- the skipped prefix (`\\`, `\\?\`, `\\.\`, `\\?\UNC\`) is NUL-free -/
theorem winClassify_suffix (s : List Nat) :
    ∃ pre, s = pre ++ (winClassify s).1 ∧ 0 ∉ pre := by
  unfold winClassify
  split
  · rename_i a b r
    split
    · rename_i hab
      simp only [Bool.and_eq_true] at hab
      have ha := winSlash_nz a hab.1
      have hb := winSlash_nz b hab.2
      split
      · rename_i x y r2
        split
        · rename_i hxy
          simp only [Bool.and_eq_true, Bool.or_eq_true, beq_iff_eq] at hxy
          have hx : x ≠ 0 := by omega
          have hy := winSlash_nz y hxy.2
          split
          · rename_i u n c sl r3
            split
            · rename_i hunc
              simp only [Bool.and_eq_true, beq_iff_eq] at hunc
              obtain ⟨⟨⟨hu, hn⟩, hc⟩, hsl⟩ := hunc
              have hu := or20_nz u _ hu (by omega)
              have hn := or20_nz n _ hn (by omega)
              have hc := or20_nz c _ hc (by omega)
              have hsl := winSlash_nz sl hsl
              refine ⟨[a, b, x, y, u, n, c, sl], rfl, ?_⟩
              simp only [List.mem_cons, List.not_mem_nil, or_false, not_or]
              omega
            · refine ⟨[a, b, x, y], rfl, ?_⟩
              simp only [List.mem_cons, List.not_mem_nil, or_false, not_or]
              omega
          · refine ⟨[a, b, x, y], rfl, ?_⟩
            simp only [List.mem_cons, List.not_mem_nil, or_false, not_or]
            omega
        · refine ⟨[a, b], rfl, ?_⟩
          simp only [List.mem_cons, List.not_mem_nil, or_false, not_or]
          omega
      · refine ⟨[a, b], rfl, ?_⟩
        simp only [List.mem_cons, List.not_mem_nil, or_false, not_or]
        omega
    · exact ⟨[], rfl, by simp⟩
  · exact ⟨[], rfl, by simp⟩

theorem hasDotDot_eq (isSl : Nat → Bool) (h : isSl 0x2E = false) (s : List Nat) :
    Impl.hasDotDotSegment isSl none s = decide (dd ∈ splitOnP isSl s) := by
  have := hasDotDot_gen isSl h none s
  simp only [atBoundary, if_true] at this
  cases hd : Impl.hasDotDotSegment isSl none s with
  | true => exact (decide_eq_true (this.1 hd)).symm
  | false =>
    symm; apply decide_eq_false
    intro hm; rw [this.2 hm] at hd; cases hd


def winTail (idna : Idna) (cl : List Nat × Bool) : Option Url :=
  match (if cl.2 then Impl.isUncPath cl.1 else Impl.isWindowsDriveAbsolutePath cl.1) with
  | none => none
  | some chk =>
    if Impl.hasDotDotSegment Impl.isWindowsSlash none chk then none
    else if chk.any (· == 0) then none
    else Impl.rejectDotHost (Impl.parse idna .u8 (Impl.sFilePrefix ++ (if cl.2 then [] else [0x2F]) ++
           Impl.percentEncode Impl.rawPathNoEnc cl.1) none)

theorem urlFromFilePath_windows0 (idna : Idna) (c0 : Nat) (r0 : List Nat) :
    Impl.urlFromFilePath idna (c0 :: r0) .windows = winTail idna (winClassify (c0 :: r0)) := rfl

theorem percentEncode_append (f : Nat → Bool) (a b : List Nat) :
    Impl.percentEncode f (a ++ b) = Impl.percentEncode f a ++ Impl.percentEncode f b := by
  induction a with
  | nil => rfl
  | cons c cs ih => simp only [List.cons_append, percentEncode_cons, ih, List.append_assoc]

/-- an output element is a kept input element, `%`, or an upper-case hex digit -/
theorem percentEncode_mem (f : Nat → Bool) (s : List Nat) (hs : ∀ c ∈ s, Spec.isScalar c = true) :
    ∀ x ∈ Impl.percentEncode f s, (x ∈ s ∧ x < 0x80 ∧ f x = true) ∨ x = 0x25 ∨ isUpperHex x = true := by
  induction s with
  | nil => intro x hx; simp [Impl.percentEncode] at hx
  | cons c cs ih =>
    intro x hx
    have hc := scalar_le c (hs c List.mem_cons_self)
    rw [percentEncode_cons] at hx
    rcases List.mem_append.1 hx with hx | hx
    · by_cases h : c ≥ 0x80
      · rw [if_pos h] at hx
        right
        exact pctWord_all_of (ok := fun _ => false) (P := fun x => x = 0x25 ∨ isUpperHex x = true)
          (by intro c hc; cases hc) (Or.inl rfl) (fun c hc => Or.inr hc) (pctEncodeChar_word _ c hc) x hx
      · rw [if_neg h] at hx
        cases hn : f c with
        | false =>
          rw [hn] at hx
          simp only [Bool.false_eq_true, if_false] at hx
          right
          exact pctWord_all_of (ok := fun _ => false) (P := fun x => x = 0x25 ∨ isUpperHex x = true)
            (by intro c hc; cases hc) (Or.inl rfl) (fun c hc => Or.inr hc) (pctByte_word _ c (by omega)) x hx
        | true =>
          rw [hn] at hx
          simp only [if_true, List.mem_singleton] at hx
          subst hx
          left; exact ⟨List.mem_cons_self, by omega, hn⟩
    · rcases ih (fun c hc => hs c (List.mem_cons_of_mem _ hc)) x hx with ⟨h1, h2⟩ | h
      · left; exact ⟨List.mem_cons_of_mem _ h1, h2⟩
      · right; exact h

theorem pctEncodeChar_len (c : Nat) : 3 ≤ (Impl.pctEncodeChar c).length := by
  unfold Impl.pctEncodeChar Impl.encodeUtf8Char
  split
  · simp [pctByte]
  · split
    · simp [pctByte]
    · split <;> simp [pctByte]

/-- a two-element output comes from the same two kept elements -/
theorem percentEncode_two (f : Nat → Bool) (s : List Nat) (a b : Nat)
    (h : Impl.percentEncode f s = [a, b]) : s = [a, b] := by
  have piece : ∀ c : Nat, (if c ≥ 0x80 then Impl.pctEncodeChar c else if f c = true then [c] else pctByte c) = [c] ∨
      3 ≤ (if c ≥ 0x80 then Impl.pctEncodeChar c else if f c = true then [c] else pctByte c).length := by
    intro c
    split
    · right; exact pctEncodeChar_len c
    · split
      · left; rfl
      · right; simp [pctByte]
  match s with
  | [] => simp [Impl.percentEncode] at h
  | [c] =>
    rw [percentEncode_cons] at h
    rcases piece c with hp | hp
    · rw [hp] at h; simp [Impl.percentEncode] at h
    · have := congrArg List.length h
      simp only [List.length_append, List.length_cons, List.length_nil] at this
      omega
  | c :: d :: cs =>
    rw [percentEncode_cons, percentEncode_cons] at h
    rcases piece c with hp | hp
    · rcases piece d with hq | hq
      · rw [hp, hq] at h
        simp only [List.cons_append, List.nil_append, List.cons.injEq] at h
        obtain ⟨h1, h2, h3⟩ := h
        subst h1 h2
        cases cs with
        | nil => rfl
        | cons e es =>
          rw [percentEncode_cons] at h3
          rcases piece e with hr | hr
          · rw [hr] at h3; simp at h3
          · have := congrArg List.length h3
            simp only [List.length_append, List.length_nil] at this
            omega
      · have := congrArg List.length h
        simp only [List.length_append, List.length_cons, List.length_nil] at this
        omega
    · have := congrArg List.length h
      simp only [List.length_append, List.length_cons, List.length_nil] at this
      omega

def uncUrl (h : Host) : Url :=
  { scheme := Impl.sFile, host := some (if h.text == Impl.sLocalhost then Impl.emptyHost else h) }

theorem fileState_host (idna : Idna) (buf : List Nat) (sl : Nat) (r : List Nat) (hne : buf ≠ [])
    (hb : ∀ c ∈ buf, Impl.isSpecialAuthorityEnd c = false)
    (hdrive : ∀ a b, buf = [a, b] → Impl.isWindowsDrive a b = false)
    (hsl : Impl.isWindowsSlash sl = true) :
    Impl.fileState idna none none { scheme := Impl.sFile } (47 :: 47 :: (buf ++ sl :: r)) =
      match Impl.parseHost idna buf false with
      | none => ⟨.failure, fileUrl0⟩
      | some h => Impl.pathState none (uncUrl h) r := by
  have e4 : ({ scheme := Impl.sFile } : Url).isFile = true := by decide
  have e5 : Impl.isSlash 47 = true := by decide
  have e5' : Impl.isSlash sl = true := by
    simp only [Impl.isWindowsSlash, Impl.isSlash, Bool.or_eq_true, beq_iff_eq] at hsl ⊢; omega
  have e6 : Impl.isSpecialAuthorityEnd sl = true := by
    simp only [Impl.isWindowsSlash, Impl.isSpecialAuthorityEnd, Bool.or_eq_true, beq_iff_eq] at hsl ⊢; omega
  have e7 : fileUrl0.isSpecial = true := by decide
  have hb' : ∀ c ∈ buf, (fun c => !Impl.isSpecialAuthorityEnd c) c = true := by
    intro c hc; simp [hb c hc]
  have ht : List.takeWhile (fun c => !Impl.isSpecialAuthorityEnd c) (buf ++ sl :: r) = buf := by
    rw [List.takeWhile_append_of_pos hb', List.takeWhile_cons_of_neg (by simp [e6]), List.append_nil]
  have hd : List.dropWhile (fun c => !Impl.isSpecialAuthorityEnd c) (buf ++ sl :: r) = sl :: r := by
    rw [List.dropWhile_append_of_pos hb', List.dropWhile_cons_of_neg (by simp [e6])]
  simp only [Impl.fileState, e4, e5, Bool.not_true, Bool.false_eq_true, if_false, if_true,
    Impl.fileSlashState, Impl.fileHostState, ht, hd, hne]
  rw [if_neg (by
    intro hcontra
    split at hcontra
    · rw [hdrive _ _ rfl] at hcontra; simp at hcontra
    · simp at hcontra)]
  show (match Impl.parseHost idna buf (!fileUrl0.isSpecial) with
        | none => (⟨.failure, fileUrl0⟩ : Res)
        | some h => _) = _
  rw [e7]
  cases hp : Impl.parseHost idna buf (!true) with
  | none =>
    have : Impl.parseHost idna buf false = none := hp
    rw [this]
  | some h =>
    have : Impl.parseHost idna buf false = some h := hp
    rw [this]
    simp only [Option.isSome_none, Bool.false_eq_true, if_false]
    show Impl.pathStartState none (uncUrl h) (sl :: r) = _
    have e8 : (uncUrl h).isSpecial = true := by
      have : ∀ x : Option Host, ({ scheme := Impl.sFile, host := x } : Url).isSpecial = true := by
        intro x; simp [Url.isSpecial, Impl.isSpecialScheme]
      exact this _
    simp only [Impl.pathStartState, e8, if_true, e5']

theorem parse_file_unc (idna : Idna) (buf : List Nat) (sl : Nat) (r : List Nat) (hne : buf ≠ [])
    (hb : ∀ c ∈ buf, Impl.isSpecialAuthorityEnd c = false ∧ 0x20 < c ∧ c < 0x80)
    (hdrive : ∀ a b, buf = [a, b] → Impl.isWindowsDrive a b = false)
    (hsl : Impl.isWindowsSlash sl = true)
    (hr : ∀ c ∈ r, c ≠ 0x3F ∧ c ≠ 0x23 ∧ 0x20 < c ∧ c < 0x80) :
    Impl.parse idna .u8 (Impl.sFilePrefix ++ (buf ++ sl :: r)) none =
      (Impl.parseHost idna buf false).map (fun h => Impl.parsePath (uncUrl h) r) := by
  have hsl' : sl = 0x5C ∨ sl = 0x2F := by
    simpa [Impl.isWindowsSlash] using hsl
  unfold Impl.parse
  rw [prep_id]
  · rw [sFilePrefix_eq]
    simp only [Impl.urlParse, List.cons_append, List.nil_append]
    rw [if_pos (by decide), schemeState_file,
      fileState_host idna buf sl r hne (fun c hc => (hb c hc).1) hdrive hsl]
    cases Impl.parseHost idna buf false with
    | none => rfl
    | some h =>
      simp only [Option.map_some]
      rw [pathState_plain _ _ (fun c hc => ⟨(hr c hc).1, (hr c hc).2.1⟩)]
  · intro c hc
    rw [sFilePrefix_eq] at hc
    simp only [List.cons_append, List.nil_append, List.mem_cons, List.mem_append] at hc
    rcases hc with rfl | rfl | rfl | rfl | rfl | rfl | rfl | hc | rfl | hc
    all_goals first | omega | exact (hb c hc).2 | exact (hr c hc).2.2

/-- url_from_file_path, Windows format, as one expression over the prefix analysis -/
theorem urlFromFilePath_windows (idna : Idna) (s : List Nat) :
    Impl.urlFromFilePath idna s .windows =
      if s = [] then none else
      match (if (winClassify s).2 then Impl.isUncPath (winClassify s).1
             else Impl.isWindowsDriveAbsolutePath (winClassify s).1) with
      | none => none
      | some chk =>
        if dd ∈ splitOnP Impl.isWindowsSlash chk ∨ 0 ∈ chk then none
        else Impl.rejectDotHost (Impl.parse idna .u8
               (Impl.sFilePrefix ++ (if (winClassify s).2 then [] else [0x2F]) ++
               Impl.percentEncode Impl.rawPathNoEnc (winClassify s).1) none) := by
  cases s with
  | nil => rfl
  | cons c0 r0 =>
    rw [urlFromFilePath_windows0, if_neg (by simp)]
    unfold winTail
    cases (if (winClassify (c0 :: r0)).2 = true then Impl.isUncPath (winClassify (c0 :: r0)).1
           else Impl.isWindowsDriveAbsolutePath (winClassify (c0 :: r0)).1) with
    | none => rfl
    | some chk =>
      simp only [hasDotDot_eq Impl.isWindowsSlash (by decide), decide_eq_true_eq]
      by_cases h1 : dd ∈ splitOnP Impl.isWindowsSlash chk
      · simp [h1]
      · by_cases h0 : 0 ∈ chk
        · simp [h0]
        · have : (chk.any (· == 0)) = false := by
            cases ha : chk.any (· == 0) with
            | false => rfl
            | true => exact absurd ((any_zero_iff _).1 ha) h0
          simp [h1, h0, this]

theorem driveAbs_shape (p chk : List Nat) (h : Impl.isWindowsDriveAbsolutePath p = some chk) :
    ∃ a b c, p = a :: b :: c :: chk ∧ Impl.isWindowsDrive a b = true ∧ Impl.isWindowsSlash c = true := by
  unfold Impl.isWindowsDriveAbsolutePath at h
  split at h
  · rename_i a b c r
    by_cases hc : (Impl.isWindowsDrive a b && Impl.isWindowsSlash c) = true
    · rw [if_pos hc] at h
      simp only [Option.some.injEq] at h
      subst h
      simp only [Bool.and_eq_true] at hc
      exact ⟨a, b, c, rfl, hc.1, hc.2⟩
    · rw [if_neg hc] at h; cases h
  · cases h

/-- everything url_from_file_path (Windows format) returns -/
theorem from_path_windows (idna : Idna) (s : List Nat) (u : Url)
    (hs : ∀ c ∈ s, Spec.isScalar c = true)
    (h : Impl.urlFromFilePath idna s .windows = some u) :
    0 ∉ s ∧
    (((winClassify s).2 = false ∧
        (∃ a b c chk, (winClassify s).1 = a :: b :: c :: chk ∧ Impl.isWindowsDrive a b = true ∧
          Impl.isWindowsSlash c = true ∧ dd ∉ splitOnP Impl.isWindowsSlash chk) ∧
        u = Impl.parsePath fileUrl0 (Impl.percentEncode Impl.rawPathNoEnc (winClassify s).1)) ∨
     ((winClassify s).2 = true ∧
        ∃ host sl share r hst, (winClassify s).1 = host ++ sl :: (share ++ r) ∧
          Impl.isUncPath (winClassify s).1 = some r ∧ dd ∉ splitOnP Impl.isWindowsSlash r ∧
          Impl.parseHost idna (Impl.percentEncode Impl.rawPathNoEnc host) false = some hst ∧
          u = Impl.parsePath (uncUrl hst) (Impl.percentEncode Impl.rawPathNoEnc (share ++ r)))) := by
  rw [urlFromFilePath_windows] at h
  by_cases hs0 : s = []
  · rw [if_pos hs0] at h; cases h
  rw [if_neg hs0] at h
  obtain ⟨pre, hpre, hpre0⟩ := winClassify_suffix s
  generalize winClassify s = cl at h hpre ⊢
  obtain ⟨pointer, isUnc⟩ := cl
  simp only at h hpre ⊢
  have hps : ∀ c ∈ pointer, Spec.isScalar c = true := by
    intro c hc; apply hs; rw [hpre]; exact List.mem_append_right _ hc
  cases isUnc with
  | false =>
    simp only [Bool.false_eq_true, if_false] at h
    cases hd : Impl.isWindowsDriveAbsolutePath pointer with
    | none => rw [hd] at h; cases h
    | some chk =>
      rw [hd] at h
      simp only at h
      by_cases hbad : dd ∈ splitOnP Impl.isWindowsSlash chk ∨ 0 ∈ chk
      · rw [if_pos hbad] at h; cases h
      rw [if_neg hbad] at h
      have h := (rejectDotHost_some h).1
      simp only [not_or] at hbad
      obtain ⟨a, b, c, hp, hdrv, hsl⟩ := driveAbs_shape _ _ hd
      have hsafe := raw_safe pointer hps
      rw [List.append_assoc, List.singleton_append, parse_file_url idna _ (fun c hc => by
        have := hsafe c hc; unfold SafeRaw at this; omega)] at h
      simp only [Option.some.injEq] at h
      refine ⟨?_, Or.inl ⟨rfl, ⟨a, b, c, chk, hp, hdrv, hsl, hbad.1⟩, h.symm⟩⟩
      rw [hpre, hp]
      simp only [List.mem_append, List.mem_cons, not_or]
      have ha : a ≠ 0 := by
        intro e; subst e; simp [Impl.isWindowsDrive, isAlpha] at hdrv
      have hb : b ≠ 0 := by
        intro e; subst e; simp [Impl.isWindowsDrive] at hdrv
      have hc := winSlash_nz c hsl
      exact ⟨hpre0, by omega, by omega, by omega, hbad.2⟩
  | true =>
    simp only [if_true, List.append_nil] at h
    cases hd : Impl.isUncPath pointer with
    | none => rw [hd] at h; cases h
    | some chk =>
      rw [hd] at h
      simp only at h
      by_cases hbad : dd ∈ splitOnP Impl.isWindowsSlash chk ∨ 0 ∈ chk
      · rw [if_pos hbad] at h; cases h
      rw [if_neg hbad] at h
      have h := (rejectDotHost_some h).1
      simp only [not_or] at hbad
      obtain ⟨host, sl, share, hp, hsl, hne, -, hc, -, -, hdrv, -, -, -, -⟩ := isUncPath_shape _ _ hd
      have hhost : ∀ c ∈ host, Spec.isScalar c = true := by
        intro c hc; apply hps; rw [hp]; exact List.mem_append_left _ hc
      have hrest : ∀ c ∈ share ++ chk, Spec.isScalar c = true := by
        intro c hc; apply hps; rw [hp]
        exact List.mem_append_right _ (List.mem_cons_of_mem _ hc)
      have hsl' : sl = 0x5C ∨ sl = 0x2F := by simpa [Impl.isWindowsSlash] using hsl
      have henc : Impl.percentEncode Impl.rawPathNoEnc pointer =
          Impl.percentEncode Impl.rawPathNoEnc host ++ sl ::
            Impl.percentEncode Impl.rawPathNoEnc (share ++ chk) := by
        rw [hp, percentEncode_append]
        congr 1
        rcases hsl' with e | e <;> subst e <;>
          exact percentEncode_ascii_noenc _ _ _ (by omega) (by decide)
      have hbufne : Impl.percentEncode Impl.rawPathNoEnc host ≠ [] := by
        cases host with
        | nil => exact absurd rfl hne
        | cons c cs =>
          rw [percentEncode_cons]
          intro e
          have := congrArg List.length e
          simp only [List.length_append, List.length_nil] at this
          have h3 := pctEncodeChar_len c
          split at this
          · omega
          · split at this <;> simp [pctByte] at this
      have hbuf : ∀ c ∈ Impl.percentEncode Impl.rawPathNoEnc host,
          Impl.isSpecialAuthorityEnd c = false ∧ 0x20 < c ∧ c < 0x80 := by
        intro c hcm
        have h1 := raw_safe host hhost c hcm
        unfold SafeRaw at h1
        refine ⟨?_, by omega, by omega⟩
        rcases percentEncode_mem _ host hhost c hcm with ⟨hm, -, -⟩ | h25 | hhex
        · have := (hc c (List.mem_append_left _ hm)).1
          simp only [Impl.isWindowsSlash, Bool.or_eq_false_iff, beq_eq_false_iff_ne] at this
          simp only [Impl.isSpecialAuthorityEnd, Bool.or_eq_false_iff, beq_eq_false_iff_ne]
          omega
        · subst h25; decide
        · rw [isUpperHex_iff] at hhex
          simp only [Impl.isSpecialAuthorityEnd, Bool.or_eq_false_iff, beq_eq_false_iff_ne]
          omega
      have hdrive : ∀ a b, Impl.percentEncode Impl.rawPathNoEnc host = [a, b] →
          Impl.isWindowsDrive a b = false := by
        intro a b e
        exact hdrv a b (percentEncode_two _ _ _ _ e)
      have hsafe := raw_safe (share ++ chk) hrest
      rw [henc, parse_file_unc idna _ sl _ hbufne hbuf hdrive hsl (fun c hc => by
        have := hsafe c hc; unfold SafeRaw at this; omega)] at h
      cases hph : Impl.parseHost idna (Impl.percentEncode Impl.rawPathNoEnc host) false with
      | none => rw [hph] at h; cases h
      | some hst =>
        rw [hph] at h
        simp only [Option.map_some, Option.some.injEq] at h
        refine ⟨?_, Or.inr ⟨rfl, host, sl, share, chk, hst, hp, rfl, hbad.1, hph, h.symm⟩⟩
        rw [hpre, hp]
        simp only [List.mem_append, List.mem_cons, not_or]
        have hz1 : 0 ∉ host := fun hm => (hc 0 (List.mem_append_left _ hm)).2 rfl
        have hz2 : 0 ∉ share := fun hm => (hc 0 (List.mem_append_right _ hm)).2 rfl
        exact ⟨hpre0, hz1, by omega, hz2, hbad.2⟩

/-! ### the path of the URL made from a POSIX path; round trip -/

/-- the piece the encode loop appends for one scalar -/
def piece (f : Nat → Bool) (c : Nat) : List Nat :=
  if c ≥ 0x80 then Impl.pctEncodeChar c else if f c then [c] else pctByte c

theorem percentEncode_cons' (f : Nat → Bool) (c : Nat) (cs : List Nat) :
    Impl.percentEncode f (c :: cs) = piece f c ++ Impl.percentEncode f cs := percentEncode_cons f c cs

theorem hexUpper_tbl : ∀ n, n < 16 →
    (hexDigitUpper n = 0x32 → n = 2) ∧ ((hexDigitUpper n ||| 0x20) = 0x65 → n = 14) := by decide

/-- a piece is the kept scalar itself, or starts with a `%XX` that is not `%2E` / `%2e` -/
theorem piece_cases (f : Nat → Bool) (hdot : f 0x2E = true) (d : Nat) (hd : d ≤ 0x10FFFF) :
    (piece f d = [d] ∧ d < 0x80 ∧ f d = true) ∨
    (∃ h1 h2 more, piece f d = 0x25 :: h1 :: h2 :: more ∧ ¬(h1 = 0x32 ∧ (h2 ||| 0x20) = 0x65)) := by
  unfold piece
  by_cases h : d ≥ 0x80
  · rw [if_pos h]
    right
    obtain ⟨b, t, e, hb1, hb2, -⟩ := utf8EncodeChar_hi d h hd
    unfold Impl.pctEncodeChar
    rw [Impl.encodeUtf8Char_eq d hd, e, List.flatMap_cons]
    refine ⟨_, _, _, rfl, ?_⟩
    rintro ⟨h1, -⟩
    have := (hexUpper_tbl (b / 16) (by omega)).1 h1
    omega
  · rw [if_neg h]
    cases hf : f d with
    | true => left; exact ⟨by simp, by omega, rfl⟩
    | false =>
      right
      simp only [Bool.false_eq_true, if_false]
      refine ⟨_, _, [], rfl, ?_⟩
      rintro ⟨h1, h2⟩
      have e1 := (hexUpper_tbl (d / 16) (by omega)).1 h1
      have e2 := (hexUpper_tbl (d % 16) (by omega)).2 h2
      have : d = 0x2E := by omega
      rw [this, hdot] at hf
      cases hf

theorem piece_len (f : Nat → Bool) (d : Nat) : piece f d = [d] ∨ 3 ≤ (piece f d).length := by
  unfold piece
  split
  · right; exact pctEncodeChar_len d
  · split
    · left; rfl
    · right; simp [pctByte]

/-- an encoded string never starts with an escaped dot -/
theorem enc_no_escapedDot (f : Nat → Bool) (hdot : f 0x2E = true) (hpct : f 0x25 = false)
    (t : List Nat) (ht : ∀ c ∈ t, Spec.isScalar c = true) (b c : Nat) (rest : List Nat)
    (h : Impl.percentEncode f t = 0x25 :: b :: c :: rest) : ¬(b = 0x32 ∧ (c ||| 0x20) = 0x65) := by
  cases t with
  | nil => simp [Impl.percentEncode] at h
  | cons d t' =>
    rw [percentEncode_cons'] at h
    rcases piece_cases f hdot d (scalar_le d (ht d List.mem_cons_self)) with ⟨hp, -, hf⟩ | ⟨h1, h2, more, hp, hne⟩
    · rw [hp] at h
      simp only [List.cons_append, List.nil_append, List.cons.injEq] at h
      rw [h.1, hpct] at hf; cases hf
    · rw [hp] at h
      simp only [List.cons_append, List.cons.injEq, true_and] at h
      rw [← h.1, ← h.2.1]; exact hne

theorem percentEncode_one (f : Nat → Bool) (s : List Nat) (a : Nat)
    (h : Impl.percentEncode f s = [a]) : s = [a] := by
  match s with
  | [] => simp [Impl.percentEncode] at h
  | [c] =>
    rw [percentEncode_cons'] at h
    rcases piece_len f c with hp | hp
    · rw [hp] at h; simpa [Impl.percentEncode] using h
    · have := congrArg List.length h
      simp only [List.length_append, List.length_cons, List.length_nil] at this
      omega
  | c :: d :: cs =>
    rw [percentEncode_cons', percentEncode_cons'] at h
    have := congrArg List.length h
    simp only [List.length_append, List.length_cons, List.length_nil] at this
    rcases piece_len f c with hp | hp <;> rcases piece_len f d with hq | hq
    · rw [hp, hq] at this; simp at this
    · omega
    · omega
    · omega

theorem escapedDot_iff (a b c : Nat) :
    Impl.escapedDot [a, b, c] = true ↔ a = 0x25 ∧ b = 0x32 ∧ (c ||| 0x20) = 0x65 := by
  simp [Impl.escapedDot, and_assoc]

theorem enc_singleDot (f : Nat → Bool) (hdot : f 0x2E = true) (hpct : f 0x25 = false)
    (t : List Nat) (ht : ∀ c ∈ t, Spec.isScalar c = true) :
    Impl.singleDot (Impl.percentEncode f t) = true ↔ t = [0x2E] := by
  constructor
  · intro h
    unfold Impl.singleDot at h
    split at h
    · rename_i a he
      have : a = 0x2E := by simpa using h
      subst this
      exact percentEncode_one f t _ he
    · rename_i a b c he
      rw [he, escapedDot_iff] at h
      obtain ⟨rfl, hb, hc⟩ := h
      exact absurd ⟨hb, hc⟩ (enc_no_escapedDot f hdot hpct t ht b c [] he)
    · cases h
  · intro h
    subst h
    rw [percentEncode_ascii_noenc f _ _ (by omega) hdot]
    simp [Impl.percentEncode, Impl.singleDot]

theorem enc_doubleDot (f : Nat → Bool) (hdot : f 0x2E = true) (hpct : f 0x25 = false)
    (t : List Nat) (ht : ∀ c ∈ t, Spec.isScalar c = true) :
    Impl.doubleDot (Impl.percentEncode f t) = true ↔ t = [0x2E, 0x2E] := by
  constructor
  · intro h
    unfold Impl.doubleDot at h
    split at h
    · rename_i a b he
      simp only [Bool.and_eq_true, beq_iff_eq] at h
      obtain ⟨rfl, rfl⟩ := h
      exact percentEncode_two f t _ _ he
    · rename_i a b c d he
      simp only [Bool.or_eq_true, Bool.and_eq_true, beq_iff_eq, escapedDot_iff] at h
      rcases h with ⟨rfl, rfl, hc, hd⟩ | ⟨⟨rfl, hb, hc⟩, -⟩
      · exfalso
        cases t with
        | nil => simp [Impl.percentEncode] at he
        | cons t0 t' =>
          rw [percentEncode_cons'] at he
          rcases piece_cases f hdot t0 (scalar_le t0 (ht t0 List.mem_cons_self)) with
            ⟨hp, -, -⟩ | ⟨h1, h2, more, hp, -⟩
          · rw [hp] at he
            simp only [List.cons_append, List.nil_append, List.cons.injEq] at he
            exact enc_no_escapedDot f hdot hpct t' (fun x hx => ht x (List.mem_cons_of_mem _ hx))
              c d [] he.2 ⟨hc, hd⟩
          · rw [hp] at he
            simp only [List.cons_append, List.cons.injEq] at he
            omega
      · exact absurd ⟨hb, hc⟩ (enc_no_escapedDot f hdot hpct t ht b c _ he)
    · rename_i a b c d e g he
      simp only [Bool.and_eq_true, escapedDot_iff] at h
      obtain ⟨⟨rfl, hb, hc⟩, -⟩ := h
      exact absurd ⟨hb, hc⟩ (enc_no_escapedDot f hdot hpct t ht b c _ he)
    · cases h
  · intro h
    subst h
    rw [percentEncode_ascii_noenc f _ _ (by omega) hdot, percentEncode_ascii_noenc f _ _ (by omega) hdot]
    simp [Impl.percentEncode, Impl.doubleDot]

theorem splitOnP_congr (p q : Nat → Bool) (l : List Nat) (h : ∀ c ∈ l, p c = q c) :
    splitOnP p l = splitOnP q l := by
  induction l with
  | nil => rfl
  | cons c cs ih =>
    have ih' := ih (fun x hx => h x (List.mem_cons_of_mem _ hx))
    have hc := h c List.mem_cons_self
    cases hq : q c with
    | true => rw [splitOnP_cons_sep p c cs (by rw [hc, hq]), splitOnP_cons_sep q c cs hq, ih']
    | false => rw [splitOnP_cons_other p c cs (by rw [hc, hq]), splitOnP_cons_other q c cs hq, ih']

theorem splitOnP_append_nosep (p : Nat → Bool) (a l : List Nat) (ha : ∀ c ∈ a, p c = false) :
    splitOnP p (a ++ l) = (a ++ (splitOnP p l).headD []) :: (splitOnP p l).tail := by
  induction a with
  | nil =>
    cases h : splitOnP p l with
    | nil => exact absurd h (splitOnP_ne_nil p l)
    | cons x t => simp [h]
  | cons c cs ih =>
    rw [List.cons_append, splitOnP_cons_other p c _ (ha c List.mem_cons_self),
      ih (fun x hx => ha x (List.mem_cons_of_mem _ hx))]
    simp

theorem piece_eq_enc (f : Nat → Bool) (c : Nat) : piece f c = Impl.percentEncode f [c] := by
  rw [percentEncode_cons']; simp [Impl.percentEncode]

theorem piece_no_slash (f : Nat → Bool) (c : Nat) (hc : Spec.isScalar c = true) (hne : c ≠ 0x2F) :
    ∀ x ∈ piece f c, (x == 0x2F) = false := by
  intro x hx
  rw [piece_eq_enc] at hx
  rcases percentEncode_mem f [c] (by simpa using hc) x hx with ⟨hm, -, -⟩ | h25 | hhex
  · simp only [List.mem_singleton] at hm; subst hm; simpa using hne
  · subst h25; decide
  · rw [isUpperHex_iff] at hhex
    simp only [beq_eq_false_iff_ne]; omega

/-- splitting the encoded text on '/' = encoding the pieces of the split input -/
theorem splitOnP_enc (f : Nat → Bool) (hsl : f 0x2F = true) (s : List Nat)
    (hs : ∀ c ∈ s, Spec.isScalar c = true) :
    splitOnP (· == 0x2F) (Impl.percentEncode f s) =
      (splitOnP (· == 0x2F) s).map (Impl.percentEncode f) := by
  induction s with
  | nil => rfl
  | cons c cs ih =>
    have ih' := ih (fun x hx => hs x (List.mem_cons_of_mem _ hx))
    by_cases hc : c = 0x2F
    · subst hc
      rw [percentEncode_ascii_noenc f _ _ (by omega) hsl, splitOnP_cons_sep _ _ _ (by decide),
        splitOnP_cons_sep _ _ _ (by decide), ih']
      rfl
    · rw [percentEncode_cons', splitOnP_append_nosep _ _ _
        (piece_no_slash f c (hs c List.mem_cons_self) hc), ih',
        splitOnP_cons_other _ c cs (by simpa using hc)]
      cases hsp : splitOnP (· == 0x2F) cs with
      | nil => exact absurd hsp (splitOnP_ne_nil _ cs)
      | cons h t =>
        simp only [List.map_cons, List.headD_cons, List.tail_cons, List.cons.injEq, and_true]
        rw [percentEncode_cons']

abbrev encP (t : List Nat) : List Nat := Impl.percentEncode Impl.posixPathNoEnc t

theorem posix_sub_path : ∀ c, c < 128 → Impl.posixPathNoEnc c = true → Impl.pathNoEnc c = true := by
  decide +kernel

/-- the path state's own encoding leaves the already encoded segment unchanged -/
theorem reencode_id (t : List Nat) (ht : ∀ c ∈ t, Spec.isScalar c = true) :
    Impl.percentEncode Impl.pathNoEnc (encP t) = encP t := by
  refine percentEncode_fix Impl.pathNoEnc (by decide) (hex_side _ (by decide +kernel)) ?_
  refine PctWord.mono ?_ (percentEncode_word Impl.posixPathNoEnc t ht)
  intro c hc
  simp only [Bool.and_eq_true, decide_eq_true_eq] at hc
  simp [hc.1, posix_sub_path c (by omega) hc.2]

/-- one iteration of the parse_path loop on an encoded segment: "." is dropped (an empty segment is
    appended when it is the last one), anything else is appended as it is -/
theorem pathSegment_enc (u : Url) (t : List Nat) (isLast : Bool)
    (ht : ∀ c ∈ t, Spec.isScalar c = true) (hdd : t ≠ dd) :
    Impl.pathSegment u (encP t) isLast =
      { u with path := u.path ++
          (if t = [0x2E] then (if isLast then [[]] else []) else [encP t]) } := by
  have h2 : Impl.doubleDot (encP t) = false := by
    cases h : Impl.doubleDot (encP t) with
    | false => rfl
    | true => exact absurd ((enc_doubleDot _ (by decide) (by decide) t ht).1 h) hdd
  unfold Impl.pathSegment
  rw [h2]
  simp only [Bool.false_eq_true, if_false]
  by_cases h1 : t = [0x2E]
  · have : Impl.singleDot (encP t) = true := (enc_singleDot _ (by decide) (by decide) t ht).2 h1
    rw [this, if_pos h1]
    cases isLast <;> simp
  · have : Impl.singleDot (encP t) = false := by
      cases h : Impl.singleDot (encP t) with
      | false => rfl
      | true => exact absurd ((enc_singleDot _ (by decide) (by decide) t ht).1 h) h1
    rw [this, if_neg h1]
    simp only [Bool.false_eq_true, if_false]
    have hre := reencode_id t ht
    split
    · rename_i a b he
      have hb := posix_safe t ht b (by show b ∈ encP t; rw [he]; simp)
      have : Impl.isWindowsDrive a b = false := by
        unfold SafePosix at hb
        simp only [Impl.isWindowsDrive, Bool.and_eq_false_iff, Bool.or_eq_false_iff, beq_eq_false_iff_ne]
        right; omega
      rw [this]
      simp only [Bool.and_false, Bool.false_eq_true, if_false]
      rw [hre]
    · rw [hre]

def posixPathOf : List (List Nat) → List (List Nat)
  | [] => []
  | [t] => if t = [0x2E] then [[]] else [encP t]
  | t :: rest => (if t = [0x2E] then [] else [encP t]) ++ posixPathOf rest

theorem posixPathOf_cons2 (t t2 : List Nat) (r2 : List (List Nat)) :
    posixPathOf (t :: t2 :: r2) = (if t = [0x2E] then [] else [encP t]) ++ posixPathOf (t2 :: r2) := by
  rw [posixPathOf]; simp

theorem pathSegments_cons2 (u : Url) (a b : List Nat) (r : List (List Nat)) :
    Impl.pathSegments u (a :: b :: r) = Impl.pathSegments (Impl.pathSegment u a false) (b :: r) := by
  rw [Impl.pathSegments]; simp

theorem pathSegments_enc (segs : List (List Nat)) : ∀ (u : Url),
    (∀ t ∈ segs, (∀ c ∈ t, Spec.isScalar c = true) ∧ t ≠ dd) →
    Impl.pathSegments u (segs.map encP) = { u with path := u.path ++ posixPathOf segs } := by
  induction segs with
  | nil => intro u _; simp [Impl.pathSegments, posixPathOf]
  | cons t rest ih =>
    intro u h
    obtain ⟨ht, hdd⟩ := h t List.mem_cons_self
    cases rest with
    | nil =>
      simp only [List.map_cons, List.map_nil, Impl.pathSegments, posixPathOf]
      rw [pathSegment_enc u t true ht hdd]
      by_cases h1 : t = [0x2E] <;> simp [h1]
    | cons t2 r2 =>
      rw [List.map_cons, List.map_cons, pathSegments_cons2, ← List.map_cons,
        ih _ (fun x hx => h x (List.mem_cons_of_mem _ hx)), pathSegment_enc u t false ht hdd,
        posixPathOf_cons2]
      by_cases h1 : t = [0x2E] <;> simp [h1]

theorem mem_splitOnP (p : Nat → Bool) (l : List Nat) : ∀ t ∈ splitOnP p l, ∀ c ∈ t, c ∈ l := by
  induction l with
  | nil => intro t ht c hc; simp [splitOnP] at ht; subst ht; simp at hc
  | cons a l ih =>
    intro t ht c hc
    cases hp : p a with
    | true =>
      rw [splitOnP_cons_sep p a l hp] at ht
      rcases List.mem_cons.1 ht with rfl | ht
      · simp at hc
      · exact List.mem_cons_of_mem _ (ih t ht c hc)
    | false =>
      rw [splitOnP_cons_other p a l hp] at ht
      rcases List.mem_cons.1 ht with rfl | ht
      · rcases List.mem_cons.1 hc with rfl | hc
        · exact List.mem_cons_self
        · apply List.mem_cons_of_mem
          have hne := splitOnP_ne_nil p l
          cases hs : splitOnP p l with
          | nil => exact absurd hs hne
          | cons x r =>
            rw [hs] at hc
            exact ih x (by rw [hs]; exact List.mem_cons_self) c hc
      · exact List.mem_cons_of_mem _ (ih t (List.mem_of_mem_tail ht) c hc)

/-- the path of the URL made from a POSIX path -/
theorem parsePath_posix (s' : List Nat) (hs : ∀ c ∈ s', Spec.isScalar c = true)
    (hdd : dd ∉ splitOnP (· == 0x2F) s') :
    Impl.parsePath fileUrl0 (encP s') =
      { fileUrl0 with path := posixPathOf (splitOnP (· == 0x2F) s') } := by
  unfold Impl.parsePath
  have e7 : fileUrl0.isSpecial = true := by decide
  rw [e7]
  simp only [if_true]
  rw [splitOnP_congr Impl.isSlash (· == 0x2F) (encP s') (by
    intro c hc
    have := posix_safe s' hs c hc
    unfold SafePosix at this
    simp only [Impl.isSlash]
    have : (c == 0x5C) = false := by simp only [beq_eq_false_iff_ne]; omega
    rw [this, Bool.or_false]),
    splitOnP_enc _ (by decide) s' hs,
    pathSegments_enc _ fileUrl0 (fun t ht =>
      ⟨fun c hc => hs c (mem_splitOnP _ _ t ht c hc), fun e => hdd (e ▸ ht)⟩)]
  rfl

theorem join_split (l : List Nat) :
    (splitOnP (· == 0x2F) l).flatMap (fun seg => 0x2F :: seg) = 0x2F :: l := by
  induction l with
  | nil => rfl
  | cons c cs ih =>
    by_cases hc : c = 0x2F
    · subst hc
      rw [splitOnP_cons_sep _ _ _ (by decide), List.flatMap_cons, ih]
      rfl
    · rw [splitOnP_cons_other _ c cs (by simpa using hc)]
      cases hs : splitOnP (· == 0x2F) cs with
      | nil => exact absurd hs (splitOnP_ne_nil _ cs)
      | cons h t =>
        rw [hs] at ih
        simp only [List.flatMap_cons, List.cons_append, List.cons.injEq, true_and] at ih
        simp only [List.headD_cons, List.tail_cons, List.flatMap_cons, List.cons_append, ih]

theorem posixPathOf_nodot (segs : List (List Nat)) (hne : segs ≠ []) (h : [0x2E] ∉ segs) :
    posixPathOf segs = segs.map encP := by
  induction segs with
  | nil => exact absurd rfl hne
  | cons t rest ih =>
    have ht : t ≠ [0x2E] := fun e => h (e ▸ List.mem_cons_self)
    cases rest with
    | nil => simp [posixPathOf, ht]
    | cons t2 r2 =>
      rw [posixPathOf_cons2, ih (by simp) (fun hm => h (List.mem_cons_of_mem _ hm))]
      simp [ht]

theorem flatMap_enc (segs : List (List Nat)) :
    (segs.map encP).flatMap (fun seg => 0x2F :: seg) = encP (segs.flatMap (fun seg => 0x2F :: seg)) := by
  induction segs with
  | nil => rfl
  | cons t rest ih =>
    simp only [List.map_cons, List.flatMap_cons, ih]
    show _ = encP ((0x2F :: t) ++ _)
    unfold encP
    rw [percentEncode_append, percentEncode_ascii_noenc _ _ _ (by omega) (by decide)]

theorem utf8Encode_no_nul (s : List Nat) (hs : ∀ c ∈ s, Spec.isScalar c = true) (h0 : 0 ∉ s) :
    0 ∉ Spec.utf8Encode s := by
  induction s with
  | nil => simp [Spec.utf8Encode]
  | cons c cs ih =>
    rw [utf8Encode_cons]
    intro hm
    rcases List.mem_append.1 hm with hm | hm
    · by_cases hc : c < 0x80
      · rw [utf8EncodeChar_ascii c hc] at hm
        simp only [List.mem_singleton] at hm
        exact h0 (hm ▸ List.mem_cons_self)
      · obtain ⟨b, t, e, -, -, hall⟩ := utf8EncodeChar_hi c (by omega) (scalar_le c (hs c List.mem_cons_self))
        rw [e] at hm
        have := (hall 0 hm).1
        omega
    · exact ih (fun x hx => hs x (List.mem_cons_of_mem _ hx)) (fun hx => h0 (List.mem_cons_of_mem _ hx)) hm

/-- POSIX round trip: a path without "." segments comes back as its UTF-8 bytes -/
theorem roundtrip_posix (idna : Idna) (s : List Nat) (u : Url)
    (hs : ∀ c ∈ s, Spec.isScalar c = true)
    (h : Impl.urlFromFilePath idna s .posix = some u)
    (hnd : [0x2E] ∉ splitOnP (· == 0x2F) s) :
    u.path = (splitOnP (· == 0x2F) (s.drop 1)).map encP ∧
    Impl.pathText u = encP s ∧
    Impl.pathFromFileUrl u .posix = some (Spec.utf8Encode s) := by
  rw [urlFromFilePath_posix] at h
  have hc : s.head? = some 0x2F ∧ dd ∉ splitOnP (· == 0x2F) s ∧ 0 ∉ s := by
    apply Classical.byContradiction
    intro hn
    rw [if_neg hn] at h
    cases h
  rw [if_pos hc] at h
  obtain ⟨hhead, hdd, h0⟩ := hc
  cases s with
  | nil => simp at hhead
  | cons c0 r =>
    have hc0 : c0 = 0x2F := by simpa using hhead
    subst hc0
    have hr : ∀ c ∈ r, Spec.isScalar c = true := fun c h' => hs c (List.mem_cons_of_mem _ h')
    rw [splitOnP_cons_sep _ _ _ (by decide)] at hdd hnd
    have hdd' : dd ∉ splitOnP (· == 0x2F) r := fun hm => hdd (List.mem_cons_of_mem _ hm)
    have hnd' : [0x2E] ∉ splitOnP (· == 0x2F) r := fun hm => hnd (List.mem_cons_of_mem _ hm)
    rw [percentEncode_ascii_noenc _ _ _ (by omega) (by decide),
      parse_file_url idna _ (fun c h' => by
        have := posix_safe r hr c h'
        unfold SafePosix at this; omega)] at h
    simp only [Option.some.injEq] at h
    have hp := parsePath_posix r hr hdd'
    rw [show Impl.percentEncode Impl.posixPathNoEnc r = encP r from rfl, hp,
      posixPathOf_nodot _ (splitOnP_ne_nil _ r) hnd'] at h
    have hpath : u.path = (splitOnP (· == 0x2F) r).map encP := by rw [← h]
    have htext : Impl.pathText u = encP (0x2F :: r) := by
      rw [← h]
      show ((splitOnP (· == 0x2F) r).map encP).flatMap (fun seg => 0x2F :: seg) = _
      rw [flatMap_enc, join_split]
    refine ⟨hpath, htext, ?_⟩
    have hfile : u.isFile = true := by rw [← h]; exact (by decide : fileUrl0.isFile = true)
    have hhost : u.hostText = [] := by rw [← h]; rfl
    have hdec : Impl.percentDecode (Impl.pathText u) = Spec.utf8Encode (0x2F :: r) := by
      rw [htext]; exact percentDecode_percentEncode _ _ hs (by decide)
    have hnul := utf8Encode_no_nul _ hs h0
    unfold Impl.pathFromFileUrl
    simp only [hfile, hhost, hdec, Bool.not_true, Bool.false_eq_true, if_false, ne_eq, not_true]
    have : ((Spec.utf8Encode (0x2F :: r)).any (· == 0)) = false := by
      cases ha : (Spec.utf8Encode (0x2F :: r)).any (· == 0) with
      | false => rfl
      | true => exact absurd ((any_zero_iff _).1 ha) hnul
    simp only [this, Bool.false_eq_true, if_false]

end Upa.Proofs.C17

