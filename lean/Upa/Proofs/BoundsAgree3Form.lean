import Upa.Proofs.BoundsAgree3Utf
/-
  Helper lemmas for C04h, part 7: `doParse` of `Upa/Impl/Bounds.lean` (url_search_params.h:676-738: pointers
  `it`, `start`, `pval`) = `Impl.formParse` (a state record with the flag "the current piece is non-empty").
-/
set_option linter.unusedSimpArgs false

namespace Upa.Impl.B

theorem formL_nil (st : Impl.FormSt) (acc : List Impl.BPair) : Impl.formParseAux [] st acc = st.flush acc := by
  rw [Impl.formParseAux]

theorem formL_cons (c : Nat) (r : List Nat) (st : Impl.FormSt) (acc : List Impl.BPair) :
    Impl.formParseAux (c :: r) st acc =
      if c = 0x3D then
        (if (!st.inValue) = true then Impl.formParseAux r { st with inValue := true, nonEmpty := true } acc
         else Impl.formParseAux r (st.push c) acc)
      else if c = 0x26 then Impl.formParseAux r {} (st.flush acc)
      else if c = 0x2B then Impl.formParseAux r (st.push 0x20) acc
      else if c = 0x25 ∧ Upa.Proofs.C14.hex2 r = true then
        Impl.formParseAux (r.drop 2) (st.push (hexVal (r.getD 0 0) * 16 + hexVal (r.getD 1 0))) acc
      else Impl.formParseAux r (st.push c) acc := by
  rcases r with _ | ⟨h1, _ | ⟨h2, r'⟩⟩
  · simp [Impl.formParseAux, Upa.Proofs.C14.hex2]
  · simp [Impl.formParseAux, Upa.Proofs.C14.hex2]
  · rw [Impl.formParseAux]
    simp only [Upa.Proofs.C14.hex2, List.drop_succ_cons, List.drop_zero, List.getD_cons_zero, List.getD_cons_succ]
    by_cases c1 : c = 0x3D
    · simp only [if_pos c1]
    · by_cases c2 : c = 0x26
      · simp only [if_neg c1, if_pos c2]
      · by_cases c3 : c = 0x2B
        · simp only [if_neg c1, if_neg c2, if_pos c3]
        · simp only [if_neg c1, if_neg c2, if_neg c3]
          by_cases c4 : c = 0x25
          · rw [if_pos c4]
            by_cases hx : (isHex h1 && isHex h2) = true
            · rw [if_pos hx, if_pos ⟨c4, hx⟩]
            · rw [if_neg hx, if_neg (fun hh => hx hh.2)]
          · rw [if_neg c4, if_neg (fun hh => c4 hh.1)]

/-- the state record of the list model that corresponds to the pointers -/
def toForm (start it : Nat) (inValue : Bool) (name value : List Nat) : Impl.FormSt :=
  { name := name, value := value, inValue := inValue, nonEmpty := decide (start ≠ it) }

theorem toForm_push (start it : Nat) (inValue : Bool) (name value : List Nat) (c : Nat) (h : start ≤ it) :
    (toForm start it inValue name value).push c =
      (if inValue = true then toForm start (it + 1) inValue name (value ++ [c])
       else toForm start (it + 1) inValue (name ++ [c]) value) := by
  have : decide (start ≠ it + 1) = true := by simp; omega
  cases inValue <;> simp [Impl.FormSt.push, toForm, this]

theorem bytes_toArray (l : List Nat) (h : ∀ x ∈ l, x < 256) : ∀ i, 0 ≤ i → i < l.length → l.toArray[i]! < 256 := by
  intro i _ hi
  have : l.toArray[i]! ∈ l := by
    rw [getElem!_pos l.toArray i (by simpa using hi)]
    simp
  exact h _ this

theorem doParse_agrees (remQmark : Bool) (a : Array Nat) (first last : Nat) (h : first ≤ last) (hl : last ≤ a.size)
    (hb : ∀ i, first ≤ i → i < last → a[i]! < 256) :
    doParse remQmark a first last = .ok (Impl.formParse remQmark (slice a first last)) := by
  apply R.sat_eq
  unfold doParse
  -- the flush at `&` and at the end
  have hflush : ∀ (start it : Nat) (inValue : Bool) (name value : List Nat) (lst : List (List Nat × List Nat)),
      (∀ x ∈ name, x < 256) → (∀ x ∈ value, x < 256) →
      (if start ≠ it then do
          let n ← checkFixUtf8 name.toArray 0 name.length
          let v ← checkFixUtf8 value.toArray 0 value.length
          pure (lst ++ [(n, v)])
        else pure lst : R (List (List Nat × List Nat))) = .ok ((toForm start it inValue name value).flush lst) := by
    intro start it inValue name value lst hn hv
    by_cases hs : start ≠ it
    · rw [if_pos hs, checkFixUtf8_agrees name.toArray 0 name.length (Nat.zero_le _) (by simp) (bytes_toArray name hn),
        checkFixUtf8_agrees value.toArray 0 value.length (Nat.zero_le _) (by simp) (bytes_toArray value hv),
        slice_ofList, slice_ofList]
      simp [Impl.FormSt.flush, toForm, hs]
      rfl
    · rw [if_neg hs]
      have : start = it := by
        apply Classical.byContradiction
        intro hh; exact hs hh
      simp [Impl.FormSt.flush, toForm, this]
      rfl
  refine R.sat_bind (P := fun b => first ≤ b ∧ b ≤ last ∧
      Impl.formParse remQmark (slice a first last) = Impl.formParseAux (slice a b last) {} []) ?_ ?_
  · by_cases hq : remQmark = true ∧ first ≠ last
    · rw [if_pos hq]
      have hlt : first < last := by omega
      simp only [rd_ok (Nat.le_refl _) hlt hl, R.ok_bind]
      rw [slice_cons a first last hlt hl]
      split
      · rename_i hc
        psimp
        refine R.sat_pure ⟨by omega, by omega, ?_⟩
        simp only [Impl.formParse, hq.1, hc]
      · rename_i hc
        refine R.sat_pure ⟨Nat.le_refl _, h, ?_⟩
        rw [← slice_cons a first last hlt hl]
        unfold Impl.formParse
        split
        · rename_i heq
          rw [slice_cons a first last hlt hl] at heq
          simp only [List.cons.injEq] at heq
          exact absurd heq.1 hc
        · rfl
    · rw [if_neg hq]
      refine R.sat_pure ⟨Nat.le_refl _, h, ?_⟩
      unfold Impl.formParse
      split
      · rename_i heq
        have : first = last := by
          apply Classical.byContradiction
          intro hh; exact hq ⟨rfl, hh⟩
        rw [slice_nil a first last (by omega)] at heq
        cases heq
      · rfl
  intro b ⟨hb1, hb2, hT0⟩
  rw [hT0]
  refine R.sat_bind (iter_sat _
    (fun s => b ≤ s.2.1 ∧ s.2.1 ≤ s.1 ∧ s.1 ≤ last ∧ (∀ x ∈ s.2.2.2.1, x < 256) ∧ (∀ x ∈ s.2.2.2.2.1, x < 256) ∧
      Impl.formParseAux (slice a s.1 last) (toForm s.2.1 s.1 s.2.2.1 s.2.2.2.1 s.2.2.2.2.1) s.2.2.2.2.2 =
        Impl.formParseAux (slice a b last) {} [])
    (fun s => last - s.1)
    (fun r => (∀ x ∈ r.2.1, x < 256) ∧ (∀ x ∈ r.2.2.1, x < 256) ∧ ∃ inValue,
      (toForm r.1 last inValue r.2.1 r.2.2.1).flush r.2.2.2 = Impl.formParseAux (slice a b last) {} [])
    ?_ _ _ ?_ ?_) ?_
  · intro ⟨it, start, inValue, name, value, lst⟩ ⟨j0, j1, j2, jn, jv, jT⟩
    simp only at j0 j1 j2 jn jv jT ⊢
    split
    · rename_i hit
      refine R.sat_pure ⟨jn, jv, inValue, ?_⟩
      simp only []
      rw [hit, slice_nil a last last (Nat.le_refl _), formL_nil] at jT
      exact jT
    rename_i hit
    have hlt : it < last := by omega
    have hc256 : a[it]! < 256 := hb it (by omega) hlt
    simp only [rd_ok (by omega : first ≤ it) hlt hl, R.ok_bind]
    rw [slice_cons a it last hlt hl, formL_cons] at jT
    have hmem : ∀ (l : List Nat) (c : Nat), (∀ x ∈ l, x < 256) → c < 256 → ∀ x ∈ l ++ [c], x < 256 := by
      intro l c hl' hc x hx
      rcases List.mem_append.1 hx with hx | hx
      · exact hl' x hx
      · simp only [List.mem_singleton] at hx; rw [hx]; exact hc
    -- `pval->push_back(c); break;` and the `++it` of the for statement
    have hpushEq : ∀ c' : Nat,
        (do let it' ← mkptr first last (it + 1)
            if inValue = true then pure (Sum.inl (it', start, inValue, name, value ++ [c'], lst))
            else pure (Sum.inl (it', start, inValue, name ++ [c'], value, lst)) :
          R (ParseSt ⊕ (Nat × List Nat × List Nat × List (List Nat × List Nat)))) =
        .ok (.inl (it + 1, start, inValue, (if inValue = true then name else name ++ [c']),
          (if inValue = true then value ++ [c'] else value), lst)) := by
      intro c'
      psimp
      cases inValue <;> rfl
    have hpushEq2 : ∀ c' : Nat,
        (if inValue = true then pure (Sum.inl (it + 1, start, inValue, name, value ++ [c'], lst))
            else pure (Sum.inl (it + 1, start, inValue, name ++ [c'], value, lst)) :
          R (ParseSt ⊕ (Nat × List Nat × List Nat × List (List Nat × List Nat)))) =
        .ok (.inl (it + 1, start, inValue, (if inValue = true then name else name ++ [c']),
          (if inValue = true then value ++ [c'] else value), lst)) := by
      intro c'
      cases inValue <;> rfl
    have hinv : ∀ c' : Nat, c' < 256 →
        Impl.formParseAux (slice a (it + 1) last) ((toForm start it inValue name value).push c') lst =
          Impl.formParseAux (slice a b last) {} [] →
        (b ≤ start ∧ start ≤ it + 1 ∧ it + 1 ≤ last ∧
          (∀ x ∈ (if inValue = true then name else name ++ [c']), x < 256) ∧
          (∀ x ∈ (if inValue = true then value ++ [c'] else value), x < 256) ∧
          Impl.formParseAux (slice a (it + 1) last) (toForm start (it + 1) inValue
            (if inValue = true then name else name ++ [c']) (if inValue = true then value ++ [c'] else value)) lst =
            Impl.formParseAux (slice a b last) {} []) ∧ last - (it + 1) < last - it := by
      intro c' hc' hT
      rw [toForm_push _ _ _ _ _ _ j1] at hT
      cases inValue with
      | true =>
        simp only [if_true] at hT ⊢
        exact ⟨⟨j0, by omega, by omega, jn, hmem _ _ jv hc', hT⟩, by omega⟩
      | false =>
        simp only [Bool.false_eq_true, if_false] at hT ⊢
        exact ⟨⟨j0, by omega, by omega, hmem _ _ jn hc', jv, hT⟩, by omega⟩
    split
    · rename_i hc
      rw [if_pos hc] at jT
      split
      · rename_i hiv
        have hiv' : inValue = false := by simpa using hiv
        subst hiv'
        rw [if_pos (by rfl)] at jT
        psimp
        refine R.sat_pure ⟨⟨j0, by rarith, by rarith, jn, jv, ?_⟩, by rarith⟩
        simp only []
        rw [← jT]
        congr 1
        have : decide (start ≠ it + 1) = true := by simp; omega
        simp [toForm, this]
      · rename_i hiv
        rw [if_neg (by exact hiv)] at jT
        ((first | rw [hpushEq] | rw [hpushEq2]); exact R.sat_ok (hinv _ hc256 jT))
    rename_i hc
    rw [if_neg hc] at jT
    split
    · rename_i hamp
      rw [if_pos hamp] at jT
      have hfl := hflush start it inValue name value lst jn jv
      rw [hfl]
      simp only [R.ok_bind]
      psimp
      refine R.sat_pure ⟨⟨by rarith, by rarith, by rarith, by simp, by simp, ?_⟩, by rarith⟩
      simp only []
      rw [← jT]
      congr 1
      simp [toForm]
    rename_i hamp
    rw [if_neg hamp] at jT
    split
    · rename_i hplus
      rw [if_pos hplus] at jT
      ((first | rw [hpushEq] | rw [hpushEq2]); exact R.sat_ok (hinv _ (by decide) jT))
    rename_i hplus
    rw [if_neg hplus] at jT
    have hx2 := hex2_slice a (it + 1) last (by omega) hl
    split
    · rename_i hpct
      split
      · rename_i hdist
        psimp
        simp only [rd_ok (by omega : first ≤ it + 1) (by omega : it + 1 < last) hl,
          rd_ok (by omega : first ≤ it + 1 + 1) (by omega : it + 1 + 1 < last) hl, R.ok_bind,
          Nat.mod_eq_of_lt (hb (it + 1) (by omega) (by omega)), Nat.mod_eq_of_lt (hb (it + 1 + 1) (by omega) (by omega))]
        split
        · rename_i hhex
          simp only [Bool.and_eq_true] at hhex
          have hh2 : Upa.Proofs.C14.hex2 (slice a (it + 1) last) = true := by
            rw [hx2]; simp; exact ⟨by omega, hhex.1, hhex.2⟩
          rw [if_pos ⟨hpct, hh2⟩, slice_cons a (it + 1) last (by omega) hl, slice_cons a (it + 1 + 1) last (by omega) hl] at jT
          simp only [List.drop_succ_cons, List.drop_zero, List.getD_cons_zero, List.getD_cons_succ] at jT
          have b1 := Upa.Proofs.C14.isHex_lt _ hhex.1
          have b2 := Upa.Proofs.C14.isHex_lt _ hhex.2
          have hv := hexByte_lt _ _ hhex.1 hhex.2
          simp only [idx_ok (by omega : a[it + 1]! / 0x20 < 8), idx_ok (by omega : a[it + 1 + 1]! / 0x20 < 8), R.ok_bind,
            Nat.mod_eq_of_lt hv]
          psimp
          rw [toForm_push _ _ _ _ _ _ j1] at jT
          cases inValue with
          | true =>
            simp only [if_true] at jT ⊢
            refine R.sat_pure ⟨⟨j0, by rarith, by rarith, jn, hmem _ _ jv hv, ?_⟩, by rarith⟩
            simp only []
            rw [← jT]
            congr 1
            have d1 : decide (start ≠ it + 1) = true := by simp; omega
            have d2 : decide (start ≠ it + 1 + 1 + 1) = true := by simp; omega
            simp [toForm, d1, d2]
          | false =>
            simp only [Bool.false_eq_true, if_false] at jT ⊢
            refine R.sat_pure ⟨⟨j0, by rarith, by rarith, hmem _ _ jn hv, jv, ?_⟩, by rarith⟩
            simp only []
            rw [← jT]
            congr 1
            have d1 : decide (start ≠ it + 1) = true := by simp; omega
            have d2 : decide (start ≠ it + 1 + 1 + 1) = true := by simp; omega
            simp [toForm, d1, d2]
        · rename_i hhex
          have hh2 : ¬ (Upa.Proofs.C14.hex2 (slice a (it + 1) last) = true) := by
            rw [hx2]
            simp only [decide_eq_true_eq]
            intro hh
            exact hhex (by simp [hh.2.1, hh.2.2])
          rw [if_neg (fun hh => hh2 hh.2)] at jT
          ((first | rw [hpushEq] | rw [hpushEq2]); exact R.sat_ok (hinv _ hc256 jT))
      · rename_i hdist
        have hh2 : ¬ (Upa.Proofs.C14.hex2 (slice a (it + 1) last) = true) := by
          rw [hx2]
          simp only [decide_eq_true_eq]
          intro hh
          omega
        rw [if_neg (fun hh => hh2 hh.2)] at jT
        ((first | rw [hpushEq] | rw [hpushEq2]); exact R.sat_ok (hinv _ hc256 jT))
    · rename_i hpct
      rw [if_neg (fun hh => hpct hh.1)] at jT
      ((first | rw [hpushEq] | rw [hpushEq2]); exact R.sat_ok (hinv _ hc256 jT))
  · refine ⟨Nat.le_refl _, Nat.le_refl _, hb2, by simp, by simp, ?_⟩
    simp only []
    congr 1
    simp [toForm]
  · rarith
  intro ⟨start, name, value, lst⟩ ⟨hn, hv, inValue, hT⟩
  simp only at hn hv hT ⊢
  have hfl := hflush start last inValue name value lst hn hv
  rw [hfl, hT]
  exact R.sat_ok rfl

end Upa.Impl.B
