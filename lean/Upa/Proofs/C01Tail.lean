import Upa.Proofs.C01Run
import Upa.Proofs.C01Seg
/-
  C01 — simulations for the tail states of the basic URL parser: fragment, query, opaque path, path,
  path start.  Statement shape: `SimAt` (Upa/Proofs/C01Run.lean).  All for an arbitrary state override
  `ov : Option Override` (`none` = plain parsing) and arbitrary flags:

    sim_fragment   : SimAt idna base ov .fragment   1 1 (fun k => k.url.fragment = some []) Impl.fragmentState
    sim_query      : SimAt idna base ov .query      1 1 (fun k => k.url.query.getD [] = []) (Impl.queryState ov)
    sim_opaquePath : SimAt idna base ov .opaquePath 1 1 (fun _ => True) (Impl.opaquePathState ov)
    sim_path       : SimAt idna base ov .path       1 1 (fun _ => True) (Impl.pathState ov)
    sim_pathStart  : SimAt idna base ov .pathStart  1 2 (fun _ => True) (Impl.pathStartState ov)

  Method per state: `step_*` lemmas give `Spec.step` on an explicit configuration in terms of `inp[i]?`;
  a `run_*` lemma (induction on the remaining input, buffer/accumulator generalised) relates `Spec.run`
  to a list-recursive scan (`qres`, `ores`, `pres`); a `*_eq` lemma identifies the scan with the code
  block (takeWhile/dropWhile, `parsePath` = `pathLoop`, segment lemma `segUrl_eq` from C01Seg.lean).
-/
namespace Upa.Proofs.C01
open Upa.Spec (State Cfg StepResult step run)

/-! ## fragment state -/

section fragment
variable (idna : Idna) (inp : Array Nat) (base : Option Url) (ov : Option State)

theorem step_fragment (u : Url) (buf : List Nat) (f1 f2 f3 : Bool) (i : Nat) :
    step idna inp base ov ⟨u, .fragment, buf, f1, f2, f3, (i : Int)⟩ =
      match inp[i]? with
      | some ch =>
        .continue ⟨{ u with fragment := some (u.fragment.getD [] ++ Spec.utf8PercentEncodeChar Spec.fragmentSet ch) },
          .fragment, buf, f1, f2, f3, (i : Int)⟩
      | none => .continue ⟨u, .fragment, buf, f1, f2, f3, (i : Int)⟩ := by
  unfold step
  simp only [Int.toNat_natCast]
  split <;> simp_all

theorem run_fragment : ∀ (r : List Nat) (i : Nat) (u : Url) (buf : List Nat) (f1 f2 f3 : Bool)
    (acc : List Nat) (fuel : Nat),
    inp.toList.drop i = r → u.fragment = some acc → fuel ≥ r.length + 1 →
    run idna inp base ov fuel ⟨u, .fragment, buf, f1, f2, f3, (i : Int)⟩ =
      (some { u with fragment := some (acc ++ Spec.utf8PercentEncode Spec.fragmentSet r) },
       { u with fragment := some (acc ++ Spec.utf8PercentEncode Spec.fragmentSet r) }) := by
  intro r
  induction r with
  | nil =>
    intro i u buf f1 f2 f3 acc fuel hr hacc hf
    obtain ⟨f, rfl, _⟩ := fuel_succ hf
    obtain ⟨hc, hsz⟩ := getElem?_of_drop_nil hr
    have hst := step_fragment idna inp base ov u buf f1 f2 f3 i
    rw [hc] at hst
    refine (run_stop f hst (by simp only; omega)).trans ?_
    have : u = { u with fragment := some (acc ++ Spec.utf8PercentEncode Spec.fragmentSet []) } := by
      cases u; simp_all [Spec.utf8PercentEncode]
    rw [← this]
  | cons c cs ih =>
    intro i u buf f1 f2 f3 acc fuel hr hacc hf
    obtain ⟨f, rfl, hf'⟩ := fuel_succ hf
    obtain ⟨hc, hsz, hr'⟩ := getElem?_of_drop_cons hr
    have hst := step_fragment idna inp base ov u buf f1 f2 f3 i
    rw [hc] at hst
    refine (run_continue' (j := i + 1) f hst (by simp) hsz).trans ?_
    refine (ih (i + 1) _ buf f1 f2 f3 (acc ++ Spec.utf8PercentEncodeChar Spec.fragmentSet c) f hr'
      (by simp [hacc]) (by simpa using hf')).trans ?_
    simp [Spec.utf8PercentEncode, List.append_assoc]

end fragment

theorem enc_fragment (p : List Nat) (hp : ∀ c ∈ p, Spec.isScalar c = true) :
    Impl.percentEncode Impl.fragmentNoEnc p = Spec.utf8PercentEncode Spec.fragmentSet p :=
  C14.percentEncode_eq_spec Spec.fragmentSet C14.fragment_hi p hp

theorem sim_fragment (idna : Idna) (base : Option Url) (ov : Option Override) :
    SimAt idna base ov .fragment 1 1 (fun k => k.url.fragment = some []) Impl.fragmentState := by
  intro inp k i fuel hs hb hp hpre hi hsc hf
  obtain ⟨u, st, buf, f1, f2, f3, p⟩ := k
  simp only at hs hb hp hpre
  subst hs hb hp
  refine (run_fragment idna inp base _ _ i u [] f1 f2 f3 [] fuel rfl hpre ?_).trans ?_
  · simp only [List.length_drop, Array.length_toList]; omega
  · simp [Impl.fragmentState, enc_fragment _ (drop_scalar hsc rfl)]

/-! ## query state -/

/-- the percent-encode set of the query state -/
def qset (u : Url) : Nat → Bool := if Spec.isSpecial u then Spec.specialQuerySet else Spec.querySet

def setq (u : Url) (buf : List Nat) : Url :=
  { u with query := some (u.query.getD [] ++ Spec.utf8PercentEncode (qset u) buf) }

section query
variable (idna : Idna) (inp : Array Nat) (base : Option Url) (ov : Option State)

theorem step_query_other (u : Url) (buf : List Nat) (f1 f2 f3 : Bool) (i c : Nat)
    (hc : inp[i]? = some c) (h : ov.isSome ∨ c ≠ 0x23) :
    step idna inp base ov ⟨u, .query, buf, f1, f2, f3, (i : Int)⟩ =
      .continue ⟨u, .query, buf ++ [c], f1, f2, f3, (i : Int)⟩ := by
  unfold step
  simp only [Int.toNat_natCast, ptr_neg, if_false, hc]
  rcases h with h | h
  · cases ov <;> simp_all
  · simp [h]

theorem step_query_hash (u : Url) (buf : List Nat) (f1 f2 f3 : Bool) (i : Nat)
    (hc : inp[i]? = some 0x23) (h : ov = none) :
    step idna inp base ov ⟨u, .query, buf, f1, f2, f3, (i : Int)⟩ =
      .continue ⟨{ setq u buf with fragment := some [] }, .fragment, [], f1, f2, f3, (i : Int)⟩ := by
  unfold step
  simp only [Int.toNat_natCast, ptr_neg, if_false, hc, h]
  simp [setq, qset]

theorem step_query_eof (u : Url) (buf : List Nat) (f1 f2 f3 : Bool) (i : Nat)
    (hc : inp[i]? = none) :
    step idna inp base ov ⟨u, .query, buf, f1, f2, f3, (i : Int)⟩ =
      .continue ⟨setq u buf, .query, [], f1, f2, f3, (i : Int)⟩ := by
  unfold step
  simp only [Int.toNat_natCast, ptr_neg, if_false, hc]
  simp [setq, qset]

end query

/-- the query state as a scan of the remaining input with the buffer made explicit -/
def qres (ov : Option Override) (u : Url) (buf : List Nat) : List Nat → Res
  | [] => ⟨.ok, setq u buf⟩
  | c :: cs =>
    if ov.isNone ∧ c = 0x23 then Impl.fragmentState (setq u buf) cs else qres ov u (buf ++ [c]) cs

theorem run_query (idna : Idna) (inp : Array Nat) (base : Option Url) (ov : Option Override)
    (hsc : ∀ x ∈ inp.toList, Spec.isScalar x = true) :
    ∀ (r : List Nat) (i : Nat) (u : Url) (buf : List Nat) (f1 f2 f3 : Bool) (fuel : Nat),
    inp.toList.drop i = r → fuel ≥ r.length + 1 →
    run idna inp base (ov.map ovState) fuel ⟨u, .query, buf, f1, f2, f3, (i : Int)⟩ =
      resOf ov (qres ov u buf r) := by
  intro r
  induction r with
  | nil =>
    intro i u buf f1 f2 f3 fuel hr hf
    obtain ⟨f, rfl, _⟩ := fuel_succ hf
    obtain ⟨hc, hsz⟩ := getElem?_of_drop_nil hr
    refine (run_stop f (step_query_eof idna inp base _ u buf f1 f2 f3 i hc) (by simp only; omega)).trans ?_
    simp [qres]
  | cons c cs ih =>
    intro i u buf f1 f2 f3 fuel hr hf
    obtain ⟨hc, hsz, hr'⟩ := getElem?_of_drop_cons hr
    by_cases hh : ov.isNone ∧ c = 0x23
    · obtain ⟨hov, rfl⟩ := hh
      have hst := step_query_hash idna inp base (ov.map ovState) u buf f1 f2 f3 i hc (by cases ov <;> simp_all)
      refine ((sim_fragment idna base ov).after_step (j := i + 1) hst rfl rfl (by simp) rfl hsz hsc ?_).trans ?_
      · have := drop_length hr'; simp only [List.length_cons] at hf; omega
      · simp [qres, hov, fragmentState_setFragment, hr']
    · obtain ⟨f, rfl, hf'⟩ := fuel_succ hf
      have hst := step_query_other idna inp base (ov.map ovState) u buf f1 f2 f3 i c hc
        (by cases ov <;> simp_all)
      refine (run_continue' (j := i + 1) f hst (by simp) hsz).trans ?_
      refine (ih (i + 1) u _ f1 f2 f3 f hr' (by simpa using hf')).trans ?_
      rw [qres, if_neg hh]

theorem enc_query (p : List Nat) (hp : ∀ c ∈ p, Spec.isScalar c = true) :
    Impl.percentEncode Impl.queryNoEnc p = Spec.utf8PercentEncode Spec.querySet p :=
  C14.percentEncode_eq_spec Spec.querySet C14.query_hi p hp

theorem enc_specialQuery (p : List Nat) (hp : ∀ c ∈ p, Spec.isScalar c = true) :
    Impl.percentEncode Impl.specialQueryNoEnc p = Spec.utf8PercentEncode Spec.specialQuerySet p :=
  C14.percentEncode_eq_spec Spec.specialQuerySet C14.specialQuery_hi p hp

theorem setq_eq (u : Url) (q : List Nat) (hq : u.query.getD [] = []) (hs : ∀ c ∈ q, Spec.isScalar c = true) :
    setq u q = { u with query := some (Impl.percentEncode
      (if u.isSpecial then Impl.specialQueryNoEnc else Impl.queryNoEnc) q) } := by
  unfold setq qset
  rw [hq]
  show _ = { u with query := some (Impl.percentEncode
      (if Spec.isSpecial u then Impl.specialQueryNoEnc else Impl.queryNoEnc) q) }
  split
  · rw [enc_specialQuery q hs]; rfl
  · rw [enc_query q hs]; rfl

theorem qres_eq (ov : Option Override) (u : Url) : ∀ (r buf : List Nat),
    qres ov u buf r =
      (match (if ov.isSome then [] else r.dropWhile (· != 0x23)) with
       | [] => ⟨.ok, setq u (buf ++ (if ov.isSome then r else r.takeWhile (· != 0x23)))⟩
       | _ :: t => Impl.fragmentState (setq u (buf ++ (if ov.isSome then r else r.takeWhile (· != 0x23)))) t) := by
  intro r
  induction r with
  | nil => intro buf; cases ov <;> simp [qres]
  | cons c cs ih =>
    intro buf
    unfold qres
    by_cases hh : ov.isNone ∧ c = 0x23
    · obtain ⟨hov, rfl⟩ := hh
      cases ov <;> simp_all
    · rw [if_neg hh, ih]
      cases ov with
      | some o => simp
      | none =>
        have : c ≠ 0x23 := by simpa using hh
        simp [this]

theorem sim_query (idna : Idna) (base : Option Url) (ov : Option Override) :
    SimAt idna base ov .query 1 1 (fun k => k.url.query.getD [] = []) (Impl.queryState ov) := by
  intro inp k i fuel hs hb hp hpre hi hsc hf
  obtain ⟨u, st, buf, f1, f2, f3, p⟩ := k
  simp only at hs hb hp hpre
  subst hs hb hp
  refine (run_query idna inp base ov hsc _ i u [] f1 f2 f3 fuel rfl ?_).trans ?_
  · simp only [List.length_drop, Array.length_toList]; omega
  · congr 1
    rw [qres_eq]
    have hsr := drop_scalar hsc (rfl : inp.toList.drop i = _)
    unfold Impl.queryState
    simp only [List.nil_append]
    rw [setq_eq u _ hpre]
    · rfl
    · intro c hc
      split at hc
      · exact hsr c hc
      · exact hsr c (List.takeWhile_subset _ hc)


/-! ## opaque path state -/

section opaquePath
variable (idna : Idna) (inp : Array Nat) (base : Option Url) (ov : Option State)

theorem step_opaque_q (u : Url) (buf : List Nat) (f1 f2 f3 : Bool) (i : Nat) (hc : inp[i]? = some 0x3F) :
    step idna inp base ov ⟨u, .opaquePath, buf, f1, f2, f3, (i : Int)⟩ =
      .continue ⟨{ u with query := some [] }, .query, buf, f1, f2, f3, (i : Int)⟩ := by
  unfold step
  simp only [Int.toNat_natCast, ptr_neg, if_false, hc]
  simp

theorem step_opaque_h (u : Url) (buf : List Nat) (f1 f2 f3 : Bool) (i : Nat) (hc : inp[i]? = some 0x23) :
    step idna inp base ov ⟨u, .opaquePath, buf, f1, f2, f3, (i : Int)⟩ =
      .continue ⟨{ u with fragment := some [] }, .fragment, buf, f1, f2, f3, (i : Int)⟩ := by
  unfold step
  simp only [Int.toNat_natCast, ptr_neg, if_false, hc]
  simp

theorem step_opaque_other (u : Url) (buf : List Nat) (f1 f2 f3 : Bool) (i c : Nat) (hc : inp[i]? = some c)
    (h1 : c ≠ 0x3F) (h2 : c ≠ 0x23) :
    step idna inp base ov ⟨u, .opaquePath, buf, f1, f2, f3, (i : Int)⟩ =
      .continue ⟨{ u with opaquePath := u.opaquePath ++ Spec.utf8PercentEncodeChar Spec.c0ControlSet c },
        .opaquePath, buf, f1, f2, f3, (i : Int)⟩ := by
  unfold step
  simp only [Int.toNat_natCast, ptr_neg, if_false, hc]
  simp [h1, h2]

theorem step_opaque_eof (u : Url) (buf : List Nat) (f1 f2 f3 : Bool) (i : Nat) (hc : inp[i]? = none) :
    step idna inp base ov ⟨u, .opaquePath, buf, f1, f2, f3, (i : Int)⟩ =
      .continue ⟨u, .opaquePath, buf, f1, f2, f3, (i : Int)⟩ := by
  unfold step
  simp only [Int.toNat_natCast, ptr_neg, if_false, hc]
  simp

end opaquePath

def ores (ov : Option Override) : Url → List Nat → Res
  | u, [] => ⟨.ok, u⟩
  | u, c :: cs =>
    if c = 0x3F then Impl.queryState ov u cs
    else if c = 0x23 then Impl.fragmentState u cs
    else ores ov { u with opaquePath := u.opaquePath ++ Spec.utf8PercentEncodeChar Spec.c0ControlSet c } cs

theorem run_opaque (idna : Idna) (inp : Array Nat) (base : Option Url) (ov : Option Override)
    (hsc : ∀ x ∈ inp.toList, Spec.isScalar x = true) :
    ∀ (r : List Nat) (i : Nat) (u : Url) (f1 f2 f3 : Bool) (fuel : Nat),
    inp.toList.drop i = r → fuel ≥ r.length + 1 →
    run idna inp base (ov.map ovState) fuel ⟨u, .opaquePath, [], f1, f2, f3, (i : Int)⟩ =
      resOf ov (ores ov u r) := by
  intro r
  induction r with
  | nil =>
    intro i u f1 f2 f3 fuel hr hf
    obtain ⟨f, rfl, _⟩ := fuel_succ hf
    obtain ⟨hc, hsz⟩ := getElem?_of_drop_nil hr
    refine (run_stop f (step_opaque_eof idna inp base _ u [] f1 f2 f3 i hc) (by simp only; omega)).trans ?_
    simp [ores]
  | cons c cs ih =>
    intro i u f1 f2 f3 fuel hr hf
    obtain ⟨hc, hsz, hr'⟩ := getElem?_of_drop_cons hr
    have hlen := drop_length hr'
    simp only [List.length_cons] at hf
    by_cases h1 : c = 0x3F
    · subst h1
      have hst := step_opaque_q idna inp base (ov.map ovState) u [] f1 f2 f3 i hc
      refine ((sim_query idna base ov).after_step (j := i + 1) hst rfl rfl (by simp) rfl hsz hsc
        (by omega)).trans ?_
      simp [ores, queryState_setQuery, hr']
    · by_cases h2 : c = 0x23
      · subst h2
        have hst := step_opaque_h idna inp base (ov.map ovState) u [] f1 f2 f3 i hc
        refine ((sim_fragment idna base ov).after_step (j := i + 1) hst rfl rfl (by simp) rfl hsz hsc
          (by omega)).trans ?_
        simp [ores, fragmentState_setFragment, hr']
      · obtain ⟨f, rfl, hf'⟩ := fuel_succ hf
        have hst := step_opaque_other idna inp base (ov.map ovState) u [] f1 f2 f3 i c hc h1 h2
        refine (run_continue' (j := i + 1) f hst (by simp) hsz).trans ?_
        refine (ih (i + 1) _ f1 f2 f3 f hr' (by omega)).trans ?_
        rw [ores, if_neg h1, if_neg h2]

theorem url_opaque_nil (u : Url) : { u with opaquePath := u.opaquePath ++ [] } = u := by
  cases u; simp

theorem ores_eq (ov : Option Override) : ∀ (r : List Nat) (u : Url),
    (∀ c ∈ r, Spec.isScalar c = true) → ores ov u r = Impl.opaquePathState ov u r := by
  intro r
  induction r with
  | nil =>
    intro u _
    simp [ores, Impl.opaquePathState, Impl.afterPath, Impl.percentEncodeC0]
  | cons c cs ih =>
    intro u hs
    unfold ores
    by_cases h1 : c = 0x3F
    · subst h1
      simp [Impl.opaquePathState, Impl.afterPath, Impl.percentEncodeC0, Impl.isQorH]
    · by_cases h2 : c = 0x23
      · subst h2
        simp [Impl.opaquePathState, Impl.afterPath, Impl.percentEncodeC0, Impl.isQorH]
      · rw [if_neg h1, if_neg h2, ih _ (fun x hx => hs x (List.mem_cons_of_mem _ hx))]
        have hq : Impl.isQorH c = false := by simp [Impl.isQorH, h1, h2]
        unfold Impl.opaquePathState
        simp only [List.takeWhile_cons, List.dropWhile_cons, hq, Bool.not_false, if_true]
        rw [C14.percentEncodeC0_cons, C14.c0_char_eq c (C14.scalar_le c (hs c List.mem_cons_self))]
        simp only [List.append_assoc]

theorem sim_opaquePath (idna : Idna) (base : Option Url) (ov : Option Override) :
    SimAt idna base ov .opaquePath 1 1 (fun _ => True) (Impl.opaquePathState ov) := by
  intro inp k i fuel hs hb hp _ hi hsc hf
  obtain ⟨u, st, buf, f1, f2, f3, p⟩ := k
  simp only at hs hb hp
  subst hs hb hp
  refine (run_opaque idna inp base ov hsc _ i u f1 f2 f3 fuel rfl ?_).trans ?_
  · simp only [List.length_drop, Array.length_toList]; omega
  · rw [ores_eq ov _ u (drop_scalar hsc rfl)]

/-! ## path state -/

section path
variable (idna : Idna) (inp : Array Nat) (base : Option Url) (ov : Option State)

theorem step_path_eof (u : Url) (buf : List Nat) (f1 f2 f3 : Bool) (i : Nat) (hc : inp[i]? = none) :
    step idna inp base ov ⟨u, .path, buf, f1, f2, f3, (i : Int)⟩ =
      .continue ⟨segUrl u buf false, .path, [], f1, f2, f3, (i : Int)⟩ := by
  unfold step
  simp only [Int.toNat_natCast, ptr_neg, if_false, hc]
  simp [segUrl]

theorem step_path_sep (u : Url) (buf : List Nat) (f1 f2 f3 : Bool) (i c : Nat) (hc : inp[i]? = some c)
    (hsep : pathSep (Spec.isSpecial u) c = true) :
    step idna inp base ov ⟨u, .path, buf, f1, f2, f3, (i : Int)⟩ =
      .continue ⟨segUrl u buf true, .path, [], f1, f2, f3, (i : Int)⟩ := by
  have h1 : c ≠ 0x3F := by intro h; subst h; simp [pathSep] at hsep
  have h2 : c ≠ 0x23 := by intro h; subst h; simp [pathSep] at hsep
  unfold step
  simp only [Int.toNat_natCast, ptr_neg, if_false, hc]
  simp only [pathSep] at hsep
  simp [segUrl, hsep, h1, h2]

theorem step_path_q (u : Url) (buf : List Nat) (f1 f2 f3 : Bool) (i : Nat) (hc : inp[i]? = some 0x3F)
    (hov : ov = none) :
    step idna inp base ov ⟨u, .path, buf, f1, f2, f3, (i : Int)⟩ =
      .continue ⟨{ segUrl u buf false with query := some [] }, .query, [], f1, f2, f3, (i : Int)⟩ := by
  unfold step
  simp only [Int.toNat_natCast, ptr_neg, if_false, hc, hov]
  simp [segUrl]

theorem step_path_h (u : Url) (buf : List Nat) (f1 f2 f3 : Bool) (i : Nat) (hc : inp[i]? = some 0x23)
    (hov : ov = none) :
    step idna inp base ov ⟨u, .path, buf, f1, f2, f3, (i : Int)⟩ =
      .continue ⟨{ segUrl u buf false with fragment := some [] }, .fragment, [], f1, f2, f3, (i : Int)⟩ := by
  unfold step
  simp only [Int.toNat_natCast, ptr_neg, if_false, hc, hov]
  simp [segUrl]

theorem step_path_other (u : Url) (buf : List Nat) (f1 f2 f3 : Bool) (i c : Nat) (hc : inp[i]? = some c)
    (hsep : pathSep (Spec.isSpecial u) c = false) (h : ov.isSome ∨ (c ≠ 0x3F ∧ c ≠ 0x23)) :
    step idna inp base ov ⟨u, .path, buf, f1, f2, f3, (i : Int)⟩ =
      .continue ⟨u, .path, buf ++ encPc c, f1, f2, f3, (i : Int)⟩ := by
  unfold step
  simp only [Int.toNat_natCast, ptr_neg, if_false, hc]
  simp only [pathSep] at hsep
  rcases h with h | ⟨h1, h2⟩
  · cases ov with
    | none => simp at h
    | some o => simp [hsep]
  · simp [hsep, h1, h2]
end path

/-- the path state as a scan of the remaining input with the raw current segment `s` made explicit -/
def pres (ov : Option Override) (sp : Bool) : Url → List Nat → List Nat → Res
  | u, s, [] => ⟨.ok, Impl.pathSegment u s true⟩
  | u, s, c :: cs =>
    if ov.isNone ∧ c = 0x3F then Impl.queryState ov (Impl.pathSegment u s true) cs
    else if ov.isNone ∧ c = 0x23 then Impl.fragmentState (Impl.pathSegment u s true) cs
    else if pathSep sp c then pres ov sp (Impl.pathSegment u s false) [] cs
    else pres ov sp u (s ++ [c]) cs

theorem run_path (idna : Idna) (inp : Array Nat) (base : Option Url) (ov : Option Override)
    (hsc : ∀ x ∈ inp.toList, Spec.isScalar x = true) :
    ∀ (r : List Nat) (i : Nat) (u : Url) (s : List Nat) (f1 f2 f3 : Bool) (fuel : Nat),
    inp.toList.drop i = r → (∀ x ∈ s, Spec.isScalar x = true) → fuel ≥ r.length + 1 →
    run idna inp base (ov.map ovState) fuel ⟨u, .path, encP s, f1, f2, f3, (i : Int)⟩ =
      resOf ov (pres ov u.isSpecial u s r) := by
  intro r
  induction r with
  | nil =>
    intro i u s f1 f2 f3 fuel hr hs hf
    obtain ⟨f, rfl, _⟩ := fuel_succ hf
    obtain ⟨hc, hsz⟩ := getElem?_of_drop_nil hr
    refine (run_stop f (step_path_eof idna inp base _ u _ f1 f2 f3 i hc) (by simp only; omega)).trans ?_
    simp [pres, segUrl_eq u s false hs]
  | cons c cs ih =>
    intro i u s f1 f2 f3 fuel hr hs hf
    obtain ⟨hc, hsz, hr'⟩ := getElem?_of_drop_cons hr
    have hlen := drop_length hr'
    have hcs : Spec.isScalar c = true := drop_scalar hsc hr c (by simp)
    simp only [List.length_cons] at hf
    by_cases h1 : ov.isNone ∧ c = 0x3F
    · obtain ⟨hov, rfl⟩ := h1
      have hst := step_path_q idna inp base (ov.map ovState) u (encP s) f1 f2 f3 i hc
        (by cases ov <;> simp_all)
      refine ((sim_query idna base ov).after_step (j := i + 1) hst rfl rfl (by simp) rfl hsz hsc
        (by omega)).trans ?_
      simp [pres, hov, queryState_setQuery, hr', segUrl_eq u s false hs]
    · by_cases h2 : ov.isNone ∧ c = 0x23
      · obtain ⟨hov, rfl⟩ := h2
        have hst := step_path_h idna inp base (ov.map ovState) u (encP s) f1 f2 f3 i hc
          (by cases ov <;> simp_all)
        refine ((sim_fragment idna base ov).after_step (j := i + 1) hst rfl rfl (by simp) rfl hsz hsc
          (by omega)).trans ?_
        simp [pres, hov, fragmentState_setFragment, hr', segUrl_eq u s false hs]
      · obtain ⟨f, rfl, hf'⟩ := fuel_succ hf
        cases hsep : pathSep u.isSpecial c
        · have hst := step_path_other idna inp base (ov.map ovState) u (encP s) f1 f2 f3 i c hc hsep
            (by cases ov <;> simp_all)
          refine (run_continue' (j := i + 1) f hst (by simp) hsz).trans ?_
          have e : encP s ++ encPc c = encP (s ++ [c]) := by rw [encP_append, encP_cons, encP_nil]; simp
          rw [e]
          refine (ih (i + 1) u (s ++ [c]) f1 f2 f3 f hr' ?_ (by omega)).trans ?_
          · intro x hx
            rcases List.mem_append.1 hx with hx | hx
            · exact hs x hx
            · simp at hx; subst hx; exact hcs
          · rw [pres, if_neg h1, if_neg h2, hsep]; simp
        · have hst := step_path_sep idna inp base (ov.map ovState) u (encP s) f1 f2 f3 i c hc hsep
          refine (run_continue' (j := i + 1) f hst (by simp) hsz).trans ?_
          rw [segUrl_eq u s true hs]
          refine (ih (i + 1) _ [] f1 f2 f3 f hr' (by simp) (by omega)).trans ?_
          rw [pres, if_neg h1, if_neg h2, hsep, pathSegment_isSpecial]; simp

theorem pres_eq (ov : Option Override) (sp : Bool) : ∀ (r : List Nat) (u : Url) (s : List Nat),
    pres ov sp u s r =
      Impl.afterPath ov
        (pathLoop sp u s (if ov.isSome then r else r.takeWhile (fun c => !Impl.isQorH c)))
        (if ov.isSome then [] else r.dropWhile (fun c => !Impl.isQorH c)) := by
  intro r
  induction r with
  | nil => intro u s; cases ov <;> simp [pres, pathLoop, Impl.afterPath]
  | cons c cs ih =>
    intro u s
    unfold pres
    by_cases h1 : ov.isNone ∧ c = 0x3F
    · obtain ⟨hov, rfl⟩ := h1
      cases ov with
      | some o => simp at hov
      | none => simp [Impl.isQorH, Impl.afterPath, pathLoop]
    · rw [if_neg h1]
      by_cases h2 : ov.isNone ∧ c = 0x23
      · obtain ⟨hov, rfl⟩ := h2
        cases ov with
        | some o => simp at hov
        | none => simp [Impl.isQorH, Impl.afterPath, pathLoop]
      · rw [if_neg h2]
        cases ov with
        | some o =>
          simp only [Option.isSome_some, if_true]
          cases hsep : pathSep sp c
          · simp only [Bool.false_eq_true, if_false]; rw [ih]; simp [pathLoop, hsep]
          · simp only [if_true]; rw [ih]; simp [pathLoop, hsep]
        | none =>
          have hq : Impl.isQorH c = false := by
            simp at h1 h2; simp [Impl.isQorH, h1, h2]
          simp only [Option.isSome_none, Bool.false_eq_true, if_false, List.takeWhile_cons,
            List.dropWhile_cons, hq, Bool.not_false, if_true]
          cases hsep : pathSep sp c
          · simp only [Bool.false_eq_true, if_false]; rw [ih]; simp [pathLoop, hsep]
          · simp only [if_true]; rw [ih]; simp [pathLoop, hsep]

theorem pres_pathState (ov : Option Override) (u : Url) (r : List Nat) :
    pres ov u.isSpecial u [] r = Impl.pathState ov u r := by
  rw [pres_eq]
  unfold Impl.pathState
  simp only [parsePath_eq]

theorem sim_path (idna : Idna) (base : Option Url) (ov : Option Override) :
    SimAt idna base ov .path 1 1 (fun _ => True) (Impl.pathState ov) := by
  intro inp k i fuel hs hb hp _ hi hsc hf
  obtain ⟨u, st, buf, f1, f2, f3, p⟩ := k
  simp only at hs hb hp
  subst hs hb hp
  refine (run_path idna inp base ov hsc _ i u [] f1 f2 f3 fuel rfl (by simp) ?_).trans ?_
  · simp only [List.length_drop, Array.length_toList]; omega
  · rw [pres_pathState]

/-! ## path start state -/

section pathStart
variable (idna : Idna) (inp : Array Nat) (base : Option Url) (ov : Option State)

theorem step_ps_special_slash (u : Url) (buf : List Nat) (f1 f2 f3 : Bool) (i c : Nat)
    (hsp : Spec.isSpecial u = true) (hc : inp[i]? = some c) (hs : Impl.isSlash c = true) :
    step idna inp base ov ⟨u, .pathStart, buf, f1, f2, f3, (i : Int)⟩ =
      .continue ⟨u, .path, buf, f1, f2, f3, (i : Int)⟩ := by
  unfold step
  simp only [Int.toNat_natCast, ptr_neg, if_false, hc, hsp]
  simp only [Impl.isSlash, Bool.or_eq_true, beq_iff_eq] at hs
  rcases hs with rfl | rfl <;> simp

theorem step_ps_special_other (u : Url) (buf : List Nat) (f1 f2 f3 : Bool) (i : Nat)
    (hsp : Spec.isSpecial u = true) (hc : ∀ c, inp[i]? = some c → Impl.isSlash c = false) :
    step idna inp base ov ⟨u, .pathStart, buf, f1, f2, f3, (i : Int)⟩ =
      .continue ⟨u, .path, buf, f1, f2, f3, (i : Int) - 1⟩ := by
  unfold step
  simp only [Int.toNat_natCast, ptr_neg, if_false, hsp]
  cases h : inp[i]? with
  | none => simp
  | some c =>
    have := hc c h
    simp only [Impl.isSlash, Bool.or_eq_false_iff, beq_eq_false_iff_ne] at this
    simp [this.1, this.2]

theorem step_ps_q (u : Url) (buf : List Nat) (f1 f2 f3 : Bool) (i : Nat)
    (hsp : Spec.isSpecial u = false) (hc : inp[i]? = some 0x3F) (hov : ov = none) :
    step idna inp base ov ⟨u, .pathStart, buf, f1, f2, f3, (i : Int)⟩ =
      .continue ⟨{ u with query := some [] }, .query, buf, f1, f2, f3, (i : Int)⟩ := by
  unfold step
  simp only [Int.toNat_natCast, ptr_neg, if_false, hc, hsp, hov]
  simp

theorem step_ps_h (u : Url) (buf : List Nat) (f1 f2 f3 : Bool) (i : Nat)
    (hsp : Spec.isSpecial u = false) (hc : inp[i]? = some 0x23) (hov : ov = none) :
    step idna inp base ov ⟨u, .pathStart, buf, f1, f2, f3, (i : Int)⟩ =
      .continue ⟨{ u with fragment := some [] }, .fragment, buf, f1, f2, f3, (i : Int)⟩ := by
  unfold step
  simp only [Int.toNat_natCast, ptr_neg, if_false, hc, hsp, hov]
  simp

theorem step_ps_slash (u : Url) (buf : List Nat) (f1 f2 f3 : Bool) (i : Nat)
    (hsp : Spec.isSpecial u = false) (hc : inp[i]? = some 0x2F) :
    step idna inp base ov ⟨u, .pathStart, buf, f1, f2, f3, (i : Int)⟩ =
      .continue ⟨u, .path, buf, f1, f2, f3, (i : Int)⟩ := by
  unfold step
  simp only [Int.toNat_natCast, ptr_neg, if_false, hc, hsp]
  simp

theorem step_ps_other (u : Url) (buf : List Nat) (f1 f2 f3 : Bool) (i c : Nat)
    (hsp : Spec.isSpecial u = false) (hc : inp[i]? = some c) (h : ov.isSome ∨ (c ≠ 0x3F ∧ c ≠ 0x23))
    (h3 : c ≠ 0x2F) :
    step idna inp base ov ⟨u, .pathStart, buf, f1, f2, f3, (i : Int)⟩ =
      .continue ⟨u, .path, buf, f1, f2, f3, (i : Int) - 1⟩ := by
  unfold step
  simp only [Int.toNat_natCast, ptr_neg, if_false, hc, hsp]
  rcases h with h | ⟨h1, h2⟩
  · cases ov with
    | none => simp at h
    | some o => simp [h3]
  · simp [h1, h2, h3]

theorem step_ps_eof (u : Url) (buf : List Nat) (f1 f2 f3 : Bool) (i : Nat)
    (hsp : Spec.isSpecial u = false) (hc : inp[i]? = none) :
    step idna inp base ov ⟨u, .pathStart, buf, f1, f2, f3, (i : Int)⟩ =
      .continue ⟨if ov.isSome ∧ u.host.isNone then { u with path := u.path ++ [[]] } else u,
        .pathStart, buf, f1, f2, f3, (i : Int)⟩ := by
  unfold step
  simp only [Int.toNat_natCast, ptr_neg, if_false, hc, hsp]
  simp
  split <;> simp_all
end pathStart

theorem sim_pathStart (idna : Idna) (base : Option Url) (ov : Option Override) :
    SimAt idna base ov .pathStart 1 2 (fun _ => True) (Impl.pathStartState ov) := by
  intro inp k i fuel hs hb hp _ hi hsc hf
  obtain ⟨u, st, buf, f1, f2, f3, p⟩ := k
  simp only at hs hb hp
  subst hs hb hp
  simp only
  cases hsp : Spec.isSpecial u
  · -- not special
    have hsp' : u.isSpecial = false := hsp
    cases hr : inp.toList.drop i with
    | nil =>
      obtain ⟨hc, hsz⟩ := getElem?_of_drop_nil hr
      obtain ⟨f, rfl, _⟩ := fuel_succ (fuel := fuel) (n := 0) (by omega)
      refine (run_stop f (step_ps_eof idna inp base _ u [] f1 f2 f3 i hsp hc) (by simp only; omega)).trans ?_
      cases ov <;> simp [Impl.pathStartState, hsp']
      split <;> simp_all
    | cons c cs =>
      obtain ⟨hc, hsz, hr'⟩ := getElem?_of_drop_cons hr
      by_cases h1 : ov.isNone ∧ c = 0x3F
      · obtain ⟨hov, rfl⟩ := h1
        have hst := step_ps_q idna inp base (ov.map ovState) u [] f1 f2 f3 i hsp hc (by cases ov <;> simp_all)
        refine ((sim_query idna base ov).after_step (j := i + 1) hst rfl rfl (by simp) rfl hsz hsc
          (by omega)).trans ?_
        simp [Impl.pathStartState, hsp', hov, queryState_setQuery, hr']
      · by_cases h2 : ov.isNone ∧ c = 0x23
        · obtain ⟨hov, rfl⟩ := h2
          have hst := step_ps_h idna inp base (ov.map ovState) u [] f1 f2 f3 i hsp hc (by cases ov <;> simp_all)
          refine ((sim_fragment idna base ov).after_step (j := i + 1) hst rfl rfl (by simp) rfl hsz hsc
            (by omega)).trans ?_
          simp [Impl.pathStartState, hsp', hov, fragmentState_setFragment, hr']
        · by_cases h3 : c = 0x2F
          · subst h3
            have hst := step_ps_slash idna inp base (ov.map ovState) u [] f1 f2 f3 i hsp hc
            refine ((sim_path idna base ov).after_step (j := i + 1) hst rfl rfl (by simp) trivial hsz hsc
              (by omega)).trans ?_
            cases ov <;> simp [Impl.pathStartState, hsp', hr']
          · have hst := step_ps_other idna inp base (ov.map ovState) u [] f1 f2 f3 i c hsp hc
              (by cases ov <;> simp_all) h3
            refine ((sim_path idna base ov).after_step (j := i) hst rfl rfl (by simp) trivial hi hsc
              (by omega)).trans ?_
            cases ov <;> simp_all [Impl.pathStartState]
  · -- special
    have hsp' : u.isSpecial = true := hsp
    cases hr : inp.toList.drop i with
    | nil =>
      obtain ⟨hc, hsz⟩ := getElem?_of_drop_nil hr
      have hst := step_ps_special_other idna inp base (ov.map ovState) u [] f1 f2 f3 i hsp (by simp [hc])
      refine ((sim_path idna base ov).after_step (j := i) hst rfl rfl (by simp) trivial hi hsc
        (by omega)).trans ?_
      simp [Impl.pathStartState, hsp', hr]
    | cons c cs =>
      obtain ⟨hc, hsz, hr'⟩ := getElem?_of_drop_cons hr
      cases hsl : Impl.isSlash c
      · have hst := step_ps_special_other idna inp base (ov.map ovState) u [] f1 f2 f3 i hsp
          (by intro c' hc'; rw [hc] at hc'; cases hc'; exact hsl)
        refine ((sim_path idna base ov).after_step (j := i) hst rfl rfl (by simp) trivial hi hsc
          (by omega)).trans ?_
        simp [Impl.pathStartState, hsp', hr, hsl]
      · have hst := step_ps_special_slash idna inp base (ov.map ovState) u [] f1 f2 f3 i c hsp hc hsl
        refine ((sim_path idna base ov).after_step (j := i + 1) hst rfl rfl (by simp) trivial hsz hsc
          (by omega)).trans ?_
        simp [Impl.pathStartState, hsp', hr', hsl]

/-! ## a concrete instance (the hypotheses are satisfiable; both sides evaluated) -/

/-- `/a/%2E./C|/.?q r#f`, parsed from the path start state of a `file:` URL with an empty host -/
def sampleInp : Array Nat := (asciiStr "/a/%2E./C|/.?q r#f").toArray
def sampleUrl : Url := { scheme := Impl.sFile, host := some Impl.emptyHost }
def sampleOut : Url :=
  { sampleUrl with path := [asciiStr "C:", []], query := some (asciiStr "q%20r"), fragment := some (asciiStr "f") }

example (idna : Idna) (base : Option Url) :
    (run idna sampleInp base none (4 * sampleInp.size + 16)
      { url := sampleUrl, state := .pathStart, p := ((0 : Nat) : Int) }).1 = some sampleOut := by
  rw [(sim_pathStart idna base none).basic (by omega) (by omega) sampleInp 0 sampleUrl _ trivial
    (Nat.zero_le _) (by decide +kernel) (by simp)]
  decide +kernel

end Upa.Proofs.C01
