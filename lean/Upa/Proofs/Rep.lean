import Upa.Impl.Rep
/-
  Helpers for C05 (representation theorems): `layout` restated as a concatenation of twelve named
  segments, every part end offset as a sum of segment lengths, and the slice lemmas that turn a
  getter computed from offsets into the segment(s) it denotes.
-/
namespace Upa.Proofs.C05
open Upa Upa.Impl

/-! ### the named segments of the normalised string -/

/-- credentials are written: the host is non-null and username or password is non-empty -/
def credOn (u : Url) : Bool := u.host.isSome && u.hasCredentials

def sepSeg (u : Url) : List Nat := match u.host with | some _ => [0x2F, 0x2F] | none => []
def userSeg (u : Url) : List Nat := if credOn u then u.username else []
def passSeg (u : Url) : List Nat :=
  if credOn u then (if u.password ≠ [] then 0x3A :: u.password else []) else []
def atSeg (u : Url) : List Nat := if credOn u then [0x40] else []
def portSeg (u : Url) : List Nat :=
  match u.host with
  | some _ => (match u.port with | some p => 0x3A :: toDecimal p | none => [])
  | none => []
def prefixSeg (u : Url) : List Nat := if needsPathPrefix u then [0x2F, 0x2E] else []
def querySeg (u : Url) : List Nat := match u.query with | some q => 0x3F :: q | none => []
def fragSeg (u : Url) : List Nat := match u.fragment with | some f => 0x23 :: f | none => []

/-- the twelve segments, in order -/
def segNorm (u : Url) : List Nat :=
  u.scheme ++ [0x3A] ++ sepSeg u ++ userSeg u ++ passSeg u ++ atSeg u ++ u.hostText ++ portSeg u ++
  prefixSeg u ++ pathText u ++ querySeg u ++ fragSeg u

def oScheme (u : Url) : Nat := u.scheme.length
def oSep (u : Url) : Nat := oScheme u + 1 + (sepSeg u).length
def oUser (u : Url) : Nat := oSep u + (userSeg u).length
def oPass (u : Url) : Nat := oUser u + (passSeg u).length
def oHostStart (u : Url) : Nat := oPass u + (atSeg u).length
def oHost (u : Url) : Nat := oHostStart u + u.hostText.length
def oPort (u : Url) : Nat := oHost u + (portSeg u).length
def oPrefix (u : Url) : Nat := oPort u + (prefixSeg u).length
def oPath (u : Url) : Nat := oPrefix u + (pathText u).length
def oQuery (u : Url) : Nat := oPath u + (querySeg u).length
def oFragment (u : Url) : Nat := oQuery u + (fragSeg u).length

def segEnds (u : Url) : List Nat :=
  [oScheme u, oSep u, oUser u, oPass u, oHostStart u, oHost u, oPort u, oPrefix u, oPath u,
   oQuery u, oFragment u]

/-- the laid-out string is the concatenation of the twelve segments -/
theorem layout_norm (u : Url) : (layout u).norm = segNorm u := by
  unfold layout segNorm sepSeg userSeg passSeg atSeg portSeg prefixSeg querySeg fragSeg credOn
    Url.hostText
  cases hq : u.query <;> cases hf : u.fragment <;> (
  cases hh : u.host with
  | none => simp
  | some h =>
    cases hp : u.port <;> by_cases hc : u.hasCredentials <;> by_cases hw : u.password = [] <;>
      simp [hc, hw])

/-- every part end offset is the total length of the segments before it -/
theorem layout_partEnd (u : Url) : (layout u).partEnd = segEnds u := by
  unfold layout segEnds oFragment oQuery oPath oPrefix oPort oHost oHostStart oPass oUser oSep
    oScheme sepSeg userSeg passSeg atSeg portSeg prefixSeg querySeg fragSeg credOn Url.hostText
  cases hq : u.query <;> cases hf : u.fragment <;> (
  cases hh : u.host with
  | none => simp <;> omega
  | some h =>
    cases hp : u.port <;> by_cases hc : u.hasCredentials <;> by_cases hw : u.password = [] <;>
      simp [hc, hw] <;> omega)

theorem layout_hostNotNull (u : Url) : (layout u).hostNotNull = u.host.isSome := rfl
theorem layout_portNotNull (u : Url) : (layout u).portNotNull = u.port.isSome := rfl

theorem pe_scheme (u : Url) : (layout u).pe SCHEME = oScheme u := by
  simp [Rep.pe, layout_partEnd, segEnds]
theorem pe_sep (u : Url) : (layout u).pe SCHEME_SEP = oSep u := by
  simp [Rep.pe, layout_partEnd, segEnds]
theorem pe_user (u : Url) : (layout u).pe USERNAME = oUser u := by
  simp [Rep.pe, layout_partEnd, segEnds]
theorem pe_pass (u : Url) : (layout u).pe PASSWORD = oPass u := by
  simp [Rep.pe, layout_partEnd, segEnds]
theorem pe_hostStart (u : Url) : (layout u).pe HOST_START = oHostStart u := by
  simp [Rep.pe, layout_partEnd, segEnds]
theorem pe_host (u : Url) : (layout u).pe HOST = oHost u := by
  simp [Rep.pe, layout_partEnd, segEnds]
theorem pe_port (u : Url) : (layout u).pe PORT = oPort u := by
  simp [Rep.pe, layout_partEnd, segEnds]
theorem pe_prefix (u : Url) : (layout u).pe PATH_PREFIX = oPrefix u := by
  simp [Rep.pe, layout_partEnd, segEnds]
theorem pe_path (u : Url) : (layout u).pe PATH = oPath u := by
  simp [Rep.pe, layout_partEnd, segEnds]
theorem pe_query (u : Url) : (layout u).pe QUERY = oQuery u := by
  simp [Rep.pe, layout_partEnd, segEnds]
theorem pe_fragment (u : Url) : (layout u).pe FRAGMENT = oFragment u := by
  simp [Rep.pe, layout_partEnd, segEnds]

theorem segNorm_length (u : Url) : (segNorm u).length = oFragment u := by
  simp only [segNorm, List.length_append, oFragment, oQuery, oPath, oPrefix, oPort, oHost,
    oHostStart, oPass, oUser, oSep, oScheme, List.length_cons, List.length_nil]

/-! ### slices of a concatenation -/

theorem slice_eq {l a b c : List Nat} {i j : Nat}
    (hl : l = a ++ b ++ c) (hi : i = a.length) (hj : j = a.length + b.length) :
    slice l i j = b := by
  subst hl hi hj
  unfold slice
  rw [List.take_left' (by simp), List.drop_left' rfl]

/-- `get_part_view` for a part with `kPartStart = 0` -/
theorem view0_eq {l a b c : List Nat} {i j : Nat}
    (hl : l = a ++ b ++ c) (hi : i = a.length) (hj : j = a.length + b.length) :
    (if j > i then slice l i j else []) = b := by
  rw [slice_eq hl hi hj]
  split
  · rfl
  · have : b.length = 0 := by omega
    exact (List.eq_nil_of_length_eq_zero this).symm

/-- `get_part_view` for a part with `kPartStart = 1`: the segment without its leading delimiter -/
theorem view1_eq {l a b c : List Nat} {i j : Nat}
    (hl : l = a ++ b ++ c) (hi : i = a.length) (hj : j = a.length + b.length) :
    (if j > i + 1 then slice l (i + 1) j else []) = b.drop 1 := by
  subst hl hi hj
  cases b with
  | nil => simp; omega
  | cons x t =>
    have h : slice (a ++ x :: t ++ c) (a.length + 1) (a.length + (x :: t).length) = t :=
      slice_eq (a := a ++ [x]) (b := t) (c := c) (by simp) (by simp) (by simp; omega)
    rw [h]
    cases t with
    | nil => simp
    | cons y t' => simp

/-! ### well-formedness of a record needed by the offset getters

  * `protocol()` returns the empty string when the scheme is empty (url.h: `pe SCHEME ≠ 0 ? … : 0`),
    the record getter returns ":".
  * with a null host the string has no authority, so there is no place for username, password or
    port; the parser never produces such records.
  Nothing is required of the path fields (`pathText` reads only the field selected by
  `hasOpaquePath`), nor of query / fragment. -/
def RecWF (u : Url) : Prop :=
  u.scheme ≠ [] ∧ (u.host = none → u.username = [] ∧ u.password = [] ∧ u.port = none)

instance (u : Url) : Decidable (RecWF u) := by unfold RecWF; infer_instance

/-! ### the getters, with `partView` unfolded at each part index -/

theorem username_def (r : Rep) : r.username =
    if r.pe USERNAME > r.pe SCHEME_SEP then slice r.norm (r.pe SCHEME_SEP) (r.pe USERNAME) else [] := rfl
theorem password_def (r : Rep) : r.password =
    if r.pe PASSWORD > r.pe USERNAME + 1 then slice r.norm (r.pe USERNAME + 1) (r.pe PASSWORD) else [] := rfl
theorem hostname_def (r : Rep) : r.hostname =
    if r.pe HOST > r.pe HOST_START then slice r.norm (r.pe HOST_START) (r.pe HOST) else [] := rfl
theorem port_def (r : Rep) : r.port =
    if r.pe PORT > r.pe HOST + 1 then slice r.norm (r.pe HOST + 1) (r.pe PORT) else [] := rfl
theorem pathname_def (r : Rep) : r.pathname =
    if r.pe PATH > r.pe PATH_PREFIX then slice r.norm (r.pe PATH_PREFIX) (r.pe PATH) else [] := rfl
theorem search_def (r : Rep) : r.search =
    if r.pe PATH + 1 ≥ r.pe QUERY then [] else slice r.norm (r.pe PATH) (r.pe QUERY) := by
  simp [Rep.search, Rep.isEmpty, kPartStart]
theorem hash_def (r : Rep) : r.hash =
    if r.pe QUERY + 1 ≥ r.pe FRAGMENT then [] else slice r.norm (r.pe QUERY) (r.pe FRAGMENT) := by
  simp [Rep.hash, Rep.isEmpty, kPartStart]

theorem protocol_eq (u : Url) (h : u.scheme ≠ []) : (layout u).protocol = getProtocol u := by
  unfold Rep.protocol
  rw [pe_scheme, layout_norm]
  have h0 : oScheme u ≠ 0 := by
    simp [oScheme, h]
  rw [if_pos h0]
  exact slice_eq (a := [])
    (c := sepSeg u ++ userSeg u ++ passSeg u ++ atSeg u ++ u.hostText ++ portSeg u ++
      prefixSeg u ++ pathText u ++ querySeg u ++ fragSeg u)
    (by simp [segNorm, getProtocol]) rfl (by simp [oScheme, getProtocol])

theorem username_seg (u : Url) : (layout u).username = userSeg u := by
  rw [username_def, pe_user, pe_sep, layout_norm]
  exact view0_eq (a := u.scheme ++ [0x3A] ++ sepSeg u)
    (c := passSeg u ++ atSeg u ++ u.hostText ++ portSeg u ++
      prefixSeg u ++ pathText u ++ querySeg u ++ fragSeg u)
    (by simp [segNorm]) (by simp [oSep, oScheme]; omega) (by simp [oUser, oSep, oScheme]; omega)

theorem password_seg (u : Url) : (layout u).password = (passSeg u).drop 1 := by
  rw [password_def, pe_user, pe_pass, layout_norm]
  exact view1_eq (a := u.scheme ++ [0x3A] ++ sepSeg u ++ userSeg u)
    (c := atSeg u ++ u.hostText ++ portSeg u ++
      prefixSeg u ++ pathText u ++ querySeg u ++ fragSeg u)
    (by simp [segNorm]) (by simp [oUser, oSep, oScheme]; omega) (by simp [oPass, oUser, oSep, oScheme]; omega)

theorem hostname_seg (u : Url) : (layout u).hostname = u.hostText := by
  rw [hostname_def, pe_host, pe_hostStart, layout_norm]
  exact view0_eq (a := u.scheme ++ [0x3A] ++ sepSeg u ++ userSeg u ++ passSeg u ++ atSeg u)
    (c := portSeg u ++ prefixSeg u ++ pathText u ++ querySeg u ++ fragSeg u)
    (by simp [segNorm]) (by simp [oHostStart, oPass, oUser, oSep, oScheme]; omega)
    (by simp [oHost, oHostStart, oPass, oUser, oSep, oScheme]; omega)

theorem port_seg (u : Url) : (layout u).port = (portSeg u).drop 1 := by
  rw [port_def, pe_host, pe_port, layout_norm]
  exact view1_eq
    (a := u.scheme ++ [0x3A] ++ sepSeg u ++ userSeg u ++ passSeg u ++ atSeg u ++ u.hostText)
    (c := prefixSeg u ++ pathText u ++ querySeg u ++ fragSeg u)
    (by simp [segNorm]) (by simp [oHost, oHostStart, oPass, oUser, oSep, oScheme]; omega)
    (by simp [oPort, oHost, oHostStart, oPass, oUser, oSep, oScheme]; omega)

theorem pathname_seg (u : Url) : (layout u).pathname = pathText u := by
  rw [pathname_def, pe_path, pe_prefix, layout_norm]
  exact view0_eq
    (a := u.scheme ++ [0x3A] ++ sepSeg u ++ userSeg u ++ passSeg u ++ atSeg u ++ u.hostText ++
      portSeg u ++ prefixSeg u)
    (c := querySeg u ++ fragSeg u)
    (by simp [segNorm]) (by simp [oPrefix, oPort, oHost, oHostStart, oPass, oUser, oSep, oScheme]; omega)
    (by simp [oPath, oPrefix, oPort, oHost, oHostStart, oPass, oUser, oSep, oScheme]; omega)

theorem host_seg (u : Url) :
    (layout u).host = if u.host.isNone then [] else u.hostText ++ portSeg u := by
  unfold Rep.host
  rw [layout_hostNotNull, layout_portNotNull, pe_hostStart, pe_host, pe_port, layout_norm]
  cases hh : u.host with
  | none => simp
  | some h =>
    have e : (if (!u.port.isSome) = true then oHost u else oPort u) = oPort u := by
      cases hp : u.port with
      | none => simp [oPort, portSeg, hp, hh]
      | some p => simp
    simp only [Option.isSome_some, Bool.not_true, Bool.false_eq_true, if_false, Option.isNone_some, e]
    exact slice_eq (a := u.scheme ++ [0x3A] ++ sepSeg u ++ userSeg u ++ passSeg u ++ atSeg u)
      (c := prefixSeg u ++ pathText u ++ querySeg u ++ fragSeg u)
      (by simp [segNorm]) (by simp [oHostStart, oPass, oUser, oSep, oScheme]; omega)
      (by simp [oPort, oHost, oHostStart, oPass, oUser, oSep, oScheme]; omega)

theorem oQuery_pos (u : Url) : oQuery u ≠ 0 := by
  simp [oQuery, oPath, oPrefix, oPort, oHost, oHostStart, oPass, oUser, oSep]

theorem oFragment_pos (u : Url) : oFragment u ≠ 0 := by
  have := oQuery_pos u
  simp only [oFragment]; omega

theorem path_seg (u : Url) : (layout u).path = pathText u ++ querySeg u := by
  unfold Rep.path
  show (if (if (layout u).pe QUERY ≠ 0 then (layout u).pe QUERY else (layout u).pe PATH) ≠ 0 then
    slice (layout u).norm ((layout u).pe PATH_PREFIX)
      (if (layout u).pe QUERY ≠ 0 then (layout u).pe QUERY else (layout u).pe PATH) else []) = _
  rw [pe_query, pe_prefix, layout_norm, if_pos (oQuery_pos u), if_pos (oQuery_pos u)]
  exact slice_eq
    (a := u.scheme ++ [0x3A] ++ sepSeg u ++ userSeg u ++ passSeg u ++ atSeg u ++ u.hostText ++
      portSeg u ++ prefixSeg u)
    (c := fragSeg u)
    (by simp [segNorm]) (by simp [oPrefix, oPort, oHost, oHostStart, oPass, oUser, oSep, oScheme]; omega)
    (by simp [oQuery, oPath, oPrefix, oPort, oHost, oHostStart, oPass, oUser, oSep, oScheme]; omega)

theorem search_seg (u : Url) :
    (layout u).search = if (querySeg u).length ≤ 1 then [] else querySeg u := by
  rw [search_def, pe_query, pe_path, layout_norm]
  have h : slice (segNorm u) (oPath u) (oQuery u) = querySeg u :=
    slice_eq
      (a := u.scheme ++ [0x3A] ++ sepSeg u ++ userSeg u ++ passSeg u ++ atSeg u ++ u.hostText ++
        portSeg u ++ prefixSeg u ++ pathText u)
      (c := fragSeg u)
      (by simp [segNorm]) (by simp [oPath, oPrefix, oPort, oHost, oHostStart, oPass, oUser, oSep, oScheme]; omega)
      (by simp [oQuery, oPath, oPrefix, oPort, oHost, oHostStart, oPass, oUser, oSep, oScheme]; omega)
  rw [h]
  by_cases hq : (querySeg u).length ≤ 1
  · rw [if_pos hq, if_pos (by simp only [oQuery]; omega)]
  · rw [if_neg hq, if_neg (by simp only [oQuery]; omega)]

theorem hash_seg (u : Url) :
    (layout u).hash = if (fragSeg u).length ≤ 1 then [] else fragSeg u := by
  rw [hash_def, pe_query, pe_fragment, layout_norm]
  have h : slice (segNorm u) (oQuery u) (oFragment u) = fragSeg u :=
    slice_eq
      (a := u.scheme ++ [0x3A] ++ sepSeg u ++ userSeg u ++ passSeg u ++ atSeg u ++ u.hostText ++
        portSeg u ++ prefixSeg u ++ pathText u ++ querySeg u)
      (c := [])
      (by simp [segNorm]) (by simp [oQuery, oPath, oPrefix, oPort, oHost, oHostStart, oPass, oUser, oSep, oScheme]; omega)
      (by simp [oFragment, oQuery, oPath, oPrefix, oPort, oHost, oHostStart, oPass, oUser, oSep, oScheme]; omega)
  rw [h]
  by_cases hq : (fragSeg u).length ≤ 1
  · rw [if_pos hq, if_pos (by simp only [oFragment]; omega)]
  · rw [if_neg hq, if_neg (by simp only [oFragment]; omega)]

theorem serializeNoFragment_seg (u : Url) :
    (layout u).serializeNoFragment =
      u.scheme ++ [0x3A] ++ sepSeg u ++ userSeg u ++ passSeg u ++ atSeg u ++ u.hostText ++
        portSeg u ++ prefixSeg u ++ pathText u ++ querySeg u := by
  unfold Rep.serializeNoFragment
  rw [pe_fragment, pe_query, layout_norm, if_pos (oFragment_pos u)]
  exact slice_eq (a := []) (c := fragSeg u)
    (by simp [segNorm]) rfl
    (by simp [oQuery, oPath, oPrefix, oPort, oHost, oHostStart, oPass, oUser, oSep, oScheme]; omega)

/-! ### segments vs. the record-level serializer and getters -/

theorem hasCredentials_false {u : Url} (h : u.hasCredentials = false) :
    u.username = [] ∧ u.password = [] := by
  simpa [Url.hasCredentials] using h

theorem serialize_true_seg (u : Url) :
    serialize u true =
      u.scheme ++ [0x3A] ++ sepSeg u ++ userSeg u ++ passSeg u ++ atSeg u ++ u.hostText ++
        portSeg u ++ prefixSeg u ++ pathText u ++ querySeg u := by
  unfold serialize sepSeg userSeg passSeg atSeg portSeg prefixSeg querySeg credOn Url.hostText
  cases hq : u.query <;> (
  cases hh : u.host with
  | none => simp
  | some h =>
    cases hp : u.port <;> by_cases hc : u.hasCredentials <;> by_cases hw : u.password = [] <;>
      simp [hc, hw])

theorem serialize_false_seg (u : Url) : serialize u false = segNorm u := by
  unfold serialize segNorm sepSeg userSeg passSeg atSeg portSeg prefixSeg querySeg fragSeg credOn
    Url.hostText
  cases hq : u.query <;> cases hf : u.fragment <;> (
  cases hh : u.host with
  | none => simp
  | some h =>
    cases hp : u.port <;> by_cases hc : u.hasCredentials <;> by_cases hw : u.password = [] <;>
      simp [hc, hw])

theorem userSeg_eq (u : Url) (h : u.host = none → u.username = []) : userSeg u = u.username := by
  unfold userSeg credOn
  cases hh : u.host with
  | none => simp [h hh]
  | some x =>
    cases hc : u.hasCredentials with
    | true => simp
    | false => simp [(hasCredentials_false hc).1]

theorem passSeg_eq (u : Url) (h : u.host = none → u.password = []) :
    (passSeg u).drop 1 = u.password := by
  unfold passSeg credOn
  cases hh : u.host with
  | none => simp [h hh]
  | some x =>
    cases hc : u.hasCredentials with
    | true => by_cases hw : u.password = [] <;> simp [hw]
    | false => simp [(hasCredentials_false hc).2]

theorem portSeg_eq (u : Url) (h : u.host = none → u.port = none) :
    (portSeg u).drop 1 = getPort u := by
  unfold portSeg getPort
  cases hh : u.host with
  | none => simp [h hh]
  | some x => cases hp : u.port <;> simp

theorem getHost_seg (u : Url) :
    getHost u = if u.host.isNone then [] else u.hostText ++ portSeg u := by
  unfold getHost portSeg Url.hostText
  cases hh : u.host with
  | none => simp
  | some x => cases hp : u.port <;> simp

theorem getSearch_seg (u : Url) :
    getSearch u = if (querySeg u).length ≤ 1 then [] else querySeg u := by
  unfold getSearch querySeg
  cases hq : u.query with
  | none => simp
  | some q => cases q <;> simp

theorem getHash_seg (u : Url) :
    getHash u = if (fragSeg u).length ≤ 1 then [] else fragSeg u := by
  unfold getHash fragSeg
  cases hq : u.fragment with
  | none => simp
  | some q => cases q <;> simp

theorem getPath_seg (u : Url) : getPath u = pathText u ++ querySeg u := rfl

/-! ### monotonicity of the offsets -/

theorem segEnds_pairwise (u : Url) : List.Pairwise (· ≤ ·) (segEnds u) := by
  simp [segEnds, oFragment, oQuery, oPath, oPrefix, oPort, oHost,
    oHostStart, oPass, oUser, oSep, oScheme]
  omega

theorem segEnds_le (u : Url) : ∀ x ∈ segEnds u, x ≤ (segNorm u).length := by
  rw [segNorm_length]
  simp only [segEnds, List.mem_cons, List.not_mem_nil, or_false, forall_eq_or_imp, forall_eq,
    oFragment, oQuery, oPath, oPrefix, oPort, oHost, oHostStart, oPass, oUser, oSep, oScheme]
  omega

theorem segEnds_length (u : Url) : (segEnds u).length = 11 := rfl

/-! ### `RecWF` is necessary -/

theorem toDigitsAux_ne_nil (base : Nat) (digit : Nat → Nat) (fuel n : Nat) (acc : List Nat)
    (h : acc ≠ [] ∨ fuel ≠ 0) : toDigitsAux base digit fuel n acc ≠ [] := by
  induction fuel generalizing n acc with
  | zero => simpa [toDigitsAux] using h
  | succ k ih =>
    unfold toDigitsAux
    simp only
    split
    · simp
    · exact ih _ _ (Or.inl (by simp))

theorem toDecimal_ne_nil (n : Nat) : toDecimal n ≠ [] :=
  toDigitsAux_ne_nil _ _ _ _ _ (Or.inr (by omega))

theorem protocol_nil_scheme (u : Url) (h : u.scheme = []) : (layout u).protocol = [] := by
  unfold Rep.protocol
  rw [pe_scheme]
  simp [oScheme, h, slice]

/-- the converse: if the four offset getters that can go wrong agree with the record, it is `RecWF` -/
theorem recWF_of_getters (u : Url)
    (hpr : (layout u).protocol = getProtocol u) (hu : (layout u).username = u.username)
    (hpw : (layout u).password = u.password) (hpo : (layout u).port = getPort u) : RecWF u := by
  refine ⟨?_, ?_⟩
  · intro hs
    rw [protocol_nil_scheme u hs] at hpr
    simp [getProtocol] at hpr
  · intro hh
    rw [username_seg] at hu
    rw [password_seg] at hpw
    rw [port_seg] at hpo
    refine ⟨?_, ?_, ?_⟩
    · rw [← hu]; simp [userSeg, credOn, hh]
    · rw [← hpw]; simp [passSeg, credOn, hh]
    · cases hp : u.port with
      | none => rfl
      | some p =>
        exfalso
        have : getPort u = [] := by rw [← hpo]; simp [portSeg, hh]
        rw [getPort, hp] at this
        exact toDecimal_ne_nil p this

end Upa.Proofs.C05
