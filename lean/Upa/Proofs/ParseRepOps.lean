import Upa.Impl.ParseRep
import Upa.Props.C05d
/-
  Helpers for C05e, part 1: the operations of `detail::url_serializer` as the parser drives them
  (`Impl/ParseRep.lean`) on a representation presented by segments (`mkRep`, `Proofs/SetRep.lean`).

  * `schemeRep r0 sch`  — the state right after the scheme was written ("sch:", only offset 0 set);
  * `openRep r0 X d`    — a part was started (`start_part`): the started parts are `X`, the text `d`
                           (a delimiter) is already appended, the offset of the new part is not saved yet;
  * `mkRep r0 A`        — the parts `A` are written and saved, every later offset is `0`.
-/
set_option linter.unusedSimpArgs false
set_option linter.unusedVariables false

namespace Upa.Proofs.ParseRep
open Upa Upa.Impl Upa.Proofs.C05 Upa.Proofs.SetRep Upa.Proofs.SetRepApi Upa.Props

/-! ### the three shapes -/

/-- after `save_scheme` / `set_scheme`: "sch:" and `part_end_[SCHEME]` only -/
def schemeRep (r0 : Rep) (sch : List Nat) : Rep :=
  { r0 with norm := sch ++ [0x3A], partEnd := sch.length :: List.replicate 10 0 }

/-- a started, not yet saved part: the parts `X` are saved, `d` is appended after them -/
def openRep (r0 : Rep) (X : List (List Nat)) (d : List Nat) : Rep :=
  { r0 with norm := X.flatten ++ d, partEnd := sums 0 X ++ List.replicate (11 - X.length) 0 }

theorem openRep_nil (r0 : Rep) (X : List (List Nat)) : openRep r0 X [] = mkRep r0 X := by
  simp [openRep, mkRep]

/-- the "//" `start_part` writes after the scheme when the new part is at most HOST -/
def sepFor (pt : Nat) : List Nat := if pt ≤ HOST then [0x2F, 0x2F] else []

/-! ### save_part -/

theorem save_open (r0 : Rep) (X : List (List Nat)) (d t : List Nat) (hX : X.length ≤ 10) :
    serSavePart { openRep r0 X d with norm := (openRep r0 X d).norm ++ t } X.length =
      mkRep r0 (X ++ [d ++ t]) := by
  apply rep_eq_mkRep <;> try rfl
  · show X.flatten ++ d ++ t = _
    simp
  · show (sums 0 X ++ List.replicate (11 - X.length) 0).set X.length (X.flatten ++ d ++ t).length = _
    rw [List.set_append_right _ _ (by simp)]
    have e : 11 - X.length = (10 - X.length) + 1 := by omega
    rw [e, List.replicate_succ]
    simp only [sums_length, Nat.sub_self, List.set_cons_zero, sums_append, sums_cons, sums_nil,
      Nat.zero_add, List.length_append, List.length_cons, List.length_nil]
    have e2 : 11 - (X.length + (0 + 1)) = 10 - X.length := by omega
    rw [e2]
    simp [Nat.add_assoc]

/-- `save_part` after more text was appended to the LAST saved part (continuing on the path,
    `start_part(HOST)` after `set_empty_host`) -/
theorem save_last (r0 : Rep) (X : List (List Nat)) (p t : List Nat) (hX : X.length ≤ 10) :
    serSavePart { mkRep r0 (X ++ [p]) with norm := (mkRep r0 (X ++ [p])).norm ++ t } X.length =
      mkRep r0 (X ++ [p ++ t]) := by
  apply rep_eq_mkRep <;> try rfl
  · show (X ++ [p]).flatten ++ t = _
    simp
  · show (sums 0 (X ++ [p]) ++ List.replicate (11 - (X ++ [p]).length) 0).set X.length
        ((X ++ [p]).flatten ++ t).length = _
    simp only [sums_append, sums_cons, sums_nil, Nat.zero_add, List.append_assoc]
    rw [List.set_append_right _ _ (by simp)]
    simp [Nat.add_assoc]

/-! ### start_part -/

/-- `start_part(pt)` right after the scheme -/
theorem start_scheme (r0 : Rep) (sch : List Nat) (pt : Nat) (h2 : 2 ≤ pt) (hpt : pt ≤ 10) :
    serStartPart (schemeRep r0 sch) SCHEME pt =
      openRep r0 ([sch, 0x3A :: sepFor pt] ++ List.replicate (pt - 2) []) (delim pt) := by
  have c1 : ¬ (SCHEME = PATH ∧ pt = PATH) := by simp [SCHEME, PATH]
  have hstart : serStartPart (schemeRep r0 sch) SCHEME pt =
      { schemeRep r0 sch with
        partEnd := fillRange (schemeRep r0 sch).partEnd 1 pt (sch ++ [0x3A] ++ sepFor pt).length,
        norm := sch ++ [0x3A] ++ sepFor pt ++ delim pt } := by
    unfold serStartPart
    rw [if_neg c1]
    simp only [if_true]
    unfold sepFor
    by_cases h5 : pt ≤ HOST
    · simp only [h5, if_true]; rfl
    · simp only [h5, if_false, List.append_nil]; rfl
  rw [hstart]
  have hsums : sums 0 ([sch, 0x3A :: sepFor pt] ++ List.replicate (pt - 2) []) =
      sch.length :: List.replicate (pt - 1) (sch.length + 1 + (sepFor pt).length) := by
    rw [sums_append, sums_replicate_nil]
    have e : pt - 1 = (pt - 2) + 1 := by omega
    rw [e, List.replicate_succ]
    simp [Nat.add_assoc, Nat.add_comm]
  unfold openRep
  rw [hsums]
  have hd : List.drop pt (sch.length :: List.replicate 10 0) = List.replicate (11 - pt) 0 := by
    obtain ⟨k, rfl⟩ : ∃ k, pt = k + 1 := ⟨pt - 1, by omega⟩
    simp only [List.drop_succ_cons, List.drop_replicate]
    congr 1; omega
  have hfill : fillRange (schemeRep r0 sch).partEnd 1 pt (sch ++ [0x3A] ++ sepFor pt).length =
      sch.length :: List.replicate (pt - 1) (sch.length + 1 + (sepFor pt).length) ++
        List.replicate (11 - ([sch, 0x3A :: sepFor pt] ++ List.replicate (pt - 2) []).length) 0 := by
    unfold fillRange
    rw [if_pos (by omega)]
    show List.take 1 (sch.length :: List.replicate 10 0) ++ _ ++ List.drop pt (sch.length :: List.replicate 10 0) = _
    rw [hd]
    simp only [List.take_succ_cons, List.take_zero, List.length_append, List.length_cons,
      List.length_nil, List.length_replicate, List.cons_append, List.nil_append]
    have e2 : 11 - (pt - 2 + 1 + 1) = 11 - pt := by omega
    rw [e2]
  rw [hfill]
  simp [schemeRep, flatten_replicate_nil]

/-- `start_part(pt)` with `last_pt_ ≥ HOST_START`, `last_pt_ < pt` (from the proof of `serWrite_mkRep`) -/
theorem start_later (r0 : Rep) (X : List (List Nat)) (lastPt pt : Nat)
    (hX : X.length = lastPt + 1) (h4 : 4 ≤ lastPt) (hlt : lastPt < pt) (hpt : pt ≤ 10) :
    serStartPart (mkRep r0 X) lastPt pt =
      openRep r0 (X ++ List.replicate (pt - X.length) []) (delim pt) := by
  have c1 : ¬ (lastPt = PATH ∧ pt = PATH) := by simp only [PATH]; omega
  have c2 : ¬ lastPt = SCHEME := by simp only [SCHEME]; omega
  have c3 : ¬ lastPt = USERNAME := by simp only [USERNAME]; omega
  have c4 : ¬ lastPt = PASSWORD := by simp only [PASSWORD]; omega
  have hstart : serStartPart (mkRep r0 X) lastPt pt =
      { mkRep r0 X with
        partEnd := fillRange (mkRep r0 X).partEnd (lastPt + 1) pt (mkRep r0 X).norm.length,
        norm := (mkRep r0 X).norm ++ delim pt } := by
    unfold serStartPart
    rw [if_neg c1]
    simp only [if_neg c2, if_neg c3, if_neg c4]
    rfl
  rw [hstart]
  unfold openRep
  have hfill : fillRange (mkRep r0 X).partEnd (lastPt + 1) pt (mkRep r0 X).norm.length =
      sums 0 (X ++ List.replicate (pt - X.length) []) ++
        List.replicate (11 - (X ++ List.replicate (pt - X.length) []).length) 0 := by
    unfold fillRange
    rw [if_pos (by omega)]
    show List.take (lastPt + 1) (sums 0 X ++ List.replicate (11 - X.length) 0) ++
      List.replicate (pt - (lastPt + 1)) X.flatten.length ++
      List.drop pt (sums 0 X ++ List.replicate (11 - X.length) 0) = _
    rw [List.take_left' (by simp [hX]), List.drop_append, List.drop_of_length_le (by simp; omega)]
    simp only [sums_length, List.drop_replicate, List.nil_append, hX, List.append_assoc, sums_append,
      sums_replicate_nil, Nat.zero_add, List.length_append, List.length_replicate]
    have e : 11 - (lastPt + 1) - (pt - (lastPt + 1)) = 11 - (lastPt + 1 + (pt - (lastPt + 1))) := by omega
    rw [e]
  simp only [hfill]
  simp [mkRep, flatten_replicate_nil]

/-- `start_part(pt)` with `last_pt_ = pt` ∈ {HOST, PATH}: nothing happens -/
theorem start_same (r : Rep) (pt : Nat) (h : pt = HOST ∨ pt = PATH) (hlen : r.partEnd.length = 11) :
    serStartPart r pt pt = r := by
  rcases h with h | h
  · subst h
    unfold serStartPart
    simp [HOST, PATH, SCHEME, USERNAME, PASSWORD, PORT, QUERY, FRAGMENT, fillRange]
  · subst h
    unfold serStartPart
    simp [PATH]

/-! ### `Ser` level -/

theorem writePart_scheme (r0 : Rep) (sch : List Nat) (pt : Nat) (t : List Nat) (h2 : 2 ≤ pt) (hpt : pt ≤ 10) :
    (⟨schemeRep r0 sch, SCHEME⟩ : Ser).writePart pt t =
      ⟨mkRep r0 ([sch, 0x3A :: sepFor pt] ++ List.replicate (pt - 2) [] ++ [delim pt ++ t]), pt⟩ := by
  unfold Ser.writePart Ser.savePart Ser.append Ser.startPart
  simp only [start_scheme r0 sch pt h2 hpt]
  have hl : ([sch, 0x3A :: sepFor pt] ++ List.replicate (pt - 2) []).length = pt := by simp; omega
  have := save_open r0 ([sch, 0x3A :: sepFor pt] ++ List.replicate (pt - 2) []) (delim pt) t (by omega)
  rw [hl] at this
  rw [this]

theorem writePart_later (r0 : Rep) (X : List (List Nat)) (lastPt pt : Nat) (t : List Nat)
    (hX : X.length = lastPt + 1) (h4 : 4 ≤ lastPt) (hlt : lastPt < pt) (hpt : pt ≤ 10) :
    (⟨mkRep r0 X, lastPt⟩ : Ser).writePart pt t =
      ⟨mkRep r0 (X ++ List.replicate (pt - X.length) [] ++ [delim pt ++ t]), pt⟩ := by
  unfold Ser.writePart Ser.savePart Ser.append Ser.startPart
  simp only [start_later r0 X lastPt pt hX h4 hlt hpt]
  have hl : (X ++ List.replicate (pt - X.length) []).length = pt := by simp; omega
  have := save_open r0 (X ++ List.replicate (pt - X.length) []) (delim pt) t (by omega)
  rw [hl] at this
  rw [this]

/-- writing on to the last saved part (HOST after `set_empty_host`, PATH while parsing the path) -/
theorem writePart_same (r0 : Rep) (X : List (List Nat)) (p t : List Nat) (pt : Nat)
    (hX : X.length = pt) (h : pt = HOST ∨ pt = PATH) :
    (⟨mkRep r0 (X ++ [p]), pt⟩ : Ser).writePart pt t = ⟨mkRep r0 (X ++ [p ++ t]), pt⟩ := by
  unfold Ser.writePart Ser.savePart Ser.append Ser.startPart
  have hlen : (mkRep r0 (X ++ [p])).partEnd.length = 11 := by
    simp [mkRep]
    rcases h with h | h <;> (subst h; rw [hX]; simp [HOST, PATH])
  simp only [start_same _ pt h hlen]
  have := save_last r0 X p t (by rcases h with h | h <;> (subst h; rw [hX]; simp [HOST, PATH]))
  rw [hX] at this
  rw [this]

/-! ### path segments -/

/-- the serialisation of a list path -/
def ptext (p : List (List Nat)) : List Nat := p.flatMap (fun seg => 0x2F :: seg)

def NoSlash (p : List (List Nat)) : Prop := ∀ seg ∈ p, ∀ c ∈ seg, c ≠ 0x2F

theorem ptext_append (p : List (List Nat)) (seg : List Nat) : ptext (p ++ [seg]) = ptext p ++ 0x2F :: seg := by
  simp [ptext]

theorem ptext_eq_nil {p : List (List Nat)} (h : ptext p = []) : p = [] := by
  cases p with
  | nil => rfl
  | cons a b => simp [ptext] at h

theorem pathText_ptext {u : Url} (ho : u.hasOpaquePath = false) : pathText u = ptext u.path := by
  simp [pathText, ho, ptext]

theorem pushSegment_eq (s : Ser) (seg : List Nat) :
    s.pushSegment seg =
      { (s.writePart PATH (0x2F :: seg)) with
        rep := { (s.writePart PATH (0x2F :: seg)).rep with
                 segCount := (s.writePart PATH (0x2F :: seg)).rep.segCount + 1 } } := by
  simp [Ser.pushSegment, Ser.writePart, Ser.append, Ser.savePart, List.append_assoc]

theorem setSeg_mkRep (r0 : Rep) (A : List (List Nat)) (n : Nat) :
    ({ mkRep r0 A with segCount := n } : Rep) = mkRep { r0 with segCount := n } A := rfl

theorem push_started (r0 : Rep) (X : List (List Nat)) (t seg : List Nat) (hX : X.length = 8) :
    (⟨mkRep r0 (X ++ [t]), PATH⟩ : Ser).pushSegment seg =
      ⟨mkRep { r0 with segCount := r0.segCount + 1 } (X ++ [t ++ 0x2F :: seg]), PATH⟩ := by
  rw [pushSegment_eq, writePart_same r0 X t (0x2F :: seg) PATH hX (Or.inr rfl)]
  rfl

theorem push_scheme (r0 : Rep) (sch seg : List Nat) :
    (⟨schemeRep r0 sch, SCHEME⟩ : Ser).pushSegment seg =
      ⟨mkRep { r0 with segCount := r0.segCount + 1 }
        ([sch, [0x3A], [], [], [], [], [], []] ++ [0x2F :: seg]), PATH⟩ := by
  rw [pushSegment_eq, writePart_scheme r0 sch PATH (0x2F :: seg) (by simp [PATH]) (by simp [PATH])]
  simp [sepFor, delim, PATH, HOST, PORT, QUERY, FRAGMENT, List.replicate, mkRep]

theorem push_later (r0 : Rep) (A : List (List Nat)) (lastPt : Nat) (seg : List Nat)
    (hA : A.length = lastPt + 1) (h4 : 4 ≤ lastPt) (hlt : lastPt < PATH) :
    (⟨mkRep r0 A, lastPt⟩ : Ser).pushSegment seg =
      ⟨mkRep { r0 with segCount := r0.segCount + 1 }
        (A ++ List.replicate (8 - A.length) [] ++ [0x2F :: seg]), PATH⟩ := by
  rw [pushSegment_eq, writePart_later r0 A lastPt PATH (0x2F :: seg) hA h4 hlt (by simp [PATH])]
  simp [delim, PATH, PORT, QUERY, FRAGMENT, mkRep]

/-! ### the offsets of the path in `mkRep r0 (X ++ [t])` -/

theorem pe7_path (r0 : Rep) (X : List (List Nat)) (t : List Nat) (hX : X.length = 8) :
    (mkRep r0 (X ++ [t])).pe 7 = X.flatten.length := by
  rw [pe_mkRep_lt _ _ _ (by simp [hX])]
  unfold off
  have : 7 + 1 = X.length := by omega
  rw [this, List.take_left' rfl]

theorem pe8_path (r0 : Rep) (X : List (List Nat)) (t : List Nat) (hX : X.length = 8) :
    (mkRep r0 (X ++ [t])).pe 8 = X.flatten.length + t.length := by
  rw [pe_mkRep_lt _ _ _ (by simp [hX])]
  unfold off
  have : 8 + 1 = (X ++ [t]).length := by simp [hX]
  rw [this, List.take_of_length_le (Nat.le_refl _)]
  simp

theorem partView_path_mk (r0 : Rep) (X : List (List Nat)) (t : List Nat) (hX : X.length = 8) :
    (mkRep r0 (X ++ [t])).partView PATH = t := by
  have hk : kPartStart.getD 8 0 = 0 := rfl
  unfold Rep.partView
  rw [if_neg (by simp [PATH, SCHEME])]
  show (if (mkRep r0 (X ++ [t])).pe 8 > (mkRep r0 (X ++ [t])).pe 7 + kPartStart.getD 8 0 then
      slice (mkRep r0 (X ++ [t])).norm ((mkRep r0 (X ++ [t])).pe 7 + kPartStart.getD 8 0)
        ((mkRep r0 (X ++ [t])).pe 8) else []) = t
  rw [hk, pe7_path r0 X t hX, pe8_path r0 X t hX, Nat.add_zero]
  cases t with
  | nil => simp
  | cons a b =>
    rw [if_pos (by simp)]
    simp only [slice, norm_mkRep, List.flatten_append, List.flatten_cons, List.flatten_nil, List.append_nil]
    rw [List.take_of_length_le (by simp), List.drop_left' rfl]

theorem slice_path_mk (r0 : Rep) (X : List (List Nat)) (t : List Nat) (hX : X.length = 8) :
    slice (mkRep r0 (X ++ [t])).norm ((mkRep r0 (X ++ [t])).pe (PATH - 1)) ((mkRep r0 (X ++ [t])).pe PATH) = t := by
  simp only [PATH, pe7_path r0 X t hX, pe8_path r0 X t hX, norm_mkRep,
    List.flatten_append, List.flatten_cons, List.flatten_nil, List.append_nil]
  simp only [slice]
  rw [List.take_of_length_le (by simp), List.drop_left' rfl]

/-! ### shorten_path -/

/-- the position of the last "/" of a serialised list path whose segments contain no "/" -/
theorem lastSlash (q : List (List Nat)) (last : List Nat) (hl : ∀ c ∈ last, c ≠ 0x2F) :
    (((ptext (q ++ [last])).reverse.dropWhile (· != 0x2F)).length) = (ptext q).length + 1 := by
  rw [ptext_append, List.reverse_append, List.reverse_cons]
  have : (last.reverse ++ [0x2F] ++ (ptext q).reverse).dropWhile (· != 0x2F) = 0x2F :: (ptext q).reverse := by
    rw [List.append_assoc]
    have h1 : ∀ c ∈ last.reverse, (c != 0x2F) = true := by
      intro c hc; simpa using hl c (List.mem_reverse.1 hc)
    rw [List.dropWhile_append_of_pos h1]
    simp
  rw [this]; simp

theorem getPathFirstString_single (r0 : Rep) (X : List (List Nat)) (seg : List Nat) (hX : X.length = 8)
    (ho : r0.opaquePath = false) (hs : ∀ c ∈ seg, c ≠ 0x2F) :
    (mkRep r0 (X ++ [0x2F :: seg])).getPathFirstString 2 = if seg.length = 2 then seg else [] := by
  unfold Rep.getPathFirstString
  rw [partView_path_mk r0 X _ hX]
  have hop : (mkRep r0 (X ++ [0x2F :: seg])).opaquePath = false := ho
  simp only [hop, List.length_cons, List.drop_succ_cons, List.drop_zero]
  by_cases h2 : seg.length = 2
  · simp [h2]
    rw [← h2, List.take_length]
  · by_cases h3 : seg.length > 2
    · have : seg[2]?.getD 0 ≠ 0x2F := by
        rw [List.getElem?_eq_getElem h3]
        exact hs _ (List.getElem_mem _)
      simp [h2]
      intro _ h; exact absurd h this
    · simp [h2, h3]

theorem getShortenPath_cases (r : Rep) :
    r.getShortenPath = none ∨ r.getShortenPath = r.getPathRemLast := by
  unfold Rep.getShortenPath
  dsimp only
  split
  · left; rfl
  · split
    · left; rfl
    · right; rfl

def segDrive (seg : List Nat) : Bool :=
  match seg with
  | [a, b] => isNormalizedWindowsDrive a b
  | _ => false

theorem shortenList_single (isFile : Bool) (seg : List Nat) :
    shortenList isFile [seg] = if (isFile && segDrive seg) = true then [seg] else [] := rfl

theorem driveTest (seg : List Nat) :
    ((if seg.length = 2 then seg else []).length == 2 &&
      isNormalizedWindowsDrive ((if seg.length = 2 then seg else []).getD 0 0)
        ((if seg.length = 2 then seg else []).getD 1 0)) =
    segDrive seg := by
  unfold segDrive
  match seg with
  | [] => simp
  | [a] => simp
  | [a, b] => simp
  | a :: b :: c :: r => simp

theorem shorten_started (r0 : Rep) (X : List (List Nat)) (p : List (List Nat)) (isFile : Bool)
    (hX : X.length = 8) (ho : r0.opaquePath = false) (hn : r0.segCount = p.length)
    (hf : r0.isFileScheme = isFile) (hp : NoSlash p) :
    (⟨mkRep r0 (X ++ [ptext p]), PATH⟩ : Ser).shortenPath =
      ⟨mkRep { r0 with segCount := (shortenList isFile p).length }
        (X ++ [ptext (shortenList isFile p)]), PATH⟩ := by
  have hsc : (mkRep r0 (X ++ [ptext p])).segCount = p.length := hn
  have hfs : (mkRep r0 (X ++ [ptext p])).isFileScheme = isFile := hf
  have hsame : ∀ q, q = p → (⟨mkRep r0 (X ++ [ptext p]), PATH⟩ : Ser) =
      ⟨mkRep { r0 with segCount := q.length } (X ++ [ptext q]), PATH⟩ := by
    intro q hq; subst hq
    have : ({ r0 with segCount := q.length } : Rep) = r0 := by cases r0; simp at hn ⊢; exact hn.symm
    rw [this]
  -- the path after the last item is removed
  have hrem : p ≠ [] → (mkRep r0 (X ++ [ptext p])).getPathRemLast =
      some (X.flatten.length + (ptext p.dropLast).length, p.length - 1) := by
    intro hne
    unfold Rep.getPathRemLast
    rw [hsc, if_pos (List.length_pos_iff.mpr hne)]
    simp only [slice_path_mk r0 X _ hX]
    have hdec : p = p.dropLast ++ [p.getLast hne] := (List.dropLast_concat_getLast hne).symm
    have hk := lastSlash p.dropLast (p.getLast hne) (hp _ (List.getLast_mem hne))
    rw [← hdec] at hk
    rw [hk]
    simp [PATH, pe7_path r0 X _ hX]
  have hcut : p ≠ [] → (⟨mkRep r0 (X ++ [ptext p]), PATH⟩ : Ser).shortenPath =
      (match (mkRep r0 (X ++ [ptext p])).getShortenPath with
       | some _ => ⟨mkRep { r0 with segCount := p.dropLast.length } (X ++ [ptext p.dropLast]), PATH⟩
       | none => ⟨mkRep r0 (X ++ [ptext p]), PATH⟩) := by
    intro hne
    unfold Ser.shortenPath
    simp only
    cases hg : (mkRep r0 (X ++ [ptext p])).getShortenPath with
    | none => rfl
    | some v =>
      have hv : v = (X.flatten.length + (ptext p.dropLast).length, p.length - 1) := by
        rcases getShortenPath_cases (mkRep r0 (X ++ [ptext p])) with h | h
        · rw [h] at hg; exact absurd hg (by simp)
        · rw [h, hrem hne] at hg; exact (Option.some.inj hg).symm
      subst hv
      simp only
      congr 1
      apply rep_eq_mkRep <;> try rfl
      · show List.take (({ mkRep r0 (X ++ [ptext p]) with
            partEnd := (mkRep r0 (X ++ [ptext p])).partEnd.set PATH (X.flatten.length + (ptext p.dropLast).length),
            segCount := p.length - 1 } : Rep).pe PATH) (mkRep r0 (X ++ [ptext p])).norm = _
        have hpe : ({ mkRep r0 (X ++ [ptext p]) with
            partEnd := (mkRep r0 (X ++ [ptext p])).partEnd.set PATH (X.flatten.length + (ptext p.dropLast).length),
            segCount := p.length - 1 } : Rep).pe PATH = X.flatten.length + (ptext p.dropLast).length := by
          simp [Rep.pe, mkRep, PATH, hX, List.getD_eq_getElem?_getD, List.getElem?_set]
        rw [hpe]
        have hdec : p = p.dropLast ++ [p.getLast hne] := (List.dropLast_concat_getLast hne).symm
        conv => lhs; rw [hdec, ptext_append]
        simp only [norm_mkRep, List.flatten_append, List.flatten_cons, List.flatten_nil, List.append_nil]
        rw [← List.append_assoc, List.take_left' (by simp)]
      · show (sums 0 (X ++ [ptext p]) ++ List.replicate (11 - (X ++ [ptext p]).length) 0).set PATH
            (X.flatten.length + (ptext p.dropLast).length) = _
        simp only [sums_append, sums_cons, sums_nil, Nat.zero_add, List.append_assoc]
        rw [List.set_append_right _ _ (by simp [hX, PATH])]
        simp [hX, PATH]
      · show p.length - 1 = p.dropLast.length
        simp
  match p, hn, hp, hsc, hfs, hsame, hrem, hcut with
  | [], hn, hp, hsc, hfs, hsame, hrem, hcut =>
    unfold Ser.shortenPath Rep.getShortenPath
    rw [hsc]
    simp only [List.length_nil, beq_self_eq_true, if_true]
    exact hsame [] rfl
  | [seg], hn, hp, hsc, hfs, hsame, hrem, hcut =>
    rw [hcut (by simp)]
    have hseg : ∀ c ∈ seg, c ≠ 0x2F := hp seg (by simp)
    have hpt : ptext [seg] = 0x2F :: seg := by simp [ptext]
    have hfirst := getPathFirstString_single r0 X seg hX ho hseg
    rw [← hpt] at hfirst
    have hg : (mkRep r0 (X ++ [ptext [seg]])).getShortenPath =
        if (isFile && segDrive seg) = true then none
        else (mkRep r0 (X ++ [ptext [seg]])).getPathRemLast := by
      unfold Rep.getShortenPath
      dsimp only
      rw [hsc, hfs, hfirst, driveTest seg]
      simp
    rw [hg, shortenList_single]
    by_cases hd : (isFile && segDrive seg) = true
    · rw [if_pos hd, if_pos hd]
      exact hsame [seg] rfl
    · rw [if_neg hd, if_neg hd, hrem (by simp)]
      rfl
  | s1 :: s2 :: rest, hn, hp, hsc, hfs, hsame, hrem, hcut =>
    rw [hcut (by simp)]
    have hg : (mkRep r0 (X ++ [ptext (s1 :: s2 :: rest)])).getShortenPath =
        (mkRep r0 (X ++ [ptext (s1 :: s2 :: rest)])).getPathRemLast := by
      unfold Rep.getShortenPath
      dsimp only
      rw [hsc]
      simp
    rw [hg, hrem (by simp)]
    rfl

/-! ### the two path operations of `append_parts` as values -/

/-- the path after `get_path_rem_last` / `get_shorten_path` -/
def opList (o : PathOp) (isFile : Bool) (p : List (List Nat)) : List (List Nat) :=
  match o with
  | .remLast => p.dropLast
  | .shorten => shortenList isFile p

theorem getPathRemLast_mk (r0 : Rep) (X : List (List Nat)) (p : List (List Nat)) (hX : X.length = 8)
    (hn : r0.segCount = p.length) (hp : NoSlash p) (hne : p ≠ []) :
    (mkRep r0 (X ++ [ptext p])).getPathRemLast =
      some (X.flatten.length + (ptext p.dropLast).length, p.length - 1) := by
  have hsc : (mkRep r0 (X ++ [ptext p])).segCount = p.length := hn
  unfold Rep.getPathRemLast
  rw [hsc, if_pos (List.length_pos_iff.mpr hne)]
  simp only [slice_path_mk r0 X _ hX]
  have hdec : p = p.dropLast ++ [p.getLast hne] := (List.dropLast_concat_getLast hne).symm
  have hk := lastSlash p.dropLast (p.getLast hne) (hp _ (List.getLast_mem hne))
  rw [← hdec] at hk
  rw [hk]
  simp [PATH, pe7_path r0 X _ hX]

theorem getPathRemLast_nil (r0 : Rep) (A : List (List Nat)) (hn : r0.segCount = 0) :
    (mkRep r0 A).getPathRemLast = none := by
  have hsc : (mkRep r0 A).segCount = 0 := hn
  unfold Rep.getPathRemLast
  rw [hsc]; simp

/-- the value of the path operation: `none` (nothing to remove: the path stays) or the new end of
    the path and the new segment count -/
theorem pathOp_mk (o : PathOp) (r0 : Rep) (X : List (List Nat)) (p : List (List Nat)) (isFile : Bool)
    (hX : X.length = 8) (ho : r0.opaquePath = false) (hn : r0.segCount = p.length)
    (hf : r0.isFileScheme = isFile) (hp : NoSlash p) :
    ((mkRep r0 (X ++ [ptext p])).pathOp o = none ∧ opList o isFile p = p) ∨
    ((mkRep r0 (X ++ [ptext p])).pathOp o =
      some (X.flatten.length + (ptext (opList o isFile p)).length, (opList o isFile p).length)) := by
  have hsc : (mkRep r0 (X ++ [ptext p])).segCount = p.length := hn
  have hfs : (mkRep r0 (X ++ [ptext p])).isFileScheme = isFile := hf
  cases o with
  | remLast =>
    unfold Rep.pathOp opList
    cases p with
    | nil => left; exact ⟨getPathRemLast_nil _ _ hn, rfl⟩
    | cons a t =>
      right
      rw [getPathRemLast_mk r0 X _ hX hn hp (by simp)]
      simp
  | shorten =>
    unfold Rep.pathOp opList
    match p, hn, hp, hsc, hfs with
    | [], hn, hp, hsc, hfs =>
      left
      refine ⟨?_, rfl⟩
      unfold Rep.getShortenPath
      rw [hsc]; simp
    | [seg], hn, hp, hsc, hfs =>
      have hseg : ∀ c ∈ seg, c ≠ 0x2F := hp seg (by simp)
      have hpt : ptext [seg] = 0x2F :: seg := by simp [ptext]
      have hfirst := getPathFirstString_single r0 X seg hX ho hseg
      rw [← hpt] at hfirst
      have hg : (mkRep r0 (X ++ [ptext [seg]])).getShortenPath =
          if (isFile && segDrive seg) = true then none
          else (mkRep r0 (X ++ [ptext [seg]])).getPathRemLast := by
        unfold Rep.getShortenPath
        dsimp only
        rw [hsc, hfs, hfirst, driveTest seg]
        simp
      rw [hg, shortenList_single]
      by_cases hd : (isFile && segDrive seg) = true
      · left; rw [if_pos hd, if_pos hd]; exact ⟨rfl, rfl⟩
      · right
        rw [if_neg hd, if_neg hd, getPathRemLast_mk r0 X _ hX hn hp (by simp)]
        simp [ptext]
    | s1 :: s2 :: rest, hn, hp, hsc, hfs =>
      right
      have hg : (mkRep r0 (X ++ [ptext (s1 :: s2 :: rest)])).getShortenPath =
          (mkRep r0 (X ++ [ptext (s1 :: s2 :: rest)])).getPathRemLast := by
        unfold Rep.getShortenPath
        dsimp only
        rw [hsc]
        simp
      rw [hg, getPathRemLast_mk r0 X _ hX hn hp (by simp)]
      simp [shortenList]

theorem opList_prefix (o : PathOp) (isFile : Bool) (p : List (List Nat)) :
    ∃ q, p = opList o isFile p ++ q := by
  cases o with
  | remLast =>
    cases hp : p with
    | nil => exact ⟨[], rfl⟩
    | cons a t =>
      refine ⟨[(a :: t).getLast (by simp)], ?_⟩
      exact (List.dropLast_concat_getLast (by simp)).symm
  | shorten =>
    match p with
    | [] => exact ⟨[], rfl⟩
    | [seg] =>
      show ∃ q, [seg] = shortenList isFile [seg] ++ q
      rw [shortenList_single]
      split
      · exact ⟨[], by simp⟩
      · exact ⟨[seg], by simp⟩
    | s1 :: s2 :: rest =>
      refine ⟨[(s1 :: s2 :: rest).getLast (by simp)], ?_⟩
      show s1 :: s2 :: rest = (s1 :: s2 :: rest).dropLast ++ _
      exact (List.dropLast_concat_getLast (by simp)).symm

theorem ptext_take_prefix (o : PathOp) (isFile : Bool) (p : List (List Nat)) :
    (ptext p).take (ptext (opList o isFile p)).length = ptext (opList o isFile p) ∧
      (ptext (opList o isFile p)).length ≤ (ptext p).length := by
  obtain ⟨q, hq⟩ := opList_prefix o isFile p
  have : ptext p = ptext (opList o isFile p) ++ ptext q := by
    conv => lhs; rw [hq]
    simp [ptext]
  rw [this]
  exact ⟨List.take_left' rfl, by simp⟩

theorem shortenList_subset' (isFile : Bool) (p : List (List Nat)) : ∀ x ∈ shortenList isFile p, x ∈ p := by
  intro x hx
  match p, hx with
  | [], hx => exact hx
  | [seg], hx =>
    rw [shortenList_single] at hx
    split at hx
    · exact hx
    · simp at hx
  | a :: b :: r, hx => exact List.dropLast_subset _ hx

theorem opList_subset (o : PathOp) (isFile : Bool) (p : List (List Nat)) :
    ∀ x ∈ opList o isFile p, x ∈ p := by
  cases o with
  | remLast => exact fun x hx => List.dropLast_subset _ hx
  | shorten => exact shortenList_subset' isFile p

/-! ### commit_path = adjust_path_prefix -/

section
variable (r0 : Rep) {s0 s1 s2 s3 s4 s5 s6 s7 s8 s9 s10 : List Nat} {A : List (List Nat)}
  (h : Rp [s0, s1, s2, s3, s4, s5, s6, s7, s8, s9, s10] A)
include h

/-- `adjust_path_prefix` when the path was started (from the proof of `commitPath_S`) -/
theorem adjust_S (h8 : 8 < A.length) (h7 : s7 = [] ∨ s7 = [0x2F, 0x2E]) :
    ∃ A', adjustPathPrefix (mkRep r0 A) = mkRep r0 A' ∧
      Rp [s0, s1, s2, s3, s4, s5, s6,
          (if wantPrefix r0.hostNotNull r0.segCount s8 then [0x2F, 0x2E] else []), s8, s9, s10] A' ∧
      A'.length = A.length := by
  have hpos : 0 < s0.length := by simpa [off] using h.pos
  unfold adjustPathPrefix
  rw [partView_path _ h h8, isEmpty_prefix _ h]
  show ∃ A', (if (decide (s7 = []) != (if wantPrefix r0.hostNotNull r0.segCount s8 = true then [0x2F, 0x2E] else []).isEmpty) = true
      then replacePart1 (mkRep r0 A) PATH_PREFIX
        (if wantPrefix r0.hostNotNull r0.segCount s8 = true then [0x2F, 0x2E] else [])
      else mkRep r0 A) = _ ∧ _
  cases hw : wantPrefix r0.hostNotNull r0.segCount s8 <;> rcases h7 with h7 | h7 <;> subst h7
  · exact ⟨A, by simp, by simpa using h, rfl⟩
  · obtain ⟨A3, h31, h32, h33⟩ := repl_lit' r0 h 7 7 [[]] [] 0 (by omega) (by omega)
      (by simp) (by simp) (by simp [off]) rfl (by simpa [off] using hpos)
    exact ⟨A3, by simpa [replacePart1, PATH_PREFIX] using h31, by simpa using h32, h33⟩
  · obtain ⟨A3, h31, h32, h33⟩ := repl_lit' r0 h 7 7 [[0x2F, 0x2E]] [0x2F, 0x2E] 0
      (by omega) (by omega) (by simp) (by simp) (by simp [off]) rfl (by simpa [off] using hpos)
    exact ⟨A3, by simpa [replacePart1, PATH_PREFIX] using h31, by simpa using h32, h33⟩
  · exact ⟨A, by simp, by simpa using h, rfl⟩

/-- `adjust_path_prefix` with a non-null host and no "/." prefix: nothing happens -/
theorem adjust_none (hh : r0.hostNotNull = true) (h7 : s7 = []) :
    adjustPathPrefix (mkRep r0 A) = mkRep r0 A := by
  unfold adjustPathPrefix
  have hn : (mkRep r0 A).hostNotNull = true := hh
  rw [isEmpty_prefix _ h, hn]
  simp [h7]

end

/-- `hostDone` does not find a "/." prefix when nothing after PORT was started -/
theorem isEmpty_prefix_short (r0 : Rep) (A : List (List Nat)) (hA : A.length ≤ 7) :
    (mkRep r0 A).isEmpty PATH_PREFIX = true := by
  simp [Rep.isEmpty, PATH_PREFIX, SCHEME, pe_mkRep_ge r0 A 7 hA]

theorem percentEncode_ne_nil (f : Nat → Bool) (l : List Nat) (h : l ≠ []) : percentEncode f l ≠ [] := by
  cases l with
  | nil => exact absurd rfl h
  | cons c cs =>
    unfold percentEncode
    intro hc
    have := (List.append_eq_nil_iff.1 hc).1
    split at this
    · unfold pctEncodeChar encodeUtf8Char at this
      split at this
      · simp [pctByte] at this
      · split at this
        · simp [pctByte] at this
        · split at this <;> simp [pctByte] at this
    · split at this
      · simp at this
      · simp [pctByte] at this

/-! ### credentials and host -/

theorem start_user_pass (r0 : Rep) (a b c : List Nat) :
    serStartPart (mkRep r0 [a, b, c]) USERNAME PASSWORD = openRep r0 [a, b, c] [0x3A] := by
  simp [serStartPart, mkRep, openRep, USERNAME, PASSWORD, PATH, SCHEME, PORT, QUERY, FRAGMENT, HOST,
    fillRange]

theorem start_user_host (r0 : Rep) (a b c : List Nat) :
    serStartPart (mkRep r0 [a, b, c]) USERNAME HOST = openRep r0 [a, b, c, [], [0x40]] [] := by
  simp [serStartPart, mkRep, openRep, USERNAME, PASSWORD, PATH, SCHEME, PORT, QUERY, FRAGMENT, HOST,
    HOST_START, fillRange, Nat.add_assoc]

theorem start_pass_host (r0 : Rep) (a b c d : List Nat) :
    serStartPart (mkRep r0 [a, b, c, d]) PASSWORD HOST = openRep r0 [a, b, c, d, [0x40]] [] := by
  simp [serStartPart, mkRep, openRep, USERNAME, PASSWORD, PATH, SCHEME, PORT, QUERY, FRAGMENT, HOST,
    HOST_START, fillRange, Nat.add_assoc]

theorem writePart_user_pass (r0 : Rep) (a b c t : List Nat) :
    (⟨mkRep r0 [a, b, c], USERNAME⟩ : Ser).writePart PASSWORD t = ⟨mkRep r0 [a, b, c, 0x3A :: t], PASSWORD⟩ := by
  unfold Ser.writePart Ser.savePart Ser.append Ser.startPart
  simp only [start_user_pass]
  exact congrArg (fun r => (⟨r, PASSWORD⟩ : Ser)) (save_open r0 [a, b, c] [0x3A] t (by simp))

theorem writePart_user_host (r0 : Rep) (a b c t : List Nat) :
    (⟨mkRep r0 [a, b, c], USERNAME⟩ : Ser).writePart HOST t = ⟨mkRep r0 [a, b, c, [], [0x40], t], HOST⟩ := by
  unfold Ser.writePart Ser.savePart Ser.append Ser.startPart
  simp only [start_user_host]
  exact congrArg (fun r => (⟨r, HOST⟩ : Ser)) (save_open r0 [a, b, c, [], [0x40]] [] t (by simp))

theorem writePart_pass_host (r0 : Rep) (a b c d t : List Nat) :
    (⟨mkRep r0 [a, b, c, d], PASSWORD⟩ : Ser).writePart HOST t = ⟨mkRep r0 [a, b, c, d, [0x40], t], HOST⟩ := by
  unfold Ser.writePart Ser.savePart Ser.append Ser.startPart
  simp only [start_pass_host]
  exact congrArg (fun r => (⟨r, HOST⟩ : Ser)) (save_open r0 [a, b, c, d, [0x40]] [] t (by simp))

theorem writeHost_eq (s : Ser) (text : List Nat) (ht : Nat) :
    s.writeHost text ht =
      { (s.writePart HOST text) with
        rep := if !((s.writePart HOST text).rep.setHostType ht).isEmpty PATH_PREFIX
          then replacePart1 ((s.writePart HOST text).rep.setHostType ht) PATH_PREFIX []
          else (s.writePart HOST text).rep.setHostType ht } := rfl

/-- `hostStart` … `hostDone(ht)` when nothing after PORT was started: the host type is set, no "/."
    prefix is found -/
theorem writeHost_of_writePart {s : Ser} {r0 : Rep} {A : List (List Nat)} {text : List Nat}
    (h : s.writePart HOST text = ⟨mkRep r0 A, HOST⟩) (hA : A.length ≤ 7) (ht : Nat) :
    s.writeHost text ht = ⟨mkRep (r0.setHostType ht) A, HOST⟩ := by
  rw [writeHost_eq, h]
  simp only [setHostType_mkRep, isEmpty_prefix_short _ A hA, Bool.not_true, Bool.false_eq_true, if_false]

theorem setEmptyHost_of_writePart {s : Ser} {r0 : Rep} {A : List (List Nat)}
    (h : s.writePart HOST [] = ⟨mkRep r0 A, HOST⟩) :
    s.setEmptyHost = ⟨mkRep (r0.setHostType 0) A, HOST⟩ := by
  have e : s.setEmptyHost = { (s.writePart HOST []) with rep := (s.writePart HOST []).rep.setHostType 0 } := by
    simp [Ser.setEmptyHost, Ser.writePart, Ser.append]
  rw [e, h]
  rfl

/-- the host part of `mkRep r0 (X ++ [t])` -/
theorem partView_host_mk (r0 : Rep) (X : List (List Nat)) (t : List Nat) (hX : X.length = 5) :
    (mkRep r0 (X ++ [t])).partView HOST = t := by
  have hk : kPartStart.getD 5 0 = 0 := rfl
  have h4 : (mkRep r0 (X ++ [t])).pe 4 = X.flatten.length := by
    rw [pe_mkRep_lt _ _ _ (by simp [hX])]
    unfold off
    have : 4 + 1 = X.length := by omega
    rw [this, List.take_left' rfl]
  have h5 : (mkRep r0 (X ++ [t])).pe 5 = X.flatten.length + t.length := by
    rw [pe_mkRep_lt _ _ _ (by simp [hX])]
    unfold off
    have : 5 + 1 = (X ++ [t]).length := by simp [hX]
    rw [this, List.take_of_length_le (Nat.le_refl _)]
    simp
  unfold Rep.partView
  rw [if_neg (by simp [HOST, SCHEME])]
  show (if (mkRep r0 (X ++ [t])).pe 5 > (mkRep r0 (X ++ [t])).pe 4 + kPartStart.getD 5 0 then
      slice (mkRep r0 (X ++ [t])).norm ((mkRep r0 (X ++ [t])).pe 4 + kPartStart.getD 5 0)
        ((mkRep r0 (X ++ [t])).pe 5) else []) = t
  rw [hk, h4, h5, Nat.add_zero]
  cases t with
  | nil => simp
  | cons a b =>
    rw [if_pos (by simp)]
    simp only [slice, norm_mkRep, List.flatten_append, List.flatten_cons, List.flatten_nil, List.append_nil]
    rw [List.take_of_length_le (by simp), List.drop_left' rfl]

/-- url_serializer::empty_host right after the host was written -/
theorem emptyHost_mk (r0 : Rep) (X : List (List Nat)) (t : List Nat) (hX : X.length = 5) :
    (⟨mkRep r0 (X ++ [t]), HOST⟩ : Ser).emptyHost = ⟨mkRep (r0.setHostType 0) (X ++ [[]]), HOST⟩ := by
  have h4 : (mkRep r0 (X ++ [t])).pe HOST_START = X.flatten.length := by
    rw [pe_mkRep_lt _ _ _ (by simp [hX, HOST_START])]
    unfold off
    have : HOST_START + 1 = X.length := by simp [HOST_START]; omega
    rw [this, List.take_left' rfl]
  unfold Ser.emptyHost
  simp only [h4]
  congr 1
  apply rep_eq_mkRep <;> try rfl
  · show List.take X.flatten.length (X ++ [t]).flatten = _
    simp
  · show (sums 0 (X ++ [t]) ++ List.replicate (11 - (X ++ [t]).length) 0).set HOST X.flatten.length = _
    simp only [sums_append, sums_cons, sums_nil, Nat.zero_add, List.append_assoc]
    rw [List.set_append_right _ _ (by simp [hX, HOST])]
    simp [hX, HOST]

end Upa.Proofs.ParseRep
