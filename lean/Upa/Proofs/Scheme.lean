import Upa.Impl.Scheme
/-
  Lemmas for C13b: `get_scheme_info` (model `Impl.Scheme.getSchemeInfo`) is, for tables that satisfy
  the decidable `TablesOk`, the search by equality over the whole table, for EVERY string; no table
  access is out of range; and with `InfoOk` the lookup is the model's `schemeIndex`,
  `isSpecialScheme`, `isFileScheme`, `defaultPort`.
-/
namespace Upa.Proofs.Scheme
open Upa Upa.Impl Upa.Impl.Scheme

/-! ## the loop -/

/-- the loop over a range all of whose entries exist and have length `len`: it returns the
    first index of the range whose entry equals `s`, or `null` when there is none; never `oob` -/
theorem scan_spec (names : List (List Nat)) (s : List Nat) (len : Nat) :
    ∀ (n ind : Nat), ind + n ≤ names.length →
      (∀ i, ind ≤ i → i < ind + n → (names.getD i []).length = len) →
      (schemeScan names s len n ind = .null ∧ ∀ i, ind ≤ i → i < ind + n → names.getD i [] ≠ s) ∨
      (∃ i, schemeScan names s len n ind = .at i ∧ ind ≤ i ∧ i < ind + n ∧ names.getD i [] = s ∧
        ∀ j, ind ≤ j → j < i → names.getD j [] ≠ s) := by
  intro n
  induction n with
  | zero =>
    intro ind _ _
    left
    exact ⟨rfl, fun i h1 h2 => by omega⟩
  | succ n ih =>
    intro ind hle hlen
    have hlt : ind < names.length := by omega
    have hget : names[ind]? = some (names.getD ind []) := by
      simp [List.getD_eq_getElem?_getD, List.getElem?_eq_getElem hlt]
    have hl0 : (names.getD ind []).length = len := hlen ind (Nat.le_refl _) (by omega)
    unfold schemeScan
    simp only [hget]
    have hnlt : ¬ (names.getD ind []).length < len := by omega
    have htake : (names.getD ind []).take len = names.getD ind [] :=
      List.take_of_length_le (by omega)
    simp only [hnlt, if_false, htake]
    by_cases heq : names.getD ind [] = s
    · right
      refine ⟨ind, ?_, Nat.le_refl _, by omega, heq, fun j h1 h2 => by omega⟩
      rw [if_pos heq]
    · simp only [heq, if_false]
      have ih' := ih (ind + 1) (by omega) (fun i h1 h2 => hlen i (by omega) (by omega))
      cases ih' with
      | inl h =>
        left
        refine ⟨h.1, fun i h1 h2 => ?_⟩
        by_cases hi : i = ind
        · subst hi; exact heq
        · exact h.2 i (by omega) (by omega)
      | inr h =>
        obtain ⟨i, h1, h2, h3, h4, h5⟩ := h
        right
        refine ⟨i, h1, by omega, by omega, h4, fun j hj1 hj2 => ?_⟩
        by_cases hj : j = ind
        · subst hj; exact heq
        · exact h5 j (by omega) hj2

/-! ## the whole function -/

theorem getD_of_mem {names : List (List Nat)} {s : List Nat} (h : s ∈ names) :
    ∃ i, i < names.length ∧ names.getD i [] = s := by
  obtain ⟨i, hi, he⟩ := List.mem_iff_getElem.mp h
  exact ⟨i, hi, by simp [List.getD_eq_getElem?_getD, List.getElem?_eq_getElem hi, he]⟩

theorem getD_eq_getElem (names : List (List Nat)) (i : Nat) (h : i < names.length) :
    names.getD i [] = names[i] := by
  simp [List.getD_eq_getElem?_getD, List.getElem?_eq_getElem h]

/-- `get_scheme_info` = first index of an equal entry in the whole table -/
theorem getSchemeInfo_eq {names : List (List Nat)} {lenToInd : List Nat} {maxLen : Nat}
    (h : TablesOk names lenToInd maxLen) (s : List Nat) :
    getSchemeInfo names lenToInd maxLen s = Res.ofOption (names.idxOf? s) := by
  obtain ⟨hlen, hrange, hentry, hinrange⟩ := h
  unfold getSchemeInfo
  simp only []
  by_cases hle : s.length ≤ maxLen
  · simp only [hle, if_true]
    have g1 : lenToInd[s.length + 1]? = some (lenToInd.getD (s.length + 1) 0) := by
      have : s.length + 1 < lenToInd.length := by omega
      simp [List.getD_eq_getElem?_getD, List.getElem?_eq_getElem this]
    have g0 : lenToInd[s.length]? = some (lenToInd.getD s.length 0) := by
      have : s.length < lenToInd.length := by omega
      simp [List.getD_eq_getElem?_getD, List.getElem?_eq_getElem this]
    simp only [g1, g0]
    generalize hb : lenToInd.getD s.length 0 = b at *
    generalize he : lenToInd.getD (s.length + 1) 0 = e at *
    have hr := hrange s.length (by omega)
    rw [hb, he] at hr
    have hsc := scan_spec names s s.length (e - b) b (by omega)
      (fun i h1 h2 => hinrange s.length (by omega) i (by omega) (by rw [hb]; exact h1) (by rw [he]; omega))
    cases hsc with
    | inl hn =>
      rw [hn.1]
      have : names.idxOf? s = none := by
        rw [List.idxOf?_eq_none_iff]
        intro hmem
        obtain ⟨i, hi, hieq⟩ := getD_of_mem hmem
        have := hentry i hi
        rw [hieq, hb, he] at this
        exact hn.2 i this.2.1 (by omega) hieq
      rw [this]; rfl
    | inr hs =>
      obtain ⟨i, h1, h2, h3, h4, h5⟩ := hs
      rw [h1]
      have hi : i < names.length := by omega
      have : names.idxOf? s = some i := by
        unfold List.idxOf?
        rw [List.findIdx?_eq_some_iff_getElem]
        refine ⟨hi, ?_, ?_⟩
        · rw [← getD_eq_getElem names i hi, h4]; simp
        · intro j hji
          have hj : j < names.length := by omega
          rw [← getD_eq_getElem names j hj]
          simp only [beq_iff_eq]
          intro hjs
          have := hentry j hj
          rw [hjs, hb, he] at this
          exact h5 j this.2.1 hji hjs
      rw [this]; rfl
  · simp only [hle, if_false]
    have : names.idxOf? s = none := by
      rw [List.idxOf?_eq_none_iff]
      intro hmem
      obtain ⟨i, hi, hieq⟩ := getD_of_mem hmem
      have := (hentry i hi).1
      rw [hieq] at this
      omega
    rw [this]; rfl

theorem getSchemeInfo_ne_oob {names : List (List Nat)} {lenToInd : List Nat} {maxLen : Nat}
    (h : TablesOk names lenToInd maxLen) (s : List Nat) :
    getSchemeInfo names lenToInd maxLen s ≠ .oob := by
  rw [getSchemeInfo_eq h]
  cases names.idxOf? s <;> simp [Res.ofOption]

theorem toOption_ofOption (o : Option Nat) : (Res.ofOption o).toOption = o := by
  cases o <;> rfl

/-! ## `TablesOk` says what the comment in src/url.cpp says: sorted by length -/

theorem lenToInd_mono {names : List (List Nat)} {lenToInd : List Nat} {maxLen : Nat}
    (h : TablesOk names lenToInd maxLen) :
    ∀ (d a : Nat), a + d ≤ maxLen + 1 → lenToInd.getD a 0 ≤ lenToInd.getD (a + d) 0 := by
  intro d
  induction d with
  | zero => intro a _; exact Nat.le_refl _
  | succ d ih =>
    intro a ha
    have h1 := ih a (by omega)
    have h2 := (h.2.1 (a + d) (by omega)).1
    exact Nat.le_trans h1 h2

theorem tables_sorted {names : List (List Nat)} {lenToInd : List Nat} {maxLen : Nat}
    (h : TablesOk names lenToInd maxLen) (i j : Nat) (hij : i < j) (hj : j < names.length) :
    (names.getD i []).length ≤ (names.getD j []).length := by
  have hi := h.2.2.1 i (by omega)
  have hj' := h.2.2.1 j hj
  apply Nat.le_of_not_lt
  intro hlt
  -- Lj + 1 ≤ Li, so lenToInd[Lj+1] ≤ lenToInd[Li] ≤ i < j < lenToInd[Lj+1]
  have hm := lenToInd_mono h ((names.getD i []).length - ((names.getD j []).length + 1))
    ((names.getD j []).length + 1) (by omega)
  have he : (names.getD j []).length + 1 + ((names.getD i []).length - ((names.getD j []).length + 1)) =
      (names.getD i []).length := by omega
  rw [he] at hm
  omega

/-! ## the model's scheme functions -/

theorem isSpecial_iff_mem (s : List Nat) : isSpecialScheme s = true ↔ s ∈ modelSchemes := by
  simp [isSpecialScheme, modelSchemes, or_assoc]

theorem schemeIndex_isSome (s : List Nat) : (schemeIndex s).isSome = isSpecialScheme s := by
  unfold schemeIndex isSpecialScheme
  by_cases h1 : s == sWs <;> by_cases h2 : s == sWss <;> by_cases h3 : s == sFtp <;>
    by_cases h4 : s == sHttp <;> by_cases h5 : s == sFile <;> by_cases h6 : s == sHttps <;>
    simp [h1, h2, h3, h4, h5, h6]

theorem not_special (s : List Nat) (h : isSpecialScheme s = false) :
    schemeIndex s = none ∧ isFileScheme s = false ∧ defaultPort s = none := by
  have hi := schemeIndex_isSome s
  rw [h] at hi
  unfold isSpecialScheme at h
  simp only [Bool.or_eq_false_iff] at h
  obtain ⟨⟨⟨⟨⟨h1, h2⟩, h3⟩, h4⟩, h5⟩, h6⟩ := h
  refine ⟨by simpa using hi, ?_, ?_⟩
  · unfold isFileScheme; exact h5
  · unfold defaultPort; simp [h1, h2, h3, h4, h6]

/-- the lookup through the tables is the model's, for every string -/
theorem bridge {names : List (List Nat)} {lenToInd : List Nat} {maxLen : Nat}
    {ports : List Int} {special file : List Bool}
    (ht : TablesOk names lenToInd maxLen) (hi : InfoOk names ports special file) (s : List Nat) :
    getSchemeInfo names lenToInd maxLen s = Res.ofOption (schemeIndex s) ∧
    (getSchemeInfo names lenToInd maxLen s).flag special = isSpecialScheme s ∧
    (getSchemeInfo names lenToInd maxLen s).flag file = isFileScheme s ∧
    (getSchemeInfo names lenToInd maxLen s).port ports = defaultPort s := by
  obtain ⟨_, _, _, hsub, hrow⟩ := hi
  rw [getSchemeInfo_eq ht]
  cases hidx : names.idxOf? s with
  | none =>
    have hnm : s ∉ names := List.idxOf?_eq_none_iff.mp hidx
    have hns : isSpecialScheme s = false := by
      cases hsp : isSpecialScheme s with
      | false => rfl
      | true => exact absurd (hsub s ((isSpecial_iff_mem s).mp hsp)) hnm
    obtain ⟨a, b, c⟩ := not_special s hns
    rw [a, b, c, hns]
    exact ⟨rfl, rfl, rfl, rfl⟩
  | some i =>
    unfold List.idxOf? at hidx
    obtain ⟨hlt, heq, _⟩ := List.findIdx?_eq_some_iff_getElem.mp hidx
    have hs : names.getD i [] = s := by
      rw [getD_eq_getElem names i hlt]; simpa using heq
    obtain ⟨r1, r2, r3, r4⟩ := hrow i hlt
    rw [hs] at r1 r2 r3 r4
    rw [r1]
    exact ⟨rfl, r2, r3, r4⟩

end Upa.Proofs.Scheme
