import Upa.Proofs.ParamsCmp
/-
  C16, list part: the URLSearchParams list operations against the Standard's algorithms, the
  `is_sorted_` cache invariant over arbitrary histories, and `sort`.
-/
namespace Upa.Proofs.C16
open Upa Upa.Spec Upa.Impl


/-! ### `set`: the erase loop against the Standard's "set" -/

theorem setLoop_eq (n v : List Nat) : ∀ (l : List BPair) (m : Bool),
    setLoop n v l m = (Spec.spSet.go n v l m, m || l.any (fun x => x.1 = n)) := by
  intro l
  induction l with
  | nil => intro m; simp [setLoop, Spec.spSet.go]
  | cons x xs ih =>
    intro m
    by_cases hx : x.1 = n
    · cases m with
      | true => simp [setLoop, Spec.spSet.go, hx, ih]
      | false => simp [setLoop, Spec.spSet.go, hx, ih]
    · simp [setLoop, Spec.spSet.go, hx, ih]

theorem set_list (p : Params) (n v : List Nat) : (p.set n v).list = Spec.spSet p.list n v := by
  unfold Params.set Spec.spSet
  rw [setLoop_eq]
  simp only [Bool.false_or]
  by_cases h : (p.list.any fun x => decide (x.1 = n)) = true
  · simp [h]
  · simp only [Bool.not_eq_true] at h
    simp [h, Params.append]


/-! ### the `is_sorted_` cache -/

/-- what `is_sorted_ == true` promises: no later element is `nameLess` an earlier one -/
def Sorted (l : List BPair) : Prop := List.Pairwise (fun x y => nameLess y x = false) l

/-- the mutating operations of url_search_params -/
inductive Ops where
  | append (n v : List Nat)
  | del (n : List Nat)
  | del2 (n v : List Nat)
  | set (n v : List Nat)
  | sort
  | clear
  | parse (remQmark : Bool) (bytes : List Nat)

def step (p : Params) : Ops → Params
  | .append n v => p.append n v
  | .del n => p.del n
  | .del2 n v => p.del2 n v
  | .set n v => p.set n v
  | .sort => p.sort
  | .clear => p.clear
  | .parse r b => p.parse r b

def run (p : Params) (ops : List Ops) : Params := ops.foldl step p

theorem sorted_iff_names (l : List BPair) :
    Sorted l ↔ List.Pairwise (fun a b => lexLt (key b) (key a) = false) (l.map (·.1)) := by
  unfold Sorted
  rw [List.pairwise_map]
  simp only [nameLess_eq]

theorem setLoop_names (n v : List Nat) : ∀ (l : List BPair) (m : Bool),
    List.Sublist ((setLoop n v l m).1.map (·.1)) (l.map (·.1)) := by
  intro l
  induction l with
  | nil => intro m; simp [setLoop]
  | cons x xs ih =>
    intro m
    by_cases hx : x.1 = n
    · cases m with
      | true =>
        simp only [setLoop, hx, if_true, List.map_cons]
        exact List.Sublist.cons _ (ih true)
      | false =>
        simp only [setLoop, hx, if_true, List.map_cons]
        exact List.Sublist.cons_cons _ (ih true)
    · simp only [setLoop, hx, if_false, List.map_cons]
      exact List.Sublist.cons_cons _ (ih m)

theorem sorted_mergeSort (l : List BPair) : Sorted (l.mergeSort (fun a b => !nameLess b a)) := by
  have := List.pairwise_mergeSort (le := nameLe) nameLe_trans nameLe_total l
  unfold Sorted
  refine List.Pairwise.imp ?_ this
  intro a b h
  simpa [nameLe] using h

theorem step_inv (p : Params) (o : Ops) (h : p.isSorted = true → Sorted p.list) :
    (step p o).isSorted = true → Sorted (step p o).list := by
  cases o with
  | append n v => intro hs; simp [step, Params.append] at hs
  | del n =>
    intro hs
    exact List.Pairwise.sublist List.filter_sublist (h hs)
  | del2 n v =>
    intro hs
    exact List.Pairwise.sublist List.filter_sublist (h hs)
  | set n v =>
    simp only [step, Params.set]
    have hsub := setLoop_names n v p.list false
    generalize setLoop n v p.list false = r at hsub
    obtain ⟨l, m⟩ := r
    cases m with
    | false => intro hs; simp [Params.append] at hs
    | true =>
      intro hs
      simp only [Bool.not_true, Bool.false_eq_true, if_false] at hs ⊢
      rw [sorted_iff_names]
      exact List.Pairwise.sublist hsub ((sorted_iff_names _).1 (h hs))
  | sort =>
    simp only [step, Params.sort]
    cases hf : p.isSorted with
    | true => intro _; simpa [hf] using h hf
    | false => intro _; simpa using sorted_mergeSort p.list
  | clear => intro _; exact List.Pairwise.nil
  | parse r b => intro hs; simp [step, Params.parse] at hs

theorem run_inv (p : Params) (ops : List Ops) (h : p.isSorted = true → Sorted p.list) :
    (run p ops).isSorted = true → Sorted (run p ops).list := by
  induction ops generalizing p with
  | nil => exact h
  | cons o os ih => exact ih (step p o) (step_inv p o h)


/-! ### `sort` -/

theorem sort_flag (p : Params) : p.sort.isSorted = true := by
  unfold Params.sort
  cases h : p.isSorted <;> simp [h]

theorem sort_list_eq (p : Params) (hinv : p.isSorted = true → Sorted p.list) :
    p.sort.list = p.list.mergeSort nameLe := by
  unfold Params.sort
  cases hf : p.isSorted with
  | false => rfl
  | true =>
    simp only [Bool.not_true, Bool.false_eq_true, if_false]
    symm
    apply List.mergeSort_of_pairwise
    refine List.Pairwise.imp ?_ (hinv hf)
    intro a b h
    simp [nameLe, h]

theorem sort_perm (p : Params) (hinv : p.isSorted = true → Sorted p.list) :
    p.sort.list.Perm p.list := by
  rw [sort_list_eq p hinv]; exact List.mergeSort_perm _ _

theorem sort_sorted (p : Params) (hinv : p.isSorted = true → Sorted p.list) : Sorted p.sort.list := by
  rw [sort_list_eq p hinv]; exact sorted_mergeSort p.list

theorem sort_stable (p : Params) (hinv : p.isSorted = true → Sorted p.list) (c : List BPair)
    (hc : Sorted c) (hsub : List.Sublist c p.list) : List.Sublist c p.sort.list := by
  rw [sort_list_eq p hinv]
  apply List.sublist_mergeSort nameLe_trans nameLe_total _ hsub
  refine List.Pairwise.imp ?_ hc
  intro a b h
  simp [nameLe, h]

/-- the Standard's sort on a decoded view of the list -/
theorem sort_spec (g : List Nat → List Nat) (p : Params) (hinv : p.isSorted = true → Sorted p.list)
    (dl : List Spec.Pair) (hdl : ∀ x ∈ dl, ∀ c ∈ x.1, isScalar c = true)
    (hview : p.list = dl.map (fun x => (utf8Encode x.1, g x.2))) :
    p.sort.list = (Spec.spSort dl).map (fun x => (utf8Encode x.1, g x.2)) := by
  rw [sort_list_eq p hinv, hview]
  unfold Spec.spSort
  symm
  apply List.map_mergeSort
  intro a ha b hb
  simp only [nameLe, nameLess_eq, key_encode _ (hdl a ha), key_encode _ (hdl b hb)]

/-! ### an evaluated `do_parse` used by the non-vacuity examples of C16 -/

/-- `do_parse(true, "?b=1&%F0%9F%98%80=2&%EF%BF%BD=3&a=4&b=5")` -/
theorem example_parse :
    Impl.formParse true [63, 98, 61, 49, 38, 37, 70, 48, 37, 57, 70, 37, 57, 56, 37, 56, 48, 61, 50, 38,
      37, 69, 70, 37, 66, 70, 37, 66, 68, 61, 51, 38, 97, 61, 52, 38, 98, 61, 53] =
    [([98], [49]), ([240, 159, 152, 128], [50]), ([239, 191, 189], [51]), ([97], [52]), ([98], [53])] := by
  simp [Impl.formParse, Impl.formParseAux, Impl.FormSt.push, Impl.FormSt.flush]
  decide

end Upa.Proofs.C16
