import Upa.Proofs.ParseRepOps
/-
  Helpers for C05e, part 2: the state blocks of `parseRep` (Impl/ParseRep.lean) simulate the state
  blocks of the record-level parser `urlParse` (Impl/Url.lean) without state override.
-/
set_option linter.unusedSimpArgs false
set_option linter.unusedVariables false

namespace Upa.Proofs.ParseRep
open Upa Upa.Impl Upa.Proofs.C05 Upa.Proofs.SetRep Upa.Proofs.SetRepApi Upa.Props

/-! ### the invariant once the host (or the path) is written -/

/-- the serializer state `s` presents the record `u`: the parts up to `last_pt_` are those of the
    from-scratch layout of `u`, every later offset is `0` (and `u` has no text there) -/
def SerInv (s : Ser) (u : Url) : Prop :=
  RecWF u ∧ ∃ A, Rp (segsOf u) A ∧ s.rep = mkRep (layout u) A ∧ A.length = s.lastPt + 1

/-- what a finished parse leaves -/
def Final (r : Rep) (u : Url) : Prop := ∃ l, SerInv ⟨r, l⟩ u

/-- the result of a state block of `parseRep` against the result of the block of `urlParse` -/
def Agree (x : Option Rep) (y : Res) : Prop :=
  match x with
  | none => y.out ≠ .ok
  | some r => y.out = .ok ∧ Final r y.url

theorem SerInv.repFor {s : Ser} {u : Url} (h : SerInv s u) : RepFor s.rep u := by
  obtain ⟨wf, A, hA, hr, _⟩ := h
  exact represents_equiv u wf ⟨A, hA, hr⟩

theorem SerInv.lastPt_ge {s : Ser} {u : Url} (h : SerInv s u) : 5 ≤ s.lastPt := by
  obtain ⟨_, A, hA, _, hl⟩ := h
  have := hA.lo; omega

theorem SerInv.lastPt_le {s : Ser} {u : Url} (h : SerInv s u) : s.lastPt ≤ 10 := by
  obtain ⟨_, A, hA, _, hl⟩ := h
  have := hA.hi; omega

/-- the getters of the serializer the parser consults -/
theorem SerInv.special {s : Ser} {u : Url} (h : SerInv s u) : s.rep.isSpecialScheme = u.isSpecial := by
  obtain ⟨_, A, _, hr, _⟩ := h
  rw [hr]
  show (layout u).schemeIdx.isSome = _
  exact schemeIndex_isSome u.scheme

theorem SerInv.file {s : Ser} {u : Url} (h : SerInv s u) : s.rep.isFileScheme = u.isFile := by
  obtain ⟨_, A, _, hr, _⟩ := h
  rw [hr]
  show ((layout u).schemeIdx == some 4) = _
  exact schemeIndex_file u.scheme

/-! ### appending a part after the last started one -/

theorem Rp_write {S A : List (List Nat)} (h : Rp S A) (pt : Nat) (seg : List Nat)
    (hlt : A.length ≤ pt) (hpt : pt ≤ 10) :
    Rp (S.take pt ++ [seg] ++ S.drop (pt + 1)) (A ++ List.replicate (pt - A.length) [] ++ [seg]) := by
  have hlo := h.lo
  have hhi := h.hi
  have hlenS := h.lenS
  have hlast : (S.drop (pt + 1)).flatten = [] := h.drop_absent (by omega)
  have hdrop : S.drop (pt + 1) = List.replicate (10 - pt) [] := by
    have := eq_replicate_of_flatten_nil _ hlast
    rw [this]; simp [hlenS]
  have htake : S.take pt = A ++ List.replicate (pt - A.length) [] := by
    conv => lhs; rw [h.pad]
    rw [List.take_append, List.take_replicate, List.take_of_length_le hlt]
    congr 2
    omega
  refine ⟨?_, ?_, ?_, ?_, ?_⟩
  · simp [hlenS]; omega
  · simp; omega
  · simp; omega
  · rw [htake, hdrop]
    congr 1
    simp only [List.length_append, List.length_replicate, List.length_cons, List.length_nil]
    congr 1; omega
  · have : off (S.take pt ++ [seg] ++ S.drop (pt + 1)) 1 = off S 1 := by
      unfold off
      rw [List.append_assoc, List.take_append_of_le_length (by simp [hlenS]; omega),
        List.take_take]
      congr 3
      omega
    rw [this]; exact h.pos

/-- `start_part(pt)`, text, `save_part()` on a state that presents `u`, for a part after `last_pt_` -/
theorem serInv_write {s : Ser} {u : Url} (h : SerInv s u) (pt : Nat) (t : List Nat)
    (hlt : s.lastPt < pt) (hpt : pt ≤ 10) :
    ∃ A', s.writePart pt t = ⟨mkRep (layout u) A', pt⟩ ∧ A'.length = pt + 1 ∧
      Rp ((segsOf u).take pt ++ [delim pt ++ t] ++ (segsOf u).drop (pt + 1)) A' := by
  obtain ⟨_, A, hA, hr, hl⟩ := h
  obtain ⟨rep, lastPt⟩ := s
  simp only at hr hl hlt
  subst hr
  have hlo := hA.lo
  refine ⟨_, writePart_later (layout u) A lastPt pt t hl (by omega) hlt hpt, by simp; omega,
    Rp_write hA pt _ (by omega) hpt⟩

/-! ### fragment_state, query_state -/

theorem sim_fragment {s : Ser} {u : Url} (h : SerInv s u) (hl : s.lastPt < FRAGMENT) (p : List Nat) :
    Agree (fragmentStateSer s p) (fragmentState u p) := by
  obtain ⟨A', h1, h2, h3⟩ := serInv_write h FRAGMENT (percentEncode fragmentNoEnc p) hl (by simp [FRAGMENT])
  unfold fragmentStateSer fragmentState Agree
  simp only [h1, Ser.setFlag, setNotNull_mkRep]
  refine ⟨trivial, FRAGMENT, h.1, A', ?_, ?_, h2⟩
  · have e : segsOf { u with fragment := some (percentEncode fragmentNoEnc p) } =
        (segsOf u).take FRAGMENT ++ [delim FRAGMENT ++ percentEncode fragmentNoEnc p] ++
          (segsOf u).drop (FRAGMENT + 1) := by
      simp [segsOf, delim, QUERY, PORT, FRAGMENT, sepSeg, userSeg, passSeg, atSeg, portSeg, prefixSeg,
        querySeg, fragSeg, credOn, Url.hostText, pathText, needsPathPrefix, Url.hasCredentials]
    rw [e]; exact h3
  · exact mkRep_congr rfl rfl rfl rfl rfl rfl rfl rfl rfl

theorem sim_query {s : Ser} {u : Url} (h : SerInv s u) (hl : s.lastPt < QUERY) (p : List Nat) :
    Agree (queryStateSer s p) (queryState none u p) := by
  unfold queryStateSer queryState
  simp only [Option.isSome_none, Bool.false_eq_true, if_false, h.special]
  generalize hq : percentEncode (if u.isSpecial = true then specialQueryNoEnc else queryNoEnc)
    (p.takeWhile (· != 0x23)) = q
  obtain ⟨A', h1, h2, h3⟩ := serInv_write h QUERY q hl (by simp [QUERY])
  have hinv : SerInv ((s.writePart QUERY q).setFlag QUERY) { u with query := some q } := by
    simp only [h1, Ser.setFlag, setNotNull_mkRep]
    refine ⟨h.1, A', ?_, ?_, h2⟩
    · have e : segsOf { u with query := some q } =
          (segsOf u).take QUERY ++ [delim QUERY ++ q] ++ (segsOf u).drop (QUERY + 1) := by
        simp [segsOf, delim, QUERY, PORT, FRAGMENT, sepSeg, userSeg, passSeg, atSeg, portSeg, prefixSeg,
          querySeg, fragSeg, credOn, Url.hostText, pathText, needsPathPrefix, Url.hasCredentials]
      rw [e]; exact h3
    · exact mkRep_congr rfl rfl rfl rfl rfl rfl rfl rfl rfl
  cases hrest : p.dropWhile (· != 0x23) with
  | nil =>
    simp only [Agree]
    exact ⟨trivial, QUERY, by simpa [h1, Ser.setFlag] using hinv⟩
  | cons c r =>
    simp only
    exact sim_fragment hinv (by simp [h1, Ser.setFlag, QUERY, FRAGMENT]) r

theorem sim_afterPath {s : Ser} {u : Url} (h : SerInv s u) (hl : s.lastPt < QUERY) (rest : List Nat) :
    Agree (afterPathSer s rest) (afterPath none u rest) := by
  unfold afterPathSer afterPath
  cases rest with
  | nil => exact ⟨rfl, s.lastPt, h⟩
  | cons c r =>
    simp only
    split
    · exact sim_query h hl r
    · exact sim_fragment h (by simp only [QUERY, FRAGMENT] at *; omega) r

/-! ### the invariant right after the scheme -/

/-- only "scheme:" is written; the record has the scheme (and possibly the opaque-path flag) only -/
structure SchInv (s : Ser) (u : Url) : Prop where
  sch : u.scheme ≠ []
  last : s.lastPt = SCHEME
  rep : s.rep = schemeRep (layout u) u.scheme
  host : u.host = none
  user : u.username = []
  pass : u.password = []
  port : u.port = none
  path : pathText u = []
  query : u.query = none
  frag : u.fragment = none

theorem SchInv.wf {s : Ser} {u : Url} (h : SchInv s u) : RecWF u :=
  ⟨h.sch, fun _ => ⟨h.user, h.pass, h.port⟩⟩

theorem SchInv.eq {s : Ser} {u : Url} (h : SchInv s u) : s = ⟨schemeRep (layout u) u.scheme, SCHEME⟩ := by
  obtain ⟨rep, lastPt⟩ := s
  have h1 := h.last; have h2 := h.rep
  simp only at h1 h2
  rw [h1, h2]

theorem SchInv.special {s : Ser} {u : Url} (h : SchInv s u) : s.rep.isSpecialScheme = u.isSpecial := by
  rw [h.rep]
  show (layout u).schemeIdx.isSome = _
  exact schemeIndex_isSome u.scheme

theorem SchInv.file {s : Ser} {u : Url} (h : SchInv s u) : s.rep.isFileScheme = u.isFile := by
  rw [h.rep]
  show ((layout u).schemeIdx == some 4) = _
  exact schemeIndex_file u.scheme

theorem needsPathPrefix_of_pathText_nil {u : Url} (h : pathText u = []) : needsPathPrefix u = false := by
  unfold needsPathPrefix
  cases ho : u.hasOpaquePath with
  | true => simp
  | false =>
    have : u.path = [] := ptext_eq_nil (by rw [← pathText_ptext ho]; exact h)
    simp [this]

theorem SchInv.segs {s : Ser} {u : Url} (h : SchInv s u) :
    segsOf u = [u.scheme, [0x3A], [], [], [], [], [], [], [], [], []] := by
  simp [segsOf, sepSeg, userSeg, passSeg, atSeg, portSeg, prefixSeg, querySeg, fragSeg, credOn,
    Url.hostText, h.host, h.path, h.query, h.frag, needsPathPrefix_of_pathText_nil h.path]

/-- the first part written after the scheme is `pt ≥ HOST` with text `t` -/
theorem schInv_write {s : Ser} {u : Url} (h : SchInv s u) (pt : Nat) (t : List Nat) (h5 : 5 ≤ pt) (hpt : pt ≤ 10) :
    s.writePart pt t =
      ⟨mkRep (layout u) ([u.scheme, 0x3A :: sepFor pt] ++ List.replicate (pt - 2) [] ++ [delim pt ++ t]), pt⟩ ∧
    Rp ([u.scheme, 0x3A :: sepFor pt] ++ List.replicate (pt - 2) [] ++ [delim pt ++ t] ++ List.replicate (10 - pt) [])
      ([u.scheme, 0x3A :: sepFor pt] ++ List.replicate (pt - 2) [] ++ [delim pt ++ t]) := by
  rw [h.eq]
  refine ⟨writePart_scheme _ _ pt t (by omega) hpt, ?_, ?_, ?_, ?_, ?_⟩
  · simp; omega
  · simp; omega
  · simp; omega
  · congr 1
    simp only [List.length_append, List.length_cons, List.length_nil, List.length_replicate]
    congr 1; omega
  · simp [off]
    exact List.length_pos_iff.mpr h.sch

/-! ### opaque_path_state -/

theorem sim_opaquePath {s : Ser} {u : Url} (h : SchInv s u) (ho : u.hasOpaquePath = true)
    (hop : u.opaquePath = []) (p : List Nat) :
    Agree (opaquePathStateSer s p) (opaquePathState none u p) := by
  unfold opaquePathStateSer opaquePathState
  dsimp only
  generalize percentEncodeC0 (p.takeWhile (fun c => !isQorH c)) = t
  obtain ⟨h1, h2⟩ := schInv_write h PATH t (by simp [PATH]) (by simp [PATH])
  rw [h1]
  have hinv : SerInv ⟨mkRep (layout u) ([u.scheme, 0x3A :: sepFor PATH] ++ List.replicate (PATH - 2) [] ++
      [delim PATH ++ t]), PATH⟩ { u with opaquePath := u.opaquePath ++ t } := by
    refine ⟨⟨h.sch, fun _ => ⟨h.user, h.pass, h.port⟩⟩,
      [u.scheme, 0x3A :: sepFor PATH] ++ List.replicate (PATH - 2) [] ++ [delim PATH ++ t], ?_, ?_,
      by simp [PATH]⟩
    · have e : segsOf { u with opaquePath := u.opaquePath ++ t } =
          [u.scheme, 0x3A :: sepFor PATH] ++ List.replicate (PATH - 2) [] ++ [delim PATH ++ t] ++
            List.replicate (10 - PATH) [] := by
        simp [segsOf, sepSeg, userSeg, passSeg, atSeg, portSeg, prefixSeg, querySeg, fragSeg, credOn,
          Url.hostText, h.host, h.query, h.frag, needsPathPrefix, pathText, ho, hop, sepFor, delim, PATH, HOST,
          PORT, QUERY, FRAGMENT, List.replicate]
      rw [e]; exact h2
    · exact mkRep_congr rfl rfl rfl rfl rfl rfl rfl rfl rfl
  exact sim_afterPath hinv (by simp [PATH, QUERY]) _

/-! ### the path -/

/-- the invariant of the `while (true)` loop of `parse_path` (and of the states that copy the base's
    path before it): the path is a list, nothing after it is written, and either no segment was
    written yet, or the path is the last started part — the "/." prefix, if any, is the one of the
    base (`append_parts`), it is fixed by `commit_path` -/
def PathInv (s : Ser) (u : Url) : Prop :=
  u.hasOpaquePath = false ∧ RecWF u ∧ NoSlash u.path ∧ u.query = none ∧ u.fragment = none ∧
  ((u.path = [] ∧ (SchInv s u ∨ (SerInv s u ∧ s.lastPt < PATH))) ∨
   (s.lastPt = PATH ∧ ∃ pfx, (pfx = [] ∨ pfx = [0x2F, 0x2E]) ∧
      s.rep = mkRep (layout u) ((segsOf u).take 7 ++ [pfx] ++ [ptext u.path])))

theorem segs_take7 (u : Url) (p : List (List Nat)) :
    (segsOf { u with path := p }).take 7 = (segsOf u).take 7 := by
  simp [segsOf, sepSeg, userSeg, passSeg, atSeg, portSeg, credOn, Url.hostText, Url.hasCredentials]

theorem PathInv.file {s : Ser} {u : Url} (h : PathInv s u) : s.rep.isFileScheme = u.isFile := by
  obtain ⟨_, _, _, _, _, h | h⟩ := h
  · rcases h.2 with h | h
    · exact h.file
    · exact h.1.file
  · obtain ⟨_, pfx, _, hr⟩ := h
    rw [hr]
    show ((layout u).schemeIdx == some 4) = _
    exact schemeIndex_file u.scheme

theorem PathInv.special {s : Ser} {u : Url} (h : PathInv s u) : s.rep.isSpecialScheme = u.isSpecial := by
  obtain ⟨_, _, _, _, _, h | h⟩ := h
  · rcases h.2 with h | h
    · exact h.special
    · exact h.1.special
  · obtain ⟨_, pfx, _, hr⟩ := h
    rw [hr]
    show (layout u).schemeIdx.isSome = _
    exact schemeIndex_isSome u.scheme

theorem PathInv.segCount {s : Ser} {u : Url} (h : PathInv s u) : s.rep.segCount = u.path.length := by
  obtain ⟨ho, _, _, _, _, h | h⟩ := h
  · rcases h.2 with h | h
    · rw [h.rep]; simp [schemeRep, layout, ho]
    · obtain ⟨_, A, _, hr, _⟩ := h.1
      rw [hr]; simp [mkRep, layout, ho]
  · obtain ⟨_, pfx, _, hr⟩ := h
    rw [hr]; simp [mkRep, layout, ho]

theorem PathInv.isEmptyPath {s : Ser} {u : Url} (h : PathInv s u) : s.isEmptyPath = u.path.isEmpty := by
  unfold Ser.isEmptyPath
  rw [h.segCount]
  cases u.path <;> simp

theorem noSlash_append {p : List (List Nat)} {seg : List Nat} (hp : NoSlash p) (hs : ∀ c ∈ seg, c ≠ 0x2F) :
    NoSlash (p ++ [seg]) := by
  intro x hx
  rcases List.mem_append.1 hx with h | h
  · exact hp x h
  · rw [List.mem_singleton.1 h]; exact hs

theorem pathInv_push {s : Ser} {u : Url} (h : PathInv s u) (seg : List Nat) (hs : ∀ c ∈ seg, c ≠ 0x2F) :
    PathInv (s.pushSegment seg) { u with path := u.path ++ [seg] } := by
  obtain ⟨ho, wf, hns, hq, hf, hc⟩ := h
  refine ⟨ho, wf, noSlash_append hns hs, hq, hf, Or.inr ?_⟩
  have hcong : ∀ A, mkRep { layout u with segCount := (layout u).segCount + 1 } A =
      mkRep (layout { u with path := u.path ++ [seg] }) A := by
    intro A
    refine mkRep_congr rfl rfl rfl rfl rfl rfl ?_ rfl rfl
    simp [layout, ho]
  rcases hc with ⟨hp, hc⟩ | ⟨hl, pfx, hpfx, hr⟩
  · rcases hc with hc | ⟨hc, hl⟩
    · -- right after the scheme
      rw [hc.eq, push_scheme]
      refine ⟨rfl, [], Or.inl rfl, ?_⟩
      simp only
      rw [hcong, segs_take7 u (u.path ++ [seg]), hc.segs, hp]
      simp [ptext]
    · -- after the host / port
      obtain ⟨_, A, hA, hr, hlen⟩ := hc
      obtain ⟨rep, lastPt⟩ := s
      simp only at hr hlen hl
      subst hr
      have hlo := hA.lo
      rw [push_later _ A lastPt seg hlen (by omega) hl]
      refine ⟨rfl, [], Or.inl rfl, ?_⟩
      simp only
      rw [hcong, segs_take7 u (u.path ++ [seg]), hp]
      have htk : (segsOf u).take 8 = A ++ List.replicate (8 - A.length) [] := by
        conv => lhs; rw [hA.pad]
        rw [List.take_append, List.take_replicate, List.take_of_length_le (by simp only [PATH] at hl; omega)]
        congr 2
        simp only [PATH] at hl; omega
      have h8 : (segsOf u).take 8 = (segsOf u).take 7 ++ [[]] := by
        have hpt : pathText u = [] := by rw [pathText_ptext ho, hp]; rfl
        simp [segsOf, prefixSeg, needsPathPrefix_of_pathText_nil hpt]
      rw [← htk, h8]
      simp [ptext]
  · obtain ⟨rep, lastPt⟩ := s
    simp only at hr hl
    subst hr hl
    have hX : ((segsOf u).take 7 ++ [pfx]).length = 8 := by simp [segsOf]
    rw [push_started _ _ _ seg hX]
    refine ⟨rfl, pfx, hpfx, ?_⟩
    simp only
    rw [hcong, segs_take7 u (u.path ++ [seg]), ptext_append]

theorem shortenPath_eq (u : Url) : shortenPath u = { u with path := shortenList u.isFile u.path } := by
  obtain ⟨sc, un, pw, h, po, op, opp, pa, q, f⟩ := u
  match pa with
  | [] => rfl
  | [seg] =>
    rw [shortenList_single]
    unfold shortenPath
    simp only
    show (if ((Url.isFile ⟨sc, un, pw, h, po, op, opp, [seg], q, f⟩) && segDrive seg) = true then
        (⟨sc, un, pw, h, po, op, opp, [seg], q, f⟩ : Url) else ⟨sc, un, pw, h, po, op, opp, [], q, f⟩) = _
    by_cases hc : ((Url.isFile ⟨sc, un, pw, h, po, op, opp, [seg], q, f⟩) && segDrive seg) = true
    · rw [if_pos hc, if_pos hc]
    · rw [if_neg hc, if_neg hc]
  | a :: b :: r => rfl

theorem shortenList_subset (isFile : Bool) (p : List (List Nat)) : ∀ x ∈ shortenList isFile p, x ∈ p := by
  intro x hx
  match p, hx with
  | [], hx => exact hx
  | [seg], hx =>
    rw [shortenList_single] at hx
    split at hx
    · exact hx
    · simp at hx
  | a :: b :: r, hx => exact List.dropLast_subset _ hx

theorem noSlash_shorten {p : List (List Nat)} (isFile : Bool) (hp : NoSlash p) : NoSlash (shortenList isFile p) :=
  fun x hx => hp x (shortenList_subset isFile p x hx)

theorem shortenList_nil (isFile : Bool) : shortenList isFile [] = [] := rfl

theorem pathInv_shorten {s : Ser} {u : Url} (h : PathInv s u) : PathInv s.shortenPath (shortenPath u) := by
  rw [shortenPath_eq]
  have hsc := h.segCount
  have hfile := h.file
  obtain ⟨ho, wf, hns, hq, hf, hc⟩ := h
  rcases hc with ⟨hp, hc⟩ | ⟨hl, pfx, hpfx, hr⟩
  · -- no segment yet: nothing to shorten
    have e1 : s.shortenPath = s := by
      unfold Ser.shortenPath Rep.getShortenPath
      rw [hsc, hp]
      simp
    have e2 : ({ u with path := shortenList u.isFile u.path } : Url) = u := by
      rw [hp, shortenList_nil, ← hp]
    rw [e1, e2]
    exact ⟨ho, wf, hns, hq, hf, Or.inl ⟨hp, hc⟩⟩
  · refine ⟨ho, wf, noSlash_shorten _ hns, hq, hf, Or.inr ?_⟩
    obtain ⟨rep, lastPt⟩ := s
    simp only at hr hl hsc hfile
    subst hr hl
    have hX : ((segsOf u).take 7 ++ [pfx]).length = 8 := by simp [segsOf]
    rw [shorten_started (layout u) _ u.path u.isFile hX ho hsc hfile hns]
    refine ⟨rfl, pfx, hpfx, ?_⟩
    simp only
    rw [segs_take7 u (shortenList u.isFile u.path)]
    refine mkRep_congr rfl rfl rfl rfl rfl rfl ?_ rfl rfl
    simp [layout, ho]

theorem enc_noSlash (seg : List Nat) (hs : ∀ c ∈ seg, c ≠ 0x2F) :
    ∀ c ∈ percentEncode pathNoEnc seg, c ≠ 0x2F :=
  segChar_ne_slash (Proofs.C08.path_all seg hs)

/-- one iteration of the loop of `parse_path` -/
theorem pathInv_segment {s : Ser} {u : Url} (h : PathInv s u) (seg : List Nat) (l : Bool)
    (hs : ∀ c ∈ seg, c ≠ 0x2F) :
    PathInv (pathSegmentSer s seg l) (pathSegment u seg l) ∧
      (l = true → (pathSegment u seg l).path ≠ []) := by
  have hnil : ∀ c ∈ ([] : List Nat), c ≠ 0x2F := by simp
  have henc : PathInv (s.pushSegment (percentEncode pathNoEnc seg))
      { u with path := u.path ++ [percentEncode pathNoEnc seg] } ∧
      (l = true → ({ u with path := u.path ++ [percentEncode pathNoEnc seg] } : Url).path ≠ []) :=
    ⟨pathInv_push h _ (enc_noSlash seg hs), fun _ => by simp⟩
  unfold pathSegmentSer pathSegment
  by_cases hdd : doubleDot seg = true
  · -- ".."
    rw [if_pos hdd, if_pos hdd]
    have h2 := pathInv_shorten h
    cases l with
    | true => exact ⟨pathInv_push h2 [] hnil, fun _ => by simp⟩
    | false => exact ⟨h2, fun hc => by simp at hc⟩
  · rw [if_neg hdd, if_neg hdd]
    by_cases hsd : singleDot seg = true
    · -- "."
      rw [if_pos hsd, if_pos hsd]
      cases l with
      | true => exact ⟨pathInv_push h [] hnil, fun _ => by simp⟩
      | false => exact ⟨h, fun hc => by simp at hc⟩
    · rw [if_neg hsd, if_neg hsd]
      match seg, hs, henc with
      | [], _, henc => exact henc
      | [a], _, henc => exact henc
      | a :: b :: c :: r, _, henc => exact henc
      | [a, c], hs, henc =>
        simp only
        rw [h.file, h.isEmptyPath]
        split
        · next hc =>
          simp only [Bool.and_eq_true, isWindowsDrive] at hc
          refine ⟨pathInv_push h [a, 0x3A] ?_, fun _ => by simp⟩
          intro x hx
          simp only [List.mem_cons, List.not_mem_nil, or_false] at hx
          rcases hx with rfl | rfl
          · have := hc.2.1
            simp only [isAlpha, Bool.or_eq_true, Bool.and_eq_true, decide_eq_true_eq] at this
            omega
          · decide
        · exact henc

theorem pathInv_segments : ∀ (segs : List (List Nat)) {s : Ser} {u : Url}, PathInv s u → segs ≠ [] →
    (∀ seg ∈ segs, ∀ c ∈ seg, c ≠ 0x2F) →
    PathInv (pathSegmentsSer s segs) (pathSegments u segs) ∧ (pathSegments u segs).path ≠ [] := by
  intro segs
  induction segs with
  | nil => intro s u _ h; exact absurd rfl h
  | cons seg rest ih =>
    intro s u h _ hsegs
    cases rest with
    | nil =>
      have := pathInv_segment h seg true (hsegs seg List.mem_cons_self)
      exact ⟨by simpa [pathSegmentsSer, pathSegments] using this.1,
        by simpa [pathSegments] using this.2 rfl⟩
    | cons s2 rest =>
      have h1 := (pathInv_segment h seg false (hsegs seg List.mem_cons_self)).1
      have := ih h1 (by simp) (fun sg hsg => hsegs sg (List.mem_cons_of_mem _ hsg))
      simpa [pathSegmentsSer, pathSegments] using this

theorem pathInv_parsePath {s : Ser} {u : Url} (h : PathInv s u) (str : List Nat) :
    PathInv (parsePathSer s str) (parsePath u str) ∧ (parsePath u str).path ≠ [] := by
  unfold parsePathSer parsePath
  rw [h.special]
  simp only
  split
  · have hsp := Proofs.C08.splitOnP_spec isSlash str
    exact pathInv_segments _ h hsp.1 (fun seg hseg c hc => by
      have := hsp.2 seg hseg c hc
      simp only [isSlash, Bool.or_eq_false_iff, beq_eq_false_iff_ne, ne_eq] at this
      exact this.1)
  · have hsp := Proofs.C08.splitOnP_spec (· == 0x2F) str
    exact pathInv_segments _ h hsp.1 (fun seg hseg c hc => by
      have := hsp.2 seg hseg c hc
      simpa using this)

/-- `commit_path` after at least one segment was written -/
theorem pathInv_commit {s : Ser} {u : Url} (h : PathInv s u) (hne : u.path ≠ []) :
    SerInv s.commitPath u ∧ s.commitPath.lastPt = PATH := by
  obtain ⟨ho, wf, hns, hq, hf, hc⟩ := h
  rcases hc with ⟨hp, _⟩ | ⟨hl, pfx, hpfx, hr⟩
  · exact absurd hp hne
  · obtain ⟨rep, lastPt⟩ := s
    simp only at hr hl
    subst hr hl
    have hpos : 0 < u.scheme.length := List.length_pos_iff.mpr wf.1
    have hRp : Rp [u.scheme, 0x3A :: sepSeg u, userSeg u, passSeg u, atSeg u, u.hostText, portSeg u, pfx,
        ptext u.path, [], []]
        ((segsOf u).take 7 ++ [pfx] ++ [ptext u.path]) := by
      refine ⟨rfl, by simp [segsOf], by simp [segsOf], by simp [segsOf], by simpa [off] using hpos⟩
    obtain ⟨A', h1, h2, h3⟩ := adjust_S (layout u) hRp (by simp [segsOf]) hpfx
    refine ⟨⟨wf, A', ?_, h1, by rw [h3]; simp [segsOf, PATH, Ser.commitPath]⟩, rfl⟩
    have hhead : u.path.head?.bind List.head? ≠ some 0x2F := by
      cases hpp : u.path with
      | nil => simp
      | cons a b =>
        cases a with
        | nil => simp
        | cons c d =>
          have := hns (c :: d) (by rw [hpp]; simp) c (by simp)
          simpa using this
    have hw := wantPrefix_eq (layout u).hostNotNull u.path hhead
    have hsc : (layout u).segCount = u.path.length := by simp [layout, ho]
    have e : segsOf u = [u.scheme, 0x3A :: sepSeg u, userSeg u, passSeg u, atSeg u, u.hostText, portSeg u,
        (if wantPrefix (layout u).hostNotNull (layout u).segCount (ptext u.path) then [0x2F, 0x2E] else []),
        ptext u.path, [], []] := by
      rw [hsc]
      unfold ptext
      rw [hw]
      cases hh : u.host <;>
      simp [segsOf, prefixSeg, querySeg, fragSeg, pathText, needsPathPrefix, layout, ho, hq, hf, hh]
    rw [e]; exact h2

/-! ### path_state, path_start_state -/

theorem sim_pathState {s : Ser} {u : Url} (h : PathInv s u) (p : List Nat) :
    Agree (pathStateSer s p) (pathState none u p) := by
  unfold pathStateSer pathState
  simp only [Option.isSome_none, Bool.false_eq_true, if_false]
  obtain ⟨h1, h2⟩ := pathInv_parsePath h (p.takeWhile (fun c => !isQorH c))
  obtain ⟨h3, h4⟩ := pathInv_commit h1 h2
  exact sim_afterPath h3 (by rw [h4]; simp [PATH, QUERY]) _

/-- the host (and possibly the port) is written, nothing after it -/
def HostPre (s : Ser) (u : Url) : Prop :=
  SerInv s u ∧ s.lastPt ≤ PORT ∧ u.hasOpaquePath = false ∧ u.host.isSome = true

theorem HostPre.tail {s : Ser} {u : Url} (h : HostPre s u) :
    prefixSeg u = [] ∧ u.path = [] ∧ u.query = none ∧ u.fragment = none := by
  obtain ⟨⟨_, A, hA, _, hl⟩, h6, ho, _⟩ := h
  have := hA.drop_absent (n := 7) (by simp only [PORT] at h6; omega)
  simp [segsOf] at this
  obtain ⟨h1, h2, h3, h4⟩ := this
  refine ⟨h1, ptext_eq_nil (by rw [← pathText_ptext ho]; exact h2), ?_, ?_⟩
  · cases hq : u.query with
    | none => rfl
    | some q => simp [querySeg, hq] at h3
  · cases hq : u.fragment with
    | none => rfl
    | some q => simp [fragSeg, hq] at h4

theorem HostPre.pathInv {s : Ser} {u : Url} (h : HostPre s u) : PathInv s u := by
  obtain ⟨_, hp, hq, hf⟩ := h.tail
  refine ⟨h.2.2.1, h.1.1, ?_, hq, hf, Or.inl ⟨hp, Or.inr ⟨h.1, by have := h.2.1; simp only [PORT, PATH] at *; omega⟩⟩⟩
  rw [hp]; intro x hx; simp at hx

theorem sim_pathStart {s : Ser} {u : Url} (h : HostPre s u) (p : List Nat) :
    Agree (pathStartStateSer s p) (pathStartState none u p) := by
  have hq : s.lastPt < QUERY := by have := h.2.1; simp only [PORT, QUERY] at *; omega
  unfold pathStartStateSer pathStartState
  rw [h.1.special]
  split
  · cases p with
    | nil => exact sim_pathState h.pathInv _
    | cons c r =>
      simp only
      split
      · exact sim_pathState h.pathInv _
      · exact sim_pathState h.pathInv _
  · cases p with
    | nil =>
      simp only [Option.isSome_none, Bool.false_and, Bool.false_eq_true, if_false]
      obtain ⟨h7, _, _, _⟩ := h.tail
      obtain ⟨wf, A, hA, hr, hl⟩ := h.1
      refine ⟨rfl, s.lastPt, wf, A, hA, ?_, hl⟩
      unfold segsOf at hA
      show adjustPathPrefix s.rep = _
      rw [hr]
      exact adjust_none (layout u) hA h.2.2.2 h7
    | cons c r =>
      simp only [Option.isNone_none, if_true]
      split
      · exact sim_query h.1 hq _
      · split
        · exact sim_fragment h.1 (by simp only [QUERY, FRAGMENT] at *; omega) _
        · split
          · exact sim_pathState h.pathInv _
          · exact sim_pathState h.pathInv _

/-! ### port_state -/

theorem defaultPort_special {u : Url} {n : Nat} (h : defaultPort u.scheme = some n) : u.isSpecial = true := by
  cases hs : u.isSpecial with
  | true => rfl
  | false =>
    exfalso
    unfold Url.isSpecial isSpecialScheme at hs
    unfold defaultPort at h
    simp only [Bool.or_eq_false_iff] at hs
    simp [hs.1.1.1.1.1, hs.1.1.1.1.2, hs.1.1.1.2, hs.1.1.2, hs.2] at h

/-- `is_end_of_authority` of the port state (url.h:2008-2011) -/
def portIsEnd (special : Bool) (rest : List Nat) : Bool :=
  match rest with
  | [] => true
  | c :: _ => isAuthorityEnd c || (c == 0x5C && special)

theorem sim_port {s : Ser} {u : Url} (h : HostPre s u) (hl : s.lastPt = HOST) (hport : u.port = none)
    (p : List Nat) : Agree (portStateSer s p) (portState none u p) := by
  unfold portStateSer portState
  rw [h.1.special]
  dsimp only
  show Agree (if portIsEnd u.isSpecial (p.dropWhile isDigit) = true then _ else _)
    (if (portIsEnd u.isSpecial (p.dropWhile isDigit) || _) = true then _ else _)
  generalize portIsEnd u.isSpecial (p.dropWhile isDigit) = isEnd
  cases isEnd with
  | false => simp [Agree]
  | true =>
    simp only [Option.isSome_none, Bool.or_false, if_true, Bool.false_eq_true, if_false]
    by_cases hd : p.takeWhile isDigit = []
    · simp only [hd, ne_eq, not_true_eq_false, if_false]
      exact sim_pathStart h _
    · simp only [ne_eq, hd, not_false_eq_true, if_true]
      by_cases h5 : (stripLeadingZeros (p.takeWhile isDigit)).length > 5
      · simp only [h5, if_true]
        simp [Agree]
      · simp only [h5, if_false]
        by_cases hbig : decimalValue (stripLeadingZeros (p.takeWhile isDigit)) > 0xFFFF
        · simp only [hbig, if_true]
          simp [Agree]
        · simp only [hbig, if_false]
          rw [schemeIdx_isNone h.1.1 h.1.repFor, defaultPort_eq h.1.1 h.1.repFor]
          by_cases hdef : defaultPort u.scheme =
              some (decimalValue (stripLeadingZeros (p.takeWhile isDigit)))
          · have hsp : u.isSpecial = true := defaultPort_special hdef
            simp only [hdef, hsp, Bool.not_true, bne_self_eq_false, Bool.or_self, Bool.false_eq_true,
              if_false, if_true]
            have e : ({ u with port := none } : Url) = u := by rw [← hport]
            rw [e]
            exact sim_pathStart h _
          · have hne : (!u.isSpecial || defaultPort u.scheme !=
                some (decimalValue (stripLeadingZeros (p.takeWhile isDigit)))) = true := by
              simp [hdef]
            simp only [hne, hdef, if_true, if_false]
            generalize hdg : stripLeadingZeros (p.takeWhile isDigit) = d at *
            have hdec : toDecimal (decimalValue d) = d := by
              rw [← hdg]; exact port_digits _ hd (takeWhile_all isDigit p)
            obtain ⟨A', h1, h2, h3⟩ := serInv_write h.1 PORT d (by rw [hl]; simp [HOST, PORT]) (by simp [PORT])
            apply sim_pathStart
            obtain ⟨x, hx⟩ := Option.isSome_iff_exists.mp h.2.2.2
            obtain ⟨h7, hp, hq, hf⟩ := h.tail
            refine ⟨?_, by simp [h1, Ser.setFlag], h.2.2.1, h.2.2.2⟩
            simp only [h1, Ser.setFlag, setNotNull_mkRep]
            refine ⟨⟨h.1.1.1, fun hc => by simp [hx] at hc⟩, A', ?_, ?_, h2⟩
            · have e : segsOf { u with port := some (decimalValue d) } =
                  (segsOf u).take PORT ++ [delim PORT ++ d] ++ (segsOf u).drop (PORT + 1) := by
                simp [segsOf, delim, QUERY, PORT, FRAGMENT, sepSeg, userSeg, passSeg, atSeg, portSeg, prefixSeg,
                  querySeg, fragSeg, credOn, Url.hostText, pathText, needsPathPrefix, Url.hasCredentials, hx,
                  hdec]
              rw [e]; exact h3
            · exact mkRep_congr rfl rfl rfl rfl rfl rfl rfl rfl rfl

/-! ### authority_state, host_state -/

/-- after the credentials (if any) were written: nothing, the username, or username and password -/
def CredInv (s : Ser) (u : Url) : Prop :=
  u.scheme ≠ [] ∧ u.host = none ∧ u.port = none ∧ pathText u = [] ∧ u.query = none ∧ u.fragment = none ∧
  ((s = ⟨schemeRep (layout u) u.scheme, SCHEME⟩ ∧ u.username = [] ∧ u.password = []) ∨
   (s = ⟨mkRep (layout u) [u.scheme, [0x3A, 0x2F, 0x2F], u.username], USERNAME⟩ ∧
      u.username ≠ [] ∧ u.password = []) ∨
   (s = ⟨mkRep (layout u) [u.scheme, [0x3A, 0x2F, 0x2F], u.username, 0x3A :: u.password], PASSWORD⟩ ∧
      u.password ≠ []))

theorem SchInv.cred {s : Ser} {u : Url} (h : SchInv s u) : CredInv s u :=
  ⟨h.sch, h.host, h.port, h.path, h.query, h.frag, Or.inl ⟨h.eq, h.user, h.pass⟩⟩

theorem CredInv.special {s : Ser} {u : Url} (h : CredInv s u) : s.rep.isSpecialScheme = u.isSpecial := by
  obtain ⟨_, _, _, _, _, _, h | h | h⟩ := h <;>
  · rw [h.1]
    show (layout u).schemeIdx.isSome = _
    exact schemeIndex_isSome u.scheme

theorem parseHostSer_eq (idna : Idna) (s : Ser) (str : List Nat) :
    parseHostSer idna s str =
      (parseHost idna str (!s.rep.isSpecialScheme)).map (fun h => s.writeHost h.text (hostKindCode h.kind)) := by
  unfold parseHostSer
  cases str with
  | nil =>
    simp only [parseHost]
    split <;> rfl
  | cons c r =>
    simp only
    split <;> simp_all

/-- the host written after the credentials -/
theorem credInv_host {s : Ser} {u : Url} (h : CredInv s u) (ho : u.hasOpaquePath = false) (hd : Host) :
    HostPre (s.writeHost hd.text (hostKindCode hd.kind)) { u with host := some hd } ∧
      (s.writeHost hd.text (hostKindCode hd.kind)).lastPt = HOST := by
  obtain ⟨hsch, hh, hport, hpath, hq, hf, hc⟩ := h
  have hpos : 0 < u.scheme.length := List.length_pos_iff.mpr hsch
  have hnp : needsPathPrefix { u with host := some hd } = false := by simp [needsPathPrefix]
  have hwf : RecWF { u with host := some hd } := ⟨hsch, fun hc => by simp at hc⟩
  have hpp : u.path = [] := ptext_eq_nil (by rw [← pathText_ptext ho]; exact hpath)
  rcases hc with ⟨hs, hu, hp⟩ | ⟨hs, hu, hp⟩ | ⟨hs, hp⟩
  · have hw := writePart_scheme (layout u) u.scheme HOST hd.text (by simp [HOST]) (by simp [HOST])
    rw [← hs] at hw
    have hw2 := writeHost_of_writePart hw (by simp [HOST]) (hostKindCode hd.kind)
    rw [hw2]
    refine ⟨⟨⟨hwf, _, ?_, mkRep_congr rfl rfl rfl rfl rfl rfl rfl rfl rfl, by simp [HOST]⟩,
      by simp [HOST, PORT], ho, rfl⟩, rfl⟩
    refine ⟨rfl, by simp [HOST], by simp [HOST], ?_, by simpa [off, segsOf] using hpos⟩
    simp [segsOf, sepSeg, userSeg, passSeg, atSeg, portSeg, prefixSeg, querySeg, fragSeg, credOn,
      Url.hostText, Url.hasCredentials, hu, hp, hport, pathText, needsPathPrefix, ho, hpp, hq, hf, sepFor,
      delim, HOST, PORT, QUERY, FRAGMENT, List.replicate]
  · have hw := writePart_user_host (layout u) u.scheme [0x3A, 0x2F, 0x2F] u.username hd.text
    rw [← hs] at hw
    have hw2 := writeHost_of_writePart hw (by simp) (hostKindCode hd.kind)
    rw [hw2]
    refine ⟨⟨⟨hwf, _, ?_, mkRep_congr rfl rfl rfl rfl rfl rfl rfl rfl rfl, by simp [HOST]⟩,
      by simp [HOST, PORT], ho, rfl⟩, rfl⟩
    refine ⟨rfl, by simp, by simp, ?_, by simpa [off, segsOf] using hpos⟩
    simp [segsOf, sepSeg, userSeg, passSeg, atSeg, portSeg, prefixSeg, querySeg, fragSeg, credOn,
      Url.hostText, Url.hasCredentials, hu, hp, hport, pathText, needsPathPrefix, ho, hpp, hq, hf,
      List.replicate]
  · have hw := writePart_pass_host (layout u) u.scheme [0x3A, 0x2F, 0x2F] u.username (0x3A :: u.password) hd.text
    rw [← hs] at hw
    have hw2 := writeHost_of_writePart hw (by simp) (hostKindCode hd.kind)
    rw [hw2]
    refine ⟨⟨⟨hwf, _, ?_, mkRep_congr rfl rfl rfl rfl rfl rfl rfl rfl rfl, by simp [HOST]⟩,
      by simp [HOST, PORT], ho, rfl⟩, rfl⟩
    refine ⟨rfl, by simp, by simp, ?_, by simpa [off, segsOf] using hpos⟩
    simp [segsOf, sepSeg, userSeg, passSeg, atSeg, portSeg, prefixSeg, querySeg, fragSeg, credOn,
      Url.hostText, Url.hasCredentials, hp, hport, pathText, needsPathPrefix, ho, hpp, hq, hf,
      List.replicate]

theorem sim_hostState (idna : Idna) {s : Ser} {u : Url} (h : CredInv s u) (ho : u.hasOpaquePath = false)
    (p : List Nat) : Agree (hostStateSer idna s p) (hostState idna none u p) := by
  unfold hostStateSer hostState
  simp only [parseHostSer_eq, h.special, Option.isSome_none, Bool.false_and, Bool.false_eq_true, if_false,
    Bool.and_false]
  generalize (if u.isSpecial = true then isSpecialAuthorityEnd else isAuthorityEnd) = isEndC
  cases hscan : hostScan (p.takeWhile (fun c => !isEndC c)) false with
  | mk hostPart portPart =>
    simp only
    split
    · simp [Agree]
    · have hf : ¬ (portPart.isSome && (none : Option Override) == some Override.hostname) = true := by simp
      simp only [reduceCtorEq, decide_false, Bool.and_false, Bool.false_eq_true, if_false]
      cases hph : parseHost idna hostPart (!u.isSpecial) with
      | none => simp [Agree]
      | some hd =>
        simp only [Option.map_some]
        obtain ⟨h1, h2⟩ := credInv_host h ho hd
        cases portPart with
        | some pp => exact sim_port h1 h2 h.2.2.1 _
        | none => exact sim_pathStart h1 _

theorem sim_authority (idna : Idna) {s : Ser} {u : Url} (h : SchInv s u) (ho : u.hasOpaquePath = false)
    (p : List Nat) : Agree (authorityStateSer idna s p) (authorityState idna none u p) := by
  unfold authorityStateSer authorityState
  rw [h.special]
  dsimp only
  generalize (if u.isSpecial = true then isSpecialAuthorityEnd else isAuthorityEnd) = isEndC
  cases hsp : splitLastAt (p.takeWhile (fun c => !isEndC c)) with
  | none => exact sim_hostState idna h.cred ho p
  | some ch =>
    obtain ⟨cred, hostport⟩ := ch
    simp only
    split
    · simp [Agree]
    · generalize hU : cred.takeWhile (· != 0x3A) = user
      generalize hP : (cred.dropWhile (· != 0x3A)).drop 1 = pw
      apply sim_hostState idna _ (by split <;> exact ho)
      have hpt : ∀ a b, pathText { u with username := a, password := b } = [] := fun _ _ => h.path
      by_cases hpw : pw = []
      · by_cases hus : user = []
        · simp only [hpw, hus, ne_eq, not_true_eq_false, decide_false, Bool.or_self, Bool.false_eq_true, if_false]
          exact h.cred
        · simp only [hpw, hus, ne_eq, not_true_eq_false, not_false_eq_true, decide_false, decide_true,
            Bool.false_or, if_true, if_false]
          rw [h.eq, writePart_scheme _ _ USERNAME _ (by simp [USERNAME]) (by simp [USERNAME])]
          refine ⟨h.sch, h.host, h.port, hpt _ _, h.query, h.frag, Or.inr (Or.inl ⟨?_, ?_, h.pass⟩)⟩
          · simp only [sepFor, delim, USERNAME, HOST, PORT, QUERY, FRAGMENT]
            simp
            exact mkRep_congr rfl rfl rfl rfl rfl rfl rfl rfl rfl
          · exact percentEncode_ne_nil _ _ hus
      · simp only [hpw, ne_eq, not_false_eq_true, decide_true, Bool.true_or, if_true]
        rw [h.eq, writePart_scheme _ _ USERNAME _ (by simp [USERNAME]) (by simp [USERNAME])]
        refine ⟨h.sch, h.host, h.port, hpt _ _, h.query, h.frag, Or.inr (Or.inr ⟨?_, ?_⟩)⟩
        · simp only [sepFor, delim, USERNAME, HOST, PORT, QUERY, FRAGMENT]
          simp
          rw [writePart_user_pass]
          exact congrArg (fun r => (⟨r, PASSWORD⟩ : Ser)) (mkRep_congr rfl rfl rfl rfl rfl rfl rfl rfl rfl)
        · exact percentEncode_ne_nil _ _ hpw

theorem sim_ignoreSlashes (idna : Idna) {s : Ser} {u : Url} (h : SchInv s u) (ho : u.hasOpaquePath = false)
    (p : List Nat) : Agree (ignoreSlashesStateSer idna s p) (ignoreSlashesState idna none u p) :=
  sim_authority idna h ho _

theorem sim_specialAuthoritySlashes (idna : Idna) {s : Ser} {u : Url} (h : SchInv s u)
    (ho : u.hasOpaquePath = false) (p : List Nat) :
    Agree (specialAuthoritySlashesStateSer idna s p) (specialAuthoritySlashesState idna none u p) := by
  unfold specialAuthoritySlashesStateSer specialAuthoritySlashesState
  split
  · exact sim_ignoreSlashes idna h ho _
  · split
    · exfalso; simp_all
    · exact sim_ignoreSlashes idna h ho _

/-! ### file_host_state, file_slash_state, file_state -/

/-- a file URL whose host `hd` was just written: "scheme://" ++ host, nothing else -/
def FileInv (s : Ser) (u : Url) (hd : Host) : Prop :=
  u.scheme ≠ [] ∧ u.host = some hd ∧ u.username = [] ∧ u.password = [] ∧ u.port = none ∧
  u.hasOpaquePath = false ∧ u.path = [] ∧ u.query = none ∧ u.fragment = none ∧
  s = ⟨mkRep (layout u) [u.scheme, [0x3A, 0x2F, 0x2F], [], [], [], hd.text], HOST⟩

theorem FileInv.hostPre {s : Ser} {u : Url} {hd : Host} (h : FileInv s u hd) :
    HostPre s u ∧ s.lastPt = HOST := by
  obtain ⟨hsch, hh, hu, hp, hport, ho, hpa, hq, hf, hs⟩ := h
  have hpos : 0 < u.scheme.length := List.length_pos_iff.mpr hsch
  subst hs
  refine ⟨⟨⟨⟨hsch, fun hc => by simp [hh] at hc⟩, _, ?_, rfl, by simp [HOST]⟩, by simp [HOST, PORT], ho,
    by simp [hh]⟩, rfl⟩
  refine ⟨rfl, by simp, by simp, ?_, by simpa [off, segsOf] using hpos⟩
  simp [segsOf, sepSeg, userSeg, passSeg, atSeg, portSeg, prefixSeg, querySeg, fragSeg, credOn,
    Url.hostText, Url.hasCredentials, hh, hu, hp, hport, pathText, needsPathPrefix, ho, hpa, hq, hf,
    List.replicate]

theorem FileInv.special {s : Ser} {u : Url} {hd : Host} (h : FileInv s u hd) :
    s.rep.isSpecialScheme = u.isSpecial := h.hostPre.1.1.special

theorem fileInv_host {s : Ser} {u : Url} {h0 : Host} (h : FileInv s u h0) (h0e : h0.text = []) (hd : Host) :
    FileInv (s.writeHost hd.text (hostKindCode hd.kind)) { u with host := some hd } hd := by
  obtain ⟨hsch, hh, hu, hp, hport, ho, hpa, hq, hf, hs⟩ := h
  refine ⟨hsch, rfl, hu, hp, hport, ho, hpa, hq, hf, ?_⟩
  have hw := writePart_same (layout u) [u.scheme, [0x3A, 0x2F, 0x2F], [], [], []] [] hd.text HOST
    (by simp [HOST]) (Or.inl rfl)
  rw [h0e] at hs
  simp only [List.cons_append, List.nil_append] at hw
  subst hs
  rw [writeHost_of_writePart hw (by simp)]
  exact congrArg (fun r => (⟨r, HOST⟩ : Ser)) (mkRep_congr rfl rfl rfl rfl rfl rfl rfl rfl rfl)

theorem fileInv_setEmptyHost {s : Ser} {u : Url} {h0 : Host} (h : FileInv s u h0) (h0e : h0.text = []) :
    FileInv s.setEmptyHost { u with host := some emptyHost } emptyHost := by
  obtain ⟨hsch, hh, hu, hp, hport, ho, hpa, hq, hf, hs⟩ := h
  refine ⟨hsch, rfl, hu, hp, hport, ho, hpa, hq, hf, ?_⟩
  have hw := writePart_same (layout u) [u.scheme, [0x3A, 0x2F, 0x2F], [], [], []] [] [] HOST
    (by simp [HOST]) (Or.inl rfl)
  rw [h0e] at hs
  simp only [List.cons_append, List.nil_append] at hw
  subst hs
  rw [setEmptyHost_of_writePart hw]
  exact congrArg (fun r => (⟨r, HOST⟩ : Ser)) (mkRep_congr rfl rfl rfl rfl rfl rfl rfl rfl rfl)

theorem fileInv_emptyHost {s : Ser} {u : Url} {hd : Host} (h : FileInv s u hd) :
    FileInv s.emptyHost { u with host := some emptyHost } emptyHost := by
  obtain ⟨hsch, hh, hu, hp, hport, ho, hpa, hq, hf, hs⟩ := h
  refine ⟨hsch, rfl, hu, hp, hport, ho, hpa, hq, hf, ?_⟩
  subst hs
  have := emptyHost_mk (layout u) [u.scheme, [0x3A, 0x2F, 0x2F], [], [], []] hd.text (by simp)
  simp only [List.cons_append, List.nil_append] at this
  rw [this]
  exact congrArg (fun r => (⟨r, HOST⟩ : Ser)) (mkRep_congr rfl rfl rfl rfl rfl rfl rfl rfl rfl)

theorem FileInv.partView_host {s : Ser} {u : Url} {hd : Host} (h : FileInv s u hd) :
    s.rep.partView HOST = hd.text := by
  obtain ⟨_, _, _, _, _, _, _, _, _, hs⟩ := h
  subst hs
  have := partView_host_mk (layout u) [u.scheme, [0x3A, 0x2F, 0x2F], [], [], []] hd.text (by simp)
  simpa using this

/-- "buffer is a Windows drive letter" of the file host state (url.h:2151-2152) -/
def bufDrive (buf : List Nat) : Bool :=
  match buf with
  | [a, b] => isWindowsDrive a b
  | _ => false

theorem sim_fileHost (idna : Idna) {s : Ser} {u : Url} {h0 : Host} (h : FileInv s u h0) (h0e : h0.text = [])
    (p : List Nat) : Agree (fileHostStateSer idna s p) (fileHostState idna none u p) := by
  unfold fileHostStateSer fileHostState
  simp only [parseHostSer_eq, h.special, Option.isSome_none, Bool.false_eq_true, if_false, Option.isNone_none,
    Bool.true_and]
  by_cases hb : p.takeWhile (fun c => !isSpecialAuthorityEnd c) = []
  · rw [if_pos hb, if_pos hb]
    exact sim_pathStart (fileInv_setEmptyHost h h0e).hostPre.1 _
  · rw [if_neg hb, if_neg hb]
    show Agree (if bufDrive (p.takeWhile (fun c => !isSpecialAuthorityEnd c)) = true then _ else _)
      (if bufDrive (p.takeWhile (fun c => !isSpecialAuthorityEnd c)) = true then _ else _)
    by_cases hdr : bufDrive (p.takeWhile (fun c => !isSpecialAuthorityEnd c)) = true
    · rw [if_pos hdr, if_pos hdr]
      exact sim_pathState h.hostPre.1.pathInv _
    · rw [if_neg hdr, if_neg hdr]
      cases hph : parseHost idna (p.takeWhile (fun c => !isSpecialAuthorityEnd c)) (!u.isSpecial) with
      | none => simp [Agree]
      | some hd =>
        simp only [Option.map_some]
        have h1 := fileInv_host h h0e hd
        rw [h1.partView_host]
        by_cases hl : (hd.text == sLocalhost) = true
        · rw [if_pos hl, if_pos hl]
          exact sim_pathStart (fileInv_emptyHost h1).hostPre.1 _
        · rw [if_neg hl, if_neg hl]
          exact sim_pathStart h1.hostPre.1 _

end Upa.Proofs.ParseRep
