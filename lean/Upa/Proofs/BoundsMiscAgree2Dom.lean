import Upa.Proofs.BoundsMiscAgree2Path
import Upa.Proofs.BoundsMiscAgree2Host
/-
  Helper lemmas for C04g: `endsInNumber` (url_ip.h:25-48, bounds-instrumented) = `Impl.endsInNumber`;
  the fast path of `parseHostM` for a host that consists of ASCII domain characters only.
-/
namespace Upa.Impl.B
open Upa.Proofs.C10b

theorem allOf_agrees (a : Array Nat) (first last : Nat) (pred : Nat → Bool) (hl : last ≤ a.size) :
    ∀ n p, first ≤ p → p + n ≤ last → allOf a first last pred n p = .ok ((slice a p (p + n)).all pred) := by
  intro n
  induction n with
  | zero => intro p _ _; rw [slice_nil a p (p + 0) (by omega)]; rfl
  | succ n ih =>
    intro p h1 h2
    simp only [allOf, rd_ok h1 (by omega : p < last) hl, R.ok_bind]
    rw [slice_cons a p (p + (n + 1)) (by omega) (by omega), List.all_cons]
    split
    · rename_i hc
      rw [ih (p + 1) (by omega) (by omega), hc]
      have e : p + 1 + n = p + (n + 1) := by omega
      rw [e]; rfl
    · rename_i hc
      have : pred a[p]! = false := by simpa using hc
      rw [this]; rfl

theorem revTakeWhile (q : Nat → Bool) (pre suf : List Nat) (hs : ∀ x ∈ suf, q x = true)
    (hp : pre = [] ∨ ∃ pre' x, pre = pre' ++ [x] ∧ q x = false) :
    ((pre ++ suf).reverse.takeWhile q).reverse = suf := by
  rw [List.reverse_append, List.takeWhile_append_of_pos (by simpa using hs)]
  rcases hp with rfl | ⟨pre', x, rfl, hx⟩
  · simp
  · simp [hx]

theorem endsInNumber_agrees (a : Array Nat) (first last : Nat) (h : first ≤ last) (hl : last ≤ a.size) :
    endsInNumber a first last = .ok (Impl.endsInNumber (slice a first last)) := by
  apply R.sat_eq
  unfold endsInNumber
  split
  · rename_i hne
    have hlt : first < last := by omega
    simp only [rdPrev_ok hlt (Nat.le_refl _) hl, R.ok_bind]
    have hsn := slice_snoc a first last hlt hl
    have hnn : slice a first last ≠ [] := by rw [hsn]; simp
    refine R.sat_bind (P := fun last' => first ≤ last' ∧ last' ≤ last ∧
        (if (slice a first last).getLast? = some 0x2E then (slice a first last).dropLast else slice a first last) =
          slice a first last') ?_ ?_
    · split
      · rename_i hc
        psimp
        refine R.sat_pure ⟨by omega, by omega, ?_⟩
        rw [hsn, hc]; simp
      · rename_i hc
        refine R.sat_pure ⟨by omega, by omega, ?_⟩
        rw [if_neg]
        rw [hsn]; simp [hc]
    intro last' ⟨l1, l2, l3⟩
    refine R.sat_bind (iter_sat _
      (fun sol => first ≤ sol ∧ sol ≤ last' ∧ ∀ i, sol ≤ i → i < last' → a[i]! ≠ 0x2E) (fun sol => sol - first)
      (fun sol => first ≤ sol ∧ sol ≤ last' ∧ (∀ i, sol ≤ i → i < last' → a[i]! ≠ 0x2E) ∧
        (sol = first ∨ a[sol - 1]! = 0x2E)) ?_ _ _ ?_ ?_) ?_
    · intro sol ⟨s1, s2, s3⟩
      split
      · rename_i hsf
        simp only [rdPrev_ok (by omega : first < sol) (by omega : sol ≤ last) hl, R.ok_bind]
        split
        · rename_i hc
          psimp
          refine R.sat_pure ⟨⟨by omega, by omega, ?_⟩, by omega⟩
          intro i hi1 hi2
          by_cases hi : i = sol - 1
          · subst hi; exact hc
          · exact s3 i (by omega) hi2
        · rename_i hc
          exact R.sat_pure ⟨s1, s2, s3, Or.inr (Decidable.not_not.mp hc)⟩
      · rename_i hsf
        exact R.sat_pure ⟨s1, s2, s3, Or.inl (Decidable.not_not.mp hsf)⟩
    · exact ⟨l1, Nat.le_refl _, by intro i h1 h2; omega⟩
    · omega
    intro sol ⟨s1, s2, s3, s4⟩
    have hlabel : ((slice a first last').reverse.takeWhile (· != 0x2E)).reverse = slice a sol last' := by
      rw [← slice_append a first sol last' s1 s2 (by omega)]
      apply revTakeWhile
      · intro x hx
        obtain ⟨i, hi1, hi2, rfl⟩ := mem_slice a sol last' x (by omega) hx
        simpa using s3 i hi1 hi2
      · by_cases hsf : sol = first
        · left; exact slice_nil a _ _ (by omega)
        · right
          refine ⟨slice a first (sol - 1), a[sol - 1]!, slice_snoc a first sol (by omega) (by omega), ?_⟩
          rcases s4 with s4 | s4
          · exact absurd s4 hsf
          · simp [s4]
    have hL : Impl.endsInNumber (slice a first last) =
        (if (slice a sol last').length = 0 then false
         else match slice a sol last' with
           | 0x30 :: x :: rest => if x = 0x58 ∨ x = 0x78 then rest.all isHex else (slice a sol last').all isDigit
           | _ => (slice a sol last').all isDigit) := by
      unfold Impl.endsInNumber
      rw [if_neg hnn]
      simp only [l3, hlabel]
      rfl
    rw [hL, slice_length a sol last' (by omega)]
    by_cases hlen : last' - sol = 0
    · rw [if_neg (by omega), if_pos hlen]
      exact R.sat_pure rfl
    rw [if_pos hlen, if_neg hlen]
    have hsl : sol < last' := by omega
    by_cases h2 : last' - sol ≥ 2
    · rw [if_pos h2]
      simp only [rd_ok s1 (by omega : sol < last) hl, R.ok_bind]
      rw [slice_cons a sol last' hsl (by omega), slice_cons a (sol + 1) last' (by omega) (by omega)]
      by_cases hc0 : a[sol]! = 0x30
      · rw [if_pos hc0]
        simp only [rd_ok (by omega : first ≤ sol + 1) (by omega : sol + 1 < last) hl, R.ok_bind, hc0]
        by_cases hx : a[sol + 1]! = 0x58 ∨ a[sol + 1]! = 0x78
        · have hb : (a[sol + 1]! == 0x58 || a[sol + 1]! == 0x78) = true := by simpa using hx
          simp only [hb, if_pos hx]
          psimp
          simp only [sub_ok (by omega : first ≤ sol + 2) (by omega : sol + 2 ≤ last') l2, R.ok_bind]
          rw [allOf_agrees a first last _ hl _ _ (by omega) (by omega)]
          have e : sol + 2 + (last' - (sol + 2)) = last' := by omega
          rw [e]
          exact R.sat_pure rfl
        · have hb : (a[sol + 1]! == 0x58 || a[sol + 1]! == 0x78) = false := by
            cases hh : (a[sol + 1]! == 0x58 || a[sol + 1]! == 0x78)
            · rfl
            · exact absurd (by simpa using hh) hx
          simp only [hb, if_neg hx]
          simp only [sub_ok s1 s2 l2, R.ok_bind]
          rw [allOf_agrees a first last _ hl _ _ s1 (by omega)]
          have e : sol + (last' - sol) = last' := by omega
          rw [e, slice_cons a sol last' hsl (by omega), slice_cons a (sol + 1) last' (by omega) (by omega), hc0]
          exact R.sat_pure rfl
      · rw [if_neg hc0]
        simp only [sub_ok s1 s2 l2, R.ok_bind]
        rw [allOf_agrees a first last _ hl _ _ s1 (by omega)]
        have e : sol + (last' - sol) = last' := by omega
        rw [e, slice_cons a sol last' hsl (by omega), slice_cons a (sol + 1) last' (by omega) (by omega)]
        refine R.sat_pure ?_
        split
        · rename_i heq
          exact absurd (List.cons.inj heq).1 hc0
        · rfl
    · rw [if_neg h2]
      simp only [sub_ok s1 s2 l2, R.ok_bind]
      rw [allOf_agrees a first last _ hl _ _ s1 (by omega)]
      have e : sol + (last' - sol) = last' := by omega
      rw [e, slice_cons a sol last' hsl (by omega), slice_nil a (sol + 1) last' (by omega)]
      refine R.sat_pure ?_
      split
      · rename_i heq
        simp at heq
      · rfl
  · rename_i hne
    rw [slice_nil a first last (by omega)]
    exact R.sat_pure rfl

theorem asciiDomainChar_ascii : AsciiPred Spec.asciiDomainChar := by
  intro c h
  simp only [Spec.asciiDomainChar, Bool.and_eq_true, decide_eq_true_eq] at h
  omega

/-- `host_parser::parse_host(first, last, is_opaque = false, …)` on a host made of ASCII domain characters
    only, without an `xn--` label and not ending in a number: the lower-cased domain, as `Impl.parseHost` -/
theorem parseHostM_domain_agrees (idna : Idna) (e : Enc) (a : Array Nat) (first last : Nat) (h : first < last)
    (hl : last ≤ a.size) (hdom : ∀ i, first ≤ i → i < last → Spec.asciiDomainChar a[i]! = true)
    (hxn : Impl.hasXnLabel (slice a first last) = false) (hnum : Impl.endsInNumber (slice a first last) = false) :
    parseHostM idna e a first last false =
      .ok (Impl.parseHost idna (Impl.decode e (slice a first last)) false) := by
  have hall : ∀ x ∈ slice a first last, Spec.asciiDomainChar x = true := by
    intro x hx
    obtain ⟨i, hi1, hi2, rfl⟩ := mem_slice a first last x hl hx
    exact hdom i hi1 hi2
  rw [decode_of_ascii e _ (fun c hc => asciiDomainChar_ascii c (hall c hc))]
  have hc0 : a[first]! ≠ 0x5B := by
    intro hh
    have := hdom first (Nat.le_refl _) h
    rw [hh] at this
    revert this; decide
  have hdw : (slice a first last).dropWhile Spec.asciiDomainChar = [] := by
    generalize slice a first last = l at hall
    induction l with
    | nil => rfl
    | cons x xs ih =>
      rw [List.dropWhile_cons_of_pos (hall x List.mem_cons_self)]
      exact ih (fun y hy => hall y (List.mem_cons_of_mem _ hy))
  have hR : Impl.parseHost idna (slice a first last) false =
      some { kind := .domain, text := (slice a first last).map toLower } := by
    rw [slice_cons a first last h hl, parseHost_eq_fast idna _ _ hc0, ← slice_cons a first last h hl]
    simp only [hostFastL, hdw, hxn, hnum]
    rfl
  rw [hR]
  apply R.sat_eq
  unfold parseHostM
  rw [if_neg (by omega)]
  simp only [rd_ok (Nat.le_refl _) h hl, R.ok_bind, if_neg hc0, Bool.false_eq_true, if_false]
  refine R.sat_bind (P := fun pf => pf.2 = some (some { kind := .domain, text := (slice a first last).map toLower })) ?_
    (fun pf hpf => by obtain ⟨ptr, fast⟩ := pf; simp only at hpf; subst hpf; exact R.sat_pure rfl)
  unfold hostFastPathM
  have hpred : ∀ c, (do let b ← charInSetM Spec.asciiDomainChar c; pure (!b) : R Bool) =
      .ok (!Spec.asciiDomainChar c) := by
    intro c
    rw [charInSetM_ascii _ asciiDomainChar_ascii c]; rfl
  refine R.sat_bind (findIfM_spec a first last _ (fun c => !Spec.asciiDomainChar c) hpred hl (last - first) first
    (Nat.le_refl _) (by omega)) ?_
  intro ptr ⟨p1, p2, p3, p4⟩
  have hpl : ptr = last := by
    apply Classical.byContradiction
    intro hne
    have := p4 (by omega)
    rw [hdom ptr p1 (by omega)] at this
    cases this
  subst hpl
  simp only [if_true, hasXnLabel_agrees a first ptr (by omega) hl, R.ok_bind, hxn, Bool.not_false,
    endsInNumber_agrees a first ptr (by omega) hl, hnum, Bool.false_eq_true, if_false,
    sub_ok (Nat.le_refl first) (by omega : first ≤ ptr) (Nat.le_refl ptr)]
  exact R.sat_pure rfl

end Upa.Impl.B
