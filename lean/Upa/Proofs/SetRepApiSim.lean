import Upa.Proofs.SetRepApi
import Upa.Proofs.SettersInv
/-
  Helpers for C05d, part 2: every state block of `Impl/SetRepApi.lean`, run on a representation of a
  record `u`, yields a representation of the record the block of `Impl/Url.lean` leaves, with the
  same success flag (`Sim`).  The edits are the operations of C05b; the decisions agree by part 1.
-/
namespace Upa.Proofs.SetRepApi
open Upa Upa.Impl Upa.Proofs.C05 Upa.Proofs.SetRep Upa.Props

/-- the pair computed on the representation simulates the record-level result: it represents the
    record left behind, that record is again `RepOk`, and the success flags agree -/
def Sim (x : Rep × Bool) (y : Res) : Prop :=
  RepFor x.1 y.url ∧ RepOk y.url ∧ x.2 = (y.out == .ok)

theorem Sim.refl_fail {r : Rep} {u : Url} (ok : RepOk u) (h : RepFor r u) (o : Outcome) (ho : o ≠ .ok) :
    Sim (r, false) ⟨o, u⟩ := by
  refine ⟨h, ok, ?_⟩
  cases o <;> simp at ho ⊢

/-! ### `RepOk` of the edited records -/

theorem repOk_host {u : Url} (ok : RepOk u) (ho : u.hasOpaquePath = false) (hd : Host) :
    RepOk { u with host := some hd } :=
  ⟨⟨ok.1.1, fun hn => by simp at hn⟩, fun hn => by simp at hn, fun hp => by
    rw [show ({ u with host := some hd } : Url).hasOpaquePath = u.hasOpaquePath from rfl, ho] at hp
    simp at hp⟩

theorem repOk_port_some {u : Url} (ok : RepOk u) (hh : u.host.isSome) (p : Nat) :
    RepOk { u with port := some p } :=
  ⟨⟨ok.1.1, fun hn => by
      rw [show ({ u with port := some p } : Url).host = u.host from rfl] at hn
      rw [hn] at hh; simp at hh⟩, ok.2.1, ok.2.2⟩

theorem repOk_port_none {u : Url} (ok : RepOk u) : RepOk { u with port := none } :=
  ⟨⟨ok.1.1, fun hn => ⟨(ok.1.2 hn).1, (ok.1.2 hn).2.1, rfl⟩⟩, ok.2.1, ok.2.2⟩

theorem repOk_username {u : Url} (ok : RepOk u) (hh : u.host.isSome) (t : List Nat) :
    RepOk { u with username := t } :=
  ⟨⟨ok.1.1, fun hn => by
      rw [show ({ u with username := t } : Url).host = u.host from rfl] at hn
      rw [hn] at hh; simp at hh⟩, ok.2.1, ok.2.2⟩

theorem repOk_password {u : Url} (ok : RepOk u) (hh : u.host.isSome) (t : List Nat) :
    RepOk { u with password := t } :=
  ⟨⟨ok.1.1, fun hn => by
      rw [show ({ u with password := t } : Url).host = u.host from rfl] at hn
      rw [hn] at hh; simp at hh⟩, ok.2.1, ok.2.2⟩

theorem repOk_scheme {u : Url} (ok : RepOk u) (s : List Nat) (hs : s ≠ []) :
    RepOk { u with scheme := s } := ⟨⟨hs, ok.1.2⟩, ok.2.1, ok.2.2⟩

theorem repOk_path {u : Url} (ok : RepOk u) (p : List (List Nat)) (hp : u.host = none → p ≠ []) :
    RepOk { u with path := p } := ⟨ok.1, fun hn _ => hp hn, ok.2.2⟩

theorem repOk_strip {u : Url} (ok : RepOk u) : RepOk (stripTrailingSpaces u) := by
  unfold stripTrailingSpaces
  split
  · exact ⟨ok.1, fun hn ho => by
      have := ok.2.1 hn ho
      exact this, ok.2.2⟩
  · exact ok

theorem host_isSome_of_text {u : Url} (h : u.hostText ≠ []) : u.host.isSome = true := by
  unfold Url.hostText at h
  cases hh : u.host with
  | none => rw [hh] at h; exact absurd rfl h
  | some x => rfl

/-! ### fragment, query -/

theorem sim_fragment {r : Rep} {u : Url} (ok : RepOk u) (h : RepFor r u) (p : List Nat) :
    Sim (fragmentStateRep r p) (fragmentState u p) :=
  ⟨C05b_write_fragment u _ r ok h, ok, rfl⟩

theorem sim_query {r : Rep} {u : Url} (ok : RepOk u) (h : RepFor r u) (ov : Override) (p : List Nat) :
    Sim (queryStateRep r p) (queryState (some ov) u p) := by
  unfold queryStateRep queryState
  simp only [Option.isSome_some, if_true]
  rw [isSpecialScheme_eq ok.1 h]
  exact ⟨C05b_write_query u _ r ok h, ok, rfl⟩

/-! ### port -/

theorem takeWhile_all (f : Nat → Bool) (l : List Nat) : ∀ c ∈ l.takeWhile f, f c = true := by
  intro c hc
  induction l with
  | nil => simp at hc
  | cons a t ih =>
    rw [List.takeWhile_cons] at hc
    split at hc
    · rename_i ha
      rcases List.mem_cons.1 hc with rfl | hc
      · exact ha
      · exact ih hc
    · simp at hc

theorem sim_port {r : Rep} {u : Url} (ok : RepOk u) (hh : u.host.isSome) (h : RepFor r u)
    (ov : Override) (p : List Nat) :
    Sim (portStateRep r p) (portState (some ov) u p) := by
  unfold portStateRep portState
  simp only [Option.isSome_some, Bool.or_true, if_true]
  by_cases hd : p.takeWhile isDigit = []
  · simp only [hd, ne_eq, not_true_eq_false, if_false]
    exact ⟨h, ok, rfl⟩
  · simp only [ne_eq, hd, not_false_eq_true, if_true]
    by_cases h5 : (stripLeadingZeros (p.takeWhile isDigit)).length > 5
    · simp only [h5, if_true]
      exact Sim.refl_fail ok h _ (by simp)
    · simp only [h5, if_false]
      by_cases hbig : decimalValue (stripLeadingZeros (p.takeWhile isDigit)) > 0xFFFF
      · simp only [hbig, if_true]
        exact Sim.refl_fail ok h _ (by simp)
      · simp only [hbig, if_false]
        rw [schemeIdx_isNone ok.1 h, defaultPort_eq ok.1 h]
        by_cases hdef : defaultPort u.scheme =
            some (decimalValue (stripLeadingZeros (p.takeWhile isDigit)))
        · have hsp : u.isSpecial = true := by
            cases hs : u.isSpecial with
            | true => rfl
            | false =>
              exfalso
              unfold Url.isSpecial isSpecialScheme at hs
              unfold defaultPort at hdef
              simp only [Bool.or_eq_false_iff] at hs
              simp [hs.1.1.1.1.1, hs.1.1.1.1.2, hs.1.1.1.2, hs.1.1.2, hs.2] at hdef
          simp only [hdef, hsp, Bool.not_true, bne_self_eq_false, Bool.or_self, Bool.false_eq_true,
            if_false, if_true]
          exact ⟨C05b_clear_port u r ok h, repOk_port_none ok, rfl⟩
        · have hne : (!u.isSpecial || defaultPort u.scheme !=
              some (decimalValue (stripLeadingZeros (p.takeWhile isDigit)))) = true := by
            simp [hdef]
          simp only [hne, hdef, if_true, if_false]
          have hw := C05b_write_port u (decimalValue (stripLeadingZeros (p.takeWhile isDigit))) r ok hh h
          rw [port_digits _ hd (takeWhile_all isDigit p)] at hw
          exact ⟨hw, repOk_port_some ok hh _, rfl⟩

/-! ### username, password -/

theorem canHave_host {u : Url} (hc : canHaveUsernamePasswordPort u = true) :
    ∃ x, u.host = some x ∧ x.text ≠ [] := by
  unfold canHaveUsernamePasswordPort at hc
  simp only [Bool.not_eq_true', Bool.or_eq_false_iff, decide_eq_false_iff_not] at hc
  have ht := hc.1
  unfold Url.hostText at ht
  cases hh : u.host with
  | none => rw [hh] at ht; exact absurd rfl ht
  | some x => rw [hh] at ht; exact ⟨x, rfl, ht⟩

/-! ### host -/

/-- the host parser writing through `hostStart`/`hostDone`: nothing on failure, `writeHost` on success.
    `hs`: the empty input reaches the host parser only for a non-special URL (url.h:1931-1936, 2104) -/
theorem sim_parseHost {r : Rep} {u : Url} (ok : RepOk u) (ho : u.hasOpaquePath = false)
    (h : RepFor r u) (idna : Idna) (s : List Nat) (hs : s = [] → u.isSpecial = false) :
    match parseHost idna s (!u.isSpecial) with
    | none => parseHostRep idna r s = (r, false)
    | some hd => parseHostRep idna r s = (writeHost r hd.text (hostKindCode hd.kind), true) ∧
        RepFor (writeHost r hd.text (hostKindCode hd.kind)) { u with host := some hd } := by
  unfold parseHostRep
  simp only
  rw [isSpecialScheme_eq ok.1 h]
  cases s with
  | nil =>
    rw [hs rfl]
    have : parseHost idna [] (!false) = some { kind := .empty, text := [] } := rfl
    rw [this]
    exact ⟨rfl, C05b_write_host u { kind := .empty, text := [] } r ok ho h⟩
  | cons c t =>
    simp only
    cases hp : parseHost idna (c :: t) (!u.isSpecial) with
    | none => rfl
    | some hd => exact ⟨rfl, C05b_write_host u hd r ok ho h⟩

theorem sim_fileHost {r : Rep} {u : Url} (ok : RepOk u) (ho : u.hasOpaquePath = false)
    (hh : u.host.isSome) (h : RepFor r u) (idna : Idna) (ov : Override) (p : List Nat) :
    Sim (fileHostStateRep idna r p) (fileHostState idna (some ov) u p) := by
  unfold fileHostStateRep fileHostState
  simp only [Option.isSome_some, if_true, Option.isNone_some, Bool.false_and, Bool.false_eq_true,
    if_false]
  by_cases hb : p.takeWhile (fun c => !isSpecialAuthorityEnd c) = []
  · simp only [hb, if_true]
    exact ⟨C05b_set_empty_host u r ok hh h, repOk_host ok ho _, rfl⟩
  · simp only [hb, if_false]
    have key := sim_parseHost ok ho h idna (p.takeWhile (fun c => !isSpecialAuthorityEnd c))
      (fun hc => absurd hc hb)
    cases hp : parseHost idna (p.takeWhile (fun c => !isSpecialAuthorityEnd c)) (!u.isSpecial) with
    | none =>
      rw [hp] at key
      simp only at key
      rw [key]
      exact Sim.refl_fail ok h _ (by simp)
    | some hd =>
      rw [hp] at key
      simp only at key
      obtain ⟨k1, k2⟩ := key
      rw [k1]
      simp only [Bool.not_true, Bool.false_eq_true, if_false]
      have ok1 : RepOk { u with host := some hd } := repOk_host ok ho hd
      have hv : (writeHost r hd.text (hostKindCode hd.kind)).partView HOST = hd.text :=
        partView_host ok1.1 k2
      rw [hv]
      by_cases hl : (hd.text == sLocalhost) = true
      · simp only [hl, if_true]
        exact ⟨C05b_empty_host { u with host := some hd } _ ok1 rfl k2, repOk_host ok ho _, rfl⟩
      · simp only [hl, Bool.false_eq_true, if_false]
        exact ⟨k2, ok1, rfl⟩

theorem sim_host {r : Rep} {u : Url} (ok : RepOk u) (ho : u.hasOpaquePath = false)
    (hfile : u.isFile = true → u.host.isSome = true) (h : RepFor r u) (idna : Idna)
    (ov : Override) (hov : ov = .host ∨ ov = .hostname) (p : List Nat) :
    Sim (hostStateRep idna (decide (ov = .hostname)) r p) (hostState idna (some ov) u p) := by
  unfold hostStateRep hostState
  rw [isFileScheme_eq ok.1 h, isSpecialScheme_eq ok.1 h, hasCredentials_eq ok.1 h, portNotNull_eq ok.1 h]
  simp only [Option.isSome_some, Bool.true_and, Bool.and_true]
  by_cases hf : u.isFile = true
  · simp only [hf, if_true]
    exact sim_fileHost ok ho (hfile hf) h idna ov p
  · simp only [hf, Bool.false_eq_true, if_false]
    generalize hauth : p.takeWhile (fun c => !(if u.isSpecial = true then isSpecialAuthorityEnd else isAuthorityEnd) c) = auth
    generalize hafter : p.dropWhile (fun c => !(if u.isSpecial = true then isSpecialAuthorityEnd else isAuthorityEnd) c) = afterAuth
    cases hsc : hostScan auth false with
    | mk hostPart portPart =>
      simp only
      by_cases c1 : (decide (hostPart = []) && (portPart.isSome || u.isSpecial)) = true
      · simp only [c1, if_true]
        exact Sim.refl_fail ok h _ (by simp)
      · simp only [c1, Bool.false_eq_true, if_false]
        by_cases c2 : (decide (hostPart = []) && (u.hasCredentials || u.port.isSome)) = true
        · simp only [c2, if_true]
          exact Sim.refl_fail ok h _ (by simp)
        · simp only [c2, Bool.false_eq_true, if_false]
          have e3 : (portPart.isSome && decide (ov = .hostname)) =
              (portPart.isSome && decide (some ov = some Override.hostname)) := by
            rcases hov with rfl | rfl <;> simp
          rw [e3]
          by_cases c3 : (portPart.isSome && decide (some ov = some Override.hostname)) = true
          · simp only [c3, if_true]
            exact Sim.refl_fail ok h _ (by simp)
          · simp only [c3, Bool.false_eq_true, if_false]
            have hs : hostPart = [] → u.isSpecial = false := by
              intro he
              cases hsp : u.isSpecial with
              | false => rfl
              | true => simp [he, hsp] at c1
            have key := sim_parseHost ok ho h idna hostPart hs
            cases hp : parseHost idna hostPart (!u.isSpecial) with
            | none =>
              rw [hp] at key
              simp only at key
              rw [key]
              exact Sim.refl_fail ok h _ (by simp)
            | some hd =>
              rw [hp] at key
              simp only at key
              obtain ⟨k1, k2⟩ := key
              rw [k1]
              simp only [Bool.not_true, Bool.false_eq_true, if_false]
              have ok1 : RepOk { u with host := some hd } := repOk_host ok ho hd
              cases portPart with
              | none => exact ⟨k2, ok1, rfl⟩
              | some pp => exact sim_port ok1 rfl k2 ov (pp ++ afterAuth)

/-! ### path: the setter's buffer follows the record's path -/

theorem ofPath_snoc (p : List (List Nat)) (seg : List Nat) :
    PathBuf.ofPath (p ++ [seg]) = (PathBuf.ofPath p).push seg := by
  unfold PathBuf.ofPath
  rw [List.foldl_append]
  rfl

theorem ofPath_segEnd_isEmpty (p : List (List Nat)) : (PathBuf.ofPath p).segEnd.isEmpty = p.isEmpty := by
  rw [ofPath_eq]
  cases p <;> simp [slashed]

theorem isFile_of_key {u v : Url} (h : C03.key v = C03.key u) : v.isFile = u.isFile := by
  have : v.scheme = u.scheme := congrArg Prod.fst h
  unfold Url.isFile
  rw [this]

/-- one iteration of the loop of `parse_path`: buffer and record agree -/
theorem pathSegmentBuf_ofPath (u : Url) (seg : List Nat) (l : Bool) :
    pathSegmentBuf u.isFile (PathBuf.ofPath u.path) seg l = PathBuf.ofPath (pathSegment u seg l).path := by
  unfold pathSegmentBuf pathSegment
  by_cases hdd : doubleDot seg = true
  · simp only [hdd, if_true]
    rw [shorten_ofPath]
    cases l
    · simp
    · simp only [if_true]
      rw [← ofPath_snoc]
  · simp only [hdd, Bool.false_eq_true, if_false]
    by_cases hsd : singleDot seg = true
    · simp only [hsd, if_true]
      cases l
      · simp
      · simp only [if_true]
        rw [← ofPath_snoc]
    · simp only [hsd, Bool.false_eq_true, if_false]
      rw [ofPath_segEnd_isEmpty]
      rcases seg with _ | ⟨a, _ | ⟨c, _ | ⟨d, t⟩⟩⟩
      · exact (ofPath_snoc _ _).symm
      · exact (ofPath_snoc _ _).symm
      · dsimp only
        by_cases hw : (u.isFile && u.path.isEmpty && isWindowsDrive a c) = true
        · simp only [hw, if_true]; exact (ofPath_snoc _ _).symm
        · simp only [hw, Bool.false_eq_true, if_false]; exact (ofPath_snoc _ _).symm
      · exact (ofPath_snoc _ _).symm

theorem pathSegmentsBuf_ofPath : ∀ (segs : List (List Nat)) (u : Url),
    pathSegmentsBuf u.isFile (PathBuf.ofPath u.path) segs = PathBuf.ofPath (pathSegments u segs).path := by
  intro segs
  induction segs with
  | nil => intro u; rfl
  | cons seg rest ih =>
    intro u
    cases rest with
    | nil => exact pathSegmentBuf_ofPath u seg true
    | cons s2 r2 =>
      rw [pathSegmentsBuf, pathSegments]
      · rw [pathSegmentBuf_ofPath u seg false,
          ← isFile_of_key (C03.key_pathSegment u seg false)]
        exact ih _
      · simp
      · simp

theorem parsePathBuf_eq {r : Rep} {u : Url} (wf : RecWF u) (h : RepFor r u) (s : List Nat) :
    parsePathBuf r s = PathBuf.ofPath (parsePath { u with path := [] } s).path := by
  unfold parsePathBuf parsePath
  rw [isSpecialScheme_eq wf h, isFileScheme_eq wf h]
  exact pathSegmentsBuf_ofPath _ { u with path := [] }

/-- `commit_path` with the buffer of a path whose segments are free of "/" -/
theorem sim_commit {r : Rep} {u : Url} (ok : RepOk u) (ho : u.hasOpaquePath = false) (h : RepFor r u)
    (p' : List (List Nat)) (hseg : ∀ s ∈ p', s.all C08.segChar = true) (hne : u.host = none → p' ≠ []) :
    Sim (commitPathBuf r (PathBuf.ofPath p'), true) ⟨.ok, { u with path := p' }⟩ := by
  refine ⟨?_, repOk_path ok p' hne, rfl⟩
  show RepFor (commitPathBuf r (PathBuf.ofPath p')) { u with path := p' }
  rw [commitPathBuf_ofPath r u p' ho]
  apply C05b_commit_path u p' r ok ho ?_ h
  cases p' with
  | nil => simp
  | cons s t =>
    cases s with
    | nil => simp
    | cons c cs =>
      have := hseg (c :: cs) List.mem_cons_self
      simp only [List.all_cons, Bool.and_eq_true, C08.segChar, bne_iff_ne, ne_eq] at this
      simp only [List.head?_cons, Option.bind_some, ne_eq, Option.some.injEq]
      exact this.1.2

theorem pathState_ov (ov : Override) (u : Url) (s : List Nat) :
    pathState (some ov) u s = ⟨.ok, parsePath u s⟩ := by
  unfold pathState
  simp [afterPath]

/-- `parse_path` on the empty buffer, then `commit_path` -/
theorem sim_parsePath {r : Rep} {u : Url} (ok : RepOk u) (ho : u.hasOpaquePath = false) (h : RepFor r u)
    (ov : Override) (s : List Nat) :
    Sim (commitPathBuf r (parsePathBuf r s), true) (pathState (some ov) { u with path := [] } s) := by
  rw [pathState_ov, parsePathBuf_eq ok.1 h]
  obtain ⟨p', he, hseg, hne⟩ := C08.parsePath_spec { u with path := [] } s (by simp)
  rw [he]
  exact sim_commit ok ho h p' hseg (fun _ => hne)

theorem sim_pathStart {r : Rep} {u : Url} (ok : RepOk u) (ho : u.hasOpaquePath = false) (h : RepFor r u)
    (ov : Override) (p : List Nat) :
    Sim (pathStartStateRep r p) (pathStartState (some ov) { u with path := [] } p) := by
  unfold pathStartStateRep pathStartState
  rw [isSpecialScheme_eq ok.1 h, hostNotNull_eq ok.1 h]
  have hsp : ({ u with path := [] } : Url).isSpecial = u.isSpecial := rfl
  rw [hsp]
  by_cases hs : u.isSpecial = true
  · simp only [hs, if_true]
    cases p with
    | nil => exact sim_parsePath ok ho h ov []
    | cons c rest =>
      simp only
      by_cases hc : isSlash c = true
      · simp only [hc, if_true]; exact sim_parsePath ok ho h ov rest
      · simp only [hc, Bool.false_eq_true, if_false]; exact sim_parsePath ok ho h ov (c :: rest)
  · simp only [hs, Bool.false_eq_true, if_false]
    cases p with
    | nil =>
      simp only [Option.isSome_some, Bool.true_and]
      have hh : ({ u with path := [] } : Url).host = u.host := rfl
      rw [hh, Option.not_isSome]
      cases hn : u.host.isNone with
      | true =>
        simp only [if_true]
        exact sim_commit ok ho h [[]] (by simp) (fun _ => by simp)
      | false =>
        simp only [Bool.false_eq_true, if_false]
        exact sim_commit ok ho h [] (by simp) (fun hc => by rw [hc] at hn; simp at hn)
    | cons c rest =>
      simp only [Option.isNone_some, Bool.false_eq_true, if_false]
      by_cases hc : c = 0x2F
      · simp only [hc, if_true]; exact sim_parsePath ok ho h ov rest
      · simp only [hc, if_false]; exact sim_parsePath ok ho h ov (c :: rest)

/-! ### protocol -/

/-- `is_scheme` of url.h:1658-1660 under a state override -/
def isSchemeOv (r0 : List Nat) : Bool :=
  match r0.dropWhile isSchemeChar with
  | c :: _ => c == 0x3A
  | [] => true

/-- url.h:1672-1697 on the representation -/
def protoTailRep (r : Rep) (scheme : List Nat) : Rep × Bool :=
  let inf := schemeIndex scheme
  if r.isSpecialScheme != inf.isSome then (r, false)
  else if inf == some 4 && (r.hasCredentials || r.portNotNull) then (r, false)
  else if r.isFileScheme && r.isEmpty HOST then (r, false)
  else
    let r1 := saveScheme r scheme
    let dp := schemeInfDefaultPort inf
    let r2 := if dp.isSome && r1.portInt == dp then clearPart r1 PORT else r1
    (r2, true)

/-- url.h:1672-1697 on the record -/
def protoTailRec (u : Url) (scheme : List Nat) : Res :=
  if u.isSpecial != isSpecialScheme scheme then ⟨.ignored, u⟩
  else if isFileScheme scheme && (u.hasCredentials || u.port.isSome) then ⟨.ignored, u⟩
  else if u.isFile && u.hostText = [] then ⟨.ignored, u⟩
  else
    let u := { u with scheme := scheme }
    let u := if u.port.isSome && defaultPort scheme = u.port then { u with port := none } else u
    ⟨.ok, u⟩

theorem protocolRep_cons (r : Rep) (c0 : Nat) (r0 : List Nat) :
    protocolRep r (c0 :: r0) =
      if !isAlpha c0 then (r, false)
      else if !isSchemeOv r0 then (r, false)
      else protoTailRep r ((c0 :: r0.takeWhile isSchemeChar).map (· ||| 0x20)) := rfl

theorem urlParse_schemeStart_cons (idna : Idna) (u : Url) (c0 : Nat) (r0 : List Nat) :
    urlParse idna none (some .schemeStart) u (c0 :: r0) =
      if isAlpha c0 then
        if isSchemeOv r0 then protoTailRec u ((c0 :: r0.takeWhile isSchemeChar).map (· ||| 0x20))
        else ⟨.failure, u⟩
      else ⟨.failure, u⟩ := by
  unfold urlParse
  simp only
  by_cases ha : isAlpha c0 = true
  · simp only [ha, if_true]
    unfold schemeState isSchemeOv
    simp only [Option.isSome_some, if_true, Option.isNone_some, Bool.false_eq_true, if_false]
    cases List.dropWhile isSchemeChar r0 <;> rfl
  · simp only [ha, Bool.false_eq_true, if_false, Option.isNone_some]

theorem sim_protoTail {r : Rep} {u : Url} (ok : RepOk u) (h : RepFor r u) (scheme : List Nat)
    (hsne : scheme ≠ []) : Sim (protoTailRep r scheme) (protoTailRec u scheme) := by
  unfold protoTailRep protoTailRec
  simp only
  rw [isSpecialScheme_eq ok.1 h, schemeIndex_isSome, schemeIndex_file, hasCredentials_eq ok.1 h,
    portNotNull_eq ok.1 h, isFileScheme_eq ok.1 h, isEmpty_host ok.1 h, schemeInfDefaultPort_eq]
  by_cases c1 : (u.isSpecial != isSpecialScheme scheme) = true
  · simp only [c1, if_true]; exact Sim.refl_fail ok h _ (by simp)
  · simp only [c1, Bool.false_eq_true, if_false]
    by_cases c2 : (isFileScheme scheme && (u.hasCredentials || u.port.isSome)) = true
    · simp only [c2, if_true]; exact Sim.refl_fail ok h _ (by simp)
    · simp only [c2, Bool.false_eq_true, if_false]
      by_cases c3 : (u.isFile && decide (u.hostText = [])) = true
      · simp only [c3, if_true]; exact Sim.refl_fail ok h _ (by simp)
      · simp only [c3, Bool.false_eq_true, if_false]
        have ok1 : RepOk { u with scheme := scheme } := repOk_scheme ok scheme hsne
        have h1 : RepFor (saveScheme r scheme) { u with scheme := scheme } :=
          C05b_save_scheme u scheme r ok hsne h
        have hpi : (saveScheme r scheme).portInt = u.port :=
          portInt_eq (u := { u with scheme := scheme }) ok1.1 h1
        rw [hpi]
        have e : ((defaultPort scheme).isSome && u.port == defaultPort scheme) =
            (u.port.isSome && decide (defaultPort scheme = u.port)) := by
          cases hd : defaultPort scheme <;> cases hq : u.port <;> simp
          rename_i a b
          by_cases hab : b = a
          · simp [hab]
          · have : ¬ a = b := fun hc => hab hc.symm
            simp [hab, this]
        rw [e]
        by_cases c4 : (u.port.isSome && decide (defaultPort scheme = u.port)) = true
        · simp only [c4, if_true]
          exact ⟨C05b_clear_port { u with scheme := scheme } _ ok1 h1, repOk_port_none ok1, rfl⟩
        · simp only [c4, Bool.false_eq_true, if_false]
          exact ⟨h1, ok1, rfl⟩

theorem sim_protocol {r : Rep} {u : Url} (ok : RepOk u) (h : RepFor r u) (idna : Idna) (p : List Nat) :
    Sim (protocolRep r p) (urlParse idna none (some .schemeStart) u p) := by
  cases p with
  | nil => exact Sim.refl_fail ok h _ (by simp)
  | cons c0 r0 =>
    rw [protocolRep_cons, urlParse_schemeStart_cons]
    by_cases ha : isAlpha c0 = true
    · simp only [ha, if_true, Bool.not_true, Bool.false_eq_true, if_false]
      cases hs : isSchemeOv r0 with
      | false =>
        simp only [Bool.not_false, if_true, Bool.false_eq_true, if_false]
        exact Sim.refl_fail ok h _ (by simp)
      | true =>
        simp only [Bool.not_true, Bool.false_eq_true, if_false, if_true]
        exact sim_protoTail ok h _ (by simp)
    · simp only [ha, Bool.false_eq_true, if_false, Bool.not_false, if_true]
      exact Sim.refl_fail ok h _ (by simp)

/-! ### the whole setters -/

/-- what `Sim` says about the pair `setValid` returns -/
theorem Sim.pair {x : Rep × Bool} {y : Res} (hs : Sim x y) :
    RepFor x.1 (y.url, y.out == Outcome.ok).1 ∧ RepOk (y.url, y.out == Outcome.ok).1 ∧
      x.2 = (y.url, y.out == Outcome.ok).2 := hs

theorem sim_setter (idna : Idna) (s : Setter) (e : Enc) (units : List Nat) {u : Url} {r : Rep}
    (hs : s ≠ .href) (ok : RepOk u)
    (hfile : s = .host ∨ s = .hostname → u.isFile = true → u.host.isSome = true) (h : RepFor r u) :
    RepFor (setRep idna s e units r).1 (setValid idna s e units u).1 ∧
    RepOk (setValid idna s e units u).1 ∧
    (setRep idna s e units r).2 = (setValid idna s e units u).2 := by
  cases s with
  | href => exact absurd rfl hs
  | protocol => exact (sim_protocol ok h idna (prep e units)).pair
  | username =>
    unfold setRep setValid
    simp only
    rw [canHave_eq ok.1 h]
    by_cases hc : canHaveUsernamePasswordPort u = true
    · simp only [hc, if_true]
      obtain ⟨x, hx, hxt⟩ := canHave_host hc
      exact ⟨C05b_write_username u _ r x ok hx hxt h, repOk_username ok (by rw [hx]; rfl) _, by first | rfl | trivial⟩
    · simp only [hc, Bool.false_eq_true, if_false]
      exact ⟨h, ok, by first | rfl | trivial⟩
  | password =>
    unfold setRep setValid
    simp only
    rw [canHave_eq ok.1 h]
    by_cases hc : canHaveUsernamePasswordPort u = true
    · simp only [hc, if_true]
      obtain ⟨x, hx, hxt⟩ := canHave_host hc
      exact ⟨C05b_write_password u _ r x ok hx hxt h, repOk_password ok (by rw [hx]; rfl) _, by first | rfl | trivial⟩
    · simp only [hc, Bool.false_eq_true, if_false]
      exact ⟨h, ok, by first | rfl | trivial⟩
  | host =>
    unfold setRep setValid
    simp only
    rw [opaquePath_eq ok.1 h]
    by_cases ho : u.hasOpaquePath = true
    · rw [if_neg (c := (!u.hasOpaquePath) = true) (by simp [ho]),
        if_neg (c := (!u.hasOpaquePath) = true) (by simp [ho])]
      exact ⟨h, ok, rfl⟩
    · have ho' : u.hasOpaquePath = false := by simpa using ho
      rw [if_pos (c := (!u.hasOpaquePath) = true) (by simp [ho']),
        if_pos (c := (!u.hasOpaquePath) = true) (by simp [ho'])]
      exact (sim_host ok ho' (hfile (Or.inl rfl)) h idna .host (Or.inl rfl) (prep e units)).pair
  | hostname =>
    unfold setRep setValid
    simp only
    rw [opaquePath_eq ok.1 h]
    by_cases ho : u.hasOpaquePath = true
    · rw [if_neg (c := (!u.hasOpaquePath) = true) (by simp [ho]),
        if_neg (c := (!u.hasOpaquePath) = true) (by simp [ho])]
      exact ⟨h, ok, rfl⟩
    · have ho' : u.hasOpaquePath = false := by simpa using ho
      rw [if_pos (c := (!u.hasOpaquePath) = true) (by simp [ho']),
        if_pos (c := (!u.hasOpaquePath) = true) (by simp [ho'])]
      exact (sim_host ok ho' (hfile (Or.inr rfl)) h idna .hostname (Or.inr rfl) (prep e units)).pair
  | port =>
    unfold setRep setValid
    simp only
    rw [canHave_eq ok.1 h]
    by_cases hc : canHaveUsernamePasswordPort u = true
    · simp only [hc, if_true]
      obtain ⟨x, hx, _⟩ := canHave_host hc
      by_cases hu : units = []
      · simp only [hu, if_true]
        exact ⟨C05b_clear_port u r ok h, repOk_port_none ok, by first | rfl | trivial⟩
      · simp only [hu, if_false]
        exact (sim_port ok (by rw [hx]; rfl) h .port (prep e units)).pair
    · simp only [hc, Bool.false_eq_true, if_false]
      exact ⟨h, ok, by first | rfl | trivial⟩
  | pathname =>
    unfold setRep setValid
    simp only
    rw [opaquePath_eq ok.1 h]
    by_cases ho : u.hasOpaquePath = true
    · rw [if_neg (c := (!u.hasOpaquePath) = true) (by simp [ho]),
        if_neg (c := (!u.hasOpaquePath) = true) (by simp [ho])]
      exact ⟨h, ok, rfl⟩
    · have ho' : u.hasOpaquePath = false := by simpa using ho
      rw [if_pos (c := (!u.hasOpaquePath) = true) (by simp [ho']),
        if_pos (c := (!u.hasOpaquePath) = true) (by simp [ho'])]
      exact (sim_pathStart ok ho' h .pathStart (prep e units)).pair
  | search =>
    unfold setRep setValid
    cases units with
    | nil =>
      exact ⟨C05b_strip_trailing_spaces _ _ (ok : RepOk { u with query := none }) (C05b_clear_query u r ok h),
        repOk_strip (u := { u with query := none }) ok, by first | rfl | trivial⟩
    | cons c rest => exact (sim_query ok h .query _).pair
  | hash =>
    unfold setRep setValid
    cases units with
    | nil =>
      exact ⟨C05b_strip_trailing_spaces _ _ (ok : RepOk { u with fragment := none })
          (C05b_clear_fragment u r ok h),
        repOk_strip (u := { u with fragment := none }) ok, by first | rfl | trivial⟩
    | cons c rest => exact (sim_fragment ok h _).pair

/-! ### "a special URL has a host" is kept by every setter -/

/-- specialness kept; host kept or non-null -/
def HStep (u v : Url) : Prop := v.isSpecial = u.isSpecial ∧ (v.host = u.host ∨ v.host.isSome = true)

theorem HStep.of_key {u v : Url} (h : C03.key v = C03.key u) : HStep u v := by
  simp only [C03.key, Prod.mk.injEq] at h
  refine ⟨?_, Or.inl h.2⟩
  unfold Url.isSpecial
  rw [h.1]

theorem HStep.keeps {u v : Url} (hs : HStep u v) (hsp : u.isSpecial = true → u.host.isSome = true) :
    v.isSpecial = true → v.host.isSome = true := by
  intro hv
  rcases hs.2 with h | h
  · rw [h]; exact hsp (by rw [← hs.1]; exact hv)
  · exact h

theorem hstep_fileHost (idna : Idna) (ov : Override) (u : Url) (p : List Nat) :
    HStep u (fileHostState idna (some ov) u p).url := by
  unfold fileHostState
  simp only [Option.isSome_some, if_true, Option.isNone_some, Bool.false_and, Bool.false_eq_true,
    if_false]
  split
  · exact ⟨rfl, Or.inr rfl⟩
  · split
    · exact ⟨rfl, Or.inl rfl⟩
    · exact ⟨rfl, Or.inr rfl⟩

theorem hstep_host (idna : Idna) (ov : Override) (u : Url) (p : List Nat) :
    HStep u (hostState idna (some ov) u p).url := by
  unfold hostState
  simp only [Option.isSome_some, Bool.true_and, Bool.and_true]
  split
  · exact hstep_fileHost idna ov u p
  · generalize hostScan _ false = sc
    obtain ⟨hostPart, portPart⟩ := sc
    simp only
    split
    · exact ⟨rfl, Or.inl rfl⟩
    · split
      · exact ⟨rfl, Or.inl rfl⟩
      · split
        · exact ⟨rfl, Or.inl rfl⟩
        · split
          · exact ⟨rfl, Or.inl rfl⟩
          · rename_i hd _
            cases portPart with
            | none => exact ⟨rfl, Or.inr rfl⟩
            | some pp =>
              simp only
              have hk := C03.key_portState (some ov) { u with host := some hd } (pp ++
                p.dropWhile (fun c => !(if u.isSpecial = true then isSpecialAuthorityEnd else isAuthorityEnd) c))
              have := HStep.of_key hk
              exact ⟨this.1, Or.inr (by rcases this.2 with h | h; rw [h]; rfl; exact h)⟩

theorem hstep_protocol (idna : Idna) (u : Url) (p : List Nat) :
    HStep u (urlParse idna none (some .schemeStart) u p).url := by
  cases p with
  | nil => exact ⟨rfl, Or.inl rfl⟩
  | cons c0 r0 =>
    rw [urlParse_schemeStart_cons]
    split
    · split
      · unfold protoTailRec
        split
        · exact ⟨rfl, Or.inl rfl⟩
        · rename_i hsp
          split
          · exact ⟨rfl, Or.inl rfl⟩
          · split
            · exact ⟨rfl, Or.inl rfl⟩
            · simp only [bne_iff_ne, ne_eq, Decidable.not_not] at hsp
              simp only
              split
              · exact ⟨hsp.symm, Or.inl rfl⟩
              · exact ⟨hsp.symm, Or.inl rfl⟩
      · exact ⟨rfl, Or.inl rfl⟩
    · exact ⟨rfl, Or.inl rfl⟩

theorem hstep_setter (idna : Idna) (s : Setter) (e : Enc) (units : List Nat) (u : Url)
    (hs : s ≠ .href) : HStep u (setValid idna s e units u).1 := by
  cases s with
  | href => exact absurd rfl hs
  | protocol => exact hstep_protocol idna u _
  | username => unfold setValid; simp only; split <;> exact ⟨rfl, Or.inl rfl⟩
  | password => unfold setValid; simp only; split <;> exact ⟨rfl, Or.inl rfl⟩
  | host =>
    unfold setValid; simp only
    split
    · exact hstep_host idna .host u _
    · exact ⟨rfl, Or.inl rfl⟩
  | hostname =>
    unfold setValid; simp only
    split
    · exact hstep_host idna .hostname u _
    · exact ⟨rfl, Or.inl rfl⟩
  | port =>
    unfold setValid; simp only
    split
    · split
      · exact ⟨rfl, Or.inl rfl⟩
      · exact HStep.of_key (C03.key_portState _ _ _)
    · exact ⟨rfl, Or.inl rfl⟩
  | pathname =>
    unfold setValid; simp only
    split
    · exact HStep.of_key (u := u) (C03.key_pathStartState _ { u with path := [] } _)
    · exact ⟨rfl, Or.inl rfl⟩
  | search =>
    unfold setValid
    cases units with
    | nil => exact HStep.of_key (u := u) (C03.key_stripTrailingSpaces { u with query := none })
    | cons c rest => exact HStep.of_key (C03.key_queryState (some .query) u _)
  | hash =>
    unfold setValid
    cases units with
    | nil => exact HStep.of_key (u := u) (C03.key_stripTrailingSpaces { u with fragment := none })
    | cons c rest => exact HStep.of_key (C03.key_fragmentState u _)

/-! ### frames: which fields a host / port run can touch -/

theorem portState_frame (ov : Override) (u : Url) (p : List Nat) :
    ∃ po, (portState (some ov) u p).url = { u with port := po } := by
  rw [C08.portState_eq]
  simp only [Option.isSome_some, Bool.or_true, if_true]
  cases hr : C08.portResult u (p.takeWhile isDigit) with
  | none => exact ⟨u.port, rfl⟩
  | some u' =>
    simp only
    unfold C08.portResult at hr
    split at hr
    · dsimp only at hr
      split at hr
      · simp at hr
      · split at hr
        · simp at hr
        · split at hr
          · simp only [Option.some.injEq] at hr; subst hr; exact ⟨none, rfl⟩
          · simp only [Option.some.injEq] at hr; subst hr; exact ⟨_, rfl⟩
    · simp only [Option.some.injEq] at hr; subst hr; exact ⟨u.port, rfl⟩

/-- a host / hostname run leaves the record as it was, or with a non-null host and possibly another
    port; nothing else changes -/
theorem hostState_frame (idna : Idna) (ov : Override) (u : Url) (p : List Nat) :
    (hostState idna (some ov) u p).url = u ∨
    ∃ hd po, (hostState idna (some ov) u p).url = { u with host := some hd, port := po } := by
  unfold hostState
  simp only [Option.isSome_some, Bool.true_and, Bool.and_true]
  split
  · unfold fileHostState
    simp only [Option.isSome_some, if_true, Option.isNone_some, Bool.false_and, Bool.false_eq_true,
      if_false]
    split
    · exact Or.inr ⟨_, u.port, rfl⟩
    · split
      · exact Or.inl rfl
      · exact Or.inr ⟨_, u.port, rfl⟩
  · generalize hostScan _ false = sc
    obtain ⟨hostPart, portPart⟩ := sc
    simp only
    split
    · exact Or.inl rfl
    · split
      · exact Or.inl rfl
      · split
        · exact Or.inl rfl
        · split
          · exact Or.inl rfl
          · rename_i hd _
            cases portPart with
            | none => exact Or.inr ⟨hd, u.port, rfl⟩
            | some pp =>
              simp only
              obtain ⟨po, hpo⟩ := portState_frame ov { u with host := some hd } (pp ++
                p.dropWhile (fun c => !(if u.isSpecial = true then isSpecialAuthorityEnd else isAuthorityEnd) c))
              exact Or.inr ⟨hd, po, hpo⟩

theorem repOk_hostState (idna : Idna) (ov : Override) {u : Url} (ok : RepOk u)
    (ho : u.hasOpaquePath = false) (p : List Nat) : RepOk (hostState idna (some ov) u p).url := by
  rcases hostState_frame idna ov u p with h | ⟨hd, po, h⟩
  · rw [h]; exact ok
  · rw [h]
    exact ⟨⟨ok.1.1, fun hn => by simp at hn⟩, fun hn => by simp at hn, fun hp => by
      rw [show ({ u with host := some hd, port := po } : Url).hasOpaquePath = u.hasOpaquePath from rfl,
        ho] at hp
      simp at hp⟩

/-! ### `RepOk` is kept by every setter (no side condition) -/

theorem repOk_setter (idna : Idna) (s : Setter) (e : Enc) (units : List Nat) {u : Url}
    (hs : s ≠ .href) (ok : RepOk u) : RepOk (setValid idna s e units u).1 := by
  by_cases hh : s = .host ∨ s = .hostname
  · rcases hh with rfl | rfl
    · unfold setValid
      simp only
      split
      · rename_i ho
        exact repOk_hostState idna .host ok (by simpa using ho) _
      · exact ok
    · unfold setValid
      simp only
      split
      · rename_i ho
        exact repOk_hostState idna .hostname ok (by simpa using ho) _
      · exact ok
  · exact (sim_setter idna s e units hs ok (fun hc => absurd hc hh) (C05b_layout u ok.1)).2.1

end Upa.Proofs.SetRepApi
