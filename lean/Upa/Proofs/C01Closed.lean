import Upa.Proofs.C01Head
import Upa.Proofs.C01AuthClosed
import Upa.Proofs.Host
/-
  C01 — the three parts put together: tail states (C01Tail), authority states (C01Auth / C01AuthClosed),
  head states and assembly (C01Head).  `C01_parse_conforms_of_host` has the host parser equality
  `hHost` as its only hypothesis; `C01_parse_conforms_closed` discharges it with C07
  (`Upa.Proofs.C07.parseHost_eq`) under the two IDNA hypotheses of `Upa.Props.IdnaOk`.
-/
namespace Upa.Proofs.C01
open Upa.Spec (State Cfg StepResult step run)

theorem Fresh.authPre {k : Cfg} (h : Fresh k) : AuthPre k := by
  obtain ⟨h1, h2, h3, h4⟩ := h
  refine ⟨h1, h3, h2, ?_, ?_⟩ <;> rw [h4]

/-- the weak simulation of C01Auth is `SimR WEq` -/
theorem SimAtW.toR {idna : Idna} {base : Option Url} {ov : Option Override} {S : State} {a c : Nat}
    {Pre : Cfg → Prop} {B : Url → List Nat → Res} (h : SimAtW idna base ov S a c Pre B) :
    SimR WEq idna base ov S a c Pre B := h

section
variable {idna : Idna} {base : Option Url}

/-- host state, any state override, file host hypothesis discharged -/
theorem sim_host_all (ov : Option Override)
    (hHost : ∀ s o, (∀ c ∈ s, Spec.isScalar c = true) → Impl.parseHost idna s o = Spec.hostParse idna s o) :
    SimAt idna base ov .host 1 3 (fun k => k.insideBrackets = false) (Impl.hostState idna ov) :=
  sim_host_closed ov hHost (sim_fileHost_isSome hHost ov)

/-- hostname state, any state override, file host hypothesis discharged -/
theorem sim_hostname_all (ov : Option Override)
    (hHost : ∀ s o, (∀ c ∈ s, Spec.isScalar c = true) → Impl.parseHost idna s o = Spec.hostParse idna s o) :
    SimAt idna base ov .hostname 1 3 (fun k => k.insideBrackets = false) (Impl.hostState idna ov) :=
  sim_hostname_closed ov hHost (sim_fileHost_isSome hHost ov)

end

section
variable {idna : Idna}
variable (hHost : ∀ s o, (∀ c ∈ s, Spec.isScalar c = true) → Impl.parseHost idna s o = Spec.hostParse idna s o)
include hHost

/-- the whole no-override parser against the Standard's state machine (results agree; the URL left
    behind by a failing parse may differ, see `ResAgree` in C01Auth) -/
theorem sim_urlParse_closed (base : Option Url) :
    SimR WEq idna base none .schemeStart 4 16 (fun k => k.p = 0 ∧ Fresh k) (Impl.urlParse idna base none) :=
  sim_urlParse WEq.refl hHost
    ((sim_fragment idna base none).toR WEq.refl |>.mono (by decide) (by decide) (fun _ h => h))
    ((sim_query idna base none).toR WEq.refl |>.mono (by decide) (by decide) (fun _ h => h))
    ((sim_opaquePath idna base none).toR WEq.refl |>.mono (by decide) (by decide) (fun _ h => h))
    ((sim_path idna base none).toR WEq.refl |>.mono (by decide) (by decide) (fun _ h => h))
    ((sim_pathStart idna base none).toR WEq.refl |>.mono (by decide) (by decide) (fun _ h => h))
    ((sim_authority_none hHost).toR.mono (by decide) (by decide) (fun _ h => h.authPre))
    ((sim_ignoreSlashes_none hHost).toR.mono (by decide) (by decide) (fun _ h => h.authPre))
    ((sim_specialAuthoritySlashes_none hHost).toR.mono (by decide) (by decide) (fun _ h => h.authPre))
    ((sim_pathOrAuthority_none hHost).toR.mono (by decide) (by decide) (fun _ h => h.authPre))

/-- C01 (parse): the library's `parse` is the Standard's URL parser, with and without a base, for
    every input encoding — given that the host parser is the Standard's (`hHost`). -/
theorem C01_parse_conforms_of_host :
    ∀ (e : Enc) (units : List Nat) (base : Option Url), Props.UnitsOk e units →
      Impl.parse idna e units base = Spec.apiParse idna e units base := by
  intro e units base hu
  have hu' := Head.unitsOk_doTrim hu
  have hsim := (sim_urlParse_closed hHost base).imp (fun _ _ => WEq.fst)
  rw [Head.parse_eq_okUrl]
  unfold Spec.apiParse
  rw [← Props.C01_input_conversion e _ hu']
  exact (basicParse_fst hsim _ (Head.prep_scalar e _ hu')).symm

end

/-- C01 (parse) under the IDNA hypotheses of C07 (`Upa.Props.IdnaOk` = `AsciiHyp` ∧ `PersistHyp`) -/
theorem C01_parse_conforms_closed (idna : Idna) (hascii : C07.AsciiHyp idna) (hpersist : C07.PersistHyp idna) :
    ∀ (e : Enc) (units : List Nat) (base : Option Url), Props.UnitsOk e units →
      Impl.parse idna e units base = Spec.apiParse idna e units base :=
  C01_parse_conforms_of_host (fun s o hs => C07.parseHost_eq idna hascii hpersist s o hs)

#print axioms C01_parse_conforms_closed
#print axioms sim_host_all
#print axioms sim_hostname_all
#print axioms sim_urlParse_closed
#print axioms C01_parse_conforms_of_host
end Upa.Proofs.C01
