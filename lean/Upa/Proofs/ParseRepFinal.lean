import Upa.Proofs.ParseRepNoBase
/-
  Helpers for C05e, part 4: what `Final r u` (the invariant at a successful end of the parse) says
  about the raw representation.
-/
set_option linter.unusedSimpArgs false
set_option linter.unusedVariables false

namespace Upa.Proofs.ParseRep
open Upa Upa.Impl Upa.Proofs.C05 Upa.Proofs.SetRep Upa.Proofs.SetRepApi Upa.Props

theorem Final.repFor {r : Rep} {u : Url} (h : Final r u) : RepFor r u := by
  obtain ⟨l, hs⟩ := h
  exact hs.repFor

theorem Final.wf {r : Rep} {u : Url} (h : Final r u) : RecWF u := by
  obtain ⟨l, hs⟩ := h
  exact hs.1

/-- the raw offsets: those of the from-scratch layout up to the last started part `l` (at least
    HOST), `0` after it — and the record has no text there -/
theorem Final.exact {r : Rep} {u : Url} (h : Final r u) :
    ∃ l, 5 ≤ l ∧ l ≤ 10 ∧
      r = { layout u with partEnd := (layout u).partEnd.take (l + 1) ++ List.replicate (10 - l) 0 } ∧
      ∀ i, l < i → i ≤ 10 → (layout u).pe i = (layout u).norm.length := by
  obtain ⟨l, wf, A, hA, hr, hl⟩ := h
  simp only at hr hl
  have hlo := hA.lo
  have hhi := hA.hi
  refine ⟨l, by omega, by omega, ?_, ?_⟩
  · rw [hr]
    have hL : layout u = mkRep (layout u) (segsOf u) := (mkRep_segsOf u).symm
    have hn : (layout u).norm = (segsOf u).flatten := by rw [hL]; rfl
    have hp : (layout u).partEnd = sums 0 (segsOf u) := by
      conv => lhs; rw [hL]
      simp [mkRep, segsOf]
    symm
    apply rep_eq_mkRep <;> try rfl
    · show (layout u).norm = _
      rw [hn, hA.flatten]
    · show (layout u).partEnd.take (l + 1) ++ List.replicate (10 - l) 0 = _
      rw [hp, ← hl, sums_take, ← hA.take (Nat.le_refl _), List.take_of_length_le (Nat.le_refl _)]
      congr 2; omega
  · intro i hi hi10
    have hL : layout u = mkRep (layout u) (segsOf u) := (mkRep_segsOf u).symm
    rw [hL, pe_mkRep_lt _ _ _ (by simp [segsOf]; omega), norm_mkRep]
    unfold off
    have hd := hA.drop_absent (n := i + 1) (by omega)
    have : (segsOf u).flatten = ((segsOf u).take (i + 1)).flatten ++ ((segsOf u).drop (i + 1)).flatten := by
      rw [← List.flatten_append, List.take_append_drop]
    rw [this, hd, List.append_nil]

/-- the result of `parse` from the result of `urlParse` -/
theorem parse_eq (idna : Idna) (e : Enc) (units : List Nat) (base : Option Url) :
    parse idna e units base =
      if (urlParse idna base none {} (prep e (doTrim units))).out = .ok then
        some (urlParse idna base none {} (prep e (doTrim units))).url else none := by
  unfold parse
  generalize urlParse idna base none {} (prep e (doTrim units)) = y
  obtain ⟨o, v⟩ := y
  cases o <;> simp

theorem agree_isSome {x : Option Rep} {y : Res} (h : Agree x y) : x.isSome = decide (y.out = .ok) := by
  cases x with
  | none => simp only [Agree] at h; simp [h]
  | some r => simp only [Agree] at h; simp [h.1]

end Upa.Proofs.ParseRep
