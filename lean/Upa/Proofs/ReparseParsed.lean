import Upa.Proofs.Reparse
import Upa.Proofs.Canon
import Upa.Proofs.Ipv4
import Upa.Proofs.Ipv6Round
/-
  Helper lemmas for C02b (everything the parser produces is in the normal form `Upa.Props.Norm`, so
  that the reparse theorem `C02_reparse` applies to every parsed URL).

  Part A: the encode loops produce fixpoints (`keeps`), path segments are never dot segments, facts
          about the first / last element of encoder output.
  Part B: the host parser's output is stable (`HostStable`): domain (fast path and IDNA path), IPv4,
          IPv6, opaque, empty.  Hypotheses on the IDNA parameter: `IdnaStable`.
  Part C: the normal form split into authority / path / query / fragment parts (`AuthN`, `PathN`, …)
          and one lemma per parser block, in the block structure of Upa/Proofs/Canon.lean.
  Part D: `parse_norm`.
  Part E: setters.
-/
namespace Upa.Proofs.C02b
open Upa Upa.Impl
open Upa.Proofs.C02 hiding schemeOk userinfoOk isLowerAlpha hostScan_nil

/-! ## Part A: encoder output -/

theorem isPctChar_lt {x : Nat} (h : C08.isPctChar x = true) : x < 128 := by
  simp only [C08.isPctChar, Bool.or_eq_true, beq_iff_eq, C14.isUpperHex_iff] at h; omega

/-- every element of the encode loop's output is kept by the same loop, when `%` and the upper-case
    hex digits are in the no-encode set -/
theorem keeps_of_enc (noEnc : Nat → Bool)
    (hpct : ∀ c, c < 128 → C08.isPctChar c = true → noEnc c = true) (s : List Nat) :
    ∀ x ∈ percentEncode noEnc s, keeps noEnc x = true := by
  intro x hx
  rcases C08.percentEncode_chars noEnc s x hx with h | ⟨_, h2, h3⟩
  · have hlt := isPctChar_lt h
    simp only [keeps, Bool.and_eq_true, decide_eq_true_eq]
    exact ⟨by omega, hpct x hlt h⟩
  · simp only [keeps, Bool.and_eq_true, decide_eq_true_eq]
    exact ⟨h2, h3⟩

theorem pct_keeps_userinfo : ∀ c, c < 128 → C08.isPctChar c = true → userinfoNoEnc c = true := by
  decide +kernel
theorem pct_keeps_fragment : ∀ c, c < 128 → C08.isPctChar c = true → fragmentNoEnc c = true := by
  decide +kernel
theorem pct_keeps_query : ∀ c, c < 128 → C08.isPctChar c = true → queryNoEnc c = true := by
  decide +kernel
theorem pct_keeps_specialQuery : ∀ c, c < 128 → C08.isPctChar c = true → specialQueryNoEnc c = true := by
  decide +kernel
theorem pct_keeps_path : ∀ c, c < 128 → C08.isPctChar c = true →
    pathNoEnc c = true ∧ c ≠ 0x2F ∧ c ≠ 0x5C := by
  decide +kernel

theorem userinfo_fix (s : List Nat) : C02.userinfoOk (percentEncode userinfoNoEnc s) = true :=
  List.all_eq_true.2 (keeps_of_enc _ pct_keeps_userinfo s)

theorem fragment_fix (s : List Nat) : fragmentOk (percentEncode fragmentNoEnc s) = true :=
  List.all_eq_true.2 (keeps_of_enc _ pct_keeps_fragment s)

theorem query_fix (sp : Bool) (s : List Nat) :
    queryOk sp (percentEncode (if sp then specialQueryNoEnc else queryNoEnc) s) = true := by
  cases sp
  · exact List.all_eq_true.2 (keeps_of_enc _ pct_keeps_query s)
  · exact List.all_eq_true.2 (keeps_of_enc _ pct_keeps_specialQuery s)

/-- the elements of an encoded path segment -/
theorem seg_chars (sp : Bool) (seg : List Nat) (h2f : ∀ c ∈ seg, c ≠ 0x2F)
    (h5c : sp = true → ∀ c ∈ seg, c ≠ 0x5C) :
    ∀ x ∈ percentEncode pathNoEnc seg, segCharOk sp x = true := by
  intro x hx
  simp only [segCharOk, keeps, Bool.and_eq_true, decide_eq_true_eq, bne_iff_ne, ne_eq,
    Bool.not_eq_true', Bool.and_eq_false_iff, beq_eq_false_iff_ne]
  rcases C08.percentEncode_chars pathNoEnc seg x hx with h | ⟨h1, h2, h3⟩
  · have hlt := isPctChar_lt h
    obtain ⟨a, b, c⟩ := pct_keeps_path x hlt h
    exact ⟨⟨⟨by omega, a⟩, b⟩, Or.inr c⟩
  · refine ⟨⟨⟨h2, h3⟩, h2f x h1⟩, ?_⟩
    cases sp with
    | false => exact Or.inl rfl
    | true => exact Or.inr (h5c rfl x h1)

/-! ### the head of the encode loop's output -/

theorem encodeUtf8Char_head (c : Nat) (h : 0x80 ≤ c) :
    ∃ b t, encodeUtf8Char c = b :: t ∧ 0x80 ≤ b ∧ b < 256 := by
  have hlt := C08.encodeUtf8Char_lt256 c
  have key : ∀ b t, encodeUtf8Char c = b :: t → 0x80 ≤ b →
      ∃ b t, encodeUtf8Char c = b :: t ∧ 0x80 ≤ b ∧ b < 256 := by
    intro b t he hb
    exact ⟨b, t, he, hb, hlt b (by rw [he]; exact List.mem_cons_self)⟩
  unfold encodeUtf8Char at key ⊢
  split
  · omega
  · split
    · rename_i h1 h2
      simp only [h1, h2, if_false, if_true] at key
      exact key _ _ rfl (Nat.le_trans (by decide) Nat.right_le_or)
    · split
      · rename_i h1 h2 h3
        simp only [h1, h2, h3, if_false, if_true] at key
        exact key _ _ rfl (Nat.le_trans (by decide) Nat.right_le_or)
      · rename_i h1 h2 h3
        simp only [h1, h2, h3, if_false] at key
        refine key _ _ rfl ?_
        have : ((c >>> 18) ||| 0xF0) % 256 = (c >>> 18) % 2 ^ 8 ||| 0xF0 % 2 ^ 8 :=
          Nat.or_mod_two_pow (n := 8)
        rw [this]
        exact Nat.le_trans (by decide) Nat.right_le_or

/-- one step of the encode loop: the element is kept, or a `%XX` triplet of an encoded byte starts -/
theorem enc_cons_cases (noEnc : Nat → Bool) (c : Nat) (cs : List Nat) :
    (c < 0x80 ∧ noEnc c = true ∧ percentEncode noEnc (c :: cs) = c :: percentEncode noEnc cs) ∨
    (∃ b rest, percentEncode noEnc (c :: cs) =
        0x25 :: hexDigitUpper (b / 16) :: hexDigitUpper (b % 16) :: rest ∧
      b < 256 ∧ (0x80 ≤ b ∨ (b = c ∧ noEnc c = false))) := by
  rw [C14.percentEncode_cons]
  by_cases h : c ≥ 0x80
  · right
    obtain ⟨b, t, he, hb1, hb2⟩ := encodeUtf8Char_head c h
    rw [if_pos h]
    refine ⟨b, t.flatMap pctByte ++ percentEncode noEnc cs, ?_, hb2, Or.inl hb1⟩
    simp [pctEncodeChar, he, pctByte]
  · rw [if_neg h]
    cases hn : noEnc c with
    | true => left; exact ⟨by omega, rfl, by simp⟩
    | false =>
      right
      exact ⟨c, percentEncode noEnc cs, by simp [pctByte], by omega, Or.inr ⟨rfl, rfl⟩⟩

theorem enc_ne_nil (noEnc : Nat → Bool) (c : Nat) (cs : List Nat) : percentEncode noEnc (c :: cs) ≠ [] := by
  rcases enc_cons_cases noEnc c cs with ⟨_, _, h⟩ | ⟨b, rest, h, _⟩ <;> rw [h] <;> simp

theorem enc_eq_nil {noEnc : Nat → Bool} {s : List Nat} (h : percentEncode noEnc s = []) : s = [] := by
  cases s with
  | nil => rfl
  | cons c cs => exact absurd h (enc_ne_nil noEnc c cs)

/-- an output element other than `%` is the input element itself -/
theorem enc_head_other (noEnc : Nat → Bool) (c : Nat) (cs : List Nat) (k : Nat) (t : List Nat)
    (hk : k ≠ 0x25) (h : percentEncode noEnc (c :: cs) = k :: t) :
    c = k ∧ percentEncode noEnc cs = t := by
  rcases enc_cons_cases noEnc c cs with ⟨_, _, he⟩ | ⟨b, rest, he, _⟩
  · rw [he] at h
    simp only [List.cons.injEq] at h
    exact h
  · rw [he] at h
    simp only [List.cons.injEq] at h
    omega

theorem hexUpper_32 : ∀ n, n < 16 → hexDigitUpper n = 0x32 → n = 2 := by decide
theorem hexUpper_e : ∀ n, n < 16 → (hexDigitUpper n ||| 0x20) = 0x65 → n = 14 := by decide

/-- `%2e` / `%2E` in the output of the path encoder was `%2e` / `%2E` in the input: the path encoder
    keeps `.`, so it never produces this triplet -/
theorem enc_head_escdot (c : Nat) (cs : List Nat) (x : Nat) (t : List Nat)
    (hx : (x ||| 0x20) = 0x65)
    (h : percentEncode pathNoEnc (c :: cs) = 0x25 :: 0x32 :: x :: t) :
    c = 0x25 ∧ percentEncode pathNoEnc cs = 0x32 :: x :: t := by
  rcases enc_cons_cases pathNoEnc c cs with ⟨_, _, he⟩ | ⟨b, rest, he, hb, hc⟩
  · rw [he] at h
    simp only [List.cons.injEq] at h
    exact h
  · exfalso
    rw [he] at h
    simp only [List.cons.injEq, true_and] at h
    obtain ⟨h1, h2, _⟩ := h
    have a1 := hexUpper_32 (b / 16) (by omega) h1
    have a2 := hexUpper_e (b % 16) (by omega) (by rw [h2]; exact hx)
    have hb' : b = 0x2E := by omega
    rcases hc with hc | ⟨hc, hn⟩
    · omega
    · rw [← hc, hb'] at hn
      exact absurd hn (by decide)

/-- strings made of the tokens `.`, `%2e`, `%2E` -/
def dotToks : List Nat → Bool
  | [] => true
  | a :: t =>
    if a = 0x2E then dotToks t
    else
      match t with
      | b :: x :: t' => a == 0x25 && b == 0x32 && (x ||| 0x20) == 0x65 && dotToks t'
      | _ => false

theorem dotToks_dot (t : List Nat) : dotToks (0x2E :: t) = dotToks t := by
  rw [dotToks.eq_def]; simp

theorem enc_dotToks : ∀ (pat seg : List Nat), dotToks pat = true →
    percentEncode pathNoEnc seg = pat → seg = pat := by
  intro pat
  induction pat using dotToks.induct with
  | case1 => intro seg _ h; exact enc_eq_nil h
  | case2 t ih =>
    intro seg hd h
    rw [dotToks_dot] at hd
    cases seg with
    | nil => simp [percentEncode] at h
    | cons c cs =>
      obtain ⟨h1, h2⟩ := enc_head_other _ c cs _ t (by decide) h
      rw [h1, ih cs hd h2]
  | case3 a ha b x t' ih =>
    intro seg hd h
    simp only [dotToks, if_neg ha, Bool.and_eq_true, beq_iff_eq] at hd
    obtain ⟨⟨⟨rfl, rfl⟩, hx⟩, hd⟩ := hd
    cases seg with
    | nil => simp [percentEncode] at h
    | cons c cs =>
      obtain ⟨h1, h2⟩ := enc_head_escdot c cs x t' hx h
      cases cs with
      | nil => simp [percentEncode] at h2
      | cons c2 cs2 =>
        obtain ⟨h3, h4⟩ := enc_head_other _ c2 cs2 _ _ (by decide) h2
        cases cs2 with
        | nil => simp [percentEncode] at h4
        | cons c3 cs3 =>
          have hx25 : x ≠ 0x25 := by
            intro hh; subst hh; exact absurd hx (by decide)
          obtain ⟨h5, h6⟩ := enc_head_other _ c3 cs3 _ _ hx25 h4
          rw [h1, h3, h5, ih cs3 hd h6]
  | case4 a t ha hne =>
    intro seg hd h
    exfalso
    rcases t with _ | ⟨b, _ | ⟨x, t'⟩⟩
    · simp [dotToks, ha] at hd
    · simp [dotToks, ha] at hd
    · exact hne b x t' rfl

theorem singleDot_toks (s : List Nat) (h : singleDot s = true) : dotToks s = true := by
  unfold singleDot at h
  split at h
  · simp only [beq_iff_eq] at h; subst h; simp [dotToks]
  · rename_i a b c
    simp only [escapedDot, Bool.and_eq_true, beq_iff_eq] at h
    obtain ⟨⟨rfl, rfl⟩, h3⟩ := h
    simp [dotToks, h3]
  · exact absurd h (by simp)

theorem doubleDot_toks (s : List Nat) (h : doubleDot s = true) : dotToks s = true := by
  unfold doubleDot at h
  split at h
  · simp only [Bool.and_eq_true, beq_iff_eq] at h
    obtain ⟨rfl, rfl⟩ := h
    simp [dotToks]
  · rename_i a b c d
    simp only [escapedDot, Bool.and_eq_true, Bool.or_eq_true, beq_iff_eq] at h
    rcases h with ⟨rfl, ⟨rfl, rfl⟩, h3⟩ | ⟨⟨⟨rfl, rfl⟩, h3⟩, rfl⟩
    · simp [dotToks, h3]
    · simp [dotToks, h3]
  · rename_i a b c d e f
    simp only [escapedDot, Bool.and_eq_true, beq_iff_eq] at h
    obtain ⟨⟨⟨rfl, rfl⟩, h3⟩, ⟨rfl, rfl⟩, h6⟩ := h
    simp [dotToks, h3, h6]
  · exact absurd h (by simp)

/-- the path encoder does not turn a segment into a dot segment -/
theorem enc_not_dot (seg : List Nat) (h1 : singleDot seg = false) (h2 : doubleDot seg = false) :
    singleDot (percentEncode pathNoEnc seg) = false ∧ doubleDot (percentEncode pathNoEnc seg) = false := by
  constructor
  · cases h : singleDot (percentEncode pathNoEnc seg) with
    | false => rfl
    | true =>
      have := enc_dotToks _ seg (singleDot_toks _ h) rfl
      rw [← this, h1] at h; exact absurd h (by simp)
  · cases h : doubleDot (percentEncode pathNoEnc seg) with
    | false => rfl
    | true =>
      have := enc_dotToks _ seg (doubleDot_toks _ h) rfl
      rw [← this, h2] at h; exact absurd h (by simp)

/-- the encoded segment is a normal-form segment -/
theorem segOk_enc_seg (sp : Bool) (seg : List Nat) (h2f : ∀ c ∈ seg, c ≠ 0x2F)
    (h5c : sp = true → ∀ c ∈ seg, c ≠ 0x5C) (h1 : singleDot seg = false) (h2 : doubleDot seg = false) :
    segOk sp (percentEncode pathNoEnc seg) = true := by
  obtain ⟨a, b⟩ := enc_not_dot seg h1 h2
  simp only [segOk, Bool.and_eq_true, List.all_eq_true, Bool.not_eq_true']
  exact ⟨⟨seg_chars sp seg h2f h5c, a⟩, b⟩

/-! ## Part B: host stability -/

theorem toLower_beq (c k : Nat) (hk : k < 0x41 ∨ (0x5A < k ∧ k < 0x61) ∨ 0x7A < k) :
    (toLower c == k) = (c == k) := by
  unfold toLower
  split
  · have h1 : ¬ (c + 0x20 = k) := by omega
    have h2 : ¬ (c = k) := by omega
    rw [beq_eq_false_iff_ne.2 h1, beq_eq_false_iff_ne.2 h2]
  · rfl

theorem toLower_eq_iff (c k : Nat) (hk : k < 0x41 ∨ (0x5A < k ∧ k < 0x61) ∨ 0x7A < k) :
    toLower c = k ↔ c = k := by
  have := toLower_beq c k hk
  constructor
  · intro h; rw [h] at this; simpa using this.symm
  · intro h; subst h; simpa using this

theorem isDigit_toLower (c : Nat) : isDigit (toLower c) = isDigit c := by
  unfold toLower
  split
  · rename_i h
    have a : isDigit (c + 0x20) = false := by simp [isDigit]; omega
    have b : isDigit c = false := by simp [isDigit]; omega
    rw [a, b]
  · rfl

theorem isHex_toLower (c : Nat) : isHex (toLower c) = isHex c := by
  unfold toLower
  split
  · rename_i h
    have : c < 128 := by omega
    have tbl : ∀ c, c < 128 → 0x41 ≤ c ∧ c ≤ 0x5A → isHex (c + 0x20) = isHex c := by decide +kernel
    exact tbl c this h
  · rfl

theorem implLabelCheck_one (a : Nat) : Ipv4.implLabelCheck [a] = isDigit a := by
  unfold Ipv4.implLabelCheck
  simp only [List.length_cons, List.length_nil]
  split
  · omega
  · simp

theorem implLabelCheck_two (a x : Nat) (rest : List Nat) :
    Ipv4.implLabelCheck (a :: x :: rest) =
      if a = 0x30 ∧ (x = 0x58 ∨ x = 0x78) then rest.all isHex else (a :: x :: rest).all isDigit := by
  unfold Ipv4.implLabelCheck
  simp only [List.length_cons]
  split
  · omega
  · split
    · rename_i h
      simp only [List.cons.injEq] at h
      obtain ⟨rfl, rfl, rfl⟩ := h
      simp
    · rename_i h
      split
      · rename_i hc
        exact (h x rest (by rw [hc.1])).elim
      · rfl

theorem implLabelCheck_map (l : List Nat) :
    Ipv4.implLabelCheck (l.map toLower) = Ipv4.implLabelCheck l := by
  have hall : ∀ l : List Nat, (l.map toLower).all isDigit = l.all isDigit := by
    intro l; rw [List.all_map]; congr 1; funext c; exact isDigit_toLower c
  have hallx : ∀ l : List Nat, (l.map toLower).all isHex = l.all isHex := by
    intro l; rw [List.all_map]; congr 1; funext c; exact isHex_toLower c
  rcases l with _ | ⟨a, _ | ⟨x, rest⟩⟩
  · rfl
  · simp only [List.map_cons, List.map_nil, implLabelCheck_one, isDigit_toLower]
  · have h := hall (a :: x :: rest)
    simp only [List.map_cons] at h ⊢
    rw [implLabelCheck_two, implLabelCheck_two, hallx, h]
    have h0 := toLower_eq_iff a 0x30 (by omega)
    have hx : (toLower x = 0x58 ∨ toLower x = 0x78) ↔ (x = 0x58 ∨ x = 0x78) := by
      unfold toLower; split <;> omega
    have hc : (toLower a = 0x30 ∧ (toLower x = 0x58 ∨ toLower x = 0x78)) ↔
        (a = 0x30 ∧ (x = 0x58 ∨ x = 0x78)) := by rw [h0, hx]
    by_cases hh : a = 0x30 ∧ (x = 0x58 ∨ x = 0x78)
    · rw [if_pos hh, if_pos (hc.2 hh)]
    · rw [if_neg hh, if_neg (fun h => hh (hc.1 h))]

theorem takeWhile_congr' {p q : Nat → Bool} (h : ∀ c, p c = q c) (l : List Nat) :
    l.takeWhile p = l.takeWhile q := by
  have : p = q := funext h
  rw [this]

theorem lastLabel_map (t : List Nat) : Ipv4.lastLabel (t.map toLower) = (Ipv4.lastLabel t).map toLower := by
  unfold Ipv4.lastLabel
  rw [← List.map_reverse, List.takeWhile_map, List.map_reverse]
  congr 2
  apply takeWhile_congr'
  intro c
  simp only [Function.comp, bne, toLower_beq c 0x2E (by omega)]

theorem endsInNumber_map (s : List Nat) : endsInNumber (s.map toLower) = endsInNumber s := by
  rw [Ipv4.impl_endsInNumber_eq, Ipv4.impl_endsInNumber_eq]
  by_cases hs : s = []
  · subst hs; rfl
  · have hs' : s.map toLower ≠ [] := by simpa using hs
    rw [if_neg hs, if_neg hs']
    have hl : ((s.map toLower).getLast? = some 0x2E) ↔ (s.getLast? = some 0x2E) := by
      rw [List.getLast?_map]
      cases s.getLast? with
      | none => simp
      | some c => simp [toLower_eq_iff c 0x2E (by omega)]
    by_cases hd : s.getLast? = some 0x2E
    · rw [if_pos hd, if_pos (hl.2 hd), ← List.map_dropLast, lastLabel_map, implLabelCheck_map]
    · rw [if_neg hd, if_neg (fun h => hd (hl.1 h)), lastLabel_map, implLabelCheck_map]

theorem toLower_or20 (a : Nat) : toLower a ||| 0x20 = a ||| 0x20 := by
  unfold toLower
  split
  · rename_i h
    have tbl : ∀ a, a < 128 → 0x41 ≤ a ∧ a ≤ 0x5A → (a + 0x20) ||| 0x20 = a ||| 0x20 := by decide +kernel
    exact tbl a (by omega) h
  · rfl

theorem hasXnAt_map (s : List Nat) : hasXnAt (s.map toLower) = hasXnAt s := by
  rcases s with _ | ⟨a, _ | ⟨b, _ | ⟨c, _ | ⟨d, r⟩⟩⟩⟩ <;> try rfl
  simp only [List.map_cons, hasXnAt, toLower_or20, toLower_beq c 0x2D (by omega),
    toLower_beq d 0x2D (by omega)]

theorem hasXnAfterDot_map (s : List Nat) : hasXnAfterDot (s.map toLower) = hasXnAfterDot s := by
  induction s with
  | nil => rfl
  | cons c r ih =>
    simp only [List.map_cons, hasXnAfterDot, hasXnAt_map, ih, toLower_beq c 0x2E (by omega)]

theorem hasXnLabel_map (s : List Nat) : hasXnLabel (s.map toLower) = hasXnLabel s := by
  unfold hasXnLabel; rw [hasXnAt_map, hasXnAfterDot_map]


/-- What the stability of parsed hosts needs of the IDNA parameter (`domain_to_ascii`, UTS #46 ToASCII
    through ICU).  Nothing is assumed about inputs the function was not produced from. -/
structure IdnaStable (idna : Idna) : Prop where
  /-- The output is not empty, pure ASCII and has no upper-case letter (the hypothesis of C08,
      `IdnaCanon`).  Such an output without `xn--` label is re-parsed by the host parser's fast path,
      which never calls the IDNA function: lower-case ASCII domain characters map to themselves, and
      the forbidden-domain check and the ends-in-a-number routing were done on the very same string in
      the first pass. -/
  out_ascii : ∀ s r, idna s = some r → r ≠ [] ∧ ∀ c ∈ r, c < 0x80 ∧ isUpperAlpha c = false
  /-- Idempotence on the function's own outputs, needed only where the host parser calls the function
      again on re-parsing and keeps the result as a domain: the output has a label starting with `xn--`
      (`util::has_xn_label`, so the fast path is not taken), contains no forbidden domain code point and
      does not end in a number (otherwise the first pass would have failed or produced an IPv4 address).
      UTS #46: an A-label that ToASCII produced is decoded, validated and re-encoded to itself. -/
  idem : ∀ s r, idna s = some r → (∀ c ∈ r, Spec.forbiddenDomain c = false) →
    endsInNumber r = false → hasXnLabel r = true → idna r = some r

theorem IdnaStable.canon {idna : Idna} (h : IdnaStable idna) : C08.IdnaCanon idna := ⟨h.out_ascii⟩

theorem dropWhile_all_nil {p : Nat → Bool} {l : List Nat} (h : ∀ c ∈ l, p c = true) :
    l.dropWhile p = [] := by
  induction l with
  | nil => rfl
  | cons a l ih =>
    rw [List.dropWhile_cons, if_pos (h a List.mem_cons_self)]
    exact ih (fun c hc => h c (List.mem_cons_of_mem _ hc))

theorem fastPath_all (t : List Nat) (hall : ∀ c ∈ t, Spec.asciiDomainChar c = true) :
    C08.fastPath t =
      if !hasXnLabel t then
        some (if endsInNumber t then hostParseIpv4 t else some { kind := .domain, text := t.map toLower })
      else none := by
  unfold C08.fastPath
  rw [dropWhile_all_nil hall]

theorem asciiDomain_not_bracket {c : Nat} (h : Spec.asciiDomainChar c = true) : c ≠ 0x5B := by
  intro hc; subst hc; exact absurd h (by decide)

/-- a non-empty string of ASCII domain characters: the domain branch of the host parser -/
theorem parseHost_domain_all (idna : Idna) (t : List Nat) (hne : t ≠ [])
    (hall : ∀ c ∈ t, Spec.asciiDomainChar c = true) :
    parseHost idna t false =
      match C08.fastPath t with
      | some x => x
      | none => C08.idnaPath idna t := by
  cases t with
  | nil => exact absurd rfl hne
  | cons c0 r => exact C08.parseHost_domain idna c0 r (asciiDomain_not_bracket (hall c0 List.mem_cons_self))

theorem map_toLower_id (t : List Nat) (h : ∀ c ∈ t, isUpperAlpha c = false) : t.map toLower = t := by
  induction t with
  | nil => rfl
  | cons a t ih =>
    have ha := h a List.mem_cons_self
    have : toLower a = a := by
      unfold toLower
      simp only [isUpperAlpha, Bool.and_eq_false_iff, decide_eq_false_iff_not] at ha
      split
      · omega
      · rfl
    rw [List.map_cons, this, ih (fun c hc => h c (List.mem_cons_of_mem _ hc))]

/-- lower-case ASCII domain characters without `xn--` label, not ending in a number: re-parsed by the
    fast path as the same domain -/
theorem stable_plain (idna : Idna) (t : List Nat) (hne : t ≠ [])
    (hall : ∀ c ∈ t, Spec.asciiDomainChar c = true) (hlow : ∀ c ∈ t, isUpperAlpha c = false)
    (hxn : hasXnLabel t = false) (hen : endsInNumber t = false) :
    parseHost idna t false = some { kind := .domain, text := t } := by
  rw [parseHost_domain_all idna t hne hall, fastPath_all t hall, hxn, hen]
  simp only [Bool.not_false, if_true, Bool.false_eq_true, if_false]
  rw [map_toLower_id t hlow]

theorem percentDecode_plain (t : List Nat) (h : ∀ c ∈ t, c < 0x80 ∧ c ≠ 0x25) : percentDecode t = t := by
  unfold percentDecode
  induction t with
  | nil => exact C14.aux_none_nil
  | cons c r ih =>
    have hc := h c List.mem_cons_self
    rw [C14.aux_none_other c r hc.2, C14.encodeUtf8Char_ascii c hc.1,
      ih (fun x hx => h x (List.mem_cons_of_mem _ hx))]
    rfl

theorem encodeUtf16_plain (t : List Nat) (h : ∀ c ∈ t, c < 0x80) : encodeUtf16 t = t := by
  unfold encodeUtf16
  induction t with
  | nil => rfl
  | cons c r ih =>
    have hc := h c List.mem_cons_self
    have : encodeUtf16Char c = [c] := by unfold encodeUtf16Char; rw [if_pos (by omega)]
    rw [List.flatMap_cons, this, ih (fun x hx => h x (List.mem_cons_of_mem _ hx))]
    rfl

theorem idnaInput_plain (t : List Nat) (h : ∀ c ∈ t, c < 0x80 ∧ c ≠ 0x25) :
    encodeUtf16 (decode .u8 (percentDecode t)) = t := by
  rw [percentDecode_plain t h, decode_ascii t (fun c hc => (h c hc).1),
    encodeUtf16_plain t (fun c hc => (h c hc).1)]

theorem not_forbidden_ascii : ∀ c, c < 128 → Spec.forbiddenDomain c = false →
    Spec.asciiDomainChar c = true ∧ c ≠ 0x25 := by decide +kernel

/-- an `xn--` output of the IDNA function is re-parsed through the IDNA function -/
theorem stable_xn (idna : Idna) (t : List Nat) (hne : t ≠ []) (hascii : ∀ c ∈ t, c < 0x80)
    (hforb : ∀ c ∈ t, Spec.forbiddenDomain c = false) (hxn : hasXnLabel t = true)
    (hen : endsInNumber t = false) (hid : idna t = some t) :
    parseHost idna t false = some { kind := .domain, text := t } := by
  have hall : ∀ c ∈ t, Spec.asciiDomainChar c = true :=
    fun c hc => (not_forbidden_ascii c (hascii c hc) (hforb c hc)).1
  rw [parseHost_domain_all idna t hne hall, fastPath_all t hall, hxn]
  simp only [Bool.not_true, Bool.false_eq_true, if_false]
  unfold C08.idnaPath
  rw [idnaInput_plain t (fun c hc => ⟨hascii c hc, (not_forbidden_ascii c (hascii c hc) (hforb c hc)).2⟩), hid]
  have hany : t.any Spec.forbiddenDomain = false := by
    rw [List.any_eq_false]; intro c hc; simp [hforb c hc]
  simp only [hany, Bool.false_eq_true, if_false, hen]

/-! ### IPv4 -/

theorem hasXnAt_x {s : List Nat} (h : hasXnAt s = true) : ∃ c ∈ s, (c ||| 0x20) = 0x78 := by
  rcases s with _ | ⟨a, _ | ⟨b, _ | ⟨c, _ | ⟨d, r⟩⟩⟩⟩ <;> simp [hasXnAt] at h
  exact ⟨a, List.mem_cons_self, h.1.1.1⟩

theorem hasXnAfterDot_x {s : List Nat} (h : hasXnAfterDot s = true) : ∃ c ∈ s, (c ||| 0x20) = 0x78 := by
  induction s with
  | nil => simp [hasXnAfterDot] at h
  | cons c r ih =>
    simp only [hasXnAfterDot, Bool.or_eq_true, Bool.and_eq_true] at h
    rcases h with ⟨_, h⟩ | h
    · obtain ⟨x, hx, hx2⟩ := hasXnAt_x h
      exact ⟨x, List.mem_cons_of_mem _ hx, hx2⟩
    · obtain ⟨x, hx, hx2⟩ := ih h
      exact ⟨x, List.mem_cons_of_mem _ hx, hx2⟩

theorem hasXnLabel_x {s : List Nat} (h : hasXnLabel s = true) : ∃ c ∈ s, (c ||| 0x20) = 0x78 := by
  simp only [hasXnLabel, Bool.or_eq_true] at h
  rcases h with h | h
  · exact hasXnAt_x h
  · exact hasXnAfterDot_x h

theorem v4Char_lt {c : Nat} (h : C08.v4Char c = true) : c < 128 := by
  simp [C08.v4Char, isDigit] at h; omega

theorem v4Char_tbl : ∀ c, c < 128 → C08.v4Char c = true →
    Spec.asciiDomainChar c = true ∧ (c ||| 0x20) ≠ 0x78 := by decide +kernel

theorem endsInNumber_dotDigits (X D : List Nat) (hne : D ≠ []) (hd : ∀ c ∈ D, isDigit c = true) :
    endsInNumber (X ++ 0x2E :: D) = true := by
  have hdig : ∀ c ∈ D, c ≠ 0x2E := by
    intro c hc h; subst h; exact absurd (hd _ hc) (by decide)
  rw [Ipv4.impl_endsInNumber_eq, if_neg (by simp)]
  have hlast : (X ++ 0x2E :: D).getLast? ≠ some 0x2E := by
    intro h
    have : (X ++ 0x2E :: D).getLast? = D.getLast? := by
      cases D with
      | nil => exact absurd rfl hne
      | cons d D' =>
        obtain ⟨z, hz⟩ : ∃ z, (d :: D').getLast? = some z := ⟨_, List.getLast?_cons⟩
        rw [List.getLast?_append, List.getLast?_cons_cons, hz]; rfl
    rw [this] at h
    exact hdig _ (List.mem_of_getLast? h) rfl
  rw [if_neg hlast]
  have hlab : Ipv4.lastLabel (X ++ 0x2E :: D) = D := by
    unfold Ipv4.lastLabel
    have : (X ++ 0x2E :: D).reverse = D.reverse ++ (0x2E :: X.reverse) := by simp
    rw [this, takeWhile_scan _ D.reverse (0x2E :: X.reverse)
      (fun c hc => by simpa using hdig c (List.mem_reverse.1 hc)) (by simp [StopsAt]),
      List.reverse_reverse]
  rw [hlab]
  cases D with
  | nil => exact absurd rfl hne
  | cons a D' =>
    cases D' with
    | nil => rw [implLabelCheck_one]; exact hd a List.mem_cons_self
    | cons x rest =>
      rw [implLabelCheck_two, if_neg]
      · exact List.all_eq_true.2 hd
      · intro hc
        have hx := hd x (by simp)
        simp only [isDigit, Bool.and_eq_true, decide_eq_true_eq] at hx
        omega

theorem ipv4Serialize_shape (n : Nat) :
    ∃ X D, ipv4Serialize n = X ++ 0x2E :: D ∧ D ≠ [] ∧ ∀ c ∈ D, isDigit c = true := by
  rw [Ipv4.ipv4Serialize_eq]
  unfold Spec.ipv4Serialize
  exact ⟨toDecimal (n / 16777216 % 256) ++ [0x2E] ++ toDecimal (n / 65536 % 256) ++ [0x2E] ++
      toDecimal (n / 256 % 256), toDecimal (n % 256), by simp [List.append_assoc],
    Ipv4.toDecimal_ne_nil _, Ipv4.toDecimal_digits _⟩

theorem stable_ipv4 (idna : Idna) (n : Nat) (hn : n < 2 ^ 32) :
    parseHost idna (ipv4Serialize n) false = some { kind := .ipv4, text := ipv4Serialize n } := by
  have hch := C08.ipv4Serialize_chars n
  have hall : ∀ c ∈ ipv4Serialize n, Spec.asciiDomainChar c = true :=
    fun c hc => (v4Char_tbl c (v4Char_lt (hch c hc)) (hch c hc)).1
  have hxn : hasXnLabel (ipv4Serialize n) = false := by
    cases h : hasXnLabel (ipv4Serialize n) with
    | false => rfl
    | true =>
      obtain ⟨c, hc, hx⟩ := hasXnLabel_x h
      exact absurd hx (v4Char_tbl c (v4Char_lt (hch c hc)) (hch c hc)).2
  have hen : endsInNumber (ipv4Serialize n) = true := by
    obtain ⟨X, D, he, hne, hd⟩ := ipv4Serialize_shape n
    rw [he]; exact endsInNumber_dotDigits X D hne hd
  have hrt : ipv4Parse (ipv4Serialize n) = some n := by
    rw [Ipv4.ipv4Serialize_eq, Ipv4.ipv4Parse_eq]
    exact Ipv4.spec_roundtrip n hn
  rw [parseHost_domain_all idna _ (C08.ipv4Serialize_ne_nil n) hall, fastPath_all _ hall, hxn, hen]
  simp only [Bool.not_false, if_true]
  unfold hostParseIpv4
  rw [hrt]
  rfl

theorem hostParseIpv4_stable (idna : Idna) {s : List Nat} {h : Host} (hh : hostParseIpv4 s = some h) :
    h.text ≠ [] ∧ parseHost idna h.text false = some h := by
  unfold hostParseIpv4 at hh
  cases hp : ipv4Parse s with
  | none => rw [hp] at hh; simp at hh
  | some n =>
    rw [hp] at hh; simp only [Option.map_some, Option.some.injEq] at hh
    subst hh
    exact ⟨C08.ipv4Serialize_ne_nil n, stable_ipv4 idna n (Ipv4.ipv4Parse_lt s n hp)⟩

/-! ### IPv6 -/

theorem ipv6_roundtrip (a : List Nat) (h8 : a.length = 8) (hx : ∀ x ∈ a, x < 65536) :
    ipv6Parse (ipv6Serialize a) = some a := by
  rcases V6.serialize_form a h8 hx with ⟨h1, _⟩ | ⟨pre, len, post, ha, hlen, h1, _⟩
  · rw [h1]
    exact V6.parse_joinC a h8 hx
  · rw [h1]
    have hl : pre.length + len + post.length = 8 := by
      have := congrArg List.length ha
      simp at this; omega
    have hpre : ∀ x ∈ pre, x < 65536 := fun x h => hx x (by rw [ha]; simp [h])
    have hpost : ∀ x ∈ post, x < 65536 := fun x h => hx x (by rw [ha]; simp [h])
    rw [V6.parse_compressed pre post len hl hlen hpre hpost, ← ha]

theorem hostParseIpv6_stable (idna : Idna) (o : Bool) {s : List Nat} {h : Host}
    (hh : hostParseIpv6 s = some h) : h.text ≠ [] ∧ parseHost idna h.text o = some h := by
  unfold hostParseIpv6 at hh
  cases hp : ipv6Parse s with
  | none => rw [hp] at hh; simp at hh
  | some a =>
    rw [hp] at hh; simp only [Option.map_some, Option.some.injEq] at hh
    subst hh
    obtain ⟨h8, hx⟩ := V6.parse_good s a hp
    refine ⟨by simp, ?_⟩
    show parseHost idna ([0x5B] ++ ipv6Serialize a ++ [0x5D]) o = _
    have hl : ([0x5B] ++ ipv6Serialize a ++ [0x5D]).getLast? = some 0x5D := List.getLast?_concat
    have hd : (([0x5B] ++ ipv6Serialize a ++ [0x5D]).drop 1).dropLast = ipv6Serialize a := by
      simp
    have : [0x5B] ++ ipv6Serialize a ++ [0x5D] = 0x5B :: (ipv6Serialize a ++ [0x5D]) := by simp
    rw [this] at hl hd ⊢
    unfold parseHost
    simp only [if_true, hl, hd]
    unfold hostParseIpv6
    rw [ipv6_roundtrip a h8 hx]
    rfl

/-! ### opaque host -/

theorem opaqueHostChar_facts : ∀ c, c < 128 → C08.opaqueHostChar c = true →
    0x1F < c ∧ c < 0x7F ∧ Spec.forbiddenHost c = false ∧ c ≠ 0x5B := by decide +kernel

theorem opaqueHostChar_lt {c : Nat} (h : C08.opaqueHostChar c = true) : c < 128 := by
  simp [C08.opaqueHostChar, isPrintable] at h; omega

theorem parseOpaqueHost_stable (idna : Idna) {s : List Nat} {h : Host} (hne : s ≠ [])
    (hh : parseOpaqueHost s = some h) : h.text ≠ [] ∧ parseHost idna h.text true = some h := by
  have hnet := (C08.hostOk_opaque hh).2 hne
  unfold parseOpaqueHost at hh
  split at hh
  · simp at hh
  · rename_i hany
    simp only [Option.some.injEq] at hh
    subst hh
    have hs : ∀ c ∈ s, Spec.forbiddenHost c = false := by
      intro c hc
      cases hf : Spec.forbiddenHost c with
      | false => rfl
      | true => exact absurd (List.any_eq_true.2 ⟨c, hc, hf⟩) hany
    have hall := List.all_eq_true.1 (C08.opaqueHost_all s hs)
    have hfacts : ∀ c ∈ percentEncodeC0 s,
        0x1F < c ∧ c < 0x7F ∧ Spec.forbiddenHost c = false ∧ c ≠ 0x5B :=
      fun c hc => opaqueHostChar_facts c (opaqueHostChar_lt (hall c hc)) (hall c hc)
    refine ⟨hnet, ?_⟩
    dsimp only at hnet ⊢
    rw [if_neg hnet]
    generalize ht : percentEncodeC0 s = t at hnet hfacts ⊢
    cases t with
    | nil => exact absurd rfl hnet
    | cons t0 tr =>
      unfold parseHost
      simp only [if_neg (hfacts t0 List.mem_cons_self).2.2.2, if_true]
      unfold parseOpaqueHost
      have hany' : (t0 :: tr).any Spec.forbiddenHost = false := by
        rw [List.any_eq_false]; intro c hc; simp [(hfacts c hc).2.2.1]
      rw [if_neg (by simp [hany'])]
      rw [percentEncodeC0_keeps (t0 :: tr) (fun c hc => ⟨(hfacts c hc).1, (hfacts c hc).2.1⟩)]
      simp

/-! ### every host the host parser returns is stable -/

theorem hostStable_of {idna : Idna} {sp : Bool} {h : Host}
    (hs : h.text ≠ [] ∧ parseHost idna h.text (!sp) = some h) : HostStable idna sp h := by
  unfold HostStable
  rw [if_neg hs.1]; exact hs.2

theorem toLower_tbl2 : ∀ c, c < 128 → Spec.asciiDomainChar c = true →
    Spec.asciiDomainChar (toLower c) = true ∧ isUpperAlpha (toLower c) = false := by decide +kernel

theorem host_stable (idna : Idna) (hi : IdnaStable idna) (s : List Nat) (o : Bool) (h : Host)
    (hh : parseHost idna s o = some h) : HostStable idna (!o) h := by
  cases s with
  | nil =>
    simp only [parseHost] at hh
    split at hh
    · simp only [Option.some.injEq] at hh; subst hh
      unfold HostStable; rw [if_pos rfl]; rfl
    · simp at hh
  | cons c0 r =>
    apply hostStable_of
    rw [Bool.not_not]
    by_cases hb : c0 = 0x5B
    · unfold parseHost at hh
      simp only [if_pos hb] at hh
      split at hh
      · exact hostParseIpv6_stable idna o hh
      · simp at hh
    · cases o with
      | true =>
        unfold parseHost at hh
        simp only [if_neg hb, if_true] at hh
        exact parseOpaqueHost_stable idna (by simp) hh
      | false =>
        rw [C08.parseHost_domain idna c0 r hb] at hh
        split at hh
        · rename_i x hf
          unfold C08.fastPath at hf
          split at hf
          · rename_i htail
            have hall := C08.dropWhile_nil_all htail
            split at hf
            · rename_i hxn
              simp only [Option.some.injEq] at hf
              subst hf
              split at hh
              · exact hostParseIpv4_stable idna hh
              · rename_i hen
                simp only [Option.some.injEq] at hh; subst hh
                have hall' : ∀ c ∈ (c0 :: r).map toLower,
                    Spec.asciiDomainChar c = true ∧ isUpperAlpha c = false := by
                  intro c hc
                  obtain ⟨d, hd, rfl⟩ := List.mem_map.1 hc
                  exact toLower_tbl2 d (C08.asciiDomainChar_lt d (hall d hd)) (hall d hd)
                refine ⟨by simp, ?_⟩
                exact stable_plain idna _ (by simp) (fun c hc => (hall' c hc).1)
                  (fun c hc => (hall' c hc).2)
                  (by rw [hasXnLabel_map]; simpa using hxn)
                  (by rw [endsInNumber_map]; simpa using hen)
            · simp at hf
          · split at hf
            · have hx' : x = none := by
                split at hf <;> split at hf <;>
                  first | exact (Option.some.inj hf).symm | exact absurd hf (by simp)
              rw [hx'] at hh; simp at hh
            · exact absurd hf (by simp)
        · unfold C08.idnaPath at hh
          split at hh
          · simp at hh
          · rename_i ascii hid
            obtain ⟨hne, hasc⟩ := hi.out_ascii _ _ hid
            split at hh
            · simp at hh
            · rename_i hany
              have hforb : ∀ c ∈ ascii, Spec.forbiddenDomain c = false := by
                intro c hc
                cases hf : Spec.forbiddenDomain c with
                | false => rfl
                | true => exact absurd (List.any_eq_true.2 ⟨c, hc, hf⟩) hany
              split at hh
              · exact hostParseIpv4_stable idna hh
              · rename_i hen
                simp only [Option.some.injEq] at hh; subst hh
                refine ⟨hne, ?_⟩
                have hen' : endsInNumber ascii = false := by simpa using hen
                cases hxn : hasXnLabel ascii with
                | true =>
                  exact stable_xn idna ascii hne (fun c hc => (hasc c hc).1) hforb hxn hen'
                    (hi.idem _ _ hid hforb hen' hxn)
                | false =>
                  exact stable_plain idna ascii hne
                    (fun c hc => (not_forbidden_ascii c (hasc c hc).1 (hforb c hc)).1)
                    (fun c hc => (hasc c hc).2) hxn hen'

/-! ### the text of a canonical host has no delimiter -/

/-- host text element of a domain / IPv4 / opaque host -/
def plainChar (c : Nat) : Bool := hostCharOk true c && c != 0x7C && c != 0x3A && notBracket c

theorem dom_plain : ∀ c, c < 128 → Spec.forbiddenDomain c = false → plainChar c = true := by decide +kernel
theorem v4_plain : ∀ c, c < 128 → C08.v4Char c = true → plainChar c = true := by decide +kernel
theorem opq_plain : ∀ c, c < 128 → C08.opaqueHostChar c = true → plainChar c = true := by decide +kernel
theorem v6_tbl : ∀ c, c < 128 → C08.v6Char c = true →
    hostCharOk true c = true ∧ c ≠ 0x7C ∧ notBracket c = true := by decide +kernel

theorem v6Char_lt {c : Nat} (h : C08.v6Char c = true) : c < 128 := by
  simp [C08.v6Char, isDigit] at h; omega

/-- no delimiter, no `|`, and `hostScan` finds no port colon -/
def HostChars (t : List Nat) : Prop :=
  (∀ c ∈ t, hostCharOk true c = true ∧ c ≠ 0x7C) ∧ hostColonOk t = true

theorem hostChars_plain {t : List Nat} (h : ∀ c ∈ t, plainChar c = true) : HostChars t := by
  have hf : ∀ c ∈ t, hostCharOk true c = true ∧ c ≠ 0x7C ∧ c ≠ 0x3A ∧ notBracket c = true := by
    intro c hc
    have := h c hc
    simpa only [plainChar, Bool.and_eq_true, bne_iff_ne, ne_eq, and_assoc] using this
  refine ⟨fun c hc => ⟨(hf c hc).1, (hf c hc).2.1⟩, ?_⟩
  cases t with
  | nil => rfl
  | cons c r =>
    have hc := hf c List.mem_cons_self
    have : c ≠ 0x5B := by
      have := hc.2.2.2; rw [notBracket_iff] at this; exact this.1
    simp only [hostColonOk, if_neg this]
    rw [List.all_eq_true]
    intro x hx
    have := hf x hx
    simp [this.2.2.1, this.2.2.2]

theorem hostChars_of_hostOk (h : Host) (hok : hostOk h = true) : HostChars h.text := by
  unfold hostOk at hok
  split at hok
  · have : h.text = [] := by simpa using hok
    rw [this]; exact ⟨by simp, rfl⟩
  · simp only [Bool.and_eq_true, List.all_eq_true, Bool.not_eq_true', decide_eq_true_eq] at hok
    exact hostChars_plain (fun c hc => dom_plain c (hok.2 c hc).2 (hok.2 c hc).1.1)
  · simp only [Bool.and_eq_true, List.all_eq_true] at hok
    exact hostChars_plain (fun c hc => v4_plain c (v4Char_lt (hok.2 c hc)) (hok.2 c hc))
  · simp only [Bool.and_eq_true, beq_iff_eq, List.all_eq_true] at hok
    obtain ⟨⟨hhead, hlast⟩, hmid⟩ := hok
    have hmid' : ∀ c ∈ (h.text.drop 1).dropLast, C08.v6Char c = true := hmid
    generalize h.text = t at hhead hlast hmid'
    cases t with
    | nil => simp at hhead
    | cons c0 r =>
      simp only [List.head?_cons, Option.some.injEq] at hhead
      subst hhead
      simp only [List.drop_one, List.tail_cons] at hmid'
      cases r with
      | nil => simp at hlast
      | cons r0 rr =>
        rw [List.getLast?_cons_cons] at hlast
        obtain ⟨m, hm⟩ := List.getLast?_eq_some_iff.1 hlast
        rw [hm, List.dropLast_concat] at hmid'
        rw [hm]
        have hv : ∀ c ∈ m, hostCharOk true c = true ∧ c ≠ 0x7C ∧ notBracket c = true :=
          fun c hc => v6_tbl c (v6Char_lt (hmid' c hc)) (hmid' c hc)
        constructor
        · intro c hc
          simp only [List.mem_cons, List.mem_append, List.not_mem_nil, or_false] at hc
          rcases hc with rfl | hc | rfl
          · decide
          · exact ⟨(hv c hc).1, (hv c hc).2.1⟩
          · decide
        · simp only [hostColonOk, if_true]
          rw [List.getLast?_concat, List.dropLast_concat]
          simp only [beq_self_eq_true, Bool.true_and, List.all_eq_true]
          exact fun c hc => (hv c hc).2.2
  · simp only [Bool.and_eq_true, List.all_eq_true] at hok
    have hq : ∀ c ∈ h.text, C08.opaqueHostChar c = true := by
      intro c hc; simpa [C08.opaqueHostChar] using hok.2 c hc
    exact hostChars_plain (fun c hc => opq_plain c (opaqueHostChar_lt (hq c hc)) (hq c hc))

/-- host text without the file-only clause of `hostTextOk` -/
def hostTextOk0 (sp : Bool) (t : List Nat) : Bool := t.all (hostCharOk sp) && hostColonOk t

theorem hostTextOk_eq (sp file : Bool) (t : List Nat) :
    hostTextOk sp file t = (hostTextOk0 sp t && (!file || hostFileOk t)) := rfl

theorem hostCharOk_weaken {sp : Bool} {c : Nat} (h : hostCharOk true c = true) : hostCharOk sp c = true := by
  cases sp
  · simp only [hostCharOk, Bool.and_eq_true, decide_eq_true_eq, bne_iff_ne, ne_eq, Bool.true_and,
      Bool.not_eq_true', beq_eq_false_iff_ne, Bool.false_and, Bool.not_false, and_true] at h ⊢
    exact h.1
  · exact h

theorem HostChars.textOk {t : List Nat} (h : HostChars t) (sp : Bool) : hostTextOk0 sp t = true := by
  simp only [hostTextOk0, Bool.and_eq_true, List.all_eq_true]
  exact ⟨fun c hc => hostCharOk_weaken (h.1 c hc).1, h.2⟩

theorem HostChars.not_drive {t : List Nat} (h : HostChars t) : C08.isDrive2 t = false := by
  rcases t with _ | ⟨a, _ | ⟨b, _ | ⟨c, r⟩⟩⟩ <;> try rfl
  show isWindowsDrive a b = false
  cases hd : isWindowsDrive a b with
  | false => rfl
  | true =>
    exfalso
    simp only [isWindowsDrive, Bool.and_eq_true, Bool.or_eq_true, beq_iff_eq] at hd
    obtain ⟨ha, hb⟩ := hd
    have h2 := h.2
    have : a ≠ 0x5B := by
      intro hh; subst hh; exact absurd ha (by decide)
    simp only [hostColonOk, if_neg this] at h2
    rcases hb with rfl | rfl
    · simp at h2
    · exact (h.1 0x7C (by simp)).2 rfl



/-! ## Part C: the normal form in four parts, one lemma per parser block -/

/-- host: text without delimiters, reproduced by the host parser -/
def HostN (idna : Idna) (sp : Bool) (h : Host) : Prop :=
  hostTextOk0 sp h.text = true ∧ HostStable idna sp h

/-- scheme, credentials, host, port.  `st` switches the file-only clause (host text is not
    `localhost` / a drive letter), which the protocol setter does not maintain. -/
structure AuthN (idna : Idna) (st : Bool) (u : Url) : Prop where
  scheme : C02.schemeOk u.scheme = true
  port : portOk u.scheme u.port = true
  spHost : u.isSpecial = true → u.isFile = false → ∃ h, u.host = some h ∧ h.text ≠ []
  noCred : (u.hostText = [] ∨ u.isFile = true) → u.username = [] ∧ u.password = [] ∧ u.port = none
  fileHost : u.isFile = true → ∃ h, u.host = some h
  user : C02.userinfoOk u.username = true
  pass : C02.userinfoOk u.password = true
  host : ∀ h, u.host = some h → HostN idna u.isSpecial h
  hostFile : st = true → u.isFile = true → ∀ h, u.host = some h → hostFileOk h.text = true

/-- the path of a finished URL.  `st` switches the file-only clause `driveOk`. -/
structure PathN (st : Bool) (u : Url) : Prop where
  sp : u.isSpecial = true → u.hasOpaquePath = false ∧ u.path ≠ []
  opq : u.hasOpaquePath = true → u.host = none ∧ u.path = [] ∧
    (∀ c ∈ u.opaquePath, opaqueCharOk c = true) ∧ u.opaquePath.head? ≠ some 0x2F ∧
    (u.query = none → u.fragment = none → u.opaquePath.getLast? ≠ some 0x20)
  lst : u.hasOpaquePath = false → u.opaquePath = [] ∧ (∀ seg ∈ u.path, segOk u.isSpecial seg = true) ∧
    (u.isSpecial = false → u.host = none → u.path ≠ [])
  drive : st = true → u.isFile = true → driveOk u.path = true

def QueryN (u : Url) : Prop := qOk u.isSpecial u.query = true
def FragN (u : Url) : Prop := fOk u.fragment = true

/-- all four parts -/
def All (idna : Idna) (st : Bool) (u : Url) : Prop := AuthN idna st u ∧ PathN st u ∧ QueryN u ∧ FragN u

variable {idna : Idna} {st : Bool}

theorem AuthN.congr {u v : Url} (h : AuthN idna st u) (hs : v.scheme = u.scheme)
    (hu : v.username = u.username) (hp : v.password = u.password) (hh : v.host = u.host)
    (hpt : v.port = u.port) : AuthN idna st v := by
  cases u; cases v
  simp only at hs hu hp hh hpt
  subst hs hu hp hh hpt
  exact ⟨h.1, h.2, h.3, h.4, h.5, h.6, h.7, h.8, h.9⟩

theorem PathN.congr {u v : Url} (h : PathN st u) (hs : v.scheme = u.scheme) (hh : v.host = u.host)
    (h1 : v.hasOpaquePath = u.hasOpaquePath) (h2 : v.opaquePath = u.opaquePath) (h3 : v.path = u.path)
    (hqf : v.query = none → v.fragment = none → u.query = none ∧ u.fragment = none) : PathN st v := by
  cases u; cases v
  simp only at hs hh h1 h2 h3 hqf
  subst hs hh h1 h2 h3
  exact ⟨h.sp, fun ho => ⟨(h.opq ho).1, (h.opq ho).2.1, (h.opq ho).2.2.1, (h.opq ho).2.2.2.1,
    fun a b => (h.opq ho).2.2.2.2 (hqf a b).1 (hqf a b).2⟩, h.lst, h.drive⟩

theorem QueryN.congr {u v : Url} (h : QueryN u) (hs : v.scheme = u.scheme)
    (h1 : v.query = u.query) : QueryN v := by
  cases u; cases v
  simp only at hs h1
  subst hs h1
  exact h

theorem FragN.congr {u v : Url} (h : FragN u) (h1 : v.fragment = u.fragment) : FragN v := by
  cases u; cases v
  simp only at h1
  subst h1
  exact h

/-- `PathN` without the clause about the trailing space of an opaque path -/
def PathW (st : Bool) (u : Url) : Prop := PathN st { u with query := some [] }

theorem PathN.toW {u : Url} (h : PathN st u) : PathW st u :=
  h.congr rfl rfl rfl rfl rfl (fun hq => by simp at hq)

theorem PathW.toN {u v : Url} (h : PathW st u) (hs : v.scheme = u.scheme) (hh : v.host = u.host)
    (h1 : v.hasOpaquePath = u.hasOpaquePath) (h2 : v.opaquePath = u.opaquePath) (h3 : v.path = u.path)
    (hqf : v.query ≠ none ∨ v.fragment ≠ none) : PathN st v :=
  PathN.congr (u := { u with query := some [] }) h hs hh h1 h2 h3
    (fun a b => by rcases hqf with hq | hq <;> contradiction)

theorem PathW.congr {u v : Url} (h : PathW st u) (hs : v.scheme = u.scheme) (hh : v.host = u.host)
    (h1 : v.hasOpaquePath = u.hasOpaquePath) (h2 : v.opaquePath = u.opaquePath) (h3 : v.path = u.path) :
    PathW st v :=
  PathN.congr (u := { u with query := some [] }) (v := { v with query := some [] }) h hs hh h1 h2 h3
    (fun a => by simp at a)

/-- a list path needs no trailing-space clause -/
theorem PathW.toN_list {u : Url} (h : PathW st u) (ho : u.hasOpaquePath = false) : PathN st u :=
  ⟨h.sp, fun hc => by rw [ho] at hc; exact absurd hc (by simp), h.lst, h.drive⟩

/-! ### `NormP` and the four parts -/

/-- `NormP` with the two file-only clauses switched by `st` (`st = true`: `NormP`) -/
structure NormPX (idna : Idna) (st : Bool) (u : Url) : Prop where
  scheme : C02.schemeOk u.scheme = true
  shape : ShapeP u
  user : C02.userinfoOk u.username = true
  pass : C02.userinfoOk u.password = true
  host : ∀ h, u.host = some h →
    hostTextOk u.isSpecial (st && u.isFile) h.text = true ∧ HostStable idna u.isSpecial h
  port : portOk u.scheme u.port = true
  segs : ∀ seg ∈ u.path, segOk u.isSpecial seg = true
  drive : st = true → u.isFile = true → driveOk u.path = true
  opq : u.hasOpaquePath = true →
    opaqueOk u.opaquePath (u.query.isNone && u.fragment.isNone) = true
  query : qOk u.isSpecial u.query = true
  frag : fOk u.fragment = true

theorem NormPX.ofNormP {u : Url} (h : NormP idna u) : NormPX idna true u :=
  ⟨h.scheme, h.shape, h.user, h.pass, h.host, h.port, h.segs, fun _ => h.drive, h.opq, h.query, h.frag⟩

theorem NormPX.toNormP {u : Url} (h : NormPX idna true u) : NormP idna u :=
  ⟨h.scheme, h.shape, h.user, h.pass, h.host, h.port, h.segs, h.drive rfl, h.opq, h.query, h.frag⟩

theorem normPX_of_all {u : Url} (h : All idna st u) : NormPX idna st u := by
  obtain ⟨ha, hp, hq, hf⟩ := h
  refine ⟨ha.scheme, ⟨?_, ?_, ?_, ?_, ?_, ?_⟩, ha.user, ha.pass, ?_, ha.port, ?_, hp.drive, ?_, hq, hf⟩
  · intro ho
    refine ⟨(hp.opq ho).1, (hp.opq ho).2.1, ?_⟩
    cases hs : u.isSpecial with
    | false => rfl
    | true => have := (hp.sp hs).1; rw [ho] at this; exact absurd this (by simp)
  · intro ho; exact (hp.lst ho).1
  · intro hs
    refine ⟨?_, (hp.sp hs).2⟩
    cases hf : u.isFile with
    | true => obtain ⟨h, hh⟩ := ha.fileHost hf; rw [hh]; simp
    | false => obtain ⟨h, hh, _⟩ := ha.spHost hs hf; rw [hh]; simp
  · intro hs hf
    obtain ⟨h, hh, hne⟩ := ha.spHost hs hf
    simpa [Url.hostText, hh] using hne
  · intro hc
    exact ha.noCred (by rcases hc with h | h; exact Or.inr h; exact Or.inl h)
  · intro hs hh ho
    exact (hp.lst ho).2.2 hs hh
  · intro h hh
    obtain ⟨h1, h2⟩ := ha.host h hh
    refine ⟨?_, h2⟩
    rw [hostTextOk_eq, h1, Bool.true_and]
    cases hst : st with
    | false => rfl
    | true =>
      cases hf : u.isFile with
      | false => rfl
      | true => simpa using ha.hostFile hst hf h hh
  · intro seg hseg
    cases ho : u.hasOpaquePath with
    | true => rw [(hp.opq ho).2.1] at hseg; simp at hseg
    | false => exact (hp.lst ho).2.1 seg hseg
  · intro ho
    obtain ⟨_, _, h3, h4, h5⟩ := hp.opq ho
    simp only [opaqueOk, Bool.and_eq_true, List.all_eq_true, bne_iff_ne, ne_eq, Bool.not_eq_true',
      Bool.and_eq_false_iff, beq_eq_false_iff_ne]
    refine ⟨⟨h3, h4⟩, ?_⟩
    cases hq' : u.query with
    | some q => left; left; rfl
    | none =>
      cases hf' : u.fragment with
      | some f => left; right; rfl
      | none => right; exact h5 hq' hf'

theorem all_of_normPX {u : Url} (h : NormPX idna st u) : All idna st u := by
  obtain ⟨s1, s2, s3, s4, s5, s6⟩ := h.shape
  refine ⟨⟨h.scheme, h.port, ?_, ?_, ?_, h.user, h.pass, ?_, ?_⟩, ⟨?_, ?_, ?_, h.drive⟩,
    h.query, h.frag⟩
  · intro hs hf
    cases hh : u.host with
    | none => exact absurd hh (s3 hs).1
    | some x =>
      refine ⟨x, rfl, ?_⟩
      have := s4 hs hf
      simpa [Url.hostText, hh] using this
  · intro hc
    exact s5 (by rcases hc with h | h; exact Or.inr h; exact Or.inl h)
  · intro hf
    have hs : u.isSpecial = true := C08.file_special hf
    cases hh : u.host with
    | none => exact absurd hh (s3 hs).1
    | some x => exact ⟨x, rfl⟩
  · intro x hx
    obtain ⟨h1, h2⟩ := h.host x hx
    rw [hostTextOk_eq, Bool.and_eq_true] at h1
    exact ⟨h1.1, h2⟩
  · intro hst hf x hx
    obtain ⟨h1, _⟩ := h.host x hx
    rw [hostTextOk_eq, Bool.and_eq_true, hf, hst] at h1
    simpa using h1.2
  · intro hs
    refine ⟨?_, (s3 hs).2⟩
    cases ho : u.hasOpaquePath with
    | false => rfl
    | true => have := (s1 ho).2.2; rw [hs] at this; exact absurd this (by simp)
  · intro ho
    have := h.opq ho
    simp only [opaqueOk, Bool.and_eq_true, List.all_eq_true, bne_iff_ne, ne_eq, Bool.not_eq_true',
      Bool.and_eq_false_iff, beq_eq_false_iff_ne] at this
    refine ⟨(s1 ho).1, (s1 ho).2.1, this.1.1, this.1.2, ?_⟩
    intro hq hf
    rcases this.2 with (h | h) | h
    · rw [hq] at h; simp at h
    · rw [hf] at h; simp at h
    · exact h
  · intro ho
    exact ⟨s2 ho, h.segs, fun hs hh => s6 hs hh ho⟩

theorem normP_of_all {u : Url} (h : All idna true u) : NormP idna u := (normPX_of_all h).toNormP
theorem all_of_normP {u : Url} (h : NormP idna u) : All idna true u := all_of_normPX (NormPX.ofNormP h)

/-! ### fragment, query, opaque path -/

theorem norm_fragmentState (u : Url) (p : List Nat) (ha : AuthN idna st u) (hp : PathW st u)
    (hq : QueryN u) : All idna st (fragmentState u p).url :=
  ⟨ha.congr rfl rfl rfl rfl rfl, hp.toN rfl rfl rfl rfl rfl (Or.inr (by simp [fragmentState])),
    hq.congr rfl rfl, fragment_fix p⟩

theorem queryN_set (u : Url) (q : List Nat) :
    QueryN { u with query := some (percentEncode (if u.isSpecial then specialQueryNoEnc else queryNoEnc) q) } :=
  query_fix u.isSpecial q

theorem norm_queryState (ov : Option Override) (u : Url) (p : List Nat) (ha : AuthN idna st u)
    (hp : PathW st u) (hf : FragN u) : All idna st (queryState ov u p).url := by
  unfold queryState
  dsimp only
  split
  · exact ⟨ha.congr rfl rfl rfl rfl rfl, hp.toN rfl rfl rfl rfl rfl (Or.inl (by simp)),
      queryN_set u _, hf.congr rfl⟩
  · exact norm_fragmentState _ _ (ha.congr rfl rfl rfl rfl rfl) (hp.congr rfl rfl rfl rfl rfl)
      (queryN_set u _)

theorem norm_afterPath (ov : Option Override) (u : Url) (rest : List Nat) (ha : AuthN idna st u)
    (hp : PathW st u) (hq : QueryN u) (hf : FragN u) (hnil : rest = [] → PathN st u) :
    All idna st (afterPath ov u rest).url := by
  unfold afterPath
  split
  · exact ⟨ha, hnil rfl, hq, hf⟩
  · split
    · exact norm_queryState ov u _ ha hp hf
    · exact norm_fragmentState u _ ha hp hq

theorem norm_afterPath' (ov : Option Override) (u : Url) (rest : List Nat) (h : All idna st u) :
    All idna st (afterPath ov u rest).url :=
  norm_afterPath ov u rest h.1 h.2.1.toW h.2.2.1 h.2.2.2 (fun _ => h.2.1)

/-! the C0-control encoder: alphabet, first and last element -/

theorem pct_opaque : ∀ c, c < 128 → C08.isPctChar c = true → opaqueCharOk c = true ∧ c ≠ 0x20 := by
  decide +kernel

theorem c0_chars (s : List Nat) (hs : ∀ c ∈ s, isQorH c = false) :
    ∀ x ∈ percentEncodeC0 s, opaqueCharOk x = true := by
  intro x hx
  rcases C08.percentEncodeC0_chars s x hx with h | ⟨h1, h2, h3⟩
  · exact (pct_opaque x (isPctChar_lt h) h).1
  · simp only [opaqueCharOk, Bool.and_eq_true, decide_eq_true_eq, Bool.not_eq_true']
    exact ⟨⟨h2, h3⟩, hs x h1⟩

theorem c0_piece (c : Nat) :
    (if c ≥ 0x7F then pctEncodeChar c else if c ≤ 0x1F then pctByte c else [c]) = [c] ∨
    (∃ t, (if c ≥ 0x7F then pctEncodeChar c else if c ≤ 0x1F then pctByte c else [c]) = 0x25 :: t ∧
      ∀ x ∈ (0x25 :: t), C08.isPctChar x = true) := by
  by_cases h : c ≥ 0x7F
  · right
    rw [if_pos h]
    obtain ⟨t, ht⟩ := pctEncodeChar_head c
    refine ⟨t, ht, ?_⟩
    rw [← ht]; exact C08.pctEncodeChar_chars c
  · rw [if_neg h]
    by_cases h2 : c ≤ 0x1F
    · right
      rw [if_pos h2]
      refine ⟨_, rfl, ?_⟩
      exact C08.pctByte_chars c (by omega)
    · left; rw [if_neg h2]

theorem c0_head (s : List Nat) (h : (percentEncodeC0 s).head? = some 0x2F) : s.head? = some 0x2F := by
  cases s with
  | nil => simp [percentEncodeC0] at h
  | cons c cs =>
    rw [C14.percentEncodeC0_cons] at h
    rcases c0_piece c with hp | ⟨t, hp, _⟩
    · rw [hp] at h; simpa using h
    · rw [hp] at h; simp at h

theorem c0_last (s : List Nat) (h : (percentEncodeC0 s).getLast? = some 0x20) :
    s.getLast? = some 0x20 := by
  induction s with
  | nil => simp [percentEncodeC0] at h
  | cons c cs ih =>
    rw [C14.percentEncodeC0_cons, List.getLast?_append] at h
    cases hcs : (percentEncodeC0 cs).getLast? with
    | some z =>
      rw [hcs] at h
      simp only [Option.some_or, Option.some.injEq] at h
      subst h
      have := ih hcs
      cases cs with
      | nil => simp at this
      | cons d ds => rw [List.getLast?_cons_cons]; exact this
    | none =>
      rw [hcs] at h
      simp only [Option.none_or] at h
      have hnil : cs = [] := by
        cases cs with
        | nil => rfl
        | cons d ds =>
          exfalso
          have : percentEncodeC0 (d :: ds) = [] := List.getLast?_eq_none_iff.1 hcs
          rw [C14.percentEncodeC0_cons] at this
          rcases c0_piece d with hp | ⟨t, hp, _⟩ <;> rw [hp] at this <;> simp at this
      subst hnil
      rcases c0_piece c with hp | ⟨t, hp, hall⟩
      · rw [hp] at h; simpa using h
      · rw [hp] at h
        have := hall _ (List.mem_of_getLast? h)
        exact absurd this (by decide)

theorem takeWhile_of_dropWhile_nil {p : Nat → Bool} {l : List Nat} (h : l.dropWhile p = []) :
    l.takeWhile p = l := by
  have := List.takeWhile_append_dropWhile (p := p) (l := l)
  rw [h, List.append_nil] at this
  exact this

theorem head?_takeWhile_ne {p : Nat → Bool} {l : List Nat} {k : Nat} (h : l.head? ≠ some k) :
    (l.takeWhile p).head? ≠ some k := by
  cases l with
  | nil => simp
  | cons a r =>
    rw [List.takeWhile_cons]
    split
    · simpa using h
    · simp

/-- the record the scheme block hands to the opaque path block -/
theorem fresh_authN (s : List Nat) (hs : C02.schemeOk s = true) (hns : isSpecialScheme s = false)
    (b : Bool) (op : List Nat) :
    AuthN idna st { scheme := s, hasOpaquePath := b, opaquePath := op } := by
  have hnf : isFileScheme s = false := C08.nonspecial_nonfile hns
  exact ⟨hs, rfl, fun h => absurd (show isSpecialScheme s = true from h) (by simp [hns]),
    fun _ => ⟨rfl, rfl, rfl⟩, fun h => absurd (show isFileScheme s = true from h) (by simp [hnf]),
    rfl, rfl, fun h hh => by simp at hh, fun _ _ h hh => by simp at hh⟩

theorem norm_opaquePathState (s p : List Nat) (hs : C02.schemeOk s = true)
    (hns : isSpecialScheme s = false) (hp0 : p.head? ≠ some 0x2F) (hpl : p.getLast? ≠ some 0x20) :
    All idna st (opaquePathState none { scheme := s, hasOpaquePath := true } p).url := by
  unfold opaquePathState
  dsimp only
  have hchars := c0_chars (p.takeWhile (fun c => !isQorH c))
    (fun c hc => by simpa using (C08.mem_takeWhile hc).1)
  have hhead : (percentEncodeC0 (p.takeWhile (fun c => !isQorH c))).head? ≠ some 0x2F :=
    fun h => head?_takeWhile_ne hp0 (c0_head _ h)
  have hw : PathW st
      { scheme := s, hasOpaquePath := true, opaquePath := [] ++ percentEncodeC0 (p.takeWhile (fun c => !isQorH c)) } :=
    ⟨fun h => absurd (show isSpecialScheme s = true from h) (by simp [hns]),
      fun _ => ⟨rfl, rfl, hchars, hhead, fun h => by simp at h⟩,
      fun h => by simp at h,
      fun _ h => absurd (show isFileScheme s = true from h) (by simp [C08.nonspecial_nonfile hns])⟩
  refine norm_afterPath none _ _ (fresh_authN s hs hns _ _) hw rfl rfl ?_
  intro hrest
  refine ⟨hw.sp, fun _ => ⟨rfl, rfl, hchars, hhead, fun _ _ => ?_⟩, hw.lst, hw.drive⟩
  rw [takeWhile_of_dropWhile_nil hrest]
  exact fun h => hpl (c0_last p h)

/-! ### path -/

/-- the list path under construction -/
structure PathPre (st : Bool) (u : Url) : Prop where
  notOpaque : u.hasOpaquePath = false
  opq : u.opaquePath = []
  segs : ∀ seg ∈ u.path, segOk u.isSpecial seg = true
  drive : st = true → u.isFile = true → driveOk u.path = true

theorem PathPre.congr {u v : Url} (h : PathPre st u) (hs : v.scheme = u.scheme)
    (h1 : v.hasOpaquePath = u.hasOpaquePath) (h2 : v.opaquePath = u.opaquePath)
    (h3 : v.path = u.path) : PathPre st v := by
  cases u; cases v
  simp only at hs h1 h2 h3
  subst hs h1 h2 h3
  exact ⟨h.1, h.2, h.3, h.4⟩

theorem segOk_nil (sp : Bool) : segOk sp [] = true := by cases sp <;> rfl

theorem driveOk_cons (a : List Nat) (x : List (List Nat)) : driveOk (a :: x) = driveOk [a] := by
  rcases a with _ | ⟨a0, _ | ⟨b0, _ | ⟨c0, r⟩⟩⟩ <;> rfl

theorem driveOk_prefix {p' p : List (List Nat)} (h : p' <+: p) (hd : driveOk p = true) :
    driveOk p' = true := by
  cases p' with
  | nil => rfl
  | cons a t =>
    obtain ⟨r, hr⟩ := h
    rw [← hr, List.cons_append, driveOk_cons] at hd
    rw [driveOk_cons]; exact hd

theorem driveOk_append (p : List (List Nat)) (x : List Nat) (hne : p ≠ []) :
    driveOk (p ++ [x]) = driveOk p := by
  cases p with
  | nil => exact absurd rfl hne
  | cons a t => rw [List.cons_append, driveOk_cons, driveOk_cons a t]

theorem shortenPath_spec (u : Url) :
    ∃ p', shortenPath u = { u with path := p' } ∧ p' <+: u.path := by
  unfold shortenPath
  split
  · exact ⟨u.path, rfl, List.prefix_refl _⟩
  · exact C08.ite_prop (P := fun (r : Url) => ∃ p' : List (List Nat), r = { u with path := p' } ∧ p' <+: u.path)
      ⟨u.path, rfl, List.prefix_refl _⟩ ⟨[], rfl, List.nil_prefix⟩
  · exact ⟨u.path.dropLast, rfl, List.dropLast_prefix _⟩

/-- the path encoder produces `X|` only from `X|` -/
theorem enc_drive (seg : List Nat) (h : driveOk [percentEncode pathNoEnc seg] = false) :
    ∃ a, seg = [a, 0x7C] ∧ isAlpha a = true := by
  obtain ⟨a, rest, he, ha⟩ := (driveOk_false_iff _).1 h
  simp only [List.cons.injEq] at he
  obtain ⟨he, _⟩ := he
  have ha25 : a ≠ 0x25 := by intro hh; subst hh; exact absurd ha (by decide)
  cases seg with
  | nil => simp [percentEncode] at he
  | cons c cs =>
    obtain ⟨h1, h2⟩ := enc_head_other _ c cs a _ ha25 he
    cases cs with
    | nil => simp [percentEncode] at h2
    | cons c2 cs2 =>
      obtain ⟨h3, h4⟩ := enc_head_other _ c2 cs2 _ _ (by decide) h2
      rw [enc_eq_nil h4, h1, h3]
      exact ⟨a, rfl, ha⟩

theorem alpha_segChar (sp : Bool) (a : Nat) (h : isAlpha a = true) : segCharOk sp a = true := by
  have tbl : ∀ a, a < 128 → isAlpha a = true → segCharOk true a = true := by decide +kernel
  have hlt : a < 128 := C08.isAlpha_lt a h
  have := tbl a hlt h
  cases sp
  · simp only [segCharOk, Bool.and_eq_true, Bool.true_and, Bool.false_and, Bool.not_false, and_true] at this ⊢
    exact this.1
  · exact this

theorem segOk_drive (sp : Bool) (a : Nat) (h : isAlpha a = true) : segOk sp [a, 0x3A] = true := by
  have h3a : segCharOk sp 0x3A = true := by cases sp <;> decide
  simp [segOk, alpha_segChar sp a h, h3a, singleDot, doubleDot]

theorem pathSegment_spec (u : Url) (seg : List Nat) (isLast : Bool) (h2f : ∀ c ∈ seg, c ≠ 0x2F)
    (h5c : u.isSpecial = true → ∀ c ∈ seg, c ≠ 0x5C)
    (hp : ∀ s ∈ u.path, segOk u.isSpecial s = true)
    (hd : st = true → u.isFile = true → driveOk u.path = true) :
    ∃ p', pathSegment u seg isLast = { u with path := p' } ∧ (∀ s ∈ p', segOk u.isSpecial s = true) ∧
      (st = true → u.isFile = true → driveOk p' = true) ∧ (isLast = true → p' ≠ []) := by
  have happ : ∀ (q : List (List Nat)) (x : List Nat), (∀ s ∈ q, segOk u.isSpecial s = true) →
      segOk u.isSpecial x = true → ∀ s ∈ q ++ [x], segOk u.isSpecial s = true := by
    intro q x hq hx s hs
    rcases List.mem_append.1 hs with h | h
    · exact hq s h
    · rw [List.mem_singleton.1 h]; exact hx
  have hdnil : ∀ q : List (List Nat), driveOk q = true → driveOk (q ++ [[]]) = true := by
    intro q hq
    cases q with
    | nil => rfl
    | cons a t => rw [driveOk_append _ _ (by simp)]; exact hq
  unfold pathSegment
  split
  · obtain ⟨p', he, hpre⟩ := shortenPath_spec u
    rw [he]
    have hp' : ∀ s ∈ p', segOk u.isSpecial s = true := fun s hs => hp s (hpre.subset hs)
    have hd' : st = true → u.isFile = true → driveOk p' = true :=
      fun a b => driveOk_prefix hpre (hd a b)
    split
    · exact ⟨p' ++ [[]], rfl, happ _ _ hp' (segOk_nil _), fun a b => hdnil _ (hd' a b), fun _ => by simp⟩
    · rename_i hl; exact ⟨p', rfl, hp', hd', fun h => absurd h hl⟩
  · rename_i hdd
    split
    · split
      · exact ⟨u.path ++ [[]], rfl, happ _ _ hp (segOk_nil _), fun a b => hdnil _ (hd a b), fun _ => by simp⟩
      · rename_i hl; exact ⟨u.path, rfl, hp, hd, fun h => absurd h hl⟩
    · rename_i hsd
      have hsd' : singleDot seg = false := by simpa using hsd
      have hdd' : doubleDot seg = false := by simpa using hdd
      have hsegok := segOk_enc_seg u.isSpecial seg h2f h5c hsd' hdd'
      -- the general case: the encoded segment is appended
      have henc : (u.isFile = true → u.path = [] → ∀ a, seg = [a, 0x7C] → isAlpha a = false) →
          ∃ p', ({ u with path := u.path ++ [percentEncode pathNoEnc seg] } : Url) = { u with path := p' } ∧
            (∀ s ∈ p', segOk u.isSpecial s = true) ∧
            (st = true → u.isFile = true → driveOk p' = true) ∧ (isLast = true → p' ≠ []) := by
        intro hno
        refine ⟨_, rfl, happ _ _ hp hsegok, ?_, fun _ => by simp⟩
        intro hst hf
        by_cases hpe : u.path = []
        · rw [hpe, List.nil_append]
          cases hdr : driveOk [percentEncode pathNoEnc seg] with
          | true => rfl
          | false =>
            obtain ⟨a, hs, ha⟩ := enc_drive seg hdr
            rw [hno hf hpe a hs] at ha
            exact absurd ha (by simp)
        · rw [driveOk_append _ _ hpe]; exact hd hst hf
      split
      · rename_i a b
        split
        · rename_i hc
          simp only [Bool.and_eq_true, isWindowsDrive] at hc
          obtain ⟨⟨hf, hpe⟩, ha, _⟩ := hc
          have hpe' : u.path = [] := by simpa using hpe
          refine ⟨_, rfl, happ _ _ hp (segOk_drive _ a ha), ?_, fun _ => by simp⟩
          intro _ _
          rw [hpe', List.nil_append]
          simp [driveOk]
        · rename_i hc
          apply henc
          intro hf hpe a' hs
          simp only [List.cons.injEq, and_true] at hs
          obtain ⟨rfl, rfl⟩ := hs
          cases ha : isAlpha a with
          | false => rfl
          | true =>
            exfalso; apply hc
            simp [hf, hpe, isWindowsDrive, ha]
      · rename_i hne
        apply henc
        intro _ _ a hs
        exact absurd hs (hne a 0x7C)

theorem pathSegments_spec : ∀ (segs : List (List Nat)) (u : Url), segs ≠ [] →
    (∀ seg ∈ segs, ∀ c ∈ seg, c ≠ 0x2F) → (u.isSpecial = true → ∀ seg ∈ segs, ∀ c ∈ seg, c ≠ 0x5C) →
    (∀ s ∈ u.path, segOk u.isSpecial s = true) →
    (st = true → u.isFile = true → driveOk u.path = true) →
    ∃ p', pathSegments u segs = { u with path := p' } ∧ (∀ s ∈ p', segOk u.isSpecial s = true) ∧
      (st = true → u.isFile = true → driveOk p' = true) ∧ p' ≠ [] := by
  intro segs
  induction segs with
  | nil => intro u h; exact absurd rfl h
  | cons seg rest ih =>
    intro u _ hsegs h5c hp hd
    cases rest with
    | nil =>
      obtain ⟨p', he, hok, hdr, hne⟩ := pathSegment_spec (st := st) u seg true (hsegs seg List.mem_cons_self)
        (fun h => h5c h seg List.mem_cons_self) hp hd
      exact ⟨p', by rw [pathSegments, he], hok, hdr, hne rfl⟩
    | cons s2 rest =>
      obtain ⟨p1, he, hok, hdr, _⟩ := pathSegment_spec (st := st) u seg false (hsegs seg List.mem_cons_self)
        (fun h => h5c h seg List.mem_cons_self) hp hd
      rw [pathSegments, he]
      obtain ⟨p2, he2, hok2, hdr2, hne2⟩ := ih { u with path := p1 } (by simp)
        (fun sg hsg => hsegs sg (List.mem_cons_of_mem _ hsg))
        (fun h sg hsg => h5c h sg (List.mem_cons_of_mem _ hsg)) hok hdr
      exact ⟨p2, by rw [he2], hok2, hdr2, hne2⟩
      all_goals simp

theorem parsePath_spec (u : Url) (s : List Nat) (hp : ∀ s ∈ u.path, segOk u.isSpecial s = true)
    (hd : st = true → u.isFile = true → driveOk u.path = true) :
    ∃ p', parsePath u s = { u with path := p' } ∧ (∀ s ∈ p', segOk u.isSpecial s = true) ∧
      (st = true → u.isFile = true → driveOk p' = true) ∧ p' ≠ [] := by
  unfold parsePath
  dsimp only
  split
  · refine pathSegments_spec _ u (C08.splitOnP_spec _ s).1 ?_ ?_ hp hd
    · intro seg hseg c hc h
      have := (C08.splitOnP_spec isSlash s).2 seg hseg c hc
      simp [isSlash, h] at this
    · intro _ seg hseg c hc h
      have := (C08.splitOnP_spec isSlash s).2 seg hseg c hc
      simp [isSlash, h] at this
  · rename_i hs
    refine pathSegments_spec _ u (C08.splitOnP_spec _ s).1 ?_ (fun h => absurd h hs) hp hd
    intro seg hseg c hc h
    have := (C08.splitOnP_spec (· == 0x2F) s).2 seg hseg c hc
    simp [h] at this

theorem pathN_of_pathPre {u : Url} (hp : PathPre st u) (hne : u.path ≠ [] ∨ (u.isSpecial = false ∧ u.host ≠ none)) :
    PathN st u :=
  ⟨fun h => ⟨hp.notOpaque, by
      rcases hne with h1 | ⟨h1, _⟩
      · exact h1
      · rw [h] at h1; exact absurd h1 (by simp)⟩,
    fun h => by rw [hp.notOpaque] at h; exact absurd h (by simp),
    fun _ => ⟨hp.opq, hp.segs, fun hs hh => by
      rcases hne with h1 | ⟨_, h1⟩
      · exact h1
      · exact absurd hh h1⟩, hp.drive⟩

theorem norm_pathState (ov : Option Override) (u : Url) (p : List Nat) (ha : AuthN idna st u)
    (hp : PathPre st u) (hq : QueryN u) (hf : FragN u) : All idna st (pathState ov u p).url := by
  unfold pathState
  apply norm_afterPath'
  obtain ⟨p', he, hok, hdr, hne⟩ := parsePath_spec (st := st) u
    (if ov.isSome then p else p.takeWhile (fun c => !isQorH c)) hp.segs hp.drive
  rw [he]
  exact ⟨ha.congr rfl rfl rfl rfl rfl,
    pathN_of_pathPre ⟨hp.notOpaque, hp.opq, hok, hdr⟩ (Or.inl hne), hq.congr rfl rfl, hf.congr rfl⟩

theorem norm_pathStartState (ov : Option Override) (u : Url) (p : List Nat) (ha : AuthN idna st u)
    (hp : PathPre st u) (hq : QueryN u) (hf : FragN u) (hh : ov = none → u.host ≠ none) :
    All idna st (pathStartState ov u p).url := by
  unfold pathStartState
  split
  · split
    · split <;> exact norm_pathState _ _ _ ha hp hq hf
    · exact norm_pathState _ _ _ ha hp hq hf
  · rename_i hs
    have hs' : u.isSpecial = false := by simpa using hs
    split
    · split
      · rename_i ho
        have ho' : ov = none := by cases ov <;> simp at ho ⊢
        have hpn : PathN st u := pathN_of_pathPre hp (Or.inr ⟨hs', hh ho'⟩)
        split
        · exact norm_queryState _ _ _ ha hpn.toW hf
        · split
          · exact norm_fragmentState _ _ ha hpn.toW hq
          · split <;> exact norm_pathState _ _ _ ha hp hq hf
      · split <;> exact norm_pathState _ _ _ ha hp hq hf
    · split
      · refine ⟨ha.congr rfl rfl rfl rfl rfl, pathN_of_pathPre ⟨hp.notOpaque, hp.opq, ?_, ?_⟩ (Or.inl (by simp)),
          hq.congr rfl rfl, hf.congr rfl⟩
        · intro s hs2
          rcases List.mem_append.1 hs2 with h | h
          · exact hp.segs s h
          · rw [List.mem_singleton.1 h]; exact segOk_nil _
        · intro _ hfile
          have : u.isSpecial = true := C08.file_special hfile
          rw [hs'] at this; exact absurd this (by simp)
      · rename_i hc
        refine ⟨ha, pathN_of_pathPre hp (Or.inr ⟨hs', ?_⟩), hq, hf⟩
        cases ov with
        | none => exact hh rfl
        | some o =>
          intro hn
          apply hc
          have hn' : u.host = none := hn
          simp [hn']

/-! ### port, host, authority -/

/-- what the blocks before the path need of the path fields: with a state override (setter run) the
    URL already has a normal-form list path, without one the list path is under construction -/
def PathMode (st : Bool) (ov : Option Override) (u : Url) : Prop :=
  (ov.isSome = true ∧ PathN st u ∧ u.hasOpaquePath = false) ∨ (ov = none ∧ PathPre st u)

theorem PathMode.congr {ov : Option Override} {u v : Url} (h : PathMode st ov u) (hs : v.scheme = u.scheme)
    (hh : v.host = u.host) (h1 : v.hasOpaquePath = u.hasOpaquePath) (h2 : v.opaquePath = u.opaquePath)
    (h3 : v.path = u.path) (hq : v.query = u.query) (hf : v.fragment = u.fragment) : PathMode st ov v := by
  rcases h with ⟨ho, hp, hno⟩ | ⟨ho, hp⟩
  · exact Or.inl ⟨ho, hp.congr hs hh h1 h2 h3 (fun a b => ⟨by rw [← hq]; exact a, by rw [← hf]; exact b⟩),
      by rw [h1]; exact hno⟩
  · exact Or.inr ⟨ho, hp.congr hs h1 h2 h3⟩

theorem PathN.setHost {u : Url} (hp : PathN st u) (hno : u.hasOpaquePath = false) (h : Host) :
    PathN st { u with host := some h } :=
  ⟨hp.sp, fun hc => by rw [show u.hasOpaquePath = true from hc] at hno; exact absurd hno (by simp),
    fun ho => ⟨(hp.lst ho).1, (hp.lst ho).2.1, fun _ hh => by simp at hh⟩, hp.drive⟩

theorem PathMode.setHost {ov : Option Override} {u : Url} (hm : PathMode st ov u) (h : Host) :
    PathMode st ov { u with host := some h } := by
  rcases hm with ⟨ho, hp, hno⟩ | ⟨ho, hp⟩
  · exact Or.inl ⟨ho, hp.setHost hno h, hno⟩
  · exact Or.inr ⟨ho, hp.congr rfl rfl rfl rfl⟩

/-- end of a host / port block: return (override) or go on with the path -/
theorem norm_finish (ov : Option Override) (u : Url) (rest : List Nat) (ha : AuthN idna st u)
    (hm : PathMode st ov u) (hq : QueryN u) (hf : FragN u) (hhost : u.host ≠ none) :
    All idna st (if ov.isSome then (⟨.ok, u⟩ : Res) else pathStartState ov u rest).url := by
  rcases hm with ⟨ho, hp, _⟩ | ⟨ho, hp⟩
  · rw [if_pos ho]; exact ⟨ha, hp, hq, hf⟩
  · subst ho
    simp only [Option.isSome_none, Bool.false_eq_true, if_false]
    exact norm_pathStartState none u rest ha hp hq hf (fun _ => hhost)

theorem AuthN.setPort_none {u : Url} (ha : AuthN idna st u) : AuthN idna st { u with port := none } :=
  ⟨ha.scheme, rfl, ha.spHost,
    fun h => ⟨(ha.noCred h).1, (ha.noCred h).2.1, rfl⟩, ha.fileHost, ha.user, ha.pass, ha.host, ha.hostFile⟩

theorem AuthN.setPort_some {u : Url} (ha : AuthN idna st u) (hh : u.hostText ≠ []) (hnf : u.isFile = false)
    (n : Nat) (hn : n ≤ 65535) (hd : defaultPort u.scheme ≠ some n) :
    AuthN idna st { u with port := some n } :=
  ⟨ha.scheme, by
      show portOk u.scheme (some n) = true
      simp only [portOk, Bool.and_eq_true, decide_eq_true_eq, bne_iff_ne, ne_eq]
      exact ⟨by omega, hd⟩,
    ha.spHost,
    fun h => by
      rcases h with h | h
      · exact absurd h hh
      · exact absurd (show u.isFile = true from h) (by simp [hnf]),
    ha.fileHost, ha.user, ha.pass, ha.host, ha.hostFile⟩

theorem portResult_spec {u u' : Url} {digits : List Nat} (h : C08.portResult u digits = some u')
    (ha : AuthN idna st u) (hh : u.hostText ≠ []) (hnf : u.isFile = false) :
    AuthN idna st u' ∧ ∃ po, u' = { u with port := po } := by
  unfold C08.portResult at h
  split at h
  · dsimp only at h
    split at h
    · simp at h
    · split at h
      · simp at h
      · rename_i hle
        split at h
        · simp only [Option.some.injEq] at h; subst h; exact ⟨ha.setPort_none, _, rfl⟩
        · rename_i hd
          simp only [Option.some.injEq] at h; subst h
          exact ⟨ha.setPort_some hh hnf _ (by omega) hd, _, rfl⟩
  · simp only [Option.some.injEq] at h; subst h; exact ⟨ha, u.port, rfl⟩

theorem hostText_ne {u : Url} (h : u.hostText ≠ []) : u.host ≠ none := by
  intro hn; apply h; simp [Url.hostText, hn]

theorem norm_portState (ov : Option Override) (u : Url) (p : List Nat) (ha : AuthN idna st u)
    (hh : u.hostText ≠ []) (hnf : u.isFile = false) (hm : PathMode st ov u) (hq : QueryN u) (hf : FragN u)
    (hu : ov.isSome = true → All idna st u)
    (hgo : ov.isSome = true ∨ (portState ov u p).out = .ok) :
    All idna st (portState ov u p).url := by
  have hfail : (ov.isSome = true ∨ (⟨.failure, u⟩ : Res).out = .ok) → All idna st u := by
    intro h; rcases h with h | h
    · exact hu h
    · simp at h
  rw [C08.portState_eq] at hgo ⊢
  by_cases hc : (C08.portIsEnd u (p.dropWhile isDigit) || ov.isSome) = true
  · rw [if_pos hc] at hgo ⊢
    cases hr : C08.portResult u (p.takeWhile isDigit) with
    | none => rw [hr] at hgo; exact hfail hgo
    | some u' =>
      obtain ⟨ha', po, he⟩ := portResult_spec hr ha hh hnf
      subst he
      exact norm_finish ov _ _ ha' (hm.congr rfl rfl rfl rfl rfl rfl rfl) (hq.congr rfl rfl) (hf.congr rfl)
        (hostText_ne hh)
  · rw [if_neg hc] at hgo ⊢
    exact hfail hgo

/-- facts about scheme and credentials every host block run has -/
structure HostBase (u : Url) : Prop where
  scheme : C02.schemeOk u.scheme = true
  port : portOk u.scheme u.port = true
  notFile : u.isFile = false
  user : C02.userinfoOk u.username = true
  pass : C02.userinfoOk u.password = true

theorem HostBase.setHost {u : Url} (hb : HostBase u) (h : Host) (hn : HostN idna u.isSpecial h)
    (hsp : u.isSpecial = true → h.text ≠ [])
    (hc : h.text = [] → u.username = [] ∧ u.password = [] ∧ u.port = none) :
    AuthN idna st { u with host := some h } :=
  ⟨hb.scheme, hb.port, fun hs _ => ⟨h, rfl, hsp hs⟩,
    fun hh => by
      rcases hh with hh | hh
      · exact hc hh
      · exact absurd (show u.isFile = true from hh) (by simp [hb.notFile]),
    fun hf => absurd (show u.isFile = true from hf) (by simp [hb.notFile]),
    hb.user, hb.pass, fun h' hh' => by simp only [Option.some.injEq] at hh'; subst hh'; exact hn,
    fun _ hf => absurd (show u.isFile = true from hf) (by simp [hb.notFile])⟩

/-- what the host parser returns is a normal-form host -/
theorem hostN_of_parse (hi : IdnaStable idna) {s : List Nat} {sp : Bool} {h : Host}
    (hh : parseHost idna s (!sp) = some h) : HostN idna sp h ∧ HostChars h.text := by
  have hch := hostChars_of_hostOk h (C08.C08_host idna hi.canon _ _ _ hh).1
  refine ⟨⟨hch.textOk sp, ?_⟩, hch⟩
  have := host_stable idna hi _ _ _ hh
  rwa [Bool.not_not] at this

theorem norm_hostState (hi : IdnaStable idna) (ov : Option Override) (u : Url)
    (p : List Nat)
    (hfileCase : ov.isSome = true → u.isFile = true → All idna st (fileHostState idna ov u p).url)
    (hb : u.isFile = false → HostBase u)
    (hm : PathMode st ov u) (hq : QueryN u) (hf : FragN u)
    (hu : ov.isSome = true → All idna st u)
    (hnone : ov = none → u.isFile = false ∧ u.port = none ∧
      (u.hasCredentials = true → ∃ c r, p = c :: r ∧
        (if u.isSpecial then isSpecialAuthorityEnd else isAuthorityEnd) c = false))
    (hgo : ov.isSome = true ∨ (hostState idna ov u p).out = .ok) :
    All idna st (hostState idna ov u p).url := by
  unfold hostState at hgo ⊢
  by_cases hfc : (ov.isSome && u.isFile) = true
  · rw [if_pos hfc]
    simp only [Bool.and_eq_true] at hfc
    exact hfileCase hfc.1 hfc.2
  · rw [if_neg hfc] at hgo ⊢
    have hnf : u.isFile = false := by
      cases ov with
      | none => exact (hnone rfl).1
      | some o => simpa using hfc
    have hb := hb hnf
    have hfail : ∀ o : Outcome, o ≠ .ok →
        (ov.isSome = true ∨ (⟨o, u⟩ : Res).out = .ok) → All idna st u := by
      intro o ho h; rcases h with h | h
      · exact hu h
      · exact absurd h ho
    dsimp only at hgo ⊢
    generalize hsc : hostScan _ false = sc at hgo ⊢
    obtain ⟨hostPart, portPart⟩ := sc
    dsimp only at hgo ⊢
    split
    · rename_i hc; rw [if_pos hc] at hgo; exact hfail _ (by decide) hgo
    · rename_i hc1; rw [if_neg hc1] at hgo
      split
      · rename_i hc; rw [if_pos hc] at hgo; exact hfail _ (by decide) hgo
      · rename_i hc2; rw [if_neg hc2] at hgo
        split
        · rename_i hc; rw [if_pos hc] at hgo; exact hfail _ (by decide) hgo
        · rename_i hc3; rw [if_neg hc3] at hgo
          cases hph : parseHost idna hostPart (!u.isSpecial) with
          | none => rw [hph] at hgo; exact hfail _ (by decide) hgo
          | some h =>
            rw [hph] at hgo
            dsimp only at hgo ⊢
            obtain ⟨hok, hne⟩ := C08.C08_host idna hi.canon _ _ _ hph
            have hhn := (hostN_of_parse hi hph).1
            have hsp : u.isSpecial = true → h.text ≠ [] := by
              intro hs
              apply hne
              intro he
              exact hc1 (by simp [he, hs])
            have hcr : h.text = [] → u.username = [] ∧ u.password = [] ∧ u.port = none := by
              intro ht
              have he : hostPart = [] := by
                by_cases he : hostPart = []
                · exact he
                · exact absurd ht (hne he)
              have hnp : portPart.isSome = false := by
                cases hps : portPart.isSome with
                | false => rfl
                | true => exact absurd (by simp [he, hps]) hc1
              cases ov with
              | some o =>
                have : ¬ (u.hasCredentials = true ∨ u.port.isSome = true) := by
                  intro hh; apply hc2; simp [he]; simpa using hh
                simp only [Url.hasCredentials, not_or] at this
                obtain ⟨h1, h2⟩ := this
                have h1' : u.username = [] ∧ u.password = [] := by simpa using h1
                refine ⟨h1'.1, h1'.2, ?_⟩
                · cases hp : u.port with
                  | none => rfl
                  | some x => simp [hp] at h2
              | none =>
                obtain ⟨_, hpn, hcred⟩ := hnone rfl
                cases hcd : u.hasCredentials with
                | true =>
                  obtain ⟨c, r, hpe, hce⟩ := hcred hcd
                  subst hpe he
                  rcases C08.hostScan_nil _ _ _ hsc with h0 | h0
                  · exact absurd h0 (C08.takeWhile_cons_ne_nil (by simp [hce]))
                  · rw [hnp] at h0; simp at h0
                | false =>
                  simp only [Url.hasCredentials, Bool.or_eq_false_iff, decide_eq_false_iff_not,
                    ne_eq, Decidable.not_not] at hcd
                  exact ⟨hcd.1, hcd.2, hpn⟩
            have ha' : AuthN idna st { u with host := some h } := hb.setHost h hhn hsp hcr
            cases portPart with
            | some pp =>
              dsimp only at hgo ⊢
              refine norm_portState ov _ _ ha' ?_ hnf (hm.setHost h) (hq.congr rfl rfl)
                (hf.congr rfl) ?_ hgo
              · show h.text ≠ []
                apply hne
                intro he
                exact hc1 (by simp [he])
              · intro ho
                obtain ⟨_, hpu, hqu, hfu⟩ := hu ho
                rcases hm with ⟨_, _, hno⟩ | ⟨hn, _⟩
                · exact ⟨ha', hpu.setHost hno h, hqu.congr rfl rfl, hfu.congr rfl⟩
                · subst hn; simp at ho
            | none =>
              dsimp only
              exact norm_finish ov _ _ ha' (hm.setHost h) (hq.congr rfl rfl) (hf.congr rfl) (by simp)

/-- result of a block: all parts hold, or (no override) not ok -/
def Good (idna : Idna) (st : Bool) (ov : Option Override) (r : Res) : Prop :=
  All idna st r.url ∨ (ov = none ∧ r.out ≠ .ok)

theorem good_of {ov : Option Override} {r : Res}
    (h : ov.isSome = true ∨ r.out = .ok → All idna st r.url) : Good idna st ov r := by
  by_cases hc : ov.isSome = true ∨ r.out = .ok
  · exact Or.inl (h hc)
  · right
    simp only [not_or] at hc
    refine ⟨?_, hc.2⟩
    cases ov with
    | none => rfl
    | some o => simp at hc

theorem good_fail {ov : Option Override} {u : Url} (hu : ov.isSome = true → All idna st u)
    (o : Outcome) (ho : o ≠ .ok) : Good idna st ov ⟨o, u⟩ := by
  cases ov with
  | none => exact Or.inr ⟨rfl, ho⟩
  | some x => exact Or.inl (hu rfl)

/-! ### file host -/

theorem AuthN.setHost_file {u : Url} (ha : AuthN idna st u) (hfile : u.isFile = true) (h : Host)
    (hn : HostN idna u.isSpecial h) (hfo : hostFileOk h.text = true) :
    AuthN idna st { u with host := some h } :=
  ⟨ha.scheme, ha.port, fun _ hnf => absurd (show u.isFile = false from hnf) (by simp [hfile]),
    fun _ => ha.noCred (Or.inr hfile), fun _ => ⟨h, rfl⟩, ha.user, ha.pass,
    fun h' hh' => by simp only [Option.some.injEq] at hh'; subst hh'; exact hn,
    fun _ _ h' hh' => by simp only [Option.some.injEq] at hh'; subst hh'; exact hfo⟩

theorem PathMode.none_pre {ov : Option Override} {u : Url} (hm : PathMode st ov u) (ho : ov.isNone = true) :
    ov = none ∧ PathPre st u := by
  rcases hm with ⟨h, _⟩ | h
  · cases ov <;> simp at h ho
  · exact h

theorem hostN_empty (sp : Bool) : HostN idna sp emptyHost := by
  refine ⟨by cases sp <;> rfl, ?_⟩
  simp [HostStable, emptyHost]

theorem good_fileHostState (hi : IdnaStable idna) (ov : Option Override) (u : Url)
    (p : List Nat) (ha : AuthN idna st u) (hfile : u.isFile = true) (hm : PathMode st ov u) (hq : QueryN u)
    (hf : FragN u) : Good idna st ov (fileHostState idna ov u p) := by
  have hcu : ov.isSome = true → All idna st u := by
    intro ho
    rcases hm with ⟨_, hp, _⟩ | ⟨h, _⟩
    · exact ⟨ha, hp, hq, hf⟩
    · subst h; simp at ho
  have hfin : ∀ (h : Host) (rest : List Nat), HostN idna u.isSpecial h → hostFileOk h.text = true →
      Good idna st ov (if ov.isSome then (⟨.ok, { u with host := some h }⟩ : Res)
        else pathStartState ov { u with host := some h } rest) := fun h rest hn hfo =>
    Or.inl (norm_finish ov _ rest (ha.setHost_file hfile h hn hfo) (hm.setHost h)
      (hq.congr rfl rfl) (hf.congr rfl) (by simp))
  rw [C08.fileHostState_eq]
  split
  · exact hfin emptyHost _ (hostN_empty _) (by decide)
  · split
    · rename_i hc
      simp only [Bool.and_eq_true] at hc
      obtain ⟨ho, hp⟩ := hm.none_pre hc.1
      subst ho
      exact Or.inl (norm_pathState none u p ha hp hq hf)
    · cases hph : parseHost idna (p.takeWhile (fun c => !isSpecialAuthorityEnd c)) (!u.isSpecial) with
      | none => exact good_fail hcu _ (by decide)
      | some h =>
        dsimp only
        obtain ⟨hn, hch⟩ := hostN_of_parse hi hph
        apply hfin
        · split
          · exact hostN_empty _
          · exact hn
        · split
          · decide
          · rename_i hloc
            simp only [hostFileOk, Bool.and_eq_true, bne_iff_ne, ne_eq, Bool.not_eq_true']
            exact ⟨by simpa using hloc, hch.not_drive⟩

/-! ### authority -/

theorem good_authorityState (hi : IdnaStable idna) (u : Url) (p : List Nat)
    (hs : C02.schemeOk u.scheme = true) (hnf : u.isFile = false) (hun : u.username = [])
    (hpw : u.password = []) (hport : u.port = none) (hp : PathPre st u) (hq : QueryN u) (hf : FragN u) :
    Good idna st none (authorityState idna none u p) := by
  have hhost : ∀ (u' : Url) (q : List Nat), u'.scheme = u.scheme → C02.userinfoOk u'.username = true →
      C02.userinfoOk u'.password = true → u'.port = none → PathPre st u' → QueryN u' → FragN u' →
      (u'.hasCredentials = true → ∃ c r, q = c :: r ∧
        (if u'.isSpecial then isSpecialAuthorityEnd else isAuthorityEnd) c = false) →
      Good idna st none (hostState idna none u' q) := by
    intro u' q h1 h2 h3 h4 h5 h6 h7 h8
    have hnf' : u'.isFile = false := by
      have : u'.isFile = u.isFile := by simp only [Url.isFile, h1]
      rw [this]; exact hnf
    apply good_of
    apply norm_hostState hi none u' q (fun h => by simp at h)
      (fun _ => ⟨by rw [h1]; exact hs, by rw [h4]; rfl, hnf', h2, h3⟩)
      (Or.inr ⟨rfl, h5⟩) h6 h7 (fun h => by simp at h) (fun _ => ⟨hnf', h4, h8⟩)
  unfold authorityState
  dsimp only
  split
  · refine hhost u p rfl (by rw [hun]; rfl) (by rw [hpw]; rfl) hport hp hq hf ?_
    intro hc
    simp [Url.hasCredentials, hun, hpw] at hc
  · rename_i cred hostport hsl
    split
    · exact Or.inr ⟨rfl, by simp⟩
    · rename_i hne
      have hmem := C08.splitLastAt_mem hsl
      cases hostport with
      | nil => exact absurd rfl hne
      | cons c t =>
        have hcend : (if u.isSpecial then isSpecialAuthorityEnd else isAuthorityEnd) c = false := by
          have := (C08.mem_takeWhile (hmem c List.mem_cons_self)).1
          simpa using this
        refine C08.ite_prop (P := fun (u' : Url) => Good idna st none (hostState idna none u' (c :: t ++ _))) ?_ ?_
        · exact hhost _ _ rfl (userinfo_fix _)
            (C08.ite_prop (P := fun (x : List Nat) => C02.userinfoOk x = true) (userinfo_fix _) (by rw [hpw]; rfl))
            hport (hp.congr rfl rfl rfl rfl) (hq.congr rfl rfl) (hf.congr rfl)
            (fun _ => ⟨c, _, rfl, hcend⟩)
        · exact hhost u _ rfl (by rw [hun]; rfl) (by rw [hpw]; rfl) hport hp hq hf
            (fun _ => ⟨c, _, rfl, hcend⟩)

/-! ### records ready for the path blocks -/

structure Ready (idna : Idna) (st : Bool) (u : Url) : Prop where
  auth : AuthN idna st u
  path : PathPre st u
  query : QueryN u
  frag : FragN u

theorem Ready.good_pathState {u : Url} (h : Ready idna st u) (p : List Nat) :
    Good idna st none (pathState none u p) :=
  Or.inl (norm_pathState none u p h.auth h.path h.query h.frag)

/-- a record without authority, not special -/
theorem authN_bare (u : Url) (hs : C02.schemeOk u.scheme = true) (hns : u.isSpecial = false)
    (hu : u.username = []) (hp : u.password = []) (hh : u.host = none) (hport : u.port = none) :
    AuthN idna st u := by
  have hnf : u.isFile = false := C08.nonspecial_nonfile hns
  exact ⟨hs, by rw [hport]; rfl, fun h => by rw [hns] at h; exact absurd h (by simp),
    fun _ => ⟨hu, hp, hport⟩, fun h => by rw [hnf] at h; exact absurd h (by simp),
    by rw [hu]; rfl, by rw [hp]; rfl, fun h hh' => by rw [hh] at hh'; simp at hh',
    fun _ _ h hh' => by rw [hh] at hh'; simp at hh'⟩

theorem pathPre_nil (u : Url) (h1 : u.hasOpaquePath = false) (h2 : u.opaquePath = [])
    (h3 : u.path = []) : PathPre st u :=
  ⟨h1, h2, by rw [h3]; simp, fun _ _ => by rw [h3]; rfl⟩
theorem queryN_none (u : Url) (h : u.query = none) : QueryN u := by unfold QueryN; rw [h]; rfl
theorem fragN_none (u : Url) (h : u.fragment = none) : FragN u := by unfold FragN; rw [h]; rfl

theorem fresh_ready (s : List Nat) (hs : C02.schemeOk s = true) (hns : isSpecialScheme s = false) :
    Ready idna st { scheme := s } :=
  ⟨authN_bare _ hs hns rfl rfl rfl rfl, pathPre_nil _ rfl rfl rfl, queryN_none _ rfl, fragN_none _ rfl⟩

theorem good_ignoreSlashes (hi : IdnaStable idna) (s : List Nat) (p : List Nat)
    (hs : C02.schemeOk s = true) (hnf : isFileScheme s = false) :
    Good idna st none (ignoreSlashesState idna none { scheme := s } p) :=
  good_authorityState hi _ _ hs hnf rfl rfl rfl (pathPre_nil _ rfl rfl rfl) (queryN_none _ rfl)
    (fragN_none _ rfl)

theorem good_specialAuthoritySlashes (hi : IdnaStable idna) (s : List Nat) (p : List Nat)
    (hs : C02.schemeOk s = true) (hnf : isFileScheme s = false) :
    Good idna st none (specialAuthoritySlashesState idna none { scheme := s } p) := by
  unfold specialAuthoritySlashesState
  split <;> exact good_ignoreSlashes hi s _ hs hnf

theorem good_pathOrAuthority (hi : IdnaStable idna) (s : List Nat) (p : List Nat)
    (hs : C02.schemeOk s = true) (hns : isSpecialScheme s = false) :
    Good idna st none (pathOrAuthorityState idna none { scheme := s } p) := by
  have hr : Ready idna st { scheme := s } := fresh_ready s hs hns
  unfold pathOrAuthorityState
  split
  · exact good_authorityState hi _ _ hs (C08.nonspecial_nonfile hns) rfl rfl rfl hr.path hr.query hr.frag
  · exact hr.good_pathState _

/-! ### file states -/

theorem sFile_special : isSpecialScheme sFile = true := by decide
theorem sFile_file : isFileScheme sFile = true := by decide
theorem sFile_schemeOk : C02.schemeOk sFile = true := by decide

theorem special_of_sFile {u : Url} (hs : u.scheme = sFile) : u.isSpecial = true := by
  unfold Url.isSpecial; rw [hs]; exact sFile_special
theorem file_of_sFile {u : Url} (hs : u.scheme = sFile) : u.isFile = true := by
  unfold Url.isFile; rw [hs]; exact sFile_file

theorem ready_file (u : Url) (hs : u.scheme = sFile) (hu : u.username = []) (hp : u.password = [])
    (hport : u.port = none) (h : Host) (hh : u.host = some h) (hn : HostN idna true h)
    (hfo : st = true → hostFileOk h.text = true)
    (h1 : u.hasOpaquePath = false) (h2 : u.opaquePath = []) (h3 : ∀ seg ∈ u.path, segOk true seg = true)
    (h4 : st = true → driveOk u.path = true) (hq : QueryN u) (hfr : FragN u) : Ready idna st u := by
  have hfile : u.isFile = true := file_of_sFile hs
  have hsp : u.isSpecial = true := special_of_sFile hs
  refine ⟨⟨by rw [hs]; exact sFile_schemeOk, by rw [hport]; rfl,
    fun _ hnf => by rw [hfile] at hnf; simp at hnf, fun _ => ⟨hu, hp, hport⟩, fun _ => ⟨h, hh⟩,
    by rw [hu]; rfl, by rw [hp]; rfl, fun h' hh' => ?_, fun hst _ h' hh' => ?_⟩,
    ⟨h1, h2, by rw [hsp]; exact h3, fun hst _ => h4 hst⟩, hq, hfr⟩
  · rw [hh] at hh'; simp only [Option.some.injEq] at hh'; subst hh'; rw [hsp]; exact hn
  · rw [hh] at hh'; simp only [Option.some.injEq] at hh'; subst hh'; exact hfo hst

theorem ready_fileBase : Ready idna st C08.fileBase :=
  ready_file _ rfl rfl rfl rfl emptyHost rfl (hostN_empty _) (fun _ => by decide) rfl rfl (by simp [C08.fileBase])
    (fun _ => rfl) (queryN_none _ rfl) (fragN_none _ rfl)

/-- what a normal-form `file:` base URL provides -/
theorem fileBase_of (b : Url) (hc : All idna st b) (hf : b.isFile = true) :
    b.scheme = sFile ∧ (∃ h, b.host = some h ∧ HostN idna true h ∧ (st = true → hostFileOk h.text = true)) ∧
    b.hasOpaquePath = false ∧ b.opaquePath = [] ∧ (∀ seg ∈ b.path, segOk true seg = true) ∧
    (st = true → driveOk b.path = true) ∧ b.path ≠ [] := by
  obtain ⟨ha, hp, _, _⟩ := hc
  have hsp : b.isSpecial = true := C08.file_special hf
  obtain ⟨h, hh⟩ := ha.fileHost hf
  have hno := (hp.sp hsp).1
  refine ⟨C08.isFile_scheme hf, ⟨h, hh, ?_, fun hst => ha.hostFile hst hf h hh⟩, hno, (hp.lst hno).1, ?_,
    fun hst => hp.drive hst hf, (hp.sp hsp).2⟩
  · have := ha.host h hh; rwa [hsp] at this
  · have := (hp.lst hno).2.1; rwa [hsp] at this

theorem driveOk_normalized (a c : Nat) (h : isNormalizedWindowsDrive a c = true) :
    driveOk [[a, c]] = true := by
  simp only [isNormalizedWindowsDrive, Bool.and_eq_true, beq_iff_eq] at h
  rw [h.2]; simp [driveOk]

theorem good_fileSlashState (hi : IdnaStable idna) (base : Option Url)
    (hbase : ∀ b, base = some b → All idna st b) (p : List Nat) :
    Good idna st none (fileSlashState idna base none C08.fileBase p) := by
  have hrb : Ready idna st C08.fileBase := ready_fileBase
  have hdef : ∀ q, Good idna st none (fileSlashState.fileSlashDefault base none C08.fileBase q) := by
    intro q
    unfold fileSlashState.fileSlashDefault
    apply Ready.good_pathState
    cases base with
    | none => exact hrb
    | some b =>
      dsimp only
      split
      · rename_i hbf
        obtain ⟨hbs, ⟨h, hh, hn, hfo⟩, _, _, hsegs, _, _⟩ := fileBase_of b (hbase b rfl) hbf
        have hu : Ready idna st { C08.fileBase with host := b.host } :=
          ready_file _ rfl rfl rfl rfl h hh hn hfo rfl rfl (by simp [C08.fileBase]) (fun _ => rfl)
            (queryN_none _ rfl) (fragN_none _ rfl)
        split
        · split
          · rename_i a c _ hbp
            split
            · rename_i hnd
              refine ready_file _ rfl rfl rfl rfl h hh hn hfo rfl rfl ?_ (fun _ => ?_) (queryN_none _ rfl)
                (fragN_none _ rfl)
              · intro seg hseg
                have : seg = [a, c] := by simpa [C08.fileBase] using hseg
                subst this
                exact hsegs _ (by rw [hbp]; exact List.mem_cons_self)
              · exact driveOk_normalized a c hnd
            · exact hu
          · exact hu
        · exact hu
      · exact hrb
  unfold fileSlashState
  split
  · split
    · exact good_fileHostState hi none C08.fileBase _ hrb.auth (by decide)
        (Or.inr ⟨rfl, hrb.path⟩) hrb.query hrb.frag
    · exact hdef _
  · exact hdef _

theorem good_fileState (hi : IdnaStable idna) (base : Option Url)
    (hbase : ∀ b, base = some b → All idna st b) (s : List Nat) (p : List Nat) :
    Good idna st none (fileState idna base none { scheme := s } p) := by
  have hu1 : (if !Url.isFile { scheme := s } then ({ ({ scheme := s } : Url) with scheme := sFile } : Url)
      else { scheme := s }) = { scheme := sFile } := by
    split
    · rfl
    · rename_i h
      have : s = sFile := by simpa [Url.isFile, isFileScheme] using h
      subst this; rfl
  have hrb : Ready idna st C08.fileBase := ready_fileBase
  have hdef : ∀ q, Good idna st none (fileState.fileDefault base none C08.fileBase q) := by
    intro q
    unfold fileState.fileDefault
    cases base with
    | none => exact hrb.good_pathState _
    | some b =>
      dsimp only
      split
      · rename_i hbf
        have hball := hbase b rfl
        obtain ⟨hbs, ⟨h, hh, hn, hfo⟩, hno, hopq, hsegs, hdrv, hpne⟩ := fileBase_of b hball hbf
        have hqb : QueryN b := hball.2.2.1
        have hr : Ready idna st { C08.fileBase with host := b.host, path := b.path } :=
          ready_file _ rfl rfl rfl rfl h hh hn hfo rfl rfl hsegs hdrv (queryN_none _ rfl) (fragN_none _ rfl)
        have hpn : PathN st { C08.fileBase with host := b.host, path := b.path } :=
          pathN_of_pathPre hr.path (Or.inl hpne)
        split
        · exact Or.inl ⟨hr.auth.congr rfl rfl rfl rfl rfl,
            PathW.toN_list (PathW.congr hpn.toW rfl rfl rfl rfl rfl) rfl, hqb.congr hbs.symm rfl,
            fragN_none _ rfl⟩
        · split
          · exact Or.inl (norm_queryState none _ _ hr.auth hpn.toW hr.frag)
          · split
            · exact Or.inl (norm_fragmentState _ _ (hr.auth.congr rfl rfl rfl rfl rfl)
                (hpn.toW.congr rfl rfl rfl rfl rfl) (hqb.congr hbs.symm rfl))
            · split
              · obtain ⟨p', he, hpre⟩ := shortenPath_spec { C08.fileBase with host := b.host, path := b.path }
                rw [he]
                exact Or.inl (norm_pathState none _ _ (hr.auth.congr rfl rfl rfl rfl rfl)
                  ⟨rfl, rfl, fun sg hsg => hr.path.segs sg (hpre.subset hsg),
                    fun a c => driveOk_prefix hpre (hr.path.drive a c)⟩ (queryN_none _ rfl) (fragN_none _ rfl))
              · have hr2 : Ready idna st { C08.fileBase with host := b.host } :=
                  ready_file _ rfl rfl rfl rfl h hh hn hfo rfl rfl (by simp [C08.fileBase]) (fun _ => rfl)
                    (queryN_none _ rfl) (fragN_none _ rfl)
                exact hr2.good_pathState _
      · exact hrb.good_pathState _
  unfold fileState
  rw [hu1]
  show Good idna st none (match p with
    | c :: r => if isSlash c then fileSlashState idna base none C08.fileBase r
                else fileState.fileDefault base none C08.fileBase p
    | [] => fileState.fileDefault base none C08.fileBase p)
  split
  · split
    · exact good_fileSlashState hi base hbase _
    · exact hdef _
  · exact hdef _

/-! ### relative states -/

theorem good_relativeSlashState (hi : IdnaStable idna) (b : Url) (hb : All idna st b)
    (hbf : b.isFile = false) (p : List Nat) :
    Good idna st none (relativeSlashState idna b none { scheme := b.scheme } p) := by
  obtain ⟨ha, _, _, _⟩ := hb
  have hpath : ∀ q, Good idna st none (pathState none (copyAuthority { scheme := b.scheme } b) q) := fun q =>
    Ready.good_pathState (u := copyAuthority { scheme := b.scheme } b)
      ⟨ha.congr rfl rfl rfl rfl rfl, pathPre_nil _ rfl rfl rfl, queryN_none _ rfl, fragN_none _ rfl⟩ q
  have hauth : ∀ q, Good idna st none (authorityState idna none { scheme := b.scheme } q) := fun q =>
    good_authorityState hi _ _ ha.scheme hbf rfl rfl rfl (pathPre_nil _ rfl rfl rfl)
      (queryN_none _ rfl) (fragN_none _ rfl)
  unfold relativeSlashState
  split
  · split
    · split
      · exact good_ignoreSlashes hi _ _ ha.scheme hbf
      · exact hauth _
    · split
      · exact good_ignoreSlashes hi _ _ ha.scheme hbf
      · exact hpath _
  · exact hpath _

theorem good_relativeState (hi : IdnaStable idna) (b : Url) (hb : All idna st b)
    (hbf : b.isFile = false) (hbo : b.hasOpaquePath = false) (s : List Nat) (p : List Nat) :
    Good idna st none (relativeState idna b none { scheme := s } p) := by
  obtain ⟨ha, hp, hq, _⟩ := hb
  have haC : AuthN idna st (copyPath (copyAuthority { scheme := b.scheme } b) b) := ha.congr rfl rfl rfl rfl rfl
  have hpC : PathW st (copyPath (copyAuthority { scheme := b.scheme } b) b) := hp.toW.congr rfl rfl rfl rfl rfl
  unfold relativeState
  show Good idna st none (match p with
    | [] => ⟨.ok, { copyPath (copyAuthority { scheme := b.scheme } b) b with query := b.query }⟩
    | c :: r =>
      if c = 0x2F then relativeSlashState idna b none { scheme := b.scheme } r
      else if c = 0x3F then queryState none (copyPath (copyAuthority { scheme := b.scheme } b) b) r
      else if c = 0x23 then
        fragmentState { copyPath (copyAuthority { scheme := b.scheme } b) b with query := b.query } r
      else if c = 0x5C && Url.isSpecial { scheme := b.scheme } then
        relativeSlashState idna b none { scheme := b.scheme } r
      else pathState none (removeLastSegment (copyPath (copyAuthority { scheme := b.scheme } b) b)) p)
  split
  · exact Or.inl ⟨haC.congr rfl rfl rfl rfl rfl, PathW.toN_list (hpC.congr rfl rfl rfl rfl rfl) hbo,
      hq.congr rfl rfl, fragN_none _ rfl⟩
  · split
    · exact good_relativeSlashState hi b ⟨ha, hp, hq, by assumption⟩ hbf _
    · split
      · exact Or.inl (norm_queryState none _ _ haC hpC (fragN_none _ rfl))
      · split
        · exact Or.inl (norm_fragmentState _ _ (haC.congr rfl rfl rfl rfl rfl) (hpC.congr rfl rfl rfl rfl rfl)
            (hq.congr rfl rfl))
        · split
          · exact good_relativeSlashState hi b ⟨ha, hp, hq, by assumption⟩ hbf _
          · refine Ready.good_pathState
              (u := removeLastSegment (copyPath (copyAuthority { scheme := b.scheme } b) b))
              ⟨haC.congr rfl rfl rfl rfl rfl, ⟨hbo, (hp.lst hbo).1, ?_, ?_⟩,
              queryN_none _ rfl, fragN_none _ rfl⟩ _
            · intro seg hseg
              exact (hp.lst hbo).2.1 seg (List.dropLast_subset _ hseg)
            · intro hst hfl
              exact driveOk_prefix (List.dropLast_prefix _) (hp.drive hst hfl)

theorem good_specialRelativeOrAuthority (hi : IdnaStable idna) (b : Url)
    (hb : All idna st b) (hbf : b.isFile = false) (hbs : b.isSpecial = true) (p : List Nat) :
    Good idna st none (specialRelativeOrAuthorityState idna b none { scheme := b.scheme } p) := by
  unfold specialRelativeOrAuthorityState
  split
  · exact good_ignoreSlashes hi _ _ hb.1.scheme hbf
  · exact good_relativeState hi b hb hbf (hb.2.1.sp hbs).1 _ _

theorem good_noSchemeState (hi : IdnaStable idna) (base : Option Url)
    (hbase : ∀ b, base = some b → All idna st b) (p : List Nat) :
    Good idna st none (noSchemeState idna base none {} p) := by
  unfold noSchemeState
  cases base with
  | none => exact Or.inr ⟨rfl, by simp⟩
  | some b =>
    have hb := hbase b rfl
    obtain ⟨ha, hp, hq, _⟩ := hb
    dsimp only
    split
    · rename_i hbo
      split
      · have hns : isSpecialScheme b.scheme = false := by
          cases h : isSpecialScheme b.scheme with
          | false => rfl
          | true => have := (hp.sp h).1; rw [hbo] at this; simp at this
        refine Or.inl (norm_fragmentState _ _ (authN_bare _ ha.scheme hns rfl rfl rfl rfl)
          (hp.toW.congr rfl ?_ rfl rfl rfl) (hq.congr rfl rfl))
        exact (hp.opq hbo).1.symm
      · exact Or.inr ⟨rfl, by simp⟩
    · rename_i hbo
      split
      · exact good_fileState hi (some b) hbase [] p
      · rename_i hbf
        exact good_relativeState hi b (hbase b rfl) (by simpa using hbf) (by simpa using hbo) [] p

/-! ### scheme -/

theorem schemeOk_eq (s : List Nat) : C02.schemeOk s = Impl.schemeOk s := by
  cases s <;> rfl

theorem getLast?_suffix {l t : List Nat} (h : t <:+ l) {k : Nat} (ht : t.getLast? = some k) :
    l.getLast? = some k := by
  obtain ⟨pre, rfl⟩ := h
  rw [List.getLast?_append, ht]; rfl

theorem good_schemeState (hi : IdnaStable idna) (base : Option Url)
    (hbase : ∀ b, base = some b → All idna st b) (c0 : Nat) (r0 : List Nat) (h0 : isAlpha c0 = true)
    (hl : (c0 :: r0).getLast? ≠ some 0x20) :
    Good idna st none (schemeState idna base none {} (c0 :: r0)) := by
  have hs : C02.schemeOk ((c0 :: r0.takeWhile isSchemeChar).map (· ||| 0x20)) = true := by
    rw [schemeOk_eq]
    exact C08.scheme_lower_ok c0 _ h0 (fun c hc => (C08.mem_takeWhile hc).1)
  unfold schemeState
  dsimp only
  generalize (c0 :: r0.takeWhile isSchemeChar).map (· ||| 0x20) = scheme at hs ⊢
  have hno : Good idna st none (if (none : Option Override).isNone = true then noSchemeState idna base none {} (c0 :: r0)
      else ⟨.failure, {}⟩) := by
    simp only [Option.isNone_none, if_true]
    exact good_noSchemeState hi base hbase _
  cases hrest : List.dropWhile isSchemeChar r0 with
  | nil =>
    simp only [Option.isSome_none, Bool.false_eq_true, if_false]
    exact hno
  | cons c tl =>
    dsimp only
    by_cases hc : (c == 0x3A) = true
    · rw [if_pos hc]
      simp only [Option.isSome_none, Bool.false_eq_true, if_false]
      split
      · exact good_fileState hi base hbase scheme _
      · rename_i hnf
        have hnf' : isFileScheme scheme = false := by simpa [Url.isFile] using hnf
        split
        · rename_i hsp
          cases base with
          | none => exact good_specialAuthoritySlashes hi scheme _ hs hnf'
          | some b =>
            dsimp only
            split
            · rename_i hbs
              have hbs' : b.scheme = scheme := hbs
              subst hbs'
              exact good_specialRelativeOrAuthority hi b (hbase b rfl) hnf' hsp _
            · exact good_specialAuthoritySlashes hi scheme _ hs hnf'
        · rename_i hsp
          have hns : isSpecialScheme scheme = false := by simpa [Url.isSpecial] using hsp
          split
          · exact good_pathOrAuthority hi scheme _ hs hns
          · rename_i hnsl
            have htl : tl <:+ c0 :: r0 := by
              have h1 : tl <:+ c :: tl := List.suffix_cons c tl
              have h2 : c :: tl <:+ r0 := by rw [← hrest]; exact List.dropWhile_suffix _
              exact (h1.trans h2).trans (List.suffix_cons c0 r0)
            refine Or.inl (norm_opaquePathState scheme _ hs hns ?_ ?_)
            · intro hh
              cases htl' : List.drop 1 (c :: tl) with
              | nil => rw [htl'] at hh; simp at hh
              | cons x xs =>
                rw [htl'] at hh
                simp only [List.head?_cons, Option.some.injEq] at hh
                subst hh
                exact hnsl xs htl'
            · intro hh
              exact hl (getLast?_suffix htl hh)
    · rw [if_neg hc]
      exact hno

theorem good_urlParse (hi : IdnaStable idna) (base : Option Url)
    (hbase : ∀ b, base = some b → All idna st b) (p : List Nat) (hl : p.getLast? ≠ some 0x20) :
    Good idna st none (urlParse idna base none {} p) := by
  unfold urlParse
  dsimp only
  split
  · split
    · rename_i h0; exact good_schemeState hi base hbase _ _ h0 hl
    · simp only [Option.isNone_none, if_true]; exact good_noSchemeState hi base hbase _
  · simp only [Option.isNone_none, if_true]; exact good_noSchemeState hi base hbase _

/-! ## Part D: preprocessing never leaves a trailing space; `parse_norm` -/

theorem and_shl_testBit (n k : Nat) (h : n &&& (1 <<< k) ≠ 0) : n.testBit k = true := by
  cases hb : n.testBit k with
  | true => rfl
  | false =>
    exfalso; apply h
    apply Nat.eq_of_testBit_eq
    intro i
    rw [Nat.testBit_and, Nat.one_shiftLeft, Nat.testBit_two_pow, Nat.zero_testBit]
    by_cases hik : k = i
    · subst hik; simp [hb]
    · simp [hik]

theorem tb20 (k : Nat) (h : (0x20 : Nat).testBit k = true) : k = 5 := by
  have : (0x20 : Nat) = 2 ^ 5 := rfl
  rw [this, Nat.testBit_two_pow] at h
  simp at h; omega

theorem lead4_tb : ∀ j, j < 16 → j % 4 = 0 → (lead4T1Bits.getD j 0).testBit 0 = false := by decide

theorem readU8_space (l : List Nat) :
    (readU8 l).1 = true → (readU8 l).2.1 = 0x20 → l = 0x20 :: (readU8 l).2.2 := by
  fun_cases readU8 l
  all_goals (try (intro h1; simp at h1; done))
  · intro _ h2; simp only at h2 ⊢; rw [h2]
  · -- 3 bytes
    rename_i b0 _ b1 _ _ c0 ht3 c1 b2 r2 t ht
    intro _ h2
    exfalso
    simp only at h2
    have e1 : c1 = c0 * 64 + b1 % 64 := by
      show (c0 <<< 6) ||| (b1 &&& 0x3F) = _
      rw [and3F, shl6_or _ _ (Nat.mod_lt _ (by omega))]
    rw [shl6_or _ _ (by omega : t < 64)] at h2
    have hc0 : c0 = 0 := by omega
    have hb1 : b1 % 64 = 0 := by omega
    have := and_shl_testBit _ _ ht3
    rw [hc0] at this
    have h5 := tb20 _ this
    rw [Nat.shiftRight_eq_div_pow] at h5
    omega
  · -- 4 bytes
    rename_i b0 _ b1 _ _ c0 ht4 c1 b2 t ht c2 b3 r3 t3 ht3
    intro _ h2
    exfalso
    simp only at h2
    have e1 : c1 = c0 * 64 + b1 % 64 := by
      show (c0 <<< 6) ||| (b1 &&& 0x3F) = _
      rw [and3F, shl6_or _ _ (Nat.mod_lt _ (by omega))]
    have e2 : c2 = c1 * 64 + t := by
      show (c1 <<< 6) ||| t = _
      rw [shl6_or _ _ (by omega : t < 64)]
    rw [shl6_or _ _ (by omega : t3 < 64)] at h2
    have hc0 : c0 = 0 := by omega
    have hb1 : b1 % 64 = 0 := by omega
    have := and_shl_testBit _ _ ht4.2
    rw [hc0, Nat.shiftRight_eq_div_pow] at this
    by_cases hj : b1 / 2 ^ 4 < 16
    · rw [lead4_tb _ hj (by omega)] at this; exact absurd this (by simp)
    · have hd : lead4T1Bits.getD (b1 / 2 ^ 4) 0 = 0 := by
        rw [List.getD_eq_getElem?_getD, List.getElem?_eq_none (by simp [lead4T1Bits]; omega)]; rfl
      rw [hd] at this; simp at this
  · -- 2 bytes
    rename_i b0 _ b1 r1 _ _ t ht
    intro _ h2
    exfalso
    simp only at h2
    rw [shl6_or _ _ (by omega : t < 64), and1F] at h2
    omega

theorem readU16_space (l : List Nat) :
    (readU16 l).1 = true → (readU16 l).2.1 = 0x20 → l = 0x20 :: (readU16 l).2.2 := by
  fun_cases readU16 l
  all_goals (try (intro h1; simp at h1; done))
  · rename_i c hs hl t r1 ht
    intro _ h2
    exfalso
    simp only at h2
    have hc : 0xD800 ≤ c := by
      have := Nat.and_le_left (n := c) (m := 0xFFFFF800); omega
    rw [shl10, shl10] at h2
    omega
  · intro _ h2; simp only at h2 ⊢; rw [h2]

theorem readU32_space (l : List Nat) :
    (readU32 l).1 = true → (readU32 l).2.1 = 0x20 → l = 0x20 :: (readU32 l).2.2 := by
  fun_cases readU32 l
  · intro h1; simp at h1
  · intro _ h2; simp only at h2 ⊢; rw [h2]

theorem readChar_space (e : Enc) (l : List Nat) :
    (readChar e l).1 = true → (readChar e l).2.1 = 0x20 → l = 0x20 :: (readChar e l).2.2 := by
  cases e
  · exact readU8_space l
  · exact readU16_space l
  · exact readU32_space l

/-- a trailing space in the decoded input was a trailing space code unit -/
theorem decode_last (e : Enc) (l : List Nat) :
    (decode e l).getLast? = some 0x20 → l.getLast? = some 0x20 := by
  refine decode_induction e (fun l => (decode e l).getLast? = some 0x20 → l.getLast? = some 0x20) ?_ ?_ l
  · intro h; simp [decode_nil] at h
  · intro l hne ih h
    rw [decode_step e l hne] at h
    obtain ⟨pre, _, hpre⟩ := readChar_suffix e l hne
    by_cases hr : (readChar e l).2.2 = []
    · rw [hr, decode_nil] at h
      simp only [List.getLast?_singleton, Option.some.injEq] at h
      have hok : (readChar e l).1 = true := by
        cases hb : (readChar e l).1 with
        | true => rfl
        | false => rw [hb] at h; simp at h
      rw [hok, if_pos rfl] at h
      rw [readChar_space e l hok h, hr]; rfl
    · have hd : decode e (readChar e l).2.2 ≠ [] := by
        rw [decode_step e _ hr]; simp
      obtain ⟨d0, dr, hdd⟩ := List.exists_cons_of_ne_nil hd
      rw [hdd, List.getLast?_cons_cons, ← hdd] at h
      exact getLast?_suffix ⟨pre, hpre⟩ (ih h)

theorem doTrim_last (l : List Nat) : doTrim l = [] ∨ ∃ i z, doTrim l = i ++ [z] ∧ 0x20 < z := by
  unfold doTrim
  cases hx : ((l.dropWhile isTrimChar).reverse.dropWhile isTrimChar) with
  | nil => left; rfl
  | cons z x =>
    right
    refine ⟨x.reverse, z, by simp, ?_⟩
    have hne : ((l.dropWhile isTrimChar).reverse.dropWhile isTrimChar) ≠ [] := by rw [hx]; simp
    have := List.head_dropWhile_not isTrimChar hne
    simp only [hx, List.head_cons] at this
    simpa [isTrimChar] using this

theorem prep_last (e : Enc) (units : List Nat) : (prep e (doTrim units)).getLast? ≠ some 0x20 := by
  intro h
  unfold prep at h
  have h2 := decode_last e _ h
  rcases doTrim_last units with h0 | ⟨i, z, h0, hz⟩
  · rw [h0] at h2; simp [removeWs] at h2
  · rw [h0] at h2
    have hk : isRemovable z = false := by simp [isRemovable]; omega
    have : removeWs (i ++ [z]) = removeWs i ++ [z] := by simp [removeWs, List.filter_append, hk]
    rw [this, List.getLast?_concat] at h2
    simp only [Option.some.injEq] at h2
    omega


/-- everything the parser returns satisfies all four parts (given a base that does) -/
theorem parse_all (hi : IdnaStable idna) (e : Enc) (units : List Nat) (base : Option Url)
    (hbase : ∀ b, base = some b → All idna st b) (u : Url)
    (h : parse idna e units base = some u) : All idna st u := by
  unfold parse at h
  have hg := good_urlParse (st := st) hi base hbase (prep e (doTrim units)) (prep_last e units)
  generalize urlParse idna base none {} (prep e (doTrim units)) = r at h hg
  obtain ⟨o, u'⟩ := r
  cases o with
  | ok =>
    simp only [Option.some.injEq] at h
    subst h
    rcases hg with hg | ⟨_, hg⟩
    · exact hg
    · simp at hg
  | failure => simp at h
  | ignored => simp at h

theorem parse_norm (hi : IdnaStable idna) (e : Enc) (units : List Nat) (base : Option Url)
    (hbase : ∀ b, base = some b → NormP idna b) (u : Url)
    (h : parse idna e units base = some u) : NormP idna u :=
  normP_of_all (parse_all hi e units base (fun b hb => all_of_normP (hbase b hb)) u h)



/-! ## Part E: setters -/

/-- dropping the file-only clauses -/
theorem All.weaken {u : Url} (h : All idna st u) : All idna false u :=
  ⟨⟨h.1.scheme, h.1.port, h.1.spHost, h.1.noCred, h.1.fileHost, h.1.user, h.1.pass, h.1.host,
      fun hc => by simp at hc⟩,
    ⟨h.2.1.sp, h.2.1.opq, h.2.1.lst, fun hc => by simp at hc⟩, h.2.2.1, h.2.2.2⟩

/-- adding them back -/
theorem All.strengthen {u : Url} (h : All idna false u)
    (hx : u.isFile = true → hostFileOk u.hostText = true ∧ driveOk u.path = true) : All idna true u :=
  ⟨⟨h.1.scheme, h.1.port, h.1.spHost, h.1.noCred, h.1.fileHost, h.1.user, h.1.pass, h.1.host,
      fun _ hf x hxx => by
        have := (hx hf).1
        simpa [Url.hostText, hxx] using this⟩,
    ⟨h.2.1.sp, h.2.1.opq, h.2.1.lst, fun _ hf => (hx hf).2⟩, h.2.2.1, h.2.2.2⟩

theorem All.fileClauses {u : Url} (h : All idna true u) (hf : u.isFile = true) :
    hostFileOk u.hostText = true ∧ driveOk u.path = true := by
  obtain ⟨x, hx⟩ := h.1.fileHost hf
  refine ⟨?_, h.2.1.drive rfl hf⟩
  have := h.1.hostFile rfl hf x hx
  simpa [Url.hostText, hx] using this

/-! ### `potentially strip trailing spaces from an opaque path` -/

def strip (l : List Nat) : List Nat := (l.reverse.dropWhile (· == 0x20)).reverse

theorem strip_prefix (l : List Nat) : strip l <+: l := by
  refine ⟨(l.reverse.takeWhile (· == 0x20)).reverse, ?_⟩
  unfold strip
  rw [← List.reverse_append, List.takeWhile_append_dropWhile, List.reverse_reverse]

theorem strip_last (l : List Nat) : (strip l).getLast? ≠ some 0x20 := by
  unfold strip
  rw [List.getLast?_reverse]
  have := List.head?_dropWhile_not (· == 0x20) l.reverse
  intro h
  rw [h] at this
  simp at this

theorem norm_stripTrailingSpaces (u : Url) (ha : AuthN idna st u) (hp : PathW st u) (hq : QueryN u)
    (hf : FragN u) : All idna st (stripTrailingSpaces u) := by
  unfold stripTrailingSpaces
  split
  · rename_i hc
    simp only [Bool.and_eq_true, Option.isNone_iff_eq_none] at hc
    obtain ⟨⟨ho, hfn⟩, hqn⟩ := hc
    obtain ⟨h1, h2, h3, h4, _⟩ := hp.opq ho
    have hpre := strip_prefix u.opaquePath
    refine ⟨ha.congr rfl rfl rfl rfl rfl, ⟨hp.sp, fun _ => ⟨h1, h2, ?_, ?_, fun _ _ => strip_last _⟩,
      fun hc => by rw [show u.hasOpaquePath = false from hc] at ho; exact absurd ho (by simp),
      hp.drive⟩, hq.congr rfl rfl, hf.congr rfl⟩
    · intro c hc; exact h3 c (hpre.subset hc)
    · show (strip u.opaquePath).head? ≠ some 0x2F
      intro hh
      apply h4
      obtain ⟨r, hr⟩ := hpre
      cases hs : strip u.opaquePath with
      | nil => rw [hs] at hh; simp at hh
      | cons a t =>
        rw [hs] at hh hr
        show u.opaquePath.head? = some 0x2F
        rw [← hr]; simpa using hh
  · rename_i hc
    refine ⟨ha, ?_, hq, hf⟩
    cases ho : u.hasOpaquePath with
    | false => exact hp.toN_list ho
    | true =>
      refine hp.toN rfl rfl rfl rfl rfl ?_
      simp only [ho, Bool.true_and, Bool.and_eq_true, Option.isNone_iff_eq_none, not_and] at hc
      by_cases hfn : u.fragment = none
      · exact Or.inl (hc hfn)
      · exact Or.inr hfn

/-! ### the setters other than `protocol` -/

theorem canHave_iff {u : Url} :
    canHaveUsernamePasswordPort u = true ↔ u.hostText ≠ [] ∧ u.isFile = false := by
  simp [canHaveUsernamePasswordPort]

theorem all_setUserinfo (u : Url) (h : All idna st u) (hc : canHaveUsernamePasswordPort u = true)
    (un pw : List Nat) (hun : C02.userinfoOk un = true) (hpw : C02.userinfoOk pw = true) :
    All idna st { u with username := un, password := pw } := by
  obtain ⟨ha, hp, hq, hf⟩ := h
  obtain ⟨hc1, hc2⟩ := canHave_iff.1 hc
  refine ⟨⟨ha.scheme, ha.port, ha.spHost, ?_, ha.fileHost, hun, hpw, ha.host, ha.hostFile⟩,
    hp.congr rfl rfl rfl rfl rfl (fun a b => ⟨a, b⟩), hq.congr rfl rfl, hf.congr rfl⟩
  intro hh
  rcases hh with hh | hh
  · exact absurd hh hc1
  · exact absurd (show u.isFile = true from hh) (by simp [hc2])

theorem not_opaque_of_host {u : Url} (hp : PathN st u) (hh : u.hostText ≠ []) : u.hasOpaquePath = false := by
  cases ho : u.hasOpaquePath with
  | false => rfl
  | true => exact absurd (hp.opq ho).1 (hostText_ne hh)

theorem all_hostState_ov (hi : IdnaStable idna) (o : Override) (u : Url)
    (h : All idna st u) (hno : u.hasOpaquePath = false) (p : List Nat) :
    All idna st (hostState idna (some o) u p).url := by
  obtain ⟨ha, hp, hq, hf⟩ := h
  refine norm_hostState hi (some o) u p ?_ ?_ (Or.inl ⟨rfl, hp, hno⟩) hq hf (fun _ => ⟨ha, hp, hq, hf⟩)
    (fun hn => by simp at hn) (Or.inl rfl)
  · intro _ hfile
    rcases good_fileHostState hi (some o) u p ha hfile (Or.inl ⟨rfl, hp, hno⟩) hq hf with hg | ⟨hg, _⟩
    · exact hg
    · simp at hg
  · intro hnf
    exact ⟨ha.scheme, ha.port, hnf, ha.user, ha.pass⟩

theorem all_run_port (u : Url) (h : All idna st u)
    (hc : canHaveUsernamePasswordPort u = true) (p : List Nat) :
    All idna st (urlParse idna none (some .port) u p).url := by
  obtain ⟨ha, hp, hq, hf⟩ := h
  obtain ⟨hc1, hc2⟩ := canHave_iff.1 hc
  unfold urlParse
  exact norm_portState (some .port) u p ha hc1 hc2 (Or.inl ⟨rfl, hp, not_opaque_of_host hp hc1⟩) hq hf
    (fun _ => ⟨ha, hp, hq, hf⟩) (Or.inl rfl)

theorem all_run_pathStart (u : Url) (h : All idna st u) (ho : u.hasOpaquePath = false)
    (p : List Nat) : All idna st (urlParse idna none (some .pathStart) { u with path := [] } p).url := by
  obtain ⟨ha, hp, hq, hf⟩ := h
  unfold urlParse
  exact norm_pathStartState (some .pathStart) _ p (ha.congr rfl rfl rfl rfl rfl)
    ⟨ho, (hp.lst ho).1, by simp, fun _ _ => rfl⟩ (hq.congr rfl rfl) (hf.congr rfl) (fun hn => by simp at hn)

/-! ### the `protocol` setter keeps everything but the two file-only clauses -/

theorem all_setScheme (u : Url) (h : All idna false u) (scheme : List Nat) (hs : C02.schemeOk scheme = true)
    (h1 : (u.isSpecial != isSpecialScheme scheme) = false)
    (h2 : (isFileScheme scheme && (u.hasCredentials || u.port.isSome)) = false)
    (h3 : ¬ (u.isFile = true ∧ u.hostText = [])) :
    All idna false (if (u.port.isSome && decide (defaultPort scheme = u.port)) = true
      then ({ u with scheme := scheme, port := none } : Url) else { u with scheme := scheme }) := by
  obtain ⟨ha, hp, hq, hf⟩ := h
  have hsp : isSpecialScheme scheme = u.isSpecial := by
    cases hx : u.isSpecial <;> cases hy : isSpecialScheme scheme <;> simp [hx, hy] at h1 ⊢
  have hfile : isFileScheme scheme = true → u.username = [] ∧ u.password = [] ∧ u.port = none := by
    intro hfs
    simp only [hfs, Bool.true_and, Bool.or_eq_false_iff, Url.hasCredentials, decide_eq_false_iff_not,
      ne_eq, Decidable.not_not] at h2
    refine ⟨h2.1.1, h2.1.2, ?_⟩
    cases hpt : u.port with
    | none => rfl
    | some x => rw [hpt] at h2; simp at h2
  have hhost : isSpecialScheme scheme = true → ∃ h, u.host = some h ∧ h.text ≠ [] := by
    intro hss
    rw [hsp] at hss
    cases huf : u.isFile with
    | false => exact ha.spHost hss huf
    | true =>
      obtain ⟨h, hh⟩ := ha.fileHost huf
      refine ⟨h, hh, fun ht => h3 ⟨huf, ?_⟩⟩
      simp [Url.hostText, hh, ht]
  -- the record with any admissible port
  have key : ∀ po : Option Nat, portOk scheme po = true → (u.port = none → po = none) →
      All idna false ({ u with scheme := scheme, port := po } : Url) := by
    intro po hpo hpn
    refine ⟨⟨hs, hpo, fun hss _ => hhost hss, ?_, fun hfs => ?_, ha.user, ha.pass, ?_,
        fun hc => by simp at hc⟩,
      ⟨fun hss => hp.sp (by rw [← hsp]; exact hss), hp.opq, ?_, fun hc => by simp at hc⟩, ?_, hf.congr rfl⟩
    · intro hh
      rcases hh with hh | hh
      · obtain ⟨a, b, c⟩ := ha.noCred (Or.inl hh)
        exact ⟨a, b, hpn c⟩
      · obtain ⟨a, b, c⟩ := hfile hh
        exact ⟨a, b, hpn c⟩
    · obtain ⟨h, hh, _⟩ := hhost (C08.file_special hfs)
      exact ⟨h, hh⟩
    · intro x hx
      show HostN idna (isSpecialScheme scheme) x
      rw [hsp]; exact ha.host x hx
    · intro ho
      obtain ⟨a, b, c⟩ := hp.lst ho
      refine ⟨a, ?_, ?_⟩
      · intro seg hseg
        show segOk (isSpecialScheme scheme) seg = true
        rw [hsp]; exact b seg hseg
      · intro hns
        exact c (by rw [← hsp]; exact hns)
    · show qOk (isSpecialScheme scheme) u.query = true
      rw [hsp]; exact hq
  split
  · exact key none rfl (fun _ => rfl)
  · rename_i hc
    refine key u.port ?_ (fun h => h)
    cases hpt : u.port with
    | none => rfl
    | some n =>
      have hold := ha.port
      rw [hpt] at hold
      simp only [portOk, Bool.and_eq_true, decide_eq_true_eq, bne_iff_ne, ne_eq] at hold ⊢
      refine ⟨hold.1, fun hd => hc ?_⟩
      simp [hpt, hd]

theorem all_schemeYes (u : Url) (h : All idna false u) (scheme : List Nat) (hs : C02.schemeOk scheme = true) :
    All idna false (if (u.isSpecial != isSpecialScheme scheme) = true then (⟨.ignored, u⟩ : Res)
      else if (isFileScheme scheme && (u.hasCredentials || u.port.isSome)) = true then ⟨.ignored, u⟩
      else if (u.isFile && decide (u.hostText = [])) = true then ⟨.ignored, u⟩
      else
        ⟨.ok, if (u.port.isSome && decide (defaultPort scheme = u.port)) = true
          then ({ u with scheme := scheme, port := none } : Url) else { u with scheme := scheme }⟩).url := by
  split
  · exact h
  · rename_i h1
    split
    · exact h
    · rename_i h2
      split
      · exact h
      · rename_i h3
        exact all_setScheme u h scheme hs (by simpa using h1) (by simpa using h2) (by simpa using h3)

theorem all_schemeState_ov (u : Url) (h : All idna false u) (c0 : Nat) (r0 : List Nat)
    (h0 : isAlpha c0 = true) :
    All idna false (schemeState idna none (some .schemeStart) u (c0 :: r0)).url := by
  have hs : C02.schemeOk ((c0 :: r0.takeWhile isSchemeChar).map (· ||| 0x20)) = true := by
    rw [schemeOk_eq]
    exact C08.scheme_lower_ok c0 _ h0 (fun c hc => (C08.mem_takeWhile hc).1)
  unfold schemeState
  dsimp only
  generalize (c0 :: r0.takeWhile isSchemeChar).map (· ||| 0x20) = scheme at hs ⊢
  cases hrest : List.dropWhile isSchemeChar r0 with
  | nil =>
    simp only [Option.isSome_some, if_true]
    exact all_schemeYes u h scheme hs
  | cons c tl =>
    dsimp only
    by_cases hc : (c == 0x3A) = true
    · rw [if_pos hc]
      simp only [Option.isSome_some, if_true]
      exact all_schemeYes u h scheme hs
    · rw [if_neg hc]
      simp only [Option.isNone_some, Bool.false_eq_true, if_false]
      exact h

theorem all_run_schemeStart (u : Url) (h : All idna false u) (p : List Nat) :
    All idna false (urlParse idna none (some .schemeStart) u p).url := by
  unfold urlParse
  cases p with
  | nil => simp only [Option.isNone_some, Bool.false_eq_true, if_false]; exact h
  | cons c r =>
    dsimp only
    split
    · rename_i h0; exact all_schemeState_ov u h _ _ h0
    · simp only [Option.isNone_some, Bool.false_eq_true, if_false]; exact h

/-- every setter except `protocol` keeps all parts, with or without the file-only clauses (also when it
    reports failure); `protocol` keeps all parts but the file-only clauses -/
theorem set_all (hi : IdnaStable idna) (s : Setter) (e : Enc) (units : List Nat) (u : Url)
    (h : All idna st u) (hs : s = .protocol → st = false) : All idna st (setValid idna s e units u).1 := by
  obtain ⟨ha, hp, hq, hf⟩ := h
  unfold setValid
  cases s with
  | href =>
    dsimp only
    cases hpr : parse idna e units none with
    | none => exact ⟨ha, hp, hq, hf⟩
    | some u' => exact parse_all hi e units none (fun b hb => by simp at hb) u' hpr
  | protocol =>
    have := hs rfl
    subst this
    exact all_run_schemeStart u ⟨ha, hp, hq, hf⟩ _
  | username =>
    dsimp only
    split
    · rename_i hc
      exact all_setUserinfo u ⟨ha, hp, hq, hf⟩ hc _ _ (userinfo_fix _) ha.pass
    · exact ⟨ha, hp, hq, hf⟩
  | password =>
    dsimp only
    split
    · rename_i hc
      exact all_setUserinfo u ⟨ha, hp, hq, hf⟩ hc _ _ ha.user (userinfo_fix _)
    · exact ⟨ha, hp, hq, hf⟩
  | host =>
    dsimp only
    split
    · rename_i ho
      unfold urlParse
      exact all_hostState_ov hi _ u ⟨ha, hp, hq, hf⟩ (by simpa using ho) _
    · exact ⟨ha, hp, hq, hf⟩
  | hostname =>
    dsimp only
    split
    · rename_i ho
      unfold urlParse
      exact all_hostState_ov hi _ u ⟨ha, hp, hq, hf⟩ (by simpa using ho) _
    · exact ⟨ha, hp, hq, hf⟩
  | port =>
    dsimp only
    split
    · rename_i hc
      split
      · exact ⟨ha.setPort_none, hp.congr rfl rfl rfl rfl rfl (fun a b => ⟨a, b⟩), hq.congr rfl rfl, hf.congr rfl⟩
      · exact all_run_port u ⟨ha, hp, hq, hf⟩ hc _
    · exact ⟨ha, hp, hq, hf⟩
  | pathname =>
    dsimp only
    split
    · rename_i ho
      exact all_run_pathStart u ⟨ha, hp, hq, hf⟩ (by simpa using ho) _
    · exact ⟨ha, hp, hq, hf⟩
  | search =>
    dsimp only
    split
    · exact norm_stripTrailingSpaces _ (ha.congr rfl rfl rfl rfl rfl) (hp.toW.congr rfl rfl rfl rfl rfl)
        (queryN_none _ rfl) (hf.congr rfl)
    · unfold urlParse
      exact norm_queryState (some .query) u _ ha hp.toW hf
  | hash =>
    dsimp only
    split
    · exact norm_stripTrailingSpaces _ (ha.congr rfl rfl rfl rfl rfl) (hp.toW.congr rfl rfl rfl rfl rfl)
        (hq.congr rfl rfl) (fragN_none _ rfl)
    · unfold urlParse
      exact norm_fragmentState u _ ha hp.toW hq

/-! ### `url_search_params::update` -/

theorem form_keeps : ∀ c, c < 128 → C15.isFormChar c = true →
    specialQueryNoEnc c = true ∧ queryNoEnc c = true := by decide +kernel

theorem update_all (o : UrlObj) (hu : ∀ u, o.url = some u → All idna st u)
    (hsp : ∀ p, o.sp = some p → ∀ pr ∈ p.list, (∀ b ∈ pr.1, b < 256) ∧ (∀ b ∈ pr.2, b < 256)) :
    ∀ u', o.update.url = some u' → All idna st u' := by
  intro u' hu'
  unfold UrlObj.update at hu'
  split at hu'
  · rename_i u p hou hop
    obtain ⟨ha, hp, hq, hf⟩ := hu u hou
    split at hu'
    · simp only [Option.some.injEq] at hu'
      subst hu'
      exact norm_stripTrailingSpaces _ (ha.congr rfl rfl rfl rfl rfl) (hp.toW.congr rfl rfl rfl rfl rfl)
        (queryN_none _ rfl) (hf.congr rfl)
    · simp only [Option.some.injEq] at hu'
      subst hu'
      refine ⟨ha.congr rfl rfl rfl rfl rfl, hp.toW.toN rfl rfl rfl rfl rfl (Or.inl (by simp)), ?_, hf.congr rfl⟩
      show queryOk u.isSpecial (formSerialize p.list) = true
      rw [queryOk, List.all_eq_true]
      intro c hc
      have hfc := C15.serialize_alphabet p.list (hsp p hop) c hc
      have hlt := C08.isFormChar_lt c hfc
      obtain ⟨a, b⟩ := form_keeps c hlt hfc
      simp only [keeps, Bool.and_eq_true, decide_eq_true_eq]
      refine ⟨by omega, ?_⟩
      cases u.isSpecial
      · exact b
      · exact a
  · exact hu u' hu'

/-! ## a sample IDNA function satisfying `IdnaStable` (for the non-vacuity examples) -/

/-- `C08.sampleIdna` (ASCII lower-casing, failure on empty or non-ASCII input) is stable -/
theorem sampleIdna_stable : IdnaStable C08.sampleIdna := by
  refine ⟨C08.sampleIdna_canon.out_ascii, ?_⟩
  intro s r h _ _ _
  obtain ⟨hne, hasc⟩ := C08.sampleIdna_canon.out_ascii s r h
  unfold C08.sampleIdna
  rw [if_neg hne, if_pos (by
    rw [List.all_eq_true]; intro c hc; simpa using (hasc c hc).1),
    map_toLower_id r (fun c hc => (hasc c hc).2)]

end Upa.Proofs.C02b
