import Upa.Proofs.SetRepApiSim
import Upa.Proofs.FilePath
/-
  Helpers for C05d, part 3: `Rep.toRecord` inverts `layout` (on records whose unused path field is
  empty and whose path segments contain no "/").
-/
namespace Upa.Proofs.SetRepApi
open Upa Upa.Impl Upa.Proofs.C05 Upa.Proofs.SetRep Upa.Props

/-- the shape of a record that `Rep.toRecord` can recover: the path field that `hasOpaquePath` does
    not select is empty (the parser writes only the selected one), and no segment of a list path
    contains "/" (segments are cut at "/"; a "/" inside a segment would be read back as a cut) -/
def RecShape (u : Url) : Prop :=
  (u.hasOpaquePath = true → u.path = []) ∧
  (u.hasOpaquePath = false → u.opaquePath = [] ∧ ∀ seg ∈ u.path, ∀ c ∈ seg, c ≠ 0x2F)

instance (u : Url) : Decidable (RecShape u) := by unfold RecShape; infer_instance

/-! ### splitting a serialised list path -/

theorem split_join : ∀ (t : List (List Nat)) (s : List Nat), (∀ c ∈ s, c ≠ 0x2F) →
    (∀ seg ∈ t, ∀ c ∈ seg, c ≠ 0x2F) →
    splitOnP (· == 0x2F) (s ++ t.flatMap (fun seg => 0x2F :: seg)) = s :: t := by
  intro t
  induction t with
  | nil =>
    intro s hs _
    rw [C17.splitOnP_append_nosep _ _ _ (fun c hc => by simpa using hs c hc)]
    simp [C17.splitOnP_nil]
  | cons s2 t2 ih =>
    intro s hs ht
    rw [C17.splitOnP_append_nosep _ _ _ (fun c hc => by simpa using hs c hc)]
    simp only [List.flatMap_cons, List.cons_append]
    rw [C17.splitOnP_cons_sep _ _ _ (by simp),
      ih s2 (ht s2 List.mem_cons_self) (fun seg hseg => ht seg (List.mem_cons_of_mem _ hseg))]
    simp

theorem splitPathText_flatMap (p : List (List Nat)) (hp : ∀ seg ∈ p, ∀ c ∈ seg, c ≠ 0x2F) :
    splitPathText (p.flatMap (fun seg => 0x2F :: seg)) = p := by
  cases p with
  | nil => rfl
  | cons s t =>
    simp only [List.flatMap_cons, List.cons_append, splitPathText]
    exact split_join t s (hp s List.mem_cons_self) (fun seg hseg => hp seg (List.mem_cons_of_mem _ hseg))

/-! ### the part views of a layout -/

theorem partView_scheme_layout (u : Url) : (layout u).partView SCHEME = u.scheme := by
  unfold Rep.partView
  rw [if_pos rfl, pe_scheme, layout_norm]
  exact slice_eq (a := []) (b := u.scheme)
    (c := [0x3A] ++ sepSeg u ++ userSeg u ++ passSeg u ++ atSeg u ++ u.hostText ++ portSeg u ++
      prefixSeg u ++ pathText u ++ querySeg u ++ fragSeg u)
    (by simp [segNorm]) rfl (by simp [oScheme])

theorem partView_query_layout (u : Url) : (layout u).partView QUERY = (querySeg u).drop 1 := by
  show (if (layout u).pe QUERY > (layout u).pe PATH + 1 then
    slice (layout u).norm ((layout u).pe PATH + 1) ((layout u).pe QUERY) else []) = _
  rw [pe_query, pe_path, layout_norm]
  exact view1_eq
    (a := u.scheme ++ [0x3A] ++ sepSeg u ++ userSeg u ++ passSeg u ++ atSeg u ++ u.hostText ++
      portSeg u ++ prefixSeg u ++ pathText u)
    (c := fragSeg u)
    (by simp [segNorm]) (by simp [oPath, oPrefix, oPort, oHost, oHostStart, oPass, oUser, oSep, oScheme]; omega)
    (by simp [oQuery, oPath, oPrefix, oPort, oHost, oHostStart, oPass, oUser, oSep, oScheme]; omega)

theorem partView_fragment_layout (u : Url) : (layout u).partView FRAGMENT = (fragSeg u).drop 1 := by
  show (if (layout u).pe FRAGMENT > (layout u).pe QUERY + 1 then
    slice (layout u).norm ((layout u).pe QUERY + 1) ((layout u).pe FRAGMENT) else []) = _
  rw [pe_query, pe_fragment, layout_norm]
  exact view1_eq
    (a := u.scheme ++ [0x3A] ++ sepSeg u ++ userSeg u ++ passSeg u ++ atSeg u ++ u.hostText ++
      portSeg u ++ prefixSeg u ++ pathText u ++ querySeg u)
    (c := [])
    (by simp [segNorm]) (by simp [oQuery, oPath, oPrefix, oPort, oHost, oHostStart, oPass, oUser, oSep, oScheme]; omega)
    (by simp [oFragment, oQuery, oPath, oPrefix, oPort, oHost, oHostStart, oPass, oUser, oSep, oScheme]; omega)

theorem hostKind_roundtrip (k : HostKind) : hostKindOfCode (hostKindCode k) = k := by
  cases k <;> rfl

/-! ### `toRecord` of a layout, of a representation -/

theorem toRecord_layout (u : Url) (wf : RecWF u) (sh : RecShape u) : (layout u).toRecord = u := by
  obtain ⟨_, g2, g3, _, g5, g6, g7, _⟩ := C05_getters u wf
  unfold Rep.toRecord
  simp only [fill_layout u wf.1]
  have e1 : (layout u).partView USERNAME = u.username := g2
  have e2 : (layout u).partView PASSWORD = u.password := g3
  have e3 : (layout u).partView HOST = u.hostText := g5
  have e4 : (layout u).partView PORT = getPort u := g6
  have e5 : (layout u).partView PATH = pathText u := g7
  rw [partView_scheme_layout, e1, e2, e3, e4, e5, partView_query_layout, partView_fragment_layout]
  have f1 : (layout u).hostNotNull = u.host.isSome := rfl
  have f2 : (layout u).portNotNull = u.port.isSome := rfl
  have f3 : (layout u).queryNotNull = u.query.isSome := rfl
  have f4 : (layout u).fragmentNotNull = u.fragment.isSome := rfl
  have f5 : (layout u).opaquePath = u.hasOpaquePath := rfl
  have f6 : (layout u).hostType = match u.host with | some h => hostKindCode h.kind | none => 0 := rfl
  rw [f1, f2, f3, f4, f5, f6]
  obtain ⟨scheme, username, password, host, port, hasOpaque, opaquePath, path, query, fragment⟩ := u
  simp only [Url.mk.injEq, true_and]
  unfold RecShape at sh
  simp only at sh
  refine ⟨?_, ?_, ?_, ?_, ?_, ?_⟩
  · cases host with
    | none => rfl
    | some hd =>
      simp only [Option.isSome_some, if_true, Url.hostText, hostKind_roundtrip]
  · cases port with
    | none => rfl
    | some p =>
      simp only [Option.isSome_some, if_true, getPort, (C02.toDecimal_spec p).2.1]
  · cases hasOpaque with
    | true => simp [pathText]
    | false => simp [(sh.2 rfl).1]
  · cases hasOpaque with
    | true => simp [sh.1 rfl]
    | false =>
      simp only [Bool.false_eq_true, if_false, pathText]
      exact splitPathText_flatMap path (sh.2 rfl).2
  · cases query with
    | none => rfl
    | some q => simp [querySeg]
  · cases fragment with
    | none => rfl
    | some f => simp [fragSeg]

theorem toRecord_of_repFor {r : Rep} {u : Url} (wf : RecWF u) (sh : RecShape u) (h : RepFor r u) :
    r.toRecord = u := by
  have hf := fill_eq wf h
  have : r.toRecord = (layout u).toRecord := by
    unfold Rep.toRecord
    simp only [hf, fill_layout u wf.1]
  rw [this, toRecord_layout u wf sh]

/-! ### `RecShape` is kept by every setter -/

theorem RecShape.congr {u v : Url} (sh : RecShape u) (h1 : v.hasOpaquePath = u.hasOpaquePath)
    (h2 : v.opaquePath = u.opaquePath) (h3 : v.path = u.path) : RecShape v := by
  unfold RecShape at sh ⊢
  rw [h1, h2, h3]
  exact sh

theorem pathStart_frame (ov : Override) (u : Url) (p : List Nat) :
    ∃ p', (pathStartState (some ov) { u with path := [] } p).url = { u with path := p' } ∧
      ∀ s ∈ p', s.all C08.segChar = true := by
  have hpp : ∀ s, ∃ p', (pathState (some ov) { u with path := [] } s).url = { u with path := p' } ∧
      ∀ s ∈ p', s.all C08.segChar = true := by
    intro s
    rw [pathState_ov]
    obtain ⟨p', he, hseg, _⟩ := C08.parsePath_spec { u with path := [] } s (by simp)
    exact ⟨p', by rw [he], hseg⟩
  unfold pathStartState
  split
  · split
    · split
      · exact hpp _
      · exact hpp _
    · exact hpp _
  · split
    · simp only [Option.isNone_some, Bool.false_eq_true, if_false]
      split
      · exact hpp _
      · exact hpp _
    · split
      · exact ⟨[[]], rfl, by simp⟩
      · exact ⟨[], rfl, by simp⟩

theorem segChar_ne_slash {s : List Nat} (h : s.all C08.segChar = true) : ∀ c ∈ s, c ≠ 0x2F := by
  intro c hc
  have := List.all_eq_true.1 h c hc
  simp only [C08.segChar, Bool.and_eq_true, bne_iff_ne, ne_eq] at this
  exact this.2

theorem recShape_strip {u : Url} (sh : RecShape u) : RecShape (stripTrailingSpaces u) := by
  unfold stripTrailingSpaces
  split
  · rename_i hc
    simp only [Bool.and_eq_true] at hc
    have ho : u.hasOpaquePath = true := hc.1.1
    exact ⟨fun _ => sh.1 ho, fun hf => by
      rw [show ({ u with opaquePath := (u.opaquePath.reverse.dropWhile (· == 0x20)).reverse } : Url).hasOpaquePath
        = u.hasOpaquePath from rfl, ho] at hf
      simp at hf⟩
  · exact sh

theorem recShape_setter (idna : Idna) (s : Setter) (e : Enc) (units : List Nat) {u : Url}
    (hs : s ≠ .href) (sh : RecShape u) : RecShape (setValid idna s e units u).1 := by
  cases s with
  | href => exact absurd rfl hs
  | protocol =>
    show RecShape (urlParse idna none (some .schemeStart) u (prep e units)).url
    cases prep e units with
    | nil => exact sh
    | cons c0 r0 =>
      rw [urlParse_schemeStart_cons]
      split
      · split
        · unfold protoTailRec
          split
          · exact sh
          · split
            · exact sh
            · split
              · exact sh
              · simp only
                split
                · exact sh.congr rfl rfl rfl
                · exact sh.congr rfl rfl rfl
        · exact sh
      · exact sh
  | username => unfold setValid; simp only; split <;> exact sh
  | password => unfold setValid; simp only; split <;> exact sh
  | host =>
    unfold setValid; simp only
    split
    · rcases hostState_frame idna .host u (prep e units) with h | ⟨hd, po, h⟩
      · show RecShape (hostState idna (some .host) u (prep e units)).url
        rw [h]; exact sh
      · show RecShape (hostState idna (some .host) u (prep e units)).url
        rw [h]; exact sh.congr rfl rfl rfl
    · exact sh
  | hostname =>
    unfold setValid; simp only
    split
    · rcases hostState_frame idna .hostname u (prep e units) with h | ⟨hd, po, h⟩
      · show RecShape (hostState idna (some .hostname) u (prep e units)).url
        rw [h]; exact sh
      · show RecShape (hostState idna (some .hostname) u (prep e units)).url
        rw [h]; exact sh.congr rfl rfl rfl
    · exact sh
  | port =>
    unfold setValid; simp only
    split
    · split
      · exact sh
      · obtain ⟨po, h⟩ := portState_frame .port u (prep e units)
        show RecShape (portState (some .port) u (prep e units)).url
        rw [h]; exact sh.congr rfl rfl rfl
    · exact sh
  | pathname =>
    unfold setValid; simp only
    split
    · rename_i ho
      have ho' : u.hasOpaquePath = false := by simpa using ho
      obtain ⟨p', h, hseg⟩ := pathStart_frame .pathStart u (prep e units)
      show RecShape (pathStartState (some .pathStart) { u with path := [] } (prep e units)).url
      rw [h]
      exact ⟨fun hc => by
          rw [show ({ u with path := p' } : Url).hasOpaquePath = u.hasOpaquePath from rfl, ho'] at hc
          simp at hc,
        fun _ => ⟨(sh.2 ho').1, fun seg hseg' => segChar_ne_slash (hseg seg hseg')⟩⟩
    · exact sh
  | search =>
    unfold setValid
    cases units with
    | nil => exact recShape_strip (u := { u with query := none }) sh
    | cons c rest =>
      show RecShape (queryState (some .query) u _).url
      unfold queryState
      simp only [Option.isSome_some, if_true]
      exact sh
  | hash =>
    unfold setValid
    cases units with
    | nil => exact recShape_strip (u := { u with fragment := none }) sh
    | cons c rest => exact sh

end Upa.Proofs.SetRepApi
